/-
The induction on fuel over the mutual block of the evaluator model (see Proofs/Balance.lean for `Pres`).
-/
import ZnVerif.Proofs.BalanceExpr
import ZnVerif.Proofs.BalanceStmt
set_option linter.unusedSectionVars false
set_option linter.unusedSimpArgs false
set_option linter.unusedVariables false

namespace ZnVerif.Proofs.Balance
open ZnVerif.Model ZnVerif.Proofs.Calls

variable {ν : Type} [NumOps ν]

section mutualBlock
variable {R : VM ν → VM ν → Prop} [ScopePrims0 R]

/-- every function of the evaluator, at every fuel, relates start and end state by `R` on every outcome -/
theorem allPres : ∀ n : Nat, AllPres R (ν := ν) n
  | 0 => by
    constructor <;> intros <;> exact Pres.outOfFuel
  | n+1 => by
    have ih := allPres n
    exact {
      evalExpr := evalExpr_succ n ih
      memberIV := memberIV_succ n ih
      execFunction := execFunction_succ n ih
      execDirectFunction := execDirectFunction_succ n ih
      execMethodFunction := execMethodFunction_succ n ih
      construct := construct_succ n ih
      evalExecBlock := evalExecBlock_succ n ih
      handleException := handleException_succ n ih
      evalStmtBlock := evalStmtBlock_succ n ih
      evalPureStmtBlock := evalPureStmtBlock_succ n ih
      evalStmt := evalStmt_succ n ih
      evalClassDecl := evalClassDecl_succ n ih
      evalFuncDecl := evalFuncDecl_succ n
      evalCtorDecl := evalCtorDecl_succ n }

end mutualBlock

end ZnVerif.Proofs.Balance
