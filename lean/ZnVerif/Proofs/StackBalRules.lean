/-
Call-stack balance of the evaluator model, part 2: the judgments `Bal`, `BalNS`, `BalIn` (see Proofs/StackBal.lean
for the vocabulary) and their composition rules.
-/
import ZnVerif.Proofs.StackBal
set_option linter.unusedSectionVars false
set_option linter.unusedSimpArgs false
set_option linter.unusedVariables false

namespace ZnVerif.Proofs.StackBal
open ZnVerif.Model ZnVerif.Proofs.Calls

variable {ν : Type} [NumOps ν]

/-- frames are only added above the starting stack (every outcome); a normal end or a loop signal leaves the starting
stack up to `line` / `ret` of its top frame; the current module stays the module of the top frame -/
structure Bal {α} (m : M ν α) : Prop where
  ext : ∀ s, Ext s.stack (m s).2.stack
  same : ∀ s, okOrSig (m s).1 = true → SameStack s.stack (m s).2.stack
  inv : ∀ s, CsInv s → CsInv (m s).2

/-- balanced, and never ends with a loop signal -/
structure BalNS {α} (m : M ν α) : Prop extends Bal m where
  nosig : ∀ s, resIsSig (m s).1 = false

/-- code running right after a `pushFrame`: a normal end has popped that frame (exactly the stack below it is left,
with its module current); otherwise frames are only added; never a loop signal -/
structure BalIn {α} (m : M ν α) : Prop where
  ext : ∀ s fr rest, s.stack = fr :: rest → Ext rest (m s).2.stack
  okpop : ∀ s fr rest, s.stack = fr :: rest → resIsOk (m s).1 = true →
    (m s).2.stack = rest ∧ (m s).2.csModuleID = topModule rest
  nosig : ∀ s, resIsSig (m s).1 = false
  inv : ∀ s, CsInv s → CsInv (m s).2

theorem okOrSig_of_ok {α} {r : Res α} (h : resIsOk r = true) : okOrSig r = true := by simp [okOrSig, h]
theorem okOrSig_nosig {α} {r : Res α} (h : resIsSig r = false) (h2 : okOrSig r = true) : resIsOk r = true := by
  simpa [okOrSig, h] using h2

theorem CsInv.of_same {s s' : VM ν} (h : s'.stack = s.stack) (h2 : s'.csModuleID = s.csModuleID) (hi : CsInv s) :
    CsInv s' := by unfold CsInv at *; rw [h, h2, hi]

section rules
variable {α β : Type}

theorem BalNS.ofQuiet {m : M ν α} (h : Quiet m) : BalNS m :=
  { ext := fun s => by rw [h.stack]; exact Ext.refl _
    same := fun s _ => by rw [h.stack]; exact SameStack.refl _
    inv := fun s hi => CsInv.of_same (h.stack s) (h.cs s) hi
    nosig := h.nosig }

theorem Bal.ofQuiet {m : M ν α} (h : Quiet m) : Bal m := (BalNS.ofQuiet h).toBal

theorem Bal.bind {m : M ν α} {f : α → M ν β} (hm : Bal m) (hf : ∀ a, Bal (f a)) : Bal (m >>= f) := by
  refine ⟨fun s => ?_, fun s => ?_, fun s => ?_⟩ <;>
  · rw [M_bind_def]
    have h1 := hm.ext s; have h2 := hm.same s; have h3 := hm.inv s
    rcases h : m s with ⟨r, s'⟩
    rw [h] at h1 h2 h3
    cases r <;> simp only <;> first
      | exact h1 | exact h2 | exact h3
      | exact (h2 rfl).ext.trans ((hf _).ext s')
      | (intro hk; exact (h2 rfl).trans ((hf _).same s' hk))
      | (intro hi; exact (hf _).inv s' (h3 hi))

theorem BalNS.bind {m : M ν α} {f : α → M ν β} (hm : BalNS m) (hf : ∀ a, BalNS (f a)) : BalNS (m >>= f) :=
  { Bal.bind hm.toBal (fun a => (hf a).toBal) with
    nosig := fun s => by
      rw [M_bind_def]
      have h3 := hm.nosig s
      rcases h : m s with ⟨r, s'⟩
      rw [h] at h3
      cases r <;> simp only <;> first | exact h3 | exact (hf _).nosig s' }

/-- error handling: the handler `k` never turns a plain error (or panic / fuel) of `m` into a value or a loop signal -/
theorem Bal.tryCatch {m : M ν α} {k : Res α → M ν β} (hm : Bal m) (hk : ∀ r, Bal (k r))
    (hrec : ∀ r, okOrSig r = false → ∀ s, okOrSig (k r s).1 = false) : Bal (Model.tryCatch m k) := by
  refine ⟨fun s => ?_, fun s => ?_, fun s => ?_⟩ <;> unfold Model.tryCatch <;> simp only
  · exact (hm.ext s).trans ((hk _).ext _)
  · intro hfin
    have hr : okOrSig (m s).1 = true := by
      cases hc : okOrSig (m s).1 with
      | true => rfl
      | false => rw [hrec _ hc] at hfin; cases hfin
    exact (hm.same s hr).trans ((hk _).same _ hfin)
  · intro hi; exact (hk _).inv _ (hm.inv s hi)

theorem BalNS.tryCatch {m : M ν α} {k : Res α → M ν β} (hm : BalNS m) (hk : ∀ r, resIsSig r = false → BalNS (k r))
    (hrec : ∀ r, okOrSig r = false → ∀ s, okOrSig (k r s).1 = false) : BalNS (Model.tryCatch m k) := by
  have hk' := fun s => hk (m s).1 (hm.nosig s)
  refine { ext := fun s => ?_, same := fun s => ?_, inv := fun s => ?_, nosig := fun s => ?_ } <;>
    unfold Model.tryCatch <;> simp only
  · exact (hm.ext s).trans ((hk' s).ext _)
  · intro hfin
    have hr : okOrSig (m s).1 = true := by
      cases hc : okOrSig (m s).1 with
      | true => rfl
      | false => rw [hrec _ hc] at hfin; cases hfin
    exact (hm.same s hr).trans ((hk' s).same _ hfin)
  · intro hi; exact (hk' s).inv _ (hm.inv s hi)
  · exact (hk' s).nosig _

theorem Bal.pure (a : α) : Bal (pure a : M ν α) := Bal.ofQuiet (Quiet.pure a)
theorem BalNS.pure (a : α) : BalNS (pure a : M ν α) := BalNS.ofQuiet (Quiet.pure a)
theorem Bal.const (r : Res α) : Bal (fun s => (r, s) : M ν α) :=
  ⟨fun s => Ext.refl _, fun s _ => SameStack.refl _, fun s hi => hi⟩
theorem Bal.throwE (e : Err) : Bal (throwE e : M ν α) := Bal.const _
theorem Bal.liftRes (r : Res α) : Bal (liftRes r : M ν α) := Bal.const _
theorem BalNS.liftRes {r : Res α} (h : resIsSig r = false) : BalNS (liftRes r : M ν α) :=
  { Bal.const r with nosig := fun _ => h }
theorem BalNS.throwE {e : Err} (h : isSig e = false) : BalNS (Model.throwE e : M ν α) :=
  { Bal.const _ with nosig := fun _ => h }

theorem BalNS.setTopFrame (f : Frame → Frame) (hf : ∀ fr, core (f fr) = core fr) : BalNS (setTopFrame (ν := ν) f) := by
  have hst : ∀ s : VM ν, SameStack s.stack (Model.setTopFrame f s).2.stack ∧
      (Model.setTopFrame f s).2.csModuleID = s.csModuleID := by
    intro s
    unfold Model.setTopFrame modifyVM
    cases h : s.stack with
    | nil => simp only [h]; exact ⟨SameStack.refl _, trivial⟩
    | cons fr rest => simp only [h]; exact ⟨sameStack_setTop f hf fr rest, trivial⟩
  refine { ext := fun s => (hst s).1.ext, same := fun s _ => (hst s).1, inv := fun s hi => ?_, nosig := fun _ => rfl }
  unfold CsInv at *
  rw [(hst s).2, hi]
  exact (topModule_norm (hst s).1).symm

theorem Bal.setTopFrame (f : Frame → Frame) (hf : ∀ fr, core (f fr) = core fr) : Bal (setTopFrame (ν := ν) f) :=
  (BalNS.setTopFrame f hf).toBal

theorem Bal.withScope {body : M ν α} (hb : Bal body) : Bal (withScope body) := by
  refine ⟨fun s => ?_, fun s => ?_, fun s => ?_⟩ <;> rw [withScope_run] <;> simp only
  · rw [(exitScope_frame s _).1]
    have := hb.ext (enterScope s); rw [(enterScope_frame s).1] at this; exact this
  · intro h
    rw [(exitScope_frame s _).1]
    have := hb.same (enterScope s) h; rw [(enterScope_frame s).1] at this; exact this
  · intro hi
    have h1 : CsInv (enterScope s) := CsInv.of_same (enterScope_frame s).1 (enterScope_frame s).2.1 hi
    exact CsInv.of_same (exitScope_frame s _).1 (exitScope_frame s _).2.1 (hb.inv _ h1)

theorem BalNS.withScope {body : M ν α} (hb : BalNS body) : BalNS (withScope body) :=
  { Bal.withScope hb.toBal with nosig := fun s => by rw [withScope_run]; exact hb.nosig _ }

/-! ### list loops -/

theorem Bal.mapM {f : α → M ν β} (h : ∀ a, Bal (f a)) : ∀ l : List α, Bal (l.mapM f)
  | [] => by rw [mapM_nil]; exact Bal.pure _
  | a :: l => by
    rw [mapM_cons]
    exact Bal.bind (h a) fun _ => Bal.bind (Bal.mapM h l) fun _ => Bal.pure _

theorem BalNS.mapM {f : α → M ν β} (h : ∀ a, BalNS (f a)) : ∀ l : List α, BalNS (l.mapM f)
  | [] => by rw [mapM_nil]; exact BalNS.pure _
  | a :: l => by
    rw [mapM_cons]
    exact BalNS.bind (h a) fun _ => BalNS.bind (BalNS.mapM h l) fun _ => BalNS.pure _

theorem Bal.forM {f : α → M ν PUnit} (h : ∀ a, Bal (f a)) : ∀ l : List α, Bal (l.forM f)
  | [] => by show Bal (Pure.pure PUnit.unit); exact Bal.pure _
  | a :: l => by
    show Bal (f a >>= fun _ => l.forM f)
    exact Bal.bind (h a) fun _ => Bal.forM h l

theorem BalNS.forM {f : α → M ν PUnit} (h : ∀ a, BalNS (f a)) : ∀ l : List α, BalNS (l.forM f)
  | [] => by show BalNS (Pure.pure PUnit.unit); exact BalNS.pure _
  | a :: l => by
    show BalNS (f a >>= fun _ => l.forM f)
    exact BalNS.bind (h a) fun _ => BalNS.forM h l

theorem Bal.foldlM {f : β → α → M ν β} (h : ∀ b a, Bal (f b a)) : ∀ (l : List α) (b : β), Bal (l.foldlM f b)
  | [], b => by rw [List.foldlM_nil]; exact Bal.pure _
  | a :: l, b => by
    rw [List.foldlM_cons]
    exact Bal.bind (h b a) fun _ => Bal.foldlM h l _

theorem BalNS.foldlM {f : β → α → M ν β} (h : ∀ b a, BalNS (f b a)) : ∀ (l : List α) (b : β), BalNS (l.foldlM f b)
  | [], b => by rw [List.foldlM_nil]; exact BalNS.pure _
  | a :: l, b => by
    rw [List.foldlM_cons]
    exact BalNS.bind (h b a) fun _ => BalNS.foldlM h l _

theorem Bal.untilM {f : α → M ν Bool} (h : ∀ a, Bal (f a)) : ∀ l : List α, Bal (untilM f l)
  | [] => Bal.pure _
  | a :: l => by
    unfold Model.untilM
    refine Bal.bind (h a) fun b => ?_
    cases b
    · exact Bal.untilM h l
    · exact Bal.pure _

theorem Bal.untilIdxM {f : Nat → α → M ν Bool} (h : ∀ i a, Bal (f i a)) :
    ∀ (l : List α) (i : Nat), Bal (untilIdxM f i l)
  | [], i => Bal.pure _
  | a :: l, i => by
    unfold Model.untilIdxM
    refine Bal.bind (h i a) fun b => ?_
    cases b
    · exact Bal.untilIdxM h l _
    · exact Bal.pure _

theorem Bal.whileM {step : M ν Bool} (h : Bal step) : ∀ k : Nat, Bal (whileM k step)
  | 0 => Bal.const _
  | k+1 => by
    unfold Model.whileM
    refine Bal.bind h fun b => ?_
    cases b
    · exact Bal.pure _
    · exact Bal.whileM h k

theorem Bal.firstM {f : α → M ν (Option β)} {d : M ν β} (h : ∀ a, Bal (f a)) (hd : Bal d) :
    ∀ l : List α, Bal (firstM f d l)
  | [] => hd
  | a :: l => by
    unfold Model.firstM
    refine Bal.bind (h a) fun b => ?_
    cases b
    · exact Bal.firstM h hd l
    · exact Bal.pure _

/-! ### frames -/

theorem BalIn.bind {m : M ν α} {f : α → M ν β} (hm : BalNS m) (hf : ∀ a, BalIn (f a)) : BalIn (m >>= f) := by
  refine ⟨fun s fr rest hs => ?_, fun s fr rest hs => ?_, fun s => ?_, fun s => ?_⟩ <;>
  · rw [M_bind_def]
    have h1 := hm.ext s; have h2 := hm.same s; have h3 := hm.inv s; have h4 := hm.nosig s
    rcases h : m s with ⟨r, s'⟩
    rw [h] at h1 h2 h3 h4
    cases r <;> simp only <;> first
      | exact h3 | exact h4 | (intro hx; cases hx)
      | (rw [hs] at h1; exact Ext.push fr h1)
      | (have hsame := h2 rfl
         rw [hs] at hsame
         obtain ⟨fr', hs', _⟩ := norm_cons_eq hsame
         first | exact (hf _).ext s' fr' rest hs' | exact (hf _).okpop s' fr' rest hs')
      | exact (hf _).nosig s'
      | (intro hi; exact (hf _).inv s' (h3 hi))

theorem BalIn.pop (x : α) : BalIn (popFrame (ν := ν) >>= fun _ => pure x) := by
  refine ⟨fun s fr rest hs => ?_, fun s fr rest hs => ?_, fun s => ?_, fun s => ?_⟩
  · rw [bind_ok (popFrame_cons s fr rest hs)]; exact Ext.refl _
  · intro _; rw [bind_ok (popFrame_cons s fr rest hs)]; exact ⟨rfl, rfl⟩
  · cases hst : s.stack with
    | nil =>
      have : popFrame s = (.panic, s) := by unfold popFrame; rw [hst]
      rw [M_bind_def, this]; rfl
    | cons fr rest => rw [bind_ok (popFrame_cons s fr rest hst)]; rfl
  · intro hi
    cases hst : s.stack with
    | nil =>
      have : popFrame s = (.panic, s) := by unfold popFrame; rw [hst]
      rw [M_bind_def, this]; exact hi
    | cons fr rest => rw [bind_ok (popFrame_cons s fr rest hst)]; rfl

theorem BalIn.ofFail {m : M ν α} (hm : BalNS m) (hfail : ∀ s, resIsOk (m s).1 = false) : BalIn m :=
  ⟨fun s fr rest hs => (by have := hm.ext s; rw [hs] at this; exact Ext.push fr this),
   fun s fr rest hs h => (by rw [hfail s] at h; cases h), hm.nosig, hm.inv⟩

theorem BalIn.rtErr (c : Nat) : BalIn (rtErr c : M ν α) := BalIn.ofFail (BalNS.ofQuiet (Quiet.rtErr c)) fun _ => rfl
theorem BalIn.goPanic : BalIn (goPanic : M ν α) := BalIn.ofFail (BalNS.ofQuiet Quiet.goPanic) fun _ => rfl

/-- a call: push the frame, run code that pops it on normal exit -/
theorem BalNS.push (fr : Frame) {m : M ν α} (hm : BalIn m) : BalNS (pushFrame fr >>= fun _ => m) := by
  have hp : ∀ s : VM ν, pushFrame fr s = (.ok (), (pushFrame fr s).2) := by intro s; unfold pushFrame modifyVM; rfl
  have hst := fun s : VM ν => (pushFrame_run fr s).2.1
  have hcs := fun s : VM ν => (pushFrame_run fr s).2.2.1
  have hinv : ∀ s : VM ν, CsInv (pushFrame fr s).2 := by intro s; unfold CsInv; rw [hst, hcs]; rfl
  refine { ext := fun s => ?_, same := fun s => ?_, inv := fun s => ?_, nosig := fun s => ?_ } <;> rw [bind_ok (hp s)]
  · exact hm.ext _ fr s.stack (hst s)
  · intro h
    have hok := okOrSig_nosig (hm.nosig _) h
    rw [(hm.okpop _ fr s.stack (hst s) hok).1]; exact SameStack.refl _
  · intro _; exact hm.inv _ (hinv s)
  · exact hm.nosig _

end rules

end ZnVerif.Proofs.StackBal
