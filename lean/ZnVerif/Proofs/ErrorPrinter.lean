/-
Proofs about the syntax-error display: the repaired printer (Model.ErrorPrinter.fmtLine) never panics
and shows exactly what Spec.ErrorLine says.  Core Lean only (no Mathlib).
-/
import ZnVerif.Model.ErrorPrinter
import ZnVerif.Spec.ErrorLine

namespace ZnVerif.Proofs.ErrorPrinter

open ZnVerif.Generated
namespace M
export ZnVerif.Model.ErrorPrinter (Step Out isBreak isIndent idx slice sliceTo repeatCount lookupWidth getOffset
  sumOffsets calcCursorOffset backOverBreaks backToLineStart skipIndent fwdToLineEnd render fmtLine fmtLineLegacy)
end M
namespace S
export ZnVerif.Spec.ErrorLine (isBreak isIndent notBreak consHead physicalLines IsLineAt breakAt IsAnchor anchor
  lineStart widthIn width clamp Shown shown quotedLine caretCol)
end S

/-! ### the character tests of model and spec are the same functions -/

theorem isBreak_eq (c : Nat) : M.isBreak c = S.isBreak c := rfl
theorem isIndent_eq (c : Nat) : M.isIndent c = S.isIndent c := rfl

theorem indent_not_break (c : Nat) (h : S.isIndent c = true) : S.notBreak c = true := by
  simp [S.isIndent, S.notBreak, S.isBreak] at *
  omega

/-! ### display width: `getOffset` is the spec's `width`, and never panics -/

theorem lookupWidth_eq (t : Nat) : ∀ (bs : List Nat) (i : Nat), bs.length + i ≤ Widths.widths.length →
    M.lookupWidth t bs i = .ok (S.widthIn t (bs.zip (Widths.widths.drop i)))
  | [], i, _ => by simp [M.lookupWidth, S.widthIn]
  | b :: bs, i, h => by
    have hi : i < Widths.widths.length := by simp at h; omega
    have hd : Widths.widths.drop i = Widths.widths[i] :: Widths.widths.drop (i + 1) :=
      List.drop_eq_getElem_cons hi
    have ih := lookupWidth_eq t bs (i + 1) (by simp at h; omega)
    rw [hd]
    simp only [M.lookupWidth, List.zip_cons_cons, S.widthIn, List.getElem?_eq_getElem hi]
    split
    · rfl
    · exact ih

theorem getOffset_eq (t : Nat) : M.getOffset t = .ok (S.width t) := by
  unfold M.getOffset S.width
  by_cases h : t ∈ Widths.zeroWidthSpecials
  · simp [h]
  · have := lookupWidth_eq t Widths.widthBorders 0 (by decide)
    simp [h, this]

theorem sumOffsets_eq : ∀ (l : List Nat) (acc : Nat), M.sumOffsets l acc = .ok (acc + (l.map S.width).sum)
  | [], acc => by simp [M.sumOffsets]
  | t :: ts, acc => by
    simp [M.sumOffsets, getOffset_eq, sumOffsets_eq ts, Nat.add_assoc]


/-! ### `sourceT = append(source, 0)`: what the in-range accesses read -/

/-- proof-level name of `sourceT[k]` for `k ≤ len(source)` (the sentinel at `k = len`) -/
def charAt (src : List Nat) (k : Nat) : Nat := if h : k < src.length then src[k] else 0

theorem idx_charAt (src : List Nat) (k : Nat) (h : k ≤ src.length) :
    M.idx (src ++ [0]) (k : Int) = some (charAt src k) := by
  unfold M.idx charAt
  have h0 : ¬ ((k : Int) < 0) := by omega
  simp only [h0, if_false, Int.toNat_natCast]
  by_cases hk : k < src.length
  · simp [hk, List.getElem?_append_left hk]
  · have : k = src.length := by omega
    subst this
    simp

theorem breakAt_charAt (src : List Nat) (k : Nat) : S.breakAt src k = S.isBreak (charAt src k) := by
  unfold S.breakAt charAt
  by_cases hk : k < src.length
  · simp [hk]
  · have : src[k]? = none := by simp; omega
    simp [hk, S.isBreak]

/-- length of the run of `p`-characters starting at position `k` -/
def runLen (p : Nat → Bool) (src : List Nat) (k : Nat) : Nat := ((src.drop k).takeWhile p).length

theorem runLen_lt (p : Nat → Bool) (src : List Nat) (k : Nat) (hk : k < src.length) :
    runLen p src k = if p (charAt src k) = true then 1 + runLen p src (k + 1) else 0 := by
  unfold runLen charAt
  rw [List.drop_eq_getElem_cons hk]
  simp only [hk, dite_true, List.takeWhile_cons]
  split <;> simp [Nat.add_comm]

theorem runLen_ge (p : Nat → Bool) (src : List Nat) (k : Nat) (hk : src.length ≤ k) : runLen p src k = 0 := by
  unfold runLen
  have : src.drop k = [] := by simp; omega
  simp [this]

theorem runLen_le (p : Nat → Bool) (src : List Nat) (k : Nat) (h : k ≤ src.length) :
    k + runLen p src k ≤ src.length := by
  unfold runLen
  have := (List.takeWhile_sublist p (l := src.drop k)).length_le
  simp at this
  omega

theorem charAt_ge (src : List Nat) (k : Nat) (hk : src.length ≤ k) : charAt src k = 0 := by
  unfold charAt
  have : ¬ k < src.length := by omega
  simp [this]

/-! ### each loop computes the spec-level position -/

theorem backOverBreaks_eq (src : List Nat) : ∀ (k f : Nat), k < f → k ≤ src.length →
    M.backOverBreaks (src ++ [0]) f (k : Int) = .ok ((S.anchor src k : Nat) : Int)
  | 0, f + 1, _, _ => by simp [M.backOverBreaks, S.anchor]
  | k + 1, f + 1, hf, hk => by
    have ih := backOverBreaks_eq src k f (by omega) (by omega)
    have hpos : ((k + 1 : Nat) : Int) > 0 := by omega
    have hdec : ((k + 1 : Nat) : Int) - 1 = (k : Int) := by omega
    simp only [M.backOverBreaks, hpos, if_true, idx_charAt src (k + 1) hk, S.anchor, breakAt_charAt, isBreak_eq, hdec, ih]
    split <;> rfl

theorem backToLineStart_eq (src : List Nat) : ∀ (k f : Nat), k < f → k ≤ src.length →
    M.backToLineStart (src ++ [0]) f (k : Int) = .ok ((S.lineStart src k : Nat) : Int)
  | 0, f + 1, _, _ => by simp [M.backToLineStart, S.lineStart]
  | k + 1, f + 1, hf, hk => by
    have ih := backToLineStart_eq src k f (by omega) (by omega)
    have hpos : ((k + 1 : Nat) : Int) > 0 := by omega
    have hdec : ((k + 1 : Nat) : Int) - 1 = (k : Int) := by omega
    simp only [M.backToLineStart, hpos, if_true, hdec, idx_charAt src k (by omega), S.lineStart, breakAt_charAt,
      isBreak_eq, ih]
    by_cases hc : S.isBreak (charAt src k) = true <;> simp [hc]

theorem skipIndent_eq (src : List Nat) : ∀ (f k : Nat), k ≤ src.length → src.length - k < f →
    M.skipIndent (src ++ [0]) f (k : Int) = .ok ((k + runLen S.isIndent src k : Nat) : Int)
  | f + 1, k, hk, hf => by
    simp only [M.skipIndent, idx_charAt src k hk]
    by_cases hc : M.isIndent (charAt src k) = true
    · have hc' : S.isIndent (charAt src k) = true := hc
      have hlt : k < src.length := by
        apply Classical.byContradiction; intro hn
        rw [charAt_ge src k (by omega)] at hc; exact absurd hc (by decide)
      have hinc : (k : Int) + 1 = ((k + 1 : Nat) : Int) := by omega
      have ih := skipIndent_eq src f (k + 1) (by omega) (by omega)
      rw [runLen_lt _ src k hlt, if_pos hc, if_pos hc', hinc, ih]
      congr 2; omega
    · have hc' : ¬ S.isIndent (charAt src k) = true := hc
      rw [if_neg hc]
      by_cases hlt : k < src.length
      · rw [runLen_lt _ src k hlt, if_neg hc']; rfl
      · rw [runLen_ge _ src k (by omega)]; rfl

theorem fwdToLineEnd_eq (src : List Nat) : ∀ (f k : Nat), k ≤ src.length → src.length - k < f →
    M.fwdToLineEnd (src ++ [0]) (src.length : Int) f (k : Int) = .ok ((k + runLen S.notBreak src k : Nat) : Int)
  | f + 1, k, hk, hf => by
    by_cases hlt : k < src.length
    · have hlt' : (k : Int) < (src.length : Int) := by omega
      simp only [M.fwdToLineEnd, hlt', if_true, idx_charAt src k hk]
      rw [runLen_lt _ src k hlt]
      by_cases hc : (!M.isBreak (charAt src k)) = true
      · have hc' : S.notBreak (charAt src k) = true := hc
        have hinc : (k : Int) + 1 = ((k + 1 : Nat) : Int) := by omega
        have ih := fwdToLineEnd_eq src f (k + 1) (by omega) (by omega)
        rw [if_pos hc, if_pos hc', hinc, ih]
        congr 2; omega
      · have hc' : ¬ S.notBreak (charAt src k) = true := hc
        rw [if_neg hc, if_neg hc']; rfl
    · have hlt' : ¬ ((k : Int) < (src.length : Int)) := by omega
      rw [runLen_ge _ src k (by omega)]
      simp [M.fwdToLineEnd, hlt']


/-! ### facts about the spec-level positions -/

theorem anchor_le (src : List Nat) : ∀ c, S.anchor src c ≤ c
  | 0 => Nat.le_refl 0
  | c + 1 => by
    have := anchor_le src c
    unfold S.anchor; split <;> omega

theorem anchor_isAnchor (src : List Nat) : ∀ c, S.IsAnchor src c (S.anchor src c)
  | 0 => ⟨Nat.le_refl 0, Or.inl rfl, fun i h1 h2 => by omega⟩
  | c + 1 => by
    have ih := anchor_isAnchor src c
    unfold S.anchor
    by_cases hb : S.breakAt src (c + 1) = true
    · rw [if_pos hb]
      refine ⟨by have := ih.le; omega, ih.stop, fun i h1 h2 => ?_⟩
      by_cases hi : i = c + 1
      · rw [hi]; exact hb
      · exact ih.skipped i h1 (by omega)
    · rw [if_neg hb]
      exact ⟨Nat.le_refl _, Or.inr (by simpa using hb), fun i h1 h2 => by omega⟩

/-- the anchor is determined by `IsAnchor` -/
theorem isAnchor_unique (src : List Nat) (c a b : Nat) (ha : S.IsAnchor src c a) (hb : S.IsAnchor src c b) : a = b := by
  apply Classical.byContradiction; intro hne
  have key : ∀ x y, S.IsAnchor src c x → S.IsAnchor src c y → x < y → False := by
    intro x y hx hy hlt
    have h1 := hx.skipped y hlt hy.le
    cases hy.stop with
    | inl h0 => omega
    | inr hf => rw [hf] at h1; exact absurd h1 (by decide)
  by_cases h : a < b
  · exact key a b ha hb h
  · exact key b a hb ha (by omega)

theorem lineStart_le (src : List Nat) : ∀ a, S.lineStart src a ≤ a
  | 0 => Nat.le_refl 0
  | a + 1 => by
    have := lineStart_le src a
    unfold S.lineStart; split <;> omega

theorem lineStart_stop (src : List Nat) : ∀ a, S.lineStart src a = 0 ∨ S.breakAt src (S.lineStart src a - 1) = true
  | 0 => Or.inl rfl
  | a + 1 => by
    unfold S.lineStart
    by_cases hb : S.breakAt src a = true
    · rw [if_pos hb]; exact Or.inr (by simpa using hb)
    · rw [if_neg hb]; exact lineStart_stop src a

theorem lineStart_nobreak (src : List Nat) : ∀ a i, S.lineStart src a ≤ i → i < a → S.breakAt src i = false
  | 0, i, _, h => by omega
  | a + 1, i, h1, h2 => by
    unfold S.lineStart at h1
    by_cases hb : S.breakAt src a = true
    · rw [if_pos hb] at h1; omega
    · rw [if_neg hb] at h1
      by_cases hi : i = a
      · rw [hi]; simpa using hb
      · exact lineStart_nobreak src a i h1 (by omega)

theorem runLen_split (src : List Nat) (a : Nat) (ha : a ≤ src.length) : ∀ (d s : Nat), a = s + d →
    (∀ i, s ≤ i → i < a → S.breakAt src i = false) →
    runLen S.notBreak src s = d + runLen S.notBreak src a
  | 0, s, h, _ => by have : a = s := by omega
                     rw [this]; simp
  | d + 1, s, h, hnb => by
    have hs : s < src.length := by omega
    have h0 : S.notBreak (charAt src s) = true := by
      have := hnb s (Nat.le_refl s) (by omega)
      rw [breakAt_charAt] at this
      simp [S.notBreak, this]
    rw [runLen_lt _ src s hs, if_pos h0, runLen_split src a ha d (s + 1) (by omega) (fun i h1 h2 => hnb i (by omega) h2)]
    omega

/-! ### lists: takeWhile / dropWhile -/

theorem takeWhile_takeWhile_of_imp (p q : Nat → Bool) (h : ∀ c, p c = true → q c = true) :
    ∀ l : List Nat, (l.takeWhile q).takeWhile p = l.takeWhile p
  | [] => rfl
  | x :: xs => by
    by_cases hq : q x = true
    · by_cases hp : p x = true
      · simp [hq, hp, takeWhile_takeWhile_of_imp p q h xs]
      · simp [hq, hp]
    · have hp : ¬ p x = true := fun hp => hq (h x hp)
      simp [hq, hp]

theorem mem_takeWhile (p : Nat → Bool) (l : List Nat) (c : Nat) (h : c ∈ l.takeWhile p) : p c = true :=
  (List.all_eq_true.mp (List.all_takeWhile (p := p) (l := l))) c h

theorem dropWhile_head (p : Nat → Bool) : ∀ (l : List Nat) (b : Nat) (q : List Nat), l.dropWhile p = b :: q → p b = false
  | [], _, _, h => by simp at h
  | x :: xs, b, q, h => by
    by_cases hp : p x = true
    · rw [List.dropWhile_cons_of_pos hp] at h; exact dropWhile_head p xs b q h
    · rw [List.dropWhile_cons_of_neg hp] at h
      have : x = b := by injection h
      rw [← this]; simpa using hp

/-- pieces of the spec's answer for the line starting at `s` -/
def lineFrom (src : List Nat) (s : Nat) : List Nat := (src.drop s).takeWhile S.notBreak
def restFrom (src : List Nat) (s : Nat) : List Nat := (src.drop s).dropWhile S.notBreak
def indentFrom (src : List Nat) (s : Nat) : List Nat := (lineFrom src s).takeWhile S.isIndent
def quotedFrom (src : List Nat) (s : Nat) : List Nat := (lineFrom src s).dropWhile S.isIndent

theorem decomp (src : List Nat) (s : Nat) :
    src = src.take s ++ indentFrom src s ++ quotedFrom src s ++ restFrom src s := by
  unfold indentFrom quotedFrom restFrom
  rw [List.append_assoc (src.take s), List.takeWhile_append_dropWhile]
  unfold lineFrom
  rw [List.append_assoc, List.takeWhile_append_dropWhile, List.take_append_drop]

theorem lineFrom_length (src : List Nat) (s : Nat) : (lineFrom src s).length = runLen S.notBreak src s := rfl

theorem indentFrom_length (src : List Nat) (s : Nat) : (indentFrom src s).length = runLen S.isIndent src s := by
  unfold indentFrom lineFrom runLen
  rw [takeWhile_takeWhile_of_imp S.isIndent S.notBreak indent_not_break]

theorem indent_quoted_length (src : List Nat) (s : Nat) :
    (indentFrom src s).length + (quotedFrom src s).length = runLen S.notBreak src s := by
  rw [← lineFrom_length, ← List.length_append]
  unfold indentFrom quotedFrom
  rw [List.takeWhile_append_dropWhile]


/-! ### the tail of the function: slice, column, repeat -/

theorem calcCursorOffset_eq (q : List Nat) (col : Int) :
    M.calcCursorOffset q col = .ok ((((q.take col.toNat).map S.width).sum : Nat) : Int) := by
  unfold M.calcCursorOffset M.sliceTo
  have hn : ¬ ((q.length : Int) < 0) := by omega
  by_cases h0 : col < 0
  · have : col.toNat = 0 := by omega
    simp [h0, hn, this, sumOffsets_eq]
  · by_cases h1 : (q.length : Int) < col
    · have : q.take col.toNat = q := List.take_of_length_le (by omega)
      simp [h0, h1, this, sumOffsets_eq]
    · have h2 : 0 ≤ col ∧ col ≤ (q.length : Int) := by omega
      simp [h0, h1, h2, sumOffsets_eq]

theorem slice_mid (pre mid post : List Nat) :
    M.slice (pre ++ mid ++ post) (pre.length : Int) ((pre.length + mid.length : Nat) : Int) = some mid := by
  unfold M.slice
  have hc : 0 ≤ (pre.length : Int) ∧ (pre.length : Int) ≤ ((pre.length + mid.length : Nat) : Int) ∧
      ((pre.length + mid.length : Nat) : Int) ≤ ((pre ++ mid ++ post).length : Int) := by
    simp only [List.length_append]; omega
  rw [if_pos hc]
  have h1 : (((pre.length + mid.length : Nat) : Int) - (pre.length : Int)).toNat = mid.length := by omega
  rw [h1, Int.toNat_natCast, List.append_assoc, List.drop_left' rfl, List.take_left' rfl]

theorem render_eq (pre mid post : List Nat) (cursor : Nat) :
    M.render M.calcCursorOffset (pre ++ mid ++ post) (cursor : Int) (pre.length : Int)
        ((pre.length + mid.length : Nat) : Int)
      = .ok mid (((mid.take (cursor - pre.length)).map S.width).sum) := by
  have : ((cursor : Int) - (pre.length : Int)).toNat = cursor - pre.length := by omega
  unfold M.render
  rw [slice_mid]
  dsimp only
  rw [calcCursorOffset_eq, this]
  dsimp only [M.repeatCount]
  rw [if_neg (by omega)]
  simp

/-! ### the repaired printer IS the spec oracle -/

theorem clamp_cast (src : List Nat) (cursorIdx : Int) :
    (if (if cursorIdx < 0 then 0 else cursorIdx) > (src.length : Int) then (src.length : Int)
      else (if cursorIdx < 0 then 0 else cursorIdx)) = ((S.clamp src cursorIdx : Nat) : Int) := by
  unfold S.clamp
  have hn : ¬ ((src.length : Int) < 0) := by omega
  by_cases h0 : cursorIdx < 0
  · have : cursorIdx.toNat = 0 := by omega
    simp [h0, hn, this]
  · by_cases h1 : (src.length : Int) < cursorIdx
    · have : min cursorIdx.toNat src.length = src.length := by omega
      simp [h0, h1, this]
    · have : min cursorIdx.toNat src.length = cursorIdx.toNat := by omega
      simp [h0, h1, this]; omega

theorem clamp_le (src : List Nat) (cursorIdx : Int) : S.clamp src cursorIdx ≤ src.length := by
  unfold S.clamp; omega

/-- positions the spec uses for `cursor` -/
def specStart (src : List Nat) (cursor : Int) : Nat := S.lineStart src (S.anchor src (S.clamp src cursor))

theorem specStart_le_anchor (src : List Nat) (cursor : Int) :
    specStart src cursor ≤ S.anchor src (S.clamp src cursor) := lineStart_le _ _

theorem anchor_le_length (src : List Nat) (cursor : Int) : S.anchor src (S.clamp src cursor) ≤ src.length :=
  Nat.le_trans (anchor_le _ _) (clamp_le _ _)

theorem lineRun_from_start (src : List Nat) (cursor : Int) :
    runLen S.notBreak src (specStart src cursor) =
      (S.anchor src (S.clamp src cursor) - specStart src cursor) + runLen S.notBreak src (S.anchor src (S.clamp src cursor)) := by
  have hle := specStart_le_anchor src cursor
  exact runLen_split src _ (anchor_le_length src cursor) _ _ (by omega) (lineStart_nobreak src _)

theorem shown_eq (src : List Nat) (cursor : Int) :
    S.shown src cursor =
      { pre := src.take (specStart src cursor), indent := indentFrom src (specStart src cursor),
        quoted := quotedFrom src (specStart src cursor), post := restFrom src (specStart src cursor),
        caretCol := (((quotedFrom src (specStart src cursor)).take
            (S.clamp src cursor - (specStart src cursor + (indentFrom src (specStart src cursor)).length))).map S.width).sum } := rfl

theorem fmtLine_eq_spec (src : List Nat) (cursor : Int) :
    M.fmtLine src cursor = .ok (S.quotedLine src cursor) (S.caretCol src cursor) := by
  have hc := clamp_le src cursor
  have ha := anchor_le_length src cursor
  have hs := specStart_le_anchor src cursor
  have hsplit := lineRun_from_start src cursor
  have hind := indentFrom_length src (specStart src cursor)
  have hiq := indent_quoted_length src (specStart src cursor)
  have hrl := runLen_le S.notBreak src _ ha
  unfold M.fmtLine
  simp only [clamp_cast]
  rw [backOverBreaks_eq src _ _ (by omega) hc]
  simp only []
  rw [backToLineStart_eq src _ _ (by omega) ha]
  simp only []
  rw [skipIndent_eq src _ _ (by unfold specStart at hs; omega) (by omega)]
  simp only []
  rw [fwdToLineEnd_eq src _ _ ha (by omega)]
  simp only []
  -- the source around the quoted line
  have hd : src ++ [0] = (src.take (specStart src cursor) ++ indentFrom src (specStart src cursor))
      ++ quotedFrom src (specStart src cursor) ++ (restFrom src (specStart src cursor) ++ [0]) := by
    rw [← List.append_assoc]
    exact congrArg (· ++ [0]) (decomp src (specStart src cursor))
  have hpre : (src.take (specStart src cursor) ++ indentFrom src (specStart src cursor)).length
      = specStart src cursor + runLen S.isIndent src (specStart src cursor) := by
    rw [List.length_append, List.length_take, hind]; omega
  have hend : specStart src cursor + runLen S.isIndent src (specStart src cursor)
      + (quotedFrom src (specStart src cursor)).length
      = S.anchor src (S.clamp src cursor) + runLen S.notBreak src (S.anchor src (S.clamp src cursor)) := by
    omega
  have hr := render_eq (src.take (specStart src cursor) ++ indentFrom src (specStart src cursor))
    (quotedFrom src (specStart src cursor)) (restFrom src (specStart src cursor) ++ [0]) (S.clamp src cursor)
  rw [← hd, hpre, hend] at hr
  show M.render M.calcCursorOffset (src ++ [0]) _ ((specStart src cursor + runLen S.isIndent src (specStart src cursor) : Nat) : Int) _ = _
  rw [hr]
  unfold S.quotedLine S.caretCol
  rw [shown_eq, hind]


/-! ### physical lines -/

theorem physicalLines_ne_nil : ∀ l : List Nat, S.physicalLines l ≠ []
  | [] => by simp [S.physicalLines]
  | c :: cs => by
    unfold S.physicalLines
    split
    · simp
    · cases h : S.physicalLines cs <;> simp [S.consHead]

theorem consHead_append (c : Nat) : ∀ (a b : List (List Nat)), a ≠ [] → S.consHead c (a ++ b) = S.consHead c a ++ b
  | [], _, h => absurd rfl h
  | _ :: _, _, _ => rfl

/-- splitting distributes over a break character -/
theorem physicalLines_append_break (b : Nat) (hb : S.isBreak b = true) (rest : List Nat) :
    ∀ pre : List Nat, S.physicalLines (pre ++ b :: rest) = S.physicalLines pre ++ S.physicalLines rest
  | [] => by simp [S.physicalLines, hb]
  | c :: pre => by
    have ih := physicalLines_append_break b hb rest pre
    by_cases hc : S.isBreak c = true
    · simp [S.physicalLines, hc, ih]
    · simp only [List.cons_append, S.physicalLines, hc, ih]
      exact consHead_append c _ _ (physicalLines_ne_nil pre)

theorem physicalLines_nobreak : ∀ l : List Nat, (∀ c ∈ l, S.isBreak c = false) → S.physicalLines l = [l]
  | [], _ => rfl
  | c :: cs, h => by
    have hc : S.isBreak c = false := h c (by simp)
    have ih := physicalLines_nobreak cs (fun x hx => h x (by simp [hx]))
    simp [S.physicalLines, hc, ih, S.consHead]

/-- the line singled out by `IsLineAt` is one of the physical lines -/
theorem isLineAt_mem (src : List Nat) (pos : Nat) (pre line post : List Nat) (h : S.IsLineAt src pos pre line post) :
    line ∈ S.physicalLines src := by
  have hline := physicalLines_nobreak line h.line_ok
  -- first the part up to the end of the line
  have h1 : line ∈ S.physicalLines (pre ++ line) := by
    cases h.pre_ok with
    | inl h0 => rw [h0, List.nil_append, hline]; simp
    | inr hex =>
      obtain ⟨p, b, hp, hb⟩ := hex
      rw [hp, List.append_assoc, List.singleton_append, physicalLines_append_break b hb line p, hline]
      simp
  rw [h.split]
  cases h.post_ok with
  | inl h0 => rw [h0, List.append_nil]; exact h1
  | inr hex =>
    obtain ⟨b, q, hq, hb⟩ := hex
    rw [hq, physicalLines_append_break b hb q (pre ++ line)]
    exact List.mem_append_left _ h1

/-! ### the spec oracle satisfies the relational spec -/

theorem specStart_le_length (src : List Nat) (cursor : Int) : specStart src cursor ≤ src.length :=
  Nat.le_trans (specStart_le_anchor src cursor) (anchor_le_length src cursor)

theorem breakAt_true (src : List Nat) (j : Nat) (h : S.breakAt src j = true) :
    ∃ hj : j < src.length, S.isBreak src[j] = true := by
  unfold S.breakAt at h
  by_cases hj : j < src.length
  · refine ⟨hj, ?_⟩
    rw [List.getElem?_eq_getElem hj] at h
    exact h
  · have : src[j]? = none := by simp; omega
    rw [this] at h
    exact absurd h (by decide)

/-- the oracle's line is the physical line containing the anchor -/
theorem shown_isLineAt (src : List Nat) (cursor : Int) :
    S.IsLineAt src (S.anchor src (S.clamp src cursor)) (S.shown src cursor).pre
      ((S.shown src cursor).indent ++ (S.shown src cursor).quoted) (S.shown src cursor).post := by
  have hsl := specStart_le_length src cursor
  have hline : indentFrom src (specStart src cursor) ++ quotedFrom src (specStart src cursor)
      = lineFrom src (specStart src cursor) := List.takeWhile_append_dropWhile
  rw [shown_eq]
  dsimp only
  refine ⟨?_, ?_, ?_, ?_, ?_⟩
  · rw [← List.append_assoc]; exact decomp src (specStart src cursor)
  · by_cases hz : specStart src cursor = 0
    · left; rw [hz]; rfl
    · right
      have hb : S.breakAt src (specStart src cursor - 1) = true := by
        cases lineStart_stop src (S.anchor src (S.clamp src cursor)) with
        | inl h0 => exact absurd h0 hz
        | inr hb => exact hb
      obtain ⟨hj, hbr⟩ := breakAt_true src _ hb
      refine ⟨src.take (specStart src cursor - 1), src[specStart src cursor - 1], ?_, hbr⟩
      have hs : specStart src cursor = (specStart src cursor - 1) + 1 := by omega
      conv => lhs; rw [hs, List.take_add_one, List.getElem?_eq_getElem hj]
      rfl
  · cases hr : restFrom src (specStart src cursor) with
    | nil => exact Or.inl rfl
    | cons b q =>
      right
      refine ⟨b, q, rfl, ?_⟩
      have := dropWhile_head S.notBreak _ b q hr
      simpa [S.notBreak] using this
  · intro c hc
    rw [hline] at hc
    have := mem_takeWhile S.notBreak _ c hc
    simpa [S.notBreak] using this
  · rw [hline, lineFrom_length, lineRun_from_start, List.length_take]
    have := specStart_le_anchor src cursor
    omega


/-! ## The theorems (all inputs: any source, any `int` cursor — negative and past-the-end included) -/

/-- **display_total** (C05): the repaired printer returns for EVERY source and EVERY cursor — no index out of
range, no negative `strings.Repeat` count, no bad slice bounds, and the fuel of every loop suffices. -/
theorem display_total (src : List Nat) (cursor : Int) : ∃ q col, M.fmtLine src cursor = .ok q col :=
  ⟨_, _, fmtLine_eq_spec src cursor⟩

theorem display_never_panics (src : List Nat) (cursor : Int) :
    M.fmtLine src cursor ≠ .panic ∧ M.fmtLine src cursor ≠ .outOfFuel := by
  rw [fmtLine_eq_spec]; constructor <;> (intro h; cases h)

/-- everything the display promises, in one statement: the source splits as
`pre ++ indent ++ quoted ++ post` where `indent ++ quoted` is the physical line containing the cursor's anchor,
`quoted` is that line without its leading SP/TAB, and the caret column is the total display width of the
characters of `quoted` that lie before the cursor. -/
structure Correct (src : List Nat) (cursor : Int) (q : List Nat) (col : Nat) (pre indent post : List Nat) : Prop where
  anchor_ok : S.IsAnchor src (S.clamp src cursor) (S.anchor src (S.clamp src cursor))
  split : src = pre ++ indent ++ q ++ post
  line_at : S.IsLineAt src (S.anchor src (S.clamp src cursor)) pre (indent ++ q) post
  physical : indent ++ q ∈ S.physicalLines src
  indent_ok : ∀ x ∈ indent, S.isIndent x = true
  stripped : q = (indent ++ q).dropWhile S.isIndent
  caret : col = ((q.take (S.clamp src cursor - (pre.length + indent.length))).map S.width).sum

theorem display_correct (src : List Nat) (cursor : Int) (q : List Nat) (col : Nat)
    (h : M.fmtLine src cursor = .ok q col) : ∃ pre indent post, Correct src cursor q col pre indent post := by
  rw [fmtLine_eq_spec] at h
  injection h with hq hcol
  have hla := shown_isLineAt src cursor
  have hline : indentFrom src (specStart src cursor) ++ quotedFrom src (specStart src cursor)
      = lineFrom src (specStart src cursor) := List.takeWhile_append_dropWhile
  have hq' : q = quotedFrom src (specStart src cursor) := hq.symm
  have hcol' : col = (S.shown src cursor).caretCol := hcol.symm
  rw [shown_eq] at hla hcol'
  dsimp only at hla hcol'
  rw [← hq'] at hla hcol'
  refine ⟨src.take (specStart src cursor), indentFrom src (specStart src cursor), restFrom src (specStart src cursor),
    { anchor_ok := anchor_isAnchor src _, split := ?_, line_at := hla, physical := isLineAt_mem _ _ _ _ _ hla,
      indent_ok := ?_, stripped := ?_, caret := ?_ }⟩
  · rw [hq']; exact decomp src (specStart src cursor)
  · intro x hx; exact mem_takeWhile S.isIndent _ x hx
  · rw [hq', hline]; rfl
  · rw [hcol', List.length_take, Nat.min_eq_left (specStart_le_length src cursor)]

/-- **quoted_line_is_physical** (C05/C18): the quoted line is a physical line of the source — the one containing
the anchor of the cursor — without its leading SP/TAB indentation. -/
theorem quoted_line_is_physical (src : List Nat) (cursor : Int) (q : List Nat) (col : Nat)
    (h : M.fmtLine src cursor = .ok q col) :
    ∃ line ∈ S.physicalLines src, q = line.dropWhile S.isIndent ∧
      ∃ pre post a, S.IsAnchor src (S.clamp src cursor) a ∧ S.IsLineAt src a pre line post := by
  obtain ⟨pre, indent, post, c⟩ := display_correct src cursor q col h
  exact ⟨indent ++ q, c.physical, c.stripped, pre, post, _, c.anchor_ok, c.line_at⟩

/-- **caret_under_offender** (C18): the caret column is the sum of the display widths of the characters of the
quoted line that precede the cursor (none when the cursor is inside the indentation, all of them when the
cursor is on a break after the line). -/
theorem caret_under_offender (src : List Nat) (cursor : Int) (q : List Nat) (col : Nat)
    (h : M.fmtLine src cursor = .ok q col) :
    ∃ pre indent post, src = pre ++ indent ++ q ++ post ∧ (∀ x ∈ indent, S.isIndent x = true) ∧
      (pre = [] ∨ ∃ p b, pre = p ++ [b] ∧ S.isBreak b = true) ∧
      col = ((q.take (S.clamp src cursor - (pre.length + indent.length))).map S.width).sum := by
  obtain ⟨pre, indent, post, c⟩ := display_correct src cursor q col h
  exact ⟨pre, indent, post, c.split, c.indent_ok, c.line_at.pre_ok, c.caret⟩

/-- an in-range cursor that is not on a break char is its own anchor: the quoted line contains the cursor -/
theorem anchor_of_ordinary (src : List Nat) (c : Nat) (h : S.breakAt src c = false) : S.anchor src c = c := by
  cases c with
  | zero => rfl
  | succ c => unfold S.anchor; rw [h]; rfl

/-! ### non-vacuity and the witnesses of the original code -/

-- `令甲为1⏎⇥输出“x”` with the cursor on `出` (position 7): line 2 without its TAB, caret after one wide char
example : M.fmtLine [0x4EE4, 0x7532, 0x4E3A, 0x31, 0xA, 0x9, 0x8F93, 0x51FA, 0x201C, 0x78, 0x201D] 7
    = .ok [0x8F93, 0x51FA, 0x201C, 0x78, 0x201D] 2 := by decide
example : S.physicalLines [0x61, 0xD, 0xA, 0x62] = [[0x61], [], [0x62]] := by decide
example : S.width 0x8F93 = 2 ∧ S.width 0x61 = 1 ∧ S.width 0x300 = 0 ∧ S.width 0xE = 0 := by decide

-- (a) cursor one past the end (what the lexer reports for 输出“\`): original panics, repaired quotes the line
example : M.fmtLineLegacy [0x8F93, 0x51FA, 0x201C, 0x5C, 0x60] 6 = .panic := by decide
example : M.fmtLine [0x8F93, 0x51FA, 0x201C, 0x5C, 0x60] 6 = .ok [0x8F93, 0x51FA, 0x201C, 0x5C, 0x60] 7 := by decide
-- (b) every character up to the cursor is a line break: index -1
example : M.fmtLineLegacy [0xA, 0xA] 1 = .panic := by decide
example : M.fmtLine [0xA, 0xA] 1 = .ok [] 0 := by decide
-- (c) cursor inside the indentation (lexer error 23 on `a⏎⇥b⏎␠␠␠␠⇥c`, cursor 9): negative Repeat count
example : M.fmtLineLegacy [0x61, 0xA, 0x9, 0x62, 0xA, 0x20, 0x20, 0x20, 0x20, 0x9, 0x63] 9 = .panic := by decide
example : M.fmtLine [0x61, 0xA, 0x9, 0x62, 0xA, 0x20, 0x20, 0x20, 0x20, 0x9, 0x63] 9 = .ok [0x63] 0 := by decide
-- (d) last line without a newline: the original quotes the appended NUL sentinel
example : M.fmtLineLegacy [0x61, 0x62, 0x63] 1 = .ok [0x61, 0x62, 0x63, 0] 1 := by decide
example : M.fmtLine [0x61, 0x62, 0x63] 1 = .ok [0x61, 0x62, 0x63] 1 := by decide
-- (e) a break at index 0 is quoted as part of line 2; (f) cursor on the LF of CRLF quotes the CR
example : M.fmtLineLegacy [0xA, 0x61, 0x62, 0xA] 2 = .ok [0xA, 0x61, 0x62] 2 := by decide
example : M.fmtLine [0xA, 0x61, 0x62, 0xA] 2 = .ok [0x61, 0x62] 1 := by decide
example : M.fmtLineLegacy [0x61, 0xD, 0xA, 0x62] 2 = .ok [0x61, 0xD] 2 := by decide
example : M.fmtLine [0x61, 0xD, 0xA, 0x62] 2 = .ok [0x61] 1 := by decide
-- a negative cursor
example : M.fmtLineLegacy [0x61] (-1) = .panic := by decide
example : M.fmtLine [0x61] (-1) = .ok [0x61] 0 := by decide

end ZnVerif.Proofs.ErrorPrinter
