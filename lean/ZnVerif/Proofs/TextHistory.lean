/-
Helper lemmas for C14, one text value over a history: the byte-level `strings.Replace(…, 1)` of an encoded pattern
commutes with UTF-8 encoding (no occurrence starts inside a character), hence so does what 转换数值 stores back
into its receiver; from there the model's history on `encode t` is the encoded spec history on `t`.
-/
import ZnVerif.Proofs.TextOps

namespace ZnVerif.Proofs.TextHistory
open ZnVerif.Model ZnVerif.Spec
open ZnVerif.Proofs.TextUtf8
open ZnVerif.Proofs.TextOps (liftErr isPrefixOf_iff prefix_encode)

/-! ### replacing the first occurrence -/

/-- a pattern that starts with a lead byte is not found at continuation bytes: they are copied -/
theorem replaceFirstBytes_conts (pat rep : List Nat) (b0 : Nat) (pb : List Nat) (hpat : pat = b0 :: pb)
    (hb0 : Model.TextOps.isCont b0 = false) :
    ∀ (xs : List Nat), (∀ x ∈ xs, Model.TextOps.isCont x = true) → ∀ (ys : List Nat),
    Model.TextOps.replaceFirstBytes pat rep (xs ++ ys) = xs ++ Model.TextOps.replaceFirstBytes pat rep ys := by
  intro xs
  induction xs with
  | nil => intro _ ys; rfl
  | cons x xs ih =>
    intro hx ys
    have hx0 : Model.TextOps.isCont x = true := hx x (by simp)
    have hne : b0 ≠ x := by
      intro h; rw [h] at hb0; rw [hb0] at hx0; exact absurd hx0 (by simp)
    have hnp : pat.isPrefixOf (x :: (xs ++ ys)) = false := by
      rw [hpat]; simp [List.isPrefixOf, hne]
    rw [List.cons_append, Model.TextOps.replaceFirstBytes, hnp]
    simp only [Bool.false_eq_true, if_false]
    rw [ih (fun y hy => hx y (by simp [hy]))]
    rfl

/-- `strings.Replace(s, old, new, 1)` on the bytes of a text, for the bytes of a non-empty `old` and of `new`, is the
encoding of the text in which the first occurrence of the characters `old` is replaced by the characters `new` -/
theorem replaceFirstBytes_encode (pat rep : List Nat) (hpat : pat ≠ []) (hvp : ValidText pat) :
    ∀ (t : List Nat), ValidText t →
    Model.TextOps.replaceFirstBytes (Model.TextOps.encode pat) (Model.TextOps.encode rep) (Model.TextOps.encode t) =
      Model.TextOps.encode (Spec.TextOps.replaceFirst pat rep t) := by
  obtain ⟨p0, pat', rfl⟩ := List.exists_cons_of_ne_nil hpat
  obtain ⟨hp0, _⟩ := (validText_cons p0 pat').1 hvp
  obtain ⟨b0, pb, hb, hb0, _⟩ := encodeRune_shape p0 hp0
  have hepat : Model.TextOps.encode (p0 :: pat') = b0 :: (pb ++ Model.TextOps.encode pat') := by
    rw [encode_cons, hb]; rfl
  intro t
  induction t with
  | nil => intro _; rfl
  | cons c t ih =>
    intro hvt
    obtain ⟨hc, hvt'⟩ := (validText_cons c t).1 hvt
    obtain ⟨c0, cb, hcb, _, hcconts⟩ := encodeRune_shape c hc
    have hpe := prefix_encode (p0 :: pat') (c :: t) hvp hvt
    by_cases hp : (p0 :: pat').isPrefixOf (c :: t) = true
    · -- the pattern is here, on both sides
      rw [hp] at hpe
      obtain ⟨r, hr⟩ := (isPrefixOf_iff _ _).1 hp
      rw [Spec.TextOps.replaceFirst, if_pos hp]
      have hdrop : (c :: t).drop (p0 :: pat').length = r := by rw [hr]; simp
      rw [hdrop, encode_append]
      have hct : Model.TextOps.encode (c :: t) = c0 :: (cb ++ Model.TextOps.encode t) := by
        rw [encode_cons, hcb]; rfl
      have hdropb : (c0 :: (cb ++ Model.TextOps.encode t)).drop (Model.TextOps.encode (p0 :: pat')).length =
          Model.TextOps.encode r := by
        rw [← hct, hr, encode_append]; simp
      rw [hct] at hpe ⊢
      rw [Model.TextOps.replaceFirstBytes, if_pos hpe, hdropb]
    · -- not here: the character is copied, byte by byte
      have hp' : (p0 :: pat').isPrefixOf (c :: t) = false := Bool.eq_false_iff.2 hp
      rw [hp'] at hpe
      rw [Spec.TextOps.replaceFirst, if_neg hp, encode_cons c t, encode_cons c, hcb] at *
      rw [List.cons_append] at hpe ⊢
      rw [Model.TextOps.replaceFirstBytes, if_neg (by rw [hpe]; simp)]
      rw [replaceFirstBytes_conts _ _ b0 _ hepat hb0 cb hcconts, ih hvt']
      rfl

/-- the characters of the result are characters of the text or of the replacement -/
theorem mem_replaceFirst (pat rep : List Nat) : ∀ (t : List Nat) (c : Nat),
    c ∈ Spec.TextOps.replaceFirst pat rep t → c ∈ rep ∨ c ∈ t := by
  intro t
  induction t with
  | nil => intro c h; simp [Spec.TextOps.replaceFirst] at h
  | cons a t ih =>
    intro c h
    rw [Spec.TextOps.replaceFirst] at h
    split at h
    · rcases List.mem_append.1 h with h | h
      · exact Or.inl h
      · exact Or.inr (List.mem_of_mem_drop h)
    · rcases List.mem_cons.1 h with h | h
      · exact Or.inr (by simp [h])
      · rcases ih c h with h | h
        · exact Or.inl h
        · exact Or.inr (List.mem_cons_of_mem _ h)

theorem validText_replaceFirst (pat rep t : List Nat) (hr : ValidText rep) (ht : ValidText t) :
    ValidText (Spec.TextOps.replaceFirst pat rep t) := by
  intro c hc
  rcases mem_replaceFirst pat rep t c hc with h | h
  · exact hr c h
  · exact ht c h

theorem validText_e : ValidText [0x65] := by
  intro c hc; simp at hc; subst hc; decide

theorem validText_numberRewrite (t : List Nat) (ht : ValidText t) : ValidText (Spec.TextOps.numberRewrite t) :=
  validText_replaceFirst _ _ _ validText_e (validText_replaceFirst _ _ _ validText_e ht)

/-- what `strExecAtoi` stores back into its receiver, on the bytes of a text, is the encoding of the spec's rewritten
text: the bytes of `*^` / `*10^` are found only where these characters stand -/
theorem atoiRewrite_encode (t : List Nat) (hv : ValidText t) :
    Model.TextOps.atoiRewrite (Model.TextOps.encode t) = Model.TextOps.encode (Spec.TextOps.numberRewrite t) := by
  have v1 : ValidText [0x2A, 0x5E] := by
    intro c hc; simp at hc; rcases hc with rfl | rfl <;> decide
  have v2 : ValidText [0x2A, 0x31, 0x30, 0x5E] := by
    intro c hc; simp at hc; rcases hc with rfl | rfl | rfl | rfl <;> decide
  have e1 : ([0x2A, 0x5E] : List Nat) = Model.TextOps.encode [0x2A, 0x5E] := by decide
  have e2 : ([0x2A, 0x31, 0x30, 0x5E] : List Nat) = Model.TextOps.encode [0x2A, 0x31, 0x30, 0x5E] := by decide
  have e3 : ([0x65] : List Nat) = Model.TextOps.encode [0x65] := by decide
  have h1 := replaceFirstBytes_encode [0x2A, 0x5E] [0x65] (by simp) v1 t hv
  have h2 := replaceFirstBytes_encode [0x2A, 0x31, 0x30, 0x5E] [0x65] (by simp) v2 _
    (validText_replaceFirst [0x2A, 0x5E] [0x65] t validText_e hv)
  rw [← e1, ← e3] at h1
  rw [← e2, ← e3] at h2
  unfold Model.TextOps.atoiRewrite Spec.TextOps.numberRewrite
  rw [h1, h2]

/-! ### histories -/

/-- a spec observation as the model shows it: every text in it encoded, numbers and the exception class as they are -/
def encodeObs : Spec.TextOps.SpecObs → Model.TextOps.Obs
  | .len n => .len n
  | .chars cs => .chars (cs.map Model.TextOps.encode)
  | .slice (.ok r) => .slice (.ok (Model.TextOps.encode r))
  | .slice (.error e) => .slice (.error (liftErr e))
  | .text t => .text (Model.TextOps.encode t)
  | .converted => .converted

theorem validText_step (t : List Nat) (hv : ValidText t) (st : Model.TextOps.Step) :
    ValidText (Spec.TextOps.step t st).2 := by
  cases st <;> first | exact hv | exact validText_numberRewrite t hv

/-- one step: same observation (encoded), same text afterwards (encoded) -/
theorem step_encode (t : List Nat) (hv : ValidText t) (st : Model.TextOps.Step) :
    Model.TextOps.step (Model.TextOps.encode t) st =
      (encodeObs (Spec.TextOps.step t st).1, Model.TextOps.encode (Spec.TextOps.step t st).2) := by
  cases st with
  | len => simp [Model.TextOps.step, Spec.TextOps.step, encodeObs, length_encode t hv]
  | chars =>
    simp only [Model.TextOps.step, Spec.TextOps.step, encodeObs, chars_encode t hv, List.map_map]
    congr 2
    apply List.map_congr_left
    intro c _
    simp [Model.TextOps.encode]
  | slice i j =>
    simp only [Model.TextOps.step, Spec.TextOps.step, TextOps.slice_encode t hv i j]
    cases Spec.TextOps.slice t i j <;> rfl
  | text => rfl
  | toNumber => simp [Model.TextOps.step, Spec.TextOps.step, encodeObs, atoiRewrite_encode t hv]

theorem validText_stateAfter : ∀ (h : List Model.TextOps.Step) (t : List Nat), ValidText t →
    ValidText (Spec.TextOps.stateAfter h t) := by
  intro h
  induction h with
  | nil => intro t hv; exact hv
  | cons st h ih => intro t hv; exact ih _ (validText_step t hv st)

theorem stateAfter_encode : ∀ (h : List Model.TextOps.Step) (t : List Nat), ValidText t →
    Model.TextOps.stateAfter h (Model.TextOps.encode t) = Model.TextOps.encode (Spec.TextOps.stateAfter h t) := by
  intro h
  induction h with
  | nil => intro t _; rfl
  | cons st h ih =>
    intro t hv
    rw [Model.TextOps.stateAfter, step_encode t hv st]
    exact ih _ (validText_step t hv st)

theorem runHistory_encode : ∀ (h : List Model.TextOps.Step) (t : List Nat), ValidText t →
    Model.TextOps.runHistory h (Model.TextOps.encode t) = (Spec.TextOps.runHistory h t).map encodeObs := by
  intro h
  induction h with
  | nil => intro t _; rfl
  | cons st h ih =>
    intro t hv
    rw [Model.TextOps.runHistory, step_encode t hv st]
    dsimp only
    rw [ih _ (validText_step t hv st)]
    rfl

/-- a history in two parts: the second part runs on the value the first part left -/
theorem runHistory_append : ∀ (h₁ h₂ : List Model.TextOps.Step) (s : List Nat),
    Model.TextOps.runHistory (h₁ ++ h₂) s =
      Model.TextOps.runHistory h₁ s ++ Model.TextOps.runHistory h₂ (Model.TextOps.stateAfter h₁ s) := by
  intro h₁
  induction h₁ with
  | nil => intro h₂ s; rfl
  | cons st h₁ ih =>
    intro h₂ s
    simp only [List.cons_append, Model.TextOps.runHistory, Model.TextOps.stateAfter, ih]

end ZnVerif.Proofs.TextHistory
