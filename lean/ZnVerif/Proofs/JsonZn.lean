/-
Helper lemmas for C19 at the level of Zn values: UTF-8 round trip, AppendKVPair (first place, last value),
element ↔ plain value conversions, printed texts are Zn texts.  Core Lean only.
-/
import ZnVerif.Proofs.Json
namespace ZnVerif.Proofs.Json
open ZnVerif.Model.Json

/-! ### UTF-8 -/

theorem decodeRune1 (c : Nat) (h1 : c < 0x80) (rest : List Nat) : utf8DecodeRune c rest = (c, 0) := by
  unfold utf8DecodeRune
  rw [if_pos h1]

theorem decodeRune2 (c : Nat) (h1 : ¬ c < 0x80) (h2 : c < 0x800) (rest : List Nat) :
    utf8DecodeRune (0xC0 + c / 64) ((0x80 + c % 64) :: rest) = (c, 1) := by
  have a1 : ¬ (0xC0 + c / 64 < 0x80) := by omega
  have a2 : 0xC2 ≤ 0xC0 + c / 64 ∧ 0xC0 + c / 64 ≤ 0xDF := by omega
  have a3 : isCont (0x80 + c % 64) = true := by simp only [isCont, decide_eq_true_eq]; omega
  unfold utf8DecodeRune
  rw [if_neg a1, if_pos a2]
  simp only [a3, if_true, Nat.add_sub_cancel_left]
  have : c / 64 * 64 + c % 64 = c := by omega
  rw [this]

theorem decodeRune3 (c : Nat) (h2 : ¬ c < 0x800) (h3 : c < 0x10000) (hns : ¬ (0xD800 ≤ c ∧ c < 0xE000)) (rest : List Nat) :
    utf8DecodeRune (0xE0 + c / 4096) ((0x80 + c / 64 % 64) :: (0x80 + c % 64) :: rest) = (c, 2) := by
  have a1 : ¬ (0xE0 + c / 4096 < 0x80) := by omega
  have a2 : ¬ (0xC2 ≤ 0xE0 + c / 4096 ∧ 0xE0 + c / 4096 ≤ 0xDF) := by omega
  have a3 : 0xE0 ≤ 0xE0 + c / 4096 ∧ 0xE0 + c / 4096 ≤ 0xEF := by omega
  have a4 : isCont (0x80 + c % 64) = true := by simp only [isCont, decide_eq_true_eq]; omega
  have a5 : (if 0xE0 + c / 4096 = 0xE0 then 0xA0 else 0x80) ≤ 0x80 + c / 64 % 64
      ∧ 0x80 + c / 64 % 64 ≤ (if 0xE0 + c / 4096 = 0xED then 0x9F else 0xBF) ∧ isCont (0x80 + c % 64) = true := by
    refine ⟨?_, ?_, a4⟩ <;> split <;> omega
  unfold utf8DecodeRune
  rw [if_neg a1, if_neg a2, if_pos a3]
  simp only [a5, and_self, if_true, Nat.add_sub_cancel_left]
  have : c / 4096 * 4096 + c / 64 % 64 * 64 + c % 64 = c := by omega
  rw [this]

theorem decodeRune4 (c : Nat) (h3 : ¬ c < 0x10000) (hlt : c < 0x110000) (rest : List Nat) :
    utf8DecodeRune (0xF0 + c / 262144) ((0x80 + c / 4096 % 64) :: (0x80 + c / 64 % 64) :: (0x80 + c % 64) :: rest) = (c, 3) := by
  have a1 : ¬ (0xF0 + c / 262144 < 0x80) := by omega
  have a2 : ¬ (0xC2 ≤ 0xF0 + c / 262144 ∧ 0xF0 + c / 262144 ≤ 0xDF) := by omega
  have a3 : ¬ (0xE0 ≤ 0xF0 + c / 262144 ∧ 0xF0 + c / 262144 ≤ 0xEF) := by omega
  have a4 : 0xF0 ≤ 0xF0 + c / 262144 ∧ 0xF0 + c / 262144 ≤ 0xF4 := by omega
  have a5 : isCont (0x80 + c / 64 % 64) = true := by simp only [isCont, decide_eq_true_eq]; omega
  have a6 : isCont (0x80 + c % 64) = true := by simp only [isCont, decide_eq_true_eq]; omega
  have a7 : (if 0xF0 + c / 262144 = 0xF0 then 0x90 else 0x80) ≤ 0x80 + c / 4096 % 64
      ∧ 0x80 + c / 4096 % 64 ≤ (if 0xF0 + c / 262144 = 0xF4 then 0x8F else 0xBF) ∧ isCont (0x80 + c / 64 % 64) = true
      ∧ isCont (0x80 + c % 64) = true := by
    refine ⟨?_, ?_, a5, a6⟩ <;> split <;> omega
  unfold utf8DecodeRune
  rw [if_neg a1, if_neg a2, if_neg a3, if_pos a4]
  simp only [a7, and_self, if_true, Nat.add_sub_cancel_left]
  have : c / 262144 * 262144 + c / 4096 % 64 * 4096 + c / 64 % 64 * 64 + c % 64 = c := by omega
  rw [this]

theorem utf8_decode_encode_cp (c : Nat) (hc : isScalar c = true) (rest : List Nat) :
    utf8DecodeLossy (utf8EncodeCp c ++ rest) = c :: utf8DecodeLossy rest := by
  simp only [isScalar, isSurrogate, Bool.and_eq_true, decide_eq_true_eq, Bool.not_eq_true', decide_eq_false_iff_not] at hc
  obtain ⟨hlt, hns⟩ := hc
  unfold utf8EncodeCp
  by_cases h1 : c < 0x80
  · rw [if_pos h1, List.cons_append, List.nil_append, utf8DecodeLossy]
    simp only [decodeRune1 c h1, List.drop_zero]
  · by_cases h2 : c < 0x800
    · rw [if_neg h1, if_pos h2]
      simp only [List.cons_append, List.nil_append]
      rw [utf8DecodeLossy]
      simp only [decodeRune2 c h1 h2, List.drop_succ_cons, List.drop_zero]
    · by_cases h3 : c < 0x10000
      · have hs : isSurrogate c = false := by simp only [isSurrogate, decide_eq_false_iff_not]; exact hns
        rw [if_neg h1, if_neg h2, if_pos h3, hs]
        simp only [Bool.false_eq_true, if_false, List.cons_append, List.nil_append]
        rw [utf8DecodeLossy]
        simp only [decodeRune3 c h2 h3 hns, List.drop_succ_cons, List.drop_zero]
      · rw [if_neg h1, if_neg h2, if_neg h3, if_pos hlt]
        simp only [List.cons_append, List.nil_append]
        rw [utf8DecodeLossy]
        simp only [decodeRune4 c h3 hlt, List.drop_succ_cons, List.drop_zero]

/-- a text of Unicode scalar values survives `string(data)` / `[]byte(text)` -/
theorem utf8_decode_encode (s : Text) (hs : s.all isScalar = true) : utf8DecodeLossy (utf8Encode s) = s := by
  induction s with
  | nil => simp [utf8Encode, utf8DecodeLossy]
  | cons c s ih =>
    simp only [List.all_cons, Bool.and_eq_true] at hs
    rw [utf8Encode, utf8_decode_encode_cp c hs.1, ih hs.2]

variable {ν : Type} {α : Type}

/-! ### AppendKVPair -/

theorem appendKV_absent (acc : List (Text × α)) (k : Text) (v : α) (h : acc.any (fun p => p.1 == k) = false) :
    appendKV acc k v = acc ++ [(k, v)] := by
  simp [appendKV, h]

theorem appendAll_distinct : ∀ (kvs acc : List (Text × α)), distinctKeys kvs = true →
    (∀ p ∈ kvs, acc.any (fun q => q.1 == p.1) = false) → appendAll acc kvs = acc ++ kvs
  | [], acc, _, _ => by simp [appendAll]
  | (k, v) :: kvs, acc, hd, hacc => by
    simp only [distinctKeys, Bool.and_eq_true, Bool.not_eq_true'] at hd
    have h0 := hacc (k, v) (by simp)
    have ih := appendAll_distinct kvs (acc ++ [(k, v)]) hd.2 (by
      intro p hp
      have h1 := hacc p (by simp [hp])
      have h2 : (p.1 == k) = false := by
        have := hd.1
        simp only [List.any_eq_false] at this
        have := this p hp
        cases hpk : (p.1 == k) <;> simp_all
      have h3 : (k == p.1) = false := by
        cases hkp : (k == p.1)
        · rfl
        · have : p.1 = k := (beq_iff_eq.mp hkp).symm
          rw [this] at h2; simp at h2
      simp [h1, h3])
    simp only [appendAll, List.foldl_cons] at ih ⊢
    rw [appendKV_absent acc k v h0, ih]
    simp

theorem appendAll_nil_distinct (kvs : List (Text × α)) (h : distinctKeys kvs = true) : appendAll [] kvs = kvs := by
  simpa using appendAll_distinct kvs [] h (by intro p _; rfl)


/-- `keyOrder = append(keyOrder, key)` unless the key is there already -/
def addKey (ks : List Text) (k : Text) : List Text := if ks.contains k then ks else ks ++ [k]

theorem any_key_eq_contains (acc : List (Text × α)) (k : Text) :
    acc.any (fun p => p.1 == k) = (keysOf acc).contains k := by
  induction acc with
  | nil => rfl
  | cons p acc ih =>
    simp only [List.any_cons, keysOf, List.map_cons, List.contains_cons] at ih ⊢
    rw [ih]
    congr 1
    exact Bool.eq_iff_iff.mpr ⟨fun h => by simpa using (beq_iff_eq.mp h).symm, fun h => by simpa using (beq_iff_eq.mp h).symm⟩

theorem keysOf_appendKV (acc : List (Text × α)) (k : Text) (v : α) :
    keysOf (appendKV acc k v) = addKey (keysOf acc) k := by
  unfold appendKV addKey
  rw [any_key_eq_contains]
  split
  · simp only [keysOf, List.map_map]
    apply List.map_congr_left
    intro p _
    simp only [Function.comp]
    split <;> rfl
  · simp [keysOf]

theorem keysOf_appendAll (ms : List (Text × α)) : ∀ acc : List (Text × α),
    keysOf (appendAll acc ms) = (keysOf ms).foldl addKey (keysOf acc) := by
  induction ms with
  | nil => intro acc; rfl
  | cons p ms ih =>
    intro acc
    simp only [appendAll, List.foldl_cons, keysOf, List.map_cons] at ih ⊢
    rw [ih, ← keysOf, ← keysOf, keysOf_appendKV]
    rfl

theorem foldl_addKey (l : List Text) : ∀ ks : List Text,
    l.foldl addKey ks = ks ++ (firstOccurrences l).filter (fun x => !ks.contains x) := by
  induction l with
  | nil => intro ks; simp [firstOccurrences]
  | cons k l ih =>
    intro ks
    simp only [List.foldl_cons, firstOccurrences, List.filter_cons]
    rw [ih]
    unfold addKey
    by_cases hk : ks.contains k = true
    · simp only [hk, if_true, Bool.not_true, Bool.false_eq_true, if_false, List.filter_filter]
      congr 1
      apply List.filter_congr
      intro x _
      cases hx : ks.contains x
      · have : x ≠ k := by intro h; subst h; rw [hk] at hx; cases hx
        simp [this]
      · simp only [Bool.not_true, Bool.false_and]
    · simp only [hk, Bool.false_eq_true, if_false, Bool.not_false, if_true, List.filter_filter, List.append_assoc,
        List.cons_append, List.nil_append]
      congr 2
      apply List.filter_congr
      intro x _
      simp only [List.contains_append, List.contains_cons, List.contains_nil, Bool.or_false, Bool.not_or]
      cases ks.contains x <;> simp [bne]

/-- keys of the dictionary built from the members of a JSON object: document order, first occurrence -/
theorem keysOf_appendAll_nil (ms : List (Text × α)) : keysOf (appendAll [] ms) = firstOccurrences (keysOf ms) := by
  rw [keysOf_appendAll, foldl_addKey]
  simp [keysOf]

theorem getV_appendKV (acc : List (Text × α)) (k : Text) (v : α) (k' : Text) :
    getV (appendKV acc k v) k' = if k == k' then some v else getV acc k' := by
  unfold appendKV getV
  split
  · rename_i hany
    rw [List.find?_map]
    have hcomp : ((fun p : Text × α => p.1 == k') ∘ fun p => if (p.1 == k) = true then (p.1, v) else p)
        = fun p => p.1 == k' := by
      funext p; simp only [Function.comp]; split <;> rfl
    rw [hcomp]
    cases hf : acc.find? (fun p => p.1 == k') with
    | none =>
      have hnone := List.find?_eq_none.mp hf
      by_cases hkk : (k == k') = true
      · exfalso
        obtain ⟨q, hq, hqk⟩ := List.any_eq_true.mp hany
        have := hnone q hq
        rw [beq_iff_eq.mp hqk, hkk] at this
        exact this rfl
      · simp [hkk]
    | some q =>
      have hq : (q.1 == k') = true := List.find?_some (p := fun p : Text × α => p.1 == k') hf
      by_cases hkk : (k == k') = true
      · have : q.1 = k := by rw [beq_iff_eq.mp hkk]; exact beq_iff_eq.mp hq
        simp [hkk, this]
      · have : ¬ q.1 = k := by
          intro h; rw [h] at hq; exact hkk hq
        simp [hkk, this]
  · rename_i hany
    simp only [Bool.not_eq_true] at hany
    rw [List.find?_append]
    by_cases hkk : (k == k') = true
    · have hnone : acc.find? (fun p => p.1 == k') = none := by
        apply List.find?_eq_none.mpr
        intro q hq hqk
        have := List.any_eq_false.mp hany q hq
        rw [← beq_iff_eq.mp hkk] at hqk
        exact this hqk
      simp [hnone, hkk]
    · simp [hkk]

/-- value under a key in the dictionary built from the members of a JSON object: the last member's -/
theorem getV_appendAll (ms : List (Text × α)) (k : Text) : ∀ acc : List (Text × α),
    getV (appendAll acc ms) k = match lastValue ms k with
      | some v => some v
      | none => getV acc k := by
  induction ms with
  | nil => intro acc; rfl
  | cons p ms ih =>
    intro acc
    obtain ⟨k1, v1⟩ := p
    simp only [appendAll, List.foldl_cons] at ih ⊢
    rw [ih, lastValue]
    cases lastValue ms k with
    | some v => rfl
    | none => simp only [getV_appendKV]; split <;> rfl

theorem getV_appendAll_nil (ms : List (Text × α)) (k : Text) : getV (appendAll [] ms) k = lastValue ms k := by
  rw [getV_appendAll]
  cases lastValue ms k <;> rfl


/-! ### element → plain value → element -/

mutual
theorem build_roundtrip (C : NumCodec ν) : ∀ e : JV ν, e.noOther = true → e.keysDistinct = true →
    buildElementFromPlainValue C (buildPlainValueFromElement e).toPlain = e
  | .null, _, _ => by simp [buildPlainValueFromElement, PV.toPlain, buildElementFromPlainValue]
  | .bool _, _, _ => by simp [buildPlainValueFromElement, PV.toPlain, buildElementFromPlainValue]
  | .num _, _, _ => by simp [buildPlainValueFromElement, PV.toPlain, buildElementFromPlainValue]
  | .str _, _, _ => by simp [buildPlainValueFromElement, PV.toPlain, buildElementFromPlainValue]
  | .other _, h, _ => by simp [JV.noOther] at h
  | .list xs, h, hk => by
    simp only [JV.noOther] at h
    simp only [JV.keysDistinct] at hk
    simp [buildPlainValueFromElement, PV.toPlain, buildElementFromPlainValue, build_roundtripL C xs h hk]
  | .dict kvs, h, hk => by
    simp only [JV.noOther] at h
    simp only [JV.keysDistinct, Bool.and_eq_true] at hk
    simp [buildPlainValueFromElement, PV.toPlain, buildElementFromPlainValue, build_roundtripM C kvs h hk.2,
      appendAll_nil_distinct kvs hk.1]
theorem build_roundtripL (C : NumCodec ν) : ∀ xs : List (JV ν), noOtherL xs = true → keysDistinctL xs = true →
    buildElemL C (toPlainL (buildPlainL xs)) = xs
  | [], _, _ => by simp [buildPlainL, toPlainL, buildElemL]
  | x :: xs, h, hk => by
    simp only [noOtherL, Bool.and_eq_true] at h
    simp only [keysDistinctL, Bool.and_eq_true] at hk
    simp [buildPlainL, toPlainL, buildElemL, build_roundtrip C x h.1 hk.1, build_roundtripL C xs h.2 hk.2]
theorem build_roundtripM (C : NumCodec ν) : ∀ kvs : List (Text × JV ν), noOtherM kvs = true → keysDistinctM kvs = true →
    buildElemM C (toPlainM (buildPlainM kvs)) = kvs
  | [], _, _ => by simp [buildPlainM, toPlainM, buildElemM]
  | (k, v) :: kvs, h, hk => by
    simp only [noOtherM, Bool.and_eq_true] at h
    simp only [keysDistinctM, Bool.and_eq_true] at hk
    simp [buildPlainM, toPlainM, buildElemM, build_roundtrip C v h.1 hk.1, build_roundtripM C kvs h.2 hk.2]
end

theorem buildElemM_map (C : NumCodec ν) (ms : List (Text × PV ν)) :
    buildElemM C (toPlainM ms) = ms.map (fun p => (p.1, buildElementFromPlainValue C p.2.toPlain)) := by
  induction ms with
  | nil => simp [toPlainM, buildElemM]
  | cons p ms ih => obtain ⟨k, v⟩ := p; simp [toPlainM, buildElemM, ih]

theorem keysOf_buildPlainM (kvs : List (Text × JV ν)) : keysOf (buildPlainM kvs) = keysOf kvs := by
  induction kvs with
  | nil => rfl
  | cons p kvs ih => obtain ⟨k, v⟩ := p; simp only [buildPlainM, keysOf, List.map_cons] at ih ⊢; rw [ih]

theorem lastValue_map {α β : Type} (f : α → β) (ms : List (Text × α)) (k : Text) :
    lastValue (ms.map (fun p => (p.1, f p.2))) k = (lastValue ms k).map f := by
  induction ms with
  | nil => rfl
  | cons p ms ih =>
    obtain ⟨k1, v1⟩ := p
    simp only [List.map_cons, lastValue, ih]
    cases lastValue ms k with
    | some v => rfl
    | none => simp only [Option.map_none]; split <;> rfl

/-! ### a printed text is a Zn text -/

theorem isScalar_of_lt (c : Nat) (h : c < 0x80) : isScalar c = true := by
  simp only [isScalar, isSurrogate, Bool.and_eq_true, decide_eq_true_eq, Bool.not_eq_true', decide_eq_false_iff_not]
  omega

theorem hexChar_lt (up : Bool) (d : Nat) (h : d < 16) : hexChar up d < 0x80 := by
  unfold hexChar; split <;> (try split) <;> omega

theorem hex4_scalar (up : Bool) (n : Nat) : (hex4 up n).all isScalar = true := by
  simp only [hex4, List.all_cons, List.all_nil, Bool.and_true, Bool.and_eq_true]
  refine ⟨?_, ?_, ?_, ?_⟩ <;> exact isScalar_of_lt _ (hexChar_lt up _ (Nat.mod_lt _ (by decide)))

theorem escChar_scalar (f : EscForm) (c : Nat) (hc : isScalar c = true) : (escChar f c).all isScalar = true := by
  cases f with
  | lit => simp [escChar, hc]
  | short =>
    simp only [escChar]
    cases h : shortCode c with
    | none => simp [hc]
    | some x =>
      have hx : x < 0x80 := by
        unfold shortCode at h
        repeat' split at h
        all_goals first | (cases h; decide) | simp at h
      simp [isScalar_of_lt _ hx, isScalar_of_lt 0x5C (by decide)]
  | uni up =>
    simp only [escChar]
    split <;> simp [hex4_scalar, isScalar_of_lt 0x5C (by decide), isScalar_of_lt 0x75 (by decide), List.all_append]

theorem printStr_scalar (st : Style) (s : Text) (hs : s.all isScalar = true) : (printStr st s).all isScalar = true := by
  have hb : (printStrBody st s).all isScalar = true := by
    induction s with
    | nil => rfl
    | cons c s ih =>
      simp only [List.all_cons, Bool.and_eq_true] at hs
      simp [printStrBody, List.all_append, escChar_scalar _ c hs.1, ih hs.2]
  simp [printStr, List.all_append, hb, isScalar_of_lt 0x22 (by decide)]

theorem ws_scalar (w : Text) (hw : w.all isWs = true) : w.all isScalar = true := by
  induction w with
  | nil => rfl
  | cons c w ih =>
    simp only [List.all_cons, Bool.and_eq_true] at hw ⊢
    refine ⟨isScalar_of_lt c ?_, ih hw.2⟩
    have := hw.1
    simp only [isWs, Bool.or_eq_true, decide_eq_true_eq] at this
    omega

theorem numChars_scalar (t : Text) (ht : t.all isNumChar = true) : t.all isScalar = true := by
  induction t with
  | nil => rfl
  | cons c t ih =>
    simp only [List.all_cons, Bool.and_eq_true] at ht ⊢
    refine ⟨isScalar_of_lt c ?_, ih ht.2⟩
    have := ht.1
    simp only [isNumChar, isDigit, Bool.or_eq_true, decide_eq_true_eq] at this
    omega

mutual
theorem print_scalar (C : NumCodec ν) (hC : C.Lawful) (st : Style) (hst : StyleOk st) :
    ∀ p : PV ν, p.scalarTexts = true → p.finite C = true → (print C st p).all isScalar = true
  | .null, _, _ => by simp only [print]; decide
  | .bool true, _, _ => by simp only [print]; decide
  | .bool false, _, _ => by simp only [print]; decide
  | .num x, _, h => by
    simp only [print]
    exact numChars_scalar _ (isJsonNumber_all _ (hC.token x (by simpa [PV.finite] using h)))
  | .str s, hs, _ => by simp only [print]; exact printStr_scalar st s (by simpa [PV.scalarTexts] using hs)
  | .arr [], _, _ => by
    simp [print, List.all_append, ws_scalar _ hst.inEmpty, isScalar_of_lt 0x5B (by decide), isScalar_of_lt 0x5D (by decide)]
  | .arr (x :: xs), hs, h => by
    simp only [PV.scalarTexts, scalarTextsL, Bool.and_eq_true] at hs
    simp only [PV.finite, finiteL, Bool.and_eq_true] at h
    simp [print, List.all_append, ws_scalar _ hst.afterOpen, ws_scalar _ hst.beforeClose, isScalar_of_lt 0x5B (by decide),
      isScalar_of_lt 0x5D (by decide), print_scalar C hC st hst x hs.1 h.1, printTail_scalar C hC st hst xs hs.2 h.2]
  | .obj [], _, _ => by
    simp [print, List.all_append, ws_scalar _ hst.inEmpty, isScalar_of_lt 0x7B (by decide), isScalar_of_lt 0x7D (by decide)]
  | .obj ((k, v) :: kvs), hs, h => by
    simp only [PV.scalarTexts, scalarTextsM, Bool.and_eq_true] at hs
    simp only [PV.finite, finiteM, Bool.and_eq_true] at h
    simp [print, List.all_append, ws_scalar _ hst.afterOpen, ws_scalar _ hst.beforeClose, ws_scalar _ hst.beforeColon,
      ws_scalar _ hst.afterColon, isScalar_of_lt 0x7B (by decide), isScalar_of_lt 0x7D (by decide),
      isScalar_of_lt 0x3A (by decide), printStr_scalar st k hs.1.1, print_scalar C hC st hst v hs.1.2 h.1,
      printMTail_scalar C hC st hst kvs hs.2 h.2]
theorem printTail_scalar (C : NumCodec ν) (hC : C.Lawful) (st : Style) (hst : StyleOk st) :
    ∀ xs : List (PV ν), scalarTextsL xs = true → finiteL C xs = true → (printTail C st xs).all isScalar = true
  | [], _, _ => by simp [printTail]
  | x :: xs, hs, h => by
    simp only [scalarTextsL, Bool.and_eq_true] at hs
    simp only [finiteL, Bool.and_eq_true] at h
    simp [printTail, List.all_append, ws_scalar _ hst.beforeComma, ws_scalar _ hst.afterComma, isScalar_of_lt 0x2C (by decide),
      print_scalar C hC st hst x hs.1 h.1, printTail_scalar C hC st hst xs hs.2 h.2]
theorem printMTail_scalar (C : NumCodec ν) (hC : C.Lawful) (st : Style) (hst : StyleOk st) :
    ∀ kvs : List (Text × PV ν), scalarTextsM kvs = true → finiteM C kvs = true → (printMTail C st kvs).all isScalar = true
  | [], _, _ => by simp [printMTail]
  | (k, v) :: kvs, hs, h => by
    simp only [scalarTextsM, Bool.and_eq_true] at hs
    simp only [finiteM, Bool.and_eq_true] at h
    simp [printMTail, List.all_append, ws_scalar _ hst.beforeComma, ws_scalar _ hst.afterComma, ws_scalar _ hst.beforeColon,
      ws_scalar _ hst.afterColon, isScalar_of_lt 0x2C (by decide), isScalar_of_lt 0x3A (by decide),
      printStr_scalar st k hs.1.1, print_scalar C hC st hst v hs.1.2 h.1, printMTail_scalar C hC st hst kvs hs.2 h.2]
end

/-! ### a quirk of `buildElementFromPlainValue`, recorded -/

/-- In Go an empty `case` does not fall through: of the ten integer kinds the switch names, only `int64` becomes a
number; the other nine leave the switch and reach the `%v` fallback, i.e. become the decimal *text*.  (No caller passes
integers: the decoder only produces `nil`, `bool`, `float64`, `string`, `[]any`, `plainObject`.) -/
theorem only_int64_becomes_number (C : NumCodec ν) (k : IntKind) (i : Int) :
    buildElementFromPlainValue C (.int k i) = if k = .int64 then .num (C.ofInt i) else .str (decimalText i) := by
  cases k <;> simp [buildElementFromPlainValue]

end ZnVerif.Proofs.Json
