/-
The frame discipline of expression evaluation (used by C02 `return_path_complete`).

`Keep m` — whenever `m` ends normally, the call stack is the one `m` started from, frame by frame, up to the `line`
marker of the top frame (in particular the caller's return slot, its `this`, and every frame below are untouched);
and `m` never ends with a loop signal.

Proved for `evalExpr`, `memberIV`, the three kinds of calls (`execDirectFunction`, `execMethodFunction`, `construct`)
and the declaration statements, at every fuel.  The calls are where frames move: a call pushes one frame, runs code that
is `BalIn` (Proofs/StackBalRules: "a normal end has popped exactly that frame" — this is where the whole-evaluator
induction `allBal` of Proofs/StackBalBlock is used: method bodies, handlers running in their own frame, `unwindTo`),
so after a normal end the stack is *literally* the caller's.
-/
import ZnVerif.Proofs.StackBalBlock
set_option linter.unusedSectionVars false
set_option linter.unusedSimpArgs false
set_option linter.unusedVariables false

namespace ZnVerif.Proofs.RetKeep
open ZnVerif.Model ZnVerif.Proofs.Calls ZnVerif.Proofs.StackBal

variable {ν : Type} [NumOps ν]

/-! ## stacks up to the line marker -/

/-- a frame without the line marker (the only field an expression may update in the caller's frame) -/
def coreL (fr : Frame) : Frame := { fr with line := 0, started := false }

def normL : List Frame → List Frame
  | [] => []
  | f :: r => coreL f :: r

/-- the same stack up to `line` of the top frame: same return slot, same `this`, same module, same frames below -/
def SameL (st st' : List Frame) : Prop := normL st' = normL st

theorem SameL.refl (st : List Frame) : SameL st st := rfl
theorem SameL.trans {a b c : List Frame} (h1 : SameL a b) (h2 : SameL b c) : SameL a c := Eq.trans h2 h1
theorem SameL.of_eq {a b : List Frame} (h : b = a) : SameL a b := by rw [h]; exact SameL.refl _

theorem sameL_iff (st st' : List Frame) :
    SameL st st' ↔ (st = [] ∧ st' = []) ∨
      ∃ f f' r, st = f :: r ∧ st' = f' :: r ∧ f'.moduleId = f.moduleId ∧ f'.callType = f.callType ∧
        f'.this = f.this ∧ f'.ret = f.ret := by
  constructor
  · intro h
    cases st with
    | nil =>
      cases st' with
      | nil => exact Or.inl ⟨rfl, rfl⟩
      | cons _ _ => cases h
    | cons f r =>
      cases st' with
      | nil => cases h
      | cons f' r' =>
        simp only [SameL, normL, List.cons.injEq] at h
        obtain ⟨hc, rfl⟩ := h
        refine Or.inr ⟨f, f', r', rfl, rfl, ?_, ?_, ?_, ?_⟩
        · exact (congrArg Frame.moduleId hc : (coreL f').moduleId = (coreL f).moduleId)
        · exact (congrArg Frame.callType hc : (coreL f').callType = (coreL f).callType)
        · exact (congrArg Frame.this hc : (coreL f').this = (coreL f).this)
        · exact (congrArg Frame.ret hc : (coreL f').ret = (coreL f).ret)
  · rintro (⟨rfl, rfl⟩ | ⟨f, f', r, rfl, rfl, h1, h2, h3, h4⟩)
    · rfl
    · show normL _ = normL _
      simp only [normL, coreL, List.cons.injEq, and_true]
      cases f; cases f'; simp_all

/-- the return slot of the top frame, as a function of the stack -/
def slotOf : List Frame → Option Addr
  | [] => none
  | fr :: _ => fr.ret

theorem SameL.slot {st st' : List Frame} (h : SameL st st') : slotOf st' = slotOf st := by
  rcases (sameL_iff st st').1 h with ⟨rfl, rfl⟩ | ⟨f, f', r, rfl, rfl, _, _, _, h4⟩
  · rfl
  · exact h4

theorem SameL.length_eq {st st' : List Frame} (h : SameL st st') : st'.length = st.length := by
  rcases (sameL_iff st st').1 h with ⟨rfl, rfl⟩ | ⟨f, f', r, rfl, rfl, _⟩ <;> rfl

theorem SameL.tail_eq {st st' : List Frame} (h : SameL st st') : st'.tail = st.tail := by
  rcases (sameL_iff st st').1 h with ⟨rfl, rfl⟩ | ⟨f, f', r, rfl, rfl, _⟩ <;> rfl

/-! ## the judgment -/

/-- a normal end leaves the starting stack (up to the top frame's line marker); never a loop signal -/
structure Keep {α} (m : M ν α) : Prop where
  same : ∀ s, resIsOk (m s).1 = true → SameL s.stack (m s).2.stack
  nosig : ∀ s, resIsSig (m s).1 = false

section rules
variable {α β : Type}

theorem Keep.ofQuiet {m : M ν α} (h : Quiet m) : Keep m :=
  { same := fun s _ => SameL.of_eq (h.stack s)
    nosig := h.nosig }

theorem Keep.pure (a : α) : Keep (pure a : M ν α) := Keep.ofQuiet (Quiet.pure a)

theorem Keep.bind {m : M ν α} {f : α → M ν β} (hm : Keep m) (hf : ∀ a, Keep (f a)) : Keep (m >>= f) := by
  refine ⟨fun s => ?_, fun s => ?_⟩ <;>
  · rw [M_bind_def]
    have h1 := hm.same s; have h2 := hm.nosig s
    rcases h : m s with ⟨r, s'⟩
    rw [h] at h1 h2
    cases r <;> simp only <;> first
      | exact h2
      | (intro hx; cases hx)
      | (intro hk; exact (h1 rfl).trans ((hf _).same s' hk))
      | exact (hf _).nosig s'

theorem Keep.mapM {f : α → M ν β} (h : ∀ a, Keep (f a)) : ∀ l : List α, Keep (l.mapM f)
  | [] => by rw [mapM_nil]; exact Keep.pure _
  | a :: l => by
    rw [mapM_cons]
    exact Keep.bind (h a) fun _ => Keep.bind (Keep.mapM h l) fun _ => Keep.pure _

theorem Keep.forM {f : α → M ν PUnit} (h : ∀ a, Keep (f a)) : ∀ l : List α, Keep (l.forM f)
  | [] => by show Keep (Pure.pure PUnit.unit); exact Keep.pure _
  | a :: l => by
    show Keep (f a >>= fun _ => l.forM f)
    exact Keep.bind (h a) fun _ => Keep.forM h l

theorem Keep.foldlM {f : β → α → M ν β} (h : ∀ b a, Keep (f b a)) : ∀ (l : List α) (b : β), Keep (l.foldlM f b)
  | [], b => by rw [List.foldlM_nil]; exact Keep.pure _
  | a :: l, b => by
    rw [List.foldlM_cons]
    exact Keep.bind (h b a) fun _ => Keep.foldlM h l _

/-- `setTopFrame` with a function that only moves the line marker -/
theorem Keep.setTopFrame (f : Frame → Frame) (hf : ∀ fr, coreL (f fr) = coreL fr) : Keep (setTopFrame (ν := ν) f) := by
  refine ⟨fun s _ => ?_, fun _ => rfl⟩
  unfold Model.setTopFrame modifyVM
  cases h : s.stack with
  | nil => simp only [h]; exact SameL.refl _
  | cons fr rest =>
    simp only [h]
    show normL _ = normL _
    simp [normL, hf]

/-- a call: push one frame, run code that pops exactly that frame on a normal end: the caller's stack is back,
literally -/
theorem Keep.push (fr : Frame) {m : M ν α} (hm : BalIn m) : Keep (pushFrame fr >>= fun _ => m) := by
  have hp : ∀ s : VM ν, pushFrame fr s = (.ok (), (pushFrame fr s).2) := by intro s; unfold pushFrame modifyVM; rfl
  have hst := fun s : VM ν => (pushFrame_run fr s).2.1
  refine ⟨fun s => ?_, fun s => ?_⟩ <;> rw [bind_ok (hp s)]
  · intro h
    exact SameL.of_eq (hm.okpop _ fr s.stack (hst s) h).1
  · exact hm.nosig _

end rules

/-! ## the induction on fuel (expressions only: everything that moves frames is covered by `allBal`) -/

structure AllKeep (n : Nat) : Prop where
  evalExpr : ∀ e, Keep (evalExpr (ν := ν) n e)
  memberIV : ∀ e, Keep (memberIV (ν := ν) n e)
  execDirectFunction : ∀ f ps, Keep (execDirectFunction (ν := ν) n f ps)
  execMethodFunction : ∀ r f ps, Keep (execMethodFunction (ν := ν) n r f ps)
  construct : ∀ c ps, Keep (construct (ν := ν) n c ps)

syntax "keep_prim" : tactic

macro_rules | `(tactic| keep_prim) => `(tactic| first
  | with_reducible apply Keep.bind
  | with_reducible apply Keep.mapM
  | with_reducible apply Keep.forM
  | with_reducible apply Keep.foldlM
  | ((with_reducible (apply Keep.setTopFrame)); intro _; rfl)
  | ((with_reducible (apply Keep.ofQuiet)); quiet_prim))

/-- `ih : AllBal n` (for the code that runs inside a pushed frame), `kh : AllKeep n` -/
macro "keep_ih" ih:ident kh:ident : tactic => `(tactic| repeat' (first
  | assumption
  | with_reducible exact AllKeep.evalExpr $kh _
  | with_reducible exact AllKeep.memberIV $kh _
  | with_reducible exact AllKeep.execDirectFunction $kh _ _
  | with_reducible exact AllKeep.execMethodFunction $kh _ _ _
  | with_reducible exact AllKeep.construct $kh _ _
  | ((with_reducible (apply Keep.push)); (bal_ih $ih))
  | keep_prim | quiet_prim | intro _ | split | dsimp only))

/-- the calls, at fuel `n+1`, from `AllBal n` alone -/
theorem keep_execDirectFunction_succ (n : Nat) (ih : AllBal (ν := ν) n) (f : String) (ps : List Addr) :
    Keep (execDirectFunction (ν := ν) (n+1) f ps) := by
  rw [Model.execDirectFunction]
  repeat' (first
    | ((with_reducible (apply Keep.push)); (bal_ih ih))
    | keep_prim | quiet_prim | intro _ | split | dsimp only)

theorem keep_execMethodFunction_succ (n : Nat) (ih : AllBal (ν := ν) n) (r : Addr) (f : String) (ps : List Addr) :
    Keep (execMethodFunction (ν := ν) (n+1) r f ps) := by
  rw [Model.execMethodFunction]
  repeat' (first
    | ((with_reducible (apply Keep.push)); (bal_ih ih))
    | keep_prim | quiet_prim | intro _ | split | dsimp only)

theorem keep_construct_succ (n : Nat) (ih : AllBal (ν := ν) n) (c : Addr) (ps : List Addr) :
    Keep (construct (ν := ν) (n+1) c ps) := by
  simp only [Model.construct]
  repeat' (first
    | ((with_reducible (apply Keep.push)); (bal_ih ih))
    | keep_prim | quiet_prim | intro _ | split | dsimp only)

theorem keep_evalExpr_succ (n : Nat) (ih : AllBal (ν := ν) n) (kh : AllKeep (ν := ν) n) (e : Expr) :
    Keep (evalExpr (ν := ν) (n+1) e) := by
  cases e <;> rw [Model.evalExpr] <;> keep_ih ih kh <;> contradiction

theorem keep_memberIV_succ (n : Nat) (ih : AllBal (ν := ν) n) (kh : AllKeep (ν := ν) n) (e : Expr) :
    Keep (memberIV (ν := ν) (n+1) e) := by
  cases e <;> rw [Model.memberIV] <;> keep_ih ih kh <;> contradiction

theorem allKeep : ∀ n : Nat, AllKeep (ν := ν) n
  | 0 => by
    exact {
      evalExpr := fun _ => Keep.ofQuiet Quiet.outOfFuel
      memberIV := fun _ => Keep.ofQuiet Quiet.outOfFuel
      execDirectFunction := fun _ _ => Keep.ofQuiet Quiet.outOfFuel
      execMethodFunction := fun _ _ _ => Keep.ofQuiet Quiet.outOfFuel
      construct := fun _ _ => Keep.ofQuiet Quiet.outOfFuel }
  | n+1 => by
    have kh := allKeep n
    have ih := allBal (ν := ν) n
    exact {
      evalExpr := keep_evalExpr_succ n ih kh
      memberIV := keep_memberIV_succ n ih kh
      execDirectFunction := keep_execDirectFunction_succ n ih
      execMethodFunction := keep_execMethodFunction_succ n ih
      construct := keep_construct_succ n ih }

/-! ## statements that cannot set the return slot -/

theorem keep_evalClassDecl (n : Nat) (st : Stmt) : Keep (evalClassDecl (ν := ν) n st) := by
  cases n with
  | zero => exact Keep.ofQuiet Quiet.outOfFuel
  | succ n =>
    have kh := allKeep (ν := ν) n
    have ih := allBal (ν := ν) n
    cases st <;> rw [Model.evalClassDecl] <;> keep_ih ih kh <;> contradiction

theorem keep_evalFuncDecl (n : Nat) (st : Stmt) : Keep (evalFuncDecl (ν := ν) n st) := by
  cases n with
  | zero => exact Keep.ofQuiet Quiet.outOfFuel
  | succ n =>
    cases st <;> rw [Model.evalFuncDecl] <;>
      (repeat' (first | keep_prim | quiet_prim | intro _ | split | dsimp only)) <;> contradiction

theorem keep_evalCtorDecl (n : Nat) (st : Stmt) : Keep (evalCtorDecl (ν := ν) n st) := by
  cases n with
  | zero => exact Keep.ofQuiet Quiet.outOfFuel
  | succ n =>
    cases st <;> rw [Model.evalCtorDecl] <;>
      (repeat' (first | keep_prim | quiet_prim | intro _ | split | dsimp only)) <;> contradiction

/-- the statements that are not 输出, not a loop signal and contain no block -/
def noRetStmt : Stmt → Bool
  | .varDecl .. => true
  | .empty _ => true
  | .funcDecl .. => true
  | .classDecl .. => true
  | .throw .. => true
  | .expr _ => true
  | .nil => true
  | _ => false

theorem keep_evalStmt (n : Nat) (st : Stmt) (h : noRetStmt st = true) : Keep (evalStmt (ν := ν) n st) := by
  cases n with
  | zero => exact Keep.ofQuiet Quiet.outOfFuel
  | succ n =>
    have kh := allKeep (ν := ν) n
    have ih := allBal (ν := ν) n
    cases st <;> first
      | (cases h; done)
      | (rw [Model.evalStmt]
         repeat' (first
           | assumption
           | with_reducible exact AllKeep.evalExpr kh _
           | with_reducible exact AllKeep.construct kh _ _
           | with_reducible exact keep_evalClassDecl _ _
           | with_reducible exact keep_evalFuncDecl _ _
           | with_reducible exact keep_evalCtorDecl _ _
           | keep_prim | quiet_prim | intro _ | split | dsimp only))

end ZnVerif.Proofs.RetKeep
