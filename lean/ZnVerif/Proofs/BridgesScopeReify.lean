/-
Bridge (A) ↔ (B), symbol table: every evaluator scope that satisfies the invariant *stated on (A) alone* (`SimI`) is
related to some state of (B) satisfying (B)'s invariant `Sim` — the state `reify sc` built from it.  With this the
simulation and refinement theorems apply to any evaluator scope met during a run, not only to histories from `{}`.
Core Lean only.
-/
import ZnVerif.Proofs.BridgesScopeRun

namespace ZnVerif.Proofs.Bridges
open ZnVerif ZnVerif.Model ZnVerif.Proofs.Scope
open ZnVerif.SymTab (LocalSymbol refLookup)

def symLocal (sy : Sym) : LocalSymbol := ⟨sy.name, sy.depth, sy.isConst⟩

/-- the `externalRefs` table for the symbols (newest first): the index of a symbol is the number of older ones -/
def refsOf : List Sym → List (Nat × Nat)
  | [] => []
  | sy :: rest =>
    match sy.ext with
    | some m => (rest.length, m.toNat) :: refsOf rest
    | none => refsOf rest

/-- the state of (B) that holds exactly the symbols of `sc` -/
def reify (sc : Model.Scope) : SymTab.Scope Addr :=
  { locals := (sc.syms.reverse.map symLocal).toArray
    localCount := sc.syms.length
    currentDepth := sc.depth
    values := (sc.syms.reverse.map (·.val)).toArray
    externalRefs := refsOf sc.syms }

/-- (B)'s invariant written on (A): current depth `d ≥ 0`, symbol depths within `[0, d]` and non-increasing towards
older symbols, module ids only on top-level symbols and never negative -/
structure SimI (sc : Model.Scope) (d : Nat) : Prop where
  depth : sc.depth = (d : Int)
  depths : DepthsOK d (sc.syms.map (·.depth))
  exts : ∀ sy ∈ sc.syms, sy.ext = none ∨ ((∃ m : Nat, sy.ext = some (m : Int)) ∧ sy.depth ≤ 0)

theorem simI_empty : SimI ({} : Model.Scope) 0 :=
  ⟨rfl, ⟨(by intro x hx; cases hx), List.Pairwise.nil⟩, (by intro sy hsy; cases hsy)⟩

theorem refsOf_key_lt : ∀ (l : List Sym) (k m : Nat), (k, m) ∈ refsOf l → k < l.length
  | [], _, _, h => by cases h
  | sy :: rest, k, m, h => by
    unfold refsOf at h
    cases hx : sy.ext with
    | none =>
      rw [hx] at h
      have := refsOf_key_lt rest k m h
      simp only [List.length_cons]; omega
    | some x =>
      rw [hx] at h
      simp only [List.mem_cons, Prod.mk.injEq] at h
      rcases h with ⟨rfl, _⟩ | h
      · simp
      · have := refsOf_key_lt rest k m h
        simp only [List.length_cons]; omega

theorem refLookup_none_of_keys (refs : List (Nat × Nat)) (k : Nat) (h : ∀ k' m, (k', m) ∈ refs → k' ≠ k) :
    refLookup refs k = none := by
  cases hr : refLookup refs k with
  | none => rfl
  | some m => exact absurd rfl (h k m (refLookup_mem refs k m hr))

/-- symbols in front (newer ones) do not disturb the lookups of older indices -/
theorem refLookup_refsOf_append : ∀ (pre syms : List Sym) (k : Nat), k < syms.length →
    refLookup (refsOf (pre ++ syms)) k = refLookup (refsOf syms) k
  | [], _, _, _ => rfl
  | p :: pre, syms, k, hk => by
    have ih := refLookup_refsOf_append pre syms k hk
    simp only [List.cons_append, refsOf]
    cases p.ext with
    | none => exact ih
    | some x =>
      have : ¬ (pre ++ syms).length = k := by simp only [List.length_append]; omega
      simp only [refLookup, this, if_false]
      exact ih

theorem refLookup_refsOf_head (sy : Sym) (rest : List Sym) :
    refLookup (refsOf (sy :: rest)) rest.length = sy.ext.map Int.toNat := by
  unfold refsOf
  cases sy.ext with
  | none =>
    exact refLookup_none_of_keys _ _ (fun k' m h e => by
      have := refsOf_key_lt rest k' m h; omega)
  | some x => simp [refLookup]

theorem reverse_getElem?_mid {β : Type} (pre : List β) (x : β) (rest : List β) :
    ((pre ++ x :: rest).reverse)[rest.length]? = some x := by
  rw [List.reverse_append, List.reverse_cons, List.append_assoc]
  rw [List.getElem?_append_right (by simp)]
  simp

/-- the live symbols of the reified state, computed on the arrays of any extension by newer symbols -/
theorem liveAux_reify : ∀ (syms pre : List Sym),
    liveAux ((pre ++ syms).reverse.map symLocal).toArray ((pre ++ syms).reverse.map (·.val)).toArray
        (refsOf (pre ++ syms)) syms.length = syms.map toEntry
  | [], _ => rfl
  | sy :: rest, pre => by
    have ih := liveAux_reify rest (pre ++ [sy])
    rw [List.append_assoc] at ih
    simp only [List.singleton_append] at ih
    have hL : ((pre ++ sy :: rest).reverse.map symLocal).toArray[rest.length]? = some (symLocal sy) := by
      rw [List.getElem?_toArray, List.getElem?_map, reverse_getElem?_mid]; rfl
    have hV : ((pre ++ sy :: rest).reverse.map (·.val)).toArray[rest.length]? = some sy.val := by
      rw [List.getElem?_toArray, List.getElem?_map, reverse_getElem?_mid]; rfl
    simp only [List.length_cons, List.map_cons]
    rw [liveAux_succ' _ _ _ _ _ _ hL hV, ih]
    congr 1
    rw [refLookup_refsOf_append pre (sy :: rest) rest.length (by simp), refLookup_refsOf_head]
    rfl

theorem live_reify (sc : Model.Scope) : live (reify sc) = sc.syms.map toEntry := by
  have := liveAux_reify sc.syms []
  simpa [live, reify] using this

theorem toSym_toEntry (sy : Sym) (h : sy.ext = none ∨ ∃ m : Nat, sy.ext = some (m : Int)) : toSym (toEntry sy) = sy := by
  obtain ⟨nm, dp, c, x, v⟩ := sy
  rcases h with h | ⟨m, h⟩
  · simp only at h; subst h; rfl
  · simp only at h; subst h
    simp [toSym, toEntry]

/-- the reified state is related to the scope it was built from -/
theorem R_reify {sc : Model.Scope} {d : Nat} (h : SimI sc d) : R sc (reify sc) := by
  apply R.mk'
  · rw [live_reify, List.map_map]
    have : ∀ sy ∈ sc.syms, (toSym ∘ toEntry) sy = sy := fun sy hsy =>
      toSym_toEntry sy ((h.exts sy hsy).imp id (·.1))
    rw [List.map_congr_left this, List.map_id']
  · rfl

theorem mem_refsOf : ∀ (l : List Sym) (k m : Nat), (k, m) ∈ refsOf l →
    ∃ pre sy rest, l = pre ++ sy :: rest ∧ k = rest.length ∧ sy.ext ≠ none
  | [], _, _, h => by cases h
  | sy :: rest, k, m, h => by
    unfold refsOf at h
    cases hx : sy.ext with
    | none =>
      rw [hx] at h
      obtain ⟨pre, sy', rest', h1, h2, h3⟩ := mem_refsOf rest k m h
      exact ⟨sy :: pre, sy', rest', by rw [h1]; rfl, h2, h3⟩
    | some x =>
      rw [hx] at h
      simp only [List.mem_cons, Prod.mk.injEq] at h
      rcases h with ⟨rfl, _⟩ | h
      · exact ⟨[], sy, rest, rfl, rfl, by rw [hx]; simp⟩
      · obtain ⟨pre, sy', rest', h1, h2, h3⟩ := mem_refsOf rest k m h
        exact ⟨sy :: pre, sy', rest', by rw [h1]; rfl, h2, h3⟩

/-- … and satisfies (B)'s invariant -/
theorem sim_reify {sc : Model.Scope} {d : Nat} (h : SimI sc d) : Sim (reify sc) d := by
  refine ⟨h.depth, ⟨?_, ?_⟩, ?_, ?_⟩
  · simp [reify]
  · simp [reify]
  · rw [live_reify]
    have : Proofs.Scope.depths (sc.syms.map toEntry) = sc.syms.map (·.depth) := by
      unfold Proofs.Scope.depths; rw [List.map_map]; rfl
    rw [this]; exact h.depths
  · intro k m hkm
    have hkm' : (k, m) ∈ refsOf sc.syms := hkm
    obtain ⟨pre, sy, rest, hsplit, hk, hext⟩ := mem_refsOf sc.syms k m hkm'
    have hlt := refsOf_key_lt sc.syms k m hkm'
    refine ⟨hlt, symLocal sy, ?_, ?_⟩
    · show (sc.syms.reverse.map symLocal).toArray[k]? = some (symLocal sy)
      rw [hsplit, hk, List.getElem?_toArray, List.getElem?_map, reverse_getElem?_mid]; rfl
    · have hmem : sy ∈ sc.syms := by rw [hsplit]; simp
      rcases h.exts sy hmem with hn | ⟨_, hd⟩
      · exact absurd hn hext
      · exact hd

/-- every evaluator scope with the invariant has a related (B) state with (B)'s invariant -/
theorem exists_related {sc : Model.Scope} {d : Nat} (h : SimI sc d) : ∃ σ, R sc σ ∧ Sim σ d :=
  ⟨reify sc, R_reify h, sim_reify h⟩

/-- conversely the invariant on (A) is what a related (B) state with `Sim` says about (A) -/
theorem simI_of_related {sc : Model.Scope} {σ : SymTab.Scope Addr} {d : Nat} (hR : R sc σ) (hs : Sim σ d) : SimI sc d := by
  refine ⟨by rw [hR.depth]; exact hs.depth, ?_, ?_⟩
  · have : sc.syms.map (·.depth) = Proofs.Scope.depths (live σ) := by
      rw [hR.syms, List.map_map]; rfl
    rw [this]; exact hs.depths
  · intro sy hsy
    rw [hR.syms, List.mem_map] at hsy
    obtain ⟨e, he, rfl⟩ := hsy
    cases hx : e.ext with
    | none => left; simp [toSym, hx]
    | some m =>
      right
      refine ⟨⟨m, by simp [toSym, hx]⟩, ?_⟩
      -- the entry's `externalRefs` key points at a top-level symbol
      show e.sym.depth ≤ 0
      have : ∀ n, e ∈ liveAux σ.locals σ.values σ.externalRefs n → n ≤ σ.localCount → e.sym.depth ≤ 0 := by
        intro n
        induction n with
        | zero => intro h0; cases h0
        | succ n ih =>
          intro hmem hn
          unfold liveAux at hmem
          cases hl : σ.locals[n]? with
          | none => rw [hl] at hmem; exact ih hmem (by omega)
          | some s =>
            cases hv : σ.values[n]? with
            | none => rw [hl, hv] at hmem; exact ih hmem (by omega)
            | some v =>
              rw [hl, hv] at hmem
              simp only [List.mem_cons] at hmem
              rcases hmem with rfl | hmem
              · simp only at hx
                obtain ⟨_, s', hs', hd'⟩ := hs.refs n m (refLookup_mem _ _ _ hx)
                rw [hl] at hs'; cases hs'; exact hd'
              · exact ih hmem (by omega)
      exact this σ.localCount he (Nat.le_refl _)

end ZnVerif.Proofs.Bridges
