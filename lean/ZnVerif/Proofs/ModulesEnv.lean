/-
Helper lemmas for C15: what the loader leaves in the scope of every module.

`ImpScope s IS`   — scope of a module while its imports are processed: exactly the entries `IS` (name, value, id of
                    the exporting module), in order, all constants at depth 0, `externalRefs` = their module ids.
`HomeScope …`     — scope of a module loaded by an import, after its body: its own exports one level above `IS`.
`EntriesOK … IS`  — `IS` is what the import statements bring: for every statement, the chosen names (all, or the
                    listed ones that exist) of an export table that is exactly the definitions of the imported
                    module's source (or the registered names of the library).
`BInv`            — invariant: scopes well formed; export table of a closed module = its definitions; scope of a
                    closed module that is no longer on the call stack = `HomeScope`.
-/
import ZnVerif.Proofs.ModulesScope

namespace ZnVerif.Proofs.Modules
open ZnVerif.Model.Modules
open ZnVerif.Spec.ModuleSem (defsOf)

abbrev Entry := Name × Val × Nat

/-- the export-order oracle only permutes -/
def ExportOrderOK (O : Oracle) : Prop := ∀ l, (O.exportOrder l).Perm l

def toSym0 (e : Entry) : Sym := ⟨e.1, 0, true, e.2.1⟩
def toSym1 (p : Name × Val) : Sym := ⟨p.1, 1, true, p.2⟩

structure ImpScope (s : Scope) (IS : List Entry) : Prop where
  depth : s.depth = 0
  locals : s.locals = (IS.map toSym0).reverse
  ext : ∀ i, assoc i s.extRefs = (IS[i]?).map (fun e => e.2.2)
  nodup : (IS.map (fun e => e.1)).Nodup

structure HomeScope (O : Oracle) (s : Scope) (exports : List (Name × Val)) (IS : List Entry) : Prop where
  depth : s.depth = 1
  locals : s.locals = ((O.exportOrder exports).map toSym1).reverse ++ (IS.map toSym0).reverse
  ext : ∀ i, assoc i s.extRefs = (IS[i]?).map (fun e => e.2.2)
  nodup : (IS.map (fun e => e.1)).Nodup

/-- the list of names an import statement declares, given the export table -/
def chosenOf (O : Oracle) (ex : List (Name × Val)) (items : List Name) : List (Name × Val) :=
  match items with
  | [] => O.exportOrder ex
  | _ :: _ => selectExports ex items

theorem bindImports_eq (O : Oracle) (vm : VM) (mid : Nat) (items : List Name) :
    bindImports O vm mid items = declareExternals mid vm (chosenOf O (vm.exportsOf mid) items) := by
  cases items <;> rfl

/-- the export table `ex` of the module `mid` registered as `n` is what its source (or the library table) says -/
structure ExOK (files : Files) (mainSrc : ModuleSrc) (libs : Libs) (n : Name) (mid : Nat) (ex : List (Name × Val)) :
    Prop where
  nodup : (ex.map (fun p => p.1)).Nodup
  custom : (parseLibName n).libType = .custom →
    ∃ src, msrc files mainSrc n = some src ∧ ex = (defsOf src.body).map (fun d => (d.name, valOfDef d mid))
  std : (parseLibName n).libType = .std →
    ∃ names, assoc n libs = some names ∧ (∀ x, x ∈ ex.map (fun p => p.1) ↔ x ∈ names) ∧
      ∀ p, p ∈ ex → p.2 = Val.native

inductive EntriesOK (O : Oracle) (files : Files) (mainSrc : ModuleSrc) (libs : Libs) (vm : VM) :
    List Imp → List Entry → Prop
  | nil : EntriesOK O files mainSrc libs vm [] []
  | snoc {imps : List Imp} {IS : List Entry} {imp : Imp} {mid : Nat} {ex : List (Name × Val)} :
      EntriesOK O files mainSrc libs vm imps IS → assoc imp.name vm.nameMap = some mid →
      ExOK files mainSrc libs imp.name mid ex →
      EntriesOK O files mainSrc libs vm (imps ++ [imp])
        (IS ++ (chosenOf O ex imp.items).map (fun p => (p.1, p.2, mid)))

theorem EntriesOK.mono {O : Oracle} {files : Files} {mainSrc : ModuleSrc} {libs : Libs} {vm vm' : VM}
    (hm : ∀ n id, assoc n vm.nameMap = some id → assoc n vm'.nameMap = some id) {imps : List Imp} {IS : List Entry}
    (h : EntriesOK O files mainSrc libs vm imps IS) : EntriesOK O files mainSrc libs vm' imps IS := by
  induction h with
  | nil => exact EntriesOK.nil
  | snoc _ hn hex ih => exact EntriesOK.snoc ih (hm _ _ hn) hex

structure BInv (O : Oracle) (files : Files) (mainSrc : ModuleSrc) (libs : Libs) (vm : VM) : Prop where
  wf : AllWF vm
  fresh : ∀ k, vm.modules.length ≤ k → lookS vm k = none ∨ lookS vm k = some Scope.new
  expNodup : ∀ k, ((vm.exportsOf k).map (fun p => p.1)).Nodup
  closedExports : ∀ H nm src, Ev.done H ∈ vm.log → (namesOf vm)[H]? = some nm → msrc files mainSrc nm = some src →
    vm.exportsOf H = (defsOf src.body).map (fun d => (d.name, valOfDef d H))
  closedScope : ∀ H nm src, Ev.done H ∈ vm.log → H ∉ vm.stack → H ≠ 0 → (namesOf vm)[H]? = some nm →
    msrc files mainSrc nm = some src →
    ∃ s IS, lookS vm H = some s ∧ HomeScope O s (vm.exportsOf H) IS ∧ EntriesOK O files mainSrc libs vm src.imports IS
  libOK : ∀ L ln names, (namesOf vm)[L]? = some ln → (parseLibName ln).libType = .std → assoc ln libs = some names →
    (∀ p, p ∈ vm.exportsOf L → p.2 = Val.native ∧ p.1 ∈ names) ∧
    (Ev.lib L ∈ vm.log → ∀ n, n ∈ names → n ∈ (vm.exportsOf L).map (fun p => p.1))

/-- a step that changes neither the modules, the module names, the log nor the stack, only extends the registry,
    and keeps the scopes of the modules that are not on the call stack -/
theorem BInv.transfer {O : Oracle} {files : Files} {mainSrc : ModuleSrc} {libs : Libs} {vm vm' : VM}
    (h : BInv O files mainSrc libs vm) (hnames : namesOf vm' = namesOf vm)
    (hlog : ∀ H, Ev.done H ∈ vm'.log → Ev.done H ∈ vm.log)
    (hlib : ∀ L, Ev.lib L ∈ vm'.log → Ev.lib L ∈ vm.log)
    (hmap : ∀ n id, assoc n vm.nameMap = some id → assoc n vm'.nameMap = some id)
    (hmods : vm'.modules = vm.modules)
    (hstack : vm'.stack = vm.stack) (hwf : AllWF vm')
    (hfresh : ∀ k, vm.modules.length ≤ k → lookS vm' k = none ∨ lookS vm' k = some Scope.new)
    (hkeep : ∀ k s, k ∉ vm.stack → lookS vm k = some s → lookS vm' k = some s) : BInv O files mainSrc libs vm' := by
  have hex : ∀ k, vm'.exportsOf k = vm.exportsOf k := exportsOf_congr hmods
  constructor
  · exact hwf
  · intro k hk; rw [hmods] at hk; exact hfresh k hk
  · intro k; rw [hex]; exact h.expNodup k
  · intro H nm src hd hn hsrc
    rw [hnames] at hn
    rw [hex]; exact h.closedExports H nm src (hlog H hd) hn hsrc
  · intro H nm src hd hns h0 hn hsrc
    rw [hnames] at hn; rw [hstack] at hns
    obtain ⟨s, IS, h1, h2, h3⟩ := h.closedScope H nm src (hlog H hd) hns h0 hn hsrc
    exact ⟨s, IS, hkeep H s hns h1, by rw [hex]; exact h2, h3.mono hmap⟩
  · intro L ln names hn hstd hl
    rw [hnames] at hn; rw [hex]
    obtain ⟨l1, l2⟩ := h.libOK L ln names hn hstd hl
    exact ⟨l1, fun hh => l2 (hlib L hh)⟩

end ZnVerif.Proofs.Modules

namespace ZnVerif.Proofs.Modules
open ZnVerif.Model.Modules
open ZnVerif.Spec.ModuleSem (defsOf HasCycle)

/-! ### binding the chosen names -/

theorem redeclaredIn_false_of_notin {d : Int} {n : Name} : ∀ {l : List Sym}, (∀ y, y ∈ l → y.name ≠ n) →
    Scope.redeclaredIn d n l = false
  | [], _ => rfl
  | y :: r, h => by
    unfold Scope.redeclaredIn
    have hy := h y (List.mem_cons_self ..)
    by_cases hd : y.depth < d
    · simp [hd]
    · simp only [hd, if_false]
      have : ¬ (y.name = n ∧ y.depth = d) := fun hh => hy hh.1
      simp only [this, if_false]
      exact redeclaredIn_false_of_notin (fun z hz => h z (List.mem_cons_of_mem _ hz))

theorem notin_of_redeclaredIn_false {d : Int} {n : Name} : ∀ {l : List Sym}, (∀ y, y ∈ l → y.depth = d) →
    Scope.redeclaredIn d n l = false → ∀ y, y ∈ l → y.name ≠ n
  | [], _, _ => fun _ h => by cases h
  | z :: r, hd, h => by
    unfold Scope.redeclaredIn at h
    have hz := hd z (List.mem_cons_self ..)
    have hlt : ¬ z.depth < d := by omega
    simp only [hlt, if_false] at h
    by_cases hn : z.name = n
    · simp [hn, hz] at h
    · have : ¬ (z.name = n ∧ z.depth = d) := fun hh => hn hh.1
      simp only [this, if_false] at h
      intro y hy
      rcases List.mem_cons.1 hy with rfl | hy
      · exact hn
      · exact notin_of_redeclaredIn_false (fun w hw => hd w (List.mem_cons_of_mem _ hw)) h y hy

/-- a successful sequence of external declarations never repeats a name of the same depth -/
theorem declareExternals_nodup (mid : Nat) : ∀ (l : List (Name × Val)) (vm : VM) (m : Nat) (s : Scope),
    vm.cs = some m → lookS vm m = some s → (∀ y, y ∈ s.locals → y.depth = s.depth) →
    (s.locals.map Sym.name).Nodup →
    match declareExternals mid vm l with
    | .ok vm' => ∀ s', lookS vm' m = some s' → (s'.locals.map Sym.name).Nodup
    | .err _ _ => True
  | [], vm, m, s, _, hs, _, hn => by
    unfold declareExternals
    intro s' hs'; rw [hs] at hs'; injection hs' with hs'; rw [← hs']; exact hn
  | (n, v) :: r, vm, m, s, hcs, hs, hdep, hn => by
    unfold declareExternals
    cases hd : vm.declareExternal n v mid with
    | err e vm' => trivial
    | ok vm1 =>
      dsimp only
      have hd' := hd
      unfold VM.declareExternal at hd'
      rw [curScope_of hcs hs] at hd'
      dsimp only at hd'
      cases hde : s.declareExternal n v mid with
      | none => rw [hde] at hd'; cases hd'
      | some s1 =>
        rw [hde] at hd'
        cases hd'
        unfold Scope.declareExternal Scope.declare at hde
        by_cases hrd : Scope.redeclaredIn s.depth n s.locals = true
        · simp [hrd] at hde
        · simp only [hrd] at hde
          cases hde
          have hnot := notin_of_redeclaredIn_false hdep (by simpa using hrd)
          refine declareExternals_nodup mid r _ m
            ⟨⟨n, s.depth, true, v⟩ :: s.locals, s.depth, aset s.locals.length mid s.extRefs⟩
            (by exact hcs) (by rw [lookS_setScope]; simp) ?_ ?_
          · intro y hy
            rcases List.mem_cons.1 hy with rfl | hy
            · rfl
            · exact hdep y hy
          · simp only [List.map_cons, List.nodup_cons]
            refine ⟨?_, hn⟩
            intro hmem
            obtain ⟨y, hy, hyn⟩ := List.mem_map.1 hmem
            exact hnot y hy hyn

theorem nodup_reverse {α} {l : List α} : l.reverse.Nodup ↔ l.Nodup := (List.reverse_perm l).nodup_iff

theorem impScope_new : ImpScope Scope.new [] :=
  ⟨rfl, rfl, fun i => by simp [Scope.new, assoc], by simp⟩

theorem ImpScope.wf {s : Scope} {IS : List Entry} (h : ImpScope s IS) : WF s := by
  intro y hy
  rw [h.locals] at hy
  simp only [List.mem_reverse, List.mem_map] at hy
  obtain ⟨e, _, rfl⟩ := hy
  rw [h.depth]; exact Int.le_refl _

theorem ImpScope.all_depth {s : Scope} {IS : List Entry} (h : ImpScope s IS) : ∀ y, y ∈ s.locals → y.depth = s.depth := by
  intro y hy
  rw [h.locals] at hy
  simp only [List.mem_reverse, List.mem_map] at hy
  obtain ⟨e, _, rfl⟩ := hy
  rw [h.depth]; rfl

theorem ImpScope.names {s : Scope} {IS : List Entry} (h : ImpScope s IS) :
    s.locals.map Sym.name = (IS.map (fun e => e.1)).reverse := by
  rw [h.locals, List.map_reverse, List.map_map]; rfl

theorem ImpScope.length {s : Scope} {IS : List Entry} (h : ImpScope s IS) : s.locals.length = IS.length := by
  rw [h.locals]; simp

/-- one import statement's names are bound in the importer's scope -/
theorem bind_stepB {O : Oracle} {files : Files} {mainSrc : ModuleSrc} {libs : Libs} {vm : VM} {m mid : Nat}
    {s : Scope} {IS : List Entry} {pre : List Imp} {imp : Imp}
    (hB : BInv O files mainSrc libs vm) (hD : Disc vm) (hcs : vm.cs = some m) (hmstack : m ∈ vm.stack)
    (hmlt : m < vm.modules.length) (hs : lookS vm m = some s) (hI : ImpScope s IS)
    (hE : EntriesOK O files mainSrc libs vm pre IS) (hn : assoc imp.name vm.nameMap = some mid)
    (hex : ExOK files mainSrc libs imp.name mid (vm.exportsOf mid)) :
    match bindImports O vm mid imp.items with
    | .ok vm' => BInv O files mainSrc libs vm' ∧ Disc vm' ∧ (∀ k, k ≠ m → lookS vm' k = lookS vm k) ∧
        vm'.modules = vm.modules ∧
        ∃ s' IS', lookS vm' m = some s' ∧ ImpScope s' IS' ∧ EntriesOK O files mainSrc libs vm' (pre ++ [imp]) IS'
    | .err _ _ => True := by
  have hfr := bindImports_frame O vm mid imp.items
  rw [bindImports_eq] at hfr ⊢
  generalize hl : chosenOf O (vm.exportsOf mid) imp.items = l at hfr ⊢
  have heff := declareExternals_effect mid l vm m s hcs hs
  have hnd := declareExternals_nodup mid l vm m s hcs hs hI.all_depth (by
    rw [hI.names]; exact nodup_reverse.2 hI.nodup)
  cases hr : declareExternals mid vm l with
  | err e vm' => trivial
  | ok vm' =>
    rw [hr] at hfr heff hnd
    obtain ⟨hsame, hst, hcs'⟩ := hfr
    obtain ⟨s', e1, e2, e3, e4, e5, e6⟩ := heff
    have hI' : ImpScope s' (IS ++ l.map (fun p => (p.1, p.2, mid))) := by
      constructor
      · rw [e2]; exact hI.depth
      · rw [e3, hI.locals, hI.depth]
        simp only [List.map_append, List.reverse_append, List.map_map]
        rfl
      · intro i
        rw [e4 i, hI.length, hI.ext i]
        by_cases h1 : IS.length ≤ i ∧ i < IS.length + l.length
        · simp only [h1, and_self, if_true]
          rw [List.getElem?_append_right h1.1]
          have : i - IS.length < (l.map (fun p => (p.1, p.2, mid))).length := by simp; omega
          rw [List.getElem?_eq_getElem this]
          simp
        · simp only [h1, if_false]
          by_cases h2 : i < IS.length
          · rw [List.getElem?_append_left h2]
          · have h3 : IS.length + l.length ≤ i := by omega
            have : (IS ++ l.map (fun p => (p.1, p.2, mid))).length ≤ i := by simp; omega
            rw [List.getElem?_eq_none this, List.getElem?_eq_none (by omega)]
      · have hthis := hnd s' e1
        have hnames : s'.locals.map Sym.name =
            ((IS ++ l.map (fun p => (p.1, p.2, mid))).map (fun e => e.1)).reverse := by
          rw [e3, hI.locals]
          simp only [List.map_append, List.map_reverse, List.map_map, List.reverse_append]
          rfl
        rw [hnames] at hthis
        exact nodup_reverse.1 hthis
    have hwf' : AllWF vm' := by
      intro k sc hk
      by_cases hkm : k = m
      · subst hkm; rw [e1] at hk; injection hk with hk; subst hk; exact hI'.wf
      · rw [e5 k hkm] at hk; exact hB.wf k sc hk
    refine ⟨?_, ?_, e5, e6, s', _, e1, hI', ?_⟩
    · apply hB.transfer hsame.names (fun H hh => by rw [hsame.log] at hh; exact hh)
        (fun H hh => by rw [hsame.log] at hh; exact hh) (fun n id hh => by rw [hsame.nameMap]; exact hh) e6 hst hwf'
      · intro k hk
        have : k ≠ m := by omega
        rw [e5 k this]; exact hB.fresh k hk
      · intro k sc hk hsc
        have : k ≠ m := fun h => hk (h ▸ hmstack)
        rw [e5 k this]; exact hsc
    · apply disc_of_step hD hst hcs'
      intro k hk
      by_cases hkm : k = m
      · subst hkm; rw [e1]; simp
      · rw [e5 k hkm]; exact hk
    · rw [← hl]
      have hE' := hE.mono (vm' := vm') (fun n id hh => by rw [hsame.nameMap]; exact hh)
      exact EntriesOK.snoc hE' (by rw [hsame.nameMap]; exact hn) hex

end ZnVerif.Proofs.Modules

namespace ZnVerif.Proofs.Modules
open ZnVerif.Model.Modules
open ZnVerif.Spec.ModuleSem (defsOf HasCycle)

/-! ### the loader, scope side -/

def KeptScopes (vm vm' : VM) : Prop := ∀ k s, k < vm.modules.length → lookS vm k = some s → lookS vm' k = some s
def KeptExports (vm vm' : VM) : Prop := ∀ k, k < vm.modules.length → vm'.exportsOf k = vm.exportsOf k

def LoadSpecB (O : Oracle) (files : Files) (mainSrc : ModuleSrc) (libs : Libs)
    (load : VM → LibNameInfo → Res (VM × Nat)) : Prop :=
  ∀ (vm : VM) (n : Name) (m : Nat) (rest : List Nat) (nm : Name) (src : ModuleSrc) (imp : Imp),
    SInv files mainSrc vm → LInv files mainSrc vm (m :: rest) → Cur files mainSrc vm m rest nm src →
    imp ∈ src.imports → imp.name = n → assoc n vm.nameMap = none → (parseLibName n).libType = .custom →
    BInv O files mainSrc libs vm → Disc vm →
    match load vm (parseLibName n) with
    | .ok (vm', _) => BInv O files mainSrc libs vm' ∧ Disc vm' ∧ KeptScopes vm vm' ∧ KeptExports vm vm' ∧
        vm.modules.length ≤ vm'.modules.length
    | .err _ _ => True

theorem exOK_of_done {O : Oracle} {files : Files} {mainSrc : ModuleSrc} {libs : Libs} {vm : VM} {n : Name} {mid : Nat}
    (hS : SInv files mainSrc vm) (hB : BInv O files mainSrc libs vm) (hn : assoc n vm.nameMap = some mid)
    (hd : Ev.done mid ∈ vm.log) : ExOK files mainSrc libs n mid (vm.exportsOf mid) := by
  obtain ⟨n', hn', hreach, src, hsrc⟩ := hS.doneReach mid hd
  have : n' = n := by
    have := hS.regName n mid hn; rw [hn'] at this; injection this
  subst this
  refine ⟨hB.expNodup mid, fun _ => ⟨src, hsrc, hB.closedExports mid n' src hd hn' hsrc⟩, fun hstd => ?_⟩
  rw [hreach.custom] at hstd; cases hstd

theorem allocate_fresh_B {vm : VM} {n : Name} (h : assoc n vm.nameMap = none) :
    (∀ k, lookS (vm.allocateModule n).1 k = lookS vm k) ∧
    (vm.allocateModule n).1.modules = vm.modules ++ [⟨n, []⟩] := by
  unfold VM.allocateModule VM.findModuleByName
  rw [h]
  exact ⟨fun _ => rfl, rfl⟩

theorem exportsOf_append_lt {vm vm' : VM} {x : Module} (h : vm'.modules = vm.modules ++ [x]) {k : Nat}
    (hk : k < vm.modules.length) : vm'.exportsOf k = vm.exportsOf k := by
  simp [VM.exportsOf, h, List.getElem?_append_left hk]

theorem exportsOf_append_new {vm vm' : VM} {x : Module} (h : vm'.modules = vm.modules ++ [x]) :
    vm'.exportsOf vm.modules.length = x.exports := by
  simp [VM.exportsOf, h]

theorem exportsOf_ge {vm : VM} {k : Nat} (hk : vm.modules.length ≤ k) : vm.exportsOf k = [] := by
  simp [VM.exportsOf, List.getElem?_eq_none hk]

structure OkPostB (O : Oracle) (files : Files) (mainSrc : ModuleSrc) (libs : Libs) (vm vm' : VM) (m : Nat)
    (pre : List Imp) : Prop where
  binv : BInv O files mainSrc libs vm'
  disc : Disc vm'
  kept : ∀ k sc, k < vm.modules.length → k ≠ m → lookS vm k = some sc → lookS vm' k = some sc
  exports : KeptExports vm vm'
  len : vm.modules.length ≤ vm'.modules.length
  scope : ∃ s' IS', lookS vm' m = some s' ∧ ImpScope s' IS' ∧ EntriesOK O files mainSrc libs vm' pre IS'

theorem mem_stack_lt {files : Files} {mainSrc : ModuleSrc} {vm : VM} {st : List Nat} (hL : LInv files mainSrc vm st)
    {x : Nat} (hx : x ∈ st) : x < vm.modules.length := by
  have := hL.lt_of_stack hx; rwa [namesOf_length] at this

theorem evalImport_specB {files : Files} {mainSrc : ModuleSrc} {O : Oracle} {libs : Libs}
    {load : VM → LibNameInfo → Res (VM × Nat)} (hO : OracleOK O) (hload : LoadSpec files mainSrc load)
    (hloadB : LoadSpecB O files mainSrc libs load)
    {vm : VM} {m : Nat} {rest : List Nat} {nm : Name} {src : ModuleSrc} {imp : Imp} {s : Scope} {IS : List Entry}
    {pre : List Imp}
    (hS : SInv files mainSrc vm) (hL : LInv files mainSrc vm (m :: rest)) (hC : Cur files mainSrc vm m rest nm src)
    (himp : imp ∈ src.imports) (hρ : ExportOrderOK O)
    (hB : BInv O files mainSrc libs vm) (hD : Disc vm) (hs : lookS vm m = some s) (hI : ImpScope s IS)
    (hE : EntriesOK O files mainSrc libs vm pre IS) :
    match evalImport O libs load vm imp with
    | .ok vm' => OkPostB O files mainSrc libs vm vm' m (pre ++ [imp])
    | .err _ _ => True := by
  have hmlt : m < vm.modules.length := mem_stack_lt hL (List.mem_cons_self ..)
  have hNlen : (namesOf vm).length = vm.modules.length := namesOf_length vm
  unfold evalImport
  dsimp only
  rcases libType_cases imp.name with hty | hty
  · -- a library
    rw [hty]
    dsimp only
    cases hlib : assoc imp.name libs with
    | none => trivial
    | some names =>
      dsimp only
      generalize hexl : O.exportOrder (names.map (fun n => (n, Val.native))) = exl
      have hexl_mem : ∀ p, p ∈ exl ↔ p ∈ names.map (fun n => (n, Val.native)) := by
        intro p; rw [← hexl]; exact (hρ _).mem_iff
      cases hreg : assoc imp.name vm.nameMap with
      | none =>
        -- allocated by this import
        obtain ⟨a2, anames, agraph, amap, alog, astack, acs⟩ := allocate_fresh hreg
        obtain ⟨ascopes, amods⟩ := allocate_fresh_B hreg
        rw [a2]
        have hlt1 : (namesOf vm).length < ((vm.allocateModule imp.name).1.pushFrame (namesOf vm).length).modules.length := by
          show _ < (vm.allocateModule imp.name).1.modules.length
          rw [amods]; simp [hNlen]
        obtain ⟨f1, f2, f3, f4, f5, f6, f7⟩ := addExportsIgnoringDup_effect (namesOf vm).length exl
          ((vm.allocateModule imp.name).1.pushFrame (namesOf vm).length) hlt1
        obtain ⟨s2, st2, cs2⟩ := same_addExportsIgnoringDup (namesOf vm).length exl
          ((vm.allocateModule imp.name).1.pushFrame (namesOf vm).length)
        generalize hvm2 : addExportsIgnoringDup (namesOf vm).length
          ((vm.allocateModule imp.name).1.pushFrame (namesOf vm).length) exl = vm2 at f1 f2 f3 f4 f5 f6 f7 s2 st2 cs2 ⊢
        cases hpop : vm2.popFrame with
        | none => trivial
        | some vm3 =>
          dsimp only
          obtain ⟨t, r, hst, hr3, hc3⟩ := popFrame_eq hpop
          rw [st2, pushFrame_stack, astack, hC.stack] at hst
          injection hst with _ hr'
          have s13 : Same (vm.allocateModule imp.name).1 vm3 :=
            ((same_pushFrame _ _).trans s2).trans (same_popFrame hpop)
          generalize hvmR : vm3.record (.lib (namesOf vm).length) = vmR
          have stackR : vmR.stack = m :: rest := by rw [← hvmR]; show vm3.stack = _; rw [hr3, ← hr']
          have csR : vmR.cs = some m := by rw [← hvmR]; show vm3.cs = _; rw [hc3, ← hr']; rfl
          have namesR : namesOf vmR = namesOf vm ++ [imp.name] := by
            rw [← hvmR]; show namesOf vm3 = _; rw [s13.names, anames]
          have logR : vmR.log = Ev.lib (namesOf vm).length :: vm.log := by
            rw [← hvmR]; show _ :: vm3.log = _; rw [s13.log, alog]
          have mapR : vmR.nameMap = aset imp.name (namesOf vm).length vm.nameMap := by
            rw [← hvmR]; show vm3.nameMap = _; rw [s13.nameMap, amap]
          have modsR : vmR.modules = vm2.modules := by
            rw [← hvmR]; show vm3.modules = _; exact modules_popFrame hpop
          have lenR : vmR.modules.length = vm.modules.length + 1 := by
            rw [modsR, f3]; show (vm.allocateModule imp.name).1.modules.length = _; rw [amods]; simp
          have hfreshN : lookS vm (namesOf vm).length = none ∨ lookS vm (namesOf vm).length = some Scope.new :=
            hB.fresh _ (by rw [hNlen]; exact Nat.le_refl _)
          have lookR : ∀ k, lookS vmR k = if k = (namesOf vm).length then some Scope.new else lookS vm k := by
            intro k
            rw [← hvmR, lookS_record, lookS_popFrame hpop, f1, lookS_pushFrame, ascopes]
            by_cases hk : k = (namesOf vm).length
            · simp only [hk, if_true]
              rcases hfreshN with h | h <;> simp [h]
            · simp only [hk, if_false]; exact ascopes k
          have expR_lt : ∀ k, k < vm.modules.length → vmR.exportsOf k = vm.exportsOf k := by
            intro k hk
            rw [exportsOf_congr modsR k, f2 k (by omega)]
            show (vm.allocateModule imp.name).1.exportsOf k = _
            exact exportsOf_append_lt amods hk
          have expN0 : ((vm.allocateModule imp.name).1.pushFrame (namesOf vm).length).exportsOf (namesOf vm).length = [] := by
            show (vm.allocateModule imp.name).1.exportsOf _ = _
            rw [hNlen, exportsOf_append_new amods]
          have hmapmono : ∀ k id, assoc k vm.nameMap = some id → assoc k vmR.nameMap = some id := by
            rw [mapR]; exact aset_fresh_mono hreg
          have hdoneLt : ∀ H, Ev.done H ∈ vm.log → H < vm.modules.length := by
            intro H hd
            obtain ⟨k, hk, _⟩ := hS.doneReach H hd
            rw [← hNlen]; exact getElem?_lt hk
          have hnold : ∀ {H : Nat} {k : Name}, H < vm.modules.length → (namesOf vmR)[H]? = some k →
              (namesOf vm)[H]? = some k := by
            intro H k hH hk
            rw [namesR, List.getElem?_append_left (by rw [hNlen]; exact hH)] at hk; exact hk
          have hExpN : ∀ p, p ∈ vmR.exportsOf (namesOf vm).length → p.2 = Val.native ∧ p.1 ∈ names := by
            intro p hp
            rw [exportsOf_congr modsR _] at hp
            rcases f6 p hp with h | h
            · rw [expN0] at h; cases h
            · obtain ⟨n, hn, rfl⟩ := List.mem_map.1 ((hexl_mem p).1 h)
              exact ⟨rfl, hn⟩
          have hFullN : ∀ n, n ∈ names → n ∈ (vmR.exportsOf (namesOf vm).length).map (fun p => p.1) := by
            intro n hn
            rw [exportsOf_congr modsR _]
            exact f5 (n, Val.native) ((hexl_mem _).2 (List.mem_map.2 ⟨n, hn, rfl⟩))
          have hBR : BInv O files mainSrc libs vmR := by
            constructor
            · intro k sc hk
              rw [lookR] at hk
              by_cases hkN : k = (namesOf vm).length
              · simp [hkN] at hk; subst hk; exact wf_new
              · simp only [hkN, if_false] at hk; exact hB.wf k sc hk
            · intro k hk
              rw [lenR] at hk
              rw [lookR]
              have : k ≠ (namesOf vm).length := by omega
              simp only [this, if_false]
              exact hB.fresh k (by omega)
            · have hnd1 : ExpNodup ((vm.allocateModule imp.name).1.pushFrame (namesOf vm).length) := by
                intro k
                show (((vm.allocateModule imp.name).1.exportsOf k).map _).Nodup
                by_cases hk : k < vm.modules.length
                · rw [exportsOf_append_lt amods hk]; exact hB.expNodup k
                · have : (vm.allocateModule imp.name).1.exportsOf k = [] := by
                    by_cases hk2 : k = vm.modules.length
                    · rw [hk2, exportsOf_append_new amods]
                    · exact exportsOf_ge (by rw [amods]; simp; omega)
                  rw [this]; simp
              intro k; rw [exportsOf_congr modsR k]; exact f4 hnd1 k
            · intro H nm' src' hd hn hsrc
              rw [logR] at hd; simp at hd
              have hH := hdoneLt H hd
              rw [expR_lt H hH]
              exact hB.closedExports H nm' src' hd (hnold hH hn) hsrc
            · intro H nm' src' hd hns h0 hn hsrc
              rw [logR] at hd; simp at hd
              have hH := hdoneLt H hd
              rw [stackR, ← hC.stack] at hns
              obtain ⟨sc, IS', h1, h2, h3⟩ := hB.closedScope H nm' src' hd hns h0 (hnold hH hn) hsrc
              refine ⟨sc, IS', ?_, ?_, h3.mono hmapmono⟩
              · rw [lookR]
                have : H ≠ (namesOf vm).length := by omega
                simp only [this, if_false]; exact h1
              · rw [expR_lt H hH]; exact h2
            · intro L ln names' hn' hstd hl
              by_cases hLN : L < vm.modules.length
              · rw [expR_lt L hLN]
                obtain ⟨q1, q2⟩ := hB.libOK L ln names' (hnold hLN hn') hstd hl
                refine ⟨q1, fun hh => q2 ?_⟩
                rw [logR] at hh
                simp only [List.mem_cons] at hh
                rcases hh with hh | hh
                · injection hh with hh; omega
                · exact hh
              · have hLeq : L = (namesOf vm).length := by
                  have := getElem?_lt hn'; rw [namesR] at this; simp at this; omega
                subst hLeq
                rw [namesR] at hn'; simp at hn'
                subst hn'
                rw [hlib] at hl; injection hl with hl; subst hl
                exact ⟨hExpN, fun _ => hFullN⟩
          have hDR : Disc vmR := by
            constructor
            · rw [csR, stackR]; rfl
            · intro k hk
              rw [stackR] at hk
              rw [lookR]
              by_cases hkN : k = (namesOf vm).length
              · simp [hkN]
              · simp only [hkN, if_false]
                exact hD.hasScope k (by rw [hC.stack]; exact hk)
          have hmN : m ≠ (namesOf vm).length := by omega
          have hexR : ExOK files mainSrc libs imp.name (namesOf vm).length (vmR.exportsOf (namesOf vm).length) := by
            have hnc : (parseLibName imp.name).libType = .custom → False := by
              intro hc; rw [hty] at hc; cases hc
            refine ⟨hBR.expNodup _, fun hc => (hnc hc).elim, fun _ => ⟨names, hlib, ?_, fun p hp => (hExpN p hp).1⟩⟩
            intro x
            constructor
            · intro hx
              obtain ⟨p, hp, rfl⟩ := List.mem_map.1 hx
              exact (hExpN p hp).2
            · exact hFullN x
          have hb := bind_stepB (pre := pre) (imp := imp) hBR hDR csR (by rw [stackR]; exact List.mem_cons_self ..)
            (by rw [lenR]; omega) (by rw [lookR]; simp only [hmN, if_false]; exact hs) hI (hE.mono hmapmono)
            (by rw [mapR]; exact assoc_aset_same _ _ _) hexR
          cases hbr : bindImports O vmR (namesOf vm).length imp.items with
          | err e vm' => trivial
          | ok vm4 =>
            rw [hbr] at hb
            obtain ⟨b1, b2, b3, b4, b5⟩ := hb
            refine ⟨b1, b2, ?_, ?_, ?_, b5⟩
            · intro k sc hk hkm hsc
              rw [b3 k hkm, lookR]
              have : k ≠ (namesOf vm).length := by omega
              simp only [this, if_false]; exact hsc
            · intro k hk
              rw [exportsOf_congr b4 k]; exact expR_lt k hk
            · rw [b4, lenR]; omega
      | some id =>
        -- a library that is registered already
        rw [allocate_existing hreg]
        dsimp only
        have hidn : (namesOf vm)[id]? = some imp.name := hS.regName _ _ hreg
        have hidlt : id < vm.modules.length := by rw [← hNlen]; exact getElem?_lt hidn
        have hlibev : Ev.lib id ∈ vm.log := by
          rcases hL.reg _ _ hreg with h | h
          · obtain ⟨nx, h1, h2, _⟩ := hL.sreach id h
            rw [hidn] at h1; injection h1 with h1
            have := h2.custom; rw [← h1, hty] at this; cases this
          · rcases mem_closedOf.1 h with h | h
            · obtain ⟨nx, h1, h2, _⟩ := hS.doneReach id h
              rw [hidn] at h1; injection h1 with h1
              have := h2.custom; rw [← h1, hty] at this; cases this
            · exact h
        obtain ⟨q1, q2⟩ := hB.libOK id imp.name names hidn hty hlib
        have hidem : addExportsIgnoringDup id (vm.pushFrame id) exl = vm.pushFrame id := by
          apply addExportsIgnoringDup_idem
          intro p hp
          obtain ⟨n, hn, rfl⟩ := List.mem_map.1 ((hexl_mem p).1 hp)
          exact q2 hlibev n hn
        rw [hidem]
        cases hpop : (vm.pushFrame id).popFrame with
        | none => trivial
        | some vm3 =>
          dsimp only
          obtain ⟨t, r, hst, hr3, hc3⟩ := popFrame_eq hpop
          rw [pushFrame_stack, hC.stack] at hst
          injection hst with _ hr'
          have s13 : Same vm vm3 := (same_pushFrame _ _).trans (same_popFrame hpop)
          generalize hvmR : vm3.record (.lib id) = vmR
          have stackR : vmR.stack = m :: rest := by rw [← hvmR]; show vm3.stack = _; rw [hr3, ← hr']
          have csR : vmR.cs = some m := by rw [← hvmR]; show vm3.cs = _; rw [hc3, ← hr']; rfl
          have modsR : vmR.modules = vm.modules := by
            rw [← hvmR]; show vm3.modules = _; rw [modules_popFrame hpop]; rfl
          have lookR : ∀ k, lookS vmR k = if k = id then some ((lookS vm id).getD Scope.new) else lookS vm k := by
            intro k; rw [← hvmR, lookS_record, lookS_popFrame hpop, lookS_pushFrame]
          have sameR : ScopesSame vm vmR := by
            intro k
            rw [lookR]
            by_cases hk : k = id
            · subst hk
              cases hl : lookS vm k with
              | none => exact Or.inr ⟨rfl, by simp⟩
              | some sc => exact Or.inl (by simp)
            · exact Or.inl (by simp [hk])
          have hBR : BInv O files mainSrc libs vmR := by
            apply hB.transfer (by rw [← hvmR]; exact s13.names)
            · intro H hh
              rw [← hvmR] at hh
              simp only [VM.record, List.mem_cons] at hh
              rcases hh with hh | hh
              · cases hh
              · rw [s13.log] at hh; exact hh
            · intro H hh
              rw [← hvmR] at hh
              simp only [VM.record, List.mem_cons] at hh
              rcases hh with hh | hh
              · injection hh with hh; subst hh; exact hlibev
              · rw [s13.log] at hh; exact hh
            · intro n i hh; rw [← hvmR]; show assoc n vm3.nameMap = _; rw [s13.nameMap]; exact hh
            · exact modsR
            · rw [stackR, hC.stack]
            · exact hB.wf.of_same sameR
            · intro k hk
              rw [lookR]
              have : k ≠ id := by omega
              simp only [this, if_false]; exact hB.fresh k hk
            · intro k sc _ hk; exact sameR.keep hk
          have hDR : Disc vmR := by
            constructor
            · rw [csR, stackR]; rfl
            · intro k hk
              rw [stackR, ← hC.stack] at hk
              exact sameR.nonnone k (hD.hasScope k hk)
          have hexR : ExOK files mainSrc libs imp.name id (vmR.exportsOf id) := by
            rw [exportsOf_congr modsR id]
            have hnc : (parseLibName imp.name).libType = .custom → False := by
              intro hc; rw [hty] at hc; cases hc
            refine ⟨hB.expNodup id, fun hc => (hnc hc).elim, fun _ => ⟨names, hlib, ?_, fun p hp => (q1 p hp).1⟩⟩
            intro x
            constructor
            · intro hx
              obtain ⟨p, hp, rfl⟩ := List.mem_map.1 hx
              exact (q1 p hp).2
            · exact q2 hlibev x
          have hb := bind_stepB (pre := pre) (imp := imp) hBR hDR csR (by rw [stackR]; exact List.mem_cons_self ..)
            (by rw [modsR]; exact hmlt) (sameR.keep hs) hI
            (hE.mono (fun n i hh => by rw [← hvmR]; show assoc n vm3.nameMap = _; rw [s13.nameMap]; exact hh))
            (by rw [← hvmR]; show assoc _ vm3.nameMap = _; rw [s13.nameMap]; exact hreg) hexR
          cases hbr : bindImports O vmR id imp.items with
          | err e vm' => trivial
          | ok vm4 =>
            rw [hbr] at hb
            obtain ⟨b1, b2, b3, b4, b5⟩ := hb
            refine ⟨b1, b2, ?_, ?_, ?_, b5⟩
            · intro k sc _ hkm hsc
              rw [b3 k hkm]; exact sameR.keep hsc
            · intro k _
              rw [exportsOf_congr b4 k, exportsOf_congr modsR k]
            · rw [b4, modsR]; exact Nat.le_refl _
  -- a module
  rw [hty]
  dsimp only
  unfold VM.findModuleByName
  cases hreg : assoc imp.name vm.nameMap with
  | none =>
    dsimp only
    have hl := hload vm imp.name m rest nm src imp hS hL hC himp rfl hreg hty
    have hlB := hloadB vm imp.name m rest nm src imp hS hL hC himp rfl hreg hty hB hD
    cases hr : load vm (parseLibName imp.name) with
    | err e vm' => trivial
    | ok p =>
      obtain ⟨vm1, mid⟩ := p
      rw [hr] at hl hlB
      obtain ⟨hp, h1, h2, _⟩ := hl
      obtain ⟨hB1, hD1, hks, hke, hlen⟩ := hlB
      dsimp only
      have hcd := checkDependency_cases O vm1 imp.name
      cases hc : checkDependency O vm1 imp.name with
      | err e vm' => trivial
      | ok vm2 =>
        rw [hc] at hcd
        obtain ⟨rfl, _⟩ := hcd
        dsimp only
        have hb := bind_stepB (pre := pre) (imp := imp) hB1 hD1 hp.cs (by rw [hp.stack]; exact List.mem_cons_self ..)
          (Nat.lt_of_lt_of_le hmlt hlen) (hks m s hmlt hs) hI (hE.mono hp.ext.nameMap) h1
          (exOK_of_done hp.sinv hB1 h1 h2)
        cases hbr : bindImports O vm2 mid imp.items with
        | err e vm' => trivial
        | ok vm3 =>
          rw [hbr] at hb
          obtain ⟨b1, b2, b3, b4, b5⟩ := hb
          refine ⟨b1, b2, ?_, ?_, ?_, b5⟩
          · intro k sc hk hkm hsc
            rw [b3 k hkm]; exact hks k sc hk hsc
          · intro k hk
            rw [exportsOf_congr b4 k]; exact hke k hk
          · rw [b4]; exact hlen
  | some mid =>
    dsimp only
    obtain ⟨dnames, dgraph, dmap, dlog, dstack, dcs⟩ := addDep_eq hreg hC.cs
    have hcd := checkDependency_cases O (vm.addModuleDependency imp.name) imp.name
    cases hc : checkDependency O (vm.addModuleDependency imp.name) imp.name with
    | err e vm' => trivial
    | ok vm2 =>
      have hdone := existing_import_done hO hS hL hC.cs hreg hty hc
      rw [hc] at hcd
      obtain ⟨rfl, _⟩ := hcd
      dsimp only
      have hscopes : ∀ k, lookS (vm.addModuleDependency imp.name) k = lookS vm k := by
        intro k; unfold VM.addModuleDependency; rw [hreg]; dsimp only; rw [hC.cs]; rfl
      have hmods : (vm.addModuleDependency imp.name).modules = vm.modules := by
        unfold VM.addModuleDependency; rw [hreg]; dsimp only; rw [hC.cs]
      have hB1 : BInv O files mainSrc libs (vm.addModuleDependency imp.name) := by
        apply hB.transfer dnames (fun H hh => by rw [dlog] at hh; exact hh) (fun H hh => by rw [dlog] at hh; exact hh)
          (fun n id hh => by rw [dmap]; exact hh) hmods dstack
        · intro k sc hk; rw [hscopes] at hk; exact hB.wf k sc hk
        · intro k hk; rw [hscopes]; exact hB.fresh k hk
        · intro k sc _ hk; rw [hscopes]; exact hk
      have hD1 : Disc (vm.addModuleDependency imp.name) :=
        disc_of_step hD dstack dcs (fun k hk => by rw [hscopes]; exact hk)
      have hex : ExOK files mainSrc libs imp.name mid ((vm.addModuleDependency imp.name).exportsOf mid) := by
        rw [exportsOf_congr hmods mid]; exact exOK_of_done hS hB hreg hdone
      have hb := bind_stepB (pre := pre) (imp := imp) hB1 hD1 (dcs.trans hC.cs)
        (by rw [dstack, hC.stack]; exact List.mem_cons_self ..) (by rw [hmods]; exact hmlt)
        (by rw [hscopes]; exact hs) hI (hE.mono (fun n id hh => by rw [dmap]; exact hh)) (by rw [dmap]; exact hreg) hex
      cases hbr : bindImports O (vm.addModuleDependency imp.name) mid imp.items with
      | err e vm' => trivial
      | ok vm3 =>
        rw [hbr] at hb
        obtain ⟨b1, b2, b3, b4, b5⟩ := hb
        refine ⟨b1, b2, ?_, ?_, ?_, b5⟩
        · intro k sc _ hkm hsc
          rw [b3 k hkm, hscopes]; exact hsc
        · intro k _
          rw [exportsOf_congr b4 k, exportsOf_congr hmods k]
        · rw [b4, hmods]; exact Nat.le_refl _

end ZnVerif.Proofs.Modules

namespace ZnVerif.Proofs.Modules
open ZnVerif.Model.Modules
open ZnVerif.Spec.ModuleSem (defsOf HasCycle)

theorem evalImports_specB {files : Files} {mainSrc : ModuleSrc} {O : Oracle} {libs : Libs}
    {load : VM → LibNameInfo → Res (VM × Nat)} (hO : OracleOK O) (hload : LoadSpec files mainSrc load)
    (hloadB : LoadSpecB O files mainSrc libs load) (hρ : ExportOrderOK O)
    {m : Nat} {rest : List Nat} {nm : Name} {src : ModuleSrc} :
    ∀ (imps : List Imp) (vm : VM) (pre : List Imp) (s : Scope) (IS : List Entry),
      SInv files mainSrc vm → LInv files mainSrc vm (m :: rest) → Cur files mainSrc vm m rest nm src →
      (∀ i, i ∈ imps → i ∈ src.imports) →
      BInv O files mainSrc libs vm → Disc vm → lookS vm m = some s → ImpScope s IS →
      EntriesOK O files mainSrc libs vm pre IS →
      match evalImports O libs load vm imps with
      | .ok vm' => OkPostB O files mainSrc libs vm vm' m (pre ++ imps)
      | .err _ _ => True
  | [], vm, pre, s, IS, _, _, _, _, hB, hD, hs, hI, hE => by
    unfold evalImports
    exact ⟨hB, hD, fun _ _ _ _ h => h, fun _ _ => rfl, Nat.le_refl _, s, IS, hs, hI, by simpa using hE⟩
  | i :: r, vm, pre, s, IS, hS, hL, hC, hsub, hB, hD, hs, hI, hE => by
    unfold evalImports
    have hi := hsub i (List.mem_cons_self ..)
    have a1 := evalImport_spec (libs := libs) hO hload hS hL hC hi
    have b1 := evalImport_specB (libs := libs) hO hload hloadB hS hL hC hi hρ hB hD hs hI hE
    cases hr : evalImport O libs load vm i with
    | err e vm' => trivial
    | ok vm1 =>
      rw [hr] at a1 b1
      obtain ⟨hp, _⟩ := a1
      dsimp only
      obtain ⟨s1, IS1, hs1, hI1, hE1⟩ := b1.scope
      have b2 := evalImports_specB hO hload hloadB hρ r vm1 (pre ++ [i]) s1 IS1 hp.sinv hp.linv (hC.mono hp)
        (fun j hj => hsub j (List.mem_cons_of_mem _ hj))
        b1.binv b1.disc hs1 hI1 hE1
      cases hr2 : evalImports O libs load vm1 r with
      | err e vm' => trivial
      | ok vm2 =>
        rw [hr2] at b2
        refine ⟨b2.binv, b2.disc, ?_, ?_, Nat.le_trans b1.len b2.len, ?_⟩
        · intro k sc hk hkm hsc
          exact b2.kept k sc (Nat.lt_of_lt_of_le hk b1.len) hkm (b1.kept k sc hk hkm hsc)
        · intro k hk
          rw [b2.exports k (Nat.lt_of_lt_of_le hk b1.len), b1.exports k hk]
        · obtain ⟨s2, IS2, h1, h2, h3⟩ := b2.scope
          exact ⟨s2, IS2, h1, h2, by simpa [List.append_assoc] using h3⟩

theorem done_notin_of_stack {files : Files} {mainSrc : ModuleSrc} {vm : VM} {st : List Nat}
    (hL : LInv files mainSrc vm st) {x : Nat} (hx : x ∈ st) : Ev.done x ∉ vm.log :=
  fun hd => hL.disj x hx (mem_closedOf.2 (Or.inl hd))

theorem same_length {vm vm' : VM} (h : Same vm vm') : vm'.modules.length = vm.modules.length := by
  have := congrArg List.length h.names
  simpa [namesOf] using this

theorem evalProgram_specB {files : Files} {mainSrc : ModuleSrc} {O : Oracle} {libs : Libs} {cf : Nat}
    {load : VM → LibNameInfo → Res (VM × Nat)} (hO : OracleOK O) (hload : LoadSpec files mainSrc load)
    (hloadB : LoadSpecB O files mainSrc libs load) (hρ : ExportOrderOK O)
    {vm : VM} {m : Nat} {rest : List Nat} {nm : Name} {src : ModuleSrc} {s : Scope}
    (hS : SInv files mainSrc vm) (hL : LInv files mainSrc vm (m :: rest)) (hC : Cur files mainSrc vm m rest nm src)
    (hB : BInv O files mainSrc libs vm) (hD : Disc vm) (hs : lookS vm m = some s) (hI : ImpScope s [])
    (hex0 : vm.exportsOf m = []) :
    match evalProgram O libs cf load vm m src with
    | .ok vm' => BInv O files mainSrc libs vm' ∧ Disc vm' ∧
        (∀ k sc, k < vm.modules.length → k ≠ m → lookS vm k = some sc → lookS vm' k = some sc) ∧
        (∀ k, k < vm.modules.length → k ≠ m → vm'.exportsOf k = vm.exportsOf k) ∧
        vm.modules.length ≤ vm'.modules.length ∧
        ∃ s' IS, lookS vm' m = some s' ∧ ImpScope s' IS ∧ EntriesOK O files mainSrc libs vm' src.imports IS
    | .err _ _ => True := by
  have hmlt : m < vm.modules.length := mem_stack_lt hL (List.mem_cons_self ..)
  unfold evalProgram
  have a1 := evalImports_spec (libs := libs) hO hload src.imports vm hS hL hC (fun _ h => h)
  have b1 := evalImports_specB (libs := libs) hO hload hloadB hρ src.imports vm [] s [] hS hL hC (fun _ h => h)
    hB hD hs hI EntriesOK.nil
  cases hr : evalImports O libs load vm src.imports with
  | err e vm' => trivial
  | ok vm1 =>
    rw [hr] at a1 b1
    obtain ⟨hp, _⟩ := a1
    dsimp only
    obtain ⟨s1, IS1, hs1, hI1, hE1⟩ := b1.scope
    simp only [List.nil_append] at hE1
    have hC1 := hC.mono hp
    -- the body
    have hDb : Disc (vm1.record (.body m)) := disc_of_step b1.disc rfl rfl (fun _ h => h)
    have hwb : AllWF (vm1.record (.body m)) := b1.binv.wf
    have hf := evalBody_frame cf (vm1.record (.body m)) src.body
    have he := evalBody_effect cf (vm := vm1.record (.body m)) (m := m) (s := s1) hDb hwb hp.cs hs1 src.body
    cases hr2 : evalBody cf (vm1.record (.body m)) src.body with
    | err e vm' => trivial
    | ok vm2 =>
      rw [hr2] at hf he
      obtain ⟨hsame, hst, hcs⟩ := hf
      obtain ⟨hsc, hexm, hexo, hnd⟩ := he
      dsimp only
      have hlen2 : vm2.modules.length = vm1.modules.length := same_length (vm := vm1.record (.body m)) hsame
      have hdone_m : Ev.done m ∉ vm1.log := done_notin_of_stack hp.linv (List.mem_cons_self ..)
      have hdone2 : ∀ H, Ev.done H ∈ (vm2.record (.done m)).log → H = m ∨ Ev.done H ∈ vm1.log := by
        intro H hh
        simp only [VM.record, List.mem_cons] at hh
        rcases hh with hh | hh
        · injection hh with hh; exact Or.inl hh
        · rw [hsame.log] at hh
          simp only [VM.record, List.mem_cons] at hh
          rcases hh with hh | hh
          · cases hh
          · exact Or.inr hh
      have hnames2 : namesOf (vm2.record (.done m)) = namesOf vm1 := hsame.names
      have hex1m : vm1.exportsOf m = [] := by rw [b1.exports m hmlt]; exact hex0
      have hstack2 : (vm2.record (.done m)).stack = vm1.stack := hst
      have hlook2 : ∀ k, lookS (vm2.record (.done m)) k = lookS vm2 k := fun _ => rfl
      have hexp2 : ∀ k, (vm2.record (.done m)).exportsOf k = vm2.exportsOf k := fun _ => rfl
      have hBd : BInv O files mainSrc libs (vm2.record (.done m)) := by
        constructor
        · exact (hwb.of_same hsc)
        · intro k hk
          have hk1 : vm1.modules.length ≤ k := by
            have : (vm2.record (.done m)).modules.length = vm2.modules.length := rfl
            omega
          rw [hlook2]
          rcases hsc k with e | ⟨_, e⟩
          · rw [e]; exact b1.binv.fresh k hk1
          · exact Or.inr e
        · intro k; rw [hexp2]; exact hnd b1.binv.expNodup k
        · intro H nm' src' hd hn hsrc
          rw [hnames2] at hn
          rw [hexp2]
          rcases hdone2 H hd with rfl | hd1
          · have : nm' = nm := by
              have := hC1.name; rw [hn] at this; injection this
            subst this
            rw [hC1.src] at hsrc; injection hsrc with hsrc; subst hsrc
            rw [hexm]
            show vm1.exportsOf H ++ _ = _
            rw [hex1m]; rfl
          · have hHm : H ≠ m := fun h => hdone_m (h ▸ hd1)
            rw [hexo H hHm]
            exact b1.binv.closedExports H nm' src' hd1 hn hsrc
        · intro H nm' src' hd hns h0 hn hsrc
          rw [hnames2] at hn; rw [hstack2] at hns
          rw [hexp2]
          have hHm : H ≠ m := fun h => hns (by rw [h, hp.stack]; exact List.mem_cons_self ..)
          rcases hdone2 H hd with rfl | hd1
          · exact absurd rfl hHm
          · obtain ⟨sc, IS, h1, h2, h3⟩ := b1.binv.closedScope H nm' src' hd1 hns h0 hn hsrc
            refine ⟨sc, IS, ?_, ?_, ?_⟩
            · rw [hlook2]; exact hsc.keep h1
            · rw [hexo H hHm]; exact h2
            · exact h3.mono (fun n id hh => by
                show assoc n vm2.nameMap = some id
                rw [hsame.nameMap]; exact hh)
        · intro L ln names hn hstd hl
          rw [hnames2] at hn
          rw [hexp2]
          have hLm : L ≠ m := by
            intro h; subst h
            have := hC1.name; rw [hn] at this; injection this with this
            rw [this, hC1.reach.custom] at hstd; cases hstd
          rw [hexo L hLm]
          obtain ⟨l1, l2⟩ := b1.binv.libOK L ln names hn hstd hl
          refine ⟨l1, fun hh => l2 ?_⟩
          simp only [VM.record, List.mem_cons] at hh
          rcases hh with hh | hh
          · cases hh
          · rw [hsame.log] at hh
            simp only [VM.record, List.mem_cons] at hh
            rcases hh with hh | hh
            · cases hh
            · exact hh
      refine ⟨hBd, ?_, ?_, ?_, ?_, ?_⟩
      · exact disc_of_step hDb hst (hcs hDb.cs) (fun k hk => by rw [hlook2]; exact hsc.nonnone k hk)
      · intro k sc hk hkm hk0
        rw [hlook2]
        exact hsc.keep (b1.kept k sc hk hkm hk0)
      · intro k hk hkm
        rw [hexp2, hexo k hkm]
        exact b1.exports k hk
      · have : (vm2.record (.done m)).modules.length = vm2.modules.length := rfl
        have := b1.len; omega
      · refine ⟨s1, IS1, ?_, hI1, ?_⟩
        · rw [hlook2]; exact hsc.keep hs1
        · exact hE1.mono (fun n id hh => by
            show assoc n vm2.nameMap = some id
            rw [hsame.nameMap]; exact hh)

end ZnVerif.Proofs.Modules

namespace ZnVerif.Proofs.Modules
open ZnVerif.Model.Modules
open ZnVerif.Spec.ModuleSem (defsOf HasCycle)

theorem loadModule_specB {files : Files} {mainSrc : ModuleSrc} {O : Oracle} {libs : Libs} {cf : Nat}
    (hO : OracleOK O) (hρ : ExportOrderOK O) :
    ∀ f, LoadSpecB O files mainSrc libs (loadModule .repaired O files libs cf f)
  | 0 => by
    intro vm n m rest nm src imp _ _ _ _ _ _ _ _ _
    unfold loadModule; trivial
  | f + 1 => by
    intro vm n m rest nm src imp hS hL hC himp hname hreg hty hB hD
    unfold loadModule
    cases hfind : finder .repaired files (parseLibName n) with
    | panic => trivial
    | notFound => trivial
    | emptySrc => trivial
    | src s =>
      dsimp only
      rw [parseLibName_originalName]
      have hMI : MImports files mainSrc nm n := ⟨src, imp, hC.src, himp, hname, hty⟩
      have hne : n ≠ mainName := by
        intro h; rw [h, hS.regAll 0 mainName hS.main0] at hreg; cases hreg
      obtain ⟨a2, anames, agraph, amap, alog, astack, acs⟩ := allocate_fresh hreg
      obtain ⟨ascopes, amods⟩ := allocate_fresh_B hreg
      rw [hC.cs] at agraph; dsimp only at agraph
      rw [a2]
      have hNlen : (namesOf vm).length = vm.modules.length := namesOf_length vm
      generalize hvm1 : (((vm.allocateModule n).1.pushFrame (namesOf vm).length).record
        (.enter (namesOf vm).length)) = vm1
      have n1 : namesOf vm1 = namesOf vm ++ [n] := by rw [← hvm1]; exact anames
      have g1 : vm1.graph = vm.graph ++ [(m, (namesOf vm).length)] := by rw [← hvm1]; exact agraph
      have m1 : vm1.nameMap = aset n (namesOf vm).length vm.nameMap := by rw [← hvm1]; exact amap
      have l1 : vm1.log = Ev.enter (namesOf vm).length :: vm.log := by
        rw [← hvm1]; show Ev.enter _ :: (vm.allocateModule n).1.log = _; rw [alog]
      have st1 : vm1.stack = (namesOf vm).length :: m :: rest := by
        rw [← hvm1]; show _ :: (vm.allocateModule n).1.stack = _; rw [astack, hC.stack]
      have cs1 : vm1.cs = some (namesOf vm).length := by rw [← hvm1]; rfl
      have mods1 : vm1.modules = vm.modules ++ [⟨n, []⟩] := by rw [← hvm1]; exact amods
      have hfreshN : lookS vm (namesOf vm).length = none ∨ lookS vm (namesOf vm).length = some Scope.new :=
        hB.fresh _ (by rw [hNlen]; exact Nat.le_refl _)
      have look1 : ∀ k, lookS vm1 k = if k = (namesOf vm).length then some Scope.new else lookS vm k := by
        intro k
        rw [← hvm1, lookS_record, lookS_pushFrame, ascopes]
        by_cases hk : k = (namesOf vm).length
        · simp only [hk, if_true]
          rcases hfreshN with h | h <;> simp [h]
        · simp only [hk, if_false]; exact ascopes k
      -- A side
      have hS1 : SInv files mainSrc vm1 := by
        have hSa : SInv files mainSrc (vm.allocateModule n).1 :=
          hS.alloc hreg anames agraph amap alog hC.name hC.reach (Or.inr hMI)
        rw [← hvm1]
        exact (hSa.of_same (same_pushFrame _ _)).record_enter _
      have hreach : MReach files mainSrc n := MReach.step hC.reach hMI
      have hL1 : LInv files mainSrc vm1 ((namesOf vm).length :: m :: rest) :=
        hL.push_new n1 g1 m1 l1 hS.logBound hreach (msrc_of_finder hne hfind)
      have hC1 : Cur files mainSrc vm1 (namesOf vm).length (m :: rest) n s :=
        ⟨st1, cs1, by rw [n1]; simp, msrc_of_finder hne hfind, hreach⟩
      have hmapmono : ∀ k id, assoc k vm.nameMap = some id → assoc k vm1.nameMap = some id := by
        rw [m1]; exact aset_fresh_mono hreg
      -- B side at vm1
      have hdoneLt : ∀ H, Ev.done H ∈ vm.log → H < vm.modules.length := by
        intro H hd
        obtain ⟨k, hk, _⟩ := hS.doneReach H hd
        rw [← hNlen]; exact getElem?_lt hk
      have hnold : ∀ {H : Nat} {k : Name}, H < vm.modules.length → (namesOf vm1)[H]? = some k →
          (namesOf vm)[H]? = some k := by
        intro H k hH hk
        rw [n1, List.getElem?_append_left (by rw [hNlen]; exact hH)] at hk; exact hk
      have hB1 : BInv O files mainSrc libs vm1 := by
        constructor
        · intro k sc hk
          rw [look1] at hk
          by_cases hkN : k = (namesOf vm).length
          · simp [hkN] at hk; subst hk; exact wf_new
          · simp only [hkN, if_false] at hk; exact hB.wf k sc hk
        · intro k hk
          rw [mods1] at hk; simp at hk
          rw [look1]
          have : k ≠ (namesOf vm).length := by omega
          simp only [this, if_false]
          exact hB.fresh k (by omega)
        · intro k
          by_cases hk : k < vm.modules.length
          · rw [exportsOf_append_lt mods1 hk]; exact hB.expNodup k
          · have : vm1.exportsOf k = [] := by
              by_cases hk2 : k = vm.modules.length
              · rw [hk2, exportsOf_append_new mods1]
              · exact exportsOf_ge (by rw [mods1]; simp; omega)
            rw [this]; simp
        · intro H nm' src' hd hn hsrc
          rw [l1] at hd; simp at hd
          have hH := hdoneLt H hd
          rw [exportsOf_append_lt mods1 hH]
          exact hB.closedExports H nm' src' hd (hnold hH hn) hsrc
        · intro H nm' src' hd hns h0 hn hsrc
          rw [l1] at hd; simp at hd
          have hH := hdoneLt H hd
          rw [st1] at hns
          have hns' : H ∉ vm.stack := by
            rw [hC.stack]; intro h; exact hns (List.mem_cons_of_mem _ h)
          obtain ⟨sc, IS, h1, h2, h3⟩ := hB.closedScope H nm' src' hd hns' h0 (hnold hH hn) hsrc
          refine ⟨sc, IS, ?_, ?_, h3.mono hmapmono⟩
          · rw [look1]
            have : H ≠ (namesOf vm).length := by omega
            simp only [this, if_false]; exact h1
          · rw [exportsOf_append_lt mods1 hH]; exact h2
        · intro L ln names hn' hstd hl
          by_cases hLN : L < vm.modules.length
          · rw [exportsOf_append_lt mods1 hLN]
            obtain ⟨q1, q2⟩ := hB.libOK L ln names (hnold hLN hn') hstd hl
            refine ⟨q1, fun hh => q2 ?_⟩
            rw [l1] at hh; simpa using hh
          · have hLeq : L = (namesOf vm).length := by
              have := getElem?_lt hn'; rw [n1] at this; simp at this; omega
            subst hLeq
            rw [n1] at hn'; simp at hn'
            rw [← hn', hty] at hstd; cases hstd
      have hD1 : Disc vm1 := by
        constructor
        · rw [cs1, st1]; rfl
        · intro k hk
          rw [st1] at hk
          rw [look1]
          by_cases hkN : k = (namesOf vm).length
          · simp [hkN]
          · simp only [hkN, if_false]
            rcases List.mem_cons.1 hk with h | h
            · exact absurd h hkN
            · exact hD.hasScope k (by rw [hC.stack]; exact h)
      have hsN : lookS vm1 (namesOf vm).length = some Scope.new := by rw [look1]; simp
      have hexN : vm1.exportsOf (namesOf vm).length = [] := by
        rw [hNlen, exportsOf_append_new mods1]
      have hp := evalProgram_spec (libs := libs) (cf := cf) hO (loadModule_spec (libs := libs) (cf := cf) hO f) hS1 hL1 hC1
      have hpB := evalProgram_specB (libs := libs) (cf := cf) hO (loadModule_spec (libs := libs) (cf := cf) hO f)
        (loadModule_specB hO hρ f) hρ hS1 hL1 hC1 hB1 hD1 hsN impScope_new hexN
      cases hr : evalProgram O libs cf (loadModule .repaired O files libs cf f) vm1 (namesOf vm).length s with
      | err e vm' => trivial
      | ok vm2 =>
        rw [hr] at hp hpB
        obtain ⟨hS2, hL2, hst2, hcs2, hE2, hdone2⟩ := hp
        obtain ⟨hB2, hD2, hk2, hx2, hlen2, s2, IS2, hs2, hI2, hEn2⟩ := hpB
        dsimp only
        have hcsb : vm2.beginScope.cs = some (namesOf vm).length := by simp [hcs2]
        have lb := lookS_beginScope hcs2 hs2
        have hsb : lookS vm2.beginScope (namesOf vm).length = some s2.begin := by rw [lb]; simp
        have hre := redeclareExports_effect (O.exportOrder (vm2.exportsOf (namesOf vm).length)) vm2.beginScope
          (namesOf vm).length s2.begin hcsb hsb
        have hfr := redeclareExports_frame (O.exportOrder (vm2.exportsOf (namesOf vm).length)) vm2.beginScope
        cases hr3 : redeclareExports vm2.beginScope (O.exportOrder (vm2.exportsOf (namesOf vm).length)) with
        | err e vm' => trivial
        | ok vm3 =>
          rw [hr3] at hre hfr
          obtain ⟨r1, r2, r3⟩ := hre
          obtain ⟨hs3, hst3, hcs3⟩ := hfr
          have hs3' : Same vm2 vm3 := (same_beginScope vm2).trans hs3
          dsimp only
          cases hpop : vm3.popFrame with
          | none => trivial
          | some vm4 =>
            dsimp only
            obtain ⟨t, r, hst, hr4, hc4⟩ := popFrame_eq hpop
            rw [hst3, beginScope_stack, hst2] at hst
            injection hst with _ hr'
            have hs4 : Same vm2 vm4 := hs3'.trans (same_popFrame hpop)
            have stack4 : vm4.stack = m :: rest := by rw [hr4, ← hr']
            have mods4 : vm4.modules = vm2.modules := by
              rw [modules_popFrame hpop, r3]; simp
            have look4 : ∀ k, lookS vm4 k = lookS vm3 k := lookS_popFrame hpop
            have look3 : ∀ k, k ≠ (namesOf vm).length → lookS vm3 k = lookS vm2 k := by
              intro k hk; rw [r2 k hk, lb]; simp [hk]
            have hN0 : (namesOf vm).length ≠ 0 := by
              have := getElem?_lt hS.main0; omega
            have hNstack : (namesOf vm).length ∉ m :: rest := by
              intro h
              have := hL.lt_of_stack h; omega
            have hhome : HomeScope O
                ({ s2.begin with locals := ((O.exportOrder (vm2.exportsOf (namesOf vm).length)).map
                  (fun p => (⟨p.1, s2.begin.depth, true, p.2⟩ : Sym))).reverse ++ s2.begin.locals } : Scope)
                (vm2.exportsOf (namesOf vm).length) IS2 := by
              constructor
              · show s2.depth + 1 = 1; rw [hI2.depth]; rfl
              · show _ ++ s2.locals = _
                rw [hI2.locals]
                have : s2.begin.depth = 1 := by show s2.depth + 1 = 1; rw [hI2.depth]; rfl
                rw [this]; rfl
              · exact hI2.ext
              · exact hI2.nodup
            refine ⟨?_, ?_, ?_, ?_, ?_⟩
            · -- BInv vm4
              constructor
              · intro k sc hk
                rw [look4] at hk
                by_cases hkN : k = (namesOf vm).length
                · subst hkN
                  rw [r1] at hk; injection hk with hk; subst hk
                  intro y hy
                  simp only at hy ⊢
                  have hd1 : s2.begin.depth = 1 := by show s2.depth + 1 = 1; rw [hI2.depth]; rfl
                  rcases List.mem_append.1 hy with h | h
                  · simp only [List.mem_reverse, List.mem_map] at h
                    obtain ⟨p, _, rfl⟩ := h
                    exact Int.le_refl _
                  · have := hI2.all_depth y h
                    rw [this, hI2.depth, hd1]; decide
                · rw [look3 k hkN] at hk; exact hB2.wf k sc hk
              · intro k hk
                rw [mods4] at hk
                have hkN : k ≠ (namesOf vm).length := by
                  have := hlen2; rw [mods1] at this; simp at this; omega
                rw [look4, look3 k hkN]; exact hB2.fresh k hk
              · intro k; rw [exportsOf_congr mods4 k]; exact hB2.expNodup k
              · intro H nm' src' hd hn hsrc
                rw [hs4.log] at hd; rw [hs4.names] at hn
                rw [exportsOf_congr mods4 H]
                exact hB2.closedExports H nm' src' hd hn hsrc
              · intro H nm' src' hd hns h0 hn hsrc
                rw [hs4.log] at hd; rw [hs4.names] at hn; rw [stack4] at hns
                rw [exportsOf_congr mods4 H]
                by_cases hHN : H = (namesOf vm).length
                · subst hHN
                  have hnm : nm' = n := by
                    have := hE2.names_get hC1.name; rw [hn] at this; injection this
                  subst hnm
                  rw [hC1.src] at hsrc; injection hsrc with hsrc; subst hsrc
                  refine ⟨_, IS2, by rw [look4]; exact r1, hhome, ?_⟩
                  exact hEn2.mono (fun k id hh => by rw [hs4.nameMap]; exact hh)
                · have hns2 : H ∉ vm2.stack := by
                    rw [hst2]; intro h
                    rcases List.mem_cons.1 h with h | h
                    · exact hHN h
                    · exact hns h
                  obtain ⟨sc, IS, h1, h2, h3⟩ := hB2.closedScope H nm' src' hd hns2 h0 hn hsrc
                  exact ⟨sc, IS, by rw [look4, look3 H hHN]; exact h1, h2,
                    h3.mono (fun k id hh => by rw [hs4.nameMap]; exact hh)⟩
              · intro L ln names hn' hstd hl
                rw [hs4.names] at hn'
                rw [exportsOf_congr mods4 L, hs4.log]
                exact hB2.libOK L ln names hn' hstd hl
            · -- Disc vm4
              constructor
              · rw [hc4, hr4]
              · intro k hk
                rw [stack4] at hk
                have hkN : k ≠ (namesOf vm).length := fun h => hNstack (h ▸ hk)
                rw [look4, look3 k hkN]
                exact hD2.hasScope k (by rw [hst2]; exact List.mem_cons_of_mem _ hk)
            · -- KeptScopes
              intro k sc hk hsc
              have hkN : k ≠ (namesOf vm).length := by omega
              rw [look4, look3 k hkN]
              apply hk2 k sc (by rw [mods1]; simp; omega) hkN
              rw [look1]; simp only [hkN, if_false]; exact hsc
            · -- KeptExports
              intro k hk
              have hkN : k ≠ (namesOf vm).length := by omega
              rw [exportsOf_congr mods4 k, hx2 k (by rw [mods1]; simp; omega) hkN, exportsOf_append_lt mods1 hk]
            · rw [mods4]
              have := hlen2; rw [mods1] at this; simp at this; omega

end ZnVerif.Proofs.Modules

namespace ZnVerif.Proofs.Modules
open ZnVerif.Model.Modules
open ZnVerif.Spec.ModuleSem (defsOf HasCycle)

theorem vmStart_B : (∀ k, lookS vmStart k = if k = 0 then some Scope.new else none) ∧
    vmStart.modules = [⟨mainName, []⟩] := by
  constructor
  · intro k
    cases k with
    | zero => rfl
    | succ j =>
      show assoc (j + 1) [(0, Scope.new)] = _
      simp [assoc]
  · rfl

/-- what a completed run leaves behind, scope side -/
structure FinalB (O : Oracle) (files : Files) (mainSrc : ModuleSrc) (libs : Libs) (vm : VM) : Prop where
  binv : BInv O files mainSrc libs vm
  stack : vm.stack = []
  main : ∃ s IS, lookS vm 0 = some s ∧ ImpScope s IS ∧ EntriesOK O files mainSrc libs vm mainSrc.imports IS

theorem runWith_specB {files : Files} {mainSrc : ModuleSrc} {O : Oracle} {libs : Libs} {lf cf : Nat}
    (hO : OracleOK O) (hρ : ExportOrderOK O) :
    match runWith .repaired O files libs lf cf mainSrc with
    | .ok vm' => FinalB O files mainSrc libs vm'
    | .err _ _ => True := by
  obtain ⟨hS, hL, hC⟩ := start_invariants files mainSrc
  obtain ⟨hlook, hmods⟩ := vmStart_B
  obtain ⟨hn, hg, hm, hl, hs, hc, _⟩ := vmStart_fields
  have hB : BInv O files mainSrc libs vmStart := by
    constructor
    · intro k sc hk
      rw [hlook] at hk
      by_cases h0 : k = 0
      · simp [h0] at hk; subst hk; exact wf_new
      · simp [h0] at hk
    · intro k hk
      rw [hmods] at hk; simp at hk
      rw [hlook]
      have : k ≠ 0 := by omega
      simp [this]
    · intro k
      cases k with
      | zero => simp [VM.exportsOf, hmods]
      | succ j => simp [VM.exportsOf, hmods]
    · intro H nm src hd; rw [hl] at hd; simp at hd
    · intro H nm src hd; rw [hl] at hd; simp at hd
    · intro L ln names hn' hstd _
      rw [hn] at hn'
      cases L with
      | zero =>
        simp at hn'; rw [← hn', mainName_custom] at hstd; cases hstd
      | succ j => simp at hn'
  have hD : Disc vmStart := by
    constructor
    · rw [hc, hs]; rfl
    · intro k hk
      rw [hs] at hk; simp at hk; subst hk
      rw [hlook]; simp
  have hs0 : lookS vmStart 0 = some Scope.new := by rw [hlook]; simp
  have hex0 : vmStart.exportsOf 0 = [] := by simp [VM.exportsOf, hmods]
  have hp := evalProgram_spec (libs := libs) (cf := cf) hO (loadModule_spec (libs := libs) (cf := cf) hO lf) hS hL hC
  have hpB := evalProgram_specB (libs := libs) (cf := cf) hO (loadModule_spec (libs := libs) (cf := cf) hO lf)
    (loadModule_specB hO hρ lf) hρ hS hL hC hB hD hs0 impScope_new hex0
  unfold runWith
  dsimp only
  have e0 : (VM.init.allocateModule mainName).2 = 0 := rfl
  change (match evalProgram O libs cf (loadModule .repaired O files libs cf lf) vmStart (VM.init.allocateModule mainName).2 mainSrc with
    | .err e vm' => Res.err e vm'
    | .ok vm2 => match vm2.popFrame with
      | none => Res.err Err.panic vm2
      | some vm3 => Res.ok vm3) |> fun r => (match r with
    | .ok vm' => FinalB O files mainSrc libs vm'
    | .err _ _ => True)
  rw [e0]
  cases hr : evalProgram O libs cf (loadModule .repaired O files libs cf lf) vmStart 0 mainSrc with
  | err e vm' => trivial
  | ok vm2 =>
    rw [hr] at hp hpB
    obtain ⟨_, _, hst2, _, _, _⟩ := hp
    obtain ⟨hB2, _, _, _, _, s2, IS2, hs2, hI2, hE2⟩ := hpB
    dsimp only
    cases hpop : vm2.popFrame with
    | none => trivial
    | some vm3 =>
      dsimp only
      obtain ⟨t, r, hst, hr3, _⟩ := popFrame_eq hpop
      rw [hst2] at hst; injection hst with _ hr'
      have hsame := same_popFrame hpop
      have hmods3 := modules_popFrame hpop
      have hlook3 := lookS_popFrame hpop
      have hstack3 : vm3.stack = [] := by rw [hr3, ← hr']
      refine ⟨?_, hstack3, s2, IS2, by rw [hlook3]; exact hs2, hI2,
        hE2.mono (fun k id hh => by rw [hsame.nameMap]; exact hh)⟩
      constructor
      · intro k sc hk; rw [hlook3] at hk; exact hB2.wf k sc hk
      · intro k hk; rw [hmods3] at hk; rw [hlook3]; exact hB2.fresh k hk
      · intro k; rw [exportsOf_congr hmods3 k]; exact hB2.expNodup k
      · intro H nm src hd hn hsrc
        rw [hsame.log] at hd; rw [hsame.names] at hn
        rw [exportsOf_congr hmods3 H]; exact hB2.closedExports H nm src hd hn hsrc
      · intro H nm src hd _ h0 hn hsrc
        rw [hsame.log] at hd; rw [hsame.names] at hn
        rw [exportsOf_congr hmods3 H]
        have hns : H ∉ vm2.stack := by rw [hst2]; simp [h0]
        obtain ⟨sc, IS, h1, h2, h3⟩ := hB2.closedScope H nm src hd hns h0 hn hsrc
        exact ⟨sc, IS, by rw [hlook3]; exact h1, h2, h3.mono (fun k id hh => by rw [hsame.nameMap]; exact hh)⟩
      · intro L ln names hn' hstd hl
        rw [hsame.names] at hn'
        rw [exportsOf_congr hmods3 L, hsame.log]
        exact hB2.libOK L ln names hn' hstd hl

end ZnVerif.Proofs.Modules
