/-
Helper lemmas for C15: association lists, the effect of every VM primitive of Model.Modules on the fields the
loader invariants talk about, and the frame properties of body execution (a module body or a method call changes
neither the dependency graph, the name registry, the event log nor the module names; on success the call stack and
the current module are restored).
-/
import ZnVerif.Model.Modules

namespace ZnVerif.Proofs.Modules
open ZnVerif.Model.Modules

/-! ### association lists -/

theorem assoc_aset_same {α β} [DecidableEq α] (k : α) (v : β) : ∀ l : List (α × β), assoc k (aset k v l) = some v
  | [] => by simp [aset, assoc]
  | (a, b) :: r => by
    unfold aset
    by_cases h : a = k
    · simp [h, assoc]
    · simp [h, assoc, assoc_aset_same k v r]

theorem assoc_aset_other {α β} [DecidableEq α] {k k' : α} (v : β) (h : k' ≠ k) :
    ∀ l : List (α × β), assoc k' (aset k v l) = assoc k' l
  | [] => by simp [aset, assoc, Ne.symm h]
  | (a, b) :: r => by
    unfold aset
    by_cases ha : a = k
    · subst ha; simp [assoc, Ne.symm h]
    · simp only [ha, if_false, assoc]
      rw [assoc_aset_other v h r]

theorem assoc_aset {α β} [DecidableEq α] (k k' : α) (v : β) (l : List (α × β)) :
    assoc k' (aset k v l) = if k' = k then some v else assoc k' l := by
  by_cases h : k' = k
  · subst h; simp [assoc_aset_same]
  · simp [h, assoc_aset_other v h]

/-- a write that repeats the current binding changes no lookup -/
theorem assoc_aset_idem {α β} [DecidableEq α] {k : α} {v : β} {l : List (α × β)} (h : assoc k l = some v) (k' : α) :
    assoc k' (aset k v l) = assoc k' l := by
  rw [assoc_aset]; by_cases hk : k' = k
  · subst hk; simp [h]
  · simp [hk]

theorem assoc_mem {α β} [DecidableEq α] {k : α} {v : β} : ∀ {l : List (α × β)}, assoc k l = some v → (k, v) ∈ l
  | [], h => by simp [assoc] at h
  | (a, b) :: r, h => by
    unfold assoc at h
    by_cases ha : a = k
    · simp [ha] at h; subst ha; subst h; exact List.mem_cons_self ..
    · simp [ha] at h; exact List.mem_cons_of_mem _ (assoc_mem h)

/-! ### module names are untouched by export bookkeeping -/

def namesOf (vm : VM) : List Name := vm.modules.map Module.name

theorem map_name_set : ∀ (l : List Module) (m : Nat) (md : Module),
    l[m]? = some md → (l.map Module.name).set m md.name = l.map Module.name
  | [], _, _, h => by simp at h
  | a :: l, 0, md, h => by
    simp at h; subst h; simp
  | a :: l, m + 1, md, h => by
    simp at h
    simp [map_name_set l m md h]

theorem length_set_modules (l : List Module) (m : Nat) (md : Module) : (l.set m md).length = l.length := by simp

/-! ### what stays the same during body execution -/

structure Same (vm vm' : VM) : Prop where
  graph : vm'.graph = vm.graph
  nameMap : vm'.nameMap = vm.nameMap
  log : vm'.log = vm.log
  names : namesOf vm' = namesOf vm

theorem Same.rfl' (vm : VM) : Same vm vm := ⟨rfl, rfl, rfl, rfl⟩

theorem Same.trans {a b c : VM} (h1 : Same a b) (h2 : Same b c) : Same a c :=
  ⟨h2.graph.trans h1.graph, h2.nameMap.trans h1.nameMap, h2.log.trans h1.log, h2.names.trans h1.names⟩

theorem same_setScope (vm : VM) (m : Nat) (s : Scope) : Same vm (vm.setScope m s) := ⟨rfl, rfl, rfl, rfl⟩

theorem same_beginScope (vm : VM) : Same vm vm.beginScope := by
  unfold VM.beginScope; split
  · exact Same.rfl' _
  · exact same_setScope ..

theorem same_endScope (vm : VM) : Same vm vm.endScope := by
  unfold VM.endScope; split
  · exact Same.rfl' _
  · exact same_setScope ..

theorem same_pushFrame (vm : VM) (m : Nat) : Same vm (vm.pushFrame m) := ⟨rfl, rfl, rfl, rfl⟩

theorem same_display (vm : VM) (k : Nat) : Same vm (vm.display k) := ⟨rfl, rfl, rfl, rfl⟩

theorem same_popFrame {vm vm' : VM} (h : vm.popFrame = some vm') : Same vm vm' := by
  unfold VM.popFrame at h
  split at h
  · cases h
  · cases h; exact ⟨rfl, rfl, rfl, rfl⟩

theorem same_addExport {vm vm' : VM} {m : Nat} {n : Name} {v : Val} (h : vm.addExport m n v = some vm') : Same vm vm' := by
  unfold VM.addExport at h
  split at h
  · cases h
  · rename_i md hmd
    split at h
    · cases h
    · cases h
      exact ⟨rfl, rfl, rfl, by simp only [namesOf, List.map_set]; exact map_name_set vm.modules m md hmd⟩

theorem same_declareConst {vm vm' : VM} {n : Name} {v : Val} (h : vm.declareConst n v = .ok vm') : Same vm vm' := by
  unfold VM.declareConst at h
  split at h
  · cases h
  · split at h
    · cases h
    · cases h; exact same_setScope ..

theorem declareConst_err {vm vm' : VM} {n : Name} {v : Val} {e : Err} (h : vm.declareConst n v = .err e vm') :
    vm' = vm ∧ (e = .code 42 ∨ e = .code 43) := by
  unfold VM.declareConst at h
  split at h
  · cases h; exact ⟨rfl, Or.inl rfl⟩
  · split at h
    · cases h; exact ⟨rfl, Or.inr rfl⟩
    · cases h

theorem same_declareExternal {vm vm' : VM} {n : Name} {v : Val} {mid : Nat} (h : vm.declareExternal n v mid = .ok vm') :
    Same vm vm' := by
  unfold VM.declareExternal at h
  split at h
  · cases h
  · split at h
    · cases h
    · cases h; exact same_setScope ..

theorem declareExternal_err {vm vm' : VM} {n : Name} {v : Val} {mid : Nat} {e : Err}
    (h : vm.declareExternal n v mid = .err e vm') : vm' = vm ∧ (e = .code 42 ∨ e = .code 43) := by
  unfold VM.declareExternal at h
  split at h
  · cases h; exact ⟨rfl, Or.inl rfl⟩
  · split at h
    · cases h; exact ⟨rfl, Or.inr rfl⟩
    · cases h

/-! ### stack and current module -/

@[simp] theorem beginScope_stack (vm : VM) : vm.beginScope.stack = vm.stack := by
  unfold VM.beginScope; split <;> rfl
@[simp] theorem beginScope_cs (vm : VM) : vm.beginScope.cs = vm.cs := by
  unfold VM.beginScope; split <;> rfl
@[simp] theorem endScope_stack (vm : VM) : vm.endScope.stack = vm.stack := by
  unfold VM.endScope; split <;> rfl
@[simp] theorem endScope_cs (vm : VM) : vm.endScope.cs = vm.cs := by
  unfold VM.endScope; split <;> rfl
@[simp] theorem display_stack (vm : VM) (k : Nat) : (vm.display k).stack = vm.stack := rfl
@[simp] theorem display_cs (vm : VM) (k : Nat) : (vm.display k).cs = vm.cs := rfl
@[simp] theorem record_stack (vm : VM) (e : Ev) : (vm.record e).stack = vm.stack := rfl
@[simp] theorem record_cs (vm : VM) (e : Ev) : (vm.record e).cs = vm.cs := rfl
@[simp] theorem pushFrame_stack (vm : VM) (m : Nat) : (vm.pushFrame m).stack = m :: vm.stack := rfl
@[simp] theorem pushFrame_cs (vm : VM) (m : Nat) : (vm.pushFrame m).cs = some m := rfl
@[simp] theorem setScope_stack (vm : VM) (m : Nat) (s : Scope) : (vm.setScope m s).stack = vm.stack := rfl
@[simp] theorem setScope_cs (vm : VM) (m : Nat) (s : Scope) : (vm.setScope m s).cs = vm.cs := rfl

theorem popFrame_eq {vm vm' : VM} (h : vm.popFrame = some vm') :
    ∃ t r, vm.stack = t :: r ∧ vm'.stack = r ∧ vm'.cs = r.head? := by
  unfold VM.popFrame at h
  split at h
  · cases h
  · rename_i t r hs; cases h; exact ⟨t, r, hs, rfl, rfl⟩

theorem addExport_stack {vm vm' : VM} {m : Nat} {n : Name} {v : Val} (h : vm.addExport m n v = some vm') :
    vm'.stack = vm.stack ∧ vm'.cs = vm.cs := by
  unfold VM.addExport at h
  split at h
  · cases h
  · split at h
    · cases h
    · cases h; exact ⟨rfl, rfl⟩

theorem declareConst_stack {vm vm' : VM} {n : Name} {v : Val} (h : vm.declareConst n v = .ok vm') :
    vm'.stack = vm.stack ∧ vm'.cs = vm.cs := by
  unfold VM.declareConst at h
  split at h
  · cases h
  · split at h
    · cases h
    · cases h; exact ⟨rfl, rfl⟩

theorem declareExternal_stack {vm vm' : VM} {n : Name} {v : Val} {mid : Nat} (h : vm.declareExternal n v mid = .ok vm') :
    vm'.stack = vm.stack ∧ vm'.cs = vm.cs := by
  unfold VM.declareExternal at h
  split at h
  · cases h
  · split at h
    · cases h
    · cases h; exact ⟨rfl, rfl⟩

/-! ### errors a body can raise: never a loader error -/

/-- errors raised by statements of a body (never 60, 63, 64 or loader fuel) -/
def BodyErr (e : Err) : Prop := e ≠ .code 60 ∧ e ≠ .code 63 ∧ e ≠ .code 64 ∧ e ≠ .loadFuel

theorem bodyErr_code {n : Nat} (h60 : n ≠ 60) (h63 : n ≠ 63) (h64 : n ≠ 64) : BodyErr (.code n) :=
  ⟨by simp [h60], by simp [h63], by simp [h64], by simp⟩

theorem bodyErr_methodErr {e : Err} (h : BodyErr e) : BodyErr (methodErr e) := by
  cases e <;> simp [methodErr, BodyErr] at *
  all_goals first | exact h | trivial

/-- statement of the frame property of a step that may fail -/
def StepFrame (vm : VM) (r : Res VM) : Prop :=
  match r with
  | .ok vm' => Same vm vm' ∧ vm'.stack = vm.stack ∧ (vm.cs = vm.stack.head? → vm'.cs = vm.cs)
  | .err e vm' => Same vm vm' ∧ BodyErr e

theorem runUses_frame (rec : VM → Use → Res VM) (hrec : ∀ vm u, StepFrame vm (rec vm u)) :
    ∀ (us : List Use) (vm : VM), StepFrame vm (runUses rec vm us)
  | [], vm => by simp [runUses, StepFrame, Same.rfl']
  | u :: us, vm => by
    unfold runUses
    have h1 := hrec vm u
    cases hr : rec vm u with
    | err e vm' => rw [hr] at h1; simpa [StepFrame] using h1
    | ok vm1 =>
      rw [hr] at h1
      simp only [StepFrame] at h1
      dsimp only
      have h2 := runUses_frame rec hrec us vm1
      cases hr2 : runUses rec vm1 us with
      | err e vm' =>
        rw [hr2] at h2; simp only [StepFrame] at h2 ⊢
        exact ⟨h1.1.trans h2.1, h2.2⟩
      | ok vm2 =>
        rw [hr2] at h2; simp only [StepFrame] at h2 ⊢
        refine ⟨h1.1.trans h2.1, h2.2.1.trans h1.2.1, ?_⟩
        intro hcs
        have c1 := h1.2.2 hcs
        have : vm1.cs = vm1.stack.head? := by rw [c1, h1.2.1]; exact hcs
        rw [h2.2.2 this, c1]

/-- shared tail of a method call and of a constructor call -/
theorem call_tail_frame {vm vm2 : VM} {home : Nat} {us : List Use} (rec : VM → Use → Res VM)
    (hrec : ∀ vm u, StepFrame vm (rec vm u)) (mark : Nat)
    (h2 : vm2 = ((vm.pushFrame home).beginScope.beginScope).display mark) (conv : Err → Err)
    (hconv : ∀ e, BodyErr e → BodyErr (conv e)) :
    StepFrame vm (match runUses rec vm2 us with
      | .err e vm' => .err (conv e) vm'
      | .ok vm3 => match (vm3.endScope.endScope).popFrame with
        | none => .err .panic vm3
        | some vm4 => .ok vm4) := by
  have hs2 : Same vm vm2 := by
    subst h2
    exact ((same_pushFrame vm home).trans (same_beginScope _)).trans ((same_beginScope _).trans (same_display _ _))
  have hst2 : vm2.stack = home :: vm.stack := by subst h2; simp
  have hcs2 : vm2.cs = vm2.stack.head? := by subst h2; simp
  have hf := runUses_frame rec hrec us vm2
  cases hr : runUses rec vm2 us with
  | err e vm' =>
    rw [hr] at hf; simp only [StepFrame] at hf ⊢
    exact ⟨hs2.trans hf.1, hconv e hf.2⟩
  | ok vm3 =>
    rw [hr] at hf; simp only [StepFrame] at hf ⊢
    cases hp : (vm3.endScope.endScope).popFrame with
    | none =>
      exact ⟨hs2.trans hf.1, by simp [BodyErr]⟩
    | some vm4 =>
      obtain ⟨t, r, hs, hr4, hc4⟩ := popFrame_eq hp
      have hs3 : vm3.stack = home :: vm.stack := hf.2.1.trans hst2
      simp only [endScope_stack] at hs
      rw [hs3] at hs
      injection hs with _ hr'
      refine ⟨?_, ?_, ?_⟩
      · exact (hs2.trans hf.1).trans (((same_endScope _).trans (same_endScope _)).trans (same_popFrame hp))
      · rw [hr4, ← hr']
      · intro hcs; rw [hc4, ← hr']; exact hcs.symm

theorem useName_frame : ∀ (f : Nat) (vm : VM) (u : Use), StepFrame vm (useName f vm u)
  | 0, vm, u => by simp [useName, StepFrame, Same.rfl', BodyErr]
  | f + 1, vm, .call n => by
    unfold useName
    cases hfw : vm.findWithModule n with
    | none => simp [StepFrame, Same.rfl']; exact bodyErr_code (by decide) (by decide) (by decide)
    | some p =>
      obtain ⟨v, home⟩ := p
      cases v with
      | fn d =>
        exact call_tail_frame (useName f) (useName_frame f) d.mark rfl methodErr (fun e => bodyErr_methodErr)
      | cls d h =>
        simp only [StepFrame]
        exact ⟨same_pushFrame _ _, bodyErr_code (by decide) (by decide) (by decide)⟩
      | native =>
        simp only [StepFrame]
        exact ⟨same_pushFrame _ _, by simp [BodyErr]⟩
  | f + 1, vm, .new n => by
    unfold useName
    cases hfe : vm.findElement n with
    | none => simp [StepFrame, Same.rfl']; exact bodyErr_code (by decide) (by decide) (by decide)
    | some v =>
      cases v with
      | cls d home =>
        exact call_tail_frame (useName f) (useName_frame f) d.mark rfl id (fun e h => h)
      | fn d => simp [StepFrame, Same.rfl']; exact bodyErr_code (by decide) (by decide) (by decide)
      | native => simp [StepFrame, Same.rfl']; exact bodyErr_code (by decide) (by decide) (by decide)

theorem stepFrame_trans_ok {vm vm1 : VM} {r : Res VM} (h1 : Same vm vm1) (hst : vm1.stack = vm.stack)
    (hcs : vm.cs = vm.stack.head? → vm1.cs = vm.cs) (h2 : StepFrame vm1 r) : StepFrame vm r := by
  cases r with
  | err e vm' => simp only [StepFrame] at h2 ⊢; exact ⟨h1.trans h2.1, h2.2⟩
  | ok vm2 =>
    simp only [StepFrame] at h2 ⊢
    refine ⟨h1.trans h2.1, h2.2.1.trans hst, ?_⟩
    intro h
    have c1 := hcs h
    have : vm1.cs = vm1.stack.head? := by rw [c1, hst]; exact h
    rw [h2.2.2 this, c1]

theorem runItems_frame (cf : Nat) : ∀ (items : List Item) (vm : VM), StepFrame vm (runItems cf vm items)
  | [], vm => by simp [runItems, StepFrame, Same.rfl']
  | .marker k :: r, vm => by
    unfold runItems
    exact stepFrame_trans_ok (same_display vm k) rfl (fun _ => rfl) (runItems_frame cf r _)
  | .defn _ :: r, vm => by
    unfold runItems
    exact runItems_frame cf r vm
  | .use u :: r, vm => by
    unfold runItems
    have h1 := useName_frame cf vm u
    cases hr : useName cf vm u with
    | err e vm' => rw [hr] at h1; simpa [StepFrame] using h1
    | ok vm1 =>
      rw [hr] at h1; simp only [StepFrame] at h1
      exact stepFrame_trans_ok h1.1 h1.2.1 h1.2.2 (runItems_frame cf r vm1)
  | .assign n :: r, vm => by
    unfold runItems
    cases vm.curScope with
    | none => simp [StepFrame, Same.rfl']; exact bodyErr_code (by decide) (by decide) (by decide)
    | some p =>
      obtain ⟨m, s⟩ := p
      simp only
      cases hc : s.setValueCode n with
      | none => exact runItems_frame cf r vm
      | some c =>
        simp only [StepFrame]
        refine ⟨Same.rfl' _, ?_⟩
        unfold Scope.setValueCode at hc
        split at hc
        · cases hc; exact bodyErr_code (by decide) (by decide) (by decide)
        · split at hc
          · cases hc; exact bodyErr_code (by decide) (by decide) (by decide)
          · cases hc

theorem hoistDefs_frame : ∀ (items : List Item) (vm : VM), StepFrame vm (hoistDefs vm items)
  | [], vm => by simp [hoistDefs, StepFrame, Same.rfl']
  | .defn d :: r, vm => by
    unfold hoistDefs
    cases hcs : vm.cs with
    | none => simp [StepFrame, Same.rfl', BodyErr]
    | some m =>
      dsimp only
      generalize valOfDef d m = v
      cases hd : vm.declareConst d.name v with
      | err e vm' =>
        obtain ⟨rfl, he⟩ := declareConst_err hd
        simp only [StepFrame]
        refine ⟨Same.rfl' _, ?_⟩
        rcases he with rfl | rfl <;> exact bodyErr_code (by decide) (by decide) (by decide)
      | ok vm1 =>
        dsimp only
        cases ha : vm1.addExport m d.name v with
        | none =>
          simp only [StepFrame]
          exact ⟨same_declareConst hd, bodyErr_code (by decide) (by decide) (by decide)⟩
        | some vm2 =>
          simp only
          have s1 := same_declareConst hd
          have s2 := same_addExport ha
          have st1 := declareConst_stack hd
          have st2 := addExport_stack ha
          exact stepFrame_trans_ok (s1.trans s2) (st2.1.trans st1.1) (fun _ => st2.2.trans st1.2)
            (hoistDefs_frame r vm2)
  | .marker _ :: r, vm => by unfold hoistDefs; exact hoistDefs_frame r vm
  | .use _ :: r, vm => by unfold hoistDefs; exact hoistDefs_frame r vm
  | .assign _ :: r, vm => by unfold hoistDefs; exact hoistDefs_frame r vm

theorem evalBody_frame (cf : Nat) (vm : VM) (body : List Item) : StepFrame vm (evalBody cf vm body) := by
  unfold evalBody
  cases body with
  | nil => simp [StepFrame, Same.rfl']
  | cons it r =>
    simp only
    have h1 := hoistDefs_frame (it :: r) vm.beginScope
    cases hr : hoistDefs vm.beginScope (it :: r) with
    | err e vm' =>
      rw [hr] at h1; simp only [StepFrame] at h1 ⊢
      exact ⟨(same_beginScope vm).trans h1.1, h1.2⟩
    | ok vm1 =>
      rw [hr] at h1; simp only [StepFrame] at h1
      dsimp only
      have h2 := runItems_frame cf (it :: r) vm1.beginScope
      cases hr2 : runItems cf vm1.beginScope (it :: r) with
      | err e vm' =>
        rw [hr2] at h2; simp only [StepFrame] at h2 ⊢
        exact ⟨((same_beginScope vm).trans h1.1).trans ((same_beginScope vm1).trans h2.1), h2.2⟩
      | ok vm2 =>
        rw [hr2] at h2; simp only [StepFrame] at h2 ⊢
        simp only [beginScope_stack, beginScope_cs] at h1 h2
        refine ⟨?_, ?_, ?_⟩
        · exact (((same_beginScope vm).trans h1.1).trans ((same_beginScope vm1).trans h2.1)).trans
            ((same_endScope _).trans (same_endScope _))
        · simp [h2.2.1, h1.2.1]
        · intro hcs
          have c1 := h1.2.2 hcs
          have : vm1.cs = vm1.stack.head? := by rw [c1, h1.2.1]; exact hcs
          simp [h2.2.2 this, c1]

end ZnVerif.Proofs.Modules
