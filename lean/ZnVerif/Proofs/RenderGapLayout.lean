/-
C03 at character level, free layout, lexer part 2: what `PreNextToken` does on blanks and line breaks of any kind.

 * `skipBlank_ws`     — a white-space character is skipped: `skipBlank l = skipBlank l.adv`;
 * `skipBlank_brk`    — a line break LF / CR / CR LF / LF CR followed by `k'` steps of the text's indentation (TABs or groups of four
                        spaces): the line just left gets its `LineText`, the new line is appended with indentation `k'`, `IndentType`
                        is set at the first indented line, and the scan goes on from the first character after the indentation —
                        whether `parseLine` loops (`goto head`) or `PreNextToken`'s loop comes round again;
 * `nextToken_tok`, `nextToken_end`, `nextToken_end_again`, `nextToken_begin` — where a token is read.
-/
import ZnVerif.Proofs.RenderGapItems
import ZnVerif.Proofs.RenderLexLayout

namespace ZnVerif.Proofs.RenderLex
open ZnVerif.Model ZnVerif.Generated ZnVerif.Generated.Tokens
open ZnVerif.Spec ZnVerif.Spec.RenderChars

/-! ### loops that start alike go on alike -/

theorem iterate_congr {ρ σ : Type} {step : Lexer → σ → Step ρ σ × Lexer} {hc : Consumes step} {l l' : Lexer} {s s' : σ}
    (h : step l s = step l' s') : iterate step hc l s = iterate step hc l' s' := by
  cases hs : step l' s' with
  | mk r l2 =>
    cases r with
    | done r => rw [iterate_done (h.trans hs), iterate_done hs]
    | cont s2 => rw [iterate_cont (h.trans hs), iterate_cont hs]

/-- a white-space character is skipped -/
theorem skipBlank_ws (l : Lexer) (h : isWhiteSpace l.cur = true) : skipBlank l = skipBlank l.adv := by
  have h1 : skipBlank l = skipBlank (parseSpaces l) := by
    unfold skipBlank
    apply iterate_cont
    unfold skipBlankStep
    simp only [h, ↓reduceIte]
  have h2 : parseSpaces l = parseSpaces l.adv := by
    conv => lhs; rw [parseSpaces]
    simp only [h, ↓reduceDIte]
  rw [h1, h2]
  by_cases h3 : isWhiteSpace l.adv.cur = true
  · symm
    unfold skipBlank
    apply iterate_cont
    unfold skipBlankStep
    simp only [h3, ↓reduceIte]
  · have : parseSpaces l.adv = l.adv := by
      rw [parseSpaces]; simp [h3]
    rw [this]

/-! ### one pass of `parseLine` -/

/-- the lexer after the line break characters -/
def afterBreak (ch : Nat) (l : Lexer) : Lexer :=
  if (ch == runeCR && l.adv.cur == runeLF) || (ch == runeLF && l.adv.cur == runeCR) then l.adv.adv else l.adv

theorem parseLineBody_eqI (ch : Nat) (l l3 r1 r2 : Lexer) (n' n : Nat)
    (hslice : sliceLastLine (afterBreak ch l) l.cursor = some l3)
    (hcount : (if (afterBreak ch l).cur == runeSP || (afterBreak ch l).cur == runeTAB
        then countSame (afterBreak ch l).cur (l3.pushLine { indents := 0, startIdx := l3.cursor }) 1
        else (l3.pushLine { indents := 0, startIdx := l3.cursor }, 0)) = (r1, n'))
    (hset : setIndentType r1 n' (afterBreak ch l).cur = (.ok n, r2)) :
    parseLineBody ch true l = (.ok (), setLastIndents r2 n) := by
  unfold parseLineBody
  unfold afterBreak at hslice hcount hset
  simp only [hslice, hcount, hset, ↓reduceIte]

/-- a line break is passed: the scan goes on after it, in whichever loop -/
theorem skipBlank_of_body (ch : Nat) (l l' : Lexer) (hcur : l.cur = ch) (hbrk : ch = runeCR ∨ ch = runeLF)
    (hbody : parseLineBody ch true l = (.ok (), l')) : skipBlank l = skipBlank l' := by
  have hws : isWhiteSpace ch = false := by rcases hbrk with rfl | rfl <;> decide
  have hb : (ch == runeCR || ch == runeLF) = true := by rcases hbrk with rfl | rfl <;> decide
  by_cases hnext : (l'.cur == runeCR || l'.cur == runeLF) = true
  · -- `goto head`: the same pass is the first pass of the next round
    have hpl : parseLine ch true l = parseLine l'.cur true l' := by
      unfold parseLine
      apply iterate_cont
      unfold parseLineStep
      rw [hbody]
      simp only [hnext, ↓reduceIte]
    have hws' : isWhiteSpace l'.cur = false := by
      have : l'.cur = runeCR ∨ l'.cur = runeLF := by simpa using hnext
      rcases this with e | e <;> rw [e] <;> decide
    unfold skipBlank
    apply iterate_congr
    unfold skipBlankStep
    rw [hcur]
    simp only [hws, hb, hws', hnext, Bool.false_eq_true, ↓reduceIte, hpl]
  · have hpl := parseLine_once ch l l' hbody (by simpa using hnext)
    unfold skipBlank
    apply iterate_cont
    unfold skipBlankStep
    rw [hcur]
    simp only [hws, hb, Bool.false_eq_true, ↓reduceIte, hpl]

/-! ### indentation -/

/-- the indent type after a line with `k` steps -/
def ityAfterI (ind : Indent) (ity k : Nat) : Nat := if k = 0 then ity else ind.code

/-- `IndentType` is the text's, or still unknown and the current line is not indented -/
def ItyOKI (ind : Indent) (ity k : Nat) : Prop := ity = ind.code ∨ (ity = cIndentUnknown ∧ k = 0)

theorem ItyOKI.after {ind : Indent} {ity k : Nat} (h : ItyOKI ind ity k) (k' : Nat) : ItyOKI ind (ityAfterI ind ity k') k' := by
  unfold ityAfterI
  by_cases hk : k' = 0
  · simp only [hk, ↓reduceIte]
    rcases h with h | ⟨h, _⟩
    · exact Or.inl h
    · exact Or.inr ⟨h, rfl⟩
  · simp only [hk, ↓reduceIte]; exact Or.inl rfl

theorem ItyOKI.cases {ind : Indent} {ity k : Nat} (h : ItyOKI ind ity k) : ity = ind.code ∨ ity = cIndentUnknown :=
  h.imp id (·.1)

theorem indent_char_facts (ind : Indent) : ind.char ≠ 0 ∧ (ind.char = runeSP ∨ ind.char = runeTAB) ∧ 0 < ind.width := by
  cases ind <;> decide

theorem countSame_run (ch : Nat) (hch : ch ≠ 0) (j : Nat) : ∀ (l : Lexer) (n : Nat) (tl : List Nat),
    l.rest = List.replicate j ch ++ tl → tl.headD 0 ≠ ch → countSame ch l n = (l.setCursor (l.cursor + 1 + j), n + j) := by
  induction j with
  | zero =>
    intro l n tl h ht
    have hp : l.adv.cur = tl.headD 0 := rest_headD (by simpa using h)
    rw [countSame]
    have : (l.adv.cur == ch && l.adv.cur != 0) = false := by
      rw [hp]
      have : (tl.headD 0 == ch) = false := by simpa using ht
      rw [this]; rfl
    simp only [this, Bool.false_eq_true, ↓reduceDIte]
    rfl
  | succ j ih =>
    intro l n tl h ht
    have h' : l.rest = ch :: (List.replicate j ch ++ tl) := by simpa [List.replicate_succ] using h
    obtain ⟨hp, hr⟩ := Lexer.rest_cons h'
    have hcur : l.adv.cur = ch := hp
    rw [countSame]
    have : (l.adv.cur == ch && l.adv.cur != 0) = true := by rw [hcur]; simp [hch]
    simp only [this, ↓reduceDIte]
    rw [ih l.adv (n + 1) tl hr ht]
    simp [Lexer.setCursor, Lexer.adv]
    omega

/-- the new line's indentation is counted (none: nothing is consumed) -/
theorem count_units (ind : Indent) (l : Lexer) (k' : Nat) (tl : List Nat) (h : here l = units ind k' ++ tl)
    (htl : IndentOK ind k' tl) :
    (if l.cur == runeSP || l.cur == runeTAB then countSame l.cur l 1 else (l, 0)) =
      (l.setCursor (l.cursor + ind.width * k'), ind.width * k') := by
  obtain ⟨hc0, hc1, hw⟩ := indent_char_facts ind
  by_cases hk : k' = 0
  · subst hk
    have hc : l.cur = tl.headD 0 := here_headD (by simpa [units] using h)
    obtain ⟨h1, h2⟩ := htl.2 rfl
    have : (l.cur == runeSP || l.cur == runeTAB) = false := by
      rw [hc]
      generalize tl.headD 0 = x at h1 h2
      simp [h1, h2]
    simp only [this, Bool.false_eq_true, ↓reduceIte]
    rfl
  · obtain ⟨j, hj⟩ : ∃ j, ind.width * k' = j + 1 := ⟨ind.width * k' - 1, by
      have : 0 < ind.width * k' := Nat.mul_pos hw (by omega)
      omega⟩
    have h' : here l = ind.char :: (List.replicate j ind.char ++ tl) := by
      rw [h]; unfold units; rw [hj]; simp [List.replicate_succ]
    obtain ⟨hc, hr⟩ := here_cons h'
    rw [hc]
    have : (ind.char == runeSP || ind.char == runeTAB) = true := by
      rcases hc1 with e | e <;> rw [e] <;> decide
    simp only [this, ↓reduceIte]
    rw [countSame_run ind.char hc0 j l 1 tl hr htl.1, hj]
    congr 1
    · apply setCursor_congr; omega
    · omega

/-- `setIndentType` after the indentation (or none) of a new line -/
theorem setIndentType_units (ind : Indent) (l : Lexer) (k c : Nat)
    (hity : l.indentType = ind.code ∨ l.indentType = cIndentUnknown) (hc : k = 0 → c ≠ runeTAB ∧ c ≠ runeSP) :
    setIndentType l (ind.width * k) (if k = 0 then c else ind.char) =
      (.ok k, { l with indentType := ityAfterI ind l.indentType k }) := by
  obtain ⟨src, ity, lines, cursor, bl⟩ := l
  dsimp only at hity
  by_cases hk : k = 0
  · subst hk
    have hkind : indentKind c = cIndentUnknown := by
      unfold indentKind
      have a1 : (c == runeTAB) = false := by simpa using (hc rfl).1
      have a2 : (c == runeSP) = false := by simpa using (hc rfl).2
      simp [a1, a2]
    unfold setIndentType setIndentTypeLexer
    simp only [↓reduceIte, hkind, ityAfterI, Nat.mul_zero]
    cases ind <;> rcases hity with h | h <;> subst h <;>
      simp [cIndentUnknown, cIndentTab, cIndentSpace, Indent.code]
  · cases ind with
    | tab =>
      have hkind : indentKind runeTAB = cIndentTab := by decide
      unfold setIndentType setIndentTypeLexer
      simp only [hk, ↓reduceIte, Indent.char, hkind, ityAfterI, Indent.width, Nat.one_mul, Indent.code]
      rcases hity with h | h <;> subst h <;> simp [cIndentUnknown, cIndentTab, cIndentSpace, Indent.code]
    | sp4 =>
      have hkind : indentKind runeSP = cIndentSpace := by decide
      unfold setIndentType setIndentTypeLexer
      simp only [hk, ↓reduceIte, Indent.char, hkind, ityAfterI, Indent.width, Indent.code]
      rcases hity with h | h <;> subst h <;> simp [cIndentUnknown, cIndentTab, cIndentSpace, Indent.code]

theorem sliceLastLine_bstI (ind : Indent) (src : Array Nat) (ity : Nat) (dn : List LineInfo) (s k pos e : Nat) (bl : Bool)
    (hity : ItyOKI ind ity k) (h1 : s + ind.width * k ≤ e) (h2 : e ≤ src.size) :
    sliceLastLine (lx src ity (dn ++ [openLine s k]) pos bl) e = some (lx src ity (dn ++ [closedLineI ind s k e]) pos bl) := by
  have hstart : lastLineStart (lx src ity (dn ++ [openLine s k]) pos bl) = some (s + ind.width * k) := by
    rw [lastLineStart_lx]
    rcases hity with h | ⟨h, hk⟩
    · subst h; cases ind <;> simp [cIndentTab, cIndentSpace, openLine, Indent.code, Indent.width]
    · subst h; subst hk; simp [cIndentUnknown, cIndentTab, cIndentSpace, openLine]
  unfold sliceLastLine
  rw [hstart]
  have hcond : (decide (s + ind.width * k > e) || decide (e > (lx src ity (dn ++ [openLine s k]) pos bl).src.size)) = false := by
    simp [lx]; omega
  simp only [hcond, Bool.false_eq_true, ↓reduceIte]
  simp only [lx, List.size_toArray, List.length_append, List.length_cons, List.length_nil, Nat.zero_add,
    Nat.add_one_sub_one, List.modify_toArray, modify_last, openLine, closedLineI]

theorem break_facts (b : Break) : ∃ ch tl, b.chars = ch :: tl ∧ (ch = runeCR ∨ ch = runeLF) := by
  cases b
  · exact ⟨_, _, rfl, Or.inr rfl⟩
  · exact ⟨_, _, rfl, Or.inl rfl⟩
  · exact ⟨_, _, rfl, Or.inl rfl⟩
  · exact ⟨_, _, rfl, Or.inr rfl⟩

/-- the lexer after the characters of a line break, pairing as the text says -/
theorem afterBreak_eq (b : Break) (l : Lexer) (tl : List Nat) (h : here l = b.chars ++ tl) (hp : PairOK b tl) :
    afterBreak l.cur l = l.setCursor (l.cursor + b.chars.length) := by
  unfold afterBreak
  cases b with
  | lf =>
    have h' : here l = runeLF :: tl := by simpa [Break.chars] using h
    obtain ⟨hc, hr⟩ := here_cons h'
    have hn : l.adv.cur = tl.headD 0 := rest_headD hr
    have hne : (l.adv.cur == runeCR) = false := by rw [hn]; simpa [PairOK] using hp
    rw [hc, hne]
    rfl
  | cr =>
    have h' : here l = runeCR :: tl := by simpa [Break.chars] using h
    obtain ⟨hc, hr⟩ := here_cons h'
    have hn : l.adv.cur = tl.headD 0 := rest_headD hr
    have hne : (l.adv.cur == runeLF) = false := by rw [hn]; simpa [PairOK] using hp
    rw [hc, hne]
    rfl
  | crlf =>
    have h' : here l = runeCR :: runeLF :: tl := by simpa [Break.chars] using h
    obtain ⟨hc, hr⟩ := here_cons h'
    have hn : l.adv.cur = runeLF := (Lexer.rest_cons hr).1
    rw [hc, hn]
    rfl
  | lfcr =>
    have h' : here l = runeLF :: runeCR :: tl := by simpa [Break.chars] using h
    obtain ⟨hc, hr⟩ := here_cons h'
    have hn : l.adv.cur = runeCR := (Lexer.rest_cons hr).1
    rw [hc, hn]
    rfl

/-- **a line break and the indentation of the next line** -/
theorem skipBlank_brk (ind : Indent) (src : Array Nat) (ity : Nat) (dn : List LineInfo) (s k pos : Nat) (b : Break) (k' : Nat)
    (tl : List Nat) (hity : ItyOKI ind ity k) (hpos : s + ind.width * k ≤ pos)
    (h : here (bst src ity dn s k pos) = b.chars ++ (units ind k' ++ tl))
    (hp : PairOK b (units ind k' ++ tl)) (htl : IndentOK ind k' tl) :
    skipBlank (bst src ity dn s k pos) =
      skipBlank (bst src (ityAfterI ind ity k') (dn ++ [closedLineI ind s k pos]) (pos + b.chars.length) k'
        (pos + b.chars.length + ind.width * k')) := by
  obtain ⟨ch, btl, hb, hbrk⟩ := break_facts b
  have hcur : (bst src ity dn s k pos).cur = ch := by
    have : here (bst src ity dn s k pos) = ch :: (btl ++ (units ind k' ++ tl)) := by rw [h, hb]; rfl
    exact (here_cons this).1
  have hblen : 0 < b.chars.length := by rw [hb]; simp
  have hsize : pos + b.chars.length ≤ src.size := by
    have := congrArg List.length h
    simp [here, bst, lx] at this; omega
  have hab := afterBreak_eq b (bst src ity dn s k pos) _ h hp
  have hab' : afterBreak ch (bst src ity dn s k pos) = lx src ity (dn ++ [openLine s k]) (pos + b.chars.length) false := by
    rw [← hcur, hab]; rfl
  have hslice : sliceLastLine (afterBreak ch (bst src ity dn s k pos)) (bst src ity dn s k pos).cursor =
      some (lx src ity (dn ++ [closedLineI ind s k pos]) (pos + b.chars.length) false) := by
    rw [hab']
    exact sliceLastLine_bstI ind src ity dn s k (pos + b.chars.length) pos false hity hpos (by omega)
  have hl4 : ((lx src ity (dn ++ [closedLineI ind s k pos]) (pos + b.chars.length) false).pushLine
      { indents := 0, startIdx := (lx src ity (dn ++ [closedLineI ind s k pos]) (pos + b.chars.length) false).cursor }) =
      bst src ity (dn ++ [closedLineI ind s k pos]) (pos + b.chars.length) 0 (pos + b.chars.length) := by
    simp [Lexer.pushLine, bst, lx, openLine]
  have hl4here : here (bst src ity (dn ++ [closedLineI ind s k pos]) (pos + b.chars.length) 0 (pos + b.chars.length)) =
      units ind k' ++ tl := by
    have : here (bst src ity (dn ++ [closedLineI ind s k pos]) (pos + b.chars.length) 0 (pos + b.chars.length)) =
        (here (bst src ity dn s k pos)).drop b.chars.length := by
      show src.toList.drop (pos + b.chars.length) = (src.toList.drop pos).drop b.chars.length
      rw [List.drop_drop]
    rw [this, h]
    exact List.drop_left' rfl
  have hl4cur : (bst src ity (dn ++ [closedLineI ind s k pos]) (pos + b.chars.length) 0 (pos + b.chars.length)).cur =
      (afterBreak ch (bst src ity dn s k pos)).cur := by rw [hab']; rfl
  have hcount := count_units ind _ k' tl hl4here htl
  rw [hl4cur] at hcount
  have hr1 : (bst src ity (dn ++ [closedLineI ind s k pos]) (pos + b.chars.length) 0 (pos + b.chars.length)).setCursor
      ((bst src ity (dn ++ [closedLineI ind s k pos]) (pos + b.chars.length) 0 (pos + b.chars.length)).cursor + ind.width * k') =
      bst src ity (dn ++ [closedLineI ind s k pos]) (pos + b.chars.length) 0 (pos + b.chars.length + ind.width * k') := rfl
  rw [hr1] at hcount
  -- the character the indentation is judged by
  have hchn : (afterBreak ch (bst src ity dn s k pos)).cur = (if k' = 0 then tl.headD 0 else ind.char) := by
    rw [← hl4cur, here_headD hl4here]
    by_cases hk : k' = 0
    · subst hk; simp [units]
    · simp only [hk, ↓reduceIte]
      obtain ⟨_, _, hw⟩ := indent_char_facts ind
      obtain ⟨j, hj⟩ : ∃ j, ind.width * k' = j + 1 := ⟨ind.width * k' - 1, by
        have : 0 < ind.width * k' := Nat.mul_pos hw (by omega)
        omega⟩
      unfold units; rw [hj]; simp [List.replicate_succ]
  have hx : k' = 0 → tl.headD 0 ≠ runeTAB ∧ tl.headD 0 ≠ runeSP := fun hk => ⟨(htl.2 hk).2, (htl.2 hk).1⟩
  have hset := setIndentType_units ind (bst src ity (dn ++ [closedLineI ind s k pos]) (pos + b.chars.length) 0
    (pos + b.chars.length + ind.width * k')) k' (tl.headD 0) hity.cases hx
  rw [← hchn] at hset
  have hbody := parseLineBody_eqI ch (bst src ity dn s k pos) _ _ _ (ind.width * k') k' hslice (by rw [hl4]; exact hcount) hset
  have hfinal : setLastIndents { bst src ity (dn ++ [closedLineI ind s k pos]) (pos + b.chars.length) 0
        (pos + b.chars.length + ind.width * k') with
      indentType := ityAfterI ind (bst src ity (dn ++ [closedLineI ind s k pos]) (pos + b.chars.length) 0
        (pos + b.chars.length + ind.width * k')).indentType k' } k' =
      bst src (ityAfterI ind ity k') (dn ++ [closedLineI ind s k pos]) (pos + b.chars.length) k'
        (pos + b.chars.length + ind.width * k') := by
    simp only [setLastIndents, bst, lx, List.size_toArray, List.length_append, List.length_cons, List.length_nil,
      Nat.zero_add, Nat.add_one_sub_one, List.modify_toArray]
    have := modify_last (dn ++ [closedLineI ind s k pos]) (openLine (pos + b.chars.length) 0) (fun li => { li with indents := k' })
    simp only [List.length_append, List.length_cons, List.length_nil, Nat.zero_add] at this
    rw [this]
    rfl
  rw [hfinal] at hbody
  exact skipBlank_of_body ch _ _ hcur hbrk hbody

/-! ### where a token is read -/

/-- the lexer after the EOF token: the last line complete -/
def fstI (ind : Indent) (src : Array Nat) (ity : Nat) (dn : List LineInfo) (s k pos : Nat) : Lexer :=
  lx src ity (dn ++ [closedLineI ind s k pos]) pos false

theorem nextToken_skip (l l' : Lexer) (hb : l.beginLex = false) (hb' : l'.beginLex = false)
    (h : skipBlank l = skipBlank l') : nextToken l = nextToken l' := by
  unfold nextToken preNextToken
  simp only [hb, hb', Bool.false_eq_true, ↓reduceIte, h]

/-- **a token**: the cursor is on the first character of an item -/
theorem nextToken_tok (it : Item) (hw : it.WF0) (rest : List Nat) (he : it.Ends rest) (l : Lexer) (hb : l.beginLex = false)
    (h : here l = it.spelling ++ rest) :
    nextToken l = (.ok (it.token l.cursor), l.setCursor (l.cursor + it.spelling.length)) := by
  obtain ⟨c, sp, hsp, hsolid, _, _⟩ := spelling_head0 it hw
  have hc : l.cur = c := by
    have : here l = c :: (sp ++ rest) := by rw [h, hsp]; rfl
    exact (here_cons this).1
  rw [nextToken_later l hb (by rw [hc]; exact hsolid)]
  exact dispatch_item_ends it hw rest he l h

/-- **the end of the text** -/
theorem nextToken_end (ind : Indent) (src : Array Nat) (ity : Nat) (dn : List LineInfo) (s k pos : Nat)
    (hity : ItyOKI ind ity k) (hpos : s + ind.width * k ≤ pos) (hle : pos ≤ src.size)
    (h : here (bst src ity dn s k pos) = []) :
    nextToken (bst src ity dn s k pos) =
      (.ok { type := cTypeEOF, startIdx := pos, endIdx := pos }, fstI ind src ity dn s k pos) := by
  obtain ⟨h0, hsz⟩ := here_nil h
  have hsz' : src.size ≤ pos := hsz
  rw [nextToken_later _ rfl (by rw [h0]; exact solid_zero.1), dispatch_eof _ h]
  unfold parseEOF
  have hsl := sliceLastLine_bstI ind src ity dn s k pos pos false hity hpos hle
  show (match sliceLastLine (lx src ity (dn ++ [openLine s k]) pos false) pos with
    | none => (LexRes.panic, bst src ity dn s k pos)
    | some l' => (.ok (⟨cTypeEOF, [], pos, pos⟩ : Token), l')) = _
  rw [hsl]
  rfl

/-- **after the end**: EOF again, nothing changes -/
theorem nextToken_end_again (ind : Indent) (src : Array Nat) (ity : Nat) (dn : List LineInfo) (s k pos : Nat)
    (hity : ItyOKI ind ity k) (hpos : s + ind.width * k ≤ pos) (hsize : src.size = pos) :
    nextToken (fstI ind src ity dn s k pos) =
      (.ok { type := cTypeEOF, startIdx := pos, endIdx := pos }, fstI ind src ity dn s k pos) := by
  have hh : here (fstI ind src ity dn s k pos) = [] := by
    show src.toList.drop pos = []
    apply List.drop_eq_nil_of_le; simp; omega
  rw [nextToken_later _ rfl (by rw [(here_nil hh).1]; exact solid_zero.1), dispatch_eof _ hh]
  have hstart : lastLineStart (fstI ind src ity dn s k pos) = some (s + ind.width * k) := by
    unfold fstI
    rw [lastLineStart_lx]
    rcases hity with h | ⟨h, hk⟩
    · subst h; cases ind <;> simp [cIndentTab, cIndentSpace, closedLineI, Indent.code, Indent.width]
    · subst h; subst hk; simp [cIndentUnknown, cIndentTab, cIndentSpace, closedLineI]
  unfold parseEOF sliceLastLine
  rw [hstart]
  have hcond : (decide (s + ind.width * k > (fstI ind src ity dn s k pos).cursor) ||
      decide ((fstI ind src ity dn s k pos).cursor > (fstI ind src ity dn s k pos).src.size)) = false := by
    simp [fstI, lx]; omega
  simp only [hcond, Bool.false_eq_true, ↓reduceIte]
  simp only [fstI, lx, List.size_toArray, List.length_append, List.length_cons, List.length_nil, Nat.zero_add,
    Nat.add_one_sub_one, List.modify_toArray, modify_last, closedLineI]

/-- **the beginning of the text**: `parseBeginLex` records the first line and its indentation; from there on the fresh lexer does what
the lexer between two tokens does -/
theorem nextToken_begin (ind : Indent) (src : List Nat) (k0 : Nat) (tl : List Nat) (h0 : src.headD 0 ≠ 0)
    (h : src = units ind k0 ++ tl) (htl : IndentOK ind k0 tl) :
    nextToken (mkLexer src) = nextToken (bst src.toArray (ityAfterI ind cIndentUnknown k0) [] 0 k0 (ind.width * k0)) := by
  have hl1 : ({ mkLexer src with beginLex := false } : Lexer).pushLine { indents := 0, startIdx := 0 } =
      bst src.toArray cIndentUnknown [] 0 0 0 := rfl
  have hhere : here (bst src.toArray cIndentUnknown [] 0 0 0) = units ind k0 ++ tl := by
    show src.toArray.toList.drop 0 = _
    simp [h]
  have hch : ({ mkLexer src with beginLex := false } : Lexer).getChar 0 = (bst src.toArray cIndentUnknown [] 0 0 0).cur := rfl
  have hcur0 : (bst src.toArray cIndentUnknown [] 0 0 0).cur = src.headD 0 := by
    apply here_headD
    show src.toArray.toList.drop 0 = _
    simp
  have hcount := count_units ind (bst src.toArray cIndentUnknown [] 0 0 0) k0 tl hhere htl
  have hr1 : (bst src.toArray cIndentUnknown [] 0 0 0).setCursor ((bst src.toArray cIndentUnknown [] 0 0 0).cursor + ind.width * k0) =
      bst src.toArray cIndentUnknown [] 0 0 (ind.width * k0) := by
    simp [bst, lx, Lexer.setCursor]
  rw [hr1] at hcount
  have hjudge : (bst src.toArray cIndentUnknown [] 0 0 0).cur = (if k0 = 0 then tl.headD 0 else ind.char) := by
    rw [here_headD hhere]
    by_cases hk : k0 = 0
    · subst hk; simp [units]
    · simp only [hk, ↓reduceIte]
      obtain ⟨_, _, hw⟩ := indent_char_facts ind
      obtain ⟨j, hj⟩ : ∃ j, ind.width * k0 = j + 1 := ⟨ind.width * k0 - 1, by
        have : 0 < ind.width * k0 := Nat.mul_pos hw (by omega)
        omega⟩
      unfold units; rw [hj]; simp [List.replicate_succ]
  have hset := setIndentType_units ind (bst src.toArray cIndentUnknown [] 0 0 (ind.width * k0)) k0 (tl.headD 0)
    (Or.inr rfl) (fun hk => ⟨(htl.2 hk).2, (htl.2 hk).1⟩)
  rw [← hjudge] at hset
  have hbegin : parseBeginLex { mkLexer src with beginLex := false } =
      (.ok (), bst src.toArray (ityAfterI ind cIndentUnknown k0) [] 0 k0 (ind.width * k0)) := by
    unfold parseBeginLex
    simp only [hch, hl1]
    have hne : ((bst src.toArray cIndentUnknown [] 0 0 0).cur == runeEOF) = false := by
      rw [hcur0]; simpa [runeEOF] using h0
    simp only [hne, Bool.false_eq_true, ↓reduceIte]
    by_cases hk : k0 = 0
    · subst hk
      have : ((bst src.toArray cIndentUnknown [] 0 0 0).cur == runeTAB || (bst src.toArray cIndentUnknown [] 0 0 0).cur == runeSP) = false := by
        rw [hjudge]
        obtain ⟨a, b⟩ := htl.2 rfl
        generalize tl.headD 0 = x at a b
        simp [a, b]
      simp only [this, Bool.false_eq_true, ↓reduceIte]
      rfl
    · have hc : (bst src.toArray cIndentUnknown [] 0 0 0).cur = ind.char := by rw [hjudge]; simp [hk]
      have hor : ((bst src.toArray cIndentUnknown [] 0 0 0).cur == runeTAB || (bst src.toArray cIndentUnknown [] 0 0 0).cur == runeSP) = true := by
        rw [hc]; cases ind <;> decide
      have hor' : ((bst src.toArray cIndentUnknown [] 0 0 0).cur == runeSP || (bst src.toArray cIndentUnknown [] 0 0 0).cur == runeTAB) = true := by
        rw [hc]; cases ind <;> decide
      simp only [hor', ↓reduceIte] at hcount
      simp only [hor, ↓reduceIte, hcount, hset]
      rfl
  have hpre : preNextToken (mkLexer src) = skipBlank (bst src.toArray (ityAfterI ind cIndentUnknown k0) [] 0 k0 (ind.width * k0)) := by
    unfold preNextToken
    have : (mkLexer src).beginLex = true := rfl
    simp only [this, ↓reduceIte, hbegin]
  unfold nextToken
  rw [hpre]
  unfold preNextToken
  have hb : (bst src.toArray (ityAfterI ind cIndentUnknown k0) [] 0 k0 (ind.width * k0)).beginLex = false := rfl
  simp only [hb, Bool.false_eq_true, ↓reduceIte]

end ZnVerif.Proofs.RenderLex
