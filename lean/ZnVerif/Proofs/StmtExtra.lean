/-
Token-level round trip with layout, part 6b: the block form of 令, and 导入 statements.
-/
import ZnVerif.Proofs.StmtDecl

namespace ZnVerif.Proofs.StmtRT
open ZnVerif.Model ZnVerif.Model.Parser ZnVerif.Generated.Tokens ZnVerif.Generated.ParserTables
open ZnVerif.Spec.StmtSyntax

variable {Y : Layout} {v : Variant}

-- ---- 令： --------------------------------------------------------------------------------------------------------------------

/-- `parseVDAssignPair` on `a、b 设为 e` -/
theorem vdPair_rt {asg : Token} {ids : List Ident} {ti : List Token} {e : Expr} {te : List Token}
    (hi : LinIds Y ids ti) (hasg : asg.type ∈ vdAssignKeywords) (he : LinE Y 1 e te) (hg : Y.Glued (ti ++ asg :: te))
    (a : Option Token) (rest : List Token) (ho : Y.InOrder (ti ++ asg :: (te ++ rest))) (hs : Stop Y F1 te rest) (m : Nat)
    (hm1 : ti.length + 1 ≤ m + 1) (hm2 : 16 * te.length + 16 ≤ m + 1) :
    parse v (layoutOps Y) (m + 2) .vdPair (S Y a (ti ++ asg :: (te ++ rest)) false) =
      .ok (vdTypeOf asg, ids, e) (Send Y te rest) := by
  have hf := linE_facts he
  have hasgc : asg.type ≠ cTypeCommaSep := by
    intro hh; rw [hh] at hasg; revert hasg; decide
  have hasgp : asg.type ∉ [cTypePauseCommaSep] := by
    intro hh; simp only [List.mem_cons, List.not_mem_nil, or_false] at hh; rw [hh] at hasg; revert hasg; decide
  show pVdPair v (layoutOps Y) (m + 1) _ _ = _
  unfold pVdPair
  have hsi : Stop Y [cTypePauseCommaSep] ti (asg :: (te ++ rest)) := ⟨hasgc, Or.inr hasgp⟩
  rw [bind_ok (ids_roundtrip (v := v) hi a (asg :: (te ++ rest)) [] (glued_take ti hg) ho hsi (m + 1) hm1)]
  unfold Send
  have hj : Y.jf ti.getLast? (Y.peek (asg :: (te ++ rest))) = false := glued_joint ti hg
  rw [hj]
  have hoa : Y.InOrder (asg :: (te ++ rest)) := inOrder_drop ti ho
  rw [bind_ok (tryConsume_hit m _ _ asg (te ++ rest) hasg hasgc hoa)]
  dsimp only
  have hb2 : Y.brk asg (Y.peek (te ++ rest)) = false := by
    rw [peek_append hf.1]
    have := glued_drop ti hg
    cases te with
    | nil => exact absurd rfl hf.1
    | cons u r => exact glued_head this
  rw [hb2, bind_ok (expr_roundtrip (v := v) he (glued_tail (glued_drop ti hg)) (some asg) rest (inOrder_tail hoa) hs (m + 1) hm2)]
  rfl

theorem linPairs_heads {d : Nat} {ps : List (Nat × List Ident × Expr)} {tp : List Token} (h : LinPairs Y d ps tp) :
    Heads Y d [cTypeIdentifier] tp := by
  cases h with
  | nil => exact heads_nil d _
  | cons asg ids ti e te ps tp hi hasg he hg hind hp hsep =>
    intro _
    have hfi := linIds_facts hi
    have : Y.peek ((ti ++ asg :: te) ++ tp) = Y.peek ti := by
      rw [List.append_assoc, peek_append hfi.1]
    rw [this]
    exact ⟨by simp [hfi.2], hind⟩

/-- the loop of the block form of 令 -/
theorem pairs_roundtrip {d : Nat} {ps : List (Nat × List Ident × Expr)} {tp : List Token} (h : LinPairs Y d ps tp) :
    ∀ (p1 : Option Token) (rest : List Token) (fl : Bool) (acc : List (Nat × List Ident × Expr)),
      Y.InOrder (tp ++ rest) → Brk Y tp rest → FollB Y d rest →
      Stable v Y (.varDeclLoop d acc) (S Y p1 (tp ++ rest) fl) (.ok (acc ++ ps) (S Y (lastTok p1 tp) rest (exitFl fl tp))) (fB tp) := by
  induction h with
  | nil =>
    intro p1 rest fl acc ho hb hf n' hn
    obtain ⟨m, rfl⟩ : ∃ m, n' = m + 1 := ⟨n' - 1, by unfold fB at hn; omega⟩
    show pVarDeclLoop v (layoutOps Y) m _ d acc _ = _
    unfold pVarDeclLoop
    rw [bind_ok (getS_S _)]
    simp only [List.nil_append, blockCond_false d p1 rest fl hf.ends, Bool.false_eq_true, if_false, List.append_nil,
      lastTok_nil, exitFl_nil]
    rfl
  | cons asg ids ti e te ps tp hi hasg he hg hind hp hsep ih =>
    intro p1 rest fl acc ho hb hf n' hn
    obtain ⟨m, rfl⟩ : ∃ m, n' = m + 3 := ⟨n' - 3, by unfold fB at hn; omega⟩
    have hfi := linIds_facts hi
    have hfe := linE_facts he
    have h1 : ti ++ asg :: te ≠ [] := by simp
    have el : (ti ++ asg :: te).getLast? = te.getLast? := getLast?_hdr ti asg hfe.1
    have e0 : ((ti ++ asg :: te) ++ tp) ++ rest = ti ++ asg :: (te ++ (tp ++ rest)) := by simp
    rw [e0] at ho ⊢
    obtain ⟨hlt, hfl⟩ := mem_shape p1 fl tp h1
    rw [hlt, hfl, el]
    have hafter : After Y d te.getLast? (tp ++ rest) := by
      have := after_mid (d := d) h1 hsep hb hf.toFoll (linPairs_heads hp) (by decide)
      rwa [el] at this
    have hpk : Y.peek (ti ++ asg :: (te ++ (tp ++ rest))) = Y.peek ti := peek_append hfi.1 _
    show pVarDeclLoop v (layoutOps Y) (m + 2) _ d acc _ = _
    unfold pVarDeclLoop
    rw [bind_ok (getS_S _)]
    have hbc : blockCond (layoutOps Y) d (S Y p1 (ti ++ asg :: (te ++ (tp ++ rest))) fl) = true :=
      blockCond_true d p1 _ fl (by rw [hpk, hfi.2]; decide) (by rw [hpk]; exact hind)
    simp only [hbc, if_true]
    rw [bind_ok (unsetFlag_S p1 _ fl),
      bind_ok (tryConsume_miss (m + 2) _ p1 _ false (Or.inr (by rw [hpk, hfi.2]; decide)) (by rw [hpk, hfi.2]; decide))]
    dsimp only
    have hlen : ti.length + 1 ≤ m + 1 ∧ 16 * te.length + 16 ≤ m + 1 ∧ fB tp ≤ m + 2 := by
      unfold fB at hn ⊢; simp only [List.length_cons, List.length_append] at hn; omega
    show (parse v (layoutOps Y) (m + 2) .vdPair >>= _) _ = _
    rw [bind_ok (vdPair_rt (v := v) hi hasg he hg p1 (tp ++ rest) ho (stop_of_after F1 hafter) m hlen.1 hlen.2.1), hafter.send,
      bind_ok (endOfStmt_flag _ _)]
    have := ih te.getLast? rest true (acc ++ [(vdTypeOf asg, ids, e)])
      (inOrder_drop te (inOrder_tail (inOrder_drop ti ho))) hb.right hf (m + 2) hlen.2.2
    show parse v (layoutOps Y) (m + 2) (.varDeclLoop d _) _ = _
    rw [this]
    simp

/-- `令：` and its pairs -/
theorem stmt_declBlock {d : Nat} {kw colon : Token} {ps : List (Nat × List Ident × Expr)} {tp : List Token}
    (hk : kw.type = cTypeDeclareW) (hcol : colon.type = cTypeFuncCall) (hg : Y.Glued [kw, colon]) (hind : Y.ind colon = d)
    (hne : tp ≠ []) (hp : LinPairs Y (d + 1) ps tp) :
    CStmt v Y d (.varDecl (Y.sl kw) ps) (kw :: colon :: tp) := by
  intro p1 rest fl ho ha n' hn
  obtain ⟨m, rfl⟩ : ∃ m, n' = m + 4 := ⟨n' - 4, by unfold fS at hn; omega⟩
  have el : (kw :: colon :: tp).getLast? = tp.getLast? := getLast?_append_ne [kw, colon] hne
  rw [el] at ha ⊢
  have e0 : (kw :: colon :: tp) ++ rest = kw :: colon :: (tp ++ rest) := rfl
  rw [e0] at ho ⊢
  refine statement_kw (Y := Y) (v := v) (m + 2) p1 fl kw _ (.varDecl 0 ps) _ rest (by rw [hk]; decide) (by rw [hk]; decide) ho ?_
  rw [stmtBody_decl _ _ _ _ _ hk]
  have hb1 : Y.brk kw (Y.peek (colon :: (tp ++ rest))) = false := glued_head hg
  rw [hb1]
  show pVarDecl v (layoutOps Y) (m + 2) _ _ = _
  unfold pVarDecl
  rw [bind_ok (tryConsume_hit (m + 1) _ _ colon _ (by simp [hcol]) (by rw [hcol]; decide) (inOrder_tail ho))]
  dsimp only
  have hh := linPairs_heads hp hne
  have hpk : Y.peek (tp ++ rest) = Y.peek tp := peek_append hne rest
  have hpt : (Y.peek tp).type = cTypeIdentifier := by simpa using hh.1
  have hb2 : Y.brk colon (Y.peek (tp ++ rest)) = false :=
    brk_after_open (by rw [hcol]; decide) (by rw [hpk, hpt]; decide)
  rw [hb2, bind_ok (expectBlockIndent_S colon _ false d hind (by rw [hpk]; exact hh.2))]
  dsimp only
  have := pairs_roundtrip (v := v) hp (some colon) rest false [] (inOrder_tail (inOrder_tail ho)) (brk_of_last ha.brk) ha.foll.inner
    (m + 2) (by unfold fS at hn; unfold fB; simp only [List.length_cons] at hn; omega)
  show (parse v (layoutOps Y) (m + 2) (.varDeclLoop (d + 1) []) >>= _) _ = _
  rw [bind_ok this, lastTok_ne _ hne, exitFl_ne _ hne]
  rfl

-- ---- 导入 ------------------------------------------------------------------------------------------------------------------

/-- token types that can follow a 导入 statement: the end of input, another 导入, the first token of the body -/
def afterImport : List Nat := cTypeEOF :: cTypeImportW :: cTypeInputW :: cTypeCatchErrorW :: stmtHeads

theorem afterImport_spec : ∀ ty ∈ afterImport, ty ≠ cTypeCommaSep ∧ ty ∉ [cTypeObjDotW, cTypeObjDotIIW] ∧
    ty ∉ [cTypePauseCommaSep] := by decide

theorem linImport_facts {im : Import} {t1 : List Token} (h : LinImport Y im t1) :
    ∃ kw r, t1 = kw :: r ∧ kw.type = cTypeImportW ∧ r ≠ [] := by
  cases h with
  | plain kw nm hk _ _ => exact ⟨kw, [nm], rfl, hk, by simp⟩
  | items kw nm dot ids ti hk _ _ _ _ => exact ⟨kw, nm :: dot :: ti, rfl, hk, by simp⟩

/-- the rendered 导入 node holds the line of its 导入 token -/
theorem linImport_line {im : Import} {kw : Token} {r : List Token} (h : LinImport Y im (kw :: r)) : im.line = Y.sl kw := by
  cases h <;> rfl

/-- `ParseImportStmt` after 导入: the node, its line still 0 (`ParseProgram` sets it afterwards) -/
theorem import_rt {im : Import} {kw : Token} {r : List Token} (h : LinImport Y im (kw :: r)) (rest : List Token)
    (ho : Y.InOrder (kw :: (r ++ rest))) (hnext : (Y.peek rest).type ∈ afterImport) (m : Nat) (hm : r.length + 1 ≤ m + 1) :
    parse v (layoutOps Y) (m + 2) .importStmt (S Y (some kw) (r ++ rest) (Y.brk kw (Y.peek (r ++ rest)))) =
      .ok { im with line := 0 } (S Y (kw :: r).getLast? rest (Y.jf (kw :: r).getLast? (Y.peek rest))) := by
  have hx := afterImport_spec _ hnext
  cases h with
  | plain _ nm hk hnm hg =>
    have e0 : [nm] ++ rest = nm :: rest := rfl
    rw [e0] at ho ⊢
    have hb1 : Y.brk kw (Y.peek (nm :: rest)) = false := glued_head hg
    rw [hb1]
    show pImportStmt v (layoutOps Y) (m + 1) _ _ = _
    unfold pImportStmt
    have hnc : nm.type ≠ cTypeCommaSep := by
      intro hh; rw [hh] at hnm; revert hnm; decide
    rw [bind_ok (tryConsume_hit m _ (some kw) nm rest hnm hnc (inOrder_tail ho))]
    dsimp only
    rw [bind_ok (tryConsume_miss (m + 1) _ (some nm) rest _ (Or.inr hx.2.1) hx.1)]
    rfl
  | items _ nm dot ids ti hk hnm hdot hi hg =>
    have hfi := linIds_facts hi
    have e0 : (nm :: dot :: ti) ++ rest = nm :: dot :: (ti ++ rest) := rfl
    rw [e0] at ho ⊢
    have hb1 : Y.brk kw (Y.peek (nm :: dot :: (ti ++ rest))) = false := glued_head hg
    rw [hb1]
    show pImportStmt v (layoutOps Y) (m + 1) _ _ = _
    unfold pImportStmt
    have hnc : nm.type ≠ cTypeCommaSep := by
      intro hh; rw [hh] at hnm; revert hnm; decide
    have hdc : dot.type ≠ cTypeCommaSep := by
      intro hh; rw [hh] at hdot; revert hdot; decide
    have ho1 := inOrder_tail ho
    rw [bind_ok (tryConsume_hit m _ (some kw) nm _ hnm hnc ho1)]
    dsimp only
    have hg1 := glued_tail hg
    have hb2 : Y.brk nm (Y.peek (dot :: (ti ++ rest))) = false := glued_head hg1
    rw [hb2, bind_ok (tryConsume_hit m _ (some nm) dot _ hdot hdc (inOrder_tail ho1))]
    dsimp only
    have hg2 : Y.Glued (dot :: ti) := glued_tail hg1
    have hb3 : Y.brk dot (Y.peek (ti ++ rest)) = false := by
      rw [peek_append hfi.1]
      cases ti with
      | nil => exact absurd rfl hfi.1
      | cons u r => exact glued_head hg2
    rw [hb3]
    have hids := ids_roundtrip (v := v) hi (some dot) rest [] (glued_tail hg2) (inOrder_tail (inOrder_tail ho1))
      ⟨hx.1, Or.inr hx.2.2⟩ (m + 1) (by simp only [List.length_cons] at hm; omega)
    show (parse v (layoutOps Y) (m + 1) (.commaIds []) >>= _) _ = _
    rw [bind_ok hids]
    have el : (kw :: nm :: dot :: ti).getLast? = ti.getLast? := getLast?_append_ne [kw, nm, dot] hfi.1
    rw [el]
    rfl

/-- the 导入 tokens of a token list -/
def importKws (ts : List Token) : List Token := ts.filter (fun t => t.type = cTypeImportW)

theorem linIds_no_importKw {ids : List Ident} {ts : List Token} (h : LinIds Y ids ts) : importKws ts = [] := by
  induction h with
  | one t ht => simp [importKws, ht]; decide
  | cons t p ids ts ht hp _ ih =>
    have h1 : decide (t.type = cTypeImportW) = false := by rw [ht]; decide
    have h2 : decide (p.type = cTypeImportW) = false := by rw [hp]; decide
    unfold importKws at ih ⊢
    rw [List.filter_cons, h1, List.filter_cons, h2]
    exact ih

/-- a rendered 导入 statement holds exactly one 导入 token, its first, and the node carries that token's line -/
theorem linImport_kw {im : Import} {t1 : List Token} (h : LinImport Y im t1) : (importKws t1).map Y.sl = [im.line] := by
  have hmem : ∀ (t : Token) (l : List Nat), t.type ∈ l → cTypeImportW ∉ l → decide (t.type = cTypeImportW) = false := by
    intro t l h1 h2
    simp only [decide_eq_false_iff_not]
    intro h; rw [h] at h1; exact h2 h1
  cases h with
  | plain kw nm hk hnm _ =>
    have h2 := hmem nm _ hnm (by decide)
    simp [importKws, List.filter_cons, hk, h2]
  | items kw nm dot ids ti hk hnm hdot hi _ =>
    have h2 := hmem nm _ hnm (by decide)
    have h3 := hmem dot _ hdot (by decide)
    have h4 := linIds_no_importKw hi
    unfold importKws at h4 ⊢
    rw [List.filter_cons, List.filter_cons, List.filter_cons, h2, h3, h4]
    simp [hk]

theorem sepRun_no_importKw {a : Option Token} {seps : List Token} (h : SepRun Y a seps) : importKws seps = [] := by
  induction h with
  | nil a => rfl
  | cons a t r ht _ _ ih =>
    have h1 : decide (t.type = cTypeImportW) = false := by rw [ht]; decide
    unfold importKws at ih ⊢
    rw [List.filter_cons, h1]
    exact ih

/-- the lines of the import nodes are the lines of the 导入 tokens, in order -/
theorem linImports_lines {d : Nat} {ims : List Import} {ti : List Token} (h : LinImports Y d ims ti) :
    ims.map (·.line) = (importKws ti).map Y.sl := by
  induction h with
  | nil => rfl
  | cons im t1 seps ims t2 h1 _ hs _ ih =>
    have := linImport_kw h1
    have hs' := sepRun_no_importKw hs
    unfold importKws at this ih hs' ⊢
    rw [List.filter_append, List.filter_append, hs', List.nil_append, List.map_append, this, List.map_cons, ih]
    rfl

theorem linImports_heads {d : Nat} {ims : List Import} {ti : List Token} (h : LinImports Y d ims ti) :
    Heads Y d [cTypeImportW] ti := by
  cases h with
  | nil => exact heads_nil d _
  | cons im t1 seps ims t2 h1 hind _ h2 =>
    intro _
    obtain ⟨kw, r, rfl, hk, _⟩ := linImport_facts h1
    exact ⟨by show kw.type ∈ _; simp [hk], hind⟩

/-- flag after the 导入 statements -/
def exitI (Y : Layout) (fl : Bool) (ti rest : List Token) : Bool := if ti = [] then fl else Y.jf ti.getLast? (Y.peek rest)

theorem exitI_cons (fl : Bool) {t1 : List Token} (h1 : t1 ≠ []) (t2 rest : List Token) :
    exitI Y (Y.jf t1.getLast? (Y.peek (t2 ++ rest))) t2 rest = exitI Y fl (t1 ++ t2) rest := by
  unfold exitI
  by_cases h2 : t2 = []
  · subst h2; simp [h1]
  · simp [h1, h2, getLast?_append_ne t1 h2]

/-- `for { tryConsume(；) }` after a 导入 statement: it swallows the run of `；` and stops at what follows — anything that is
not a `；`, or a `；` after a statement line break -/
theorem swallow_seps {a : Option Token} {seps : List Token} (h : SepRun Y a seps) :
    ∀ (rest : List Token) (k m : Nat), Y.InOrder (seps ++ rest) → (Y.peek rest).type ≠ cTypeCommaSep →
      ((Y.peek rest).type = cTypeStmtSep → Y.jf (lastTok a seps) (Y.peek rest) = true) → seps.length + 1 ≤ k →
      swallowAll (layoutOps Y) (m + 1) [cTypeStmtSep] k (S Y a (seps ++ rest) (Y.jf a (Y.peek (seps ++ rest)))) =
        .ok () (S Y (lastTok a seps) rest (Y.jf (lastTok a seps) (Y.peek rest))) := by
  induction h with
  | nil a =>
    intro rest k m _ hnc hstop hk
    obtain ⟨k', rfl⟩ : ∃ k', k = k' + 1 := ⟨k - 1, by simp only [List.length_nil] at hk; omega⟩
    rw [lastTok_nil] at hstop ⊢
    rw [List.nil_append]
    unfold swallowAll
    have hmiss : Y.jf a (Y.peek rest) = true ∨ (Y.peek rest).type ∉ [cTypeStmtSep] := by
      by_cases hty : (Y.peek rest).type = cTypeStmtSep
      · exact Or.inl (hstop hty)
      · exact Or.inr (by simpa using hty)
    rw [bind_ok (tryConsume_miss (m + 1) _ a rest _ hmiss hnc)]
    rfl
  | cons a t r ht hj _ ih =>
    intro rest k m ho hnc hstop hk
    obtain ⟨k', rfl⟩ : ∃ k', k = k' + 1 := ⟨k - 1, by simp only [List.length_cons] at hk; omega⟩
    have e0 : (t :: r) ++ rest = t :: (r ++ rest) := rfl
    rw [e0] at ho ⊢
    have hpk : Y.peek (t :: (r ++ rest)) = t := rfl
    rw [hpk, hj]
    unfold swallowAll
    rw [bind_ok (tryConsume_hit m _ a t (r ++ rest) (by simp [ht]) (by rw [ht]; decide) ho)]
    dsimp only
    rw [lastTok_cons] at hstop ⊢
    exact ih rest k' m (inOrder_tail ho) hnc hstop (by simp only [List.length_cons] at hk; omega)

theorem sepRun_all {a : Option Token} {seps : List Token} (h : SepRun Y a seps) : ∀ t ∈ seps, t.type = cTypeStmtSep := by
  induction h with
  | nil a => intro t ht; cases ht
  | cons a t r ht _ _ ih =>
    intro u hu
    rcases List.mem_cons.mp hu with rfl | hu
    · exact ht
    · exact ih u hu

/-- `ParseProgram`'s loop over the 导入 statements: it comes to the same loop after them, with the imports collected -/
theorem imports_roundtrip {d : Nat} {ims : List Import} {ti : List Token} (h : LinImports Y d ims ti) :
    ∀ (p1 : Option Token) (rest : List Token) (fl : Bool) (acc : List Import) (r : Res (List Token) Program) (n : Nat),
      Y.InOrder (ti ++ rest) → (Y.peek rest).type ∈ afterImport →
      ((Y.peek rest).type = cTypeStmtSep → Y.jf (lastTok p1 ti) (Y.peek rest) = true) →
      Stable v Y (.programLoop d false (acc ++ ims) none) (S Y (lastTok p1 ti) rest (exitI Y fl ti rest)) r n →
      Stable v Y (.programLoop d false acc none) (S Y p1 (ti ++ rest) fl) r (n + 16 * ti.length) := by
  induction h with
  | nil =>
    intro p1 rest fl acc r n ho hnext _ hk
    rw [List.append_nil] at hk
    exact Stable.mono hk (Nat.le_add_right _ _)
  | cons im t1 seps ims t2 h1 hind hsr h2 ih =>
    intro p1 rest fl acc r n ho hnext hsep hk n' hn
    obtain ⟨kw, t1r, rfl, hkw, hne⟩ := linImport_facts h1
    have hlen1 := List.length_pos_iff.mpr hne
    obtain ⟨m, rfl⟩ : ∃ m, n' = m + 3 := ⟨n' - 3, by simp only [List.length_append, List.length_cons] at hn; omega⟩
    have e0 : ((kw :: t1r) ++ (seps ++ t2)) ++ rest = kw :: (t1r ++ (seps ++ (t2 ++ rest))) := by simp
    rw [e0] at ho ⊢
    have hkc : kw.type ≠ cTypeCommaSep := by rw [hkw]; decide
    show pProgramLoop (layoutOps Y) (m + 2) _ d false acc none _ = _
    unfold pProgramLoop
    rw [bind_ok (getS_S _)]
    have hbc : blockCond (layoutOps Y) d (S Y p1 (kw :: (t1r ++ (seps ++ (t2 ++ rest)))) fl) = true :=
      blockCond_true d p1 _ fl (by show kw.type ≠ _; rw [hkw]; decide) hind
    simp only [hbc, if_true]
    rw [bind_ok (unsetFlag_S p1 _ fl)]
    simp only [Bool.false_eq_true, if_false]
    rw [bind_ok (tryConsume_hit (m + 1) _ p1 kw _ (by simp [hkw]) hkc ho)]
    dsimp only
    -- what follows the 导入 statement and its `；`: the next 导入, or what follows the import section
    have hnext2 : (Y.peek (t2 ++ rest)).type ∈ afterImport ∧ (Y.peek (t2 ++ rest)).type ≠ cTypeCommaSep := by
      by_cases h2e : t2 = []
      · subst h2e; exact ⟨hnext, (afterImport_spec _ hnext).1⟩
      · have := (linImports_heads h2 h2e).1
        rw [peek_append h2e]
        simp only [List.mem_cons, List.not_mem_nil, or_false] at this
        rw [this]; exact ⟨by decide, by decide⟩
    have hnext' : (Y.peek (seps ++ (t2 ++ rest))).type ∈ afterImport := by
      cases seps with
      | nil => exact hnext2.1
      | cons t r =>
        have := sepRun_all hsr t (List.mem_cons_self ..)
        show t.type ∈ afterImport
        rw [this]; decide
    have himp := import_rt (v := v) h1 (seps ++ (t2 ++ rest)) ho hnext' m
      (by simp only [List.length_append, List.length_cons] at hn; omega)
    show (parse v (layoutOps Y) (m + 2) .importStmt >>= _) _ = _
    rw [bind_ok himp, bind_ok (lineOf_S kw _)]
    have hline : ({ ({ im with line := 0 } : Import) with line := Y.sl kw } : Import) = im := by
      rw [← linImport_line h1]
    rw [hline]
    -- the `；` after it
    have hT : lastTok (kw :: t1r).getLast? seps = ((kw :: t1r) ++ seps).getLast? := by
      rw [← lastTok_ne p1 (by simp : (kw :: t1r) ++ seps ≠ []), lastTok_append, lastTok_ne p1 (by simp : kw :: t1r ≠ [])]
    have hstop : (Y.peek (t2 ++ rest)).type = cTypeStmtSep → Y.jf (lastTok (kw :: t1r).getLast? seps) (Y.peek (t2 ++ rest)) = true := by
      intro hty
      by_cases h2e : t2 = []
      · subst h2e
        have := hsep hty
        rw [List.append_nil, lastTok_append, lastTok_ne p1 (by simp : kw :: t1r ≠ [])] at this
        exact this
      · have := (linImports_heads h2 h2e).1
        rw [peek_append h2e] at hty
        simp only [List.mem_cons, List.not_mem_nil, or_false] at this
        rw [this] at hty
        exact absurd hty (by decide)
    have hsw := swallow_seps hsr (t2 ++ rest) (m + 2) (m + 1) (inOrder_drop t1r (inOrder_tail ho)) hnext2.2 hstop
      (by simp only [List.length_append, List.length_cons] at hn; omega)
    rw [bind_ok hsw, hT]
    have hk' : Stable v Y (.programLoop d false ((acc ++ [im]) ++ ims) none)
        (S Y (lastTok ((kw :: t1r) ++ seps).getLast? t2) rest
          (exitI Y (Y.jf ((kw :: t1r) ++ seps).getLast? (Y.peek (t2 ++ rest))) t2 rest)) r n := by
      rw [exitI_cons fl (by simp : (kw :: t1r) ++ seps ≠ []) t2 rest, List.append_assoc, List.append_assoc]
      rw [← List.append_assoc (kw :: t1r) seps t2, lastTok_append,
        lastTok_ne p1 (by simp : (kw :: t1r) ++ seps ≠ [])] at hk
      rw [List.append_assoc (kw :: t1r) seps t2] at hk
      exact hk
    have hsep' : (Y.peek rest).type = cTypeStmtSep → Y.jf (lastTok ((kw :: t1r) ++ seps).getLast? t2) (Y.peek rest) = true := by
      intro hty
      have := hsep hty
      rw [← List.append_assoc (kw :: t1r) seps t2, lastTok_append,
        lastTok_ne p1 (by simp : (kw :: t1r) ++ seps ≠ [])] at this
      exact this
    exact ih ((kw :: t1r) ++ seps).getLast? rest _ (acc ++ [im]) r n
      (inOrder_drop seps (inOrder_drop t1r (inOrder_tail ho))) hnext hsep' hk' (m + 2)
      (by simp only [List.length_append, List.length_cons] at hn; omega)

end ZnVerif.Proofs.StmtRT
