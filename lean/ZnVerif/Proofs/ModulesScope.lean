/-
Helper lemmas for C15: scopes of modules.

* scope discipline: every symbol of a scope is at most as deep as the scope (`WF`); a `begin … end` bracket restores a
  well-formed scope exactly, so a method or constructor call leaves every scope as it found it (`useName_scopes`);
* what the loader leaves behind in the scope of a module: the imported names (depth 0, constants, each with the id of
  the module it came from) and, for a module that has been loaded by an import, its own methods and types one level
  above them.
-/
import ZnVerif.Proofs.ModulesLoad

namespace ZnVerif.Proofs.Modules
open ZnVerif.Model.Modules

/-! ### one scope -/

def WF (s : Scope) : Prop := ∀ y, y ∈ s.locals → y.depth ≤ s.depth

theorem dropWhile_eq_self {α} {p : α → Bool} : ∀ {l : List α}, (∀ y, y ∈ l → p y = false) → l.dropWhile p = l
  | [], _ => rfl
  | a :: l, h => by
    have := h a (List.mem_cons_self ..)
    simp [List.dropWhile, this]

theorem dropWhile_append_all {α} {p : α → Bool} : ∀ {l1 l2 : List α}, (∀ y, y ∈ l1 → p y = true) →
    (l1 ++ l2).dropWhile p = l2.dropWhile p
  | [], _, _ => rfl
  | a :: l1, l2, h => by
    have ha := h a (List.mem_cons_self ..)
    simp only [List.cons_append, List.dropWhile, ha]
    exact dropWhile_append_all (fun y hy => h y (List.mem_cons_of_mem _ hy))

theorem wf_new : WF Scope.new := by intro y hy; cases hy

theorem wf_begin {s : Scope} (h : WF s) : WF s.begin := by
  intro y hy
  have := h y hy
  simp only [Scope.begin] at hy ⊢
  omega

theorem Scope.ext' {a b : Scope} (h1 : a.locals = b.locals) (h2 : a.depth = b.depth) (h3 : a.extRefs = b.extRefs) :
    a = b := by
  cases a; cases b; simp_all

theorem end_begin {s : Scope} (h : WF s) : s.begin.end = s := by
  apply Scope.ext'
  · simp only [Scope.begin, Scope.end]
    apply dropWhile_eq_self
    intro y hy
    have := h y hy
    simp; omega
  · simp only [Scope.begin, Scope.end]; omega
  · rfl

/-- symbols declared one level above a well-formed scope are exactly what the closing `end` removes -/
theorem end_pops {s : Scope} (h : WF s) (top : List Sym) (htop : ∀ y, y ∈ top → y.depth = s.depth + 1) :
    ({ s with locals := top ++ s.locals, depth := s.depth + 1 } : Scope).end = s := by
  apply Scope.ext'
  · simp only [Scope.end]
    rw [dropWhile_append_all]
    · apply dropWhile_eq_self
      intro y hy
      have := h y hy
      simp; omega
    · intro y hy
      have := htop y hy
      simp; omega
  · simp only [Scope.end]; omega
  · rfl

/-! ### the scope table -/

def lookS (vm : VM) (k : Nat) : Option Scope := assoc k vm.scopes

theorem lookS_setScope (vm : VM) (m : Nat) (s : Scope) (k : Nat) :
    lookS (vm.setScope m s) k = if k = m then some s else lookS vm k := by
  unfold lookS VM.setScope
  exact assoc_aset m k s vm.scopes

theorem lookS_pushFrame (vm : VM) (m k : Nat) :
    lookS (vm.pushFrame m) k = if k = m then some ((lookS vm m).getD Scope.new) else lookS vm k := by
  unfold lookS VM.pushFrame
  dsimp only
  cases h : assoc m vm.scopes with
  | some s =>
    by_cases hk : k = m
    · subst hk; simp [h]
    · simp [hk]
  | none =>
    dsimp only
    rw [assoc_aset]
    by_cases hk : k = m
    · simp [hk]
    · simp [hk]

theorem curScope_of {vm : VM} {m : Nat} {s : Scope} (hcs : vm.cs = some m) (hs : lookS vm m = some s) :
    vm.curScope = some (m, s) := by
  unfold VM.curScope
  unfold lookS at hs
  rw [hcs]; dsimp only; rw [hs]

theorem lookS_beginScope {vm : VM} {m : Nat} {s : Scope} (hcs : vm.cs = some m) (hs : lookS vm m = some s) (k : Nat) :
    lookS vm.beginScope k = if k = m then some s.begin else lookS vm k := by
  unfold VM.beginScope
  rw [curScope_of hcs hs]
  exact lookS_setScope vm m s.begin k

theorem lookS_endScope {vm : VM} {m : Nat} {s : Scope} (hcs : vm.cs = some m) (hs : lookS vm m = some s) (k : Nat) :
    lookS vm.endScope k = if k = m then some s.end else lookS vm k := by
  unfold VM.endScope
  rw [curScope_of hcs hs]
  exact lookS_setScope vm m s.end k

@[simp] theorem lookS_display (vm : VM) (x k : Nat) : lookS (vm.display x) k = lookS vm k := rfl
@[simp] theorem lookS_record (vm : VM) (e : Ev) (k : Nat) : lookS (vm.record e) k = lookS vm k := rfl

theorem lookS_popFrame {vm vm' : VM} (h : vm.popFrame = some vm') (k : Nat) : lookS vm' k = lookS vm k := by
  unfold VM.popFrame at h
  split at h
  · cases h
  · cases h; rfl

theorem modules_popFrame {vm vm' : VM} (h : vm.popFrame = some vm') : vm'.modules = vm.modules := by
  unfold VM.popFrame at h
  split at h
  · cases h
  · cases h; rfl

@[simp] theorem modules_beginScope (vm : VM) : vm.beginScope.modules = vm.modules := by
  unfold VM.beginScope; split <;> rfl
@[simp] theorem modules_endScope (vm : VM) : vm.endScope.modules = vm.modules := by
  unfold VM.endScope; split <;> rfl
@[simp] theorem modules_pushFrame (vm : VM) (m : Nat) : (vm.pushFrame m).modules = vm.modules := rfl
@[simp] theorem modules_display (vm : VM) (k : Nat) : (vm.display k).modules = vm.modules := rfl
@[simp] theorem modules_record (vm : VM) (e : Ev) : (vm.record e).modules = vm.modules := rfl
@[simp] theorem modules_setScope (vm : VM) (m : Nat) (s : Scope) : (vm.setScope m s).modules = vm.modules := rfl

/-- scopes that exist stay as they are; a scope that did not exist may have been created empty -/
def ScopesSame (vm vm' : VM) : Prop :=
  ∀ k, lookS vm' k = lookS vm k ∨ (lookS vm k = none ∧ lookS vm' k = some Scope.new)

theorem ScopesSame.rfl' (vm : VM) : ScopesSame vm vm := fun _ => Or.inl rfl

theorem ScopesSame.trans {a b c : VM} (h1 : ScopesSame a b) (h2 : ScopesSame b c) : ScopesSame a c := by
  intro k
  rcases h1 k with e1 | ⟨n1, e1⟩ <;> rcases h2 k with e2 | ⟨n2, e2⟩
  · exact Or.inl (e2.trans e1)
  · exact Or.inr ⟨e1 ▸ n2, e2⟩
  · exact Or.inr ⟨n1, e2.trans e1⟩
  · rw [e1] at n2; cases n2

theorem ScopesSame.of_eq {vm vm' : VM} (h : ∀ k, lookS vm' k = lookS vm k) : ScopesSame vm vm' :=
  fun k => Or.inl (h k)

theorem ScopesSame.keep {vm vm' : VM} (h : ScopesSame vm vm') {k : Nat} {s : Scope} (hs : lookS vm k = some s) :
    lookS vm' k = some s := by
  rcases h k with e | ⟨n, _⟩
  · rw [e, hs]
  · rw [hs] at n; cases n

def AllWF (vm : VM) : Prop := ∀ k s, lookS vm k = some s → WF s

theorem AllWF.of_same {vm vm' : VM} (h : AllWF vm) (hs : ScopesSame vm vm') : AllWF vm' := by
  intro k s hk
  rcases hs k with e | ⟨_, e⟩
  · exact h k s (e ▸ hk)
  · rw [e] at hk; injection hk with hk; subst hk; exact wf_new

/-- the current module is the one on top of the call stack and every frame's module has a scope -/
structure Disc (vm : VM) : Prop where
  cs : vm.cs = vm.stack.head?
  hasScope : ∀ m, m ∈ vm.stack → lookS vm m ≠ none

theorem Disc.cur {vm : VM} (h : Disc vm) {m : Nat} (hcs : vm.cs = some m) : ∃ s, lookS vm m = some s := by
  have : m ∈ vm.stack := by
    have := h.cs; rw [hcs] at this
    cases hst : vm.stack with
    | nil => rw [hst] at this; cases this
    | cons a r => rw [hst] at this; simp at this; subst this; exact List.mem_cons_self ..
  cases hl : lookS vm m with
  | none => exact absurd hl (h.hasScope m this)
  | some s => exact ⟨s, rfl⟩

theorem disc_pushFrame (vm : VM) (m : Nat) (h : ∀ x, x ∈ vm.stack → lookS vm x ≠ none) : Disc (vm.pushFrame m) := by
  constructor
  · rfl
  · intro x hx
    rw [lookS_pushFrame]
    by_cases hk : x = m
    · simp [hk]
    · simp only [hk, if_false]
      rcases List.mem_cons.1 hx with rfl | hx
      · exact absurd rfl hk
      · exact h x hx

/-! ### a call leaves every scope as it found it -/

/-- scope part of the frame property of a step that may fail -/
def StepScopes (vm : VM) (r : Res VM) : Prop :=
  match r with
  | .ok vm' => ScopesSame vm vm' ∧ vm'.modules = vm.modules
  | .err _ _ => True

theorem runUses_scopes (rec : VM → Use → Res VM)
    (hrec : ∀ vm u, Disc vm → AllWF vm → StepScopes vm (rec vm u))
    (hfr : ∀ vm u, StepFrame vm (rec vm u)) :
    ∀ (us : List Use) (vm : VM), Disc vm → AllWF vm → StepScopes vm (runUses rec vm us)
  | [], vm, _, _ => ⟨ScopesSame.rfl' _, rfl⟩
  | u :: us, vm, hd, hw => by
    unfold runUses
    have h1 := hrec vm u hd hw
    have f1 := hfr vm u
    cases hr : rec vm u with
    | err e vm' => trivial
    | ok vm1 =>
      rw [hr] at h1 f1
      dsimp only
      obtain ⟨s1, m1⟩ := h1
      obtain ⟨_, st1, cs1⟩ := f1
      have hd1 : Disc vm1 := by
        constructor
        · rw [cs1 hd.cs, st1]; exact hd.cs
        · intro m hm; rw [st1] at hm
          cases hl : lookS vm m with
          | none => exact absurd hl (hd.hasScope m hm)
          | some s => rw [s1.keep hl]; simp
      have h2 := runUses_scopes rec hrec hfr us vm1 hd1 (hw.of_same s1)
      cases hr2 : runUses rec vm1 us with
      | err e vm' => trivial
      | ok vm2 =>
        rw [hr2] at h2
        exact ⟨s1.trans h2.1, h2.2.trans m1⟩

/-- shared tail of a method call and a constructor call -/
theorem call_tail_scopes {vm : VM} {home : Nat} {us : List Use} (rec : VM → Use → Res VM)
    (hrec : ∀ vm u, Disc vm → AllWF vm → StepScopes vm (rec vm u))
    (hfr : ∀ vm u, StepFrame vm (rec vm u)) (mark : Nat) (conv : Err → Err)
    (hd : Disc vm) (hw : AllWF vm) :
    StepScopes vm (match runUses rec (((vm.pushFrame home).beginScope.beginScope).display mark) us with
      | .err e vm' => .err (conv e) vm'
      | .ok vm3 => match (vm3.endScope.endScope).popFrame with
        | none => .err .panic vm3
        | some vm4 => .ok vm4) := by
  -- the scope of `home` after the frame is pushed
  have hd1 : Disc (vm.pushFrame home) := disc_pushFrame vm home hd.hasScope
  obtain ⟨s1, hs1⟩ := hd1.cur (pushFrame_cs vm home)
  have hs1' : s1 = (lookS vm home).getD Scope.new := by
    rw [lookS_pushFrame] at hs1; simpa using hs1.symm
  have hwf1 : WF s1 := by
    rw [hs1']
    cases hl : lookS vm home with
    | none => exact wf_new
    | some s => exact hw home s hl
  have same1 : ScopesSame vm (vm.pushFrame home) := by
    intro k
    rw [lookS_pushFrame]
    by_cases hk : k = home
    · subst hk
      cases hl : lookS vm k with
      | none => exact Or.inr ⟨rfl, by simp⟩
      | some s => exact Or.inl (by simp)
    · exact Or.inl (by simp [hk])
  -- after the two scope levels
  have hb1 : ∀ k, lookS (vm.pushFrame home).beginScope k = if k = home then some s1.begin else lookS (vm.pushFrame home) k :=
    lookS_beginScope (pushFrame_cs vm home) hs1
  have hcsb : (vm.pushFrame home).beginScope.cs = some home := by simp
  have hsb : lookS (vm.pushFrame home).beginScope home = some s1.begin := by rw [hb1]; simp
  have hb2 := lookS_beginScope hcsb hsb
  generalize hvm2 : (((vm.pushFrame home).beginScope.beginScope).display mark) = vm2
  have l2 : ∀ k, lookS vm2 k = if k = home then some s1.begin.begin else lookS (vm.pushFrame home) k := by
    intro k
    rw [← hvm2, lookS_display, hb2, hb1]
    by_cases hk : k = home <;> simp [hk]
  have st2 : vm2.stack = home :: vm.stack := by rw [← hvm2]; simp
  have cs2 : vm2.cs = some home := by rw [← hvm2]; simp
  have hd2 : Disc vm2 := by
    constructor
    · rw [cs2, st2]; rfl
    · intro m hm
      rw [l2]
      by_cases hk : m = home
      · simp [hk]
      · simp only [hk, if_false]
        rw [st2] at hm
        exact hd1.hasScope m (by simpa using hm)
  have hw2 : AllWF vm2 := by
    intro k s hk
    rw [l2] at hk
    by_cases hkh : k = home
    · simp [hkh] at hk; subst hk; exact wf_begin (wf_begin hwf1)
    · simp only [hkh, if_false] at hk
      exact (hw.of_same same1) k s hk
  have m2 : vm2.modules = vm.modules := by rw [← hvm2]; simp
  have h3 := runUses_scopes rec hrec hfr us vm2 hd2 hw2
  have f3 := runUses_frame rec hfr us vm2
  cases hr : runUses rec vm2 us with
  | err e vm' => trivial
  | ok vm3 =>
    rw [hr] at h3 f3
    dsimp only
    obtain ⟨same3, m3⟩ := h3
    obtain ⟨_, st3, cs3⟩ := f3
    have cs3' : vm3.cs = some home := by rw [cs3 (by rw [cs2, st2]; rfl), cs2]
    have ls3 : lookS vm3 home = some s1.begin.begin := same3.keep (by rw [l2]; simp)
    have le1 := lookS_endScope cs3' ls3
    have hcse : vm3.endScope.cs = some home := by simp [cs3']
    have lse : lookS vm3.endScope home = some s1.begin := by
      rw [le1]; simp; exact end_begin (wf_begin hwf1)
    have le2 := lookS_endScope hcse lse
    cases hp : (vm3.endScope.endScope).popFrame with
    | none => trivial
    | some vm4 =>
      dsimp only
      refine ⟨?_, ?_⟩
      · intro k
        rw [lookS_popFrame hp, le2, le1]
        by_cases hk : k = home
        · subst hk
          simp only [if_true]
          rw [end_begin hwf1, hs1']
          cases hl : lookS vm k with
          | none => exact Or.inr ⟨rfl, rfl⟩
          | some s => exact Or.inl rfl
        · simp only [hk, if_false]
          rcases same3 k with e | ⟨n, e⟩
          · rw [e, l2]; simp only [hk, if_false]; exact same1 k
          · rw [l2] at n; simp only [hk, if_false] at n
            rw [e]
            rcases same1 k with e1 | ⟨n1, _⟩
            · rw [e1] at n; exact Or.inr ⟨n, rfl⟩
            · exact Or.inr ⟨n1, rfl⟩
      · rw [modules_popFrame hp]; simp [m3, m2]

theorem useName_scopes : ∀ (f : Nat) (vm : VM) (u : Use), Disc vm → AllWF vm → StepScopes vm (useName f vm u)
  | 0, vm, u, _, _ => by simp [useName, StepScopes]
  | f + 1, vm, .call n, hd, hw => by
    unfold useName
    cases hfw : vm.findWithModule n with
    | none => trivial
    | some p =>
      obtain ⟨v, home⟩ := p
      cases v with
      | fn d => exact call_tail_scopes (useName f) (useName_scopes f) (useName_frame f) d.mark methodErr hd hw
      | cls d h => trivial
      | native => trivial
  | f + 1, vm, .new n, hd, hw => by
    unfold useName
    cases hfe : vm.findElement n with
    | none => trivial
    | some v =>
      cases v with
      | cls d home => exact call_tail_scopes (useName f) (useName_scopes f) (useName_frame f) d.mark id hd hw
      | fn d => trivial
      | native => trivial

end ZnVerif.Proofs.Modules

namespace ZnVerif.Proofs.Modules
open ZnVerif.Model.Modules
open ZnVerif.Spec.ModuleSem (defsOf)

/-! ### effects of the declaring primitives -/

theorem disc_of_step {vm vm' : VM} (hd : Disc vm) (hst : vm'.stack = vm.stack) (hcs : vm'.cs = vm.cs)
    (hs : ∀ k, lookS vm k ≠ none → lookS vm' k ≠ none) : Disc vm' :=
  ⟨by rw [hcs, hst]; exact hd.cs, fun m hm => hs m (hd.hasScope m (hst ▸ hm))⟩

theorem ScopesSame.nonnone {vm vm' : VM} (h : ScopesSame vm vm') (k : Nat) (hk : lookS vm k ≠ none) :
    lookS vm' k ≠ none := by
  cases hl : lookS vm k with
  | none => exact absurd hl hk
  | some s => rw [h.keep hl]; simp

theorem exportsOf_addExport {vm vm' : VM} {m : Nat} {n : Name} {v : Val} (h : vm.addExport m n v = some vm') :
    vm'.exportsOf m = vm.exportsOf m ++ [(n, v)] ∧ (∀ k, k ≠ m → vm'.exportsOf k = vm.exportsOf k) ∧
      (∀ k, lookS vm' k = lookS vm k) ∧ assoc n (vm.exportsOf m) = none := by
  unfold VM.addExport at h
  split at h
  · cases h
  · rename_i md hmd
    split at h
    · cases h
    · rename_i hnone
      cases h
      have hlt : m < vm.modules.length := (List.getElem?_eq_some_iff.1 hmd).1
      refine ⟨?_, ?_, fun _ => rfl, ?_⟩
      · simp [VM.exportsOf, hmd, List.getElem?_set_self hlt]
      · intro k hk
        simp [VM.exportsOf, List.getElem?_set_ne (Ne.symm hk)]
      · simp [VM.exportsOf, hmd, hnone]

theorem declareConst_effect {vm vm' : VM} {m : Nat} {s : Scope} {n : Name} {v : Val} (hcs : vm.cs = some m)
    (hs : lookS vm m = some s) (h : vm.declareConst n v = .ok vm') :
    lookS vm' m = some { s with locals := ⟨n, s.depth, true, v⟩ :: s.locals } ∧
      (∀ k, k ≠ m → lookS vm' k = lookS vm k) ∧ vm'.modules = vm.modules ∧
      Scope.redeclaredIn s.depth n s.locals = false := by
  unfold VM.declareConst at h
  rw [curScope_of hcs hs] at h
  dsimp only at h
  unfold Scope.declare at h
  by_cases hr : Scope.redeclaredIn s.depth n s.locals = true
  · simp [hr] at h
  · simp only [hr] at h
    cases h
    refine ⟨?_, ?_, rfl, by simpa using hr⟩
    · rw [lookS_setScope]; simp
    · intro k hk; rw [lookS_setScope]; simp [hk]

def symOfDef (depth : Int) (m : Nat) (d : Def) : Sym := ⟨d.name, depth, true, valOfDef d m⟩

theorem defsOf_cons_defn (d : Def) (r : List Item) : defsOf (.defn d :: r) = d :: defsOf r := rfl
theorem defsOf_cons_marker (k : Nat) (r : List Item) : defsOf (.marker k :: r) = defsOf r := rfl
theorem defsOf_cons_use (u : Use) (r : List Item) : defsOf (.use u :: r) = defsOf r := rfl
theorem defsOf_cons_assign (n : Name) (r : List Item) : defsOf (.assign n :: r) = defsOf r := rfl

/-- what the hoisting pass leaves: the definitions on top of the current scope, and in the export table -/
theorem hoistDefs_effect : ∀ (items : List Item) (vm : VM) (m : Nat) (s : Scope), vm.cs = some m →
    lookS vm m = some s →
    match hoistDefs vm items with
    | .ok vm' =>
      lookS vm' m = some { s with locals := ((defsOf items).map (symOfDef s.depth m)).reverse ++ s.locals } ∧
      (∀ k, k ≠ m → lookS vm' k = lookS vm k) ∧
      vm'.exportsOf m = vm.exportsOf m ++ (defsOf items).map (fun d => (d.name, valOfDef d m)) ∧
      (∀ k, k ≠ m → vm'.exportsOf k = vm.exportsOf k) ∧ vm'.stack = vm.stack ∧ vm'.cs = vm.cs
    | .err _ _ => True
  | [], vm, m, s, _, hs => by
    simp [hoistDefs, defsOf, hs]
  | .defn d :: r, vm, m, s, hcs, hs => by
    unfold hoistDefs
    rw [hcs]
    dsimp only
    cases hd : vm.declareConst d.name (valOfDef d m) with
    | err e vm' => trivial
    | ok vm1 =>
      dsimp only
      obtain ⟨l1, o1, m1, _⟩ := declareConst_effect hcs hs hd
      have st1 := declareConst_stack hd
      cases ha : vm1.addExport m d.name (valOfDef d m) with
      | none => trivial
      | some vm2 =>
        dsimp only
        obtain ⟨e2, eo2, l2, _⟩ := exportsOf_addExport ha
        have st2 := addExport_stack ha
        have hcs2 : vm2.cs = some m := by rw [st2.2, st1.2, hcs]
        have hs2 : lookS vm2 m = some { s with locals := ⟨d.name, s.depth, true, valOfDef d m⟩ :: s.locals } := by
          rw [l2, l1]
        have ih := hoistDefs_effect r vm2 m _ hcs2 hs2
        cases hr : hoistDefs vm2 r with
        | err e vm' => trivial
        | ok vm3 =>
          rw [hr] at ih
          obtain ⟨i1, i2, i3, i4, i5, i6⟩ := ih
          refine ⟨?_, ?_, ?_, ?_, ?_, ?_⟩
          · rw [i1, defsOf_cons_defn]
            simp [symOfDef]
          · intro k hk; rw [i2 k hk, l2, o1 k hk]
          · rw [i3, e2, defsOf_cons_defn]
            have : vm1.exportsOf m = vm.exportsOf m := by simp [VM.exportsOf, m1]
            rw [this]; simp
          · intro k hk; rw [i4 k hk, eo2 k hk]; simp [VM.exportsOf, m1]
          · rw [i5, st2.1, st1.1]
          · rw [i6, st2.2, st1.2]; exact hcs
  | .marker _ :: r, vm, m, s, hcs, hs => by
    unfold hoistDefs; rw [defsOf_cons_marker]; exact hoistDefs_effect r vm m s hcs hs
  | .use _ :: r, vm, m, s, hcs, hs => by
    unfold hoistDefs; rw [defsOf_cons_use]; exact hoistDefs_effect r vm m s hcs hs
  | .assign _ :: r, vm, m, s, hcs, hs => by
    unfold hoistDefs; rw [defsOf_cons_assign]; exact hoistDefs_effect r vm m s hcs hs

theorem runItems_scopes (cf : Nat) : ∀ (items : List Item) (vm : VM), Disc vm → AllWF vm →
    StepScopes vm (runItems cf vm items)
  | [], vm, _, _ => ⟨ScopesSame.rfl' _, rfl⟩
  | .marker k :: r, vm, hd, hw => by
    unfold runItems
    have h := runItems_scopes cf r (vm.display k) (disc_of_step hd rfl rfl (fun _ h => h)) hw
    cases hr : runItems cf (vm.display k) r with
    | err e vm' => trivial
    | ok vm2 => rw [hr] at h; exact h
  | .defn _ :: r, vm, hd, hw => by
    unfold runItems; exact runItems_scopes cf r vm hd hw
  | .use u :: r, vm, hd, hw => by
    unfold runItems
    have h1 := useName_scopes cf vm u hd hw
    have f1 := useName_frame cf vm u
    cases hr : useName cf vm u with
    | err e vm' => trivial
    | ok vm1 =>
      rw [hr] at h1 f1
      dsimp only
      obtain ⟨s1, m1⟩ := h1
      obtain ⟨_, st1, cs1⟩ := f1
      have hd1 : Disc vm1 := disc_of_step hd st1 (cs1 hd.cs) s1.nonnone
      have h2 := runItems_scopes cf r vm1 hd1 (hw.of_same s1)
      cases hr2 : runItems cf vm1 r with
      | err e vm' => trivial
      | ok vm2 => rw [hr2] at h2; exact ⟨s1.trans h2.1, h2.2.trans m1⟩
  | .assign n :: r, vm, hd, hw => by
    unfold runItems
    cases vm.curScope with
    | none => trivial
    | some p =>
      dsimp only
      cases p.2.setValueCode n with
      | some c => trivial
      | none => exact runItems_scopes cf r vm hd hw

end ZnVerif.Proofs.Modules

namespace ZnVerif.Proofs.Modules
open ZnVerif.Model.Modules
open ZnVerif.Spec.ModuleSem (defsOf)

theorem exportsOf_congr' {vm vm' : VM} (h : vm'.modules = vm.modules) (k : Nat) : vm'.exportsOf k = vm.exportsOf k := by
  simp [VM.exportsOf, h]

def ExpNodup (vm : VM) : Prop := ∀ k, ((vm.exportsOf k).map (fun p => p.1)).Nodup

theorem assoc_none_notin {β} {n : Name} : ∀ {l : List (Name × β)}, assoc n l = none → n ∉ l.map (fun p => p.1)
  | [], _ => by simp
  | (a, b) :: r, h => by
    unfold assoc at h
    by_cases ha : a = n
    · simp [ha] at h
    · simp only [ha, if_false] at h
      simp only [List.map_cons, List.mem_cons, not_or]
      exact ⟨fun hh => ha hh.symm, assoc_none_notin h⟩

theorem expNodup_addExport {vm vm' : VM} {m : Nat} {n : Name} {v : Val} (h : vm.addExport m n v = some vm')
    (hn : ExpNodup vm) : ExpNodup vm' := by
  obtain ⟨e1, e2, _, e4⟩ := exportsOf_addExport h
  intro k
  by_cases hk : k = m
  · subst hk
    rw [e1, List.map_append, List.nodup_append]
    refine ⟨hn k, by simp, ?_⟩
    intro a ha b hb
    simp at hb; subst hb
    intro hab; subst hab
    exact assoc_none_notin e4 ha
  · rw [e2 k hk]; exact hn k

theorem hoistDefs_nodup : ∀ (items : List Item) (vm : VM), ExpNodup vm →
    match hoistDefs vm items with
    | .ok vm' => ExpNodup vm'
    | .err _ _ => True
  | [], vm, h => by simpa [hoistDefs] using h
  | .defn d :: r, vm, h => by
    unfold hoistDefs
    cases hcs : vm.cs with
    | none => trivial
    | some m =>
      dsimp only
      cases hd : vm.declareConst d.name (valOfDef d m) with
      | err e vm' => trivial
      | ok vm1 =>
        dsimp only
        have m1 : vm1.modules = vm.modules := by
          unfold VM.declareConst at hd
          split at hd
          · cases hd
          · split at hd
            · cases hd
            · cases hd; rfl
        cases ha : vm1.addExport m d.name (valOfDef d m) with
        | none => trivial
        | some vm2 =>
          dsimp only
          have h1 : ExpNodup vm1 := fun k => by rw [exportsOf_congr' m1 k]; exact h k
          exact hoistDefs_nodup r vm2 (expNodup_addExport ha h1)
  | .marker _ :: r, vm, h => by unfold hoistDefs; exact hoistDefs_nodup r vm h
  | .use _ :: r, vm, h => by unfold hoistDefs; exact hoistDefs_nodup r vm h
  | .assign _ :: r, vm, h => by unfold hoistDefs; exact hoistDefs_nodup r vm h

theorem exportsOf_congr {vm vm' : VM} (h : vm'.modules = vm.modules) (k : Nat) : vm'.exportsOf k = vm.exportsOf k := by
  simp [VM.exportsOf, h]

/-- a module body leaves every scope as it found it and adds its methods and types to the module's export table -/
theorem evalBody_effect (cf : Nat) {vm : VM} {m : Nat} {s : Scope} (hd : Disc vm) (hw : AllWF vm)
    (hcs : vm.cs = some m) (hs : lookS vm m = some s) (body : List Item) :
    match evalBody cf vm body with
    | .ok vm' => ScopesSame vm vm' ∧
        vm'.exportsOf m = vm.exportsOf m ++ (defsOf body).map (fun d => (d.name, valOfDef d m)) ∧
        (∀ k, k ≠ m → vm'.exportsOf k = vm.exportsOf k) ∧ (ExpNodup vm → ExpNodup vm')
    | .err _ _ => True := by
  unfold evalBody
  cases body with
  | nil => exact ⟨ScopesSame.rfl' _, by simp [defsOf], fun _ _ => rfl, id⟩
  | cons it r =>
    dsimp only
    have hwf : WF s := hw m s hs
    have lb := lookS_beginScope hcs hs
    have hcsb : vm.beginScope.cs = some m := by simp [hcs]
    have hsb : lookS vm.beginScope m = some s.begin := by rw [lb]; simp
    have hh := hoistDefs_effect (it :: r) vm.beginScope m s.begin hcsb hsb
    have hnd := hoistDefs_nodup (it :: r) vm.beginScope
    cases hr : hoistDefs vm.beginScope (it :: r) with
    | err e vm' => trivial
    | ok vm1 =>
      rw [hr] at hh hnd
      obtain ⟨h1, h2, h3, h4, h5, h6⟩ := hh
      dsimp only
      generalize htop : ((defsOf (it :: r)).map (symOfDef s.begin.depth m)).reverse = top at h1
      have htopd : ∀ y, y ∈ top → y.depth = s.depth + 1 := by
        intro y hy
        rw [← htop] at hy
        simp only [List.mem_reverse, List.mem_map] at hy
        obtain ⟨d, _, rfl⟩ := hy
        rfl
      -- the scope with the definitions on top
      have hX : WF ({ s with locals := top ++ s.locals, depth := s.depth + 1 } : Scope) := by
        intro y hy
        rcases List.mem_append.1 hy with h | h
        · have := htopd y h; simp only; omega
        · have := hwf y h; simp only; omega
      have hcs1 : vm1.cs = some m := by rw [h6, hcsb]
      have hs1 : lookS vm1 m = some ({ s with locals := top ++ s.locals, depth := s.depth + 1 } : Scope) := h1
      have lb1 := lookS_beginScope hcs1 hs1
      have hd1 : Disc vm1.beginScope := by
        constructor
        · simp only [beginScope_cs, beginScope_stack]; rw [h6, h5]; simp; exact hd.cs
        · intro k hk
          simp only [beginScope_stack] at hk
          rw [h5] at hk; simp only [beginScope_stack] at hk
          rw [lb1]
          by_cases hkm : k = m
          · simp [hkm]
          · simp only [hkm, if_false]; rw [h2 k hkm, lb]; simp only [hkm, if_false]
            exact hd.hasScope k hk
      have hw1 : AllWF vm1.beginScope := by
        intro k sc hk
        rw [lb1] at hk
        by_cases hkm : k = m
        · simp [hkm] at hk; subst hk; exact wf_begin hX
        · simp only [hkm, if_false] at hk
          rw [h2 k hkm, lb] at hk; simp only [hkm, if_false] at hk
          exact hw k sc hk
      have hi := runItems_scopes cf (it :: r) vm1.beginScope hd1 hw1
      have fi := runItems_frame cf (it :: r) vm1.beginScope
      cases hr2 : runItems cf vm1.beginScope (it :: r) with
      | err e vm' => trivial
      | ok vm2 =>
        rw [hr2] at hi fi
        dsimp only
        obtain ⟨same2, m2⟩ := hi
        obtain ⟨_, st2, cs2⟩ := fi
        have hcs2 : vm2.cs = some m := by
          rw [cs2 hd1.cs]; simp [hcs1]
        have ls2 : lookS vm2 m = some ({ s with locals := top ++ s.locals, depth := s.depth + 1 } : Scope).begin :=
          same2.keep (by rw [lb1]; simp)
        have le1 := lookS_endScope hcs2 ls2
        have hcse : vm2.endScope.cs = some m := by simp [hcs2]
        have lse : lookS vm2.endScope m = some ({ s with locals := top ++ s.locals, depth := s.depth + 1 } : Scope) := by
          rw [le1]; simp; exact end_begin hX
        have le2 := lookS_endScope hcse lse
        refine ⟨?_, ?_, ?_, ?_⟩
        rotate_left 3
        · intro hn0 k
          rw [exportsOf_congr (vm := vm1) (vm' := vm2.endScope.endScope) (by simp [m2]) k]
          exact hnd (fun j => by rw [exportsOf_congr (vm := vm) (vm' := vm.beginScope) (by simp) j]; exact hn0 j) k
        · intro k
          rw [le2, le1]
          by_cases hkm : k = m
          · subst hkm
            simp only [if_true]
            rw [end_pops hwf top htopd, hs]
            exact Or.inl rfl
          · simp only [hkm, if_false]
            have e0 : lookS vm1.beginScope k = lookS vm k := by
              rw [lb1]; simp only [hkm, if_false]; rw [h2 k hkm, lb]; simp [hkm]
            rcases same2 k with e | ⟨n, e⟩
            · exact Or.inl (e.trans e0)
            · exact Or.inr ⟨e0 ▸ n, e⟩
        · rw [exportsOf_congr (vm := vm1) (vm' := vm2.endScope.endScope) (by simp [m2]) m, h3,
            exportsOf_congr (vm := vm) (vm' := vm.beginScope) (by simp) m]
        · intro k hk
          rw [exportsOf_congr (vm := vm1) (vm' := vm2.endScope.endScope) (by simp [m2]) k, h4 k hk,
            exportsOf_congr (vm := vm) (vm' := vm.beginScope) (by simp) k]

/-- binding a list of names as external constants: they end up on top of the current scope, each with the module id -/
theorem declareExternals_effect (mid : Nat) : ∀ (l : List (Name × Val)) (vm : VM) (m : Nat) (s : Scope),
    vm.cs = some m → lookS vm m = some s →
    match declareExternals mid vm l with
    | .ok vm' => ∃ s', lookS vm' m = some s' ∧ s'.depth = s.depth ∧
        s'.locals = (l.map (fun p => (⟨p.1, s.depth, true, p.2⟩ : Sym))).reverse ++ s.locals ∧
        (∀ i, assoc i s'.extRefs =
          if s.locals.length ≤ i ∧ i < s.locals.length + l.length then some mid else assoc i s.extRefs) ∧
        (∀ k, k ≠ m → lookS vm' k = lookS vm k) ∧ vm'.modules = vm.modules
    | .err _ _ => True
  | [], vm, m, s, _, hs => by
    unfold declareExternals
    refine ⟨s, hs, rfl, by simp, ?_, fun _ _ => rfl, rfl⟩
    intro i
    have : ¬ (s.locals.length ≤ i ∧ i < s.locals.length + 0) := by omega
    simp only [List.length_nil, this, if_false]
  | (n, v) :: r, vm, m, s, hcs, hs => by
    unfold declareExternals
    cases hd : vm.declareExternal n v mid with
    | err e vm' => trivial
    | ok vm1 =>
      dsimp only
      -- one declaration
      have hd' := hd
      unfold VM.declareExternal at hd'
      rw [curScope_of hcs hs] at hd'
      dsimp only at hd'
      cases hde : s.declareExternal n v mid with
      | none => rw [hde] at hd'; cases hd'
      | some s1 =>
        rw [hde] at hd'
        cases hd'
        unfold Scope.declareExternal Scope.declare at hde
        by_cases hrd : Scope.redeclaredIn s.depth n s.locals = true
        · simp [hrd] at hde
        · simp only [hrd] at hde
          cases hde
          have st := declareExternal_stack hd
          have hcs1 : (vm.setScope m
              { locals := ⟨n, s.depth, true, v⟩ :: s.locals, depth := s.depth,
                extRefs := aset s.locals.length mid s.extRefs }).cs = some m := hcs
          have hs1 : lookS (vm.setScope m
              { locals := ⟨n, s.depth, true, v⟩ :: s.locals, depth := s.depth,
                extRefs := aset s.locals.length mid s.extRefs }) m = some
              { locals := ⟨n, s.depth, true, v⟩ :: s.locals, depth := s.depth,
                extRefs := aset s.locals.length mid s.extRefs } := by
            rw [lookS_setScope]; simp
          have ih := declareExternals_effect mid r _ m _ hcs1 hs1
          cases hr : declareExternals mid (vm.setScope m
              { locals := ⟨n, s.depth, true, v⟩ :: s.locals, depth := s.depth,
                extRefs := aset s.locals.length mid s.extRefs }) r with
          | err e vm' => trivial
          | ok vm2 =>
            rw [hr] at ih
            obtain ⟨s', i1, i2, i3, i4, i5, i6⟩ := ih
            refine ⟨s', i1, i2, ?_, ?_, ?_, i6⟩
            · rw [i3]; simp
            · intro i
              rw [i4 i]
              simp only [List.length_cons]
              rw [assoc_aset]
              by_cases h1 : s.locals.length + 1 ≤ i ∧ i < s.locals.length + 1 + r.length
              · have h2 : s.locals.length ≤ i ∧ i < s.locals.length + (r.length + 1) := by omega
                simp [h1, h2]
              · simp only [h1, if_false]
                by_cases h3 : i = s.locals.length
                · have h2 : s.locals.length ≤ i ∧ i < s.locals.length + (r.length + 1) := by omega
                  simp [h3]
                · have h2 : ¬ (s.locals.length ≤ i ∧ i < s.locals.length + (r.length + 1)) := by omega
                  simp [h3, h2]
            · intro k hk; rw [i5 k hk, lookS_setScope]; simp [hk]

/-- re-declaring a module's exports one level above its imports -/
theorem redeclareExports_effect : ∀ (l : List (Name × Val)) (vm : VM) (m : Nat) (s : Scope),
    vm.cs = some m → lookS vm m = some s →
    match redeclareExports vm l with
    | .ok vm' => lookS vm' m = some { s with locals := (l.map (fun p => (⟨p.1, s.depth, true, p.2⟩ : Sym))).reverse ++ s.locals } ∧
        (∀ k, k ≠ m → lookS vm' k = lookS vm k) ∧ vm'.modules = vm.modules
    | .err _ _ => True
  | [], vm, m, s, _, hs => by simp [redeclareExports, hs]
  | (n, v) :: r, vm, m, s, hcs, hs => by
    unfold redeclareExports
    cases hd : vm.declareConst n v with
    | err e vm' => trivial
    | ok vm1 =>
      dsimp only
      obtain ⟨l1, o1, m1, _⟩ := declareConst_effect hcs hs hd
      have st1 := declareConst_stack hd
      have ih := redeclareExports_effect r vm1 m _ (by rw [st1.2, hcs]) l1
      cases hr : redeclareExports vm1 r with
      | err e vm' => trivial
      | ok vm2 =>
        rw [hr] at ih
        obtain ⟨i1, i2, i3⟩ := ih
        refine ⟨?_, ?_, i3.trans m1⟩
        · rw [i1]; simp
        · intro k hk; rw [i2 k hk, o1 k hk]

end ZnVerif.Proofs.Modules

namespace ZnVerif.Proofs.Modules
open ZnVerif.Model.Modules

/-! ### a library's export table -/

theorem addExport_none_of_present {vm : VM} {m : Nat} {n : Name} {v : Val}
    (h : n ∈ (vm.exportsOf m).map (fun p => p.1)) : vm.addExport m n v = none := by
  unfold VM.addExport
  unfold VM.exportsOf at h
  cases hm : vm.modules[m]? with
  | none => rfl
  | some md =>
    rw [hm] at h
    dsimp only at h ⊢
    cases ha : assoc n md.exports with
    | some _ => rfl
    | none => exact absurd h (assoc_none_notin ha)

/-- importing a library whose names are all present already changes nothing -/
theorem addExportsIgnoringDup_idem (m : Nat) : ∀ (l : List (Name × Val)) (vm : VM),
    (∀ p, p ∈ l → p.1 ∈ (vm.exportsOf m).map (fun q => q.1)) → addExportsIgnoringDup m vm l = vm
  | [], _, _ => rfl
  | (n, v) :: r, vm, h => by
    unfold addExportsIgnoringDup
    rw [addExport_none_of_present (h (n, v) (List.mem_cons_self ..))]
    exact addExportsIgnoringDup_idem m r vm (fun p hp => h p (List.mem_cons_of_mem _ hp))

theorem addExport_some_of_absent {vm : VM} {m : Nat} {n : Name} {v : Val} (hm : m < vm.modules.length)
    (h : n ∉ (vm.exportsOf m).map (fun p => p.1)) : ∃ vm', vm.addExport m n v = some vm' := by
  unfold VM.addExport
  unfold VM.exportsOf at h
  have := List.getElem?_eq_getElem hm
  rw [this] at h ⊢
  dsimp only at h ⊢
  cases ha : assoc n (vm.modules[m]).exports with
  | none => exact ⟨_, rfl⟩
  | some w =>
    exfalso; apply h
    exact List.mem_map.2 ⟨(n, w), assoc_mem ha, rfl⟩

theorem addExport_length {vm vm' : VM} {m : Nat} {n : Name} {v : Val} (h : vm.addExport m n v = some vm') :
    vm'.modules.length = vm.modules.length := same_length' h
where
  same_length' {vm vm' : VM} {m : Nat} {n : Name} {v : Val} (h : vm.addExport m n v = some vm') :
      vm'.modules.length = vm.modules.length := by
    have := congrArg List.length (same_addExport h).names
    simpa [namesOf] using this

/-- the export table of module `m` after the (duplicate-ignoring) registration of the list `l` -/
theorem addExportsIgnoringDup_effect (m : Nat) : ∀ (l : List (Name × Val)) (vm : VM), m < vm.modules.length →
    (∀ k, lookS (addExportsIgnoringDup m vm l) k = lookS vm k) ∧
    (∀ k, k ≠ m → (addExportsIgnoringDup m vm l).exportsOf k = vm.exportsOf k) ∧
    (addExportsIgnoringDup m vm l).modules.length = vm.modules.length ∧
    (ExpNodup vm → ExpNodup (addExportsIgnoringDup m vm l)) ∧
    (∀ p, p ∈ l → p.1 ∈ ((addExportsIgnoringDup m vm l).exportsOf m).map (fun q => q.1)) ∧
    (∀ p, p ∈ (addExportsIgnoringDup m vm l).exportsOf m → p ∈ vm.exportsOf m ∨ p ∈ l) ∧
    (∀ p, p ∈ vm.exportsOf m → p ∈ (addExportsIgnoringDup m vm l).exportsOf m)
  | [], vm, _ => by
    refine ⟨fun _ => rfl, fun _ _ => rfl, rfl, id, ?_, fun _ h => Or.inl h, fun _ h => h⟩
    intro p hp; cases hp
  | (n, v) :: r, vm, hm => by
    unfold addExportsIgnoringDup
    cases ha : vm.addExport m n v with
    | none =>
      dsimp only
      obtain ⟨h1, h2, h3, h4, h5, h6, h7⟩ := addExportsIgnoringDup_effect m r vm hm
      refine ⟨h1, h2, h3, h4, ?_, ?_, h7⟩
      · intro p hp
        rcases List.mem_cons.1 hp with rfl | hp
        · -- the name was present already
          have : n ∈ (vm.exportsOf m).map (fun q => q.1) := by
            apply Classical.byContradiction
            intro hn
            obtain ⟨vm', hv⟩ := addExport_some_of_absent (v := v) hm hn
            rw [ha] at hv; cases hv
          obtain ⟨q, hq, hqn⟩ := List.mem_map.1 this
          exact List.mem_map.2 ⟨q, h7 q hq, hqn⟩
        · exact h5 p hp
      · intro p hp
        rcases h6 p hp with h | h
        · exact Or.inl h
        · exact Or.inr (List.mem_cons_of_mem _ h)
    | some vm1 =>
      dsimp only
      obtain ⟨e1, e2, e3, _⟩ := exportsOf_addExport ha
      have hm1 : m < vm1.modules.length := by rw [addExport_length ha]; exact hm
      obtain ⟨h1, h2, h3, h4, h5, h6, h7⟩ := addExportsIgnoringDup_effect m r vm1 hm1
      refine ⟨fun k => (h1 k).trans (e3 k), fun k hk => (h2 k hk).trans (e2 k hk),
        h3.trans (addExport_length ha), fun hn => h4 (expNodup_addExport ha hn), ?_, ?_, ?_⟩
      · intro p hp
        rcases List.mem_cons.1 hp with rfl | hp
        · exact List.mem_map.2 ⟨(n, v), h7 _ (by rw [e1]; simp), rfl⟩
        · exact h5 p hp
      · intro p hp
        rcases h6 p hp with h | h
        · rw [e1] at h
          rcases List.mem_append.1 h with h | h
          · exact Or.inl h
          · simp at h; exact Or.inr (h ▸ List.mem_cons_self ..)
        · exact Or.inr (List.mem_cons_of_mem _ h)
      · intro p hp
        exact h7 p (by rw [e1]; exact List.mem_append_left _ hp)

end ZnVerif.Proofs.Modules
