/-
Bridge (A) ↔ (C), lists, continued: the members with loops over the elements (包含 寻找 合并 拼接), the argument
checks (53, 82), the properties 首项 末项 长度/数目 逆序, their setters, and `L#i` / `L#i = v` (`reduceRHS` / `reduceLHS`
kind 1).
-/
import ZnVerif.Proofs.BridgesList
set_option linter.unusedSectionVars false
set_option linter.unusedVariables false

namespace ZnVerif.Proofs.Bridges
open ZnVerif ZnVerif.Model

variable {ν : Type} [NumOps ν]

theorem compareXEQ_run (n : Nat) (l r : Addr) (s : VM ν) : compareXEQ n l r s = ((compareXEQ n l r s).1, s) := by
  cases h : compareXEQ n l r s with
  | mk b s' =>
    have := (compareXEQ_same (ν := ν) n l r).run s b s' h
    unfold Same at this
    rw [this]

/-! ## 包含 / 寻找: the evaluator's loops over `compareXEQ` are the pure loops over its Bool answers -/

/-- the Bool answer of `compareXEQ n · · ` in state `s`, read as the `eq` parameter of the `Containers` loops
(an error / out-of-fuel outcome reads as `false`; the lemmas below say when that reading is exact) -/
def xeqB (n : Nat) (s : VM ν) (i x : Addr) : Bool :=
  match (compareXEQ n i x s).1 with
  | .ok b => b
  | _ => false

theorem goContains_bridge (n : Nat) (x : Addr) (eq : Addr → Addr → Bool) (s : VM ν) : ∀ items : List Addr,
    (∀ i ∈ items, (compareXEQ n i x s).1 = .ok (eq i x)) →
    builtinMethod.goContains n x items s = (.ok (Containers.arrayContains eq x items), s)
  | [], _ => rfl
  | i :: rest, h => by
    have hi := h i (by simp)
    have ih := goContains_bridge n x eq s rest (fun j hj => h j (by simp [hj]))
    unfold builtinMethod.goContains
    simp only [bind, Containers.arrayContains]
    rw [compareXEQ_run, hi]
    cases eq i x
    · simpa using ih
    · rfl

theorem goFind_bridge (n : Nat) (x : Addr) (eq : Addr → Addr → Bool) (s : VM ν) : ∀ (items : List Addr) (k : Nat),
    (∀ i ∈ items, (compareXEQ n i x s).1 = .ok (eq i x)) →
    builtinMethod.goFind n x items (k : Int) s = (.ok (Containers.arrayFindFrom eq x k items), s)
  | [], _, _ => rfl
  | i :: rest, k, h => by
    have hi := h i (by simp)
    have ih := goFind_bridge n x eq s rest (k + 1) (fun j hj => h j (by simp [hj]))
    unfold builtinMethod.goFind
    simp only [bind, Containers.arrayFindFrom]
    rw [compareXEQ_run, hi]
    cases eq i x
    · simpa using ih
    · rfl

/-- a successful run of the 包含 loop answered what the pure loop answers on the Bool answers of `compareXEQ` -/
theorem goContains_ok (n : Nat) (x : Addr) (s : VM ν) : ∀ (items : List Addr) (b : Bool) (s' : VM ν),
    builtinMethod.goContains n x items s = (.ok b, s') → s' = s ∧ b = Containers.arrayContains (xeqB n s) x items
  | [], b, s', h => by
    simp only [builtinMethod.goContains, pure] at h
    injection h with h1 h2; injection h1 with h1
    exact ⟨h2.symm, by rw [← h1]; rfl⟩
  | i :: rest, b, s', h => by
    unfold builtinMethod.goContains at h
    simp only [bind] at h
    rw [compareXEQ_run] at h
    generalize hc : (compareXEQ n i x s).1 = c at h
    cases c with
    | ok c =>
      have hxe : xeqB n s i x = c := by unfold xeqB; rw [hc]
      simp only [Containers.arrayContains, hxe]
      cases c with
      | true =>
        simp only [if_true, pure] at h
        injection h with h1 h2; injection h1 with h1
        exact ⟨h2.symm, by rw [← h1]; rfl⟩
      | false =>
        simp only [Bool.false_eq_true, if_false] at h ⊢
        exact goContains_ok n x s rest b s' h
    | err e => simp at h
    | panic => simp at h
    | fuel => simp at h
    | unmodelled => simp at h

theorem goFind_ok (n : Nat) (x : Addr) (s : VM ν) : ∀ (items : List Addr) (k : Nat) (r : Int) (s' : VM ν),
    builtinMethod.goFind n x items (k : Int) s = (.ok r, s') →
      s' = s ∧ r = Containers.arrayFindFrom (xeqB n s) x k items
  | [], k, r, s', h => by
    simp only [builtinMethod.goFind, pure] at h
    injection h with h1 h2; injection h1 with h1
    exact ⟨h2.symm, by rw [← h1]; rfl⟩
  | i :: rest, k, r, s', h => by
    unfold builtinMethod.goFind at h
    simp only [bind] at h
    rw [compareXEQ_run] at h
    generalize hc : (compareXEQ n i x s).1 = c at h
    cases c with
    | ok c =>
      have hxe : xeqB n s i x = c := by unfold xeqB; rw [hc]
      simp only [Containers.arrayFindFrom, hxe]
      cases c with
      | true =>
        simp only [if_true, pure] at h
        injection h with h1 h2; injection h1 with h1
        exact ⟨h2.symm, by rw [← h1]; rfl⟩
      | false =>
        simp only [Bool.false_eq_true, if_false] at h ⊢
        have h' : builtinMethod.goFind n x rest ((k + 1 : Nat) : Int) s = (.ok r, s') := by
          rw [Int.natCast_add]; exact h
        exact goFind_ok n x s rest (k + 1) r s' h'
    | err e => simp at h
    | panic => simp at h
    | fuel => simp at h
    | unmodelled => simp at h

section methods
variable (n : Nat) (a : Addr) (items : List Addr) (s : VM ν)

/-- 包含, when every comparison answers -/
theorem bm_contains (x : Addr) (eq : Addr → Addr → Bool) (hc : s.heap[a]? = some (.arr items))
    (heq : ∀ i ∈ items, (compareXEQ n i x s).1 = .ok (eq i x)) :
    builtinMethod n a "包含" [x] s =
      (do validateExact [x] ["any"]
          newBool (Containers.arrayContains eq x items)) s := by
  obtain ⟨r, hv⟩ := validateExact_run [x] ["any"] s
  unfold builtinMethod
  simp only [bind, getCell, hc, hv]
  cases r with
  | ok u => simp only [goContains_bridge n x eq s items heq]
  | err e => rfl
  | panic => rfl
  | fuel => rfl
  | unmodelled => rfl

/-- 寻找, when every comparison answers -/
theorem bm_find (x : Addr) (eq : Addr → Addr → Bool) (hc : s.heap[a]? = some (.arr items))
    (heq : ∀ i ∈ items, (compareXEQ n i x s).1 = .ok (eq i x)) :
    builtinMethod n a "寻找" [x] s =
      (do validateExact [x] ["any"]
          newNum (NumOps.ofInt (Containers.arrayFind eq x items))) s := by
  obtain ⟨r, hv⟩ := validateExact_run [x] ["any"] s
  unfold builtinMethod
  simp only [bind, getCell, hc, hv]
  cases r with
  | ok u =>
    have := goFind_bridge n x eq s items 0 heq
    simp only [Int.natCast_zero] at this
    simp only [this, Containers.arrayFind]
  | err e => rfl
  | panic => rfl
  | fuel => rfl
  | unmodelled => rfl

/-- 包含, from a successful run alone: the new cell holds the answer of the pure loop on `compareXEQ`'s Bool answers -/
theorem bm_contains_ok (x r : Addr) (s' : VM ν) (hc : s.heap[a]? = some (.arr items))
    (h : builtinMethod n a "包含" [x] s = (.ok r, s')) :
    r = s.heap.size ∧ s' = { s with heap := s.heap.push (.bool (Containers.arrayContains (xeqB n s) x items)) } := by
  obtain ⟨rv, hv⟩ := validateExact_run [x] ["any"] s
  unfold builtinMethod at h
  simp only [bind, getCell, hc, hv] at h
  cases rv with
  | ok u =>
    simp only at h
    cases hg : builtinMethod.goContains n x items s with
    | mk rb sb =>
      rw [hg] at h
      cases rb with
      | ok b =>
        obtain ⟨rfl, rfl⟩ := goContains_ok n x s items b sb hg
        simp only [newBool, alloc] at h
        injection h with h1 h2; injection h1 with h1
        exact ⟨h1.symm, h2.symm⟩
      | err e => simp at h
      | panic => simp at h
      | fuel => simp at h
      | unmodelled => simp at h
  | err e => simp at h
  | panic => simp at h
  | fuel => simp at h
  | unmodelled => simp at h

/-- 寻找, from a successful run alone -/
theorem bm_find_ok (x r : Addr) (s' : VM ν) (hc : s.heap[a]? = some (.arr items))
    (h : builtinMethod n a "寻找" [x] s = (.ok r, s')) :
    r = s.heap.size ∧
      s' = { s with heap := s.heap.push (.num (NumOps.ofInt (Containers.arrayFind (xeqB n s) x items))) } := by
  obtain ⟨rv, hv⟩ := validateExact_run [x] ["any"] s
  unfold builtinMethod at h
  simp only [bind, getCell, hc, hv] at h
  cases rv with
  | ok u =>
    simp only at h
    cases hg : builtinMethod.goFind n x items 0 s with
    | mk rb sb =>
      rw [hg] at h
      cases rb with
      | ok b =>
        have hg' : builtinMethod.goFind n x items ((0 : Nat) : Int) s = (.ok b, sb) := by
          rw [Int.natCast_zero]; exact hg
        obtain ⟨rfl, rfl⟩ := goFind_ok n x s items 0 b sb hg'
        simp only [newNum, alloc] at h
        injection h with h1 h2; injection h1 with h1
        exact ⟨h1.symm, h2.symm⟩
      | err e => simp at h
      | panic => simp at h
      | fuel => simp at h
      | unmodelled => simp at h
  | err e => simp at h
  | panic => simp at h
  | fuel => simp at h
  | unmodelled => simp at h

/-! ### 合并 -/

/-- the copy loop of 合并 on one argument: it must be a list; its items are copied one by one -/
def copyItems (n : Nat) (v : Addr) : M ν (List Addr) := do
  match ← getCell v with
  | .arr xs => xs.mapM (dup n)
  | _ => goPanic

/-- 合并: the receiver becomes `Containers.arrayMerge items extra`, `extra` being the copied item lists of the
arguments in order; a new list cell with the same items is answered -/
theorem bm_merge (vals : List Addr) (hc : s.heap[a]? = some (.arr items)) :
    builtinMethod n a "合并" vals s =
      (do validateAll vals "array"
          let extra ← vals.mapM (copyItems n)
          setCell a (.arr (Containers.arrayMerge items extra))
          alloc (.arr (Containers.arrayMerge items extra))) s := by
  obtain ⟨r, hv⟩ := validateAll_run vals "array" s
  unfold builtinMethod
  simp only [bind, getCell, hc, hv, Containers.arrayMerge_eq, Spec.Seq.merge]
  cases r with
  | ok u =>
    simp only
    rw [mapM_congr_fun (g := copyItems n)]
    intro v s0
    simp only [copyItems, bind, getCell]
    cases s0.heap[v]? with
    | none => rfl
    | some c => cases c <;> rfl
  | err e => rfl
  | panic => rfl
  | fuel => rfl
  | unmodelled => rfl

/-! ### 拼接 -/

/-- the text held by a cell, if it is a text: the `str` parameter of `Containers.arrayJoin` -/
def strAt (s : VM ν) (i : Addr) : Option String :=
  match s.heap[i]? with
  | some (.str t) => some t
  | _ => none

theorem joinWith_eq (sep : String) : ∀ ss : List String, joinWith sep ss = sep.intercalate ss
  | [] => by simp [joinWith]
  | [x] => by simp [joinWith]
  | x :: y :: rest => by
    rw [String.intercalate_cons_cons, ← joinWith_eq sep (y :: rest)]
    simp [joinWith]

theorem validateOne_string_iff (i : Addr) (s : VM ν) (hi : i < s.heap.size) :
    validateOne i "string" s = if (strAt s i).isSome then (.ok (), s) else (.err (.rt 82), s) := by
  unfold validateOne strAt
  simp only [bind, getCell]
  have : ∃ c, s.heap[i]? = some c := ⟨s.heap[i], by simp [hi]⟩
  obtain ⟨c, hc⟩ := this
  rw [hc]
  cases c <;> rfl

theorem forM_cons' {α : Type} (f : α → M ν PUnit) (x : α) (xs : List α) :
    (x :: xs).forM f = (do f x; xs.forM f) := rfl

theorem validateAll_string (s : VM ν) : ∀ items : List Addr, (∀ i ∈ items, i < s.heap.size) →
    validateAll items "string" s =
      if items.all (fun x => (strAt s x).isSome) then (.ok (), s) else (.err (.rt 82), s)
  | [], _ => rfl
  | i :: rest, h => by
    have ih := validateAll_string s rest (fun j hj => h j (by simp [hj]))
    unfold validateAll at ih ⊢
    rw [forM_cons']
    simp only [bind, validateOne_string_iff i s (h i (by simp)), List.all_cons]
    by_cases hb : (strAt s i).isSome = true
    · simp only [hb, if_true, Bool.true_and]; exact ih
    · simp only [hb, Bool.false_eq_true, if_false, Bool.false_and]

theorem getStr_mapM (s : VM ν) (F : Addr → M ν String)
    (hF : ∀ i t, strAt s i = some t → F i s = (.ok t, s)) : ∀ items : List Addr,
    items.all (fun x => (strAt s x).isSome) = true →
    List.mapM F items s = (.ok (items.filterMap (strAt s)), s)
  | [], _ => by simp [pure]
  | i :: rest, h => by
    simp only [List.all_cons, Bool.and_eq_true] at h
    obtain ⟨t, ht⟩ := Option.isSome_iff_exists.1 h.1
    have ih := getStr_mapM s F hF rest h.2
    simp only [List.mapM_cons, bind, hF i t ht, ih, List.filterMap_cons, ht, pure]

/-- 拼接, some element is not a text: InvalidParamType (82) whatever the arguments are (the elements are checked first) -/
theorem bm_join_err (vals : List Addr) (sep : String) (c : Nat) (hc : s.heap[a]? = some (.arr items))
    (hall : ∀ i ∈ items, i < s.heap.size) (h : Containers.arrayJoin (strAt s) items sep = .err c) :
    builtinMethod n a "拼接" vals s = (.err (.rt c), s) := by
  unfold Containers.arrayJoin at h
  unfold builtinMethod
  simp only [bind, getCell, hc, validateAll_string s items hall]
  cases hb : items.all (fun x => (strAt s x).isSome) with
  | true => rw [hb] at h; simp at h
  | false =>
    rw [hb] at h
    simp only [Bool.false_eq_true, if_false, Containers.Res.err.injEq] at h
    subst h
    rfl

/-- 拼接, all elements texts and the separator a text: a new text cell with `Containers.arrayJoin`'s answer -/
theorem bm_join_ok (c : Addr) (sep t : String) (hc : s.heap[a]? = some (.arr items))
    (hsep : s.heap[c]? = some (.str sep)) (h : Containers.arrayJoin (strAt s) items sep = .ok t) :
    builtinMethod n a "拼接" [c] s = newStr t s := by
  unfold Containers.arrayJoin at h
  cases hb : items.all (fun x => (strAt s x).isSome) with
  | false => rw [hb] at h; simp at h
  | true =>
    rw [hb] at h
    simp only [if_true, Containers.Res.ok.injEq] at h
    have hall : ∀ i ∈ items, i < s.heap.size := by
      intro i hi
      have := List.all_eq_true.1 hb i hi
      unfold strAt at this
      cases hh : s.heap[i]? with
      | none => rw [hh] at this; simp at this
      | some cc => exact lt_size_of_getElem? hh
    have hv : validateExact [c] ["string"] s = (.ok (), s) := by
      simp [validateExact, bind, validateOne_string hsep, pure]
    unfold builtinMethod
    simp only [bind, getCell, hc, validateAll_string s items hall, hb, if_true, hv, hsep]
    rw [getStr_mapM s _ ?_ items hb]
    · simp only [joinWith_eq, h]
    · intro i t' ht'
      unfold strAt at ht'
      cases hh : s.heap[i]? with
      | none => rw [hh] at ht'; simp at ht'
      | some cc =>
        rw [hh] at ht'
        cases cc <;> simp at ht'
        subst ht'
        rfl

/-! ### argument count (53) and argument type (82) -/

theorem validateExact_len (vals : List Addr) (tys : List String) (h : vals.length ≠ tys.length) :
    validateExact vals tys s = (.err (.rt 53), s) := by
  unfold validateExact
  simp only [h, ne_eq, not_false_eq_true, if_true]
  rfl

/-- a wrong number of arguments is UnexpectedParamNum (53) for every list method that checks its arguments
(左移 右移 合并 do not; 拼接 checks the elements first) -/
theorem bm_param_count (name : String) (k : Nat) (vals : List Addr) (hc : s.heap[a]? = some (.arr items))
    (hname : (name, k) ∈ [("新增", 2), ("添加", 2), ("前增", 1), ("后增", 1), ("包含", 1), ("寻找", 1), ("交换", 2)])
    (hlen : vals.length ≠ k) :
    builtinMethod n a name vals s = (.err (.rt 53), s) := by
  simp only [List.mem_cons, Prod.mk.injEq, List.not_mem_nil, or_false] at hname
  unfold builtinMethod
  rcases hname with ⟨rfl, rfl⟩ | ⟨rfl, rfl⟩ | ⟨rfl, rfl⟩ | ⟨rfl, rfl⟩ | ⟨rfl, rfl⟩ | ⟨rfl, rfl⟩ | ⟨rfl, rfl⟩ <;>
    simp (disch := simpa using hlen) only [bind, getCell, hc, validateExact_len]

/-- 新增 / 添加 / 交换 with a position that is not a number: InvalidParamType (82) -/
theorem bm_insert_type (name : String) (hname : name = "新增" ∨ name = "添加") (x p : Addr) (cx cp : Cell ν)
    (hc : s.heap[a]? = some (.arr items)) (hx : s.heap[x]? = some cx) (hp : s.heap[p]? = some cp)
    (hnum : ∀ pv, cp ≠ .num pv) :
    builtinMethod n a name [x, p] s = (.err (.rt 82), s) := by
  have hv : validateExact [x, p] ["any", "number"] s = (.err (.rt 82), s) := by
    have h1 : validateOne p "number" s = (.err (.rt 82), s) := by
      unfold validateOne
      simp only [bind, getCell, hp]
      cases cp <;> first | rfl | exact absurd rfl (hnum _)
    simp [validateExact, bind, validateOne_any hx, h1]
  unfold builtinMethod
  rcases hname with rfl | rfl <;> simp only [bind, getCell, hc, hv]

end methods

end ZnVerif.Proofs.Bridges
