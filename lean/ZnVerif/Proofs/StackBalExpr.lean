/-
Call-stack balance: induction step for expressions, calls, constructors and declarations.
-/
import ZnVerif.Proofs.StackBalMutual
set_option linter.unusedSectionVars false
set_option linter.unusedSimpArgs false
set_option linter.unusedVariables false

namespace ZnVerif.Proofs.StackBal
open ZnVerif.Model ZnVerif.Proofs.Calls

variable {ν : Type} [NumOps ν]

theorem bal_evalExpr_succ (n : Nat) (ih : AllBal (ν := ν) n) (e : Expr) : BalNS (evalExpr (ν := ν) (n+1) e) := by
  cases e <;> rw [Model.evalExpr] <;> bal_ih ih <;> contradiction

theorem bal_memberIV_succ (n : Nat) (ih : AllBal (ν := ν) n) (e : Expr) : BalNS (memberIV (ν := ν) (n+1) e) := by
  cases e <;> rw [Model.memberIV] <;> bal_ih ih <;> contradiction

theorem bal_execFunction_succ (n : Nat) (ih : AllBal (ν := ν) n) (f : FnRef) (t : Option Addr) (ps : List Addr) :
    BalNS (execFunction (ν := ν) (n+1) f t ps) := by
  cases f <;> rw [Model.execFunction] <;> bal_ih ih <;> contradiction

theorem bal_execDirectFunction_succ (n : Nat) (ih : AllBal (ν := ν) n) (f : String) (ps : List Addr) :
    BalNS (execDirectFunction (ν := ν) (n+1) f ps) := by
  rw [Model.execDirectFunction]; bal_ih ih

theorem bal_execMethodFunction_succ (n : Nat) (ih : AllBal (ν := ν) n) (r : Addr) (f : String) (ps : List Addr) :
    BalNS (execMethodFunction (ν := ν) (n+1) r f ps) := by
  rw [Model.execMethodFunction]; bal_ih ih

theorem bal_construct_succ (n : Nat) (ih : AllBal (ν := ν) n) (c : Addr) (ps : List Addr) :
    BalNS (construct (ν := ν) (n+1) c ps) := by
  simp only [Model.construct]; bal_ih ih

theorem bal_evalClassDecl_succ (n : Nat) (ih : AllBal (ν := ν) n) (st : Stmt) :
    BalNS (evalClassDecl (ν := ν) (n+1) st) := by
  cases st <;> rw [Model.evalClassDecl] <;> bal_ih ih <;> contradiction

theorem bal_evalFuncDecl_succ (n : Nat) (st : Stmt) : BalNS (evalFuncDecl (ν := ν) (n+1) st) := by
  cases st <;> rw [Model.evalFuncDecl] <;> bal_tac <;> contradiction

theorem bal_evalCtorDecl_succ (n : Nat) (st : Stmt) : BalNS (evalCtorDecl (ν := ν) (n+1) st) := by
  cases st <;> rw [Model.evalCtorDecl] <;> bal_tac <;> contradiction

end ZnVerif.Proofs.StackBal
