/-
Call-stack balance: `handleException` (relative to the protected body's entry stack) and `evalExecBlock`, then the
induction `allBal`.
-/
import ZnVerif.Proofs.StackBalExpr
import ZnVerif.Proofs.StackBalStmt
set_option linter.unusedSectionVars false
set_option linter.unusedSimpArgs false
set_option linter.unusedVariables false

namespace ZnVerif.Proofs.StackBal
open ZnVerif.Model ZnVerif.Proofs.Calls

variable {ν : Type} [NumOps ν]

/-! ## handlers -/

theorem unwindTo_inv (d : Nat) (s : VM ν) (hi : CsInv s) : CsInv (unwindTo d s).2 := by
  rw [unwindTo_run]
  simp only
  split
  · exact hi
  · rfl

theorem Quiet.excOf (e : Err) : Quiet (excOf (ν := ν) e) := by
  unfold Calls.excOf
  cases e <;> first | exact Quiet.pure _ | exact Quiet.bind (Quiet.alloc _) fun _ => Quiet.pure _

theorem Quiet.classNameOf (ex : Addr) : Quiet (classNameOf (ν := ν) ex) := by
  unfold Calls.classNameOf; quiet_tac

theorem handler_entry_stack (bm : Int) (bd : Nat) (ex : Addr) (s : VM ν) :
    (handlerEntry bm bd ex s).stack = { moduleId := bm, callType := 3, this := some ex } :: (unwindTo bd s).2.stack ∧
    (handlerEntry bm bd ex s).csModuleID = bm := by
  have h := pushFrame_run (ν := ν) { moduleId := bm, callType := 3, this := some ex } (unwindTo bd s).2
  exact ⟨h.2.1, h.2.2.1⟩

theorem Quiet.bindThis (vm : VM ν) : Quiet (bindThis vm) := by
  unfold Calls.bindThis; quiet_tac

theorem Quiet.bindInputs (inputs : List Ident) (params : List Addr) : Quiet (bindInputs (ν := ν) inputs params) := by
  unfold Calls.bindInputs; quiet_tac

/-- one handler block, started above `st0` -/
theorem runHandler_rel (n : Nat) (hb : ∀ blk, Bal (evalPureStmtBlock (ν := ν) n blk)) (bm : Int) (bd : Nat)
    (ex : Addr) (blk : Option (List Stmt)) (st0 : List Frame) (s : VM ν) (hext : Ext st0 s.stack)
    (hl : st0.length = bd) :
    PostRel st0 (runHandler n bm bd ex blk s) ∧ (CsInv s → CsInv (runHandler n bm bd ex blk s).2) := by
  obtain ⟨extra, base, hs, hbase⟩ := hext
  have hlb : base.length = bd := by
    have := congrArg List.length hbase
    rw [norm_length, norm_length] at this; omega
  have hun := unwindTo_stack bd s extra base hs hlb
  have hsame0 : SameStack st0 base := hbase
  by_cases hbm : bm < 0
  · -- `blockModule == nil` would be a Go nil dereference
    have : runHandler n bm bd ex blk s = (.panic, (unwindTo bd s).2) := by
      unfold runHandler
      rw [bind_ok (by rw [unwindTo_run] : unwindTo bd s = (.ok (), (unwindTo bd s).2))]
      simp only [hbm, if_true]; rfl
    rw [this]
    exact ⟨⟨by rw [hun]; exact hsame0.ext, fun h => by cases h⟩, unwindTo_inv bd s⟩
  · have hbm' : 0 ≤ bm := by omega
    rw [runHandler_run n bm bd ex blk s hbm']
    have hent := handler_entry_stack bm bd ex s
    rw [hun] at hent
    have hB := hb blk
    have hext3 := hB.ext (handlerEntry bm bd ex s)
    have hsame3 := hB.same (handlerEntry bm bd ex s)
    have hinv3 := hB.inv (handlerEntry bm bd ex s) (by unfold CsInv; rw [hent.1, hent.2]; rfl)
    rcases hrun : evalPureStmtBlock n blk (handlerEntry bm bd ex s) with ⟨r, s3⟩
    rw [hrun] at hext3 hsame3 hinv3
    rw [hent.1] at hext3 hsame3
    have hE : Ext st0 s3.stack := Ext.of_same_left hsame0 (Ext.push _ hext3)
    cases r with
    | ok x =>
      simp only
      obtain ⟨fr', hs3, _⟩ := norm_cons_eq (hsame3 rfl)
      rw [bind_ok (getReturnValue_cons s3 fr' base hs3), bind_ok (popFrame_cons s3 fr' base hs3)]
      cases fr'.ret <;> exact ⟨⟨hsame0.ext, fun _ => hsame0⟩, fun _ => rfl⟩
    | err e => exact ⟨⟨hE, fun h => by cases h⟩, fun _ => hinv3⟩
    | panic => exact ⟨⟨hE, fun h => by cases h⟩, fun _ => hinv3⟩
    | fuel => exact ⟨⟨hE, fun h => by cases h⟩, fun _ => hinv3⟩
    | unmodelled => exact ⟨⟨hE, fun h => by cases h⟩, fun _ => hinv3⟩

/-- a step that keeps stack and module, then something relative to `st0` -/
theorem rel_quiet_bind {α β} {m : M ν α} {f : α → M ν β} (hm : Quiet m) (st0 : List Frame) (s : VM ν)
    (hext : Ext st0 s.stack)
    (hf : ∀ a t, t.stack = s.stack → t.csModuleID = s.csModuleID →
      PostRel st0 (f a t) ∧ (CsInv t → CsInv (f a t).2)) :
    PostRel st0 ((m >>= f) s) ∧ (CsInv s → CsInv ((m >>= f) s).2) := by
  rw [M_bind_def]
  have h1 := hm.stack s; have h2 := hm.cs s
  rcases h : m s with ⟨r, s'⟩
  rw [h] at h1 h2
  have hE : Ext st0 s'.stack := by rw [h1]; exact hext
  have hI : CsInv s → CsInv s' := CsInv.of_same h1 h2
  cases r with
  | ok a =>
    simp only
    obtain ⟨p, q⟩ := hf a s' h1 h2
    exact ⟨p, fun hi => q (hI hi)⟩
  | err e => exact ⟨⟨hE, fun h => by cases h⟩, hI⟩
  | panic => exact ⟨⟨hE, fun h => by cases h⟩, hI⟩
  | fuel => exact ⟨⟨hE, fun h => by cases h⟩, hI⟩
  | unmodelled => exact ⟨⟨hE, fun h => by cases h⟩, hI⟩

theorem tryHandler_rel (n : Nat) (hb : ∀ blk, Bal (evalPureStmtBlock (ν := ν) n blk)) (bm : Int) (bd : Nat)
    (ex : Addr) (clsName : String) (st0 : List Frame) (hl : st0.length = bd)
    (c : Option Ident × Option (List Stmt)) (s : VM ν) (hext : Ext st0 s.stack) :
    Ext st0 (tryHandler n bm bd ex clsName c s).2.stack ∧
    (∀ b, (tryHandler n bm bd ex clsName c s).1 = .ok (some b) →
      SameStack st0 (tryHandler n bm bd ex clsName c s).2.stack) ∧
    (CsInv s → CsInv (tryHandler n bm bd ex clsName c s).2) := by
  have hname : (matchIDNameOpt c.1 s).2 = s := by
    cases c.1 with
    | none => rfl
    | some i => exact matchIDName_state i.lit s
  unfold tryHandler
  rw [M_bind_def]
  rcases hm : matchIDNameOpt c.1 s with ⟨r, s'⟩
  rw [hm] at hname; simp only at hname; subst hname
  cases r with
  | ok cname =>
    simp only
    split
    · obtain ⟨⟨p1, p2⟩, q⟩ := runHandler_rel n hb bm bd ex c.2 st0 s' hext hl
      exact ⟨p1, fun b hb' => p2 (by rw [hb']; rfl), q⟩
    · exact ⟨hext, fun b h => (by cases h), id⟩
  | err e => exact ⟨hext, fun b h => (by cases h), id⟩
  | panic => exact ⟨hext, fun b h => (by cases h), id⟩
  | fuel => exact ⟨hext, fun b h => (by cases h), id⟩
  | unmodelled => exact ⟨hext, fun b h => (by cases h), id⟩

theorem tryHandlers_rel (n : Nat) (hb : ∀ blk, Bal (evalPureStmtBlock (ν := ν) n blk)) (bm : Int) (bd : Nat)
    (ex : Addr) (clsName : String) (e : Err) (st0 : List Frame) (hl : st0.length = bd) :
    ∀ (catches : List (Option Ident × Option (List Stmt))) (s : VM ν), Ext st0 s.stack →
      PostRel st0 (firstM (tryHandler n bm bd ex clsName) (throwE e) catches s) ∧
      (CsInv s → CsInv (firstM (tryHandler n bm bd ex clsName) (throwE e) catches s).2)
  | [], s, hext => ⟨⟨hext, fun h => by cases h⟩, id⟩
  | c :: cs, s, hext => by
    unfold firstM
    obtain ⟨h1, h2, h3⟩ := tryHandler_rel n hb bm bd ex clsName st0 hl c s hext
    rw [M_bind_def]
    rcases hm : tryHandler n bm bd ex clsName c s with ⟨r, s1⟩
    rw [hm] at h1 h2 h3
    cases r with
    | ok o =>
      cases o with
      | some b => exact ⟨⟨h1, fun _ => h2 b rfl⟩, h3⟩
      | none =>
        obtain ⟨p, q⟩ := tryHandlers_rel n hb bm bd ex clsName e st0 hl cs s1 h1
        exact ⟨p, fun hi => q (h3 hi)⟩
    | err e => exact ⟨⟨h1, fun h => by cases h⟩, h3⟩
    | panic => exact ⟨⟨h1, fun h => by cases h⟩, h3⟩
    | fuel => exact ⟨⟨h1, fun h => by cases h⟩, h3⟩
    | unmodelled => exact ⟨⟨h1, fun h => by cases h⟩, h3⟩

theorem bal_handleException_succ (n : Nat) (ih : AllBal (ν := ν) n) : HSpec (ν := ν) (n+1) := by
  intro bm bd catches e st0 s hext hl
  rw [handleException_eq]
  refine rel_quiet_bind (Quiet.excOf e) st0 s hext fun exc? t ht1 ht2 => ?_
  have hext' : Ext st0 t.stack := by rw [ht1]; exact hext
  cases exc? with
  | none => exact ⟨⟨hext', fun h => by cases h⟩, id⟩
  | some ex =>
    simp only
    refine rel_quiet_bind (Quiet.classNameOf ex) st0 t hext' fun clsName u hu1 hu2 => ?_
    exact tryHandlers_rel n ih.evalPureStmtBlock bm bd ex clsName e st0 hl catches u (by rw [hu1]; exact hext')

/-! ## method and program bodies -/

theorem conv_run (e : Err) (t : VM ν) :
    ∃ e' t', loopSignalToException e t = (.ok e', t') ∧ t'.stack = t.stack ∧ t'.csModuleID = t.csModuleID ∧
      isSig e' = false := by
  unfold loopSignalToException
  cases e <;> first
    | exact ⟨_, _, rfl, rfl, rfl, rfl⟩

/-- what `finishBlock` makes of the outcome `r` of the body's statements, which ran above `st0` -/
theorem finishBlock_rel (n : Nat) (hH : HSpec (ν := ν) n) (bm : Int) (st0 : List Frame)
    (catches : List (Option Ident × Option (List Stmt))) (r : Res (Option Addr)) (t : VM ν)
    (hext : Ext st0 t.stack) (hsame : resIsOk r = true → SameStack st0 t.stack) :
    PostRel st0 (finishBlock n bm st0.length catches r t) ∧
    (CsInv t → CsInv (finishBlock n bm st0.length catches r t).2) ∧
    resIsSig (finishBlock n bm st0.length catches r t).1 = false := by
  unfold finishBlock
  cases r with
  | ok o =>
    cases o with
    | some v => exact ⟨⟨hext, fun _ => hsame rfl⟩, id, rfl⟩
    | none => exact ⟨⟨hext, fun _ => hsame rfl⟩, id, rfl⟩
  | err e =>
    simp only
    obtain ⟨e', t', hc, hs, hcs, hsig⟩ := conv_run e t
    rw [bind_ok hc]
    unfold Model.tryCatch
    obtain ⟨⟨p1, p2⟩, q⟩ := hH bm st0.length catches e' st0 t' (by rw [hs]; exact hext) rfl
    have hI : CsInv t → CsInv t' := CsInv.of_same hs hcs
    rcases hh : handleException n bm st0.length catches e' t' with ⟨r3, t3⟩
    rw [hh] at p1 p2 q
    cases r3 with
    | ok v => exact ⟨⟨p1, p2⟩, fun hi => q (hI hi), rfl⟩
    | err e2 =>
      simp only
      obtain ⟨e2', t3', hc2, hs2, hcs2, hsig2⟩ := conv_run e2 t3
      rw [bind_ok hc2]
      refine ⟨⟨by show Ext st0 t3'.stack; rw [hs2]; exact p1, fun h => by cases h⟩,
        fun hi => CsInv.of_same hs2 hcs2 (q (hI hi)), ?_⟩
      show resIsSig (Res.err e2' : Res Addr) = false
      exact hsig2
    | panic => exact ⟨⟨p1, fun h => by cases h⟩, fun hi => q (hI hi), rfl⟩
    | fuel => exact ⟨⟨p1, fun h => by cases h⟩, fun hi => q (hI hi), rfl⟩
    | unmodelled => exact ⟨⟨p1, fun h => by cases h⟩, fun hi => q (hI hi), rfl⟩
  | panic => exact ⟨⟨hext, fun h => by cases h⟩, id, rfl⟩
  | fuel => exact ⟨⟨hext, fun h => by cases h⟩, id, rfl⟩
  | unmodelled => exact ⟨⟨hext, fun h => by cases h⟩, id, rfl⟩

/-- a `Quiet` prefix in front of something whose outcome satisfies `Q` whenever it starts with the same stack/module -/
theorem quiet_prefix {α β} {P : M ν α} {m : α → M ν β} (hP : Quiet P) (s : VM ν)
    (Q : Res β × VM ν → Prop)
    (hfail : ∀ (r : Res β) t, t.stack = s.stack → t.csModuleID = s.csModuleID → resIsOk r = false →
      resIsSig r = false → Q (r, t))
    (hm : ∀ a t, t.stack = s.stack → t.csModuleID = s.csModuleID → Q (m a t)) : Q ((P >>= m) s) := by
  rw [M_bind_def]
  have h1 := hP.stack s; have h2 := hP.cs s; have h3 := hP.nosig s
  rcases h : P s with ⟨r, s'⟩
  rw [h] at h1 h2 h3
  cases r with
  | ok a => exact hm a s' h1 h2
  | err e => exact hfail _ s' h1 h2 rfl h3
  | panic => exact hfail _ s' h1 h2 rfl rfl
  | fuel => exact hfail _ s' h1 h2 rfl rfl
  | unmodelled => exact hfail _ s' h1 h2 rfl rfl

theorem bal_execBlockBody (n : Nat) (ih : AllBal (ν := ν) n) (inputs : List Ident) (body : Option (List Stmt))
    (catches : List (Option Ident × Option (List Stmt))) (params : List Addr) :
    BalNS (execBlockBody (ν := ν) n inputs body catches params) := by
  -- the outcome property, relative to the entry state `s`
  let Q : VM ν → Res Addr × VM ν → Prop := fun s o =>
    Ext s.stack o.2.stack ∧ (resIsOk o.1 = true → SameStack s.stack o.2.stack) ∧ (CsInv s → CsInv o.2) ∧
      resIsSig o.1 = false
  have hQ : ∀ s, Q s (execBlockBody n inputs body catches params s) := by
    intro s
    unfold execBlockBody
    have hfail : ∀ (r : Res Addr) t, t.stack = s.stack → t.csModuleID = s.csModuleID → resIsOk r = false →
        resIsSig r = false → Q s (r, t) := by
      intro r t h1 h2 h3 h4
      exact ⟨by show Ext s.stack t.stack; rw [h1]; exact Ext.refl _,
        fun h => (by rw [h3] at h; cases h), CsInv.of_same h1 h2, h4⟩
    refine quiet_prefix (Quiet.bindThis s) s (Q s) hfail fun _ t1 ht1 hc1 => ?_
    by_cases hlen : params.length ≠ inputs.length
    · simp only [hlen, ne_eq, not_false_eq_true, if_true]
      exact hfail _ t1 ht1 hc1 rfl rfl
    · simp only [hlen, if_false]
      have hfail1 : ∀ (r : Res Addr) t, t.stack = t1.stack → t.csModuleID = t1.csModuleID → resIsOk r = false →
          resIsSig r = false → Q s (r, t) :=
        fun r t h1 h2 => hfail r t (h1.trans ht1) (h2.trans hc1)
      refine quiet_prefix (Quiet.bindInputs inputs params) t1 (Q s) hfail1 fun _ t2 ht2 hc2 => ?_
      have hst : t2.stack = s.stack := ht2.trans ht1
      have hcs : t2.csModuleID = s.csModuleID := hc2.trans hc1
      unfold Model.tryCatch
      have hB := ih.evalStmtBlock body
      have hE := hB.ext t2; have hS := hB.same t2; have hI := hB.inv t2
      rw [hst] at hE hS
      obtain ⟨⟨p1, p2⟩, q, ns⟩ := finishBlock_rel n ih.handleException s.csModuleID s.stack catches
        (evalStmtBlock n body t2).1 (evalStmtBlock n body t2).2 hE (fun h => hS (okOrSig_of_ok h))
      exact ⟨p1, p2, fun hi => q (hI (CsInv.of_same hst hcs hi)), ns⟩
  exact { ext := fun s => (hQ s).1
          same := fun s h => (hQ s).2.1 (okOrSig_nosig (hQ s).2.2.2 h)
          inv := fun s => (hQ s).2.2.1
          nosig := fun s => (hQ s).2.2.2 }

theorem bal_evalExecBlock_succ (n : Nat) (ih : AllBal (ν := ν) n) (b : Option ExecBlock) (ps : List Addr) :
    BalNS (evalExecBlock (ν := ν) (n+1) b ps) := by
  cases b with
  | none => rw [Model.evalExecBlock]; exact BalNS.ofQuiet Quiet.goPanic
  | some b =>
    cases b
    rw [evalExecBlock_eq]
    exact BalNS.withScope (bal_execBlockBody n ih _ _ _ _)

/-! ## consequences used by the property files -/

theorem conv_plain (e : Err) (he : isSig e = false) (t : VM ν) : loopSignalToException e t = (.ok e, t) := by
  unfold loopSignalToException
  cases e <;> first | rfl | cases he

/-- an error that is not a loop signal and that a handler turns into a value: the body's value -/
theorem finish_handled (n : Nat) (bm : Int) (bd : Nat) (catches : List (Option Ident × Option (List Stmt)))
    (e : Err) (t t' : VM ν) (v : Addr) (he : isSig e = false)
    (hh : handleException n bm bd catches e t = (.ok v, t')) :
    finishBlock n bm bd catches (.err e) t = (.ok v, t') := by
  unfold finishBlock
  simp only
  rw [bind_ok (conv_plain e he t)]
  unfold Model.tryCatch
  rw [hh]; rfl

/-- …and that no handler takes (or whose handler fails with a plain error): that error -/
theorem finish_unhandled (n : Nat) (bm : Int) (bd : Nat) (catches : List (Option Ident × Option (List Stmt)))
    (e e2 : Err) (t t' : VM ν) (he : isSig e = false) (he2 : isSig e2 = false)
    (hh : handleException n bm bd catches e t = (.err e2, t')) :
    finishBlock n bm bd catches (.err e) t = (.err e2, t') := by
  unfold finishBlock
  simp only
  rw [bind_ok (conv_plain e he t)]
  unfold Model.tryCatch
  rw [hh]
  simp only
  rw [bind_ok (conv_plain e2 he2 t')]; rfl

/-- a body whose statements end with 结束循环 behaves as if they had raised a fresh 异常 value -/
theorem finish_loop_signal (n : Nat) (bm : Int) (bd : Nat) (catches : List (Option Ident × Option (List Stmt)))
    (t : VM ν) :
    finishBlock n bm bd catches (.err .sigBreak) t =
      finishBlock n bm bd catches (.err (.excErr t.heap.size)) { t with heap := t.heap.push (.exc "收到「结束」中断信号") } ∧
    finishBlock n bm bd catches (.err .sigContinue) t =
      finishBlock n bm bd catches (.err (.excErr t.heap.size)) { t with heap := t.heap.push (.exc "收到「继续」中断信号") } := by
  constructor <;> rfl

theorem runHandler_vs_A (n : Nat) (bm : Int) (bd : Nat) (ex : Addr) (blk : Option (List Stmt)) (s : VM ν) :
    (runHandler n bm bd ex blk s).2 = (runHandlerA n bm bd ex blk s).2 ∧
    resIsOk (runHandler n bm bd ex blk s).1 = resIsOk (runHandlerA n bm bd ex blk s).1 := by
  rw [runHandler_eq, M_bind_def]
  rcases runHandlerA n bm bd ex blk s with ⟨r, t⟩
  cases r <;> exact ⟨rfl, rfl⟩

theorem getThis_of_norm {t : VM ν} {st0 : List Frame} (h : norm t.stack = norm st0) :
    getThis t = (.ok (st0.head?.bind (·.this)), t) := by
  cases st0 with
  | nil =>
    cases hst : t.stack with
    | nil => simp [getThis, topFrame, bind, hst, pure]
    | cons _ _ => rw [hst] at h; cases h
  | cons f r =>
    obtain ⟨f', hs, hc⟩ := norm_cons_eq h
    rw [getThis_cons t f' r hs]
    have : (core f').this = (core f).this := by rw [hc]
    exact congrArg (fun x => (Res.ok x, t)) this

/-- `SameStack`, spelled out -/
theorem sameStack_iff (st st' : List Frame) :
    SameStack st st' ↔ (st = [] ∧ st' = []) ∨
      ∃ f f' r, st = f :: r ∧ st' = f' :: r ∧ f'.moduleId = f.moduleId ∧ f'.callType = f.callType ∧ f'.this = f.this := by
  constructor
  · intro h
    cases st with
    | nil =>
      cases st' with
      | nil => exact Or.inl ⟨rfl, rfl⟩
      | cons _ _ => cases h
    | cons f r =>
      obtain ⟨f', rfl, hc⟩ := norm_cons_eq h
      refine Or.inr ⟨f, f', r, rfl, rfl, ?_, ?_, ?_⟩
      · exact (congrArg Frame.moduleId hc : (core f').moduleId = (core f).moduleId)
      · exact (congrArg Frame.callType hc : (core f').callType = (core f).callType)
      · exact (congrArg Frame.this hc : (core f').this = (core f).this)
  · rintro (⟨rfl, rfl⟩ | ⟨f, f', r, rfl, rfl, h1, h2, h3⟩)
    · rfl
    · show norm _ = norm _
      simp only [norm, core, List.cons.injEq, and_true]
      cases f; cases f'; simp_all

theorem SameStack.length_eq {st st' : List Frame} (h : SameStack st st') : st'.length = st.length := by
  have := congrArg List.length h
  rwa [norm_length, norm_length] at this

/-! ## the induction -/

theorem allBal : ∀ n : Nat, AllBal (ν := ν) n
  | 0 => by
    exact {
      evalExpr := fun _ => BalNS.ofQuiet Quiet.outOfFuel
      memberIV := fun _ => BalNS.ofQuiet Quiet.outOfFuel
      execFunction := fun _ _ _ => BalNS.ofQuiet Quiet.outOfFuel
      execDirectFunction := fun _ _ => BalNS.ofQuiet Quiet.outOfFuel
      execMethodFunction := fun _ _ _ => BalNS.ofQuiet Quiet.outOfFuel
      construct := fun _ _ => BalNS.ofQuiet Quiet.outOfFuel
      evalExecBlock := fun _ _ => BalNS.ofQuiet Quiet.outOfFuel
      handleException := fun bm bd catches e st0 s hext hl => ⟨⟨hext, fun h => by cases h⟩, id⟩
      evalStmtBlock := fun _ => Bal.ofQuiet Quiet.outOfFuel
      evalPureStmtBlock := fun _ => Bal.ofQuiet Quiet.outOfFuel
      evalStmt := fun _ => Bal.ofQuiet Quiet.outOfFuel
      evalClassDecl := fun _ => BalNS.ofQuiet Quiet.outOfFuel
      evalFuncDecl := fun _ => BalNS.ofQuiet Quiet.outOfFuel
      evalCtorDecl := fun _ => BalNS.ofQuiet Quiet.outOfFuel }
  | n+1 => by
    have ih := allBal n
    exact {
      evalExpr := bal_evalExpr_succ n ih
      memberIV := bal_memberIV_succ n ih
      execFunction := bal_execFunction_succ n ih
      execDirectFunction := bal_execDirectFunction_succ n ih
      execMethodFunction := bal_execMethodFunction_succ n ih
      construct := bal_construct_succ n ih
      evalExecBlock := bal_evalExecBlock_succ n ih
      handleException := bal_handleException_succ n ih
      evalStmtBlock := bal_evalStmtBlock_succ n ih
      evalPureStmtBlock := bal_evalPureStmtBlock_succ n ih
      evalStmt := bal_evalStmt_succ n ih
      evalClassDecl := bal_evalClassDecl_succ n ih
      evalFuncDecl := bal_evalFuncDecl_succ n
      evalCtorDecl := bal_evalCtorDecl_succ n }

end ZnVerif.Proofs.StackBal
