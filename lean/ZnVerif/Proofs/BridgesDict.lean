/-
Bridge (A) ↔ (C), dictionaries, pure part.  The evaluator model keeps a dictionary cell as `.hm vals order`: `vals` an
association list in insertion order (`hmAppend` overwrites in place, appends at the end), `order` the key list.
`Model/Containers.lean` keeps `HashMap.value` as an association list with *unordered* semantics (`mapSet` moves the
written key to the front, so that nothing can depend on its order) plus `keyOrder`.  The two are therefore related,
not equal: same `keyOrder`, same lookup function (`Rhm`).  Under the evaluator's invariant `dictWF` (= what
`C12.hm_inv` keeps, plus "`vals` is listed in `order`") `vals` *is* the ordered map that (C)'s `abs` computes.
-/
import ZnVerif.Proofs.HeapMutators
import ZnVerif.Proofs.HashMapCell
import ZnVerif.Proofs.Containers
set_option linter.unusedSectionVars false
set_option linter.unusedVariables false

namespace ZnVerif.Proofs.Bridges
open ZnVerif ZnVerif.Model
open ZnVerif.Model.Containers (HashMap mapGet mapSet mapDelete appendKVPair newHashMap newHashMapStep emptyHashMap
  hmDelete deleteLoop DictOp OpResult)
open ZnVerif.Proofs.Containers (Inv dom)

/-! ## the relation -/

/-- evaluator cell contents `(vals, order)` and a `Containers.HashMap`: same key order, same map -/
structure Rhm (vals : List (String × Addr)) (order : List String) (hm : HashMap Addr) : Prop where
  order : order = hm.keyOrder
  get : ∀ k, lookup k vals = mapGet hm.value k

/-- the evaluator cell read as a `Containers.HashMap` -/
def toC (vals : List (String × Addr)) (order : List String) : HashMap Addr := ⟨vals, order⟩

theorem lookup_eq_mapGet {β : Type} (k : String) : ∀ vals : List (String × β), lookup k vals = mapGet vals k
  | [] => rfl
  | (k', v) :: rest => by
    by_cases h : k = k'
    · simp [lookup, mapGet, h]
    · have h' : ¬ k' = k := fun e => h e.symm
      simp only [lookup, mapGet, h, h', if_false]
      exact lookup_eq_mapGet k rest

theorem Rhm_toC (vals : List (String × Addr)) (order : List String) : Rhm vals order (toC vals order) :=
  ⟨rfl, fun k => lookup_eq_mapGet k vals⟩

/-! ## lookups after the evaluator's association-list updates -/

theorem lookup_assocSet {β : Type} (k : String) (v : β) (k' : String) : ∀ vals : List (String × β),
    lookup k' (assocSet k v vals) = if k' = k then some v else lookup k' vals
  | [] => by simp [assocSet, lookup]
  | (k0, v0) :: rest => by
    by_cases h : k = k0
    · subst h
      by_cases h' : k' = k
      · simp [assocSet, lookup, h']
      · simp [assocSet, lookup, h']
    · simp only [assocSet, h, if_false, lookup, lookup_assocSet k v k' rest]
      by_cases h0 : k' = k0
      · simp [h0]
        intro e; exact absurd e.symm h
      · simp [h0]

theorem lookup_append_single {β : Type} (k : String) (v : β) (k' : String) : ∀ vals : List (String × β),
    lookup k vals = none → lookup k' (vals ++ [(k, v)]) = if k' = k then some v else lookup k' vals
  | [], _ => by simp [lookup]
  | (k0, v0) :: rest, h => by
    have hk0 : ¬ k = k0 := by
      intro e; simp [lookup, e] at h
    have hrest : lookup k rest = none := by simpa [lookup, hk0] using h
    simp only [List.cons_append, lookup, lookup_append_single k v k' rest hrest]
    by_cases h0 : k' = k0
    · have : ¬ k' = k := fun e => hk0 (e.symm.trans h0)
      simp [h0]
      intro e; exact absurd e.symm hk0
    · simp [h0]

theorem lookup_assocErase {β : Type} (k k' : String) : ∀ vals : List (String × β), (vals.map Prod.fst).Nodup →
    lookup k' (assocErase k vals) = if k' = k then none else lookup k' vals
  | [], _ => by simp [assocErase, lookup]
  | (k0, v0) :: rest, hnd => by
    simp only [List.map_cons, List.nodup_cons] at hnd
    by_cases h : k = k0
    · subst h
      simp only [assocErase, if_true, lookup]
      by_cases h' : k' = k
      · subst h'
        simp only [if_true]
        exact lookup_none_of_not_mem _ _ hnd.1
      · simp [h']
    · simp only [assocErase, h, if_false, lookup, lookup_assocErase k k' rest hnd.2]
      by_cases h0 : k' = k0
      · have : ¬ k' = k := fun e => h (e.symm.trans h0)
        simp [h0]
        intro e; exact absurd e.symm h
      · simp [h0]

/-! ## `hmAppend` ↔ `appendKVPair`, `newHashMapCell` ↔ `newHashMap`, removal ↔ `hmDelete` -/

/-- `AppendKVPair` -/
theorem hmAppend_bridge {vals : List (String × Addr)} {order : List String} {hm : HashMap Addr} (h : Rhm vals order hm)
    (k : String) (v : Addr) :
    Rhm (hmAppend vals order k v).1 (hmAppend vals order k v).2 (appendKVPair hm k v) := by
  unfold hmAppend appendKVPair
  rw [← h.get k]
  cases hl : lookup k vals with
  | some old =>
    refine ⟨h.order, fun k' => ?_⟩
    show lookup k' (assocSet k v vals) = mapGet (mapSet hm.value k v) k'
    rw [lookup_assocSet, Containers.mapGet_mapSet, h.get k']
  | none =>
    refine ⟨by show order ++ [k] = hm.keyOrder ++ [k]; rw [h.order], fun k' => ?_⟩
    show lookup k' (vals ++ [(k, v)]) = mapGet (mapSet hm.value k v) k'
    rw [lookup_append_single k v k' vals hl, Containers.mapGet_mapSet, h.get k']

theorem hmStep_bridge {st : List (String × Addr) × List String} {hm : HashMap Addr} (h : Rhm st.1 st.2 hm)
    (kv : String × Addr) : Rhm (hmStep st kv).1 (hmStep st kv).2 (newHashMapStep hm kv) := by
  rw [Containers.newHashMapStep_eq]
  exact hmAppend_bridge h kv.1 kv.2

theorem hmFold_bridge : ∀ (kvs : List (String × Addr)) (st : List (String × Addr) × List String) (hm : HashMap Addr),
    Rhm st.1 st.2 hm → Rhm (kvs.foldl hmStep st).1 (kvs.foldl hmStep st).2 (kvs.foldl newHashMapStep hm)
  | [], _, _, h => h
  | kv :: kvs, st, hm, h => hmFold_bridge kvs _ _ (hmStep_bridge h kv)

/-- `NewHashMap` -/
theorem newHashMapCell_bridge {ν : Type} (kvs : List (String × Addr)) :
    ∃ vals order, (newHashMapCell kvs : Cell ν) = .hm vals order ∧ Rhm vals order (newHashMap kvs) :=
  ⟨_, _, newHashMapCell_eq kvs, hmFold_bridge kvs ([], []) emptyHashMap ⟨rfl, fun _ => rfl⟩⟩

/-- 移除 of a present key: the evaluator's `assocErase` / `List.erase` is what (C)'s in-place delete loop leaves —
*because* `keyOrder` has no duplicates ((C)'s invariant) and the association list has one entry per key -/
theorem erase_bridge {vals : List (String × Addr)} {order : List String} {hm : HashMap Addr} (h : Rhm vals order hm)
    (hkeys : (vals.map Prod.fst).Nodup) (hnd : hm.keyOrder.Nodup) (k : String) (v : Addr) (hl : lookup k vals = some v) :
    ∃ hm', hmDelete hm k = .ok (some v, hm') ∧ Rhm (assocErase k vals) (order.erase k) hm' := by
  unfold hmDelete
  rw [← h.get k, hl, Containers.deleteLoop_eq_erase _ _ hnd]
  refine ⟨_, rfl, by show order.erase k = hm.keyOrder.erase k; rw [h.order], fun k' => ?_⟩
  show lookup k' (assocErase k vals) = mapGet (mapDelete hm.value k) k'
  rw [lookup_assocErase k k' vals hkeys, Containers.mapGet_mapDelete, h.get k']

/-- 移除 of an absent key: nothing changes on either side -/
theorem erase_absent_bridge {vals : List (String × Addr)} {order : List String} {hm : HashMap Addr} (h : Rhm vals order hm)
    (k : String) (hl : lookup k vals = none) : hmDelete hm k = .ok (none, hm) := by
  unfold hmDelete
  rw [← h.get k, hl]

/-! ## the invariants -/

/-- the evaluator's invariant is (C)'s invariant on the cell read as a `Containers.HashMap` -/
theorem inv_of_dictWF {vals : List (String × Addr)} {order : List String} (h : dictWF vals order) :
    Inv (toC vals order) := by
  obtain ⟨h1, h2⟩ := h
  refine ⟨h2, fun k => ?_, ?_⟩
  · show k ∈ order ↔ k ∈ vals.map (·.1)
    rw [← h1]
  · show (vals.map (·.1)).Nodup
    have : vals.map (·.1) = order := h1
    rw [this]; exact h2

theorem filterMap_eq_self {β : Type} (f : β → Option β) : ∀ l : List β, (∀ p ∈ l, f p = some p) → l.filterMap f = l
  | [], _ => rfl
  | x :: rest, h => by
    rw [List.filterMap_cons, h x (by simp), filterMap_eq_self f rest (fun p hp => h p (by simp [hp]))]

/-- … and under it `vals` itself is the ordered map that (C)'s abstraction computes from any related `HashMap` -/
theorem abs_eq_vals {vals : List (String × Addr)} {order : List String} {hm : HashMap Addr} (h : Rhm vals order hm)
    (hwf : dictWF vals order) : ZnVerif.Proofs.Containers.abs hm = vals := by
  obtain ⟨h1, h2⟩ := hwf
  unfold ZnVerif.Proofs.Containers.abs ZnVerif.Proofs.Containers.absOf
  rw [← h.order, ← h1]
  have hnd : (vals.map Prod.fst).Nodup := by rw [h1]; exact h2
  rw [List.filterMap_map]
  have : ∀ p ∈ vals, ((fun k => (mapGet hm.value k).map (fun v => (k, v))) ∘ Prod.fst) p = some p := by
    intro p hp
    show (mapGet hm.value p.1).map (fun v => (p.1, v)) = some p
    rw [← h.get p.1, lookup_of_mem_nodup vals hnd p hp]
    rfl
  exact filterMap_eq_self _ vals this

end ZnVerif.Proofs.Bridges
