/-
The two state monads (`Model.M`, `Spec.SM`) are lawful; consequences used by the refinement proofs:
`List.mapM` unfolds one element at a time.
-/
import ZnVerif.Model.Interp
import ZnVerif.Spec.Sem

namespace ZnVerif.Proofs
open ZnVerif.Model

variable {ν : Type}

theorem M.bind_def {α β} (m : M ν α) (f : α → M ν β) (s : VM ν) :
    (m >>= f) s = match m s with
      | (.ok a, s') => f a s'
      | (.err e, s') => (.err e, s')
      | (.panic, s') => (.panic, s')
      | (.fuel, s') => (.fuel, s')
      | (.unmodelled, s') => (.unmodelled, s') := rfl

instance : LawfulMonad (M ν) := LawfulMonad.mk'
  (id_map := by
    intro α x; funext s
    show (x >>= fun a => pure (id a)) s = x s
    rw [M.bind_def]
    rcases x s with ⟨r, s'⟩; cases r <;> rfl)
  (pure_bind := by intros; rfl)
  (bind_assoc := by
    intro α β γ x f g; funext s
    rw [M.bind_def, M.bind_def, M.bind_def]
    rcases x s with ⟨r, s'⟩; cases r <;> rfl)

open ZnVerif.Spec in
theorem SM.bind_def {α β} (m : SM ν α) (f : α → SM ν β) (σ : SState ν) :
    (m >>= f) σ = match m σ with
      | (.ok a, s') => f a s'
      | (.brk, s') => (.brk, s')
      | (.cont, s') => (.cont, s')
      | (.ret v, s') => (.ret v, s')
      | (.raise e, s') => (.raise e, s')
      | (.fatal c, s') => (.fatal c, s')
      | (.unspecified, s') => (.unspecified, s')
      | (.fuel, s') => (.fuel, s') := rfl

open ZnVerif.Spec in
instance : LawfulMonad (SM ν) := LawfulMonad.mk'
  (id_map := by
    intro α x; funext s
    show (x >>= fun a => pure (id a)) s = x s
    rw [SM.bind_def]
    rcases x s with ⟨r, s'⟩; cases r <;> rfl)
  (pure_bind := by intros; rfl)
  (bind_assoc := by
    intro α β γ x f g; funext s
    rw [SM.bind_def, SM.bind_def, SM.bind_def]
    rcases x s with ⟨r, s'⟩; cases r <;> rfl)

end ZnVerif.Proofs
