/-
Who may touch the line marker of a frame (C18, after `SetCurrentLine` moved to the top of every 每当 pass and frames
remember whether a statement has begun in them).

`Lit m`   — on EVERY outcome of `m` the final call stack is the starting one, literally (every field of every frame:
            `line`, `started`, `ret` included), with the frames of calls that failed on top.  Holds for expressions,
            calls, constructors and declarations: `setTopFrame` occurs in `evalStmt` only, and whatever a callee does
            happens above the caller's stack (`BalIn`, from the stack induction `allBal`).
(`Kept`, the statement-level companion about the `started` mark, is in Proofs/StartedKeep.lean.)
-/
import ZnVerif.Proofs.StackBalBlock
set_option linter.unusedSectionVars false
set_option linter.unusedSimpArgs false
set_option linter.unusedVariables false

namespace ZnVerif.Proofs.LineKeep
open ZnVerif.Model ZnVerif.Proofs.Calls ZnVerif.Proofs.StackBal

variable {ν : Type} [NumOps ν]

/-! ## `Lit` -/

structure Lit {α} (m : M ν α) : Prop where
  ext : ∀ s, ∃ extra, (m s).2.stack = extra ++ s.stack

section rules
variable {α β : Type}

theorem Lit.ofQuiet {m : M ν α} (h : Quiet m) : Lit m := ⟨fun s => ⟨[], by rw [h.stack]; rfl⟩⟩

theorem Lit.pure (a : α) : Lit (pure a : M ν α) := Lit.ofQuiet (Quiet.pure a)

theorem Lit.bind {m : M ν α} {f : α → M ν β} (hm : Lit m) (hf : ∀ a, Lit (f a)) : Lit (m >>= f) := by
  refine ⟨fun s => ?_⟩
  rw [M_bind_def]
  obtain ⟨e1, h1⟩ := hm.ext s
  rcases h : m s with ⟨r, s'⟩
  rw [h] at h1
  cases r with
  | ok a =>
    obtain ⟨e2, h2⟩ := (hf a).ext s'
    exact ⟨e2 ++ e1, by simp only; rw [h2, h1, List.append_assoc]⟩
  | err e => exact ⟨e1, h1⟩
  | panic => exact ⟨e1, h1⟩
  | fuel => exact ⟨e1, h1⟩
  | unmodelled => exact ⟨e1, h1⟩

theorem Lit.mapM {f : α → M ν β} (h : ∀ a, Lit (f a)) : ∀ l : List α, Lit (l.mapM f)
  | [] => by rw [mapM_nil]; exact Lit.pure _
  | a :: l => by
    rw [mapM_cons]
    exact Lit.bind (h a) fun _ => Lit.bind (Lit.mapM h l) fun _ => Lit.pure _

theorem Lit.forM {f : α → M ν PUnit} (h : ∀ a, Lit (f a)) : ∀ l : List α, Lit (l.forM f)
  | [] => by show Lit (Pure.pure PUnit.unit); exact Lit.pure _
  | a :: l => by
    show Lit (f a >>= fun _ => l.forM f)
    exact Lit.bind (h a) fun _ => Lit.forM h l

theorem Lit.foldlM {f : β → α → M ν β} (h : ∀ b a, Lit (f b a)) : ∀ (l : List α) (b : β), Lit (l.foldlM f b)
  | [], b => by rw [List.foldlM_nil]; exact Lit.pure _
  | a :: l, b => by
    rw [List.foldlM_cons]
    exact Lit.bind (h b a) fun _ => Lit.foldlM h l _

/-- code running right after a `pushFrame`: whatever its outcome, the stack below the pushed frame is left as it is,
literally -/
structure InLit {α} (m : M ν α) : Prop where
  ext : ∀ s fr rest, s.stack = fr :: rest → ∃ extra, (m s).2.stack = extra ++ rest

theorem InLit.bind {m : M ν α} {f : α → M ν β} (hm : BalNS m) (hf : ∀ a, InLit (f a)) : InLit (m >>= f) := by
  refine ⟨fun s fr rest hs => ?_⟩
  rw [M_bind_def]
  have h1 := hm.ext s; have h2 := hm.same s
  rcases h : m s with ⟨r, s'⟩
  rw [h] at h1 h2
  have hfail : ∃ extra, s'.stack = extra ++ rest := by
    obtain ⟨extra, base, e1, e2⟩ := h1
    rw [hs] at e2
    obtain ⟨f', rfl, _⟩ := norm_cons_eq e2
    exact ⟨extra ++ [f'], by rw [e1]; simp⟩
  cases r with
  | ok a =>
    have hsame := h2 rfl
    rw [hs] at hsame
    obtain ⟨fr', hs', _⟩ := norm_cons_eq hsame
    exact (hf a).ext s' fr' rest hs'
  | err e => exact hfail
  | panic => exact hfail
  | fuel => exact hfail
  | unmodelled => exact hfail

theorem InLit.pop (x : α) : InLit (popFrame (ν := ν) >>= fun _ => pure x) :=
  ⟨fun s fr rest hs => ⟨[], by rw [bind_ok (popFrame_cons s fr rest hs)]; rfl⟩⟩

theorem InLit.ofSame {m : M ν α} (h : ∀ s, (m s).2.stack = s.stack) : InLit m :=
  ⟨fun s fr rest hs => ⟨[fr], by rw [h, hs]; rfl⟩⟩

theorem InLit.rtErr (c : Nat) : InLit (rtErr c : M ν α) := InLit.ofSame fun _ => rfl
theorem InLit.goPanic : InLit (goPanic : M ν α) := InLit.ofSame fun _ => rfl

/-- a call: push one frame, run code that leaves everything below that frame alone -/
theorem Lit.push (fr : Frame) {m : M ν α} (hm : InLit m) : Lit (pushFrame fr >>= fun _ => m) := by
  have hp : ∀ s : VM ν, pushFrame fr s = (.ok (), (pushFrame fr s).2) := by intro s; unfold pushFrame modifyVM; rfl
  refine ⟨fun s => ?_⟩
  rw [bind_ok (hp s)]
  exact hm.ext _ fr s.stack (pushFrame_run fr s).2.1

end rules

/-! ### the induction on fuel (expressions and calls; what runs inside a pushed frame is covered by `allBal`) -/

structure AllLit (n : Nat) : Prop where
  evalExpr : ∀ e, Lit (evalExpr (ν := ν) n e)
  memberIV : ∀ e, Lit (memberIV (ν := ν) n e)
  execDirectFunction : ∀ f ps, Lit (execDirectFunction (ν := ν) n f ps)
  execMethodFunction : ∀ r f ps, Lit (execMethodFunction (ν := ν) n r f ps)
  construct : ∀ c ps, Lit (construct (ν := ν) n c ps)

syntax "lit_prim" : tactic

macro_rules | `(tactic| lit_prim) => `(tactic| first
  | with_reducible apply Lit.push
  | with_reducible apply InLit.pop | with_reducible apply InLit.rtErr | with_reducible apply InLit.goPanic
  | with_reducible apply InLit.bind
  | with_reducible apply Lit.bind
  | with_reducible apply Lit.mapM
  | with_reducible apply Lit.forM
  | with_reducible apply Lit.foldlM
  | ((with_reducible (apply Lit.ofQuiet)); quiet_prim))

/-- `ih : AllBal n` (for what runs inside a pushed frame) -/
macro "lit_bal" ih:ident : tactic => `(tactic| repeat' (first
  | assumption
  | ((show BalNS _); (bal_ih $ih); done)
  | lit_prim | quiet_prim | intro _ | split | dsimp only))

/-- `ih : AllBal n`, `kh : AllLit n` -/
macro "lit_ih" ih:ident kh:ident : tactic => `(tactic| repeat' (first
  | assumption
  | with_reducible exact AllLit.evalExpr $kh _
  | with_reducible exact AllLit.memberIV $kh _
  | with_reducible exact AllLit.execDirectFunction $kh _ _
  | with_reducible exact AllLit.execMethodFunction $kh _ _ _
  | with_reducible exact AllLit.construct $kh _ _
  | ((show BalNS _); (bal_ih $ih); done)
  | lit_prim | quiet_prim | intro _ | split | dsimp only))

theorem lit_execDirectFunction_succ (n : Nat) (ih : AllBal (ν := ν) n) (f : String) (ps : List Addr) :
    Lit (execDirectFunction (ν := ν) (n+1) f ps) := by
  rw [Model.execDirectFunction]
  lit_bal ih

theorem lit_execMethodFunction_succ (n : Nat) (ih : AllBal (ν := ν) n) (r : Addr) (f : String) (ps : List Addr) :
    Lit (execMethodFunction (ν := ν) (n+1) r f ps) := by
  rw [Model.execMethodFunction]
  lit_bal ih

theorem lit_construct_succ (n : Nat) (ih : AllBal (ν := ν) n) (c : Addr) (ps : List Addr) :
    Lit (construct (ν := ν) (n+1) c ps) := by
  simp only [Model.construct]
  lit_bal ih

theorem lit_evalExpr_succ (n : Nat) (ih : AllBal (ν := ν) n) (kh : AllLit (ν := ν) n) (e : Expr) :
    Lit (evalExpr (ν := ν) (n+1) e) := by
  cases e <;> rw [Model.evalExpr] <;> lit_ih ih kh <;> contradiction

theorem lit_memberIV_succ (n : Nat) (ih : AllBal (ν := ν) n) (kh : AllLit (ν := ν) n) (e : Expr) :
    Lit (memberIV (ν := ν) (n+1) e) := by
  cases e <;> rw [Model.memberIV] <;> lit_ih ih kh <;> contradiction

theorem allLit : ∀ n : Nat, AllLit (ν := ν) n
  | 0 => by
    exact {
      evalExpr := fun _ => Lit.ofQuiet Quiet.outOfFuel
      memberIV := fun _ => Lit.ofQuiet Quiet.outOfFuel
      execDirectFunction := fun _ _ => Lit.ofQuiet Quiet.outOfFuel
      execMethodFunction := fun _ _ _ => Lit.ofQuiet Quiet.outOfFuel
      construct := fun _ _ => Lit.ofQuiet Quiet.outOfFuel }
  | n+1 => by
    have kh := allLit n
    have ih := allBal (ν := ν) n
    exact {
      evalExpr := lit_evalExpr_succ n ih kh
      memberIV := lit_memberIV_succ n ih kh
      execDirectFunction := lit_execDirectFunction_succ n ih
      execMethodFunction := lit_execMethodFunction_succ n ih
      construct := lit_construct_succ n ih }

/-! ### declarations -/

theorem lit_evalClassDecl (n : Nat) (st : Stmt) : Lit (evalClassDecl (ν := ν) n st) := by
  cases n with
  | zero => exact Lit.ofQuiet Quiet.outOfFuel
  | succ n =>
    have kh := allLit (ν := ν) n
    have ih := allBal (ν := ν) n
    cases st <;> rw [Model.evalClassDecl] <;> lit_ih ih kh <;> contradiction

theorem lit_evalFuncDecl (n : Nat) (st : Stmt) : Lit (evalFuncDecl (ν := ν) n st) := by
  cases n with
  | zero => exact Lit.ofQuiet Quiet.outOfFuel
  | succ n =>
    cases st <;> rw [Model.evalFuncDecl] <;>
      (repeat' (first | lit_prim | quiet_prim | intro _ | split | dsimp only)) <;> contradiction

theorem lit_evalCtorDecl (n : Nat) (st : Stmt) : Lit (evalCtorDecl (ν := ν) n st) := by
  cases n with
  | zero => exact Lit.ofQuiet Quiet.outOfFuel
  | succ n =>
    cases st <;> rw [Model.evalCtorDecl] <;>
      (repeat' (first | lit_prim | quiet_prim | intro _ | split | dsimp only)) <;> contradiction

end ZnVerif.Proofs.LineKeep
