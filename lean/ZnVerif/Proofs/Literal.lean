/-
Helper lemmas for C13 (string literals): the "rest of the text" view of the lexer state, one-step lemmas for the
`parseString` loop body and complete runs of the back-tick machine on the documented escapes.
-/
import ZnVerif.Model.Lexer
import ZnVerif.Spec.Literal
import ZnVerif.Spec.Lines

namespace ZnVerif.Model
open ZnVerif.Generated ZnVerif.Generated.Tokens

namespace Lexer

/-- the characters after the current one -/
def rest (l : Lexer) : List Nat := l.src.toList.drop (l.cursor + 1)

theorem getChar_of_getElem? {l : Lexer} {i a : Nat} (h : l.src.toList[i]? = some a) : l.getChar i = a := by
  obtain ⟨hi, ha⟩ := List.getElem?_eq_some_iff.mp h
  have hi' : i < l.src.size := by simpa using hi
  unfold getChar
  simp only [hi', ↓reduceDIte]
  simpa using ha

theorem getChar_of_ge {l : Lexer} {i : Nat} (h : l.src.size ≤ i) : l.getChar i = 0 := by
  unfold getChar
  have : ¬ i < l.src.size := by omega
  simp [this, runeEOF]

theorem drop_cons {α : Type} {xs : List α} {n : Nat} {a : α} {r : List α} (h : xs.drop n = a :: r) :
    xs[n]? = some a ∧ xs.drop (n + 1) = r := by
  constructor
  · have := congrArg List.head? h
    simpa [List.head?_drop] using this
  · have := congrArg List.tail h
    simpa [List.tail_drop] using this

theorem rest_cons {l : Lexer} {a : Nat} {r : List Nat} (h : l.rest = a :: r) :
    l.peek = a ∧ l.adv.rest = r := by
  obtain ⟨h1, h2⟩ := drop_cons h
  exact ⟨getChar_of_getElem? h1, h2⟩

theorem adv_cur (l : Lexer) : l.adv.cur = l.peek := rfl
theorem adv_peek (l : Lexer) : l.adv.peek = l.peek2 := rfl

theorem rest_cons2 {l : Lexer} {a b : Nat} {r : List Nat} (h : l.rest = a :: b :: r) :
    l.peek = a ∧ l.peek2 = b ∧ l.adv.adv.rest = r := by
  obtain ⟨h1, h2⟩ := rest_cons h
  obtain ⟨h3, h4⟩ := rest_cons h2
  exact ⟨h1, h3, h4⟩

theorem rest_nil {l : Lexer} (h : l.rest = []) : l.peek = 0 := by
  unfold rest at h
  have : l.src.toList.length ≤ l.cursor + 1 := List.drop_eq_nil_iff.mp h
  exact getChar_of_ge (by simpa using this)

/-- peek of the head of the rest, 0 at the end -/
theorem peek_eq_head (l : Lexer) : l.peek = l.rest.head?.getD 0 := by
  cases h : l.rest with
  | nil => simp [rest_nil h]
  | cons a r => simp [(rest_cons h).1]

theorem rest_of_peek_ne_zero {l : Lexer} (h : l.peek ≠ 0) : l.rest = l.peek :: l.adv.rest := by
  cases hr : l.rest with
  | nil => exact absurd (rest_nil hr) h
  | cons a r => obtain ⟨h1, h2⟩ := rest_cons hr; rw [h1, h2]

@[simp] theorem pushLine_rest (l : Lexer) (li : LineInfo) : (l.pushLine li).rest = l.rest := rfl
@[simp] theorem pushLine_cur (l : Lexer) (li : LineInfo) : (l.pushLine li).cur = l.cur := rfl
@[simp] theorem pushLine_peek (l : Lexer) (li : LineInfo) : (l.pushLine li).peek = l.peek := rfl

theorem rest_skip {l : Lexer} {a b : List Nat} (h : l.rest = a ++ b) :
    (l.setCursor (l.cursor + a.length)).rest = b := by
  unfold rest at h ⊢
  simp only [setCursor_src, setCursor_cursor]
  rw [show l.cursor + a.length + 1 = (l.cursor + 1) + a.length by omega, ← List.drop_drop, h]
  simp

theorem mkLexer_rest (a : Nat) (r : List Nat) : (mkLexer (a :: r)).rest = r := by
  simp [rest, mkLexer]

theorem mkLexer_cur (a : Nat) (r : List Nat) : (mkLexer (a :: r)).cur = a := by
  simp [cur, getChar, mkLexer]

end Lexer

/-! ### one pass of the `parseString` loop, by the kind of the next character -/

/-- an ordinary character for `parseString`: not the end, no line break, no quote, no back-tick -/
def Plain (c : Nat) : Prop :=
  c ≠ 0 ∧ c ≠ runeCR ∧ c ≠ runeLF ∧ c ∉ leftQuotes ∧ c ∉ rightQuotes ∧ c ≠ cBackTick

instance (c : Nat) : Decidable (Plain c) := by unfold Plain; infer_instance

section steps
variable {sch s ty : Nat} {l : Lexer} {lit : List Nat} {d : Nat} {c : Nat} {r : List Nat}

theorem strStep_eof (h : l.peek = 0) :
    parseStringStep sch s ty l (lit, d) = (.done (.err ⟨27, l.cursor + 1⟩), l.adv) := by
  unfold parseStringStep
  simp [Lexer.adv_cur, h, runeEOF]

theorem strStep_plain (h : l.rest = c :: r) (hc : Plain c) :
    parseStringStep sch s ty l (lit, d) = (.cont (lit ++ [c], d), l.adv) := by
  obtain ⟨h0, h1, h2, h3, h4, h5⟩ := hc
  have hp := (Lexer.rest_cons h).1
  unfold parseStringStep
  simp [Lexer.adv_cur, hp, runeEOF, h0, h1, h2, h3, h4, h5]

theorem strStep_left (h : l.rest = c :: r) (hc : c ∈ leftQuotes) :
    parseStringStep sch s ty l (lit, d) = (.cont (lit ++ [c], if sch == c then d + 1 else d), l.adv) := by
  have hp := (Lexer.rest_cons h).1
  have h0 : c ≠ 0 := by intro h0; subst h0; revert hc; decide
  have h1 : c ≠ runeCR := by intro h0; subst h0; revert hc; decide
  have h2 : c ≠ runeLF := by intro h0; subst h0; revert hc; decide
  unfold parseStringStep
  simp [Lexer.adv_cur, hp, runeEOF, h0, h1, h2, hc]

theorem strStep_right_other (h : l.rest = c :: r) (hc : c ∈ rightQuotes)
    (hm : quoteMatchMap.lookup sch ≠ some c) :
    parseStringStep sch s ty l (lit, d) = (.cont (lit ++ [c], d), l.adv) := by
  have hp := (Lexer.rest_cons h).1
  have h0 : c ≠ 0 := by intro h0; subst h0; revert hc; decide
  have h1 : c ≠ runeCR := by intro h0; subst h0; revert hc; decide
  have h2 : c ≠ runeLF := by intro h0; subst h0; revert hc; decide
  have h3 : c ∉ leftQuotes := by
    intro h3; revert hc; simp only [leftQuotes, rightQuotes, List.mem_cons, List.not_mem_nil, or_false] at h3 ⊢
    rcases h3 with h3 | h3 | h3 | h3 | h3 <;> subst h3 <;> decide
  unfold parseStringStep
  simp [Lexer.adv_cur, hp, runeEOF, h0, h1, h2, h3, hc, hm]

theorem strStep_right_own (h : l.rest = c :: r) (hc : c ∈ rightQuotes)
    (hm : quoteMatchMap.lookup sch = some c) :
    parseStringStep sch s ty l (lit, d) =
      if d - 1 = 0 then
        (.done (.ok { type := ty, literal := lit, startIdx := s, endIdx := l.cursor + 2 }), l.adv.adv)
      else (.cont (lit ++ [c], d - 1), l.adv) := by
  have hp := (Lexer.rest_cons h).1
  have h0 : c ≠ 0 := by intro h0; subst h0; revert hc; decide
  have h1 : c ≠ runeCR := by intro h0; subst h0; revert hc; decide
  have h2 : c ≠ runeLF := by intro h0; subst h0; revert hc; decide
  have h3 : c ∉ leftQuotes := by
    intro h3; revert hc; simp only [leftQuotes, rightQuotes, List.mem_cons, List.not_mem_nil, or_false] at h3 ⊢
    rcases h3 with h3 | h3 | h3 | h3 | h3 <;> subst h3 <;> decide
  unfold parseStringStep
  simp [Lexer.adv_cur, hp, runeEOF, h0, h1, h2, h3, hc, hm]

/-- CR LF or LF CR: both characters in one pass, one line recorded -/
theorem strStep_pair (h : l.rest = c :: c' :: r)
    (hc : (c = runeCR ∧ c' = runeLF) ∨ (c = runeLF ∧ c' = runeCR)) :
    parseStringStep sch s ty l (lit, d) =
      (.cont (lit ++ [c, c'], d), l.adv.adv.pushLine { indents := 0, startIdx := l.cursor + 3 }) := by
  obtain ⟨hp, hp2, -⟩ := Lexer.rest_cons2 h
  unfold parseStringStep
  rcases hc with ⟨rfl, rfl⟩ | ⟨rfl, rfl⟩ <;>
    simp [Lexer.adv_cur, Lexer.adv_peek, hp, hp2, runeEOF, runeCR, runeLF]

/-- a lone CR or LF (the next character is not its partner) -/
theorem strStep_newline (h : l.rest = c :: r) (hc : c = runeCR ∨ c = runeLF)
    (hn : ¬ ((c = runeCR ∧ r.head? = some runeLF) ∨ (c = runeLF ∧ r.head? = some runeCR))) :
    parseStringStep sch s ty l (lit, d) =
      (.cont (lit ++ [c], d), l.adv.pushLine { indents := 0, startIdx := l.cursor + 2 }) := by
  obtain ⟨hp, hr⟩ := Lexer.rest_cons h
  have hcur : l.adv.cur = c := hp
  have hpk : l.adv.peek = r.head?.getD 0 := by rw [Lexer.peek_eq_head, hr]
  have hnp : ¬ ((c = runeCR ∧ r.head?.getD 0 = runeLF) ∨ (c = runeLF ∧ r.head?.getD 0 = runeCR)) := by
    intro hh; apply hn
    cases hr' : r.head? with
    | none => rw [hr'] at hh; simp [runeLF, runeCR] at hh
    | some x => rw [hr'] at hh; simpa using hh
  have hc0 : c ≠ 0 := by rcases hc with rfl | rfl <;> decide
  unfold parseStringStep
  have hcond : ((c == runeCR && r.head?.getD 0 == runeLF) || (c == runeLF && r.head?.getD 0 == runeCR)) = false := by
    simpa using hnp
  have hnl : (c == runeCR || c == runeLF) = true := by simpa using hc
  simp only [hcur, hpk, hcond, hnl, runeEOF, beq_iff_eq, hc0, ↓reduceIte, Bool.false_eq_true,
    Lexer.pushLine_cur, Lexer.adv_cursor]

theorem strStep_backtick (h : l.rest = cBackTick :: r) :
    parseStringStep sch s ty l (lit, d) =
      (.cont ((unescapeBackTick l.adv lit).1, d), (unescapeBackTick l.adv lit).2) := by
  have hp := (Lexer.rest_cons h).1
  unfold parseStringStep
  simp [Lexer.adv_cur, hp, runeEOF, runeCR, runeLF, cBackTick, leftQuotes, rightQuotes,
    cLeftDoubleQuoteI, cLeftDoubleQuoteII, cLeftSingleQuoteI, cLeftSingleQuoteII, cLeftLibQuoteI,
    cRightDoubleQuoteI, cRightDoubleQuoteII, cRightSingleQuoteI, cRightSingleQuoteII, cRightLibQuoteI]

end steps

/-! ### the back-tick machine -/

theorem lookup_some_mem {α β : Type} [BEq α] [LawfulBEq α] {xs : List (α × β)} {a : α} {b : β}
    (h : xs.lookup a = some b) : (a, b) ∈ xs := by
  induction xs with
  | nil => simp at h
  | cons x xs ih =>
    obtain ⟨k, v⟩ := x
    simp only [List.lookup_cons] at h
    split at h
    · rename_i heq
      have : a = k := by simpa using heq
      cases h; subst this; exact List.mem_cons_self
    · exact List.mem_cons_of_mem _ (ih h)

/-- table fact: the letters of the escape names are ordinary characters, and only `U`/`+` lead to `sU`/`smP` -/
theorem unescLetterTable_keys :
    ∀ row ∈ unescLetterTable, isQuoteChar row.1 = false ∧ row.1 ≠ 0 ∧ row.1 ≠ runeCR ∧ row.1 ≠ runeLF ∧
      row.1 ≠ cBackTick ∧ row.2.2 ≠ csHexNum ∧ row.2.2 ≠ csBegin ∧
      (row.2.2 = csU → row.1 = 0x55 ∧ row.2.1 = [csBegin]) ∧
      (row.2.2 = csmP → row.1 = 0x2B ∧ row.2.1 = [csU]) := by decide

theorem isUpperHex_ordinary {c : Nat} (h : isUpperHex c = true) :
    isQuoteChar c = false ∧ c ≠ 0 ∧ c ≠ runeCR ∧ c ≠ runeLF ∧ c ≠ cBackTick ∧ unescLetterTable.lookup c = none ∨
    isQuoteChar c = false ∧ c ≠ 0 ∧ c ≠ runeCR ∧ c ≠ runeLF ∧ c ≠ cBackTick := by
  right
  simp only [isUpperHex, Bool.or_eq_true, Bool.and_eq_true, decide_eq_true_eq] at h
  have hlt : c < 0x47 := by omega
  have hge : 0x30 ≤ c := by omega
  refine ⟨?_, by omega, by simp [runeCR]; omega, by simp [runeLF]; omega, by simp [cBackTick]; omega⟩
  simp only [isQuoteChar, leftQuotes, rightQuotes, cLeftDoubleQuoteI, cLeftDoubleQuoteII, cLeftSingleQuoteI,
    cLeftSingleQuoteII, cLeftLibQuoteI, cRightDoubleQuoteI, cRightDoubleQuoteII, cRightSingleQuoteI,
    cRightSingleQuoteII, cRightLibQuoteI, List.contains_cons, List.contains_nil, Bool.or_false, Bool.or_eq_false_iff,
    beq_eq_false_iff_ne]
  omega

section unesc
variable {src : List Nat} {l : Lexer} {u : UState} {c : Nat} {r : List Nat}

theorem unescStep_head (hq : isQuoteChar l.peek = false) (h0 : l.peek ≠ 0) (h1 : l.peek ≠ runeCR) (h2 : l.peek ≠ runeLF) :
    unescStep src l u = unescConsume src l u := by
  have he : endsBackTickText l.peek = false := by
    simp [endsBackTickText, runeEOF, h0, h1, h2]
  unfold unescStep
  simp only [hq, he, Bool.false_eq_true, ↓reduceIte]

theorem unescStep_quote (hc : l.cur = cBackTick) (h : l.rest = c :: cBackTick :: r) (hq : isQuoteChar c = true) :
    unescStep src l u = (.done (.decoded (src ++ [c])), l.adv.adv) := by
  obtain ⟨hp, hp2, -⟩ := Lexer.rest_cons2 h
  unfold unescStep
  simp only [hp, hp2, hq, hc, ↓reduceIte, beq_self_eq_true, Bool.and_self]

theorem unescStep_stop_quote (h : l.rest = c :: r) (hq : isQuoteChar c = true)
    (hn : ¬ (l.cur = cBackTick ∧ r.head? = some cBackTick)) :
    unescStep src l u = (.done (.undone u.buf), l) := by
  obtain ⟨hp, hr⟩ := Lexer.rest_cons h
  have hp2 : l.peek2 = r.head?.getD 0 := by rw [← Lexer.adv_peek, Lexer.peek_eq_head, hr]
  have : (l.cur == cBackTick && r.head?.getD 0 == cBackTick) = false := by
    apply Bool.eq_false_iff.mpr
    intro hh
    simp only [Bool.and_eq_true, beq_iff_eq] at hh
    apply hn; refine ⟨hh.1, ?_⟩
    cases hr' : r.head? with
    | none => rw [hr'] at hh; simp [cBackTick] at hh
    | some x => rw [hr'] at hh; simpa using hh.2
  unfold unescStep
  simp only [hp, hp2, hq, this, ↓reduceIte, Bool.false_eq_true]

theorem unescStep_letter {from_ : List Nat} {to : Nat} (h : l.rest = c :: r)
    (hl : unescLetterTable.lookup c = some (from_, to)) (hs : from_.contains u.state = true)
    (hnh : ¬ (isUpperHex c = true ∧ (u.state = csmP ∨ u.state = csHexNum))) :
    unescStep src l u = (.cont ⟨to, u.hexCount, u.buf ++ [c]⟩, l.adv) := by
  have hp := (Lexer.rest_cons h).1
  obtain ⟨k1, k2, k3, k4, -⟩ := unescLetterTable_keys _ (lookup_some_mem hl)
  rw [unescStep_head (by rw [hp]; exact k1) (by rw [hp]; exact k2) (by rw [hp]; exact k3) (by rw [hp]; exact k4)]
  have hcur : l.adv.cur = c := hp
  have a1 : (isUpperHex c && u.state == csmP) = false := by
    cases hh : isUpperHex c <;> simp_all
  have a2 : (isUpperHex c && u.state == csHexNum) = false := by
    cases hh : isUpperHex c <;> simp_all
  unfold unescConsume
  simp only [hcur, a1, a2, hl, hs, ↓reduceIte, Bool.false_eq_true]

theorem unescStep_hex_first (h : l.rest = c :: r) (hx : isUpperHex c = true) (hs : u.state = csmP) :
    unescStep src l u = (.cont ⟨csHexNum, 1, u.buf ++ [c]⟩, l.adv) := by
  have hp := (Lexer.rest_cons h).1
  rcases isUpperHex_ordinary hx with ⟨k1, k2, k3, k4, -⟩ | ⟨k1, k2, k3, k4, -⟩ <;>
  · rw [unescStep_head (by rw [hp]; exact k1) (by rw [hp]; exact k2) (by rw [hp]; exact k3) (by rw [hp]; exact k4)]
    have hcur : l.adv.cur = c := hp
    unfold unescConsume
    simp [hcur, hx, hs]

theorem unescStep_hex_next (h : l.rest = c :: r) (hx : isUpperHex c = true) (hs : u.state = csHexNum) :
    unescStep src l u = (.cont ⟨csHexNum, u.hexCount + 1, u.buf ++ [c]⟩, l.adv) := by
  have hp := (Lexer.rest_cons h).1
  rcases isUpperHex_ordinary hx with ⟨k1, k2, k3, k4, -⟩ | ⟨k1, k2, k3, k4, -⟩ <;>
  · rw [unescStep_head (by rw [hp]; exact k1) (by rw [hp]; exact k2) (by rw [hp]; exact k3) (by rw [hp]; exact k4)]
    have hcur : l.adv.cur = c := hp
    have : csHexNum ≠ csmP := by decide
    unfold unescConsume
    simp [hcur, hx, hs, this]

theorem unescStep_close (h : l.rest = cBackTick :: r) :
    unescStep src l u = (.done (unescClose src u (u.buf ++ [cBackTick])), l.adv) := by
  have hp := (Lexer.rest_cons h).1
  rw [unescStep_head (by rw [hp]; decide) (by rw [hp]; decide) (by rw [hp]; decide) (by rw [hp]; decide)]
  have hcur : l.adv.cur = cBackTick := hp
  have h1 : isUpperHex cBackTick = false := by decide
  have h2 : unescLetterTable.lookup cBackTick = none := by decide
  unfold unescConsume
  simp [hcur, h1, h2]

/-- `unescStep_letter` with the loop variables spelled out (so that the side conditions are closed terms) -/
theorem unescStep_letter' {from_ : List Nat} {to st n : Nat} {buf : List Nat} (h : l.rest = c :: r)
    (hl : unescLetterTable.lookup c = some (from_, to)) (hs : from_.contains st = true)
    (hnh : ¬ (isUpperHex c = true ∧ (st = csmP ∨ st = csHexNum))) :
    unescStep src l ⟨st, n, buf⟩ = (.cont ⟨to, n, buf ++ [c]⟩, l.adv) :=
  unescStep_letter (u := ⟨st, n, buf⟩) h hl hs hnh

end unesc

/-! ### complete runs of the machine on the documented escapes -/

section runs
variable {src : List Nat} {l : Lexer} {r : List Nat}

theorem unesc_BK (hc : l.cur = cBackTick) (h : l.rest = 0x42 :: 0x4B :: cBackTick :: r) :
    unescapeBackTick l src = (src ++ [0x60], l.adv.adv.adv) := by
  have h1 := (Lexer.rest_cons h).2
  have h2 := (Lexer.rest_cons h1).2
  unfold unescapeBackTick
  rw [iterate_cont (unescStep_letter' (from_ := [csBegin, csA]) (to := csB) h (by decide) (by decide) (by decide))]
  rw [iterate_cont (unescStep_letter' (from_ := [csB]) (to := csK) h1 (by decide) (by decide) (by decide))]
  rw [iterate_done (unescStep_close h2)]
  simp [hc, unescClose, escTAB, escBK, cBackTick]

theorem unesc_SP (hc : l.cur = cBackTick) (h : l.rest = 0x53 :: 0x50 :: cBackTick :: r) :
    unescapeBackTick l src = (src ++ [0x20], l.adv.adv.adv) := by
  have h1 := (Lexer.rest_cons h).2
  have h2 := (Lexer.rest_cons h1).2
  unfold unescapeBackTick
  rw [iterate_cont (unescStep_letter' (from_ := [csBegin]) (to := csS) h (by decide) (by decide) (by decide))]
  rw [iterate_cont (unescStep_letter' (from_ := [csS]) (to := csP) h1 (by decide) (by decide) (by decide))]
  rw [iterate_done (unescStep_close h2)]
  simp [hc, unescClose, escTAB, escBK, escSP, cBackTick]

theorem unesc_CR (hc : l.cur = cBackTick) (h : l.rest = 0x43 :: 0x52 :: cBackTick :: r) :
    unescapeBackTick l src = (src ++ [0x0D], l.adv.adv.adv) := by
  have h1 := (Lexer.rest_cons h).2
  have h2 := (Lexer.rest_cons h1).2
  unfold unescapeBackTick
  rw [iterate_cont (unescStep_letter' (from_ := [csBegin]) (to := csC) h (by decide) (by decide) (by decide))]
  rw [iterate_cont (unescStep_letter' (from_ := [csC]) (to := csR) h1 (by decide) (by decide) (by decide))]
  rw [iterate_done (unescStep_close h2)]
  simp [hc, unescClose, escTAB, escBK, escSP, escCR, cBackTick]

theorem unesc_LF (hc : l.cur = cBackTick) (h : l.rest = 0x4C :: 0x46 :: cBackTick :: r) :
    unescapeBackTick l src = (src ++ [0x0A], l.adv.adv.adv) := by
  have h1 := (Lexer.rest_cons h).2
  have h2 := (Lexer.rest_cons h1).2
  unfold unescapeBackTick
  rw [iterate_cont (unescStep_letter' (from_ := [csBegin, csR]) (to := csL) h (by decide) (by decide) (by decide))]
  rw [iterate_cont (unescStep_letter' (from_ := [csL]) (to := csF) h1 (by decide) (by decide) (by decide))]
  rw [iterate_done (unescStep_close h2)]
  simp [hc, unescClose, escTAB, escBK, escSP, escCR, escLF, cBackTick]

theorem unesc_TAB (hc : l.cur = cBackTick) (h : l.rest = 0x54 :: 0x41 :: 0x42 :: cBackTick :: r) :
    unescapeBackTick l src = (src ++ [0x09], l.adv.adv.adv.adv) := by
  have h1 := (Lexer.rest_cons h).2
  have h2 := (Lexer.rest_cons h1).2
  have h3 := (Lexer.rest_cons h2).2
  unfold unescapeBackTick
  rw [iterate_cont (unescStep_letter' (from_ := [csBegin]) (to := csT) h (by decide) (by decide) (by decide))]
  rw [iterate_cont (unescStep_letter' (from_ := [csT]) (to := csA) h1 (by decide) (by decide) (by decide))]
  rw [iterate_cont (unescStep_letter' (from_ := [csBegin, csA]) (to := csB) h2 (by decide) (by decide) (by decide))]
  rw [iterate_done (unescStep_close h3)]
  simp [hc, unescClose, escTAB, cBackTick]

theorem unesc_CRLF (hc : l.cur = cBackTick) (h : l.rest = 0x43 :: 0x52 :: 0x4C :: 0x46 :: cBackTick :: r) :
    unescapeBackTick l src = (src ++ [0x0D, 0x0A], l.adv.adv.adv.adv.adv) := by
  have h1 := (Lexer.rest_cons h).2
  have h2 := (Lexer.rest_cons h1).2
  have h3 := (Lexer.rest_cons h2).2
  have h4 := (Lexer.rest_cons h3).2
  unfold unescapeBackTick
  rw [iterate_cont (unescStep_letter' (from_ := [csBegin]) (to := csC) h (by decide) (by decide) (by decide))]
  rw [iterate_cont (unescStep_letter' (from_ := [csC]) (to := csR) h1 (by decide) (by decide) (by decide))]
  rw [iterate_cont (unescStep_letter' (from_ := [csBegin, csR]) (to := csL) h2 (by decide) (by decide) (by decide))]
  rw [iterate_cont (unescStep_letter' (from_ := [csL]) (to := csF) h3 (by decide) (by decide) (by decide))]
  rw [iterate_done (unescStep_close h4)]
  simp [hc, unescClose, escTAB, escBK, escSP, escCR, escLF, escCRLF, cBackTick]

theorem unesc_quote {q : Nat} (hc : l.cur = cBackTick) (h : l.rest = q :: cBackTick :: r) (hq : isQuoteChar q = true) :
    unescapeBackTick l src = (src ++ [q], l.adv.adv) := by
  unfold unescapeBackTick
  rw [iterate_done (unescStep_quote hc h hq)]

/-- a run of hex digits in state `sHexNum` -/
theorem unesc_hex_run (ds : List Nat) (hds : ∀ d ∈ ds, isUpperHex d = true) :
    ∀ (l : Lexer) (n : Nat) (buf : List Nat), l.rest = ds ++ r →
      iterate (unescStep src) (unescStep_consumes src) l ⟨csHexNum, n, buf⟩ =
      iterate (unescStep src) (unescStep_consumes src) (l.setCursor (l.cursor + ds.length))
        ⟨csHexNum, n + ds.length, buf ++ ds⟩ := by
  induction ds with
  | nil => intro l n buf _; simp; rfl
  | cons d ds ih =>
    intro l n buf h
    have hd := hds d List.mem_cons_self
    have h1 := (Lexer.rest_cons (by simpa using h : l.rest = d :: (ds ++ r))).2
    rw [iterate_cont (unescStep_hex_next (u := ⟨csHexNum, n, buf⟩) (by simpa using h) hd rfl)]
    rw [ih (fun x hx => hds x (List.mem_cons_of_mem _ hx)) l.adv (n + 1) (buf ++ [d]) h1]
    have e1 : l.adv.setCursor (l.adv.cursor + ds.length) = l.setCursor (l.cursor + (d :: ds).length) := by
      simp [Lexer.setCursor, Lexer.adv]; omega
    have e2 : n + 1 + ds.length = n + (d :: ds).length := by simp; omega
    rw [e1, e2]; simp

theorem hexValue_eq_spec (ds : List Nat) : hexValue ds = Spec.Literal.hexVal ds := by
  unfold hexValue Spec.Literal.hexVal
  suffices ∀ a, List.foldl (fun a d => a * 16 + hexDigitVal d) a ds =
      List.foldl (fun a d => 16 * a + Spec.Literal.hexDigit d) a ds from this 0
  induction ds with
  | nil => intro a; rfl
  | cons d ds ih =>
    intro a
    simp only [List.foldl_cons]
    rw [ih]
    congr 1
    simp [hexDigitVal, Spec.Literal.hexDigit]; omega

theorem validRune_eq_spec (v : Nat) : validRune v = Spec.Literal.validScalar v := rfl

theorem unescClose_hex (d : Nat) (ds : List Nat) (hds : ∀ x ∈ d :: ds, isUpperHex x = true) (hlen : ds.length ≤ 7) :
    unescClose src ⟨csHexNum, 1 + ds.length, [0x60, 0x55, 0x2B, d] ++ ds⟩ ([0x60, 0x55, 0x2B, d] ++ ds ++ [cBackTick]) =
      if Spec.Literal.validScalar (Spec.Literal.hexVal (d :: ds)) then .decoded (src ++ [Spec.Literal.hexVal (d :: ds)])
      else .undone ([0x60, 0x55, 0x2B, d] ++ ds ++ [0x60]) := by
  have htake : (([0x60, 0x55, 0x2B, d] ++ ds ++ [cBackTick]).drop 3).take
      (([0x60, 0x55, 0x2B, d] ++ ds ++ [cBackTick]).length - 4) = d :: ds := by
    simp
  unfold unescClose
  simp only [htake]
  have n1 : (([0x60, 0x55, 0x2B, d] ++ ds ++ [cBackTick]) == escTAB) = false := by simp [escTAB]
  have n2 : (([0x60, 0x55, 0x2B, d] ++ ds ++ [cBackTick]) == escBK) = false := by simp [escBK]
  have n3 : (([0x60, 0x55, 0x2B, d] ++ ds ++ [cBackTick]) == escSP) = false := by simp [escSP]
  have n4 : (([0x60, 0x55, 0x2B, d] ++ ds ++ [cBackTick]) == escCR) = false := by simp [escCR]
  have n5 : (([0x60, 0x55, 0x2B, d] ++ ds ++ [cBackTick]) == escLF) = false := by simp [escLF]
  have n6 : (([0x60, 0x55, 0x2B, d] ++ ds ++ [cBackTick]) == escCRLF) = false := by simp [escCRLF]
  have hcnt : ((csHexNum == csHexNum && decide (1 ≤ 1 + ds.length)) && decide (1 + ds.length ≤ 8)) = true := by
    simp; omega
  simp only [n1, n2, n3, n4, n5, n6, Bool.false_eq_true, ↓reduceIte, hcnt]
  rw [← hexValue_eq_spec, ← validRune_eq_spec]
  unfold parseInt32Hex
  by_cases hv : hexValue (d :: ds) > 0x7FFFFFFF
  · have : validRune (hexValue (d :: ds)) = false := by
      simp [validRune]; omega
    simp [hv, this, cBackTick]
  · simp [hv, cBackTick]

/-- a closed group (buffer ending with its closing back-tick) is kept as it is -/
theorem keepGroup_closed (l : Lexer) (buf : List Nat) (h1 : 2 ≤ buf.length) (h2 : buf.getLast? = some cBackTick) :
    keepGroup src l buf = (src ++ buf, l) := by
  unfold keepGroup
  have a : (buf.length == 1) = false := by simp; omega
  simp [a, h2]

/-- `` `U+h…` `` with 1–8 hex digits: the code point if it is a valid scalar value, else the group as written -/
theorem unesc_U (d : Nat) (ds : List Nat) (hds : ∀ x ∈ d :: ds, isUpperHex x = true) (hlen : ds.length ≤ 7)
    (hc : l.cur = cBackTick) (h : l.rest = 0x55 :: 0x2B :: d :: (ds ++ cBackTick :: r)) :
    unescapeBackTick l src =
      (if Spec.Literal.validScalar (Spec.Literal.hexVal (d :: ds)) then src ++ [Spec.Literal.hexVal (d :: ds)]
        else src ++ ([0x60, 0x55, 0x2B, d] ++ ds ++ [0x60]), l.setCursor (l.cursor + 4 + ds.length)) := by
  have h1 := (Lexer.rest_cons h).2
  have h2 := (Lexer.rest_cons h1).2
  have h3 := (Lexer.rest_cons h2).2
  unfold unescapeBackTick
  rw [iterate_cont (unescStep_letter' (from_ := [csBegin]) (to := csU) h (by decide) (by decide) (by decide))]
  rw [iterate_cont (unescStep_letter' (from_ := [csU]) (to := csmP) h1 (by decide) (by decide) (by decide))]
  rw [iterate_cont (unescStep_hex_first (u := ⟨csmP, 0, [l.cur] ++ [0x55] ++ [0x2B]⟩) h2
    (hds d List.mem_cons_self) rfl)]
  rw [unesc_hex_run ds (fun x hx => hds x (List.mem_cons_of_mem _ hx)) l.adv.adv.adv 1 _ h3]
  have h4 : (l.adv.adv.adv.setCursor (l.adv.adv.adv.cursor + ds.length)).rest = cBackTick :: r :=
    Lexer.rest_skip h3
  rw [iterate_done (unescStep_close h4)]
  have ebuf : ([l.cur] ++ [0x55] ++ [0x2B] ++ [d] ++ ds : List Nat) = [0x60, 0x55, 0x2B, d] ++ ds := by
    simp [hc, cBackTick]
  have ecur : (l.adv.adv.adv.setCursor (l.adv.adv.adv.cursor + ds.length)).adv = l.setCursor (l.cursor + 4 + ds.length) := by
    simp [Lexer.setCursor, Lexer.adv]; omega
  dsimp only
  rw [ebuf, ecur, unescClose_hex d ds hds hlen]
  by_cases hv : Spec.Literal.validScalar (Spec.Literal.hexVal (d :: ds)) = true
  · simp only [hv, ↓reduceIte]
  · simp only [hv, ↓reduceIte, Bool.false_eq_true]
    rw [keepGroup_closed _ _ (by simp) (by rw [List.getLast?_append]; simp [cBackTick])]

end runs

/-! ### the `parseString` loop over a literal -/

open Spec.Literal (Quote)


theorem quote_facts (q : Quote) :
    q.opener ∈ leftQuotes ∧ q.closer ∈ rightQuotes ∧ quoteMatchMap.lookup q.opener = some q.closer ∧
    q.opener ≠ 0 ∧ q.closer ≠ 0 ∧ isQuoteChar q.opener = true ∧ isQuoteChar q.closer = true := by
  cases q <;> decide

theorem closer_unique (q : Quote) {c : Nat} (h : quoteMatchMap.lookup q.opener = some c) : c = q.closer := by
  have := (quote_facts q).2.2.1
  rw [this] at h; exact (Option.some.inj h).symm

section strsteps
variable {q : Quote} {s ty : Nat} {l : Lexer} {lit : List Nat} {n : Nat} {c : Nat} {r : List Nat}

theorem str_ordinary (h : l.rest = c :: r) (h0 : c ≠ 0) (hb : c ≠ cBackTick) (hcr : c ≠ runeCR)
    (hlf : c ≠ runeLF) (ho : c ≠ q.opener) (hcl : c ≠ q.closer) :
    parseStringStep q.opener s ty l (lit, n) = (.cont (lit ++ [c], n), l.adv) := by
  by_cases h1 : c ∈ leftQuotes
  · rw [strStep_left h h1]
    have : (q.opener == c) = false := by simp; exact fun e => ho e.symm
    simp [this]
  · by_cases h2 : c ∈ rightQuotes
    · exact strStep_right_other h h2 (fun e => hcl (closer_unique q e))
    · exact strStep_plain h ⟨h0, hcr, hlf, h1, h2, hb⟩

theorem str_opener (h : l.rest = q.opener :: r) :
    parseStringStep q.opener s ty l (lit, n) = (.cont (lit ++ [q.opener], n + 1), l.adv) := by
  rw [strStep_left h (quote_facts q).1]; simp

theorem str_closer (h : l.rest = q.closer :: r) :
    parseStringStep q.opener s ty l (lit, n) =
      if n - 1 = 0 then
        (.done (.ok { type := ty, literal := lit, startIdx := s, endIdx := l.cursor + 2 }), l.adv.adv)
      else (.cont (lit ++ [q.closer], n - 1), l.adv) :=
  strStep_right_own h (quote_facts q).2.1 (quote_facts q).2.2.1

end strsteps

open Spec.Literal in
theorem encodeSafe_cons (q : Quote) (c : Nat) (t : List Nat) :
    encodeSafe q (c :: t) = encodeChar q c ++ encodeSafe q t := by
  simp [encodeSafe]

open Spec.Literal in
/-- the first character written for `c` is `c` itself or a back-tick -/
theorem encodeChar_head (q : Quote) (c : Nat) :
    ∃ x tl, encodeChar q c = x :: tl ∧ (x = c ∨ x = 0x60) := by
  unfold encodeChar
  split
  · exact ⟨_, _, rfl, Or.inr rfl⟩
  · split
    · exact ⟨_, _, rfl, Or.inr rfl⟩
    · split
      · exact ⟨_, _, rfl, Or.inr rfl⟩
      · exact ⟨_, _, rfl, Or.inl rfl⟩

open Spec.Literal in
/-- what follows a line-break character in an encoded text is never its partner unless the text says so -/
theorem encodeSafe_head_ne (q : Quote) (t post : List Nat) (x : Nat) (hx : x = runeCR ∨ x = runeLF)
    (ht : t.head? ≠ some x) : (encodeSafe q t ++ q.closer :: post).head? ≠ some x := by
  cases t with
  | nil =>
    simp only [encodeSafe, List.flatMap_nil, List.nil_append, List.head?_cons]
    intro h
    have h' : q.closer = x := Option.some.inj h
    have := (quote_facts q).2.1
    rw [h'] at this
    rcases hx with rfl | rfl <;> revert this <;> decide
  | cons c t' =>
    obtain ⟨y, tl, he, hy⟩ := encodeChar_head q c
    rw [encodeSafe_cons, he]
    simp only [List.cons_append, List.head?_cons]
    intro h
    have h' : y = x := Option.some.inj h
    rcases hy with rfl | rfl
    · apply ht; simp [h']
    · rcases hx with rfl | rfl <;> revert h' <;> decide

open Spec.Literal in
/-- the loop of `parseString` over `encodeSafe q t`: every character of `t` is appended, the depth is untouched -/
theorem safe_run (q : Quote) (s ty : Nat) (post : List Nat) :
    ∀ (k : Nat) (t : List Nat), t.length = k → ∀ (l : Lexer) (lit : List Nat) (n : Nat),
      l.rest = encodeSafe q t ++ q.closer :: post →
      ∃ l', l'.src = l.src ∧ l'.cursor = l.cursor + (encodeSafe q t).length ∧ l'.rest = q.closer :: post ∧
        parseStringLoop q.opener s ty l (lit, n) = parseStringLoop q.opener s ty l' (lit ++ t, n) := by
  intro k
  induction k using Nat.strongRecOn with
  | _ k ih =>
  intro t hk l lit n h
  cases t with
  | nil => exact ⟨l, rfl, by simp [encodeSafe], by simpa [encodeSafe] using h, by simp⟩
  | cons c t' =>
    have hlen : t'.length < k := by simp at hk; omega
    rw [encodeSafe_cons] at h ⊢
    -- continuing after `j` source characters that produced `out`
    have fin : ∀ (l1 : Lexer) (out : List Nat) (t'' : List Nat) (j : Nat), t''.length < k →
        l1.src = l.src → l1.cursor = l.cursor + j → l1.rest = encodeSafe q t'' ++ q.closer :: post →
        j + (encodeSafe q t'').length = (encodeChar q c ++ encodeSafe q t').length → lit ++ out ++ t'' = lit ++ c :: t' →
        parseStringLoop q.opener s ty l (lit, n) = parseStringLoop q.opener s ty l1 (lit ++ out, n) →
        ∃ l', l'.src = l.src ∧ l'.cursor = l.cursor + (encodeChar q c ++ encodeSafe q t').length ∧
          l'.rest = q.closer :: post ∧
          parseStringLoop q.opener s ty l (lit, n) = parseStringLoop q.opener s ty l' (lit ++ c :: t', n) := by
      intro l1 out t'' j hl'' hsrc hcur hrest hj hout hstep
      obtain ⟨l', a, b, c', d⟩ := ih t''.length hl'' t'' rfl l1 (lit ++ out) n hrest
      refine ⟨l', by rw [a, hsrc], by rw [b, hcur, ← hj]; omega, c', ?_⟩
      rw [hstep, d, hout]
    by_cases hb : c = Spec.Literal.backTick
    · -- `BK`
      subst hb
      have he : encodeChar q Spec.Literal.backTick = [0x60, 0x42, 0x4B, 0x60] := by simp [encodeChar]
      rw [he] at h
      have h' : l.rest = cBackTick :: 0x42 :: 0x4B :: cBackTick :: (encodeSafe q t' ++ q.closer :: post) := by
        simpa [cBackTick] using h
      have h1 := Lexer.rest_cons h'
      have hu := unesc_BK (src := lit) (l := l.adv) h1.1 h1.2
      refine fin l.adv.adv.adv.adv [0x60] t' 4 hlen rfl rfl ?_ (by simp [he]; omega) (by simp [Spec.Literal.backTick]) ?_
      · have h2 := (Lexer.rest_cons h1.2).2
        have h3 := (Lexer.rest_cons h2).2
        exact (Lexer.rest_cons h3).2
      · rw [parseStringLoop_cont (strStep_backtick h'), hu]
    · by_cases hq : c = q.opener ∨ c = q.closer
      · -- lone quote in back-ticks
        have he : encodeChar q c = [0x60, c, 0x60] := by simp [encodeChar, hb, hq]
        rw [he] at h
        have h' : l.rest = cBackTick :: c :: cBackTick :: (encodeSafe q t' ++ q.closer :: post) := by
          simpa [cBackTick] using h
        have h1 := Lexer.rest_cons h'
        have hqc : isQuoteChar c = true := by
          rcases hq with rfl | rfl
          · exact (quote_facts q).2.2.2.2.2.1
          · exact (quote_facts q).2.2.2.2.2.2
        have hu := unesc_quote (src := lit) (l := l.adv) h1.1 h1.2 hqc
        refine fin l.adv.adv.adv [c] t' 3 hlen rfl rfl ?_ (by simp [he]; omega) (by simp) ?_
        · have h2 := (Lexer.rest_cons h1.2).2
          exact (Lexer.rest_cons h2).2
        · rw [parseStringLoop_cont (strStep_backtick h'), hu]
      · by_cases h0 : c = 0
        · -- NUL as `U+0`
          subst h0
          have he : encodeChar q 0 = [0x60, 0x55, 0x2B, 0x30, 0x60] := by
            simp [encodeChar, Spec.Literal.backTick] at hb hq ⊢
            simp [hq.1, hq.2]
          rw [he] at h
          have h' : l.rest = cBackTick :: 0x55 :: 0x2B :: 0x30 :: ([] ++ cBackTick :: (encodeSafe q t' ++ q.closer :: post)) := by
            simpa [cBackTick] using h
          have h1 := Lexer.rest_cons h'
          have hu := unesc_U (src := lit) (l := l.adv) 0x30 [] (by decide) (by decide) h1.1 h1.2
          have hv2 : Spec.Literal.hexVal [0x30] = 0 := by decide
          have hv : Spec.Literal.validScalar 0 = true := by decide
          simp only [hv2, hv, ↓reduceIte, List.length_nil, Nat.add_zero] at hu
          refine fin (l.adv.setCursor (l.adv.cursor + 4)) [0] t' 5 hlen rfl (by simp) ?_ (by simp [he]; omega) (by simp) ?_
          · have h2 := (Lexer.rest_cons h1.2).2
            have h3 := (Lexer.rest_cons h2).2
            have h4 := (Lexer.rest_cons h3).2
            have h5 := (Lexer.rest_cons h4).2
            exact h5
          · rw [parseStringLoop_cont (strStep_backtick h'), hu]
        · -- written as itself
          have hq' : c ≠ q.opener ∧ c ≠ q.closer := by
            constructor <;> intro e <;> exact hq (by simp [e])
          have he : encodeChar q c = [c] := by simp [encodeChar, hb, hq, h0]
          rw [he] at h
          have h' : l.rest = c :: (encodeSafe q t' ++ q.closer :: post) := by simpa using h
          have hbt : c ≠ cBackTick := hb
          by_cases hnl : c = runeCR ∨ c = runeLF
          · -- a line break: alone, or together with its partner
            by_cases hpair : (c = runeCR ∧ t'.head? = some runeLF) ∨ (c = runeLF ∧ t'.head? = some runeCR)
            · -- CR LF / LF CR: two characters of the text in one pass
              obtain ⟨c2, t'', rfl, hc2⟩ : ∃ c2 t'', t' = c2 :: t'' ∧
                  ((c = runeCR ∧ c2 = runeLF) ∨ (c = runeLF ∧ c2 = runeCR)) := by
                cases t' with
                | nil => simp at hpair
                | cons c2 t'' => exact ⟨c2, t'', rfl, by simpa using hpair⟩
              have he2 : encodeChar q c2 = [c2] := by
                have : c2 = runeCR ∨ c2 = runeLF := by rcases hc2 with ⟨-, e⟩ | ⟨-, e⟩ <;> simp [e]
                have a1 : c2 ≠ Spec.Literal.backTick := by rcases this with rfl | rfl <;> decide
                have a2 : ¬ (c2 = q.opener ∨ c2 = q.closer) := by
                  have f := quote_facts q
                  rintro (e | e)
                  · have := f.1; rw [← e] at this; rcases ‹c2 = runeCR ∨ c2 = runeLF› with rfl | rfl <;> revert this <;> decide
                  · have := f.2.1; rw [← e] at this; rcases ‹c2 = runeCR ∨ c2 = runeLF› with rfl | rfl <;> revert this <;> decide
                have a3 : c2 ≠ 0 := by rcases this with rfl | rfl <;> decide
                simp [encodeChar, a1, a2, a3]
              rw [encodeSafe_cons, he2] at h'
              have h'' : l.rest = c :: c2 :: (encodeSafe q t'' ++ q.closer :: post) := by simpa using h'
              refine fin (l.adv.adv.pushLine { indents := 0, startIdx := l.cursor + 3 }) [c, c2] t'' 2
                (by simp at hlen ⊢; omega) rfl rfl ?_ (by simp [he, he2, encodeSafe_cons]; omega) (by simp) ?_
              · simpa using (Lexer.rest_cons2 h'').2.2
              · rw [parseStringLoop_cont (strStep_pair h'' hc2)]
            · refine fin (l.adv.pushLine { indents := 0, startIdx := l.cursor + 2 }) [c] t' 1 hlen rfl rfl ?_
                (by simp [he]; omega) (by simp) ?_
              · simpa using (Lexer.rest_cons h').2
              · have hn : ¬ ((c = runeCR ∧ (encodeSafe q t' ++ q.closer :: post).head? = some runeLF) ∨
                    (c = runeLF ∧ (encodeSafe q t' ++ q.closer :: post).head? = some runeCR)) := by
                  rintro (⟨e1, e2⟩ | ⟨e1, e2⟩)
                  · exact encodeSafe_head_ne q t' post runeLF (Or.inr rfl) (fun e => hpair (Or.inl ⟨e1, e⟩)) e2
                  · exact encodeSafe_head_ne q t' post runeCR (Or.inl rfl) (fun e => hpair (Or.inr ⟨e1, e⟩)) e2
                rw [parseStringLoop_cont (strStep_newline h' hnl hn)]
          · have hcr : c ≠ runeCR := fun e => hnl (Or.inl e)
            have hlf : c ≠ runeLF := fun e => hnl (Or.inr e)
            refine fin l.adv [c] t' 1 hlen rfl rfl (Lexer.rest_cons h').2 (by simp [he]; omega) (by simp) ?_
            rw [parseStringLoop_cont (str_ordinary h' h0 hbt hcr hlf hq'.1 hq'.2)]

open Spec.Literal in
/-- `balancedFrom` is "the depth ends at zero without ever closing below zero" -/
theorem balanced_iff_depth (q : Quote) (d : Nat) (t : List Nat) :
    balancedFrom q d t = true ↔ depthAfter q d t = some 0 := by
  induction t generalizing d with
  | nil => simp [balancedFrom, depthAfter]
  | cons c t ih =>
    unfold balancedFrom depthAfter
    split
    · exact ih (d + 1)
    · split
      · cases d with
        | zero => simp
        | succ d' => exact ih d'
      · exact ih d

section lines
open Spec.Lines

/-- the `LineInfo` the string and comment scanners append for a line starting at `s` -/
def scannedLine (s : Nat) : LineInfo := { indents := 0, startIdx := s }

theorem lineStarts_plain (pos c : Nat) (t : List Nat) (h : isBreak c = false) :
    lineStarts pos (c :: t) = lineStarts (pos + 1) t := by
  cases t with
  | nil => simp [lineStarts, h]
  | cons d r =>
    have : isPair c d = false := by
      simp only [isBreak, Bool.or_eq_false_iff, beq_eq_false_iff_ne] at h
      simp [isPair, h.1, h.2]
    simp [lineStarts, h, this]

theorem lineStarts_pair (pos c d : Nat) (t : List Nat) (h : isPair c d = true) :
    lineStarts pos (c :: d :: t) = (pos + 2) :: lineStarts (pos + 2) t := by
  simp [lineStarts, h]

theorem lineStarts_single (pos c : Nat) (t : List Nat) (h : isBreak c = true)
    (hn : ∀ d, t.head? = some d → isPair c d = false) :
    lineStarts pos (c :: t) = (pos + 1) :: lineStarts (pos + 1) t := by
  cases t with
  | nil => simp [lineStarts, h]
  | cons d r => simp [lineStarts, h, hn d rfl]

end lines

open Spec.Literal Spec.Lines in
/-- the loop of `parseString` over a text without back-ticks and NUL: every character is appended verbatim, the
depth follows `q`'s own quotes only (`depthAfter`) — other pairs' quotes, line breaks, punctuation change nothing —
and one line is recorded per line break, starting right after it -/
theorem verbatim_run_lines (q : Quote) (s ty : Nat) (post : List Nat)
    (hpost : post.head? ≠ some runeCR ∧ post.head? ≠ some runeLF) :
    ∀ (k : Nat) (t : List Nat), t.length = k → ∀ (l : Lexer) (lit : List Nat) (d d' : Nat),
      backTick ∉ t → 0 ∉ t → depthAfter q d t = some d' → l.rest = t ++ post →
      ∃ l', l'.src = l.src ∧ l'.cursor = l.cursor + t.length ∧ l'.rest = post ∧
        l'.lines = l.lines ++ ((lineStarts (l.cursor + 1) t).map scannedLine).toArray ∧
        (l'.beginLex = l.beginLex ∧ l'.indentType = l.indentType) ∧
        parseStringLoop q.opener s ty l (lit, d + 1) = parseStringLoop q.opener s ty l' (lit ++ t, d' + 1) := by
  intro k
  induction k using Nat.strongRecOn with
  | _ k ih =>
  intro t hk l lit d d' hbt hz hd h
  cases t with
  | nil =>
    simp only [depthAfter, Option.some.injEq] at hd
    subst hd
    exact ⟨l, rfl, by simp, by simpa using h, by simp [lineStarts], ⟨rfl, rfl⟩, by simp⟩
  | cons c t' =>
    have hlen : t'.length < k := by simp at hk; omega
    have hbt' : backTick ∉ t' := fun e => hbt (List.mem_cons_of_mem _ e)
    have hz' : (0 : Nat) ∉ t' := fun e => hz (List.mem_cons_of_mem _ e)
    have hcb : c ≠ cBackTick := fun e => hbt (by rw [e]; exact List.mem_cons_self)
    have hc0 : c ≠ 0 := fun e => hz (by rw [e]; exact List.mem_cons_self)
    have h' : l.rest = c :: (t' ++ post) := by simpa using h
    have fin : ∀ (l1 : Lexer) (out : List Nat) (t'' : List Nat) (j dn : Nat) (L1 : List Nat), t''.length < k →
        l1.src = l.src → l1.cursor = l.cursor + j → l1.rest = t'' ++ post →
        j + t''.length = (c :: t').length → lit ++ out ++ t'' = lit ++ c :: t' →
        backTick ∉ t'' → 0 ∉ t'' → depthAfter q dn t'' = some d' →
        l1.lines = l.lines ++ (L1.map scannedLine).toArray →
        (l1.beginLex = l.beginLex ∧ l1.indentType = l.indentType) →
        lineStarts (l.cursor + 1) (c :: t') = L1 ++ lineStarts (l.cursor + j + 1) t'' →
        parseStringLoop q.opener s ty l (lit, d + 1) = parseStringLoop q.opener s ty l1 (lit ++ out, dn + 1) →
        ∃ l', l'.src = l.src ∧ l'.cursor = l.cursor + (c :: t').length ∧ l'.rest = post ∧
          l'.lines = l.lines ++ ((lineStarts (l.cursor + 1) (c :: t')).map scannedLine).toArray ∧
          (l'.beginLex = l.beginLex ∧ l'.indentType = l.indentType) ∧
          parseStringLoop q.opener s ty l (lit, d + 1) = parseStringLoop q.opener s ty l' (lit ++ c :: t', d' + 1) := by
      intro l1 out t'' j dn L1 hl'' hsrc hcur hrest hj hout hb'' hz'' hd'' hlines hfl hls hstep
      obtain ⟨l', a, b, c', ln, fl, e⟩ := ih t''.length hl'' t'' rfl l1 (lit ++ out) dn d' hb'' hz'' hd'' hrest
      refine ⟨l', by rw [a, hsrc], by rw [b, hcur, ← hj]; omega, c', ?_, ⟨by rw [fl.1, hfl.1], by rw [fl.2, hfl.2]⟩, ?_⟩
      · rw [ln, hlines, hls, hcur]; simp
      · rw [hstep, e, hout]
    have hnb_of : c ≠ runeCR → c ≠ runeLF → isBreak c = false := by
      intro a b; simp [isBreak, runeCR, runeLF] at a b ⊢; exact ⟨a, b⟩
    by_cases ho : c = q.opener
    · subst ho
      have hd1 : depthAfter q (d + 1) t' = some d' := by simpa [depthAfter] using hd
      have f := quote_facts q
      have hnb : isBreak q.opener = false := by
        apply hnb_of <;> (intro e; have := f.1; rw [e] at this; revert this; decide)
      refine fin l.adv [q.opener] t' 1 (d + 1) [] hlen rfl rfl (Lexer.rest_cons h').2 (by simp; omega) (by simp)
        hbt' hz' hd1 (by simp) ⟨rfl, rfl⟩ (by simpa using lineStarts_plain _ _ _ hnb) ?_
      rw [parseStringLoop_cont (str_opener h')]
    · by_cases hcl : c = q.closer
      · subst hcl
        have hne : q.closer ≠ q.opener := ho
        have f := quote_facts q
        have hnb : isBreak q.closer = false := by
          apply hnb_of <;> (intro e; have := f.2.1; rw [e] at this; revert this; decide)
        cases d with
        | zero => simp [depthAfter, hne] at hd
        | succ d0 =>
          have hd1 : depthAfter q d0 t' = some d' := by simpa [depthAfter, hne] using hd
          refine fin l.adv [q.closer] t' 1 d0 [] hlen rfl rfl (Lexer.rest_cons h').2 (by simp; omega) (by simp)
            hbt' hz' hd1 (by simp) ⟨rfl, rfl⟩ (by simpa using lineStarts_plain _ _ _ hnb) ?_
          rw [parseStringLoop_cont (l' := l.adv) (st' := (lit ++ [q.closer], d0 + 1))]
          rw [str_closer h']; simp
      · have hd1 : depthAfter q d t' = some d' := by simpa [depthAfter, ho, hcl] using hd
        by_cases hnl : c = runeCR ∨ c = runeLF
        · have hbr : isBreak c = true := by rcases hnl with rfl | rfl <;> decide
          by_cases hpair : (c = runeCR ∧ t'.head? = some runeLF) ∨ (c = runeLF ∧ t'.head? = some runeCR)
          · obtain ⟨c2, t'', rfl, hc2⟩ : ∃ c2 t'', t' = c2 :: t'' ∧
                ((c = runeCR ∧ c2 = runeLF) ∨ (c = runeLF ∧ c2 = runeCR)) := by
              cases t' with
              | nil => simp at hpair
              | cons c2 t'' => exact ⟨c2, t'', rfl, by simpa using hpair⟩
            have hc2nl : c2 = runeCR ∨ c2 = runeLF := by rcases hc2 with ⟨-, e⟩ | ⟨-, e⟩ <;> simp [e]
            have f := quote_facts q
            have ho2 : c2 ≠ q.opener := by
              intro e; have := f.1; rw [← e] at this
              rcases hc2nl with rfl | rfl <;> revert this <;> decide
            have hcl2 : c2 ≠ q.closer := by
              intro e; have := f.2.1; rw [← e] at this
              rcases hc2nl with rfl | rfl <;> revert this <;> decide
            have hd2 : depthAfter q d t'' = some d' := by simpa [depthAfter, ho2, hcl2] using hd1
            have h'' : l.rest = c :: c2 :: (t'' ++ post) := by simpa using h'
            have hpr : isPair c c2 = true := by
              rcases hc2 with ⟨rfl, rfl⟩ | ⟨rfl, rfl⟩ <;> decide
            refine fin (l.adv.adv.pushLine { indents := 0, startIdx := l.cursor + 3 }) [c, c2] t'' 2 d [l.cursor + 3]
              (by simp at hlen ⊢; omega) rfl rfl ?_ (by simp; omega) (by simp)
              (fun e => hbt' (List.mem_cons_of_mem _ e)) (fun e => hz' (List.mem_cons_of_mem _ e)) hd2
              (by simp [scannedLine]) ⟨rfl, rfl⟩ (by rw [lineStarts_pair _ _ _ _ hpr]; simp) ?_
            · simpa using (Lexer.rest_cons2 h'').2.2
            · rw [parseStringLoop_cont (strStep_pair h'' hc2)]
          · have hn : ¬ ((c = runeCR ∧ (t' ++ post).head? = some runeLF) ∨
                  (c = runeLF ∧ (t' ++ post).head? = some runeCR)) := by
              cases t' with
              | nil =>
                simp only [List.nil_append]
                rintro (⟨-, e⟩ | ⟨-, e⟩)
                · exact hpost.2 e
                · exact hpost.1 e
              | cons x t'' =>
                simp only [List.cons_append, List.head?_cons]
                rintro (⟨e1, e2⟩ | ⟨e1, e2⟩)
                · exact hpair (Or.inl ⟨e1, by simpa using e2⟩)
                · exact hpair (Or.inr ⟨e1, by simpa using e2⟩)
            have hnp : ∀ d2, t'.head? = some d2 → isPair c d2 = false := by
              intro d2 hd2
              rw [Bool.eq_false_iff]
              intro hp
              apply hpair
              simp only [isPair, Bool.or_eq_true, Bool.and_eq_true, beq_iff_eq] at hp
              rcases hp with ⟨e1, e2⟩ | ⟨e1, e2⟩
              · left; exact ⟨e1, by rw [hd2, e2]; rfl⟩
              · right; exact ⟨e1, by rw [hd2, e2]; rfl⟩
            refine fin (l.adv.pushLine { indents := 0, startIdx := l.cursor + 2 }) [c] t' 1 d [l.cursor + 2] hlen rfl rfl ?_
              (by simp; omega) (by simp) hbt' hz' hd1 (by simp [scannedLine]) ⟨rfl, rfl⟩
              (by rw [lineStarts_single _ _ _ hbr hnp]; simp) ?_
            · simpa using (Lexer.rest_cons h').2
            · rw [parseStringLoop_cont (strStep_newline h' hnl hn)]
        · have hcr : c ≠ runeCR := fun e => hnl (Or.inl e)
          have hlf : c ≠ runeLF := fun e => hnl (Or.inr e)
          refine fin l.adv [c] t' 1 d [] hlen rfl rfl (Lexer.rest_cons h').2 (by simp; omega) (by simp) hbt' hz' hd1
            (by simp) ⟨rfl, rfl⟩ (by simpa using lineStarts_plain _ _ _ (hnb_of hcr hlf)) ?_
          rw [parseStringLoop_cont (str_ordinary h' hc0 hcb hcr hlf ho hcl)]

open Spec.Literal in
theorem verbatim_run (q : Quote) (s ty : Nat) (post : List Nat)
    (hpost : post.head? ≠ some runeCR ∧ post.head? ≠ some runeLF) :
    ∀ (k : Nat) (t : List Nat), t.length = k → ∀ (l : Lexer) (lit : List Nat) (d d' : Nat),
      backTick ∉ t → 0 ∉ t → depthAfter q d t = some d' → l.rest = t ++ post →
      ∃ l', l'.src = l.src ∧ l'.cursor = l.cursor + t.length ∧ l'.rest = post ∧
        parseStringLoop q.opener s ty l (lit, d + 1) = parseStringLoop q.opener s ty l' (lit ++ t, d' + 1) := by
  intro k t hk l lit d d' h1 h2 h3 h4
  obtain ⟨l', a, b, c, -, -, e⟩ := verbatim_run_lines q s ty post hpost k t hk l lit d d' h1 h2 h3 h4
  exact ⟨l', a, b, c, e⟩

/-! ### from `NextToken` on a fresh lexer to the `parseString` loop -/

/-- the lexer state in which `parseString` starts on a text whose first character is an opening quote -/
def startState (src : List Nat) : Lexer :=
  { src := src.toArray, beginLex := false, lines := #[{ indents := 0, startIdx := 0 }] }

theorem startState_rest (a : Nat) (r : List Nat) : (startState (a :: r)).rest = r := by
  simp [Lexer.rest, startState]

theorem startState_cur (a : Nat) (r : List Nat) : (startState (a :: r)).cur = a := by
  simp [Lexer.cur, Lexer.getChar, startState]

theorem nextToken_literal (q : Quote) (body : List Nat) :
    nextToken (mkLexer (q.opener :: body)) =
      parseStringLoop q.opener 0 q.type (startState (q.opener :: body)) ([], 1) := by
  have hf := quote_facts q
  have hcur0 : (mkLexer (q.opener :: body)).getChar 0 = q.opener := by
    simp [Lexer.getChar, mkLexer]
  have hb : parseBeginLex { mkLexer (q.opener :: body) with beginLex := false } =
      (.ok (), startState (q.opener :: body)) := by
    unfold parseBeginLex
    have h0 : ({ mkLexer (q.opener :: body) with beginLex := false } : Lexer).getChar 0 = q.opener := hcur0
    have h1 : (q.opener == runeEOF) = false := by cases q <;> decide
    have h2 : (q.opener == runeTAB || q.opener == runeSP) = false := by cases q <;> decide
    simp only [h0, h1, h2, Bool.false_eq_true, ↓reduceIte]
    rfl
  have hs : skipBlank (startState (q.opener :: body)) = (.ok (), startState (q.opener :: body)) := by
    unfold skipBlank
    apply iterate_done
    unfold skipBlankStep
    rw [startState_cur]
    have h1 : isWhiteSpace q.opener = false := by cases q <;> decide
    have h2 : (q.opener == runeCR || q.opener == runeLF) = false := by cases q <;> decide
    simp only [h1, h2, Bool.false_eq_true, ↓reduceIte]
  have hp : preNextToken (mkLexer (q.opener :: body)) = (.ok (), startState (q.opener :: body)) := by
    unfold preNextToken
    have : (mkLexer (q.opener :: body)).beginLex = true := rfl
    simp only [this, ↓reduceIte, hb, hs]
  unfold nextToken
  simp only [hp]
  unfold dispatchToken
  rw [startState_cur]
  have h1 : (q.opener == runeEOF) = false := by cases q <;> decide
  have h2 : (q.opener == cCharZHU || q.opener == cSlashOp) = false := by cases q <;> decide
  have h3 : leftQuotes.contains q.opener = true := by cases q <;> decide
  simp only [h1, h2, h3, Bool.false_eq_true, ↓reduceIte]
  unfold parseString
  rw [startState_cur]
  have h4 : stringTokenType q.opener = q.type := by cases q <;> decide
  rw [h4]
  rfl

/-! ### every run of the back-tick machine: a documented escape, or the consumed text kept as written -/

section general
open Spec.Literal

theorem isQuoteChar_eq_spec (c : Nat) : isQuoteChar c = quoteChars.contains c := by
  simp only [isQuoteChar, leftQuotes, rightQuotes, quoteChars, cLeftDoubleQuoteI, cLeftDoubleQuoteII, cLeftSingleQuoteI,
    cLeftSingleQuoteII, cLeftLibQuoteI, cRightDoubleQuoteI, cRightDoubleQuoteII, cRightSingleQuoteI,
    cRightSingleQuoteII, cRightLibQuoteI, List.contains_cons, List.contains_nil, Bool.or_false]
  rw [Bool.eq_iff_iff]
  simp only [Bool.or_eq_true, beq_iff_eq]
  omega

theorem hex_ne_backTick {c : Nat} (h : isHex c = true) : c ≠ backTick := by
  simp only [isHex, Bool.or_eq_true, Bool.and_eq_true, decide_eq_true_eq] at h
  simp [backTick]; omega

theorem decodeEscape_hex (d : Nat) (ds : List Nat) (hds : ∀ x ∈ d :: ds, isHex x = true) (hlen : ds.length ≤ 7) :
    decodeEscape ([0x60, 0x55, 0x2B, d] ++ ds ++ [0x60]) =
      if validScalar (hexVal (d :: ds)) then some [hexVal (d :: ds)] else none := by
  have e1 : ([0x60, 0x55, 0x2B, d] ++ ds ++ [0x60] : List Nat) = 0x60 :: (([0x55, 0x2B, d] ++ ds) ++ [0x60]) := by simp
  rw [e1]
  unfold decodeEscape
  have hnc : ([0x55, 0x2B, d] ++ ds : List Nat).contains 96 = false := by
    rw [Bool.eq_false_iff]
    intro hc
    simp only [List.contains_iff_mem, List.mem_append, List.mem_cons, List.not_mem_nil, or_false] at hc
    rcases hc with (h | h | h) | h
    · simp at h
    · simp at h
    · exact hex_ne_backTick (hds d List.mem_cons_self) h.symm
    · exact hex_ne_backTick (hds _ (List.mem_cons_of_mem _ h)) rfl
  simp only [List.getLast?_append, List.getLast?_singleton, List.dropLast_concat, backTick]
  simp only [hnc, Option.some_or, beq_self_eq_true, Bool.not_false, Bool.and_self, ↓reduceIte]
  have hall : (d :: ds).all isHex = true := by
    simp only [List.all_eq_true]; exact hds
  simp only [List.cons_append, List.nil_append, decodeBody, namedEscapes, List.lookup]
  simp [hall, hlen]

theorem decodeEscape_quote (c : Nat) (hq : isQuoteChar c = true) : decodeEscape [0x60, c, 0x60] = some [c] := by
  rw [isQuoteChar_eq_spec] at hq
  have hc : c ≠ 96 := by
    intro e; subst e; revert hq; decide
  have hcb : (c == 96) = false := by simpa using hc
  have hn : namedEscapes.lookup [c] = none := by
    simp [namedEscapes, List.lookup]
  simp [decodeEscape, backTick, hcb, decodeBody, hn]
  exact ⟨fun e => hc e.symm, by simpa using hq⟩

/-- forward link between the machine's loop variables and the text `w` consumed after the opening back-tick -/
def UInv (w : List Nat) (u : UState) : Prop :=
  u.buf = cBackTick :: w ∧
  (u.state = csHexNum → ∃ d ds, w = 0x55 :: 0x2B :: d :: ds ∧ (∀ x ∈ d :: ds, isUpperHex x = true) ∧
      u.hexCount = 1 + ds.length) ∧
  (u.state = csmP → w = [0x55, 0x2B]) ∧ (u.state = csU → w = [0x55]) ∧ (u.state = csBegin → w = [])

/-- the `case '`'` arm: a documented escape with its documented value, or `goto UNDONE_end` with the whole group -/
theorem unescClose_spec (src : List Nat) (u : UState) (w : List Nat) (hi : UInv w u) :
    unescClose src u (u.buf ++ [cBackTick]) = .undone (cBackTick :: w ++ [cBackTick]) ∨
    ∃ v, decodeEscape (cBackTick :: w ++ [cBackTick]) = some v ∧
      unescClose src u (u.buf ++ [cBackTick]) = .decoded (src ++ v) := by
  obtain ⟨hbuf, hhex, -, -, -⟩ := hi
  rw [hbuf]
  unfold unescClose
  split
  · rename_i h; right; have e : cBackTick :: w ++ [cBackTick] = escTAB := by simpa using h
    rw [e]; exact ⟨_, by decide, rfl⟩
  split
  · rename_i h; right; have e : cBackTick :: w ++ [cBackTick] = escBK := by simpa using h
    rw [e]; exact ⟨_, by decide, rfl⟩
  split
  · rename_i h; right; have e : cBackTick :: w ++ [cBackTick] = escSP := by simpa using h
    rw [e]; exact ⟨_, by decide, rfl⟩
  split
  · rename_i h; right; have e : cBackTick :: w ++ [cBackTick] = escCR := by simpa using h
    rw [e]; exact ⟨_, by decide, rfl⟩
  split
  · rename_i h; right; have e : cBackTick :: w ++ [cBackTick] = escLF := by simpa using h
    rw [e]; exact ⟨_, by decide, rfl⟩
  split
  · rename_i h; right; have e : cBackTick :: w ++ [cBackTick] = escCRLF := by simpa using h
    rw [e]; exact ⟨_, by decide, rfl⟩
  split
  · rename_i hcond
    simp only [Bool.and_eq_true, beq_iff_eq, decide_eq_true_eq] at hcond
    obtain ⟨d, ds, hw, hds, hcnt⟩ := hhex hcond.1.1
    have hlen : ds.length ≤ 7 := by omega
    subst hw
    have ebuf : (cBackTick :: (0x55 :: 0x2B :: d :: ds) ++ [cBackTick] : List Nat) =
        [0x60, 0x55, 0x2B, d] ++ ds ++ [0x60] := by simp [cBackTick]
    rw [ebuf]
    have htake : (([0x60, 0x55, 0x2B, d] ++ ds ++ [0x60]).drop 3).take
        (([0x60, 0x55, 0x2B, d] ++ ds ++ [0x60]).length - 4) = d :: ds := by simp
    simp only [htake]
    unfold parseInt32Hex
    by_cases hv : hexValue (d :: ds) > 0x7FFFFFFF
    · left; simp [hv]
    · by_cases hvalid : validRune (hexValue (d :: ds)) = true
      · right
        refine ⟨[hexValue (d :: ds)], ?_, by simp [hv, hvalid]⟩
        rw [decodeEscape_hex d ds hds hlen, ← hexValue_eq_spec, ← validRune_eq_spec, hvalid]; simp
      · left; simp [hv, hvalid]
  · left; rfl

/-- the loop of the machine: it stops having consumed `w` after the opening back-tick, with the documented meaning
of `` ` `` `w`, or with `goto UNDONE_end` and exactly `` ` `` `w` in the buffer -/
theorem machine_text (src : List Nat) (l0 : Lexer) (hc : l0.cur = cBackTick) :
    let r := iterate (unescStep src) (unescStep_consumes src) l0 ⟨csBegin, 0, [l0.cur]⟩
    ∃ w, l0.rest = w ++ r.2.rest ∧ r.2.src = l0.src ∧ r.2.cursor = l0.cursor + w.length ∧
      (r.1 = .undone (cBackTick :: w) ∨ ∃ v, decodeEscape (cBackTick :: w) = some v ∧ r.1 = .decoded (src ++ v)) := by
  refine iterate_inv (step := unescStep src) (hc := unescStep_consumes src)
    (I := fun l u => ∃ w, l0.rest = w ++ l.rest ∧ l.src = l0.src ∧ l.cursor = l0.cursor + w.length ∧ UInv w u ∧
      (w = [] → l.cur = cBackTick) ∧ (w ≠ [] → l.cur ≠ cBackTick))
    (Q := fun out l' => ∃ w, l0.rest = w ++ l'.rest ∧ l'.src = l0.src ∧ l'.cursor = l0.cursor + w.length ∧
      (out = .undone (cBackTick :: w) ∨ ∃ v, decodeEscape (cBackTick :: w) = some v ∧ out = .decoded (src ++ v)))
    ?_ ?_ l0 _ ?_
  · -- a pass that continues keeps the invariant
    rintro l u u' l' ⟨w, hr, hs, hcu, hinv, hw0, hw1⟩ hstep
    obtain ⟨hl', hne⟩ : l' = l.adv ∧ l.peek ≠ 0 := by
      have := unescStep_consumes src l u u' l' hstep
      refine ⟨?_, ?_⟩
      · unfold unescStep unescConsume at hstep
        dsimp only at hstep
        repeat' split at hstep
        all_goals first | cases hstep | skip
        all_goals rfl
      · intro h0
        unfold unescStep at hstep
        dsimp only at hstep
        have : endsBackTickText l.peek = true := by simp [h0, endsBackTickText, runeEOF]
        split at hstep
        · split at hstep <;> cases hstep
        · simp [this] at hstep
    subst hl'
    have hrest := Lexer.rest_of_peek_ne_zero hne
    have hq : isQuoteChar l.peek = false := by
      unfold unescStep at hstep; dsimp only at hstep
      split at hstep
      · split at hstep <;> cases hstep
      · rename_i h; simpa using h
    have he : endsBackTickText l.peek = false := by
      unfold unescStep at hstep; dsimp only at hstep
      simp only [hq, Bool.false_eq_true, ↓reduceIte] at hstep
      split at hstep
      · cases hstep
      · rename_i h; simpa using h
    have hstep' : unescConsume src l u = (.cont u', l.adv) := by
      unfold unescStep at hstep; dsimp only at hstep
      simpa only [hq, he, Bool.false_eq_true, ↓reduceIte] using hstep
    obtain ⟨hbuf, hhex, hmp, hu, hbeg⟩ := hinv
    have hcur : l.adv.cur = l.peek := rfl
    refine ⟨w ++ [l.peek], by rw [hr, hrest]; simp, by simp [hs], by simp [hcu]; omega, ?_, by simp, ?_⟩
    · -- UInv
      unfold unescConsume at hstep'
      dsimp only at hstep'
      rw [hcur] at hstep'
      split at hstep'
      · rename_i hh
        simp only [Bool.and_eq_true, beq_iff_eq] at hh
        cases hstep'
        refine ⟨by simp [hbuf], fun _ => ⟨l.peek, [], by rw [hmp hh.2]; rfl, ?_, rfl⟩, ?_, ?_, ?_⟩
        · intro x hx; simp at hx; rw [hx]; exact hh.1
        all_goals (intro h; dsimp only at h; exact absurd h (by decide))
      · split at hstep'
        · rename_i hh
          simp only [Bool.and_eq_true, beq_iff_eq] at hh
          cases hstep'
          obtain ⟨d, ds, hw, hds, hcnt⟩ := hhex hh.2
          refine ⟨by simp [hbuf], fun _ => ⟨d, ds ++ [l.peek], by rw [hw]; simp, ?_, by simp [hcnt]; omega⟩, ?_, ?_, ?_⟩
          · intro x hx
            simp only [List.mem_cons, List.mem_append, List.not_mem_nil, or_false] at hx
            rcases hx with hx | hx | hx
            · exact hds x (by simp [hx])
            · exact hds x (List.mem_cons_of_mem _ hx)
            · rw [hx]; exact hh.1
          all_goals (intro h; dsimp only at h; exact absurd h (by decide))
        · split at hstep'
          · rename_i from_ to hl
            split at hstep'
            · rename_i hfrom
              cases hstep'
              obtain ⟨-, -, -, -, -, k6, k7, k8, k9⟩ := unescLetterTable_keys _ (lookup_some_mem hl)
              refine ⟨by simp [hbuf], fun h => absurd h k6, ?_, ?_, fun h => absurd h k7⟩
              · intro h
                obtain ⟨e1, e2⟩ := k9 h
                dsimp only at e1 e2
                rw [e2] at hfrom
                have : u.state = csU := by simpa using hfrom
                rw [hu this, e1]; rfl
              · intro h
                obtain ⟨e1, e2⟩ := k8 h
                dsimp only at e1 e2
                rw [e2] at hfrom
                have : u.state = csBegin := by simpa using hfrom
                rw [hbeg this, e1]; rfl
            · cases hstep'
          · split at hstep' <;> cases hstep'
    · -- the current character is a letter or a digit of the escape, never a back-tick
      intro _
      rw [hcur]
      unfold unescConsume at hstep'
      dsimp only at hstep'
      rw [hcur] at hstep'
      split at hstep'
      · rename_i hh
        simp only [Bool.and_eq_true] at hh
        rcases isUpperHex_ordinary hh.1 with ⟨-, -, -, -, k, -⟩ | ⟨-, -, -, -, k⟩ <;> exact k
      · split at hstep'
        · rename_i hh
          simp only [Bool.and_eq_true] at hh
          rcases isUpperHex_ordinary hh.1 with ⟨-, -, -, -, k, -⟩ | ⟨-, -, -, -, k⟩ <;> exact k
        · split at hstep'
          · rename_i from_ to hl
            exact (unescLetterTable_keys _ (lookup_some_mem hl)).2.2.2.2.1
          · split at hstep' <;> cases hstep'
  · -- every way of leaving the loop
    rintro l u out l' ⟨w, hr, hs, hcu, hinv, hw0, hw1⟩ hstep
    have hbuf := hinv.1
    unfold unescStep at hstep
    dsimp only at hstep
    split at hstep
    · rename_i hq
      split at hstep
      · -- a single quote character between back-ticks
        rename_i hh
        simp only [Bool.and_eq_true, beq_iff_eq] at hh
        cases hstep
        have hwnil : w = [] := by
          by_cases e : w = []
          · exact e
          · exact absurd hh.1 (hw1 e)
        subst hwnil
        have hp0 : l.peek ≠ 0 := by intro e; rw [e] at hq; revert hq; decide
        have hr1 := Lexer.rest_of_peek_ne_zero hp0
        have hp2 : l.adv.peek ≠ 0 := by
          have : l.adv.peek = cBackTick := hh.2
          rw [this]; decide
        have hr2 := Lexer.rest_of_peek_ne_zero hp2
        have hpk2 : l.adv.peek = cBackTick := hh.2
        refine ⟨[l.peek, cBackTick], ?_, by simp [hs], by simp [hcu], Or.inr ⟨[l.peek], ?_, rfl⟩⟩
        · rw [hr, hr1, hr2, hpk2]; simp
        · exact decodeEscape_quote l.peek hq
      · cases hstep
        exact ⟨w, hr, hs, hcu, Or.inl (by rw [hbuf])⟩
    · split at hstep
      · cases hstep
        exact ⟨w, hr, hs, hcu, Or.inl (by rw [hbuf])⟩
      · rename_i hq he
        have hne : l.peek ≠ 0 := by
          intro e; apply he; simp [e, endsBackTickText, runeEOF]
        have hrest := Lexer.rest_of_peek_ne_zero hne
        have hcur : l.adv.cur = l.peek := rfl
        have frame : l0.rest = (w ++ [l.peek]) ++ l.adv.rest ∧ l.adv.src = l0.src ∧
            l.adv.cursor = l0.cursor + (w ++ [l.peek]).length := by
          refine ⟨by rw [hr, hrest]; simp, by simp [hs], by simp [hcu]; omega⟩
        have verb : ∀ out', out' = UnescOut.undone (u.buf ++ [l.peek]) →
            ∃ w, l0.rest = w ++ l.adv.rest ∧ l.adv.src = l0.src ∧ l.adv.cursor = l0.cursor + w.length ∧
              (out' = .undone (cBackTick :: w) ∨ ∃ v, decodeEscape (cBackTick :: w) = some v ∧ out' = .decoded (src ++ v)) := by
          intro out' e
          exact ⟨w ++ [l.peek], frame.1, frame.2.1, frame.2.2, Or.inl (by rw [e, hbuf]; simp)⟩
        unfold unescConsume at hstep
        dsimp only at hstep
        rw [hcur] at hstep
        split at hstep
        · cases hstep
        · split at hstep
          · cases hstep
          · split at hstep
            · split at hstep
              · cases hstep
              · cases hstep; exact verb _ rfl
            · split at hstep
              · rename_i hbt
                have hpk : l.peek = cBackTick := by simpa using hbt
                cases hstep
                rw [hpk]
                rw [hpk] at frame
                rcases unescClose_spec src u w hinv with h | ⟨v, hv1, hv2⟩
                · exact ⟨w ++ [cBackTick], frame.1, frame.2.1, frame.2.2, Or.inl (by rw [h]; simp)⟩
                · exact ⟨w ++ [cBackTick], frame.1, frame.2.1, frame.2.2,
                    Or.inr ⟨v, by simpa using hv1, hv2⟩⟩
              · cases hstep; exact verb _ rfl
  · -- initially nothing is consumed
    have d1 : csBegin ≠ csHexNum := by decide
    have d2 : csBegin ≠ csmP := by decide
    have d3 : csBegin ≠ csU := by decide
    exact ⟨[], by simp, rfl, by simp, ⟨by rw [hc], fun h => absurd h d1, fun h => absurd h d2,
      fun h => absurd h d3, fun _ => rfl⟩, fun _ => hc, fun h => absurd rfl h⟩

/-- the code after `UNDONE_end:` only ever appends text it consumes -/
theorem keepGroup_text (src : List Nat) (l0 l : Lexer) (w : List Nat)
    (hr : l0.rest = w ++ l.rest) (hs : l.src = l0.src) (hcu : l.cursor = l0.cursor + w.length) :
    ∃ w', l0.rest = w' ++ (keepGroup src l (cBackTick :: w)).2.rest ∧ (keepGroup src l (cBackTick :: w)).2.src = l0.src ∧
      (keepGroup src l (cBackTick :: w)).2.cursor = l0.cursor + w'.length ∧
      (keepGroup src l (cBackTick :: w)).1 = src ++ cBackTick :: w' := by
  unfold keepGroup
  split
  · dsimp only
    refine iterate_inv (step := groupStep) (hc := groupStep_consumes)
      (I := fun l1 buf => ∃ w1, buf = cBackTick :: w1 ∧ l0.rest = w1 ++ l1.rest ∧ l1.src = l0.src ∧
        l1.cursor = l0.cursor + w1.length)
      (Q := fun buf l1 => ∃ w', l0.rest = w' ++ l1.rest ∧ l1.src = l0.src ∧ l1.cursor = l0.cursor + w'.length ∧
        src ++ buf = src ++ cBackTick :: w')
      ?_ ?_ l _ ⟨w, rfl, hr, hs, hcu⟩
    · rintro l1 buf buf' l2 ⟨w1, rfl, h1, h2, h3⟩ hstep
      unfold groupStep at hstep
      dsimp only at hstep
      split at hstep
      · cases hstep
      · rename_i hz
        have hne : l1.peek ≠ 0 := by intro e; apply hz; simp [e, isGroupStop, runeEOF]
        have hrest := Lexer.rest_of_peek_ne_zero hne
        split at hstep
        · cases hstep
        · cases hstep
          exact ⟨w1 ++ [l1.peek], by simp, by rw [h1, hrest]; simp, by simp [h2], by simp [h3]; omega⟩
    · rintro l1 buf out l2 ⟨w1, rfl, h1, h2, h3⟩ hstep
      unfold groupStep at hstep
      dsimp only at hstep
      split at hstep
      · cases hstep; exact ⟨w1, h1, h2, h3, rfl⟩
      · rename_i hz
        have hne : l1.peek ≠ 0 := by intro e; apply hz; simp [e, isGroupStop, runeEOF]
        have hrest := Lexer.rest_of_peek_ne_zero hne
        split at hstep
        · cases hstep
          exact ⟨w1 ++ [l1.peek], by rw [h1, hrest]; simp, by simp [h2], by simp [h3]; omega, by simp⟩
        · cases hstep
  · exact ⟨w, hr, hs, hcu, rfl⟩

/-- **the machine, for every text**: started on a back-tick it consumes a stretch `` ` `` `w` of the text and
appends either the documented meaning of that stretch or the stretch itself -/
theorem backtick_text (src : List Nat) (l0 : Lexer) (hc : l0.cur = cBackTick) :
    ∃ w, l0.rest = w ++ (unescapeBackTick l0 src).2.rest ∧
      (unescapeBackTick l0 src).2.src = l0.src ∧ (unescapeBackTick l0 src).2.cursor = l0.cursor + w.length ∧
      ((unescapeBackTick l0 src).1 = src ++ cBackTick :: w ∨
        ∃ v, decodeEscape (cBackTick :: w) = some v ∧ (unescapeBackTick l0 src).1 = src ++ v) := by
  obtain ⟨w, h1, h2, h3, h4⟩ := machine_text src l0 hc
  unfold unescapeBackTick
  dsimp only at h1 h2 h3 h4 ⊢
  rcases h4 with h4 | ⟨v, hv, h4⟩
  · rw [h4]
    dsimp only
    obtain ⟨w', a, b, c, d⟩ := keepGroup_text src l0 _ w h1 h2 h3
    exact ⟨w', a, b, c, Or.inl d⟩
  · rw [h4]
    exact ⟨w, h1, h2, h3, Or.inr ⟨v, hv, rfl⟩⟩

theorem Lexer.rest_length (l : Lexer) : l.rest.length = l.src.size - (l.cursor + 1) := by
  simp [Lexer.rest]

/-- the back-tick machine stops on a character of the text (never past the end) -/
theorem unescapeBackTick_inside (src : List Nat) (l : Lexer) (hc : l.cur = cBackTick) :
    (unescapeBackTick l src).2.cursor < (unescapeBackTick l src).2.src.size := by
  obtain ⟨w, h1, h2, h3, -⟩ := backtick_text src l hc
  have hlt : l.cursor < l.src.size := Lexer.cursor_lt_of_cur_ne_zero (by rw [hc]; decide)
  have := congrArg List.length h1
  rw [List.length_append, Lexer.rest_length, Lexer.rest_length, h2, h3] at this
  rw [h2, h3]
  omega

theorem parseStringStep_inside {sch s ty : Nat} {l l' : Lexer} {st st' : List Nat × Nat}
    (h : parseStringStep sch s ty l st = (.cont st', l')) : l'.cursor < l'.src.size := by
  unfold parseStringStep at h
  dsimp only at h
  split at h
  · cases h
  · rename_i hz
    have hne : l.adv.cur ≠ 0 := by
      intro h0; apply hz; simp [h0, runeEOF]
    have hlt := Lexer.cursor_lt_of_cur_ne_zero hne
    split at h
    · cases h
      split
      · rename_i hp
        have : l.adv.peek ≠ 0 := by
          intro e; rw [e] at hp; revert hp; simp [runeLF, runeCR]
        have := Lexer.lt_of_getChar_ne_zero this
        simpa using this
      · simpa using hlt
    · split at h
      · cases h; exact hlt
      · split at h
        · split at h
          · split at h
            · cases h
            · cases h; exact hlt
          · cases h; exact hlt
        · split at h
          · rename_i hbt
            cases h
            exact unescapeBackTick_inside _ _ (by simpa using hbt)
          · cases h; exact hlt

/-- **outcomes of `parseString`**: a string token of the opener's family, or error 27 whose cursor is the end of
the text (or a NUL), inside `0 … len`; never another error, never a panic -/
theorem parseString_outcome (l : Lexer) (hin : l.cursor < l.src.size) :
    (∃ tk, (parseString l).1 = .ok tk ∧ tk.type = stringTokenType l.cur ∧ tk.startIdx = l.cursor) ∨
    (∃ c, (parseString l).1 = .err ⟨27, c⟩ ∧ l.cursor < c ∧ c ≤ l.src.size ∧ l.getChar c = 0) := by
  unfold parseString parseStringLoop
  refine iterate_inv (step := parseStringStep l.cur l.cursor (stringTokenType l.cur))
    (I := fun l' _ => l'.src = l.src ∧ l.cursor ≤ l'.cursor ∧ l'.cursor < l'.src.size)
    (Q := fun r _ => (∃ tk, r = .ok tk ∧ tk.type = stringTokenType l.cur ∧ tk.startIdx = l.cursor) ∨
      (∃ c, r = .err ⟨27, c⟩ ∧ l.cursor < c ∧ c ≤ l.src.size ∧ l.getChar c = 0))
    ?_ ?_ l _ ⟨rfl, Nat.le_refl _, hin⟩
  · rintro l1 st st' l2 ⟨h1, h2, h3⟩ hstep
    have hc := parseStringStep_consumes _ _ _ l1 st st' l2 hstep
    exact ⟨by rw [hc.1, h1], by omega, parseStringStep_inside hstep⟩
  · rintro l1 st r l2 ⟨h1, h2, h3⟩ hstep
    unfold parseStringStep at hstep
    dsimp only at hstep
    split at hstep
    · rename_i hz
      cases hstep
      right
      have hz' : l1.adv.cur = 0 := by simpa [runeEOF] using hz
      refine ⟨l1.cursor + 1, rfl, by omega, by rw [← h1]; omega, ?_⟩
      have : l.getChar (l1.cursor + 1) = l1.getChar (l1.cursor + 1) := by
        unfold Lexer.getChar; rw [h1]
      rw [this]; exact hz'
    · repeat' split at hstep
      all_goals first | cases hstep | skip
      left
      exact ⟨_, rfl, rfl, rfl⟩

/-! ### an undocumented group is kept whole -/

/-- a character that can stand inside a back-tick group: no back-tick, no quote, no line break, not the end -/
def GroupChar (c : Nat) : Prop := c ≠ cBackTick ∧ isQuoteChar c = false ∧ c ≠ 0 ∧ c ≠ runeCR ∧ c ≠ runeLF

instance (c : Nat) : Decidable (GroupChar c) := by unfold GroupChar; infer_instance

theorem markQuotes_eq (c : Nat) : markQuotes.contains c = isQuoteChar c := by
  simp only [isQuoteChar, leftQuotes, rightQuotes, markQuotes, cLeftDoubleQuoteI, cLeftDoubleQuoteII, cLeftSingleQuoteI,
    cLeftSingleQuoteII, cLeftLibQuoteI, cRightDoubleQuoteI, cRightDoubleQuoteII, cRightSingleQuoteI,
    cRightSingleQuoteII, cRightLibQuoteI, List.contains_cons, List.contains_nil, Bool.or_false]
  rw [Bool.eq_iff_iff]
  simp only [Bool.or_eq_true, beq_iff_eq]
  omega

theorem GroupChar.not_stop {c : Nat} (h : GroupChar c) : isGroupStop c = false := by
  obtain ⟨-, h2, h3, h4, h5⟩ := h
  have hq : markQuotes.contains c = false := by rw [markQuotes_eq]; exact h2
  unfold isGroupStop
  rw [hq]
  simp [runeEOF, h3, h4, h5]

/-- the loop after `UNDONE_end:` runs to the closing back-tick -/
theorem group_run (r : List Nat) : ∀ (w : List Nat), (∀ c ∈ w, GroupChar c) → ∀ (l : Lexer) (buf : List Nat),
    l.rest = w ++ cBackTick :: r →
    iterate groupStep groupStep_consumes l buf = (buf ++ w ++ [cBackTick], l.setCursor (l.cursor + w.length + 1)) := by
  intro w
  induction w with
  | nil =>
    intro _ l buf h
    have hp := (Lexer.rest_cons (by simpa using h : l.rest = cBackTick :: r)).1
    have hstep : groupStep l buf = (.done (buf ++ [cBackTick]), l.adv) := by
      unfold groupStep
      have a1 : isGroupStop cBackTick = false := by decide
      simp only [hp, a1, Bool.false_eq_true, ↓reduceIte, beq_self_eq_true]
    rw [iterate_done hstep]; simp [Lexer.setCursor, Lexer.adv]
  | cons c w ih =>
    intro hw l buf h
    have hc := hw c List.mem_cons_self
    obtain ⟨hp, hr⟩ := Lexer.rest_cons (by simpa using h : l.rest = c :: (w ++ cBackTick :: r))
    have hstep : groupStep l buf = (.cont (buf ++ [c]), l.adv) := by
      unfold groupStep
      have a2 : (c == cBackTick) = false := by simpa using hc.1
      simp only [hp, hc.not_stop, a2, Bool.false_eq_true, ↓reduceIte]
    rw [iterate_cont hstep, ih (fun x hx => hw x (List.mem_cons_of_mem _ hx)) l.adv (buf ++ [c]) hr]
    simp [Lexer.setCursor, Lexer.adv]; omega

theorem unescClose_cases (src : List Nat) (u : UState) (b : List Nat) :
    unescClose src u b = .undone b ∨ ∃ lit, unescClose src u b = .decoded lit := by
  unfold unescClose
  dsimp only
  repeat' split
  all_goals first | (left; rfl) | (right; exact ⟨_, rfl⟩)

/-- from any state of the machine inside a group of ordinary characters: the whole group is kept, unless the
machine decodes -/
theorem group_kept_from (src r : List Nat) : ∀ (w : List Nat), (∀ c ∈ w, GroupChar c) →
    ∀ (l : Lexer) (u : UState), u.buf ≠ [] → l.rest = w ++ cBackTick :: r →
    (∃ lit l', iterate (unescStep src) (unescStep_consumes src) l u = (.decoded lit, l')) ∨
    (∃ buf l', iterate (unescStep src) (unescStep_consumes src) l u = (.undone buf, l') ∧
      keepGroup src l' buf = (src ++ u.buf ++ w ++ [cBackTick], l.setCursor (l.cursor + w.length + 1))) := by
  intro w
  induction w with
  | nil =>
    intro _ l u hb h
    have h' : l.rest = cBackTick :: r := by simpa using h
    rw [iterate_done (unescStep_close h')]
    rcases unescClose_cases src u (u.buf ++ [cBackTick]) with e | ⟨lit, e⟩
    · right
      refine ⟨_, _, by rw [e], ?_⟩
      rw [keepGroup_closed _ _ (by
        have : 0 < u.buf.length := List.length_pos_iff.mpr hb
        simp; omega) (by simp)]
      simp [Lexer.setCursor, Lexer.adv]
    · left; exact ⟨lit, _, by rw [e]⟩
  | cons c w ih =>
    intro hw l u hb h
    have hc := hw c List.mem_cons_self
    have h' : l.rest = c :: (w ++ cBackTick :: r) := by simpa using h
    obtain ⟨hp, hr⟩ := Lexer.rest_cons h'
    obtain ⟨g1, g2, g3, g4, g5⟩ := hc
    have hhead := unescStep_head (src := src) (l := l) (u := u) (by rw [hp]; exact g2) (by rw [hp]; exact g3)
      (by rw [hp]; exact g4) (by rw [hp]; exact g5)
    have hcur : l.adv.cur = c := hp
    -- the four ways `unescConsume` can go on an ordinary character
    have hgo : (∃ u', unescConsume src l u = (.cont u', l.adv) ∧ u'.buf = u.buf ++ [c]) ∨
        unescConsume src l u = (.done (.undone (u.buf ++ [c])), l.adv) := by
      unfold unescConsume
      dsimp only
      rw [hcur]
      split
      · left; exact ⟨_, rfl, rfl⟩
      · split
        · left; exact ⟨_, rfl, rfl⟩
        · split
          · split
            · left; exact ⟨_, rfl, rfl⟩
            · right; rfl
          · have : (c == cBackTick) = false := by simpa using g1
            simp only [this, Bool.false_eq_true, ↓reduceIte]
            right; trivial
    rcases hgo with ⟨u', hstep, hbuf⟩ | hstep
    · rw [iterate_cont (by rw [hhead]; exact hstep)]
      rcases ih (fun x hx => hw x (List.mem_cons_of_mem _ hx)) l.adv u' (by rw [hbuf]; simp) hr with h1 | ⟨buf, l', h1, h2⟩
      · left; exact h1
      · right
        refine ⟨buf, l', h1, ?_⟩
        rw [h2, hbuf]
        simp [Lexer.setCursor, Lexer.adv]; omega
    · right
      rw [iterate_done (by rw [hhead]; exact hstep)]
      refine ⟨_, _, rfl, ?_⟩
      unfold keepGroup
      have hl : ((u.buf ++ [c]).getLast? != some cBackTick) = true := by
        simp; exact g1
      simp only [hl, Bool.or_true, ↓reduceIte]
      rw [group_run r w (fun x hx => hw x (List.mem_cons_of_mem _ hx)) l.adv (u.buf ++ [c]) hr]
      simp [Lexer.setCursor, Lexer.adv]; omega

theorem first_sep_unique {x : Nat} : ∀ (w u a b : List Nat), x ∉ w → x ∉ u → w ++ x :: a = u ++ x :: b → u = w := by
  intro w
  induction w with
  | nil =>
    intro u a b _ hu heq
    cases u with
    | nil => rfl
    | cons y u' =>
      simp only [List.nil_append, List.cons_append, List.cons.injEq] at heq
      exact absurd (by rw [← heq.1]; exact List.mem_cons_self) hu
  | cons y w' ih =>
    intro u a b hw hu heq
    cases u with
    | nil =>
      simp only [List.nil_append, List.cons_append, List.cons.injEq] at heq
      exact absurd (by rw [heq.1]; exact List.mem_cons_self) hw
    | cons z u' =>
      simp only [List.cons_append, List.cons.injEq] at heq
      rw [heq.1, ih u' a b (fun hm => hw (List.mem_cons_of_mem _ hm)) (fun hm => hu (List.mem_cons_of_mem _ hm)) heq.2]

/-- **an undocumented group is kept whole, and its closing back-tick opens nothing**: with the cursor on a
back-tick followed by ordinary characters `w` and a back-tick, where `` ` `` `w` `` ` `` is not a documented
escape, exactly that group is appended and the cursor ends on its closing back-tick -/
theorem group_kept (src r w : List Nat) (l : Lexer) (hc : l.cur = cBackTick) (hw : ∀ c ∈ w, GroupChar c)
    (hr : l.rest = w ++ cBackTick :: r) (hnd : decodeEscape (cBackTick :: w ++ [cBackTick]) = none) :
    unescapeBackTick l src = (src ++ cBackTick :: w ++ [cBackTick], l.setCursor (l.cursor + w.length + 1)) := by
  rcases group_kept_from src r w hw l ⟨csBegin, 0, [l.cur]⟩ (by simp) hr with ⟨lit, l', h1⟩ | ⟨buf, l', h1, h2⟩
  · -- the machine decoded: then the consumed text is a documented escape, and it is the whole group
    exfalso
    obtain ⟨w', e1, e2, e3, e4⟩ := machine_text src l hc
    rw [h1] at e1 e3 e4
    dsimp only at e1 e3 e4
    rcases e4 with e4 | ⟨v, hv, -⟩
    · cases e4
    · -- a documented escape ends with a back-tick and has no other one: it is `w ++ [bt]`
      have hshape : ∃ u, w' = u ++ [cBackTick] ∧ cBackTick ∉ u := by
        unfold decodeEscape at hv
        have hb : (cBackTick == backTick) = true := by decide
        simp only [hb, Bool.true_and] at hv
        split at hv
        · rename_i hcond
          simp only [Bool.and_eq_true, beq_iff_eq, Bool.not_eq_true'] at hcond
          obtain ⟨hlast, hnc⟩ := hcond
          refine ⟨w'.dropLast, ?_, ?_⟩
          · have hne : w' ≠ [] := by intro e; rw [e] at hlast; simp at hlast
            have hl := List.dropLast_concat_getLast hne
            have : w'.getLast hne = cBackTick := by
              have := List.getLast?_eq_some_getLast hne
              rw [this] at hlast
              exact Option.some.inj hlast
            rw [this] at hl; exact hl.symm
          · intro hm
            have : w'.dropLast.contains backTick = true := List.contains_iff_mem.mpr hm
            rw [this] at hnc; exact absurd hnc (by decide)
        · cases hv
      obtain ⟨u, rfl, hu⟩ := hshape
      -- both `w` and `u` are back-tick free prefixes of the same text followed by a back-tick
      have hwb : cBackTick ∉ w := fun hm => (hw _ hm).1 rfl
      have heq : w ++ cBackTick :: r = u ++ cBackTick :: l'.rest := by rw [← hr, e1]; simp
      have huw : u = w := first_sep_unique w u r l'.rest hwb hu heq
      subst huw
      have : decodeEscape (cBackTick :: u ++ [cBackTick]) = some v := by simpa using hv
      rw [this] at hnd; cases hnd
  · unfold unescapeBackTick
    rw [h1]
    dsimp only
    rw [h2]
    simp [hc]

end general

end ZnVerif.Model
