/-
Helper lemmas for C15: the colour DFS of `checkCircularDepedencyDFS` (Model.Modules.checkCircular) decides
`HasCycle`, for every start order.

Soundness: the grey nodes all reach the node being explored, so an edge into a grey node closes a cycle.
Completeness: black nodes are recorded in finishing order; when a node turns black all its successors are already
black, so the list of black nodes is topologically sorted (`Topo`); a run that answers `false` has blackened every
node, and a topologically sorted list containing every edge source admits no cycle.
Termination: every call colours a white node, fuel `|nodes| + 1` is never exhausted.
-/
import ZnVerif.Model.Modules
import ZnVerif.Spec.ModuleSem

namespace ZnVerif.Proofs.ModulesDfs
open ZnVerif.Model.Modules
open ZnVerif.Spec.ModuleSem (Walk HasCycle)

/-! ### walks -/

theorem Walk.trans {g : Graph} {a b c : Nat} (h1 : Walk g a b) (h2 : Walk g b c) : Walk g a c := by
  induction h1 with
  | refl => exact h2
  | cons e _ ih => exact Walk.cons e (ih h2)

theorem Walk.snoc {g : Graph} {a b c : Nat} (h1 : Walk g a b) (e : (b, c) ∈ g) : Walk g a c :=
  Walk.trans h1 (Walk.cons e (Walk.refl c))

theorem Walk.mono {g g' : Graph} (hs : ∀ e, e ∈ g → e ∈ g') {a b : Nat} (h : Walk g a b) : Walk g' a b := by
  induction h with
  | refl => exact Walk.refl _
  | cons e _ ih => exact Walk.cons (hs _ e) ih

theorem HasCycle.mono {g g' : Graph} (hs : ∀ e, e ∈ g → e ∈ g') (h : HasCycle g) : HasCycle g' := by
  obtain ⟨a, b, e, w⟩ := h
  exact ⟨a, b, hs _ e, Walk.mono hs w⟩

/-! ### adjacency, nodes -/

theorem mem_adjOf {g : Graph} {u v : Nat} : v ∈ adjOf g u ↔ (u, v) ∈ g := by
  unfold adjOf
  rw [List.mem_filterMap]
  constructor
  · rintro ⟨⟨a, b⟩, hm, h⟩
    by_cases hab : a = u
    · simp [hab] at h; subst hab; subst h; exact hm
    · simp [hab] at h
  · intro h
    exact ⟨(u, v), h, by simp⟩

theorem src_mem_nodes {g : Graph} {u v : Nat} (h : (u, v) ∈ g) : u ∈ nodes g := by
  unfold nodes; rw [List.mem_flatMap]; exact ⟨(u, v), h, by simp⟩

theorem dst_mem_nodes {g : Graph} {u v : Nat} (h : (u, v) ∈ g) : v ∈ nodes g := by
  unfold nodes; rw [List.mem_flatMap]; exact ⟨(u, v), h, by simp⟩

/-! ### topologically sorted lists -/

/-- every successor of an element occurs later in the list -/
def Topo (g : Graph) : List Nat → Prop
  | [] => True
  | x :: l => (∀ y, (x, y) ∈ g → y ∈ l) ∧ Topo g l

theorem topo_succ {g : Graph} : ∀ {l : List Nat}, Topo g l → ∀ {x y}, x ∈ l → (x, y) ∈ g → y ∈ l
  | [], _, _, _, hx, _ => by cases hx
  | a :: l, ht, x, y, hx, e => by
    rcases List.mem_cons.1 hx with rfl | hx
    · exact List.mem_cons_of_mem _ (ht.1 y e)
    · exact List.mem_cons_of_mem _ (topo_succ ht.2 hx e)

theorem topo_closed {g : Graph} {l : List Nat} (ht : Topo g l) {x y : Nat} (w : Walk g x y) : x ∈ l → y ∈ l := by
  induction w with
  | refl => exact id
  | cons e _ ih => intro hx; exact ih (topo_succ ht hx e)

theorem topo_acyclic {g : Graph} : ∀ {l : List Nat}, Topo g l → ∀ {a b}, a ∈ l → (a, b) ∈ g → Walk g b a → False
  | [], _, _, _, ha, _, _ => by cases ha
  | x :: l, ht, a, b, ha, e, w => by
    by_cases hl : a ∈ l
    · exact topo_acyclic ht.2 hl e w
    · rcases List.mem_cons.1 ha with rfl | h
      · exact hl (topo_closed ht.2 w (ht.1 b e))
      · exact hl h

/-- a topologically sorted list that contains every edge source excludes cycles -/
theorem topo_no_cycle {g : Graph} {l : List Nat} (ht : Topo g l) (hs : ∀ a b, (a, b) ∈ g → a ∈ l) : ¬ HasCycle g := by
  rintro ⟨a, b, e, w⟩
  exact topo_acyclic ht (hs a b e) e w

/-! ### colours -/

theorem look_cons (c : Colours) (k : Nat) (v : Colour) (u : Nat) :
    look ((k, v) :: c) u = if k = u then v else look c u := rfl

/-- black nodes, most recently finished first -/
def finished : Colours → List Nat
  | [] => []
  | (k, v) :: r => if v = .black then k :: finished r else finished r

theorem finished_cons_grey (c : Colours) (u : Nat) : finished ((u, .grey) :: c) = finished c := by
  simp [finished]

theorem finished_cons_black (c : Colours) (u : Nat) : finished ((u, .black) :: c) = u :: finished c := by
  simp [finished]

theorem mem_finished_of_black : ∀ {c : Colours} {u : Nat}, look c u = .black → u ∈ finished c
  | [], u, h => by simp [look] at h
  | (k, v) :: r, u, h => by
    rw [look_cons] at h
    by_cases hk : k = u
    · simp [hk] at h; subst hk; subst h; simp [finished]
    · simp [hk] at h
      have := mem_finished_of_black h
      unfold finished
      split
      · exact List.mem_cons_of_mem _ this
      · exact this

def Mono (c c' : Colours) : Prop := ∀ x, look c x ≠ .white → look c' x ≠ .white
def GreyEq (c c' : Colours) : Prop := ∀ x, look c' x = .grey ↔ look c x = .grey
def GreyReach (g : Graph) (c : Colours) (u : Nat) : Prop := ∀ w, look c w = .grey → Walk g w u

def whiteCount (g : Graph) (c : Colours) : Nat := (nodes g).countP (fun x => decide (look c x = .white))

theorem whiteCount_mono {g : Graph} {c c' : Colours} (h : Mono c c') : whiteCount g c' ≤ whiteCount g c := by
  unfold whiteCount
  apply List.countP_mono_left
  intro x _ hx
  simp only [decide_eq_true_eq] at hx ⊢
  exact Classical.byContradiction fun hn => h x hn hx

theorem countP_lt {α} {p q : α → Bool} : ∀ {l : List α}, (∀ x, x ∈ l → p x = true → q x = true) →
    (∃ u, u ∈ l ∧ q u = true ∧ p u = false) → List.countP p l < List.countP q l
  | [], _, ⟨_, hu, _⟩ => by cases hu
  | a :: l, hpq, ⟨u, hu, hqu, hpu⟩ => by
    have hmono : List.countP p l ≤ List.countP q l :=
      List.countP_mono_left (fun x hx => hpq x (List.mem_cons_of_mem _ hx))
    rcases List.mem_cons.1 hu with rfl | hul
    · simp [hqu, hpu]; omega
    · have ih := countP_lt (l := l) (fun x hx => hpq x (List.mem_cons_of_mem _ hx)) ⟨u, hul, hqu, hpu⟩
      have ha := hpq a (List.mem_cons_self ..)
      simp only [List.countP_cons]
      by_cases hp : p a = true
      · simp [hp, ha hp]; omega
      · by_cases hq : q a = true
        · simp [hp, hq]; omega
        · simp [hp, hq]; omega

theorem whiteCount_lt {g : Graph} {c : Colours} {u : Nat} (hu : u ∈ nodes g) (hw : look c u = .white) :
    whiteCount g ((u, .grey) :: c) < whiteCount g c := by
  unfold whiteCount
  apply countP_lt
  · intro x _ hx
    simp only [decide_eq_true_eq, look_cons] at hx ⊢
    by_cases h : u = x
    · simp [h] at hx
    · simpa [h] using hx
  · exact ⟨u, hu, by simpa using hw, by simp [look_cons]⟩

theorem whiteCount_le_length (g : Graph) (c : Colours) : whiteCount g c ≤ (nodes g).length :=
  List.countP_le_length

/-! ### the specification of one `dfs(u)` call -/

def FalsePost (g : Graph) (c c' : Colours) (vs : List Nat) : Prop :=
  GreyEq c c' ∧ (∃ l, finished c' = l ++ finished c) ∧ (∀ v, v ∈ vs → v ∈ finished c') ∧
    (Topo g (finished c) → Topo g (finished c'))

def NodeOK (g : Graph) (c : Colours) (u : Nat) (r : Option (Bool × Colours)) : Prop :=
  ∃ b c', r = some (b, c') ∧ Mono c c' ∧ (b = true → GreyReach g c u → HasCycle g) ∧
    (b = false → FalsePost g c c' [u])

theorem dfsChildren_spec (g : Graph) (f : Nat) (rec : Colours → Nat → Option (Bool × Colours))
    (hrec : ∀ c v, look c v = .white → whiteCount g c < f → NodeOK g c v (rec c v)) :
    ∀ (vs : List Nat) (c : Colours), (vs ≠ [] → whiteCount g c < f) →
      ∃ b c', dfsChildren rec c vs = some (b, c') ∧ Mono c c' ∧
        (b = true → ∀ u, GreyReach g c u → (∀ v, v ∈ vs → (u, v) ∈ g) → HasCycle g) ∧
        (b = false → FalsePost g c c' vs)
  | [], c, _ => by
    refine ⟨false, c, rfl, fun _ h => h, by simp, fun _ => ⟨fun _ => Iff.rfl, ⟨[], rfl⟩, ?_, id⟩⟩
    intro v hv; cases hv
  | v :: vs, c, hf => by
    have hfc : whiteCount g c < f := hf (by simp)
    unfold dfsChildren
    cases hl : look c v with
    | grey =>
      refine ⟨true, c, rfl, fun _ h => h, ?_, by simp⟩
      intro _ u hg he
      exact ⟨u, v, he v (List.mem_cons_self ..), hg v hl⟩
    | black =>
      obtain ⟨b, c', hr, hm, ht, hfl⟩ := dfsChildren_spec g f rec hrec vs c (fun _ => hfc)
      refine ⟨b, c', hr, hm, ?_, ?_⟩
      · intro hb u hg he
        exact ht hb u hg (fun w hw => he w (List.mem_cons_of_mem _ hw))
      · intro hb
        obtain ⟨h1, ⟨l, h2⟩, h3, h4⟩ := hfl hb
        refine ⟨h1, ⟨l, h2⟩, ?_, h4⟩
        intro w hw
        rcases List.mem_cons.1 hw with rfl | hw
        · rw [h2]; exact List.mem_append_right _ (mem_finished_of_black hl)
        · exact h3 w hw
    | white =>
      obtain ⟨b1, c1, hr1, hm1, ht1, hf1⟩ := hrec c v hl hfc
      simp only [hr1]
      cases b1 with
      | true =>
        refine ⟨true, c1, rfl, hm1, ?_, by simp⟩
        intro _ u hg he
        apply ht1 rfl
        intro w hw
        exact Walk.snoc (hg w hw) (he v (List.mem_cons_self ..))
      | false =>
        obtain ⟨g1, ⟨l1, e1⟩, m1, t1⟩ := hf1 rfl
        have hfc1 : whiteCount g c1 < f := Nat.lt_of_le_of_lt (whiteCount_mono hm1) hfc
        obtain ⟨b, c', hr, hm, ht, hfl⟩ := dfsChildren_spec g f rec hrec vs c1 (fun _ => hfc1)
        refine ⟨b, c', hr, fun x hx => hm x (hm1 x hx), ?_, ?_⟩
        · intro hb u hg he
          apply ht hb u
          · intro w hw; exact hg w ((g1 w).1 hw)
          · intro w hw; exact he w (List.mem_cons_of_mem _ hw)
        · intro hb
          obtain ⟨h1, ⟨l, h2⟩, h3, h4⟩ := hfl hb
          refine ⟨fun x => (h1 x).trans (g1 x), ⟨l ++ l1, by rw [h2, e1, List.append_assoc]⟩, ?_, fun h => h4 (t1 h)⟩
          intro w hw
          rcases List.mem_cons.1 hw with rfl | hw
          · rw [h2]; exact List.mem_append_right _ (m1 w (List.mem_cons_self ..))
          · exact h3 w hw

theorem dfsNode_spec (g : Graph) : ∀ (f : Nat) (c : Colours) (u : Nat), look c u = .white → whiteCount g c < f →
    NodeOK g c u (dfsNode g f c u)
  | 0, _, _, _, hf => by omega
  | f + 1, c, u, hw, hf => by
    have hchildren := dfsChildren_spec g f (dfsNode g f) (fun c v h1 h2 => dfsNode_spec g f c v h1 h2)
      (adjOf g u) ((u, .grey) :: c) (by
        intro hne
        have hu : u ∈ nodes g := by
          cases hadj : adjOf g u with
          | nil => exact absurd hadj hne
          | cons v _ =>
            have : v ∈ adjOf g u := by rw [hadj]; exact List.mem_cons_self ..
            exact src_mem_nodes (mem_adjOf.1 this)
        have := whiteCount_lt hu hw
        omega)
    obtain ⟨b, c2, hr, hm, ht, hfl⟩ := hchildren
    have hmono1 : Mono c ((u, .grey) :: c) := by
      intro x hx
      rw [look_cons]
      by_cases h : u = x
      · simp [h]
      · simpa [h] using hx
    unfold dfsNode
    simp only [hr]
    cases b with
    | true =>
      refine ⟨true, c2, rfl, fun x hx => hm x (hmono1 x hx), ?_, by simp⟩
      intro _ hg
      apply ht rfl u
      · intro w hw'
        rw [look_cons] at hw'
        by_cases h : u = w
        · subst h; exact Walk.refl _
        · simp [h] at hw'; exact hg w hw'
      · intro v hv; exact mem_adjOf.1 hv
    | false =>
      obtain ⟨h1, ⟨l, h2⟩, h3, h4⟩ := hfl rfl
      refine ⟨false, (u, .black) :: c2, rfl, ?_, by simp, fun _ => ⟨?_, ⟨u :: l, ?_⟩, ?_, ?_⟩⟩
      · intro x hx
        rw [look_cons]
        by_cases h : u = x
        · simp [h]
        · simpa [h] using hm x (hmono1 x hx)
      · intro x
        rw [look_cons]
        by_cases h : u = x
        · subst h; simp [hw]
        · simp only [h, if_false]
          rw [h1 x, look_cons]; simp [h]
      · rw [finished_cons_black, h2, finished_cons_grey]; rfl
      · intro v hv
        rw [List.mem_singleton.1 hv, finished_cons_black]; exact List.mem_cons_self ..
      · intro htopo
        rw [finished_cons_black]
        refine ⟨fun y e => h3 y (mem_adjOf.2 e), h4 ?_⟩
        rw [finished_cons_grey]; exact htopo

/-! ### the start loop -/

def NoGrey (c : Colours) : Prop := ∀ x, look c x ≠ .grey

theorem dfsLoop_spec (g : Graph) (fuel : Nat) : ∀ (ns : List Nat) (c : Colours), NoGrey c → whiteCount g c < fuel →
    ∃ b, dfsLoop g fuel c ns = some b ∧ (b = true → HasCycle g) ∧
      (b = false → Topo g (finished c) → ∃ L, Topo g L ∧ (∀ x, x ∈ finished c → x ∈ L) ∧ ∀ n, n ∈ ns → n ∈ L)
  | [], c, _, _ => ⟨false, rfl, by simp, fun _ ht => ⟨finished c, ht, fun _ h => h, fun _ h => by cases h⟩⟩
  | n :: ns, c, hng, hf => by
    unfold dfsLoop
    cases hl : look c n with
    | grey => exact absurd hl (hng n)
    | black =>
      obtain ⟨b, hr, ht, hfl⟩ := dfsLoop_spec g fuel ns c hng hf
      refine ⟨b, hr, ht, ?_⟩
      intro hb htopo
      obtain ⟨L, h1, h2, h3⟩ := hfl hb htopo
      refine ⟨L, h1, h2, ?_⟩
      intro x hx
      rcases List.mem_cons.1 hx with rfl | hx
      · exact h2 _ (mem_finished_of_black hl)
      · exact h3 x hx
    | white =>
      obtain ⟨b1, c1, hr1, hm1, ht1, hf1⟩ := dfsNode_spec g fuel c n hl hf
      simp only [hr1]
      cases b1 with
      | true =>
        exact ⟨true, rfl, fun _ => ht1 rfl (fun w hw => absurd hw (hng w)), by simp⟩
      | false =>
        obtain ⟨g1, ⟨l1, e1⟩, m1, t1⟩ := hf1 rfl
        have hng1 : NoGrey c1 := fun x hx => hng x ((g1 x).1 hx)
        have hfc1 : whiteCount g c1 < fuel := Nat.lt_of_le_of_lt (whiteCount_mono hm1) hf
        obtain ⟨b, hr, ht, hfl⟩ := dfsLoop_spec g fuel ns c1 hng1 hfc1
        refine ⟨b, hr, ht, ?_⟩
        intro hb htopo
        obtain ⟨L, h1, h2, h3⟩ := hfl hb (t1 htopo)
        refine ⟨L, h1, ?_, ?_⟩
        · intro x hx; apply h2; rw [e1]; exact List.mem_append_right _ hx
        · intro x hx
          rcases List.mem_cons.1 hx with rfl | hx
          · exact h2 _ (m1 _ (List.mem_cons_self ..))
          · exact h3 x hx

/-! ### checkCircular decides HasCycle -/

theorem checkCircular_total (g : Graph) (π : List Nat) : ∃ b, checkCircular g π = some b := by
  obtain ⟨b, h, _⟩ := dfsLoop_spec g ((nodes g).length + 1) π [] (fun x => by simp [look])
    (Nat.lt_succ_of_le (whiteCount_le_length g []))
  exact ⟨b, h⟩

theorem checkCircular_sound (g : Graph) (π : List Nat) (h : checkCircular g π = some true) : HasCycle g := by
  obtain ⟨b, hr, ht, _⟩ := dfsLoop_spec g ((nodes g).length + 1) π [] (fun x => by simp [look])
    (Nat.lt_succ_of_le (whiteCount_le_length g []))
  unfold checkCircular at h
  rw [hr] at h
  exact ht (by simpa using h)

theorem checkCircular_complete (g : Graph) (π : List Nat) (hπ : ∀ v, v ∈ nodes g → v ∈ π) (hc : HasCycle g) :
    checkCircular g π = some true := by
  obtain ⟨b, hr, _, hfl⟩ := dfsLoop_spec g ((nodes g).length + 1) π [] (fun x => by simp [look])
    (Nat.lt_succ_of_le (whiteCount_le_length g []))
  unfold checkCircular
  rw [hr]
  cases b with
  | true => rfl
  | false =>
    exfalso
    obtain ⟨L, h1, _, h3⟩ := hfl rfl (by simp [finished, Topo])
    exact topo_no_cycle h1 (fun a b e => h3 a (hπ a (src_mem_nodes e))) hc

end ZnVerif.Proofs.ModulesDfs
