/-
Helper lemmas for the input-variable theorems, part 5: the initial VM satisfies `VI`; the loops of Model/VarInput.lean
(`evalAssigns`, `exprInputsLoop`) keep it; what `collectAssigns` returns; the run relation `Runs` and the map it builds.
-/
import ZnVerif.Proofs.VarInputEval
import ZnVerif.Model.VarInput
set_option linter.unusedSectionVars false
set_option linter.unusedVariables false
set_option linter.unusedSimpArgs false

namespace ZnVerif.Proofs.VarInput
open ZnVerif.Model ZnVerif.Model.VarInput ZnVerif.Proofs.Builtins ZnVerif.Spec.Grammar

variable {ν : Type} [NumOps ν]

/-! ## `r.InitVM(NewGlobalValues())` -/

theorem vi_init : VI (initVM () : VM ν) := by
  have hsz : (initVM () : VM ν).heap.size = 7 := rfl
  refine ⟨?_, ?_, ?_, (fun p hp => nomatch hp), (fun fr hfr => nomatch hfr)⟩
  · intro a c h
    have ha : a < 7 := lt_size_of_get h
    match a, ha with
    | 0, _ => injection h with h; subst h; trivial
    | 1, _ => injection h with h; subst h; trivial
    | 2, _ => injection h with h; subst h; trivial
    | 3, _ => injection h with h; subst h; exact ⟨(fun p hp => nomatch hp), (fun p hp => nomatch hp)⟩
    | 4, _ => injection h with h; subst h; trivial
    | 5, _ => injection h with h; subst h; trivial
    | 6, _ => injection h with h; subst h; trivial
  · intro a c h
    have ha : a < 7 := lt_size_of_get h
    match a, ha with
    | 0, _ => injection h with h; subst h; trivial
    | 1, _ => injection h with h; subst h; trivial
    | 2, _ => injection h with h; subst h; trivial
    | 3, _ => injection h with h; subst h; rfl
    | 4, _ => injection h with h; subst h; trivial
    | 5, _ => injection h with h; subst h; trivial
    | 6, _ => injection h with h; subst h; trivial
  · intro p hp
    rw [hsz]
    have : p.2 ∈ [0, 1, 2, 3, 4, 5, 6] := by
      have := List.mem_map_of_mem (f := Prod.snd) hp
      exact this
    revert this
    generalize p.2 = x
    intro h
    simp only [List.mem_cons, List.mem_nil_iff, or_false] at h
    rcases h with rfl | rfl | rfl | rfl | rfl | rfl | rfl <;> decide

/-! ## outcomes that are fine -/

/-- not a panic; the VM handed back satisfies `VI`; every bound value is the address of a cell ("never a nil result") -/
def GoodMap : Outcome ν (List (String × Addr)) → Prop
  | .ok binds s' => VI s' ∧ ∀ b ∈ binds, b.2 < s'.heap.size
  | .slot _ s' => VI s'
  | .evalErr _ s' => VI s'
  | .panic => False
  | _ => True

def GoodVal : Outcome ν Addr → Prop
  | .ok v s' => VI s' ∧ v < s'.heap.size
  | .slot _ s' => VI s'
  | .evalErr _ s' => VI s'
  | .panic => False
  | _ => True

theorem goodMap_ne_panic {o : Outcome ν (List (String × Addr))} (h : GoodMap o) : ∀ (_ : o = .panic), False := by
  intro he; rw [he] at h; exact h

theorem goodVal_ne_panic {o : Outcome ν Addr} (h : GoodVal o) : ∀ (_ : o = .panic), False := by
  intro he; rw [he] at h; exact h

theorem mem_assocSet' {β} {k : String} {v : β} {p : String × β} {l : List (String × β)} (h : p ∈ assocSet k v l) :
    p = (k, v) ∨ p ∈ l := mem_assocSet h

theorem evalAssigns_good (fuel : Nat) : ∀ (pairs : List (Expr × Expr)), (∀ p ∈ pairs, CExpr p.2) →
    ∀ (acc : List (String × Addr)) (s : VM ν), VI s → (∀ b ∈ acc, b.2 < s.heap.size) → GoodMap (evalAssigns fuel pairs acc s)
  | [], _, acc, s, hs, hacc => ⟨hs, hacc⟩
  | (t, e) :: rest, hp, acc, s, hs, hacc => by
    unfold evalAssigns
    cases t with
    | id i =>
      dsimp only
      have h := (allV fuel).evalExpr e s (hp (.id i, e) List.mem_cons_self) hs
      rcases hr : evalExpr fuel e s with ⟨r, s'⟩
      rw [hr] at h
      cases r with
      | ok v =>
        dsimp only
        refine evalAssigns_good fuel rest (fun p hpm => hp p (List.mem_cons_of_mem _ hpm)) _ s' h.1 (fun b hb => ?_)
        rcases mem_assocSet' hb with rfl | hb
        · exact h.2.2
        · exact Nat.lt_of_lt_of_le (hacc b hb) h.2.1.size
      | err er => exact h.1
      | panic => exact h
      | fuel => trivial
      | unmodelled => trivial
    | _ => exact hs

theorem evalExpressionTree_good (fuel : Nat) (p : Program) (s : VM ν) (hs : VI s)
    (hc : ∀ e, assertSingleExpr p = some e → CExpr e) : GoodVal (evalExpressionTree fuel p s) := by
  unfold evalExpressionTree
  cases ha : assertSingleExpr p with
  | none => exact hs
  | some e =>
    dsimp only
    have h := (allV fuel).evalExpr e s (hc e ha) hs
    rcases hr : evalExpr fuel e s with ⟨r, s'⟩
    rw [hr] at h
    cases r with
    | ok v => exact ⟨h.1, h.2.2⟩
    | err er => exact h.1
    | panic => exact h
    | fuel => trivial
    | unmodelled => trivial

theorem exprInputsLoop_good {α : Type} (evalOne : α → VM ν → Outcome ν Addr) :
    ∀ (entries : List (String × α)), (∀ x ∈ entries, ∀ s, VI s → GoodVal (evalOne x.2 s)) →
    ∀ (acc : List (String × Addr)) (s : VM ν), VI s → (∀ b ∈ acc, b.2 < s.heap.size) →
      (∀ x ∈ entries, ∀ (s s' : VM ν) (v : Addr), VI s → evalOne x.2 s = .ok v s' → s.heap.size ≤ s'.heap.size) →
      GoodMap (exprInputsLoop evalOne entries acc s)
  | [], _, acc, s, hs, hacc, _ => ⟨hs, hacc⟩
  | (k, x) :: rest, hgood, acc, s, hs, hacc, hgrow => by
    unfold exprInputsLoop
    have h := hgood (k, x) List.mem_cons_self s hs
    have hg := hgrow (k, x) List.mem_cons_self s
    dsimp only at h hg
    cases hr : evalOne x s with
    | ok v s' =>
      rw [hr] at h
      dsimp only
      refine exprInputsLoop_good evalOne rest (fun y hy => hgood y (List.mem_cons_of_mem _ hy)) _ s' h.1 (fun b hb => ?_)
        (fun y hy => hgrow y (List.mem_cons_of_mem _ hy))
      rcases mem_assocSet' hb with rfl | hb
      · exact h.2
      · exact Nat.lt_of_lt_of_le (hacc b hb) (hg s' v hs hr)
    | ioErr c => trivial
    | slot w s' => rw [hr] at h; exact h
    | evalErr e s' => rw [hr] at h; exact h
    | panic => rw [hr] at h; exact h
    | fuel => trivial
    | unmodelled => trivial

theorem evalExpressionTree_grows (fuel : Nat) (p : Program) (s s' : VM ν) (v : Addr) (hs : VI s)
    (hc : ∀ e, assertSingleExpr p = some e → CExpr e) (h : evalExpressionTree fuel p s = .ok v s') :
    s.heap.size ≤ s'.heap.size := by
  unfold evalExpressionTree at h
  cases ha : assertSingleExpr p with
  | none => rw [ha] at h; cases h
  | some e =>
    rw [ha] at h
    dsimp only at h
    have hv := (allV fuel).evalExpr e s (hc e ha) hs
    rcases hr : evalExpr fuel e s with ⟨r, s1⟩
    rw [hr] at h hv
    cases r with
    | ok v1 => cases h; exact hv.2.1.size
    | err er => cases h
    | panic => cases h
    | fuel => cases h
    | unmodelled => cases h

/-! ## what the tree checks return -/

/-- the assignment a statement is, if it is one -/
def asAssign : Stmt → Option (Expr × Expr)
  | .expr (.assign _ t e) => some (t, e)
  | _ => none

def isEmptyStmt : Stmt → Bool
  | .empty _ => true
  | _ => false

/-- `assertASTIsVarAssignBlock` succeeds exactly when every child is an assignment or an empty statement, and then returns ALL
    the assignments, in order -/
theorem collectAssigns_some_iff (stmts : List Stmt) (pairs : List (Expr × Expr)) :
    collectAssigns stmts = some pairs ↔
      (∀ st ∈ stmts, (asAssign st).isSome = true ∨ isEmptyStmt st = true) ∧ pairs = stmts.filterMap asAssign := by
  induction stmts generalizing pairs with
  | nil =>
    constructor
    · intro h; cases h; exact ⟨(fun _ h => nomatch h), rfl⟩
    · rintro ⟨_, rfl⟩; rfl
  | cons st rest ih =>
    have hother : ∀ (hn : asAssign st = none) (he : isEmptyStmt st = false), collectAssigns (st :: rest) = none := by
      intro hn he
      cases st with
      | expr e => cases e <;> first | rfl | (simp [asAssign] at hn)
      | empty l => simp [isEmptyStmt] at he
      | _ => rfl
    cases hst : asAssign st with
    | some te =>
      obtain ⟨t, e⟩ := te
      have hform : ∃ l, st = .expr (.assign l t e) := by
        cases st with
        | expr ex =>
          cases ex with
          | assign l t' e' => simp [asAssign] at hst; exact ⟨l, by rw [hst.1, hst.2]⟩
          | _ => simp [asAssign] at hst
        | _ => simp [asAssign] at hst
      obtain ⟨l, rfl⟩ := hform
      rw [List.filterMap_cons, hst]
      show (match collectAssigns rest with | some ps => some ((t, e) :: ps) | none => none) = some pairs ↔ _
      constructor
      · intro h
        cases hr : collectAssigns rest with
        | none => rw [hr] at h; cases h
        | some ps =>
          rw [hr] at h
          cases h
          obtain ⟨h1, h2⟩ := (ih ps).mp hr
          refine ⟨fun st hm => ?_, by rw [h2]⟩
          rcases List.mem_cons.mp hm with rfl | hm
          · exact .inl rfl
          · exact h1 st hm
      · rintro ⟨h1, rfl⟩
        have := (ih (rest.filterMap asAssign)).mpr ⟨fun st hm => h1 st (List.mem_cons_of_mem _ hm), rfl⟩
        rw [this]
    | none =>
      rw [List.filterMap_cons, hst]
      cases he : isEmptyStmt st with
      | true =>
        have hform : ∃ l, st = .empty l := by
          cases st with
          | empty l => exact ⟨l, rfl⟩
          | _ => simp [isEmptyStmt] at he
        obtain ⟨l, rfl⟩ := hform
        show collectAssigns rest = some pairs ↔ _
        rw [ih pairs]
        constructor
        · rintro ⟨h1, h2⟩
          refine ⟨fun st hm => ?_, h2⟩
          rcases List.mem_cons.mp hm with rfl | hm
          · exact .inr rfl
          · exact h1 st hm
        · rintro ⟨h1, h2⟩
          exact ⟨fun st hm => h1 st (List.mem_cons_of_mem _ hm), h2⟩
      | false =>
        rw [hother hst he]
        constructor
        · intro h; cases h
        · rintro ⟨h1, _⟩
          rcases h1 st List.mem_cons_self with h | h
          · rw [hst] at h; cases h
          · rw [he] at h; cases h

theorem asAssign_complete {st : Stmt} {t e : Expr} (hc : CStmt st) (h : asAssign st = some (t, e)) : CExpr t ∧ CExpr e := by
  cases st with
  | expr ex =>
    cases ex with
    | assign l t' e' =>
      simp [asAssign] at h
      obtain ⟨rfl, rfl⟩ := h
      cases hc with
      | expr _ hce =>
        cases hce with
        | assign _ _ _ _ ht he => exact ⟨ht, he⟩
    | _ => simp [asAssign] at h
  | _ => simp [asAssign] at h

/-- the right-hand sides (and targets) of a complete tree's assignment block are complete expressions -/
theorem assert_complete {p : Program} (hc : Complete p) {pairs : List (Expr × Expr)} (h : assertVarAssignBlock p = some pairs) :
    ∀ q ∈ pairs, CExpr q.1 ∧ CExpr q.2 := by
  unfold assertVarAssignBlock at h
  cases hx : p.exec with
  | none => rw [hx] at h; cases h
  | some x =>
    rw [hx] at h
    have hce := hc.2 x hx
    cases hce with
    | mk ins body cs hb _ _ =>
      dsimp only at h
      obtain ⟨_, rfl⟩ := (collectAssigns_some_iff body pairs).mp h
      intro q hq
      obtain ⟨st, hst, hq⟩ := List.mem_filterMap.mp hq
      exact asAssign_complete (hb st hst) hq

theorem single_complete {p : Program} (hc : Complete p) {e : Expr} (h : assertSingleExpr p = some e) : CExpr e := by
  unfold assertSingleExpr at h
  split at h
  · cases h
  · cases h
  · cases h
  · next ins e' cs hne hx =>
    cases h
    have hce := hc.2 _ hx
    cases hce with
    | mk _ _ _ hb _ _ =>
      have := hb (.expr e) List.mem_cons_self
      cases this with
      | expr _ h => exact h
  · cases h

/-! ## the run relation and the map it builds -/

/-- the right-hand sides run one after the other, each in the state the previous one left; `rs` = (target literal, value) in
    order.  Every target is a plain name. -/
inductive Runs (fuel : Nat) : List (Expr × Expr) → VM ν → List (String × Addr) → VM ν → Prop
  | nil (s : VM ν) : Runs fuel [] s [] s
  | cons {i : Ident} {e : Expr} {rest : List (Expr × Expr)} {s s1 s' : VM ν} {v : Addr} {rs : List (String × Addr)} :
      evalExpr fuel e s = (.ok v, s1) → Runs fuel rest s1 rs s' → Runs fuel ((.id i, e) :: rest) s ((i.lit, v) :: rs) s'

/-- `varInputMap[k] = v` for each (k, v) in turn -/
def buildMap (acc : List (String × Addr)) (rs : List (String × Addr)) : List (String × Addr) :=
  rs.foldl (fun a r => assocSet r.1 r.2 a) acc

theorem evalAssigns_ok_iff (fuel : Nat) : ∀ (pairs : List (Expr × Expr)) (acc : List (String × Addr)) (s s' : VM ν)
    (binds : List (String × Addr)),
    evalAssigns fuel pairs acc s = .ok binds s' ↔ ∃ rs, Runs fuel pairs s rs s' ∧ binds = buildMap acc rs
  | [], acc, s, s', binds => by
    unfold evalAssigns
    constructor
    · intro h; cases h; exact ⟨[], .nil s, rfl⟩
    · rintro ⟨rs, hr, rfl⟩; cases hr; rfl
  | (t, e) :: rest, acc, s, s', binds => by
    unfold evalAssigns
    cases t with
    | id i =>
      dsimp only
      rcases hr : evalExpr fuel e s with ⟨r, s1⟩
      cases r with
      | ok v =>
        dsimp only
        rw [evalAssigns_ok_iff fuel rest (assocSet i.lit v acc) s1 s' binds]
        constructor
        · rintro ⟨rs, hrs, rfl⟩
          exact ⟨(i.lit, v) :: rs, .cons hr hrs, rfl⟩
        · rintro ⟨rs, hrs, rfl⟩
          cases hrs with
          | cons h1 h2 =>
            rw [hr] at h1
            cases h1
            exact ⟨_, h2, rfl⟩
      | _ =>
        dsimp only
        constructor
        · intro h; cases h
        · rintro ⟨rs, hrs, _⟩
          cases hrs with
          | cons h1 h2 => rw [hr] at h1; cases h1
    | _ =>
      dsimp only
      constructor
      · intro h; cases h
      · rintro ⟨rs, hrs, _⟩; cases hrs

/-- the value of the LAST (name, value) for `name`: later assignments overwrite earlier ones -/
def lastValue (name : String) : List (String × Addr) → Option Addr
  | [] => none
  | (k, v) :: rest =>
    match lastValue name rest with
    | some w => some w
    | none => if name = k then some v else none

theorem lookup_assocSet (name k : String) (v : Addr) : ∀ l : List (String × Addr),
    lookup name (assocSet k v l) = if name = k then some v else lookup name l
  | [] => by
    unfold assocSet lookup
    split <;> simp [lookup]
  | (k', v') :: rest => by
    unfold assocSet
    split
    · next hkk =>
      subst hkk
      unfold lookup
      split
      · rfl
      · rfl
    · next hkk =>
      unfold lookup
      split
      · next h1 =>
        subst h1
        rw [if_neg (fun h => hkk h.symm)]
      · rw [lookup_assocSet name k v rest]

theorem lookup_buildMap (name : String) : ∀ (rs acc : List (String × Addr)),
    lookup name (buildMap acc rs) = match lastValue name rs with | some w => some w | none => lookup name acc
  | [], acc => rfl
  | (k, v) :: rest, acc => by
    have h1 : buildMap acc ((k, v) :: rest) = buildMap (assocSet k v acc) rest := rfl
    have h2 : lastValue name ((k, v) :: rest) =
        match lastValue name rest with | some w => some w | none => if name = k then some v else none := rfl
    rw [h1, h2, lookup_buildMap name rest (assocSet k v acc)]
    cases lastValue name rest with
    | some w => rfl
    | none =>
      dsimp only
      rw [lookup_assocSet]
      by_cases hk : name = k
      · simp [hk]
      · simp [hk]

theorem lastValue_isSome (name : String) : ∀ rs : List (String × Addr),
    (lastValue name rs).isSome = true ↔ name ∈ rs.map Prod.fst
  | [] => by simp [lastValue]
  | (k, v) :: rest => by
    unfold lastValue
    have ih := lastValue_isSome name rest
    cases h : lastValue name rest with
    | some w =>
      rw [h] at ih
      simp only [Option.isSome_some, List.map_cons, List.mem_cons, true_iff]
      exact .inr (ih.mp rfl)
    | none =>
      rw [h] at ih
      dsimp only
      by_cases hk : name = k
      · simp [hk]
      · simp only [hk, if_false, List.map_cons, List.mem_cons, false_or]
        exact ih

/-- the targets of a run are plain names, one result per assignment, in order -/
theorem runs_targets {fuel : Nat} {pairs : List (Expr × Expr)} {s s' : VM ν} {rs : List (String × Addr)}
    (h : Runs fuel pairs s rs s') :
    rs.length = pairs.length ∧ ∀ k, ∀ (hk : k < pairs.length), ∃ i, (pairs[k]'hk).1 = .id i ∧ (rs[k]?).map Prod.fst = some i.lit := by
  induction h with
  | nil s => exact ⟨rfl, fun k hk => absurd hk (Nat.not_lt_zero _)⟩
  | @cons i e rest s s1 s' v rs h1 h2 ih =>
    refine ⟨by simp [ih.1], fun k hk => ?_⟩
    cases k with
    | zero => exact ⟨i, rfl, rfl⟩
    | succ k =>
      have hk' : k < rest.length := by simpa using hk
      obtain ⟨j, hj1, hj2⟩ := ih.2 k hk'
      exact ⟨j, by simpa using hj1, by simpa using hj2⟩

end ZnVerif.Proofs.VarInput
