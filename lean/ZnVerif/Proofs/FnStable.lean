/-
Which heap cells the evaluator can overwrite.  `KS s s'` (kinds stable): every cell that exists in `s` exists in `s'`
with the same kind, and cells of the kinds that are never written — method, truth value, 空, exception value —
are literally the same (a text cell is rewritten in place by 转换数值: `strExecAtoi` assigns to `s.value`).  `KS` is `Stable0` (allocation only appends) but not `Stable`; the four places of the model
that call `setCell` (`setProperty`, `builtinMethod`, `reduceLHS`, `evalCtorDecl`) are proved one by one: each writes
a cell of the kind it has just read at that address (`PKa`: a judgment that carries "the cell at `a` has kind `k`"
through the steps in between).  `allPres` then gives `KS` for the whole evaluator.
-/
import ZnVerif.Proofs.BalanceMutual
import ZnVerif.Proofs.Handlers
import ZnVerif.Proofs.LoaderPres
set_option linter.unusedSectionVars false
set_option linter.unusedSimpArgs false
set_option linter.unusedVariables false

namespace ZnVerif.Proofs.Balance
open ZnVerif.Model ZnVerif.Proofs.Calls

variable {ν : Type} [NumOps ν]

inductive Kind where
  | num | str | bool | null | arr | hm | obj | fn | cls | exc
  deriving DecidableEq, Repr

def kindOf : Cell ν → Kind
  | .num _ => .num
  | .str _ => .str
  | .bool _ => .bool
  | .null => .null
  | .arr _ => .arr
  | .hm _ _ => .hm
  | .obj _ _ => .obj
  | .fn _ => .fn
  | .cls _ _ _ _ => .cls
  | .exc _ => .exc

/-- kinds whose cells no operation overwrites -/
def Kind.frozen : Kind → Bool
  | .bool | .null | .fn | .exc => true
  | _ => false

def CellKeep (c c' : Cell ν) : Prop := kindOf c' = kindOf c ∧ ((kindOf c).frozen = true → c' = c)

/-- every existing cell keeps its kind; cells of frozen kinds keep their content -/
def KS (s s' : VM ν) : Prop :=
  ∀ (i : Nat) (c : Cell ν), s.heap[i]? = some c → ∃ c' : Cell ν, s'.heap[i]? = some c' ∧ CellKeep c c'

theorem KS.of_heap_eq {s s' : VM ν} (h : s'.heap = s.heap) : KS s s' := by
  intro i c hc
  exact ⟨c, by rw [h]; exact hc, rfl, fun _ => rfl⟩

instance : PreRel (KS (ν := ν)) where
  refl s := KS.of_heap_eq rfl
  trans := by
    intro a b c h1 h2 i x hx
    obtain ⟨y, hy, k1, f1⟩ := h1 i x hx
    obtain ⟨z, hz, k2, f2⟩ := h2 i y hy
    refine ⟨z, hz, k2.trans k1, fun hf => ?_⟩
    have := f1 hf
    subst this
    exact f2 hf

instance : Stable0 (KS (ν := ν)) where
  alloc s c := by
    intro i x hx
    refine ⟨x, ?_, rfl, fun _ => rfl⟩
    show (s.heap.push c)[i]? = some x
    rw [Array.getElem?_push]
    split
    · rename_i h; subst h; simp at hx
    · exact hx
  stack s st cs := KS.of_heap_eq rfl
  exports s i md e _ := KS.of_heap_eq rfl

theorem setElement_heap (name : String) (v : Addr) (s : VM ν) : (setElement name v s).2.heap = s.heap := by
  unfold setElement
  have hcs : currentScope s = (.ok (getScope s.csModuleID s), s) := rfl
  rw [bind_ok hcs]
  cases getScope s.csModuleID s with
  | none => rfl
  | some sc =>
    simp only
    cases sc.set name v with
    | error e => rfl
    | ok sc' => exact putScope_heap _ _ _

theorem declareElement_heap (name : String) (v : Addr) (c : Bool) (ext : Option Int) (s : VM ν) :
    (declareElement name v c ext s).2.heap = s.heap := by
  rcases declareElement_cases name v c ext s with ⟨e, he⟩ | ⟨sc, sc', _, _, h3⟩
  · rw [he]
  · rw [h3]; exact putScope_heap _ _ _

theorem ks_withScope {α : Type} (body : M ν α) (hb : Pres KS body) : Pres KS (withScope body) :=
  ⟨fun s => by
    rw [withScope_run]
    simp only
    have h1 : KS s (enterScope s) := KS.of_heap_eq (enterScope_frame s).2.2.1
    have h2 := hb.run (enterScope s)
    have h3 : KS (body (enterScope s)).2 (exitScope s (body (enterScope s)).2) :=
      KS.of_heap_eq (exitScope_frame s _).2.2.1
    exact PreRel.trans h1 (PreRel.trans h2 h3)⟩

/-! ## knowing the kind of one cell -/

def kindAt (a : Addr) (k : Kind) (s : VM ν) : Prop := ∃ c : Cell ν, s.heap[a]? = some c ∧ kindOf c = k

theorem kindAt.of_KS {a : Addr} {k : Kind} {s s' : VM ν} (h : KS s s') (hk : kindAt a k s) : kindAt a k s' := by
  obtain ⟨c, hc, rfl⟩ := hk
  obtain ⟨c', hc', hkind, _⟩ := h a c hc
  exact ⟨c', hc', hkind⟩

/-- `m` keeps `KS` from every state in which the cell at `a` has kind `k` -/
structure PKa (a : Addr) (k : Kind) {α} (m : M ν α) : Prop where
  run : ∀ s, kindAt a k s → KS s (m s).2

section pka
variable {α β : Type} {a : Addr} {k : Kind}

theorem PKa.of_pres {m : M ν α} (h : Pres KS m) : PKa a k m := ⟨fun s _ => h.run s⟩

theorem PKa.bind {m : M ν α} {f : α → M ν β} (hm : PKa a k m) (hf : ∀ x, PKa a k (f x)) : PKa a k (m >>= f) := by
  constructor
  intro s hk
  rw [M_bind_def]
  have h1 := hm.run s hk
  rcases h : m s with ⟨r, s'⟩
  rw [h] at h1
  cases r <;> simp only <;> try exact h1
  exact PreRel.trans h1 ((hf _).run s' (hk.of_KS h1))

/-- overwriting the cell at `a` with a cell of the kind it has, for a kind that may be written -/
theorem PKa.setCell {c : Cell ν} (hk : kindOf c = k) (hf : k.frozen = false) : PKa a k (setCell a c) := by
  constructor
  intro s ⟨c0, hc0, hk0⟩
  unfold Model.setCell
  split
  · intro i x hx
    by_cases hi : a = i
    · subst hi
      rw [hc0] at hx; cases hx
      refine ⟨c, ?_, by rw [hk, hk0], fun hfr => ?_⟩
      · show (s.heap.set! a c)[a]? = some c
        rw [Array.set!_eq_setIfInBounds, Array.getElem?_setIfInBounds_self]
        simp [*]
      · rw [hk0, hf] at hfr; cases hfr
    · refine ⟨x, ?_, rfl, fun _ => rfl⟩
      show (s.heap.set! a c)[i]? = some x
      rw [Array.set!_eq_setIfInBounds, Array.getElem?_setIfInBounds_ne hi]; exact hx
  · exact PreRel.refl s

/-- reading the cell at `a` tells its kind to what follows -/
theorem Pres.getCell_bind {f : Cell ν → M ν β} (h : ∀ c, PKa a (kindOf c) (f c)) :
    Pres KS (Model.getCell a >>= f) := by
  constructor
  intro s
  rw [M_bind_def]
  unfold Model.getCell
  cases hc : s.heap[a]? with
  | none => exact PreRel.refl s
  | some c => exact (h c).run s ⟨c, hc, rfl⟩

theorem PKa.getCell_bind {b : Addr} {f : Cell ν → M ν β} (h : ∀ c, PKa a k (f c)) :
    PKa a k (Model.getCell b >>= f) :=
  PKa.bind (PKa.of_pres (Pres.getCell b)) h

end pka

/-- decompose a goal about a function that may overwrite the cell it has read -/
macro "ks_tac" : tactic => `(tactic| repeat' (first
  | assumption
  | with_reducible apply Pres.getCell_bind
  | (apply PKa.setCell <;> rfl)
  | with_reducible apply PKa.bind
  | ((with_reducible apply PKa.of_pres); pres_prim)
  | pres_prim | intro _ | split | dsimp only))

/-! ## the four `setCell` sites -/

theorem ks_setProperty (a : Addr) (name : String) (v : Addr) : Pres KS (setProperty (ν := ν) a name v) := by
  unfold Model.setProperty
  ks_tac

theorem ks_reduceLHS (iv : Nat × Addr × String × Int) (v : Addr) : Pres KS (reduceLHS (ν := ν) iv v) := by
  obtain ⟨k, r, nm, i⟩ := iv
  simp only [Model.reduceLHS]
  have hsp := ks_setProperty (ν := ν) r nm v
  ks_tac

theorem ks_evalCtorDecl : ∀ (n : Nat) (st : Stmt), Pres KS (evalCtorDecl (ν := ν) n st)
  | 0, st => Pres.outOfFuel
  | n+1, st => by cases st <;> rw [Model.evalCtorDecl] <;> ks_tac <;> contradiction

theorem ks_builtinMethod (n : Nat) (a : Addr) (name : String) (vals : List Addr) :
    Pres KS (builtinMethod (ν := ν) n a name vals) := by
  unfold Model.builtinMethod
  ks_tac

instance : ScopePrims0 (KS (ν := ν)) where
  emit l := ⟨fun s => KS.of_heap_eq rfl⟩
  pushFrame fr := ⟨fun s => KS.of_heap_eq (pushFrame_run fr s).2.2.2.1⟩
  declareElement name v c ext := ⟨fun s => KS.of_heap_eq (declareElement_heap name v c ext s)⟩
  setElement name v := ⟨fun s => KS.of_heap_eq (setElement_heap name v s)⟩
  withScope := ks_withScope
  setProperty := ks_setProperty
  builtinMethod := ks_builtinMethod
  reduceLHS := ks_reduceLHS
  evalCtorDecl := ks_evalCtorDecl

theorem beginBoundScope_heap (s : VM ν) : (beginBoundScope s).2.heap = s.heap := by
  unfold Model.beginBoundScope
  split
  · rfl
  · exact putScope_heap _ _ _

instance : LoaderPrims (KS (ν := ν)) where
  graph s g := KS.of_heap_eq rfl
  pushModule s m _ := KS.of_heap_eq rfl
  beginBoundScope := ⟨fun s => KS.of_heap_eq (beginBoundScope_heap s)⟩

/-- a whole execution over a file table and registered libraries (modules included) -/
theorem ks_runProgramWith (files : FileTable) (libs : LibTable) (fuel : Nat) (p : Program) (inputs : List (String × Cell ν)) :
    Pres KS (runProgramWith (ν := ν) files libs fuel p inputs) :=
  Pres.runProgramWith files libs fuel p inputs fun s => KS.of_heap_eq rfl

/-- a whole execution -/
theorem ks_runProgram (fuel : Nat) (p : Program) (inputs : List (String × Cell ν)) :
    Pres KS (runProgram (ν := ν) fuel p inputs) :=
  ks_runProgramWith [] [] fuel p inputs

end ZnVerif.Proofs.Balance
