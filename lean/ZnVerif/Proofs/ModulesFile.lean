/-
Helper lemmas for C15: module names and FILES.

* a path the repaired finder builds consists of plain components (`PlainComp`), `filepath.Join`'s cleaning leaves it
  unchanged (`cleanPath_valid`: so the literal lookup of `resolveParts .repaired` mirrors the Go code), and different
  names have different paths (`resolveName_repaired_inj`);
* `fileOfModule` / `fileBodyStarts`: which file a module of a run executes, and how often the body of a FILE started;
* `file_body_once`: on the repaired tree the body of every file starts at most once per run — also the main file's,
  which a module may name (`导入“主”` in 主.zn): that import never completes, because the module it creates imports
  what the main module imports (`main_file_once`).
-/
import ZnVerif.Proofs.ModulesFuel

namespace ZnVerif.Proofs.Modules
open ZnVerif.Model.Modules
open ZnVerif.Spec.ModuleSem
open ZnVerif.Proofs.ModulesDfs

/-! ### plain path components -/

/-- a component of a path that stays where it is written: a plain directory or file name -/
def PlainComp (c : Name) : Prop := c ≠ [] ∧ c ≠ dot ∧ c ≠ dotdot ∧ chSlash ∉ c ∧ chBackslash ∉ c

theorem validPart_iff (s : Name) : validPart s = true ↔ PlainComp s := by
  unfold validPart PlainComp
  simp only [Bool.not_eq_true', Bool.or_eq_false_iff, beq_eq_false_iff_ne, ne_eq, List.contains_eq_mem,
    decide_eq_false_iff_not, and_assoc]

theorem plainComp_zn {x : Name} (h1 : chSlash ∉ x) (h2 : chBackslash ∉ x) : PlainComp (x ++ znSuffix) := by
  have hl : 3 ≤ (x ++ znSuffix).length := by simp [znSuffix]
  refine ⟨?_, ?_, ?_, ?_, ?_⟩
  · intro h; rw [h] at hl; simp at hl
  · intro h; rw [h] at hl; simp [dot] at hl
  · intro h; rw [h] at hl; simp [dotdot] at hl
  · intro h
    rcases List.mem_append.1 h with h | h
    · exact h1 h
    · simp [znSuffix, chSlash] at h
  · intro h
    rcases List.mem_append.1 h with h | h
    · exact h2 h
    · simp [znSuffix, chBackslash] at h

theorem withExt_plain : ∀ parts : List Name, (∀ s, s ∈ parts → PlainComp s) → ∀ c, c ∈ withExt parts → PlainComp c
  | [], _, c, hc => by simp [withExt] at hc
  | [x], h, c, hc => by
    simp only [withExt, List.mem_singleton] at hc
    subst hc
    have hx := h x (List.mem_cons_self ..)
    exact plainComp_zn hx.2.2.2.1 hx.2.2.2.2
  | x :: y :: r, h, c, hc => by
    simp only [withExt, List.mem_cons] at hc
    rcases hc with rfl | hc
    · exact h _ (List.mem_cons_self ..)
    · exact withExt_plain (y :: r) (fun s hs => h s (List.mem_cons_of_mem _ hs)) c (by simpa [withExt] using hc)

theorem validParts_plain {parts : List Name} (hv : validParts parts = true) : ∀ s, s ∈ parts → PlainComp s := by
  intro s hs
  unfold validParts at hv
  exact (validPart_iff s).1 (List.all_eq_true.1 hv s hs)

/-! ### `filepath.Join` does nothing to a path of plain components -/

theorem flatMap_split_plain : ∀ p : Path, (∀ c, c ∈ p → PlainComp c) → p.flatMap (splitOn chSlash) = p
  | [], _ => rfl
  | c :: r, h => by
    have hc := h c (List.mem_cons_self ..)
    simp only [List.flatMap_cons, splitOn_noSep c hc.2.2.2.1]
    rw [flatMap_split_plain r (fun d hd => h d (List.mem_cons_of_mem _ hd))]
    rfl

theorem cleanStep_plain {c : Name} (hc : PlainComp c) (stack : List Name) : cleanStep stack c = c :: stack := by
  unfold cleanStep
  rw [if_neg (by intro h; rcases h with h | h; exact hc.1 h; exact hc.2.1 h), if_neg hc.2.2.1]

theorem foldl_cleanStep_plain : ∀ (p : Path) (stack : List Name), (∀ c, c ∈ p → PlainComp c) →
    p.foldl cleanStep stack = p.reverse ++ stack
  | [], _, _ => rfl
  | c :: r, stack, h => by
    simp only [List.foldl_cons, cleanStep_plain (h c (List.mem_cons_self ..))]
    rw [foldl_cleanStep_plain r _ (fun d hd => h d (List.mem_cons_of_mem _ hd))]
    simp

theorem cleanPath_plain (p : Path) (h : ∀ c, c ∈ p → PlainComp c) : cleanPath p = p := by
  unfold cleanPath
  rw [flatMap_split_plain p h, foldl_cleanStep_plain p [] h]
  simp

/-- on a name the repaired `LoadFile` accepts, the cleaning of `filepath.Join` is the identity: the path it stats is the
    path as written -/
theorem cleanPath_valid (parts : List Name) (hv : validParts parts = true) : cleanPath (withExt parts) = withExt parts :=
  cleanPath_plain _ (withExt_plain parts (validParts_plain hv))

/-! ### names ↔ paths on the repaired tree -/

theorem resolveName_repaired_some {n : Name} {p : Path} (h : resolveName .repaired n = some p) :
    (parseLibName n).libType = .custom ∧ plainName n = true ∧ p = withExt (segments n) := by
  rcases libType_cases n with hty | hty
  · rw [resolveName_std hty] at h; cases h
  · rw [resolveName_custom hty] at h
    cases hp : plainName n with
    | false => rw [hp] at h; simp at h
    | true => rw [hp] at h; simp at h; exact ⟨hty, rfl, h.symm⟩

/-- two names that the repaired finder maps to one path are the same name -/
theorem resolveName_repaired_inj {a b : Name} {p : Path} (ha : resolveName .repaired a = some p)
    (hb : resolveName .repaired b = some p) : a = b := by
  obtain ⟨_, _, e1⟩ := resolveName_repaired_some ha
  obtain ⟨_, _, e2⟩ := resolveName_repaired_some hb
  exact path_inj (e1.symm.trans e2)

/-- every component of a path the repaired finder builds is a plain name; the path is not empty -/
theorem resolveName_repaired_plain {n : Name} {p : Path} (h : resolveName .repaired n = some p) :
    p ≠ [] ∧ ∀ c, c ∈ p → PlainComp c := by
  obtain ⟨_, hp, rfl⟩ := resolveName_repaired_some h
  rw [← validParts_eq_plainName] at hp
  rw [segments_eq_splitOn]
  refine ⟨?_, withExt_plain _ (validParts_plain hp)⟩
  intro he
  have := congrArg List.length he
  rw [withExt_length] at this
  exact splitOn_ne_nil chDash n (List.eq_nil_of_length_eq_zero this)

/-! ### which file a module of a run executes -/

/-- the file whose statements the module `m` of the run executes: the main file for the main module (registered under the
    reserved name 主模块), else the file its name resolves to (`none`: a library module, or an index that is no module) -/
def fileOfModule (v : Variant) (mainPath : Path) (vm : VM) (m : Nat) : Option Path :=
  match (namesOf vm)[m]? with
  | none => none
  | some nm => if nm = mainName then some mainPath else resolveName v nm

/-- how many times the body of the FILE `p` was started in the run that ended in `vm` -/
def fileBodyStarts (v : Variant) (mainPath : Path) (vm : VM) (p : Path) : Nat :=
  (bodiesOf vm.log).countP (fun m => decide (fileOfModule v mainPath vm m = some p))

theorem countP_le_one_of_nodup {α} {P : α → Bool} : ∀ {l : List α}, l.Nodup →
    (∀ a, a ∈ l → ∀ b, b ∈ l → P a = true → P b = true → a = b) → l.countP P ≤ 1
  | [], _, _ => by simp
  | x :: l, hnd, huniq => by
    have hnd' := List.nodup_cons.1 hnd
    have ih := countP_le_one_of_nodup hnd'.2 (fun a ha b hb => huniq a (List.mem_cons_of_mem _ ha) b (List.mem_cons_of_mem _ hb))
    rw [List.countP_cons]
    cases hx : P x with
    | false => simpa using ih
    | true =>
      have hz : l.countP P = 0 := by
        rw [List.countP_eq_zero]
        intro a ha hPa
        have := huniq x (List.mem_cons_self ..) a (List.mem_cons_of_mem _ ha) hx hPa
        exact hnd'.1 (this ▸ ha)
      simp [hz]

/-! ### the shape of a run: the main module's imports, then its body -/

theorem bodiesOf_of_same {vm vm' : VM} (h : Same vm vm') : bodiesOf vm'.log = bodiesOf vm.log := by rw [h.log]

theorem runWith_imports_err {v : Variant} {O : Oracle} {files : Files} {libs : Libs} {lf cf : Nat} {src : ModuleSrc}
    {e : Err} {vm' : VM}
    (h : evalImports O libs (loadModule v O files libs cf lf) vmStart src.imports = .err e vm') :
    runWith v O files libs lf cf src = .err e vm' := by
  unfold runWith
  dsimp only
  change (match evalProgram O libs cf (loadModule v O files libs cf lf) vmStart 0 src with
    | .err e vm' => Res.err e vm'
    | .ok vm2 => match vm2.popFrame with
      | none => Res.err Err.panic vm2
      | some vm3 => Res.ok vm3) = _
  unfold evalProgram
  rw [h]

/-- when the imports of the main module succeed, the run ends (well or not) in a state that has the modules of that
    moment and one more body start: the main module's -/
theorem runWith_imports_ok {v : Variant} {O : Oracle} {files : Files} {libs : Libs} {lf cf : Nat} {src : ModuleSrc}
    {vm1 : VM} (h : evalImports O libs (loadModule v O files libs cf lf) vmStart src.imports = .ok vm1) :
    namesOf (finish (runWith v O files libs lf cf src)).vm = namesOf vm1 ∧
    bodiesOf (finish (runWith v O files libs lf cf src)).vm.log = 0 :: bodiesOf vm1.log := by
  unfold runWith
  dsimp only
  change (fun r : Res VM => namesOf (finish r).vm = namesOf vm1 ∧ bodiesOf (finish r).vm.log = 0 :: bodiesOf vm1.log)
    (match evalProgram O libs cf (loadModule v O files libs cf lf) vmStart 0 src with
    | .err e vm' => Res.err e vm'
    | .ok vm2 => match vm2.popFrame with
      | none => Res.err Err.panic vm2
      | some vm3 => Res.ok vm3)
  unfold evalProgram
  rw [h]
  dsimp only
  have hf := evalBody_frame cf (vm1.record (.body 0)) src.body
  cases hr : evalBody cf (vm1.record (.body 0)) src.body with
  | err e vm' =>
    rw [hr] at hf
    dsimp only [finish]
    exact ⟨hf.1.names, by rw [hf.1.log]; rfl⟩
  | ok vm2 =>
    rw [hr] at hf
    have hs := hf.1
    dsimp only
    cases hpop : (vm2.record (.done 0)).popFrame with
    | none =>
      dsimp only [finish]
      exact ⟨hs.names, by show bodiesOf (Ev.done 0 :: vm2.log) = _; rw [hs.log]; rfl⟩
    | some vm3 =>
      dsimp only [finish]
      have hs3 := same_popFrame hpop
      refine ⟨by rw [hs3.names]; exact hs.names, ?_⟩
      rw [hs3.log]
      show bodiesOf (Ev.done 0 :: vm2.log) = _
      rw [hs.log]; rfl

theorem evalImports_append_err {O : Oracle} {libs : Libs} {load : VM → LibNameInfo → Res (VM × Nat)} {e : Err} {vm' : VM} :
    ∀ (l : List Imp) (vm : VM) (extra : List Imp), evalImports O libs load vm l = .err e vm' →
      evalImports O libs load vm (l ++ extra) = .err e vm'
  | [], vm, _, h => by simp [evalImports] at h
  | i :: r, vm, extra, h => by
    simp only [List.cons_append]
    unfold evalImports at h ⊢
    cases hr : evalImport O libs load vm i with
    | err e1 vm1 => rw [hr] at h; exact h
    | ok vm1 =>
      rw [hr] at h
      dsimp only at h ⊢
      exact evalImports_append_err r vm1 extra h

/-! ### a name that no registry knows -/

theorem length_le_sum_of_mem {α} (f : α → Nat) : ∀ {l : List α} {x : α}, x ∈ l → f x ≤ (l.map f).sum
  | a :: l, x, h => by
    rcases List.mem_cons.1 h with rfl | h
    · simp
    · have := length_le_sum_of_mem f h
      simp only [List.map_cons, List.sum_cons]; omega

/-- `AA…A`, longer than every name of the registry -/
def freshName (nm : List (Name × Nat)) : Name := List.replicate ((nm.map (fun p => p.1.length)).sum + 1) 0x41

theorem freshName_custom (nm : List (Name × Nat)) : (parseLibName (freshName nm)).libType = .custom := by
  unfold freshName
  rw [List.replicate_succ]
  simp [parseLibName, chAt]

theorem freshName_fresh (nm : List (Name × Nat)) : assoc (freshName nm) nm = none := by
  cases h : assoc (freshName nm) nm with
  | none => rfl
  | some id =>
    have hm := assoc_mem h
    have := length_le_sum_of_mem (fun p : Name × Nat => p.1.length) hm
    simp [freshName] at this
    omega

/-! ### the main file is not run a second time under a name -/

theorem mreach_split {files : Files} {mainSrc : ModuleSrc} {n : Name} (h : MReach files mainSrc n) :
    n = mainName ∨ ∃ c, MImports files mainSrc mainName c ∧ MWalk files mainSrc c n := by
  induction h with
  | main => exact Or.inl rfl
  | @step a b _ hi ih =>
    rcases ih with rfl | ⟨c, hc, hw⟩
    · exact Or.inr ⟨b, hi, MWalk.refl _⟩
    · exact Or.inr ⟨c, hc, hw.snoc hi⟩

theorem sinv_imports_done {files : Files} {mainSrc : ModuleSrc} {vm : VM} (h : SInv files mainSrc vm)
    {x : Nat} {na nb : Name} (hx : (namesOf vm)[x]? = some na) (hd : Ev.done x ∈ vm.log)
    (hi : MImports files mainSrc na nb) :
    ∃ y, (namesOf vm)[y]? = some nb ∧ Ev.done y ∈ vm.log ∧ (x, y) ∈ vm.graph := by
  obtain ⟨src, imp, hsrc, himp, hname, hc⟩ := hi
  have hb := h.doneBody x hd
  obtain ⟨l1, l2, hl⟩ := List.append_of_mem hb
  obtain ⟨id, h1, h2, h3⟩ := h.before l1 x l2 hl na src hx hsrc imp himp (hname ▸ hc)
  refine ⟨id, ?_, ?_, h3⟩
  · rw [← hname]; exact h.regName _ _ h1
  · rw [hl]; exact List.mem_append_right _ (List.mem_cons_of_mem _ h2)

theorem sinv_mwalk_to_walk {files : Files} {mainSrc : ModuleSrc} {vm : VM} (h : SInv files mainSrc vm)
    {na nb : Name} (w : MWalk files mainSrc na nb) : ∀ {x : Nat}, (namesOf vm)[x]? = some na → Ev.done x ∈ vm.log →
      ∃ y, (namesOf vm)[y]? = some nb ∧ Walk vm.graph x y := by
  induction w with
  | refl a => intro x hx _; exact ⟨x, hx, Walk.refl _⟩
  | cons hi _ ih =>
    intro x hx hd
    obtain ⟨y, hy, hdy, he⟩ := sinv_imports_done h hx hd hi
    obtain ⟨z, hz, hw⟩ := ih hy hdy
    exact ⟨z, hz, Walk.cons he hw⟩

/-- while the main module's imports are being processed (and when they have all succeeded), no module whose source is
    the main module's own source has started its body: it would import what the main module imports -/
theorem no_second_main {files : Files} {mainSrc : ModuleSrc} {vm : VM} (hS : SInv files mainSrc vm)
    (hL : LInv files mainSrc vm [0]) {b : Nat} {nb : Name} (hb : Ev.body b ∈ vm.log)
    (hnb : (namesOf vm)[b]? = some nb) (hne : nb ≠ mainName) (hsrc : msrc files mainSrc nb = some mainSrc) : False := by
  have hb0 : b ≠ 0 := by
    intro h; rw [h, hS.main0] at hnb; injection hnb with hnb; exact hne hnb.symm
  have hcustom := (msrc_plain hne hsrc).1
  -- the module is closed
  have hdone : Ev.done b ∈ vm.log := by
    rcases hL.reg nb b (hS.regAll b nb hnb) with h | h
    · simp at h; exact absurd h hb0
    · rcases mem_closedOf.1 h with h | h
      · exact h
      · obtain ⟨n, hn, hstd⟩ := hS.libStd b h
        rw [hnb] at hn; injection hn with hn
        rw [← hn, hcustom] at hstd; cases hstd
  obtain ⟨n', hn', hreach, _⟩ := hS.doneReach b hdone
  rw [hnb] at hn'; injection hn' with hn'; subst hn'
  rcases mreach_split hreach with h | ⟨c, hc, hw⟩
  · exact hne h
  · -- the module imports what the main module imports
    have hc' : MImports files mainSrc nb c := by
      obtain ⟨src, imp, hs, himp, hname, hcu⟩ := hc
      rw [msrc_main] at hs; injection hs with hs; subst hs
      exact ⟨_, imp, hsrc, himp, hname, hcu⟩
    obtain ⟨y, hy, hdy, he⟩ := sinv_imports_done hS hnb hdone hc'
    obtain ⟨z, hz, hwalk⟩ := sinv_mwalk_to_walk hS hw hy hdy
    have hzb : z = b := by
      have e1 := hS.regAll z nb hz
      have e2 := hS.regAll b nb hnb
      rw [e1] at e2; injection e2
    subst hzb
    have hno : ¬ HasCycle vm.graph := by
      apply topo_no_cycle (l := [0] ++ closedOf vm.log)
      · simpa using hL.topo
      · intro p q hpq
        rcases hL.src p q hpq with h' | h'
        · exact List.mem_append_left _ h'
        · exact List.mem_append_right _ h'
    exact hno ⟨z, y, he, hwalk⟩

/-- in a run of the repaired loader the main module's body and the body of a module that names the main FILE never both
    start -/
theorem main_file_once {O : Oracle} (hO : OracleOK O) {files : Files} {libs : Libs} {cf : Nat} {mainPath : Path}
    {mainSrc : ModuleSrc} (hmain : assoc mainPath files = some mainSrc) {b : Nat} {nb : Name}
    (h0 : 0 ∈ bodiesOf (finish (runWith .repaired O files libs (loadFuelFor files) cf mainSrc)).vm.log)
    (hb : b ∈ bodiesOf (finish (runWith .repaired O files libs (loadFuelFor files) cf mainSrc)).vm.log)
    (hnb : (namesOf (finish (runWith .repaired O files libs (loadFuelFor files) cf mainSrc)).vm)[b]? = some nb)
    (hne : nb ≠ mainName) (hres : resolveName .repaired nb = some mainPath) : False := by
  obtain ⟨hS, hL, hC⟩ := start_invariants files mainSrc
  have hload := loadModule_spec (files := files) (mainSrc := mainSrc) (libs := libs) (cf := cf) hO (loadFuelFor files)
  have hi := evalImports_spec (libs := libs) hO hload mainSrc.imports vmStart hS hL hC (fun _ h => h)
  cases himp : evalImports O libs (loadModule .repaired O files libs cf (loadFuelFor files)) vmStart mainSrc.imports with
  | err e vm' =>
    -- the run ended while the imports were processed: the main body never started (the same run with one more
    -- import statement, of a name no registry knows, ends in the same state; there the invariant `before` says the
    -- main body starts only after that name has been registered)
    have hrun := runWith_imports_err (src := mainSrc) himp
    rw [hrun] at h0
    simp only [finish] at h0
    let z : Name := freshName vm'.nameMap
    let src2 : ModuleSrc := ⟨mainSrc.imports ++ [⟨z, []⟩], mainSrc.body⟩
    have himp2 : evalImports O libs (loadModule .repaired O files libs cf (loadFuelFor files)) vmStart src2.imports
        = .err e vm' := evalImports_append_err _ _ _ himp
    have hrun2 := runWith_imports_err (src := src2) himp2
    have hspec := runWith_spec (files := files) (mainSrc := src2) (O := O) (libs := libs) (lf := loadFuelFor files)
      (cf := cf) hO
    rw [hrun2] at hspec
    have hS2 := hspec.1
    obtain ⟨l1, l2, hl⟩ := List.append_of_mem (mem_bodiesOf.1 h0)
    obtain ⟨id, hid, _, _⟩ := hS2.before l1 0 l2 hl mainName src2 hS2.main0 (msrc_main _ _) ⟨z, []⟩
      (List.mem_append_right _ (List.mem_cons_self ..)) (freshName_custom _)
    rw [show assoc z vm'.nameMap = none from freshName_fresh _] at hid
    cases hid
  | ok vm1 =>
    rw [himp] at hi
    obtain ⟨hp, _⟩ := hi
    obtain ⟨hn, hbo⟩ := runWith_imports_ok (src := mainSrc) himp
    rw [hn] at hnb
    rw [hbo] at hb
    have hb0 : b ≠ 0 := by
      intro h; rw [h, hp.sinv.main0] at hnb; injection hnb with hnb; exact hne hnb.symm
    have hb1 : Ev.body b ∈ vm1.log := by
      rcases List.mem_cons.1 hb with h | h
      · exact absurd h hb0
      · exact mem_bodiesOf.1 h
    obtain ⟨hcu, hpl, hpath⟩ := resolveName_repaired_some hres
    have hsrc : msrc files mainSrc nb = some mainSrc := by
      unfold msrc
      rw [if_neg hne, finder_custom files hcu, hpl, ← hpath, hmain]
      rfl
    exact no_second_main hp.sinv hp.linv hb1 hnb hne hsrc

/-- On the repaired tree the body of every file starts at most once per run. -/
theorem file_body_once {O : Oracle} (hO : OracleOK O) (files : Files) (libs : Libs) (cf : Nat) (mainPath : Path)
    (p : Path) : fileBodyStarts .repaired mainPath (run .repaired O files libs cf mainPath).vm p ≤ 1 := by
  unfold fileBodyStarts run
  cases hm : assoc mainPath files with
  | none => simp [VM.init, bodiesOf]
  | some src =>
    dsimp only
    have hspec := runWith_spec (files := files) (mainSrc := src) (O := O) (libs := libs) (lf := loadFuelFor files)
      (cf := cf) hO
    have hS : SInv files src (finish (runWith .repaired O files libs (loadFuelFor files) cf src)).vm := by
      cases hr : runWith .repaired O files libs (loadFuelFor files) cf src with
      | ok vm => rw [hr] at hspec; exact hspec.1
      | err e vm => rw [hr] at hspec; exact hspec.1
    apply countP_le_one_of_nodup hS.bodies
    intro a ha b hb hPa hPb
    simp only [decide_eq_true_eq] at hPa hPb
    unfold fileOfModule at hPa hPb
    cases hna : (namesOf (finish (runWith .repaired O files libs (loadFuelFor files) cf src)).vm)[a]? with
    | none => rw [hna] at hPa; cases hPa
    | some na =>
      cases hnb : (namesOf (finish (runWith .repaired O files libs (loadFuelFor files) cf src)).vm)[b]? with
      | none => rw [hnb] at hPb; cases hPb
      | some nb =>
        rw [hna] at hPa; rw [hnb] at hPb
        dsimp only at hPa hPb
        have hid : na = nb → a = b := by
          intro h
          have e1 := hS.regAll a na hna
          have e2 := hS.regAll b nb hnb
          rw [h, e2] at e1; injection e1 with e1; exact e1.symm
        have h0 : ∀ {x : Nat}, (namesOf (finish (runWith .repaired O files libs (loadFuelFor files) cf src)).vm)[x]?
            = some mainName → x = 0 := by
          intro x hx
          have e1 := hS.regAll x mainName hx
          have e2 := hS.regAll 0 mainName hS.main0
          rw [e2] at e1; injection e1 with e1; exact e1.symm
        by_cases ha0 : na = mainName
        · by_cases hb0 : nb = mainName
          · exact hid (ha0.trans hb0.symm)
          · rw [if_pos ha0] at hPa; rw [if_neg hb0] at hPb
            injection hPa with hPa
            subst ha0
            have := h0 hna; subst this
            exact (main_file_once hO hm ha hb hnb hb0 (hPa ▸ hPb)).elim
        · by_cases hb0 : nb = mainName
          · rw [if_neg ha0] at hPa; rw [if_pos hb0] at hPb
            injection hPb with hPb
            subst hb0
            have := h0 hnb; subst this
            exact (main_file_once hO hm hb ha hna ha0 (hPb ▸ hPa)).elim
          · rw [if_neg ha0] at hPa; rw [if_neg hb0] at hPb
            exact hid (resolveName_repaired_inj hPa hPb)

end ZnVerif.Proofs.Modules
