/-
Token-level round trip with layout, part 2c: expressions — calls `（f：a、b）得到 X`, `（新建 T：a）`, method calls
`以 x（m：a）、（n）得到 X`, and the nodes they are made of (argument lists, `f：a、b）`, the chain `、（m）…`, the optional 得到).
-/
import ZnVerif.Proofs.StmtExprMember

namespace ZnVerif.Proofs.StmtRT
open ZnVerif.Model ZnVerif.Model.Parser ZnVerif.Generated.Tokens ZnVerif.Generated.ParserTables
open ZnVerif.Spec.StmtSyntax

variable {Y : Layout} {v : Variant}

set_option linter.unusedVariables false

-- ---- small tools ---------------------------------------------------------------------------------------------------------

theorem bind_bind {α β γ : Type} (x : PM (List Token) α) (f : α → PM (List Token) β) (g : β → PM (List Token) γ)
    (s : PState (List Token)) : ((x >>= f) >>= g) s = (x >>= fun a => f a >>= g) s := by
  show PM.bind (PM.bind x f) g s = PM.bind x (fun a => PM.bind (f a) g) s
  unfold PM.bind
  cases x s <;> rfl

theorem getLast?_cons_ne (l : Token) {tp : List Token} (h : tp ≠ []) : (l :: tp).getLast? = tp.getLast? := by
  cases tp with
  | nil => exact absurd rfl h
  | cons a r => rw [List.getLast?_cons_cons]

theorem getLast?_append_last {tp tp' : List Token} (h : tp.getLast? = tp'.getLast?) (b : List Token) :
    (tp ++ b).getLast? = (tp' ++ b).getLast? := by
  rw [List.getLast?_append, List.getLast?_append, h]

/-- a probe after the tokens `tp`, when an optional comma and then something that stops it follow: the comma is swallowed, the
probe misses -/
theorem probe_miss (m : Nat) (tys : List Nat) (tp cm rest : List Token) (hcm : CommaOpt cm) (ho : Y.InOrder (cm ++ rest))
    (hg : Y.Glued (tp ++ cm)) (hs : Stop Y tys (tp ++ cm) rest) :
    tryConsume (layoutOps Y) (m + 1) tys (Send Y tp (cm ++ rest)) = .ok none (Send Y (tp ++ cm) rest) := by
  have hmiss : tryConsume (layoutOps Y) (m + 1) tys (Send Y (tp ++ cm) rest) = .ok none (Send Y (tp ++ cm) rest) := by
    unfold Send
    exact tryConsume_miss (m + 1) tys _ rest _ hs.2 hs.1
  rcases hcm with rfl | ⟨c, hc, rfl⟩
  · rw [List.append_nil] at hmiss
    rw [List.append_nil]
    exact hmiss
  · have e0 : [c] ++ rest = c :: rest := rfl
    rw [e0] at ho ⊢
    rw [tryConsume_swallow m tys tp c rest hc (glued_joint tp hg) ho hs.1]
    exact hmiss

-- ---- the optional 得到 -----------------------------------------------------------------------------------------------------

/-- state after an optional `得到 X` and an optional comma, coming from the tokens `tp`: the comma is swallowed by the probe for 得到 if
there is no 得到, and still pending otherwise -/
def ySt (Y : Layout) (tp : List Token) (yl : Option (Token × Token)) (cm rest : List Token) : PState (List Token) :=
  match yl with
  | some _ => Send Y (tp ++ yieldToks yl) (cm ++ rest)
  | none => Send Y (tp ++ cm) rest

theorem ySt_nil (tp : List Token) (yl : Option (Token × Token)) (rest : List Token) :
    ySt Y tp yl [] rest = Send Y (tp ++ yieldToks yl) rest := by
  cases yl <;> rfl

theorem ySt_last {tp tp' : List Token} (h : tp.getLast? = tp'.getLast?) (yl : Option (Token × Token)) (cm rest : List Token) :
    ySt Y tp yl cm rest = ySt Y tp' yl cm rest := by
  cases yl with
  | none => exact Send_last (getLast?_append_last h cm) rest
  | some gx => exact Send_last (getLast?_append_last h _) _

/-- `optional 得到 ID` after the tokens `tp` -/
theorem optYield_rt (tp : List Token) (htp : tp ≠ []) (yl : Option (Token × Token)) (hy : YieldOK yl) (cm : List Token)
    (hcm : CommaOpt cm) (rest : List Token) (ho : Y.InOrder (yieldToks yl ++ (cm ++ rest)))
    (hg : Y.Glued (tp ++ (yieldToks yl ++ cm))) (hs : Stop Y [cTypeGetResultW] (tp ++ (yieldToks yl ++ cm)) rest) (j : Nat) :
    optYield v (layoutOps Y) (j + 1) (Send Y tp (yieldToks yl ++ (cm ++ rest))) = .ok (Y.yieldId yl) (ySt Y tp yl cm rest) := by
  cases yl with
  | none =>
    show optYield v (layoutOps Y) (j + 1) (Send Y tp (cm ++ rest)) = .ok none (Send Y (tp ++ cm) rest)
    unfold optYield
    rw [bind_ok (probe_miss j _ tp cm rest hcm ho hg hs)]
    rfl
  | some gx =>
    obtain ⟨g, x⟩ := gx
    obtain ⟨hgt, hxt⟩ := hy
    have e0 : yieldToks (some (g, x)) ++ (cm ++ rest) = g :: x :: (cm ++ rest) := rfl
    have e1 : tp ++ (yieldToks (some (g, x)) ++ cm) = tp ++ g :: x :: cm := rfl
    rw [e0] at ho ⊢
    rw [e1] at hg
    show _ = Res.ok (some (Y.idOf x)) (Send Y (tp ++ [g, x]) (cm ++ rest))
    rw [Send_joint tp g _ (glued_joint tp hg)]
    unfold optYield
    rw [bind_ok (tryConsume_hit j _ _ g _ (by simp [hgt]) (by rw [hgt]; decide) ho)]
    dsimp only
    have hb : Y.brk g (Y.peek (x :: (cm ++ rest))) = false := glued_head (glued_drop tp hg)
    rw [hb, bind_ok (parseID_hit j (some g) x _ hxt (inOrder_tail ho))]
    have hS : Send Y (tp ++ [g, x]) (cm ++ rest) = S Y (some x) (cm ++ rest) (Y.brk x (Y.peek (cm ++ rest))) := by
      rw [Send_append tp (by simp : [g, x] ≠ [])]; rfl
    rw [hS]
    rfl

theorem ySt_tailEq (e : Expr) (tp : List Token) (yl : Option (Token × Token)) (cm rest : List Token) (hcm : CommaOpt cm)
    (ho : Y.InOrder (cm ++ rest)) (hg : Y.Glued (tp ++ (yieldToks yl ++ cm))) (hnc : (Y.peek rest).type ≠ cTypeCommaSep) :
    TailEq v Y e (ySt Y tp yl cm rest) (Send Y (tp ++ (yieldToks yl ++ cm)) rest) := by
  cases yl with
  | none => exact TailEq.refl e _
  | some gx =>
    intro r n hn K
    rw [← List.append_assoc] at hg K
    exact tail_comma hcm hg ho hnc hn K

-- ---- argument lists --------------------------------------------------------------------------------------------------------

theorem pause_not_B1 : cTypePauseCommaSep ∉ B1 true := by decide

theorem stop_args {e : Expr} {ts rest : List Token} (hs : Stop Y (cTypePauseCommaSep :: B1 true) ts rest) :
    Stop Y (B1 true ++ FO e) ts rest :=
  hs.mono fun ty h => not_mem_BFO (fun h' => h (List.mem_cons_of_mem _ h')) (fun h' => h (h' ▸ List.mem_cons_self))

theorem args_one {e : Expr} {te : List Token} (Fe : Facts Y te) (Ce : C1 v Y true e te) : CArgs v Y [e] te := by
  intro p1 rest acc ho hg hs n' hn
  obtain ⟨m, rfl⟩ : ∃ m, n' = m + 1 := ⟨n' - 1, by unfold fN at hn; omega⟩
  show pCommaExprs (layoutOps Y) m _ acc _ = _
  unfold pCommaExprs
  rw [bind_ok (c1_done Ce p1 rest ho hg (stop_args hs) m (by unfold fN at hn; omega))]
  unfold Send
  rw [bind_ok (tryConsume_miss m _ _ rest _ (hs.fl fun _ h h' => h (by simpa using Or.inl h')) hs.1)]
  rfl

theorem args_cons {p : Token} {e : Expr} {te : List Token} {es : List Expr} {ts : List Token} (Fe : Facts Y te)
    (Ce : C1 v Y true e te) (hopen : openEnd e = false) (hp : p.type = cTypePauseCommaSep) (Fs : Facts Y ts)
    (Cs : CArgs v Y es ts) : CArgs v Y (e :: es) (te ++ p :: ts) := by
  intro p1 rest acc ho hg hs n' hn
  have hlen : fN (te ++ p :: ts) = 16 * (te.length + (ts.length + 1)) + 20 := by
    unfold fN; simp only [List.length_append, List.length_cons]
  rw [hlen] at hn
  obtain ⟨m, rfl⟩ : ∃ m, n' = m + 2 := ⟨n' - 2, by omega⟩
  have hpc : p.type ≠ cTypeCommaSep := by rw [hp]; decide
  rw [List.append_assoc] at ho
  have hob : Y.InOrder (p :: (ts ++ rest)) := inOrder_drop te ho
  have hgb : Y.Glued (p :: ts) := glued_drop te hg
  have hFO : FO e = [] := by unfold FO; simp [hopen]
  have hhead : Stop Y (B1 true ++ FO e) te (p :: ts ++ rest) := by
    refine ⟨hpc, Or.inr ?_⟩
    rw [hFO, List.append_nil]
    show p.type ∉ _
    rw [hp]
    exact pause_not_B1
  show pCommaExprs (layoutOps Y) (m + 1) _ acc _ = _
  unfold pCommaExprs
  rw [List.append_assoc]
  rw [bind_ok (c1_done Ce p1 (p :: ts ++ rest) ho (glued_take te hg) hhead (m + 1) (by omega))]
  rw [Send_mid te ts rest p hg]
  rw [bind_ok (tryConsume_hit m _ _ p (ts ++ rest) (by simp [hp]) hpc hob)]
  dsimp only
  rw [brk_mid Fs.ne hgb rest]
  have hsb : Stop Y (cTypePauseCommaSep :: B1 true) ts rest := stop_binop te ts rest p Fs.ne hs
  have hb := Cs (some p) rest (acc ++ [e]) (inOrder_tail hob) (glued_tail hgb) hsb (m + 1) (by unfold fN; omega)
  rw [Send_binop te ts rest p Fs.ne]
  have e1 : acc ++ e :: es = acc ++ [e] ++ es := by simp
  rw [e1]
  exact hb

-- ---- `f：a、b）` / `f）` ------------------------------------------------------------------------------------------------------

/-- `CFcall` with the fuel bound of its first part tightened from `fN tc ≤ j + 1` to `16 * tc.length ≤ j`: `case_call` has only
`16 * tc.length + 16` units for the whole of `（f）` -/
def CFcallT (v : Variant) (Y : Layout) (n : Ident) (ps : List Expr) (tc : List Token) : Prop :=
  (∀ (yr : Bool) p1 rest j, 16 * tc.length ≤ j → Y.InOrder (tc ++ rest) → Y.Glued tc →
    parse v (layoutOps Y) (j + 1) (.funcCall yr) (S Y p1 (tc ++ rest) false) =
      ((if yr then optYield v (layoutOps Y) j else pure none) >>= fun y => pure (Expr.call 0 (some n) ps y)) (Send Y tc rest)) ∧
  (∀ p1 rest, Y.InOrder (tc ++ rest) → Y.Glued tc →
    Stable v Y .objNew (S Y p1 (tc ++ rest) false) (.ok (.new 0 (some n) ps) (Send Y tc rest)) (fN tc))

theorem CFcallT.loose {n : Ident} {ps : List Expr} {tc : List Token} (h : CFcallT v Y n ps tc) : CFcall v Y n ps tc :=
  ⟨fun yr p1 rest j hj ho hg => h.1 yr p1 rest j (by unfold fN at hj; omega) ho hg, h.2⟩

theorem fcall_zero_t {f rp : Token} (hf : f.type = cTypeIdentifier) (hr : rp.type = cTypeFuncQuoteR) :
    CFcallT v Y (Y.idOf f) [] [f, rp] := by
  have hrc : rp.type ≠ cTypeCommaSep := by rw [hr]; decide
  have hrm : rp.type ∉ [cTypeFuncCall] := by rw [hr]; decide
  have e0 : ∀ rest, [f, rp] ++ rest = f :: rp :: rest := fun _ => rfl
  constructor
  · intro yr p1 rest j hj ho hg
    obtain ⟨m, rfl⟩ : ∃ m, j = m + 1 := ⟨j - 1, by simp only [List.length_cons, List.length_nil] at hj; omega⟩
    rw [e0] at ho ⊢
    show pFuncCall v (layoutOps Y) (m + 1) _ yr _ = _
    unfold pFuncCall
    rw [bind_ok (parseID_hit m p1 f _ hf ho)]
    have hb : Y.brk f (Y.peek (rp :: rest)) = false := glued_head hg
    rw [hb, bind_bind, bind_ok (tryConsume_miss (m + 1) _ (some f) (rp :: rest) false (Or.inr hrm) hrc)]
    dsimp only
    rw [bind_ok (show (pure [] : PM (List Token) (List Expr)) _ = .ok [] _ from rfl)]
    rw [bind_ok (consume_hit m _ (some f) rp rest (by simp [hr]) hrc (inOrder_tail ho))]
    rfl
  · intro p1 rest ho hg n' hn
    obtain ⟨m, rfl⟩ : ∃ m, n' = m + 2 := ⟨n' - 2, by unfold fN at hn; omega⟩
    rw [e0] at ho ⊢
    show pObjNew v (layoutOps Y) (m + 1) _ _ = _
    unfold pObjNew
    rw [bind_ok (parseID_hit m p1 f _ hf ho)]
    have hb : Y.brk f (Y.peek (rp :: rest)) = false := glued_head hg
    rw [hb, bind_ok (tryConsume_miss (m + 1) _ (some f) (rp :: rest) false (Or.inr hrm) hrc)]
    dsimp only
    rw [bind_ok (consume_hit m _ (some f) rp rest (by simp [hr]) hrc (inOrder_tail ho))]
    rfl

theorem fcall_zero {f rp : Token} (hf : f.type = cTypeIdentifier) (hr : rp.type = cTypeFuncQuoteR) :
    CFcall v Y (Y.idOf f) [] [f, rp] := (fcall_zero_t hf hr).loose

theorem rp_stops_args : cTypeFuncQuoteR ≠ cTypeCommaSep ∧ cTypeFuncQuoteR ∉ cTypePauseCommaSep :: B1 true := by decide

theorem fcall_args_t {f colon rp : Token} {es : List Expr} {ta : List Token} (hf : f.type = cTypeIdentifier)
    (hc : colon.type = cTypeFuncCall) (hr : rp.type = cTypeFuncQuoteR) (Fa : Facts Y ta) (Ca : CArgs v Y es ta) :
    CFcallT v Y (Y.idOf f) es (f :: colon :: ta ++ [rp]) := by
  have hrc : rp.type ≠ cTypeCommaSep := by rw [hr]; decide
  have hcc : colon.type ≠ cTypeCommaSep := by rw [hc]; decide
  have e0 : ∀ rest, (f :: colon :: ta ++ [rp]) ++ rest = f :: colon :: (ta ++ rp :: rest) := fun _ => by simp
  have hlen : (f :: colon :: ta ++ [rp]).length = ta.length + 3 := by simp
  have hsa : ∀ rest, Stop Y (cTypePauseCommaSep :: B1 true) ta (rp :: rest) := fun rest =>
    ⟨hrc, Or.inr (by show rp.type ∉ _; rw [hr]; exact rp_stops_args.2)⟩
  have hfin : ∀ rest, Send Y (f :: colon :: ta ++ [rp]) rest = S Y (some rp) rest (Y.brk rp (Y.peek rest)) := by
    intro rest
    unfold Send
    rw [show (f :: colon :: ta ++ [rp]).getLast? = some rp from by
      rw [show f :: colon :: ta ++ [rp] = (f :: colon :: ta) ++ [rp] from rfl, getLast?_snoc]]
    rfl
  constructor
  · intro yr p1 rest j hj ho hg
    rw [hlen] at hj
    obtain ⟨m, rfl⟩ : ∃ m, j = m + 1 := ⟨j - 1, by omega⟩
    rw [e0] at ho ⊢
    have hg1 : Y.Glued (colon :: ta ++ [rp]) := glued_tail hg
    have hoa : Y.InOrder (ta ++ rp :: rest) := inOrder_tail (inOrder_tail ho)
    show pFuncCall v (layoutOps Y) (m + 1) _ yr _ = _
    unfold pFuncCall
    rw [bind_ok (parseID_hit m p1 f _ hf ho)]
    have hb : Y.brk f (Y.peek (colon :: (ta ++ rp :: rest))) = false := glued_head hg
    rw [hb, bind_bind, bind_ok (tryConsume_hit m _ (some f) colon _ (by simp [hc]) hcc (inOrder_tail ho))]
    dsimp only
    rw [brk_mid Fa.ne (glued_take (colon :: ta) (b := [rp]) hg1)]
    have ha := Ca (some colon) (rp :: rest) [] hoa (glued_take ta (glued_tail hg1)) (hsa rest) (m + 1) (by unfold fN; omega)
    rw [bind_ok ha]
    rw [Send_joint ta rp rest (glued_joint ta (glued_tail hg1))]
    rw [bind_ok (consume_hit m _ _ rp rest (by simp [hr]) hrc (inOrder_drop ta hoa)), hfin]
    rfl
  · intro p1 rest ho hg n' hn
    unfold fN at hn
    rw [hlen] at hn
    obtain ⟨m, rfl⟩ : ∃ m, n' = m + 2 := ⟨n' - 2, by omega⟩
    rw [e0] at ho ⊢
    have hg1 : Y.Glued (colon :: ta ++ [rp]) := glued_tail hg
    have hoa : Y.InOrder (ta ++ rp :: rest) := inOrder_tail (inOrder_tail ho)
    show pObjNew v (layoutOps Y) (m + 1) _ _ = _
    unfold pObjNew
    rw [bind_ok (parseID_hit m p1 f _ hf ho)]
    have hb : Y.brk f (Y.peek (colon :: (ta ++ rp :: rest))) = false := glued_head hg
    rw [hb, bind_ok (tryConsume_hit m _ (some f) colon _ (by simp [hc]) hcc (inOrder_tail ho))]
    dsimp only
    rw [brk_mid Fa.ne (glued_take (colon :: ta) (b := [rp]) hg1)]
    have ha := Ca (some colon) (rp :: rest) [] hoa (glued_take ta (glued_tail hg1)) (hsa rest) (m + 1) (by unfold fN; omega)
    rw [bind_ok ha]
    rw [Send_joint ta rp rest (glued_joint ta (glued_tail hg1))]
    rw [bind_ok (consume_hit m _ _ rp rest (by simp [hr]) hrc (inOrder_drop ta hoa)), hfin]
    rfl

theorem fcall_args {f colon rp : Token} {es : List Expr} {ta : List Token} (hf : f.type = cTypeIdentifier)
    (hc : colon.type = cTypeFuncCall) (hr : rp.type = cTypeFuncQuoteR) (Fa : Facts Y ta) (Ca : CArgs v Y es ta) :
    CFcall v Y (Y.idOf f) es (f :: colon :: ta ++ [rp]) := (fcall_args_t hf hc hr Fa Ca).loose

-- ---- the chain `、（m：a）、（n）` -------------------------------------------------------------------------------------------

theorem chain_nil : CChain v Y [] [] := by
  intro tp cm rest acc htp hcm ho hg hs n' hn
  obtain ⟨m, rfl⟩ : ∃ m, n' = m + 2 := ⟨n' - 2, by unfold fN at hn; omega⟩
  show pChainLoop v (layoutOps Y) (m + 1) _ acc (Send Y tp (cm ++ rest)) = .ok (acc ++ []) (Send Y (tp ++ cm) rest)
  unfold pChainLoop
  rw [bind_ok (probe_miss m _ tp cm rest hcm ho hg hs), List.append_nil]
  rfl

/-- `ParseFuncCallExpr` without 得到 -/
theorem funcCall_plain {n : Ident} {ps : List Expr} {tc : List Token} (Cf : CFcall v Y n ps tc) (p1 : Option Token)
    (rest : List Token) (j : Nat) (hj : fN tc ≤ j + 1) (ho : Y.InOrder (tc ++ rest)) (hg : Y.Glued tc) :
    parse v (layoutOps Y) (j + 1) (.funcCall false) (S Y p1 (tc ++ rest) false) =
      .ok (.call 0 (some n) ps none) (Send Y tc rest) := by
  rw [Cf.1 false p1 rest j hj ho hg]
  rfl

theorem chain_cons {p l : Token} {n : Ident} {ps : List Expr} {tc : List Token} {cs : List Expr} {tcs : List Token}
    (hp : p.type = cTypePauseCommaSep) (hl : l.type = cTypeFuncQuoteL) (hne : tc ≠ []) (hfirst : (Y.peek tc).type = cTypeIdentifier)
    (Cf : CFcall v Y n ps tc) (Cc : CChain v Y cs tcs) :
    CChain v Y (.call 0 (some n) ps none :: cs) (p :: l :: tc ++ tcs) := by
  intro tp cm rest acc htp hcm ho hg hs n' hn
  have hlen : fN (p :: l :: tc ++ tcs) = 16 * (tc.length + tcs.length + 2) + 20 := by
    unfold fN; simp only [List.length_append, List.length_cons]; omega
  rw [hlen] at hn
  obtain ⟨m, rfl⟩ : ∃ m, n' = m + 2 := ⟨n' - 2, by omega⟩
  have hpc : p.type ≠ cTypeCommaSep := by rw [hp]; decide
  have hlc : l.type ≠ cTypeCommaSep := by rw [hl]; decide
  have e0 : (p :: l :: tc ++ tcs) ++ (cm ++ rest) = p :: l :: (tc ++ (tcs ++ (cm ++ rest))) := by simp
  have e1 : tp ++ ((p :: l :: tc ++ tcs) ++ cm) = tp ++ p :: l :: (tc ++ (tcs ++ cm)) := by simp
  rw [e0] at ho ⊢
  rw [e1] at hg hs ⊢
  have hg1 : Y.Glued (p :: l :: (tc ++ (tcs ++ cm))) := glued_drop tp hg
  have hg2 : Y.Glued (l :: (tc ++ (tcs ++ cm))) := glued_tail hg1
  have hg3 : Y.Glued (tc ++ (tcs ++ cm)) := glued_tail hg2
  have ho1 := inOrder_tail ho
  have ho2 := inOrder_tail ho1
  rw [Send_joint tp p _ (glued_joint tp hg)]
  show pChainLoop v (layoutOps Y) (m + 1) _ acc _ = _
  unfold pChainLoop
  rw [bind_ok (tryConsume_hit m _ _ p _ (by simp [hp]) hpc ho)]
  dsimp only
  have hb1 : Y.brk p (Y.peek (l :: (tc ++ (tcs ++ (cm ++ rest))))) = false := glued_head hg1
  rw [hb1, bind_ok (consume_hit m _ (some p) l _ (by simp [hl]) hlc ho1)]
  have hb2 : Y.brk l (Y.peek (tc ++ (tcs ++ (cm ++ rest)))) = false := by
    rw [peek_append hne, ← peek_append hne (tcs ++ cm)]
    cases htc : tc ++ (tcs ++ cm) with
    | nil => simp [hne] at htc
    | cons u r => rw [htc] at hg2; exact hg2.1
  rw [hb2]
  rw [bind_ok (funcCall_plain Cf (some l) (tcs ++ (cm ++ rest)) m (by unfold fN; omega) ho2 (glued_take tc hg3))]
  have hlast : (tp ++ p :: l :: (tc ++ (tcs ++ cm))).getLast? = (tc ++ (tcs ++ cm)).getLast? := by
    rw [show tp ++ p :: l :: (tc ++ (tcs ++ cm)) = (tp ++ [p, l]) ++ (tc ++ (tcs ++ cm)) from by simp]
    exact getLast?_append_ne _ (by simp [hne])
  have hc := Cc tc cm rest (acc ++ [.call 0 (some n) ps none]) hne hcm (inOrder_drop tc ho2) hg3 (hs.last hlast.symm) (m + 1)
    (by unfold fN; omega)
  rw [Send_last hlast rest]
  have e2 : acc ++ Expr.call 0 (some n) ps none :: cs = acc ++ [Expr.call 0 (some n) ps none] ++ cs := by simp
  rw [e2]
  exact hc

-- ---- the chain and the optional 得到 after it ------------------------------------------------------------------------------

/-- the follow set of a method-call chain beside 得到: `、` continues it unless 得到 closed it -/
def yFO : Option (Token × Token) → List Nat
  | none => [cTypePauseCommaSep]
  | some _ => []

theorem FO_mcall (l : Nat) (root : Expr) (chain : List Expr) (yl : Option (Token × Token)) :
    FO (.mcall l root chain (Y.yieldId yl)) = yFO yl := by
  cases yl with
  | none => rfl
  | some gx => rfl

theorem yFO_sub (yl : Option (Token × Token)) : ∀ ty, ty ∈ cTypeGetResultW :: yFO yl → ty ∈ [cTypeGetResultW, cTypePauseCommaSep] := by
  cases yl with
  | none => exact fun _ h => h
  | some gx => exact fun _ h => List.mem_cons.mpr (Or.inl (by simpa [yFO] using h))

/-- the loop of the chain, then the optional 得到, after the tokens `tp` -/
theorem chain_yield {α : Type} {cs : List Expr} {tcs : List Token} {yl : Option (Token × Token)} (Cc : CChain v Y cs tcs)
    (hy : YieldOK yl) (tp : List Token) (htp : tp ≠ []) (cm : List Token) (hcm : CommaOpt cm) (rest : List Token)
    (ho : Y.InOrder (tcs ++ (yieldToks yl ++ (cm ++ rest)))) (hg : Y.Glued (tp ++ (tcs ++ (yieldToks yl ++ cm))))
    (hs : Stop Y (cTypeGetResultW :: yFO yl) (tp ++ (tcs ++ (yieldToks yl ++ cm))) rest) (j : Nat) (hj : fN tcs ≤ j + 1)
    (acc : List Expr) (k : List Expr → Option Ident → PM (List Token) α) :
    (parse v (layoutOps Y) (j + 1) (.chainLoop acc) >>= fun chain =>
      optYield v (layoutOps Y) (j + 1) >>= fun y => k chain y) (Send Y tp (tcs ++ (yieldToks yl ++ (cm ++ rest)))) =
    k (acc ++ cs) (Y.yieldId yl) (ySt Y (tp ++ tcs) yl cm rest) := by
  cases yl with
  | none =>
    have e0 : ∀ (a b : List Token), a ++ (yieldToks none ++ b) = a ++ b := fun _ _ => rfl
    rw [e0] at ho hg hs ⊢
    have hsc : Stop Y [cTypePauseCommaSep] (tp ++ (tcs ++ cm)) rest := hs.sub fun ty h => by
      simp only [List.mem_cons, List.not_mem_nil, or_false] at h; subst h; simp [yFO]
    rw [bind_ok (Cc tp cm rest acc htp hcm ho hg hsc (j + 1) hj)]
    have hsy : Stop Y [cTypeGetResultW] (tp ++ (tcs ++ cm) ++ (yieldToks none ++ [])) rest := by
      rw [show tp ++ (tcs ++ cm) ++ (yieldToks none ++ []) = tp ++ (tcs ++ cm) from by simp [yieldToks]]
      exact hs.sub fun ty h => by
        simp only [List.mem_cons, List.not_mem_nil, or_false] at h; subst h; simp
    have hy' := optYield_rt (v := v) (tp ++ (tcs ++ cm)) (by simp [htp]) none trivial [] (Or.inl rfl) rest
      (by show Y.InOrder rest; exact inOrder_drop cm (inOrder_drop tcs ho))
      (by rw [show tp ++ (tcs ++ cm) ++ (yieldToks none ++ []) = tp ++ (tcs ++ cm) from by simp [yieldToks]]; exact hg) hsy j
    have e1 : yieldToks none ++ ([] ++ rest) = rest := rfl
    rw [e1] at hy'
    rw [bind_ok hy']
    show k (acc ++ cs) none (Send Y (tp ++ (tcs ++ cm) ++ []) rest) = k (acc ++ cs) none (Send Y (tp ++ tcs ++ cm) rest)
    rw [List.append_nil, List.append_assoc]
  | some gx =>
    obtain ⟨g, x⟩ := gx
    have hgt : g.type = cTypeGetResultW := hy.1
    have e0 : ∀ (b : List Token), yieldToks (some (g, x)) ++ b = g :: x :: b := fun _ => rfl
    have hsc : Stop Y [cTypePauseCommaSep] (tp ++ (tcs ++ [])) (yieldToks (some (g, x)) ++ (cm ++ rest)) := by
      rw [e0]
      refine ⟨?_, Or.inr ?_⟩
      · show g.type ≠ _; rw [hgt]; decide
      · show g.type ∉ _; rw [hgt]; decide
    have hgc : Y.Glued (tp ++ (tcs ++ [])) := by
      rw [List.append_nil]
      rw [← List.append_assoc] at hg
      exact glued_take (tp ++ tcs) hg
    have hc := Cc tp [] (yieldToks (some (g, x)) ++ (cm ++ rest)) acc htp (Or.inl rfl) ho hgc hsc (j + 1) hj
    have e1 : ([] : List Token) ++ (yieldToks (some (g, x)) ++ (cm ++ rest)) = yieldToks (some (g, x)) ++ (cm ++ rest) := rfl
    rw [e1] at hc
    rw [bind_ok hc, List.append_nil]
    have hsy : Stop Y [cTypeGetResultW] (tp ++ tcs ++ (yieldToks (some (g, x)) ++ cm)) rest := by
      rw [List.append_assoc]
      exact hs.sub fun ty h => List.mem_cons.mpr (Or.inl (by simpa using h))
    rw [bind_ok (optYield_rt (v := v) (tp ++ tcs) (by simp [htp]) (some (g, x)) hy cm hcm rest (inOrder_drop tcs ho)
      (by rw [List.append_assoc]; exact hg) hsy j)]

/-- what `ParseMemberFuncCallExpr` and the statement form `以 x（…` do after the `（`: the first call, the chain, the optional 得到
(general form: a `、` may follow when 得到 closed the chain) -/
theorem mcall_tail' {α : Type} {n : Ident} {ps : List Expr} {tc : List Token} {cs : List Expr} {tcs : List Token}
    {yl : Option (Token × Token)} (hne : tc ≠ []) (Cf : CFcall v Y n ps tc) (Cc : CChain v Y cs tcs) (hy : YieldOK yl)
    (l : Token) (cm : List Token) (hcm : CommaOpt cm) (rest : List Token)
    (ho : Y.InOrder (tc ++ (tcs ++ (yieldToks yl ++ (cm ++ rest)))))
    (hg : Y.Glued (l :: (tc ++ (tcs ++ (yieldToks yl ++ cm)))))
    (hs : Stop Y (cTypeGetResultW :: yFO yl) (tc ++ (tcs ++ (yieldToks yl ++ cm))) rest) (j : Nat)
    (hj : fN tc + fN tcs + 2 ≤ j + 1) (k : List Expr → Option Ident → PM (List Token) α) :
    (parse v (layoutOps Y) (j + 1) (.funcCall false) >>= fun f =>
      parse v (layoutOps Y) (j + 1) (.chainLoop [f]) >>= fun chain =>
      optYield v (layoutOps Y) (j + 1) >>= fun y => k chain y) (S Y (some l) (tc ++ (tcs ++ (yieldToks yl ++ (cm ++ rest)))) false) =
    k (.call 0 (some n) ps none :: cs) (Y.yieldId yl) (ySt Y (l :: (tc ++ tcs)) yl cm rest) := by
  have hg1 : Y.Glued (tc ++ (tcs ++ (yieldToks yl ++ cm))) := glued_tail hg
  rw [bind_ok (funcCall_plain Cf (some l) _ j (by omega) ho (glued_take tc hg1))]
  rw [chain_yield Cc hy tc hne cm hcm rest (inOrder_drop tc ho) hg1 hs j (by omega) [.call 0 (some n) ps none] k]
  rw [ySt_last (tp := tc ++ tcs) (tp' := l :: (tc ++ tcs)) (getLast?_cons_ne l (by simp [hne])).symm]
  rfl

theorem mcall_tail {α : Type} {n : Ident} {ps : List Expr} {tc : List Token} {cs : List Expr} {tcs : List Token}
    {yl : Option (Token × Token)} (hne : tc ≠ []) (Cf : CFcall v Y n ps tc) (Cc : CChain v Y cs tcs) (hy : YieldOK yl)
    (l : Token) (cm : List Token) (hcm : CommaOpt cm) (rest : List Token)
    (ho : Y.InOrder (tc ++ (tcs ++ (yieldToks yl ++ (cm ++ rest)))))
    (hg : Y.Glued (l :: (tc ++ (tcs ++ (yieldToks yl ++ cm)))))
    (hs : Stop Y [cTypeGetResultW, cTypePauseCommaSep] (tc ++ (tcs ++ (yieldToks yl ++ cm))) rest) (j : Nat)
    (hj : fN tc + fN tcs + 2 ≤ j + 1) (k : List Expr → Option Ident → PM (List Token) α) :
    (parse v (layoutOps Y) (j + 1) (.funcCall false) >>= fun f =>
      parse v (layoutOps Y) (j + 1) (.chainLoop [f]) >>= fun chain =>
      optYield v (layoutOps Y) (j + 1) >>= fun y => k chain y) (S Y (some l) (tc ++ (tcs ++ (yieldToks yl ++ (cm ++ rest)))) false) =
    k (.call 0 (some n) ps none :: cs) (Y.yieldId yl) (ySt Y (l :: (tc ++ tcs)) yl cm rest) :=
  mcall_tail' hne Cf Cc hy l cm hcm rest ho hg (hs.sub (yFO_sub yl)) j hj k

-- ---- the basic forms --------------------------------------------------------------------------------------------------------

/-- flag after consuming a token when a glued, non-empty run follows -/
theorem brk_head {t : Token} {tb : List Token} (hne : tb ≠ []) (x y : List Token) (hg : Y.Glued (t :: (tb ++ x))) :
    Y.brk t (Y.peek (tb ++ y)) = false := by
  cases tb with
  | nil => exact absurd rfl hne
  | cons u r => exact hg.1

theorem FO_call (l : Nat) (n : Option Ident) (ps : List Expr) (y : Option Ident) : FO (.call l n ps y) = [] := rfl

/-- `（f：a、b）`, `（f）`, optionally `得到 X` -/
theorem case_call {l : Token} {n : Ident} {ps : List Expr} {tc : List Token} {yl : Option (Token × Token)}
    (hl : l.type = cTypeFuncQuoteL) (hne : tc ≠ []) (hfirst : (Y.peek tc).type = cTypeIdentifier) (Cf : CFcallT v Y n ps tc)
    (hy : YieldOK yl) : C7 v Y (.call (Y.sl l) (some n) ps (Y.yieldId yl)) (l :: tc ++ yieldToks yl) := by
  have hpos : 0 < tc.length := List.length_pos_iff.mpr hne
  refine c7_of_basic _ _ (by simp) (by show l.type ∈ _; rw [hl]; decide) (16 * tc.length + 2)
    (by unfold D; simp only [List.length_append, List.length_cons]; omega) ?_
  intro cm hcm p1 rest ho hg hs
  have e0 : (l :: tc ++ yieldToks yl) ++ (cm ++ rest) = l :: (tc ++ (yieldToks yl ++ (cm ++ rest))) := by simp
  have e1 : (l :: tc ++ yieldToks yl) ++ cm = l :: (tc ++ (yieldToks yl ++ cm)) := by simp
  rw [e0] at ho ⊢
  rw [e1] at hg hs ⊢
  have hlast : (l :: (tc ++ (yieldToks yl ++ cm))).getLast? = (tc ++ (yieldToks yl ++ cm)).getLast? :=
    getLast?_cons_ne l (by simp [hne])
  have hg1 : Y.Glued (tc ++ (yieldToks yl ++ cm)) := glued_tail hg
  have ho1 : Y.InOrder (tc ++ (yieldToks yl ++ (cm ++ rest))) := inOrder_tail ho
  refine ⟨ySt Y tc yl cm rest, ?_, ?_⟩
  · intro n' hn
    obtain ⟨m, rfl⟩ : ∃ m, n' = m + 3 := ⟨n' - 3, by omega⟩
    have hsy : Stop Y [cTypeGetResultW] (tc ++ (yieldToks yl ++ cm)) rest :=
      (hs.sub fun ty h => List.mem_cons.mpr (Or.inl (by simpa using h))).last hlast.symm
    have hfc : parse v (layoutOps Y) (m + 2) (.funcCall true) (S Y (some l) (tc ++ (yieldToks yl ++ (cm ++ rest))) false) =
        .ok (.call 0 (some n) ps (Y.yieldId yl)) (ySt Y tc yl cm rest) := by
      rw [Cf.1 true (some l) _ (m + 1) (by omega) ho1 (glued_take tc hg1)]
      show (optYield v (layoutOps Y) (m + 1) >>= fun y => pure (Expr.call 0 (some n) ps y)) _ = _
      rw [bind_ok (optYield_rt tc hne yl hy cm hcm rest (inOrder_drop tc ho1) hg1 hsy m)]
      rfl
    show pBasic v (layoutOps Y) (m + 2) _ _ = _
    unfold pBasic
    rw [bind_ok (tryConsume_hit (m + 1) _ p1 l _ (by rw [hl]; decide) (by rw [hl]; decide) ho)]
    rw [brk_head hne _ _ hg]
    have h1 : ¬ cTypeFuncQuoteL = cTypeIdentifier := by decide
    have h2 : ¬ cTypeFuncQuoteL = cTypeString := by decide
    have h3 : ¬ cTypeFuncQuoteL = cTypeArrayQuoteL := by decide
    have h4 : ¬ cTypeFuncQuoteL = cTypeStmtQuoteL := by decide
    simp only [hl, h1, h2, h3, h4, if_true, if_false]
    have hpk : Y.peek (tc ++ (yieldToks yl ++ (cm ++ rest))) = Y.peek tc := peek_append hne _
    rw [bind_bind, bind_ok (tryConsume_miss (m + 2) _ (some l) _ false
      (Or.inr (by rw [hpk, hfirst]; decide)) (by rw [hpk, hfirst]; decide))]
    dsimp only
    rw [bind_ok hfc, bind_ok (lineOf_S l _)]
    rfl
  · rw [Send_last hlast rest]
    exact ySt_tailEq _ tc yl cm rest hcm (inOrder_drop _ (inOrder_drop tc ho1)) hg1 hs.1

/-- `（新建 T：a、b）`, `（新建 T）` -/
theorem case_new {l nw : Token} {n : Ident} {ps : List Expr} {tc : List Token} (hl : l.type = cTypeFuncQuoteL)
    (hnw : nw.type = cTypeObjNewW) (hne : tc ≠ []) (hfirst : (Y.peek tc).type = cTypeIdentifier) (Cf : CFcall v Y n ps tc) :
    C7 v Y (.new (Y.sl l) (some n) ps) (l :: nw :: tc) := by
  refine c7_of_basic_plain _ _ (by simp) (by show l.type ∈ _; rw [hl]; decide) (fN tc + 1)
    (by unfold D fN; simp only [List.length_cons]; omega) ?_
  intro p1 rest ho hg n' hn
  obtain ⟨m, rfl⟩ : ∃ m, n' = m + 2 := ⟨n' - 2, by unfold fN at hn; omega⟩
  have e0 : (l :: nw :: tc) ++ rest = l :: nw :: (tc ++ rest) := rfl
  rw [e0] at ho ⊢
  have ho1 := inOrder_tail ho
  show pBasic v (layoutOps Y) (m + 1) _ _ = _
  unfold pBasic
  rw [bind_ok (tryConsume_hit m _ p1 l _ (by rw [hl]; decide) (by rw [hl]; decide) ho)]
  have hb : Y.brk l (Y.peek (nw :: (tc ++ rest))) = false := glued_head hg
  rw [hb]
  have h1 : ¬ cTypeFuncQuoteL = cTypeIdentifier := by decide
  have h2 : ¬ cTypeFuncQuoteL = cTypeString := by decide
  have h3 : ¬ cTypeFuncQuoteL = cTypeArrayQuoteL := by decide
  have h4 : ¬ cTypeFuncQuoteL = cTypeStmtQuoteL := by decide
  simp only [hl, h1, h2, h3, h4, if_true, if_false]
  rw [bind_bind, bind_ok (tryConsume_hit m _ (some l) nw _ (by simp [hnw]) (by rw [hnw]; decide) ho1)]
  dsimp only
  rw [brk_mid hne (glued_tail hg) rest]
  rw [bind_ok (Cf.2 (some nw) rest (inOrder_tail ho1) (glued_tail (glued_tail hg)) (m + 1) (by omega)), bind_ok (lineOf_S l _)]
  rw [show l :: nw :: tc = [l, nw] ++ tc from rfl, Send_append [l, nw] hne rest]
  rfl

theorem funcQuoteL_stops_expr : cTypeFuncQuoteL ≠ cTypeCommaSep ∧ cTypeFuncQuoteL ∉ B1 true ∧
    cTypeFuncQuoteL ≠ cTypePauseCommaSep := by decide

/-- `以 x（m：a）、（n）`, optionally `得到 X` -/
theorem case_mcall {kw l : Token} {root : Expr} {tr : List Token} {n : Ident} {ps : List Expr} {tc : List Token}
    {cs : List Expr} {tcs : List Token} {yl : Option (Token × Token)} (hk : kw.type = cTypeVarOneW) (Fr : Facts Y tr)
    (Cr : C1 v Y true root tr) (hl : l.type = cTypeFuncQuoteL) (hne : tc ≠ []) (hfirst : (Y.peek tc).type = cTypeIdentifier)
    (Cf : CFcall v Y n ps tc) (Cc : CChain v Y cs tcs) (hy : YieldOK yl) :
    C7 v Y (.mcall (Y.sl kw) root (.call 0 (some n) ps none :: cs) (Y.yieldId yl)) (kw :: tr ++ l :: tc ++ tcs ++ yieldToks yl) := by
  have hpos : 0 < tc.length := List.length_pos_iff.mpr hne
  have hposr : 0 < tr.length := List.length_pos_iff.mpr Fr.ne
  refine c7_of_basic _ _ (by simp) (by show kw.type ∈ _; rw [hk]; decide) (16 * (tr.length + tc.length + tcs.length + 2))
    (by unfold D; simp only [List.length_append, List.length_cons]; omega) ?_
  intro cm hcm p1 rest ho hg hs
  have e0 : (kw :: tr ++ l :: tc ++ tcs ++ yieldToks yl) ++ (cm ++ rest) =
      kw :: (tr ++ l :: (tc ++ (tcs ++ (yieldToks yl ++ (cm ++ rest))))) := by simp
  have e1 : (kw :: tr ++ l :: tc ++ tcs ++ yieldToks yl) ++ cm = kw :: (tr ++ l :: (tc ++ (tcs ++ (yieldToks yl ++ cm)))) := by simp
  rw [e0] at ho ⊢
  rw [e1] at hg hs ⊢
  rw [FO_mcall] at hs
  have hgr : Y.Glued (tr ++ l :: (tc ++ (tcs ++ (yieldToks yl ++ cm)))) := glued_tail hg
  have hgl : Y.Glued (l :: (tc ++ (tcs ++ (yieldToks yl ++ cm)))) := glued_drop tr hgr
  have hgrl : Y.Glued (tr ++ [l]) := by
    rw [show tr ++ l :: (tc ++ (tcs ++ (yieldToks yl ++ cm))) = (tr ++ [l]) ++ (tc ++ (tcs ++ (yieldToks yl ++ cm))) from by simp] at hgr
    exact glued_take _ hgr
  have hor : Y.InOrder (tr ++ l :: (tc ++ (tcs ++ (yieldToks yl ++ (cm ++ rest))))) := inOrder_tail ho
  have hol : Y.InOrder (l :: (tc ++ (tcs ++ (yieldToks yl ++ (cm ++ rest))))) := inOrder_drop tr hor
  have hlast : (kw :: (tr ++ l :: (tc ++ (tcs ++ (yieldToks yl ++ cm))))).getLast? =
      (tc ++ (tcs ++ (yieldToks yl ++ cm))).getLast? := by
    rw [show kw :: (tr ++ l :: (tc ++ (tcs ++ (yieldToks yl ++ cm)))) =
      (kw :: tr ++ [l]) ++ (tc ++ (tcs ++ (yieldToks yl ++ cm))) from by simp]
    exact getLast?_append_ne _ (by simp [hne])
  have hlc : l.type ≠ cTypeCommaSep := by rw [hl]; decide
  refine ⟨ySt Y (l :: (tc ++ tcs)) yl cm rest, ?_, ?_⟩
  · intro n' hn
    obtain ⟨m, rfl⟩ : ∃ m, n' = m + 3 := ⟨n' - 3, by omega⟩
    have hin := inner_expr Cr l hlc (by rw [hl]; exact funcQuoteL_stops_expr.2.1) (by rw [hl]; decide) (some kw) _ hor hgrl
      (m + 1) (by omega)
    have hcons := consume_hit (Y := Y) (v := v) m [cTypeFuncQuoteL] tr.getLast? l _ (by simp [hl]) hlc hol
    have hmf : parse v (layoutOps Y) (m + 2) .memberFuncCall
        (S Y (some kw) (tr ++ l :: (tc ++ (tcs ++ (yieldToks yl ++ (cm ++ rest))))) false) =
        .ok (.mcall 0 root (.call 0 (some n) ps none :: cs) (Y.yieldId yl)) (ySt Y (l :: (tc ++ tcs)) yl cm rest) := by
      show pMemberFuncCall v (layoutOps Y) (m + 1) _ _ = _
      unfold pMemberFuncCall
      rw [bind_ok hin, bind_ok hcons, brk_head hne _ _ hgl]
      rw [mcall_tail' hne Cf Cc hy l cm hcm rest (inOrder_tail hol) hgl (hs.last hlast.symm) m
        (by unfold fN; omega) (fun chain y => pure (Expr.mcall 0 root chain y))]
      rfl
    show pBasic v (layoutOps Y) (m + 2) _ _ = _
    unfold pBasic
    rw [bind_ok (tryConsume_hit (m + 1) _ p1 kw _ (by rw [hk]; decide) (by rw [hk]; decide) ho)]
    rw [brk_head Fr.ne _ _ hg]
    have h1 : ¬ cTypeVarOneW = cTypeIdentifier := by decide
    have h2 : ¬ cTypeVarOneW = cTypeString := by decide
    have h3 : ¬ cTypeVarOneW = cTypeArrayQuoteL := by decide
    have h4 : ¬ cTypeVarOneW = cTypeStmtQuoteL := by decide
    have h5 : ¬ cTypeVarOneW = cTypeFuncQuoteL := by decide
    simp only [hk, h1, h2, h3, h4, h5, if_true, if_false]
    rw [bind_ok hmf, bind_ok (lineOf_S kw _)]
    rfl
  · have hg2 : Y.Glued ((l :: (tc ++ tcs)) ++ (yieldToks yl ++ cm)) := by
      rw [show (l :: (tc ++ tcs)) ++ (yieldToks yl ++ cm) = l :: (tc ++ (tcs ++ (yieldToks yl ++ cm))) from by simp]
      exact hgl
    have hlast2 : (kw :: (tr ++ l :: (tc ++ (tcs ++ (yieldToks yl ++ cm))))).getLast? =
        ((l :: (tc ++ tcs)) ++ (yieldToks yl ++ cm)).getLast? := by
      rw [show kw :: (tr ++ l :: (tc ++ (tcs ++ (yieldToks yl ++ cm)))) =
        (kw :: tr) ++ ((l :: (tc ++ tcs)) ++ (yieldToks yl ++ cm)) from by simp]
      exact getLast?_append_ne _ (by simp)
    rw [Send_last hlast2 rest]
    exact ySt_tailEq _ (l :: (tc ++ tcs)) yl cm rest hcm
      (inOrder_drop _ (inOrder_drop tcs (inOrder_drop tc (inOrder_tail hol)))) hg2 hs.1

end ZnVerif.Proofs.StmtRT
