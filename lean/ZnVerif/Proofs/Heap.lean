/-
Heap reasoning for the evaluator model (Model/Interp.lean): helper definitions and lemmas used by
Properties/C07.lean.  Nothing here changes the model; everything is proved about it.
-/
import ZnVerif.Model.Interp
set_option linter.unusedSectionVars false
set_option linter.unusedVariables false

namespace ZnVerif.Model

variable {ν : Type} [NumOps ν]

/-! ## the monad `M ν` is lawful (gives `List.mapM_cons`, `List.forM_cons`, … for it) -/

instance : LawfulMonad (M ν) := LawfulMonad.mk' (M ν)
  (id_map := by
    intro α x; funext s
    show (match x s with
      | (.ok a, s') => (pure (id a) : M ν α) s'
      | (.err e, s') => (.err e, s')
      | (.panic, s') => (.panic, s')
      | (.fuel, s') => (.fuel, s')
      | (.unmodelled, s') => (.unmodelled, s')) = x s
    cases h : x s with | mk r s1 => cases r <;> rfl)
  (pure_bind := by intros; rfl)
  (bind_assoc := by
    intro α β γ x f g; funext s
    simp only [bind]
    cases h : x s with | mk r s1 => cases r <;> rfl)

/-! ## `List.mapM` in `M ν` and in `Option` -/

theorem mapM_nil' {α β} (f : α → M ν β) (s : VM ν) : List.mapM f [] s = (.ok [], s) := by
  simp [pure]

theorem mapM_cons_ok {α β} (f : α → M ν β) (x : α) (xs : List α) (s s1 s2 : VM ν) (b : β) (bs : List β)
    (h1 : f x s = (.ok b, s1)) (h2 : List.mapM f xs s1 = (.ok bs, s2)) :
    List.mapM f (x :: xs) s = (.ok (b :: bs), s2) := by
  simp [List.mapM_cons, bind, h1, h2, pure]

/-- inversion: a successful `mapM` ran `f` successfully on the head, then on the tail -/
theorem mapM_cons_inv {α β} (f : α → M ν β) (x : α) (xs : List α) (s s2 : VM ν) (r : List β)
    (h : List.mapM f (x :: xs) s = (.ok r, s2)) :
    ∃ b bs s1, f x s = (.ok b, s1) ∧ List.mapM f xs s1 = (.ok bs, s2) ∧ r = b :: bs := by
  simp only [List.mapM_cons, bind] at h
  cases h1 : f x s with | mk r1 s1 =>
  rw [h1] at h
  cases r1 <;> simp at h
  rename_i b
  cases h2 : List.mapM f xs s1 with | mk r2 s2' =>
  rw [h2] at h
  cases r2 <;> simp [pure] at h
  rename_i bs
  exact ⟨b, bs, s1, rfl, by rw [h2, h.2], h.1.symm⟩

theorem bind_ok_inv {α β} (m : M ν α) (f : α → M ν β) (s s' : VM ν) (r : β)
    (h : (m >>= f) s = (.ok r, s')) : ∃ a s1, m s = (.ok a, s1) ∧ f a s1 = (.ok r, s') := by
  simp only [bind] at h
  cases h1 : m s with | mk r1 s1 =>
  rw [h1] at h
  cases r1 <;> simp at h
  exact ⟨_, _, rfl, h⟩

theorem omapM_nil {α β} (f : α → Option β) : List.mapM f [] = some [] := by simp

theorem omapM_cons {α β} (f : α → Option β) (x : α) (xs : List α) (ts : List β) :
    List.mapM f (x :: xs) = some ts ↔ ∃ t ts', f x = some t ∧ List.mapM f xs = some ts' ∧ ts = t :: ts' := by
  rw [List.mapM_cons]
  cases h1 : f x <;> cases h2 : List.mapM f xs <;> simp [eq_comm]

theorem omapM_mono {α β} (f g : α → Option β) (l : List α)
    (hfg : ∀ x ∈ l, ∀ t, f x = some t → g x = some t) :
    ∀ ts, List.mapM f l = some ts → List.mapM g l = some ts := by
  induction l with
  | nil => intro ts h; simpa using h
  | cons x xs ih =>
    intro ts h
    rcases (omapM_cons f x xs ts).1 h with ⟨t, ts', h1, h2, rfl⟩
    exact (omapM_cons g x xs _).2 ⟨t, ts', hfg x (by simp) t h1,
      ih (fun y hy => hfg y (by simp [hy])) ts' h2, rfl⟩

theorem omapM_congr {α β} (f g : α → Option β) (l : List α) (hfg : ∀ x ∈ l, f x = g x) :
    List.mapM f l = List.mapM g l := by
  induction l with
  | nil => simp
  | cons x xs ih =>
    rw [List.mapM_cons, List.mapM_cons, hfg x (by simp), ih (fun y hy => hfg y (by simp [hy]))]

theorem omapM_mem {α β} (f : α → Option β) (l : List α) :
    ∀ ts, List.mapM f l = some ts → ∀ x ∈ l, ∃ t, f x = some t ∧ t ∈ ts := by
  induction l with
  | nil => intro ts _ x hx; simp at hx
  | cons y ys ih =>
    intro ts h x hx
    rcases (omapM_cons f y ys ts).1 h with ⟨t, ts', h1, h2, rfl⟩
    rcases List.mem_cons.1 hx with rfl | hx
    · exact ⟨t, h1, by simp⟩
    · rcases ih ts' h2 x hx with ⟨t', h3, h4⟩
      exact ⟨t', h3, by simp [h4]⟩

theorem omapM_length {α β} (f : α → Option β) (l : List α) :
    ∀ ts, List.mapM f l = some ts → ts.length = l.length := by
  induction l with
  | nil => intro ts h; simp at h; simp [← h]
  | cons y ys ih =>
    intro ts h
    rcases (omapM_cons f y ys ts).1 h with ⟨t, ts', h1, h2, rfl⟩
    simp [ih ts' h2]

/-- two lists read to the same list of results: elements correspond -/
theorem omapM_pair {α α' β} (f : α → Option β) (g : α' → Option β) (l : List α) :
    ∀ (l' : List α') ts, List.mapM f l = some ts → List.mapM g l' = some ts →
      ∀ x ∈ l, ∃ y ∈ l', ∃ t, f x = some t ∧ g y = some t := by
  induction l with
  | nil => intro l' ts _ _ x hx; simp at hx
  | cons a as ih =>
    intro l' ts h h' x hx
    rcases (omapM_cons f a as ts).1 h with ⟨t, ts', h1, h2, rfl⟩
    cases l' with
    | nil => simp at h'
    | cons b bs =>
      rcases (omapM_cons g b bs _).1 h' with ⟨u, us, g1, g2, e⟩
      injection e with e1 e2
      subst e1; subst e2
      rcases List.mem_cons.1 hx with rfl | hx
      · exact ⟨b, by simp, t, h1, g1⟩
      · rcases ih bs ts' h2 g2 x hx with ⟨y, hy, t', q1, q2⟩
        exact ⟨y, by simp [hy], t', q1, q2⟩

/-! ## deep reads, reachability, separation -/

/-- what a value *is*, independent of where it is stored: the deep read of a cell.  Lists and dictionaries
are read through; objects, methods, types and exceptions are identities (`ref` of their address). -/
inductive Tree (ν : Type) where
  | num (x : ν)
  | str (s : String)
  | bool (b : Bool)
  | null
  | list (items : List (Tree ν))
  | dict (kvs : List (String × Tree ν))
  | ref (a : Addr)

/-- the cells a list / dictionary cell links to (objects do not link: they are shared by design) -/
def Cell.children : Cell ν → List Addr
  | .arr items => items
  | .hm vals _ => vals.map Prod.snd
  | _ => []

/-- the kinds `value.DuplicateValue` copies -/
def Cell.isMutable : Cell ν → Bool
  | .num _ | .str _ | .bool _ | .arr _ | .hm _ _ => true
  | _ => false

/-- invariant of value.HashMap: `keyOrder` lists exactly the keys of the Go map, each once, in the order of
the association list (kept by NewHashMap, AppendKVPair and the removal loop — `hmAppend_wf`, `erase_wf` in HeapMutators.lean, `newHashMapCell_of_nodup`) -/
def dictWF (vals : List (String × Addr)) (order : List String) : Prop :=
  vals.map Prod.fst = order ∧ order.Nodup

instance (vals : List (String × Addr)) (order : List String) : Decidable (dictWF vals order) := by
  unfold dictWF; exact inferInstance

def Cell.wf : Cell ν → Bool
  | .hm vals order => decide (dictWF vals order)
  | _ => true

/-- the tree of a cell, given the trees of its children -/
def Cell.rebuild (a : Addr) : Cell ν → List (Tree ν) → Tree ν
  | .num x, _ => .num x
  | .str s, _ => .str s
  | .bool b, _ => .bool b
  | .null, _ => .null
  | .arr _, ts => .list ts
  | .hm vals _, ts => .dict ((vals.map Prod.fst).zip ts)
  | .obj _ _, _ | .fn _, _ | .cls _ _ _ _, _ | .exc _, _ => .ref a

/-- deep read of the value at `a`, descending at most `n` levels.  `none` when the fuel does not suffice
(in particular on a cyclic value), on a dangling address and on an ill-formed dictionary cell. -/
def content : Nat → Array (Cell ν) → Addr → Option (Tree ν)
  | 0, _, _ => none
  | n+1, h, a =>
    match h[a]? with
    | none => none
    | some c => if c.wf then (c.children.mapM (content n h)).map (c.rebuild a) else none

/-- `i` is reachable from `a` through list / dictionary links (reflexive, transitive) -/
inductive Reach (h : Array (Cell ν)) : Addr → Addr → Prop
  | refl (a : Addr) : Reach h a a
  | step {a : Addr} {c : Cell ν} {x i : Addr} : h[a]? = some c → x ∈ c.children → Reach h x i → Reach h a i

/-- a cell of a kind that is never copied (空, object, method, type, exception) -/
def Shared (h : Array (Cell ν)) (i : Addr) : Prop := ∃ c, h[i]? = some c ∧ c.isMutable = false
/-- a cell of a kind that `DuplicateValue` copies (number, text, boolean, list, dictionary) -/
def Mutable (h : Array (Cell ν)) (i : Addr) : Prop := ∃ c, h[i]? = some c ∧ c.isMutable = true
/-- no dangling link below `a` -/
def Valid (h : Array (Cell ν)) (a : Addr) : Prop := ∀ i, Reach h a i → i < h.size
/-- everything reachable from `b` was allocated at or after `old`, or is of a shared kind -/
def Fresh (old : Nat) (h : Array (Cell ν)) (b : Addr) : Prop := ∀ i, Reach h b i → old ≤ i ∨ Shared h i
/-- `a` and `b` have no copied-kind cell in common -/
def Disj (h : Array (Cell ν)) (a b : Addr) : Prop := ∀ i, Reach h a i → Reach h b i → Shared h i
/-- `h'` is `h` plus newly allocated cells -/
def Ext (h h' : Array (Cell ν)) : Prop := h.size ≤ h'.size ∧ ∀ i, i < h.size → h'[i]? = h[i]?

/-- acyclicity below `a`: a rank on addresses that strictly decreases along every link reachable from `a` -/
def Acyclic (h : Array (Cell ν)) (a : Addr) : Prop :=
  ∃ rk : Addr → Nat, ∀ i c x, Reach h a i → h[i]? = some c → x ∈ c.children → rk x < rk i

/-- every cell reachable from `a` exists and (for dictionaries) satisfies the HashMap invariant -/
def WellFormed (h : Array (Cell ν)) (a : Addr) : Prop :=
  ∀ i, Reach h a i → ∃ c, h[i]? = some c ∧ c.wf = true

theorem not_shared_of_mutable {h : Array (Cell ν)} {i : Addr} (hm : Mutable h i) : ¬ Shared h i := by
  rintro ⟨c, hc, hs⟩; rcases hm with ⟨c', hc', hm⟩
  rw [hc] at hc'; injection hc' with e; subst e; rw [hs] at hm; cases hm

theorem Reach.trans {h : Array (Cell ν)} {a b c : Addr} (h1 : Reach h a b) (h2 : Reach h b c) : Reach h a c := by
  induction h1 with
  | refl => exact h2
  | step hc hx _ ih => exact .step hc hx (ih h2)

theorem Reach.child {h : Array (Cell ν)} {a x : Addr} {c : Cell ν} (hc : h[a]? = some c) (hx : x ∈ c.children) :
    Reach h a x := .step hc hx (.refl x)

theorem Ext.refl (h : Array (Cell ν)) : Ext h h := ⟨Nat.le_refl _, fun _ _ => rfl⟩

theorem Ext.trans {h1 h2 h3 : Array (Cell ν)} (a : Ext h1 h2) (b : Ext h2 h3) : Ext h1 h3 :=
  ⟨Nat.le_trans a.1 b.1, fun i hi => by rw [b.2 i (Nat.lt_of_lt_of_le hi a.1), a.2 i hi]⟩

theorem Ext.push (h : Array (Cell ν)) (c : Cell ν) : Ext h (h.push c) :=
  ⟨by simp, fun i hi => by simp [Array.getElem?_push, Nat.ne_of_lt hi]⟩

theorem lt_size_of_getElem? {h : Array (Cell ν)} {a : Addr} {c : Cell ν} (hc : h[a]? = some c) : a < h.size := by
  rcases Nat.lt_or_ge a h.size with hlt | hge
  · exact hlt
  · rw [Array.getElem?_eq_none hge] at hc; cases hc

theorem Ext.get {h h' : Array (Cell ν)} (e : Ext h h') {a : Addr} {c : Cell ν} (hc : h[a]? = some c) :
    h'[a]? = some c := by rw [e.2 a (lt_size_of_getElem? hc), hc]

theorem content_succ (n : Nat) (h : Array (Cell ν)) (a : Addr) (c : Cell ν) (hc : h[a]? = some c) :
    content (n+1) h a = if c.wf then (c.children.mapM (content n h)).map (c.rebuild a) else none := by
  simp [content, hc]

/-- a defined deep read exposes the cell, its well-formedness and the reads of the children -/
theorem content_some_inv {n : Nat} {h : Array (Cell ν)} {a : Addr} {t : Tree ν} (ht : content n h a = some t) :
    ∃ m c ts, n = m + 1 ∧ h[a]? = some c ∧ c.wf = true ∧ c.children.mapM (content m h) = some ts ∧
      t = c.rebuild a ts := by
  cases n with
  | zero => simp [content] at ht
  | succ m =>
    cases hc : h[a]? with
    | none => simp [content, hc] at ht
    | some c =>
      rw [content_succ m h a c hc] at ht
      by_cases hw : c.wf = true
      · simp only [hw, if_true] at ht
        cases hm : c.children.mapM (content m h) with
        | none => simp [hm] at ht
        | some ts => simp [hm] at ht; exact ⟨m, c, ts, rfl, rfl, hw, hm, ht.symm⟩
      · simp [hw] at ht

theorem content_of_parts {m : Nat} {h : Array (Cell ν)} {a : Addr} {c : Cell ν} {ts : List (Tree ν)}
    (hc : h[a]? = some c) (hw : c.wf = true) (hm : c.children.mapM (content m h) = some ts) :
    content (m+1) h a = some (c.rebuild a ts) := by
  rw [content_succ m h a c hc]; simp [hw, hm]

/-- allocation never changes a defined deep read -/
theorem content_ext {h h' : Array (Cell ν)} (e : Ext h h') :
    ∀ (n : Nat) (a : Addr) (t : Tree ν), content n h a = some t → content n h' a = some t := by
  intro n
  induction n with
  | zero => intro a t ht; simp [content] at ht
  | succ m ih =>
    intro a t ht
    rcases content_some_inv ht with ⟨m', c, ts, hm, hc, hw, hch, rfl⟩
    cases hm
    exact content_of_parts (e.get hc) hw (omapM_mono _ _ _ (fun x _ t' => ih x t') ts hch)

/-- more fuel never changes a defined deep read -/
theorem content_fuel_mono {h : Array (Cell ν)} :
    ∀ (n : Nat) (a : Addr) (t : Tree ν), content n h a = some t → content (n+1) h a = some t := by
  intro n
  induction n with
  | zero => intro a t ht; simp [content] at ht
  | succ m ih =>
    intro a t ht
    rcases content_some_inv ht with ⟨m', c, ts, hm, hc, hw, hch, rfl⟩
    cases hm
    exact content_of_parts hc hw (omapM_mono _ _ _ (fun x _ t' => ih x t') ts hch)

theorem content_fuel_le {h : Array (Cell ν)} {n k : Nat} (hk : n ≤ k) {a : Addr} {t : Tree ν}
    (ht : content n h a = some t) : content k h a = some t := by
  induction hk with
  | refl => exact ht
  | step _ ih => exact content_fuel_mono _ a t ih

/-- a defined deep read implies that every reachable cell exists -/
theorem content_valid : ∀ (n : Nat) {h : Array (Cell ν)} {a : Addr} {t : Tree ν}, content n h a = some t → Valid h a := by
  intro n
  induction n with
  | zero => intro h a t ht; simp [content] at ht
  | succ m ih =>
    intro h a t ht i hr
    rcases content_some_inv ht with ⟨m', c, ts, hm, hc, hw, hch, rfl⟩
    cases hm
    cases hr with
    | refl => exact lt_size_of_getElem? hc
    | step hc' hx hr' =>
      rw [hc] at hc'; injection hc' with e; subst e
      rcases omapM_mem _ _ ts hch _ hx with ⟨t', ht', _⟩
      exact ih ht' i hr'

/-- the deep read of every reachable cell is defined too (with the same fuel) -/
theorem content_reach : ∀ (n : Nat) {h : Array (Cell ν)} {a i : Addr} {t : Tree ν}, content n h a = some t → Reach h a i →
    ∃ t', content n h i = some t' := by
  intro n
  induction n with
  | zero => intro h a i t ht; simp [content] at ht
  | succ m ih =>
    intro h a i t ht hr
    rcases content_some_inv ht with ⟨m', c, ts, hm, hc, hw, hch, rfl⟩
    cases hm
    cases hr with
    | refl => exact ⟨_, ht⟩
    | step hc' hx hr' =>
      rw [hc] at hc'; injection hc' with e; subst e
      rcases omapM_mem _ _ ts hch _ hx with ⟨t', ht', _⟩
      rcases ih ht' hr' with ⟨t'', h''⟩
      exact ⟨t'', content_fuel_mono _ _ _ h''⟩

theorem content_wellFormed {n : Nat} {h : Array (Cell ν)} {a : Addr} {t : Tree ν} (ht : content n h a = some t) :
    WellFormed h a := by
  intro i hr
  rcases content_reach n ht hr with ⟨t', ht'⟩
  rcases content_some_inv ht' with ⟨_, c, _, _, hc, hw, _, _⟩
  exact ⟨c, hc, hw⟩

theorem Valid.of_reach {h : Array (Cell ν)} {a x : Addr} (v : Valid h a) (hr : Reach h a x) : Valid h x :=
  fun i hi => v i (hr.trans hi)

/-- below a valid address, allocation changes nothing about reachability -/
theorem reach_ext {h h' : Array (Cell ν)} (e : Ext h h') {a : Addr} (v : Valid h a) {i : Addr} :
    Reach h' a i ↔ Reach h a i := by
  constructor
  · intro hr
    induction hr with
    | refl => exact .refl _
    | @step a0 c x i0 hc hx _ ih =>
      have hlt : a0 < h.size := v a0 (.refl _)
      have hc0 : h[a0]? = some c := by rw [← e.2 a0 hlt]; exact hc
      exact .step hc0 hx (ih (v.of_reach (Reach.child hc0 hx)))
  · intro hr
    induction hr with
    | refl => exact .refl _
    | step hc hx _ ih => exact .step (e.get hc) hx (ih (v.of_reach (Reach.child hc hx)))

theorem Valid.ext {h h' : Array (Cell ν)} (e : Ext h h') {a : Addr} (v : Valid h a) : Valid h' a :=
  fun i hi => Nat.lt_of_lt_of_le (v i ((reach_ext e v).1 hi)) e.1

theorem Shared.ext {h h' : Array (Cell ν)} (e : Ext h h') {i : Addr} (s : Shared h i) : Shared h' i := by
  rcases s with ⟨c, hc, hs⟩; exact ⟨c, e.get hc, hs⟩

theorem Fresh.ext {h h' : Array (Cell ν)} (e : Ext h h') {old : Nat} {b : Addr} (v : Valid h b) (f : Fresh old h b) :
    Fresh old h' b := by
  intro i hi
  rcases f i ((reach_ext e v).1 hi) with h1 | h1
  · exact .inl h1
  · exact .inr (h1.ext e)

theorem Fresh.mono {h : Array (Cell ν)} {old old' : Nat} (hle : old' ≤ old) {b : Addr} (f : Fresh old h b) : Fresh old' h b :=
  fun i hi => (f i hi).imp (Nat.le_trans hle) id

/-! ## association lists and the HashMap invariant -/

theorem lookup_none_of_not_mem {β} (k : String) : ∀ (l : List (String × β)), k ∉ l.map Prod.fst → lookup k l = none := by
  intro l
  induction l with
  | nil => intro _; rfl
  | cons p ps ih =>
    intro hk
    rcases p with ⟨k', v'⟩
    simp at hk
    simp [lookup, hk.1, ih (by simpa using hk.2)]

theorem lookup_of_mem_nodup {β} : ∀ (l : List (String × β)), (l.map Prod.fst).Nodup → ∀ k v, (k, v) ∈ l → lookup k l = some v := by
  intro l
  induction l with
  | nil => intro _ k v h; simp at h
  | cons p ps ih =>
    intro hnd k v hm
    rcases p with ⟨k', v'⟩
    simp at hnd
    rcases List.mem_cons.1 hm with e | hm'
    · injection e with e1 e2; subst e1; subst e2; simp [lookup]
    · have : k ≠ k' := by
        rintro rfl
        exact hnd.1 v hm'
      simp [lookup, this, ih hnd.2 k v hm']

theorem newHashMapCell_of_nodup (kvs : List (String × Addr)) (hnd : (kvs.map Prod.fst).Nodup) :
    (newHashMapCell kvs : Cell ν) = .hm kvs (kvs.map Prod.fst) := by
  have key : ∀ (step : List (String × Addr) × List String → String × Addr → List (String × Addr) × List String),
      (∀ acc kv, lookup kv.1 acc.1 = none → step acc kv = (acc.1 ++ [kv], acc.2 ++ [kv.1])) →
      ∀ (l pre : List (String × Addr)), ((pre ++ l).map Prod.fst).Nodup →
      l.foldl step (pre, pre.map Prod.fst) = (pre ++ l, (pre ++ l).map Prod.fst) := by
    intro step hstep l
    induction l with
    | nil => intro pre _; simp
    | cons p ps ih =>
      intro pre hnd
      have hnot : p.1 ∉ pre.map Prod.fst := by
        intro hmem
        simp only [List.map_append, List.map_cons] at hnd
        rw [List.nodup_append] at hnd
        exact hnd.2.2 _ hmem _ (by simp) rfl
      rw [List.foldl_cons, hstep _ _ (lookup_none_of_not_mem _ _ hnot)]
      have := ih (pre ++ [p]) (by simpa using hnd)
      simpa using this
  simp only [newHashMapCell]
  rw [show (([], []) : List (String × Addr) × List String) = ([], ([] : List (String × Addr)).map Prod.fst) from rfl]
  rw [key _ (by intro acc kv h; simp [h]) kvs [] (by simpa using hnd)]
  simp

theorem zip_map_fst {α β} : ∀ (l : List α) (l' : List β), l'.length = l.length → (l.zip l').map Prod.fst = l := by
  intro l l' h; rw [List.map_fst_zip]; omega

theorem zip_map_snd {α β} : ∀ (l : List α) (l' : List β), l'.length = l.length → (l.zip l').map Prod.snd = l' := by
  intro l l' h; rw [List.map_snd_zip]; omega

/-- `order.mapM (look the key up, run F on the value, pair it with the key)` — the loop shape of DuplicateValue and
String() on dictionaries — is `F` mapped over the values, in order, when the HashMap invariant holds -/
theorem hm_mapM_ok (F : Addr → M ν Addr) (full : List (String × Addr)) :
    ∀ (vals : List (String × Addr)) (s s' : VM ν) (vs : List Addr),
      (∀ k v, (k, v) ∈ vals → lookup k full = some v) →
      List.mapM F (vals.map Prod.snd) s = (.ok vs, s') →
      List.mapM (m := M ν) (fun k => do
        match lookup k full with
        | some v => do let v' ← F v; pure (k, v')
        | none => goPanic) (vals.map Prod.fst) s = (Res.ok ((vals.map Prod.fst).zip vs), s') := by
  intro vals
  induction vals with
  | nil => intro s s' vs _ h; simp [pure] at h ⊢; exact h.2
  | cons p ps ih =>
    intro s s' vs hl h
    rcases mapM_cons_inv F _ _ _ _ _ h with ⟨b, bs, s1, h1, h2, rfl⟩
    have hp : lookup p.1 full = some p.2 := hl p.1 p.2 (by simp)
    refine mapM_cons_ok _ _ _ _ s1 _ _ _ ?_ (ih s1 s' bs (fun k v hm => hl k v (by simp [hm])) h2)
    simp [hp, bind, h1, pure]

/-! ## `dup` (value.DuplicateValue) -/

/-- nothing but the heap differs -/
def SameBut (s s' : VM ν) : Prop := s' = { s with heap := s'.heap }

theorem SameBut.refl (s : VM ν) : SameBut s s := rfl

theorem SameBut.trans {s1 s2 s3 : VM ν} (a : SameBut s1 s2) (b : SameBut s2 s3) : SameBut s1 s3 := by
  unfold SameBut at *
  rw [b, a]

theorem SameBut.push (s : VM ν) (c : Cell ν) : SameBut s { s with heap := s.heap.push c } := rfl

theorem reach_leaf {h : Array (Cell ν)} {b i : Addr} {c : Cell ν} (hc : h[b]? = some c) (hl : c.children = [])
    (hr : Reach h b i) : i = b := by
  cases hr with
  | refl => rfl
  | step hc' hx _ =>
    rw [hc] at hc'; injection hc' with e; subst e; rw [hl] at hx; cases hx

/-- what `dup n a` establishes when it answers `b` in state `s'`, started in `s` where `a` reads as `t` -/
structure DupPost (n : Nat) (s : VM ν) (t : Tree ν) (b : Addr) (s' : VM ν) : Prop where
  same : SameBut s s'
  ext : Ext s.heap s'.heap
  cont : content n s'.heap b = some t
  valid : Valid s'.heap b
  fresh : Fresh s.heap.size s'.heap b

def DupSpec (ν : Type) [NumOps ν] (n : Nat) : Prop :=
  ∀ (a : Addr) (s : VM ν) (t : Tree ν), content n s.heap a = some t →
    ∃ b s', dup n a s = (.ok b, s') ∧ DupPost n s t b s'

/-- the list loop of `dup`, given the specification one level down -/
theorem dup_list (n : Nat) (IH : DupSpec ν n) :
    ∀ (l : List Addr) (s : VM ν) (ts : List (Tree ν)), l.mapM (content n s.heap) = some ts →
      ∃ vs s', l.mapM (dup n) s = (.ok vs, s') ∧ SameBut s s' ∧ Ext s.heap s'.heap ∧
        vs.mapM (content n s'.heap) = some ts ∧ ∀ v ∈ vs, Valid s'.heap v ∧ Fresh s.heap.size s'.heap v := by
  intro l
  induction l with
  | nil =>
    intro s ts h
    refine ⟨[], s, by simp [pure], SameBut.refl s, Ext.refl _, ?_, by simp⟩
    simpa using h
  | cons x xs ih =>
    intro s ts h
    rcases (omapM_cons _ x xs ts).1 h with ⟨t, ts', h1, h2, rfl⟩
    rcases IH x s t h1 with ⟨b, s1, hd, hp⟩
    have h2' : xs.mapM (content n s1.heap) = some ts' :=
      omapM_mono _ _ _ (fun y _ t' => content_ext hp.ext n y t') ts' h2
    rcases ih s1 ts' h2' with ⟨vs, s2, hm, hsame, hext, hcont, hall⟩
    refine ⟨b :: vs, s2, mapM_cons_ok _ _ _ _ _ _ _ _ hd hm, hp.same.trans hsame, hp.ext.trans hext, ?_, ?_⟩
    · exact (omapM_cons _ b vs _).2 ⟨t, ts', content_ext hext n b t hp.cont, hcont, rfl⟩
    · intro v hv
      rcases List.mem_cons.1 hv with rfl | hv
      · exact ⟨hp.valid.ext hext, hp.fresh.ext hext hp.valid⟩
      · exact ⟨(hall v hv).1, (hall v hv).2.mono hp.ext.1⟩

/-- allocating the copied container over copied children -/
theorem alloc_container_post (n : Nat) (s s1 : VM ν) (vs : List Addr) (ts : List (Tree ν)) (c' : Cell ν) (t : Tree ν)
    (hsame : SameBut s s1) (hext : Ext s.heap s1.heap)
    (hcont : vs.mapM (content n s1.heap) = some ts)
    (hall : ∀ v ∈ vs, Valid s1.heap v ∧ Fresh s.heap.size s1.heap v)
    (hch : c'.children = vs) (hw : c'.wf = true) (ht : c'.rebuild s1.heap.size ts = t) :
    DupPost (n+1) s t s1.heap.size { s1 with heap := s1.heap.push c' } := by
  have e1 : Ext s1.heap (s1.heap.push c') := Ext.push _ _
  have hb : (s1.heap.push c')[s1.heap.size]? = some c' := by simp
  refine ⟨hsame.trans (SameBut.push _ _), hext.trans e1, ?_, ?_, ?_⟩
  · show content (n+1) (s1.heap.push c') s1.heap.size = some t
    rw [← ht]
    refine content_of_parts hb hw ?_
    rw [hch]
    exact omapM_mono _ _ _ (fun y _ t' => content_ext e1 n y t') ts hcont
  · intro i hr
    show i < (s1.heap.push c').size
    cases hr with
    | refl => simp
    | step hc' hx hr' =>
      rw [hb] at hc'; injection hc' with e; subst e; rw [hch] at hx
      exact (hall _ hx).1.ext e1 i hr'
  · intro i hr
    show s.heap.size ≤ i ∨ Shared (s1.heap.push c') i
    cases hr with
    | refl => exact .inl hext.1
    | step hc' hx hr' =>
      rw [hb] at hc'; injection hc' with e; subst e; rw [hch] at hx
      exact (hall _ hx).2.ext e1 (hall _ hx).1 i hr'

theorem alloc_leaf_post (n : Nat) (s : VM ν) (c : Cell ν) (a : Addr) (hl : c.children = []) (hw : c.wf = true)
    (hr : ∀ a b ts, c.rebuild a ts = c.rebuild b []) :
    DupPost (n+1) s (c.rebuild a []) s.heap.size { s with heap := s.heap.push c } := by
  refine alloc_container_post n s s [] [] c _ (SameBut.refl s) (Ext.refl _) (by simp) (by simp) hl hw (hr _ _ _)

theorem dup_spec : ∀ n, DupSpec ν n := by
  intro n
  induction n with
  | zero => intro a s t ht; simp [content] at ht
  | succ n ih =>
    intro a s t ht
    rcases content_some_inv ht with ⟨m, c, ts, hm, hc, hw, hch, rfl⟩
    cases hm
    have hshared : c.isMutable = false → c.children = [] →
        dup (n+1) a s = (.ok a, s) → ∃ b s', dup (n+1) a s = (.ok b, s') ∧ DupPost (n+1) s (c.rebuild a ts) b s' := by
      intro hnm hl hd
      refine ⟨a, s, hd, SameBut.refl s, Ext.refl _, ht, content_valid _ ht, ?_⟩
      intro i hr
      rw [reach_leaf hc hl hr]
      exact .inr ⟨c, hc, hnm⟩
    cases c with
    | num x =>
      refine ⟨s.heap.size, { s with heap := s.heap.push (.num x) }, by simp [dup, bind, getCell, hc, newNum, alloc], ?_⟩
      exact alloc_leaf_post n s (.num x) a rfl rfl (fun _ _ _ => rfl)
    | str x =>
      refine ⟨s.heap.size, { s with heap := s.heap.push (.str x) }, by simp [dup, bind, getCell, hc, newStr, alloc], ?_⟩
      exact alloc_leaf_post n s (.str x) a rfl rfl (fun _ _ _ => rfl)
    | bool x =>
      refine ⟨s.heap.size, { s with heap := s.heap.push (.bool x) }, by simp [dup, bind, getCell, hc, newBool, alloc], ?_⟩
      exact alloc_leaf_post n s (.bool x) a rfl rfl (fun _ _ _ => rfl)
    | null => exact hshared rfl rfl (by simp [dup, bind, getCell, hc, pure])
    | obj k p => exact hshared rfl rfl (by simp [dup, bind, getCell, hc, pure])
    | fn f => exact hshared rfl rfl (by simp [dup, bind, getCell, hc, pure])
    | cls nm ct p ms => exact hshared rfl rfl (by simp [dup, bind, getCell, hc, pure])
    | exc m => exact hshared rfl rfl (by simp [dup, bind, getCell, hc, pure])
    | arr items =>
      rcases dup_list n ih items s ts hch with ⟨vs, s1, hmap, hsame, hext, hcont, hall⟩
      refine ⟨s1.heap.size, { s1 with heap := s1.heap.push (.arr vs) }, ?_, ?_⟩
      · simp [dup, bind, getCell, hc, hmap, alloc]
      · exact alloc_container_post n s s1 vs ts (.arr vs) _ hsame hext hcont hall rfl rfl rfl
    | hm vals order =>
      have hwf : dictWF vals order := by simpa [Cell.wf] using hw
      rcases hwf with ⟨hord, hnd⟩
      subst hord
      rcases dup_list n ih (vals.map Prod.snd) s ts hch with ⟨vs, s1, hmap, hsame, hext, hcont, hall⟩
      have hlen : vs.length = (vals.map Prod.fst).length := by
        rw [← omapM_length _ _ _ hcont, omapM_length _ _ _ hch]; simp [Cell.children]
      have hkv := hm_mapM_ok (dup n) vals vals s s1 vs (lookup_of_mem_nodup vals hnd) hmap
      have hfst : ((vals.map Prod.fst).zip vs).map Prod.fst = vals.map Prod.fst := zip_map_fst _ _ hlen
      have hcell : (newHashMapCell ((vals.map Prod.fst).zip vs) : Cell ν) = .hm ((vals.map Prod.fst).zip vs) (vals.map Prod.fst) := by
        rw [newHashMapCell_of_nodup _ (by rw [hfst]; exact hnd), hfst]
      refine ⟨s1.heap.size, { s1 with heap := s1.heap.push (.hm ((vals.map Prod.fst).zip vs) (vals.map Prod.fst)) }, ?_, ?_⟩
      · simp only [dup, bind, getCell, hc]
        simp only [bind] at hkv
        erw [hkv]
        simp [alloc, hcell]
      · refine alloc_container_post n s s1 vs ts _ _ hsame hext hcont hall (zip_map_snd _ _ hlen) ?_ ?_
        · simp [Cell.wf, dictWF, hfst, hnd]
        · simp [Cell.rebuild, hfst]

/-- `dup` on a readable value: it succeeds, and its answer is a separate deep copy -/
theorem dup_post {n : Nat} {a b : Addr} {s s' : VM ν} {t : Tree ν} (ht : content n s.heap a = some t)
    (hd : dup n a s = (.ok b, s')) : DupPost n s t b s' := by
  rcases dup_spec n a s t ht with ⟨b0, s0, hd0, hp⟩
  rw [hd] at hd0
  injection hd0 with e1 e2
  injection e1 with e1
  subst e1; subst e2
  exact hp

/-! ## writes: the frame lemma -/

theorem get_set_ne (h : Array (Cell ν)) (i j : Addr) (c : Cell ν) (hne : i ≠ j) : (h.set! i c)[j]? = h[j]? := by
  simp [hne]

theorem get_set_eq (h : Array (Cell ν)) (i : Addr) (c : Cell ν) (hlt : i < h.size) : (h.set! i c)[i]? = some c := by
  simp [hlt]

theorem get_set_self_inv (h : Array (Cell ν)) (i : Addr) (c c' : Cell ν) (hc : (h.set! i c)[i]? = some c') : c' = c := by
  have hlt : i < h.size := by
    have := lt_size_of_getElem? hc
    simpa using this
  rw [get_set_eq h i c hlt] at hc
  injection hc with e; exact e.symm

/-- writing a cell that is not reachable from `a` does not change what is reachable from `a` -/
theorem reach_set_of_not_reach {h : Array (Cell ν)} {a i : Addr} (c : Cell ν) (hn : ¬ Reach h a i) {j : Addr} :
    Reach (h.set! i c) a j ↔ Reach h a j := by
  constructor
  · intro hr
    induction hr with
    | refl => exact .refl _
    | @step a0 c0 x j0 hc hx _ ih =>
      have hne : i ≠ a0 := by rintro rfl; exact hn (.refl _)
      rw [get_set_ne h i a0 c hne] at hc
      exact .step hc hx (ih (fun hr => hn (.step hc hx hr)))
  · intro hr
    induction hr with
    | refl => exact .refl _
    | @step a0 c0 x j0 hc hx _ ih =>
      have hne : i ≠ a0 := by rintro rfl; exact hn (.refl _)
      refine .step (by rw [get_set_ne h i a0 c hne]; exact hc) hx (ih (fun hr => hn (.step hc hx hr)))

/-- **frame lemma**: writing a cell that is not reachable from `a` does not change the deep read of `a` -/
theorem frame_lemma (c : Cell ν) (i : Addr) :
    ∀ (n : Nat) (h : Array (Cell ν)) (a : Addr), ¬ Reach h a i → content n (h.set! i c) a = content n h a := by
  intro n
  induction n with
  | zero => intro h a _; rfl
  | succ m ih =>
    intro h a hn
    have hne : i ≠ a := by rintro rfl; exact hn (.refl _)
    simp only [content]
    rw [get_set_ne h i a c hne]
    cases hc : h[a]? with
    | none => rfl
    | some c0 =>
      simp only
      rw [omapM_congr (content m (h.set! i c)) (content m h) c0.children
        (fun x hx => ih h x (fun hr => hn (.step hc hx hr)))]

/-- after a write to `i`, what is reachable from `b` was reachable before, or is reachable from a child of the written cell -/
theorem reach_after_write {h : Array (Cell ν)} {b i j : Addr} (c : Cell ν) (hr : Reach (h.set! i c) b j) :
    Reach h b j ∨ ∃ x ∈ c.children, Reach h x j := by
  induction hr with
  | refl => exact .inl (.refl _)
  | @step a0 c0 x j0 hc hx _ ih =>
    by_cases hne : i = a0
    · subst hne
      have := get_set_self_inv h i c c0 hc
      subst this
      rcases ih with h1 | h1
      · exact .inr ⟨x, hx, h1⟩
      · exact .inr h1
    · rw [get_set_ne h i a0 c hne] at hc
      rcases ih with h1 | h1
      · exact .inl (.step hc hx h1)
      · exact .inr h1

/-! ## any sequence of mutations through one side -/

/-- the separation invariant between two values -/
structure Sep (h : Array (Cell ν)) (a b : Addr) : Prop where
  va : Valid h a
  vb : Valid h b
  disj : Disj h a b

theorem Disj.symm {h : Array (Cell ν)} {a b : Addr} (d : Disj h a b) : Disj h b a := fun i h1 h2 => d i h2 h1
theorem Sep.symm {h : Array (Cell ν)} {a b : Addr} (s : Sep h a b) : Sep h b a := ⟨s.vb, s.va, s.disj.symm⟩

/-- a history of heap changes made *through* `b` while `a` is another holder:
allocations, and writes into copied-kind cells reachable (at that time) from `b` which store links to cells that are
themselves separated from `a` (e.g. reachable from `b`, or freshly duplicated — `sep_child_of_reach`, `sep_child_of_fresh`). -/
inductive MutSeq (a b : Addr) : Array (Cell ν) → Array (Cell ν) → Prop
  | done (h : Array (Cell ν)) : MutSeq a b h h
  | grow {h h1 h' : Array (Cell ν)} : Ext h h1 → MutSeq a b h1 h' → MutSeq a b h h'
  | write {h h' : Array (Cell ν)} {i : Addr} {c : Cell ν} :
      Reach h b i → Mutable h i → (∀ x ∈ c.children, Valid h x ∧ Disj h a x) →
      MutSeq a b (h.set! i c) h' → MutSeq a b h h'

theorem Sep.grow {h h1 : Array (Cell ν)} {a b : Addr} (sp : Sep h a b) (e : Ext h h1) : Sep h1 a b :=
  ⟨sp.va.ext e, sp.vb.ext e, fun i h1 h2 =>
    (sp.disj i ((reach_ext e sp.va).1 h1) ((reach_ext e sp.vb).1 h2)).ext e⟩

theorem Sep.not_reach {h : Array (Cell ν)} {a b i : Addr} (sp : Sep h a b) (hr : Reach h b i) (hm : Mutable h i) :
    ¬ Reach h a i := fun ha => not_shared_of_mutable hm (sp.disj i ha hr)

theorem Sep.write {h : Array (Cell ν)} {a b i : Addr} {c : Cell ν} (sp : Sep h a b)
    (hr : Reach h b i) (hm : Mutable h i) (hch : ∀ x ∈ c.children, Valid h x ∧ Disj h a x) :
    Sep (h.set! i c) a b := by
  have hn := sp.not_reach hr hm
  refine ⟨?_, ?_, ?_⟩
  · intro j hj
    have := sp.va j ((reach_set_of_not_reach c hn).1 hj)
    simpa using this
  · intro j hj
    have : j < h.size := by
      rcases reach_after_write c hj with h1 | ⟨x, hx, h1⟩
      · exact sp.vb j h1
      · exact (hch x hx).1 j h1
    simpa using this
  · intro j ha hb
    have ha' := (reach_set_of_not_reach c hn).1 ha
    have hne : i ≠ j := by rintro rfl; exact hn ha'
    have hs : Shared h j := by
      rcases reach_after_write c hb with h1 | ⟨x, hx, h1⟩
      · exact sp.disj j ha' h1
      · exact (hch x hx).2 j ha' h1
    rcases hs with ⟨c0, hc0, hs⟩
    exact ⟨c0, by rw [get_set_ne h i j c hne]; exact hc0, hs⟩

/-- **independence**: no history of mutations through `b` changes the deep read of a separated `a`,
and separation is kept (so the same holds for whatever is done next) -/
theorem mutSeq_preserves {a b : Addr} {h h' : Array (Cell ν)} (ms : MutSeq a b h h') :
    ∀ (n : Nat) (t : Tree ν), Sep h a b → content n h a = some t → content n h' a = some t ∧ Sep h' a b := by
  induction ms with
  | done h => intro n t sp ht; exact ⟨ht, sp⟩
  | grow e _ ih => intro n t sp ht; exact ih n t (sp.grow e) (content_ext e n _ t ht)
  | @write h h' i c hr hm hch _ ih =>
    intro n t sp ht
    refine ih n t (sp.write hr hm hch) ?_
    rw [frame_lemma c i n h a (sp.not_reach hr hm)]; exact ht

/-- links that may be stored by a write through `b`: anything already below `b` … -/
theorem sep_child_of_reach {h : Array (Cell ν)} {a b x : Addr} (sp : Sep h a b) (hr : Reach h b x) :
    Valid h x ∧ Disj h a x :=
  ⟨sp.vb.of_reach hr, fun i h1 h2 => sp.disj i h1 (hr.trans h2)⟩

/-- … and anything freshly allocated after `a` was complete (a `dup`, a literal, a computed number) -/
theorem sep_child_of_fresh {h0 h : Array (Cell ν)} {a x : Addr} (e : Ext h0 h) (va : Valid h0 a) (vx : Valid h x)
    (fx : Fresh h0.size h x) : Valid h x ∧ Disj h a x := by
  refine ⟨vx, fun i h1 h2 => ?_⟩
  have hlt : i < h0.size := va i ((reach_ext e va).1 h1)
  rcases fx i h2 with h3 | h3
  · exact absurd hlt (Nat.not_lt.2 h3)
  · exact h3

/-- right after `b := dup a` the two values are separated -/
theorem sep_after_dup {n : Nat} {a b : Addr} {s s' : VM ν} {t : Tree ν} (ht : content n s.heap a = some t)
    (hd : dup n a s = (.ok b, s')) : Sep s'.heap a b := by
  have hp := dup_post ht hd
  have va := content_valid n ht
  exact ⟨va.ext hp.ext, hp.valid, (sep_child_of_fresh hp.ext va hp.valid hp.fresh).2⟩

/-! ## objects are identities: equal deep reads reach the very same object cells -/

/-- an object, method, type or exception cell -/
def IsRef (h : Array (Cell ν)) (o : Addr) : Prop := ∃ c, h[o]? = some c ∧ c.isMutable = false ∧ c ≠ .null

theorem rebuild_ref_inv {a b : Addr} {c c' : Cell ν} {ts ts' : List (Tree ν)} (hm : c.isMutable = false) (hn : c ≠ .null)
    (he : c.rebuild a ts = c'.rebuild b ts') : b = a := by
  cases c <;> simp [Cell.isMutable] at hm hn <;> cases c' <;> simp [Cell.rebuild] at he <;> exact he.symm

theorem rebuild_children_inv {a b : Addr} {c c' : Cell ν} {ts ts' : List (Tree ν)}
    (hl : ts.length = c.children.length) (hl' : ts'.length = c'.children.length) (hne : c.children ≠ [])
    (he : c.rebuild a ts = c'.rebuild b ts') : ts = ts' := by
  cases c <;> simp [Cell.children] at hne hl <;> cases c' <;> simp [Cell.rebuild, Cell.children] at he hl' <;> try exact he
  rename_i vals order vals' order'
  have h1 := congrArg (List.map Prod.snd) he
  rwa [zip_map_snd _ _ (by simpa using hl), zip_map_snd _ _ (by simpa using hl')] at h1

/-- two addresses (in possibly different heaps) with the same deep read lead to the same object cells -/
theorem content_eq_reach_ref : ∀ (n : Nat) (h h' : Array (Cell ν)) (a b : Addr) (t : Tree ν),
    content n h a = some t → content n h' b = some t → ∀ o, IsRef h o → Reach h a o → Reach h' b o := by
  intro n
  induction n with
  | zero => intro h h' a b t ht; simp [content] at ht
  | succ m ih =>
    intro h h' a b t ht ht' o ho hr
    rcases content_some_inv ht with ⟨_, c, ts, hm, hc, hw, hch, e1⟩
    cases hm
    rcases content_some_inv ht' with ⟨_, c', ts', hm, hc', hw', hch', e2⟩
    cases hm
    have he : c.rebuild a ts = c'.rebuild b ts' := e1.symm.trans e2
    cases hr with
    | refl =>
      rcases ho with ⟨c0, hc0, hmu, hnn⟩
      rw [hc] at hc0; injection hc0 with e; subst e
      rw [rebuild_ref_inv hmu hnn he]; exact .refl _
    | @step _ c0 x _ hc0 hx hr' =>
      rw [hc] at hc0; injection hc0 with e; subst e
      have hts : ts = ts' := rebuild_children_inv (omapM_length _ _ _ hch) (omapM_length _ _ _ hch')
        (by intro hnil; rw [hnil] at hx; cases hx) he
      subst hts
      rcases omapM_pair _ _ _ _ ts hch hch' x hx with ⟨y, hy, t', q1, q2⟩
      exact .step hc' hy (ih h h' x y t' q1 q2 o ho hr')

/-- object, method, type, exception: the kinds whose deep read is their own address -/
def Cell.isRefKind : Cell ν → Bool
  | .obj _ _ | .fn _ | .cls _ _ _ _ | .exc _ => true
  | _ => false

/-- rewriting an object (method, type, exception) cell in place — a property write, a constructor definition — changes
no deep read: lists and dictionaries hold the object's identity, not its state -/
theorem content_set_ref (o : Addr) (c0 c : Cell ν) (h0 : c0.isRefKind = true) (h1 : c.isRefKind = true) :
    ∀ (n : Nat) (h : Array (Cell ν)) (a : Addr), h[o]? = some c0 → content n (h.set! o c) a = content n h a := by
  intro n
  induction n with
  | zero => intro h a _; rfl
  | succ m ih =>
    intro h a hc
    by_cases hao : o = a
    · subst hao
      simp only [content]
      rw [get_set_eq h o c (lt_size_of_getElem? hc), hc]
      cases c0 <;> simp [Cell.isRefKind] at h0 <;> cases c <;> simp [Cell.isRefKind] at h1 <;>
        simp [Cell.wf, Cell.children, Cell.rebuild]
    · simp only [content]
      rw [get_set_ne h o a c hao]
      cases hc' : h[a]? with
      | none => rfl
      | some c1 =>
        simp only
        rw [omapM_congr (content m (h.set! o c)) (content m h) c1.children (fun x _ => ih h x hc)]

/-! ## `content` is defined exactly on well-formed acyclic values -/

theorem omapM_total {α β} (f : α → Option β) : ∀ (l : List α), (∀ x ∈ l, ∃ t, f x = some t) → ∃ ts, List.mapM f l = some ts := by
  intro l
  induction l with
  | nil => intro _; exact ⟨[], by simp⟩
  | cons x xs ih =>
    intro hall
    rcases hall x (by simp) with ⟨t, ht⟩
    rcases ih (fun y hy => hall y (by simp [hy])) with ⟨ts, hts⟩
    exact ⟨t :: ts, (omapM_cons f x xs _).2 ⟨t, ts, ht, hts, rfl⟩⟩

/-- a rank that decreases along links bounds the fuel that `content` (and `dup`) needs -/
theorem content_of_acyclic {h : Array (Cell ν)} {a : Addr} (rk : Addr → Nat)
    (hacy : ∀ i c x, Reach h a i → h[i]? = some c → x ∈ c.children → rk x < rk i) (hwf : WellFormed h a) :
    ∀ (m : Nat) (i : Addr), Reach h a i → rk i < m → ∃ t, content m h i = some t := by
  intro m
  induction m with
  | zero => intro i _ hlt; cases hlt
  | succ m ih =>
    intro i hr hlt
    rcases hwf i hr with ⟨c, hc, hw⟩
    rcases omapM_total (content m h) c.children (fun x hx =>
      ih x (hr.trans (Reach.child hc hx)) (Nat.lt_of_lt_of_le (hacy i c x hr hc hx) (Nat.le_of_lt_succ hlt))) with ⟨ts, hts⟩
    exact ⟨_, content_of_parts hc hw hts⟩

def leastTrue (p : Nat → Bool) : Nat → Nat → Nat
  | 0, m => m
  | k+1, m => if p m then m else leastTrue p k (m+1)

theorem leastTrue_spec (p : Nat → Bool) : ∀ (k m M : Nat), m ≤ M → M ≤ m + k → p M = true →
    p (leastTrue p k m) = true ∧ ∀ j, m ≤ j → j < leastTrue p k m → p j = false := by
  intro k
  induction k with
  | zero =>
    intro m M h1 h2 hp
    have : M = m := by omega
    subst this
    exact ⟨hp, fun j h3 h4 => by simp [leastTrue] at h4; omega⟩
  | succ k ih =>
    intro m M h1 h2 hp
    by_cases hm : p m = true
    · rw [leastTrue, if_pos hm]
      exact ⟨hm, fun j h3 h4 => by omega⟩
    · rw [leastTrue, if_neg hm]
      have hne : M ≠ m := by rintro rfl; exact hm hp
      rcases ih (m+1) M (by omega) (by omega) hp with ⟨q1, q2⟩
      refine ⟨q1, fun j h3 h4 => ?_⟩
      by_cases hj : j = m
      · subst hj; simpa using hm
      · exact q2 j (by omega) h4

/-- conversely a defined deep read yields a rank: the least fuel at which each cell is readable -/
theorem acyclic_of_content {n : Nat} {h : Array (Cell ν)} {a : Addr} {t : Tree ν} (ht : content n h a = some t) :
    Acyclic h a := by
  refine ⟨fun i => leastTrue (fun m => (content m h i).isSome) n 0, ?_⟩
  intro i c x hr hc hx
  show leastTrue (fun m => (content m h x).isSome) n 0 < leastTrue (fun m => (content m h i).isSome) n 0
  rcases content_reach n ht hr with ⟨ti, hti⟩
  rcases content_reach n ht (hr.trans (Reach.child hc hx)) with ⟨tx, htx⟩
  rcases leastTrue_spec (fun m => (content m h i).isSome) n 0 n (Nat.zero_le _) (by omega) (by simp [hti]) with ⟨p1, _⟩
  rcases leastTrue_spec (fun m => (content m h x).isSome) n 0 n (Nat.zero_le _) (by omega) (by simp [htx]) with ⟨_, p2⟩
  generalize leastTrue (fun m => (content m h i).isSome) n 0 = ri at p1 ⊢
  generalize leastTrue (fun m => (content m h x).isSome) n 0 = rx at p2 ⊢
  cases hti' : content ri h i with
  | none => simp [hti'] at p1
  | some t' =>
    rcases content_some_inv hti' with ⟨m, c', ts, hm, hc', _, hch, _⟩
    rw [hc] at hc'; injection hc' with e; subst e
    rcases omapM_mem _ _ ts hch x hx with ⟨t'', h'', _⟩
    rcases Nat.lt_or_ge rx ri with hlt | hge
    · exact hlt
    · have := p2 m (Nat.zero_le _) (by omega)
      simp [h''] at this

/-- `content` is defined (for some fuel) exactly on the well-formed acyclic values -/
theorem content_defined_iff (h : Array (Cell ν)) (a : Addr) :
    (∃ n t, content n h a = some t) ↔ Acyclic h a ∧ WellFormed h a := by
  constructor
  · rintro ⟨n, t, ht⟩; exact ⟨acyclic_of_content ht, content_wellFormed ht⟩
  · rintro ⟨⟨rk, hacy⟩, hwf⟩
    rcases content_of_acyclic rk hacy hwf (rk a + 1) a (.refl _) (Nat.lt_succ_self _) with ⟨t, ht⟩
    exact ⟨_, t, ht⟩

/-! ## stores that keep every value readable (acyclic and well formed) -/

/-- the deep read of `a` is defined for some fuel: everything below `a` exists, is well formed and acyclic
(`content_defined_iff`) — exactly the values on which `dup`, `display` and comparison terminate -/
def Readable (h : Array (Cell ν)) (a : Addr) : Prop := ∃ n t, content n h a = some t

theorem Readable.ext {h h' : Array (Cell ν)} (e : Ext h h') {a : Addr} (r : Readable h a) : Readable h' a := by
  rcases r with ⟨n, t, ht⟩; exact ⟨n, t, content_ext e n a t ht⟩

theorem Readable.of_reach {h : Array (Cell ν)} {a i : Addr} (r : Readable h a) (hr : Reach h a i) : Readable h i := by
  rcases r with ⟨n, t, ht⟩
  rcases content_reach n ht hr with ⟨t', ht'⟩
  exact ⟨n, t', ht'⟩

/-- readable values have a common fuel -/
theorem readable_list {h : Array (Cell ν)} : ∀ (l : List Addr), (∀ x ∈ l, Readable h x) →
    ∃ n ts, l.mapM (content n h) = some ts := by
  intro l
  induction l with
  | nil => intro _; exact ⟨0, [], by simp⟩
  | cons x xs ih =>
    intro hall
    rcases hall x (by simp) with ⟨n1, t, ht⟩
    rcases ih (fun y hy => hall y (by simp [hy])) with ⟨n2, ts, hts⟩
    refine ⟨max n1 n2, t :: ts, (omapM_cons _ x xs _).2 ⟨t, ts, content_fuel_le (Nat.le_max_left _ _) ht, ?_, rfl⟩⟩
    exact omapM_mono _ _ _ (fun y _ t' h' => content_fuel_le (Nat.le_max_right _ _) h') ts hts

/-- below a readable value no cell is reachable from one of its own links -/
theorem no_cycle_below {n : Nat} {h : Array (Cell ν)} {a i x : Addr} {t : Tree ν} {c : Cell ν}
    (ht : content n h a = some t) (hr : Reach h a i) (hc : h[i]? = some c) (hx : x ∈ c.children) : ¬ Reach h x i := by
  rcases acyclic_of_content ht with ⟨rk, hrk⟩
  have key : ∀ p q, Reach h p q → Reach h a p → rk q ≤ rk p := by
    intro p q hpq
    induction hpq with
    | refl => intro _; exact Nat.le_refl _
    | @step p0 c0 y q0 hc0 hy _ ih =>
      intro hap
      exact Nat.le_of_lt (Nat.lt_of_le_of_lt (ih (hap.trans (Reach.child hc0 hy))) (hrk p0 c0 y hap hc0 hy))
  intro hxi
  have h1 := key x i hxi (hr.trans (Reach.child hc hx))
  have h2 := hrk i c x hr hc hx
  omega

/-- a write that stores readable values from which the written cell is not reachable keeps every readable value readable -/
theorem write_readable {h : Array (Cell ν)} {r : Addr} {c' : Cell ν} (hlt : r < h.size) (hw : c'.wf = true)
    (hch : ∀ x ∈ c'.children, Readable h x ∧ ¬ Reach h x r) :
    ∀ a, Readable h a → Readable (h.set! r c') a := by
  rcases readable_list c'.children (fun x hx => (hch x hx).1) with ⟨N, ts, hts⟩
  have hts' : c'.children.mapM (content N (h.set! r c')) = some ts := by
    rw [omapM_congr (content N (h.set! r c')) (content N h) c'.children
      (fun x hx => frame_lemma c' r N h x (hch x hx).2)]
    exact hts
  have hr : ∃ t, content (N+1) (h.set! r c') r = some t := ⟨_, content_of_parts (get_set_eq h r c' hlt) hw hts'⟩
  have key : ∀ n a t, content n h a = some t → ∃ t', content (n + (N+1)) (h.set! r c') a = some t' := by
    intro n
    induction n with
    | zero => intro a t ht; simp [content] at ht
    | succ m ih =>
      intro a t ht
      by_cases hra : r = a
      · subst hra
        rcases hr with ⟨t', ht'⟩
        exact ⟨t', content_fuel_le (by omega) ht'⟩
      · rcases content_some_inv ht with ⟨m', c, ts0, hm, hc, hwc, hch0, _⟩
        cases hm
        rcases omapM_total (content (m + (N+1)) (h.set! r c')) c.children (fun x hx => by
          rcases omapM_mem _ _ ts0 hch0 x hx with ⟨tx, htx, _⟩
          exact ih x tx htx) with ⟨ts1, hts1⟩
        refine ⟨c.rebuild a ts1, ?_⟩
        have : m + 1 + (N + 1) = (m + (N + 1)) + 1 := by omega
        rw [this]
        exact content_of_parts (by rw [get_set_ne h r a c' hra]; exact hc) hwc hts1
  intro a ⟨n, t, ht⟩
  rcases key n a t ht with ⟨t', ht'⟩
  exact ⟨_, t', ht'⟩

/-- **one store into the cell `r`**, as every mutator of the model performs it: either nothing but allocations; or
allocations, then `r`'s (copied-kind) cell is replaced by a well-formed cell each of whose links is one of `r`'s own old
links or a readable value all of whose copied-kind cells were allocated since the start; then allocations -/
inductive StoreStep (r : Addr) : Array (Cell ν) → Array (Cell ν) → Prop
  | noop {h h' : Array (Cell ν)} : Ext h h' → StoreStep r h h'
  | store {h h1 h' : Array (Cell ν)} {c c' : Cell ν} : Ext h h1 → h[r]? = some c → c.isMutable = true →
      (c.wf = true → c'.wf = true) →
      (∀ x ∈ c'.children, x ∈ c.children ∨ (Readable h1 x ∧ Fresh h.size h1 x)) →
      Ext (h1.set! r c') h' → StoreStep r h h'

/-- a store into a cell below `b` is a mutation through `b` (for any `a` separated from `b`) -/
theorem StoreStep.mutSeq {r a b : Addr} {h h' : Array (Cell ν)} (st : StoreStep r h h') (hr : Reach h b r) (hs : Sep h a b) :
    MutSeq a b h h' := by
  cases st with
  | noop e => exact .grow e (.done _)
  | store e1 hc hm hw hch e2 =>
    rename_i h1 c c'
    have hs1 := hs.grow e1
    have hr1 : Reach h1 b r := (reach_ext e1 hs.vb).2 hr
    refine .grow e1 (.write hr1 ⟨c, e1.get hc, hm⟩ (fun x hx => ?_) (.grow e2 (.done _)))
    rcases hch x hx with hx | ⟨⟨n, t, ht⟩, hf⟩
    · exact sep_child_of_reach hs1 (hr1.trans (Reach.child (e1.get hc) hx))
    · exact sep_child_of_fresh e1 hs.va (content_valid n ht) hf

/-- replacing the cell `r` by a cell whose links are `r`'s own old links, or readable values from which `r` is not
reachable, keeps every readable value readable (the new cell has to be well formed if the old one was) -/
theorem write_keeps_readable {h1 : Array (Cell ν)} {r : Addr} {c c' : Cell ν} (hc1 : h1[r]? = some c)
    (hw : c.wf = true → c'.wf = true)
    (hch : ∀ x ∈ c'.children, x ∈ c.children ∨ (Readable h1 x ∧ ¬ Reach h1 x r)) :
    ∀ a, Readable h1 a → Readable (h1.set! r c') a := by
  intro a ra1
  have hlt1 := lt_size_of_getElem? hc1
  by_cases hreach : Reach h1 a r
  · rcases ra1 with ⟨n, t, ht⟩
    have hwc : c.wf = true := by
      rcases content_wellFormed ht r hreach with ⟨c0, hc0, hw0⟩
      rw [hc1] at hc0; injection hc0 with e; subst e; exact hw0
    refine write_readable hlt1 (hw hwc) (fun x hx => ?_) a ⟨n, t, ht⟩
    rcases hch x hx with hx | hx
    · exact ⟨Readable.of_reach ⟨n, t, ht⟩ (hreach.trans (Reach.child hc1 hx)), no_cycle_below ht hreach hc1 hx⟩
    · exact hx
  · rcases ra1 with ⟨n, t, ht⟩
    exact ⟨n, t, by rw [frame_lemma c' r n h1 a hreach]; exact ht⟩

/-- **acyclicity is preserved**: a store keeps every readable value readable -/
theorem StoreStep.readable {r : Addr} {h h' : Array (Cell ν)} (st : StoreStep r h h') :
    ∀ a, Readable h a → Readable h' a := by
  cases st with
  | noop e => exact fun a ra => ra.ext e
  | store e1 hc hm hw hch e2 =>
    rename_i h1 c c'
    intro a ra
    have hc1 := e1.get hc
    refine Readable.ext e2 (write_keeps_readable hc1 hw (fun x hx => ?_) a (ra.ext e1))
    rcases hch x hx with hx | ⟨hrd, hf⟩
    · exact .inl hx
    · refine .inr ⟨hrd, fun hxr => ?_⟩
      rcases hf r hxr with h1' | h1'
      · exact absurd (lt_size_of_getElem? hc) (Nat.not_lt.2 h1')
      · exact not_shared_of_mutable ⟨c, hc1, hm⟩ h1'

theorem StoreStep.acyclic {r : Addr} {h h' : Array (Cell ν)} (st : StoreStep r h h') (a : Addr)
    (ha : Acyclic h a ∧ WellFormed h a) : Acyclic h' a ∧ WellFormed h' a :=
  (content_defined_iff h' a).1 (st.readable a ((content_defined_iff h a).2 ha))

end ZnVerif.Model
