/-
C03 at character level, free layout, lexer part 1: one token, whatever follows it.

`dispatch_item_ends`: with the cursor on the first character of the spelling of an item (`Item.WF0`) followed by any text `rest` that
lets the token end there (`Item.Ends`), the dispatch of `NextToken` answers exactly the item's token and stops right after the spelling.
-/
import ZnVerif.Proofs.RenderLexItems
import ZnVerif.Proofs.RenderGapComments

namespace ZnVerif.Proofs.RenderLex
open ZnVerif.Model ZnVerif.Generated ZnVerif.Generated.Tokens
open ZnVerif.Spec ZnVerif.Spec.RenderChars
open ZnVerif.Spec.Segment (kwAt)

theorem here_headD' {l : Lexer} {tl : List Nat} (h : here l = tl) : l.cur = tl.headD 0 := by
  cases tl with
  | nil => exact (here_nil h).1
  | cons c r => exact (here_cons h).1

theorem kwFreeBefore_iff (cs rest : List Nat) :
    kwFreeBefore cs rest = true ↔ ∀ i, i < cs.length → kwAt Keywords.documented (cs.drop i ++ rest) = none := by
  unfold kwFreeBefore
  simp only [List.all_eq_true, List.mem_range, Option.isNone_iff_eq_none]

/-- the keyword test at a position where the text from there on is `rest` (empty at the end of the text) -/
theorem matchKeyword_rest {l : Lexer} {rest : List Nat} (h : here l = rest) :
    (matchKeyword l).isSome = (kwAt Keywords.documented rest).isSome := by
  cases rest with
  | nil =>
    rw [matchKeyword_eof l (here_nil h).1]
    rfl
  | cons c r => rw [matchKeyword_here h]

/-- the identifier loop over the rest of a name, up to wherever the name stops -/
theorem ident_run_ends (s0 : Nat) (rest : List Nat) (hstop : nameStop rest = true) :
    ∀ (cs : List Nat), (∀ c ∈ cs, SegChar c) → (∀ i, i < cs.length → kwAt Keywords.documented (cs.drop i ++ rest) = none) →
    ∀ (l : Lexer) (lit : List Nat), l.rest = cs ++ rest → lit.getLast? ≠ some cSlashOp →
    iterate (parseIdentifierStep s0) (parseIdentifierStep_consumes s0) l lit =
      (.ok { type := cTypeIdentifier, startIdx := s0, endIdx := l.cursor + 1 + cs.length, literal := lit ++ cs },
        l.setCursor (l.cursor + 1 + cs.length)) := by
  intro cs
  induction cs with
  | nil =>
    intro _ _ l lit h hl
    have hh : here l.adv = rest := by rw [here_adv]; simpa using h
    have hcur : l.adv.cur = rest.headD 0 := here_headD' hh
    have hpeek : l.adv.peek = rest.getD 1 0 := by
      cases rest with
      | nil =>
        have := (here_nil hh).2
        exact Lexer.getChar_of_ge (by simp at this ⊢; omega)
      | cons a r =>
        have h2 := (here_cons hh).2
        rw [Lexer.peek_eq_head, h2]
        cases r <;> rfl
    have hstep : parseIdentifierStep s0 l lit = (.done (identEnd s0 l.adv lit), l.adv) := by
      unfold parseIdentifierStep
      dsimp only
      rw [matchKeyword_rest hh, hcur, hpeek]
      unfold nameStop at hstop
      cases a1 : isWhiteSpace (rest.headD 0)
      · cases a2 : (kwAt Keywords.documented rest).isSome
        · cases a3 : (rest.headD 0 == cSlashOp && [cSlashOp, cMultiplyOp, cEqualOp].contains (rest.getD 1 0))
          · have a4 : terminateMarkers.contains (rest.headD 0) = true := by
              rw [a1, a2, a3] at hstop
              simpa using hstop
            simp only [a4, Bool.false_eq_true, ↓reduceIte]
          · simp only [Bool.false_eq_true, ↓reduceIte]
        · simp only [Bool.false_eq_true, ↓reduceIte]
      · simp only [↓reduceIte]
    rw [iterate_done hstep]
    unfold identEnd
    have : (lit.getLast? == some cSlashOp) = false := by simpa using hl
    simp [this, Lexer.setCursor, Lexer.adv]
  | cons c cs ih =>
    intro hcs hkf l lit h hl
    have h' : l.rest = c :: (cs ++ rest) := by simpa using h
    obtain ⟨hp, hrest⟩ := Lexer.rest_cons h'
    have hcur : l.adv.cur = c := hp
    have hc := hcs c List.mem_cons_self
    obtain ⟨_, _, hsl⟩ := hc.solid
    obtain ⟨b1, b2, -, -, b5, -, -, b8⟩ := hc
    have hkw : matchKeyword l.adv = none := by
      have hh : here l.adv = c :: (cs ++ rest) := by rw [here_adv]; exact h'
      rw [matchKeyword_here hh]
      have := hkf 0 (by simp)
      simpa using this
    have hstep : parseIdentifierStep s0 l lit = (.cont (lit ++ [c]), l.adv) := by
      unfold parseIdentifierStep
      have a3 : (c == cSlashOp) = false := by simpa using hsl
      have a4 : terminateMarkers.contains c = false := by
        unfold terminateMarkers
        rw [Bool.eq_false_iff]
        intro hc'
        rw [List.contains_iff_mem, List.mem_append] at hc'
        rcases hc' with hc' | hc'
        · rw [← List.contains_iff_mem, b8] at hc'; exact absurd hc' (by decide)
        · rw [← List.contains_iff_mem, b5] at hc'; exact absurd hc' (by decide)
      simp only [hcur, b2, hkw, a3, a4, b1, Option.isSome_none, Bool.false_eq_true, ↓reduceIte, Bool.false_and,
        Bool.true_or]
    have hkf' : ∀ i, i < cs.length → kwAt Keywords.documented (cs.drop i ++ rest) = none := by
      intro i hi
      have := hkf (i + 1) (by simp; omega)
      simpa using this
    rw [iterate_cont hstep, ih (fun x hx => hcs x (List.mem_cons_of_mem _ hx)) hkf' l.adv (lit ++ [c]) hrest
      (by simp; exact hsl)]
    simp [Lexer.setCursor, Lexer.adv]
    omega

theorem dispatch_name_ends (cs : List Nat) (hne : cs ≠ []) (hcs : ∀ c ∈ cs, NameChar c) (rest : List Nat)
    (hkf : kwFreeBefore cs rest = true) (hstop : nameStop rest = true) (l : Lexer) (h : here l = cs ++ rest) :
    dispatchToken l = (.ok { type := cTypeIdentifier, literal := cs, startIdx := l.cursor, endIdx := l.cursor + cs.length },
      l.setCursor (l.cursor + cs.length)) := by
  rw [kwFreeBefore_iff] at hkf
  obtain ⟨c, cs', rfl⟩ : ∃ c cs', cs = c :: cs' := by
    cases cs with
    | nil => exact absurd rfl hne
    | cons c cs' => exact ⟨c, cs', rfl⟩
  have h' : here l = c :: (cs' ++ rest) := by simpa using h
  obtain ⟨hc, hr⟩ := here_cons h'
  have hcseg : SegChar c := hcs c List.mem_cons_self
  have hseg : SegChar l.cur := by rw [hc]; exact hcseg
  rw [dispatch_seg l hseg, keywordOrIdentifier_eq, hc, hr, kwAt_D]
  have hk := hkf 0 (by simp)
  simp only [List.drop_zero, List.cons_append] at hk
  rw [hk]
  dsimp only
  unfold parseIdentifier
  have hid : isIdentifierChar l.cur = true := hseg.1
  simp only [hid, Bool.not_true, Bool.false_eq_true, ↓reduceIte]
  have hkf' : ∀ i, i < cs'.length → kwAt Keywords.documented (cs'.drop i ++ rest) = none := by
    intro i hi
    have := hkf (i + 1) (by simp; omega)
    simpa using this
  rw [ident_run_ends l.cursor rest hstop cs' (fun x hx => hcs x (List.mem_cons_of_mem _ hx)) hkf' l [l.cur] hr
    (by simp; rw [hc]; exact hcseg.solid.2.2)]
  simp [hc, Lexer.setCursor]
  omega

/-- `+ - * /` before a delimiter -/
theorem dispatch_arith (l : Lexer) (c d : Nat) (hcm : c ∈ arithOps) (hc : l.cur = c) (hp : l.peek = d)
    (hdel : isDelimiter d = true) :
    dispatchToken l = (.ok { type := arithTokenType c, startIdx := l.cursor, endIdx := l.cursor + 1 },
      l.setCursor (l.cursor + 1)) := by
  have hd1 : (d == cEqualOp) = false := by
    rw [Bool.eq_false_iff]; intro e; rw [beq_iff_eq] at e; subst e; revert hdel; decide
  have hd2 : (d == cSlashOp) = false := by
    rw [Bool.eq_false_iff]; intro e; rw [beq_iff_eq] at e; subst e; revert hdel; decide
  have hd3 : (d == cMultiplyOp) = false := by
    rw [Bool.eq_false_iff]; intro e; rw [beq_iff_eq] at e; subst e; revert hdel; decide
  have hops := parseOperators_arith l (by rw [hc]; exact hcm)
  rw [hp, hd1, hdel] at hops
  simp only [Bool.and_false, Bool.false_eq_true, ↓reduceIte] at hops
  have htail : nextTokenTail l = (.ok { type := arithTokenType c, startIdx := l.cursor, endIdx := l.cursor + 1 }, l.adv) := by
    unfold nextTokenTail
    have b1 : markPunctuations.contains l.cur = false := by
      rw [hc]; simp only [arithOps, List.mem_cons, List.not_mem_nil, or_false] at hcm
      rcases hcm with rfl | rfl | rfl | rfl <;> decide
    have b2 : markOperators.contains l.cur = true := by
      rw [hc]; simp only [arithOps, List.mem_cons, List.not_mem_nil, or_false] at hcm
      rcases hcm with rfl | rfl | rfl | rfl <;> decide
    simp only [b1, b2, Bool.false_eq_true, ↓reduceIte, hops]
    rw [hc]
  have a1 : (l.cur == runeEOF) = false := by
    rw [hc]; simp only [arithOps, List.mem_cons, List.not_mem_nil, or_false] at hcm
    rcases hcm with rfl | rfl | rfl | rfl <;> decide
  have a3 : leftQuotes.contains l.cur = false := by
    rw [hc]; simp only [arithOps, List.mem_cons, List.not_mem_nil, or_false] at hcm
    rcases hcm with rfl | rfl | rfl | rfl <;> decide
  have a4 : (l.cur == cBackTick) = false := by
    rw [hc]; simp only [arithOps, List.mem_cons, List.not_mem_nil, or_false] at hcm
    rcases hcm with rfl | rfl | rfl | rfl <;> decide
  have a5 : (l.cur == cCharZHU) = false := by
    rw [hc]; simp only [arithOps, List.mem_cons, List.not_mem_nil, or_false] at hcm
    rcases hcm with rfl | rfl | rfl | rfl <;> decide
  unfold dispatchToken
  by_cases hsl : c = cSlashOp
  · have a2 : (l.cur == cCharZHU || l.cur == cSlashOp) = true := by rw [hc, hsl]; decide
    have hcom : parseComment l = (none, l) := by
      unfold parseComment
      have a6 : (l.cur == cSlashOp) = true := by rw [hc, hsl]; decide
      simp only [a5, a6, hp, hd2, hd3, Bool.false_eq_true, ↓reduceIte]
    simp only [a1, a2, Bool.false_eq_true, ↓reduceIte, hcom]
    rw [setCursor_self, htail]
    rfl
  · have a2 : (l.cur == cCharZHU || l.cur == cSlashOp) = false := by
      rw [hc]; simp only [arithOps, List.mem_cons, List.not_mem_nil, or_false] at hcm
      rcases hcm with rfl | rfl | rfl | rfl <;> first | decide | exact absurd rfl hsl
    simp only [a1, a2, a3, a4, Bool.false_eq_true, ↓reduceIte]
    rw [htail]
    rfl

/-- operator marks, whatever follows that lets them be operators -/
theorem dispatch_op_ends (sp : List Nat) (ty : Nat) (hw : (sp, ty) ∈ operatorTable) (l : Lexer) (rest : List Nat)
    (h1 : tightMarks.contains sp = true → isDelim (rest.headD 0) = true)
    (h2 : eqLeaders.contains sp = true → rest.headD 0 ≠ cEqualOp) (h : here l = sp ++ rest) :
    dispatchToken l = (.ok { type := ty, startIdx := l.cursor, endIdx := l.cursor + sp.length },
      l.setCursor (l.cursor + sp.length)) := by
  -- the character after the mark
  have hnext : ∀ (c : Nat), sp = [c] → l.cur = c ∧ l.peek = rest.headD 0 := by
    intro c e
    subst e
    have h' : here l = c :: rest := by simpa using h
    obtain ⟨hc, hr⟩ := here_cons h'
    refine ⟨hc, ?_⟩
    rw [Lexer.peek_eq_head, hr]
    cases rest <;> rfl
  have hnext2 : ∀ (c d : Nat), sp = [c, d] → l.cur = c ∧ l.peek = d := by
    intro c d e
    subst e
    have h' : here l = c :: d :: rest := by simpa using h
    obtain ⟨hc, hr⟩ := here_cons h'
    exact ⟨hc, (Lexer.rest_cons hr).1⟩
  generalize rest.headD 0 = d at h1 h2 hnext
  simp only [operatorTable, List.mem_cons, Prod.mk.injEq, List.not_mem_nil, or_false] at hw
  rcases hw with ⟨rfl, rfl⟩ | ⟨rfl, rfl⟩ | ⟨rfl, rfl⟩ | ⟨rfl, rfl⟩ | ⟨rfl, rfl⟩ | ⟨rfl, rfl⟩ | ⟨rfl, rfl⟩ | ⟨rfl, rfl⟩ |
    ⟨rfl, rfl⟩ | ⟨rfl, rfl⟩ | ⟨rfl, rfl⟩ | ⟨rfl, rfl⟩ | ⟨rfl, rfl⟩ | ⟨rfl, rfl⟩ | ⟨rfl, rfl⟩ | ⟨rfl, rfl⟩
  -- two-character marks
  case inr.inr.inr.inr.inl | inr.inr.inr.inr.inr.inr.inl | inr.inr.inr.inr.inr.inr.inr.inr.inl |
      inr.inr.inr.inr.inr.inr.inr.inr.inr.inr.inr.inr.inr.inr.inr =>
    obtain ⟨hc, hp⟩ := hnext2 _ _ rfl
    simp [dispatchToken, parseComment, nextTokenTail, parseOperators, hc, hp, runeEOF, cCharZHU, cSlashOp,
      cMultiplyOp, leftQuotes, markPunctuations, markOperators, cBackTick, cRefOp, cAnnotationOp, cHashOp, cEqualOp,
      cLessThanOp, cGreaterThanOp, cIntDivOp, cRemainderOp, cPlusOp, cMinusOp,
      cLeftDoubleQuoteI, cLeftDoubleQuoteII, cLeftSingleQuoteI, cLeftSingleQuoteII, cLeftLibQuoteI, Lexer.setCursor,
      Lexer.adv, cTypeEqualMark, cTypeLTEMark, cTypeGTEMark, cTypeNEMark]
  -- `& @ # | %`: nothing is looked at
  case inl | inr.inl | inr.inr.inl | inr.inr.inr.inr.inr.inr.inr.inr.inr.inl | inr.inr.inr.inr.inr.inr.inr.inr.inr.inr.inl =>
    obtain ⟨hc, hp⟩ := hnext _ rfl
    simp [dispatchToken, parseComment, nextTokenTail, parseOperators, hc, runeEOF, cCharZHU, cSlashOp,
      cMultiplyOp, leftQuotes, markPunctuations, markOperators, cBackTick, cRefOp, cAnnotationOp, cHashOp, cEqualOp,
      cLessThanOp, cGreaterThanOp, cIntDivOp, cRemainderOp, cPlusOp, cMinusOp,
      cLeftDoubleQuoteI, cLeftDoubleQuoteII, cLeftSingleQuoteI, cLeftSingleQuoteII, cLeftLibQuoteI, Lexer.setCursor,
      Lexer.adv, cTypeObjRef, cTypeAnnotationT, cTypeMapHash, cTypeIntDivMark, cTypeModuloMark]
  -- `= < >`: not before `=`
  case inr.inr.inr.inl | inr.inr.inr.inr.inr.inl | inr.inr.inr.inr.inr.inr.inr.inl =>
    obtain ⟨hc, hp⟩ := hnext _ rfl
    have hd : (d == 0x3D) = false := by
      have := h2 (by decide)
      simpa [cEqualOp] using this
    simp [dispatchToken, parseComment, nextTokenTail, parseOperators, hc, hp, hd, runeEOF, cCharZHU, cSlashOp,
      cMultiplyOp, leftQuotes, markPunctuations, markOperators, cBackTick, cRefOp, cAnnotationOp, cHashOp, cEqualOp,
      cLessThanOp, cGreaterThanOp, cIntDivOp, cRemainderOp, cPlusOp, cMinusOp,
      cLeftDoubleQuoteI, cLeftDoubleQuoteII, cLeftSingleQuoteI, cLeftSingleQuoteII, cLeftLibQuoteI, Lexer.setCursor,
      Lexer.adv, cTypeAssignMark, cTypeLTMark, cTypeGTMark]
  -- `+ - * /`: before a delimiter
  all_goals
    obtain ⟨hc, hp⟩ := hnext _ rfl
    have hdel : isDelimiter d = true := h1 (by decide)
    exact dispatch_arith l _ d (by decide) hc hp hdel

/-- **one token, whatever follows it** -/
theorem dispatch_item_ends (it : Item) (hw : it.WF0) (rest : List Nat) (he : it.Ends rest) (l : Lexer)
    (h : here l = it.spelling ++ rest) :
    dispatchToken l = (.ok (it.token l.cursor), l.setCursor (l.cursor + it.spelling.length)) := by
  cases it with
  | kw sp ty => exact dispatch_kw sp ty hw l rest h
  | punct ch ty => exact dispatch_punct ch ty hw l rest h
  | op sp ty => exact dispatch_op_ends sp ty hw l rest he.1 he.2 h
  | name cs => exact dispatch_name_ends cs hw.1 hw.2 rest he.1 he.2 l h
  | quoted cs =>
    have := dispatch_quoted cs hw l rest h
    simpa [Item.token, Item.spelling, Item.type, Item.literal] using this
  | text q t => exact dispatch_text q t hw l rest h
  | cmt c => exact dispatch_cmt c hw rest he l h

/-- the first character of an item's spelling is a solid, non-NUL character that is neither TAB nor space -/
theorem spelling_head0 (it : Item) (hw : it.WF0) : ∃ c sp, it.spelling = c :: sp ∧ Solid c ∧ c ≠ 0 ∧ c ≠ runeTAB := by
  cases it with
  | name cs =>
    obtain ⟨hne, hcs⟩ := hw
    obtain ⟨c, cs', rfl⟩ : ∃ c cs', cs = c :: cs' := by
      cases cs with
      | nil => exact absurd rfl hne
      | cons c cs' => exact ⟨c, cs', rfl⟩
    have hs : SegChar c := hcs c List.mem_cons_self
    exact ⟨c, cs', rfl, hs.solid.1, hs.solid.2.1, by intro e; have := hs.2.1; rw [e] at this; revert this; decide⟩
  | kw sp ty => exact spelling_head (.kw sp ty) hw
  | punct ch ty => exact spelling_head (.punct ch ty) hw
  | op sp ty => exact spelling_head (.op sp ty) hw
  | quoted cs => exact spelling_head (.quoted cs) hw
  | text q t => exact spelling_head (.text q t) hw
  | cmt c =>
    cases c with
    | line b => exact ⟨cSlashOp, _, rfl, by decide, by decide, by decide⟩
    | block b => exact ⟨cSlashOp, _, rfl, by decide, by decide, by decide⟩
    | note ds b => exact ⟨cCharZHU, _, rfl, by decide, by decide, by decide⟩

end ZnVerif.Proofs.RenderLex
