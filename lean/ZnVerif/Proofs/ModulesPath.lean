/-
Helper lemmas for C15: name → path resolution of the model (ParseLibName + LoadFile's finder) agrees with the
spec's `resolve`, and the static import relation in the model's terms (`MImports`, `MReach`, `MCycle`) agrees with
the spec's (`Imports`, `Reach`, `StaticCycle`) when no import statement uses the reserved name of the main module.
-/
import ZnVerif.Proofs.ModulesLoad

namespace ZnVerif.Proofs.Modules
open ZnVerif.Model.Modules
open ZnVerif.Spec.ModuleSem

/-! ### splitting -/

theorem splitOn_ne_nil (sep : Nat) : ∀ l : List Nat, splitOn sep l ≠ []
  | [] => by simp [splitOn]
  | c :: cs => by
    unfold splitOn
    by_cases h : c = sep
    · simp [h]
    · simp only [h, if_false]
      cases hs : splitOn sep cs with
      | nil => simp
      | cons a t => simp

theorem segsAux_eq : ∀ (l : List Nat) (cur : Name) (acc : List Name),
    ∃ h t, splitOn 0x2D l = h :: t ∧ segsAux cur acc l = acc.reverse ++ ((cur.reverse ++ h) :: t)
  | [], cur, acc => ⟨[], [], rfl, by simp [segsAux]⟩
  | c :: cs, cur, acc => by
    by_cases hc : c = 0x2D
    · obtain ⟨h', t', e1, e2⟩ := segsAux_eq cs [] (cur.reverse :: acc)
      refine ⟨[], h' :: t', ?_, ?_⟩
      · simp [splitOn, hc, e1]
      · simp [segsAux, hc, e2]
    · obtain ⟨h', t', e1, e2⟩ := segsAux_eq cs (c :: cur) acc
      refine ⟨c :: h', t', ?_, ?_⟩
      · simp [splitOn, hc, e1]
      · simp [segsAux, hc, e2]

/-- the two splitters agree -/
theorem segments_eq_splitOn (n : Name) : segments n = splitOn chDash n := by
  obtain ⟨h, t, e1, e2⟩ := segsAux_eq n [] []
  unfold segments
  rw [e2]
  show _ = splitOn 0x2D n
  rw [e1]; simp

theorem addZn_eq_withExt : ∀ l : List Name, l ≠ [] → addZn l = some (withExt l)
  | [], h => absurd rfl h
  | [x], _ => rfl
  | x :: y :: r, _ => by
    have ih := addZn_eq_withExt (y :: r) (by simp)
    simp only [addZn, ih, Option.map, withExt]

/-- "A-B-C" joined from its segments -/
def joinDash : List Name → Name
  | [] => []
  | [x] => x
  | x :: y :: r => x ++ chDash :: joinDash (y :: r)

theorem splitOn_append_noSep {sep : Nat} : ∀ (x : Name) (l : List Nat), sep ∉ x →
    ∃ h t, splitOn sep l = h :: t ∧ splitOn sep (x ++ l) = (x ++ h) :: t
  | [], l, _ => by
    cases hs : splitOn sep l with
    | nil => exact absurd hs (splitOn_ne_nil sep l)
    | cons h t => exact ⟨h, t, rfl, by simp [hs]⟩
  | c :: x, l, hx => by
    have hc : c ≠ sep := fun h => hx (h ▸ List.mem_cons_self ..)
    obtain ⟨h, t, e1, e2⟩ := splitOn_append_noSep x l (fun h => hx (List.mem_cons_of_mem _ h))
    refine ⟨h, t, e1, ?_⟩
    show splitOn sep (c :: (x ++ l)) = _
    simp [splitOn, hc, e2]

theorem splitOn_noSep {sep : Nat} (x : Name) (hx : sep ∉ x) : splitOn sep x = [x] := by
  obtain ⟨h, t, e1, e2⟩ := splitOn_append_noSep x [] hx
  simp [splitOn] at e1
  obtain ⟨rfl, rfl⟩ := e1
  simpa using e2

theorem splitOn_joinDash : ∀ segs : List Name, segs ≠ [] → (∀ s, s ∈ segs → chDash ∉ s) →
    splitOn chDash (joinDash segs) = segs
  | [], h, _ => absurd rfl h
  | [x], _, hs => splitOn_noSep x (hs x (List.mem_cons_self ..))
  | x :: y :: r, _, hs => by
    have ih := splitOn_joinDash (y :: r) (by simp) (fun s h => hs s (List.mem_cons_of_mem _ h))
    obtain ⟨h, t, e1, e2⟩ := splitOn_append_noSep (sep := chDash) x (chDash :: joinDash (y :: r))
      (hs x (List.mem_cons_self ..))
    show splitOn chDash (x ++ chDash :: joinDash (y :: r)) = _
    rw [e2]
    have : splitOn chDash (chDash :: joinDash (y :: r)) = [] :: (y :: r) := by
      simp [splitOn, ih]
    rw [this] at e1
    injection e1 with e1 e1'
    subst e1; subst e1'; simp

/-! ### finder = resolve -/

theorem isLibName_iff (n : Name) : isLibName n = true ↔ (parseLibName n).libType = .std := by
  cases n with
  | nil => simp [isLibName, parseLibName]
  | cons c r =>
    by_cases h : c = 0x40
    · subst h; simp [isLibName, parseLibName, chAt]
    · have : isLibName (c :: r) = false := by
        unfold isLibName; split
        · rename_i heq; injection heq with h1 _; exact absurd h1 h
        · rfl
      simp [this, parseLibName, chAt, h]

theorem custom_iff_not_lib (n : Name) : (parseLibName n).libType = .custom ↔ isLibName n = false := by
  rcases libType_cases n with h | h
  · have := (isLibName_iff n).2 h
    simp [h, this]
  · have : isLibName n ≠ true := fun hl => by rw [(isLibName_iff n).1 hl] at h; cases h
    simp [h, this]

/-- the test the repaired finder makes on a part is the spec's "plain file name" -/
theorem validPart_eq_plainSegment (s : Name) : validPart s = plainSegment s := by
  unfold validPart plainSegment
  split
  · rfl
  · rfl
  · rfl
  · rename_i h1 h2 h3
    have e1 : (s == []) = false := by cases s <;> simp_all
    have e2 : (s == dot) = false := by
      apply Bool.eq_false_iff.2; intro h; exact h2 (by simpa [dot] using h)
    have e3 : (s == dotdot) = false := by
      apply Bool.eq_false_iff.2; intro h; exact h3 (by simpa [dotdot] using h)
    rw [e1, e2, e3]
    simp [chSlash, chBackslash]

theorem validParts_eq_plainName (n : Name) : validParts (splitOn chDash n) = plainName n := by
  unfold validParts plainName
  rw [segments_eq_splitOn]
  congr 1
  funext s
  exact validPart_eq_plainSegment s

theorem resolve_custom {n : Name} (h : (parseLibName n).libType = .custom) :
    resolve n = if plainName n then .file (withExt (segments n)) else .nothing := by
  have hl := (custom_iff_not_lib n).1 h
  unfold resolve
  unfold isLibName at hl
  split
  · simp at hl
  · rfl

theorem parseLibName_custom_path {n : Name} (h : (parseLibName n).libType = .custom) :
    (parseLibName n).libPath = splitOn chDash n := by
  unfold parseLibName at h ⊢
  cases n with
  | nil => rfl
  | cons c r =>
    by_cases hc : c = chAt
    · simp [hc] at h
    · simp [hc]

/-- what the repaired `LoadFile` does with a custom name: rejected unless every part is plain, else the literal path -/
theorem resolveParts_custom {n : Name} (h : (parseLibName n).libType = .custom) :
    resolveParts .repaired (parseLibName n).libPath =
      if plainName n then .path (withExt (segments n)) else .rejected := by
  unfold resolveParts
  dsimp only
  rw [parseLibName_custom_path h, validParts_eq_plainName, addZn_eq_withExt _ (splitOn_ne_nil _ _), segments_eq_splitOn]

theorem resolveName_custom {n : Name} (h : (parseLibName n).libType = .custom) :
    resolveName .repaired n = if plainName n then some (withExt (segments n)) else none := by
  unfold resolveName
  rw [h]
  dsimp only
  rw [resolveParts_custom h]
  cases plainName n <;> rfl

theorem resolveName_std {v : Variant} {n : Name} (h : (parseLibName n).libType = .std) : resolveName v n = none := by
  unfold resolveName
  rw [h]

/-- the finder rejects a name that is not plain and looks a plain one up at the path the spec prescribes -/
theorem finder_custom (files : Files) {n : Name} (h : (parseLibName n).libType = .custom) :
    finder .repaired files (parseLibName n) =
      if plainName n then
        match assoc (withExt (segments n)) files with
        | some s => .src s
        | none => .notFound
      else .notFound := by
  unfold finder
  rw [h]
  dsimp only
  rw [resolveParts_custom h]
  cases plainName n
  · rfl
  · simp only [if_true]
    cases assoc (withExt (segments n)) files <;> rfl

theorem msrc_named (files : Files) (mainSrc : ModuleSrc) (mainPath : Path) {n : Name} (hne : n ≠ mainName)
    (h : (parseLibName n).libType = .custom) : msrc files mainSrc n = sourceOf files mainPath (.named n) := by
  unfold msrc
  rw [if_neg hne, finder_custom files h]
  simp only [sourceOf, resolve_custom h]
  cases plainName n
  · rfl
  · simp only [if_true]
    cases assoc (withExt (segments n)) files <;> rfl

/-- a module the loader has a source for (other than the main module) has a plain name, and its source is the table's
    entry at the path of that name -/
theorem msrc_plain {files : Files} {mainSrc : ModuleSrc} {n : Name} {s : ModuleSrc} (hne : n ≠ mainName)
    (h : msrc files mainSrc n = some s) :
    (parseLibName n).libType = .custom ∧ plainName n = true ∧ assoc (withExt (segments n)) files = some s := by
  unfold msrc at h
  simp only [hne, if_false] at h
  rcases libType_cases n with hty | hty
  · have : finder .repaired files (parseLibName n) = .emptySrc := by unfold finder; rw [hty]
    rw [this] at h; simp at h
  · rw [finder_custom files hty] at h
    cases hp : plainName n with
    | false => rw [hp] at h; simp at h
    | true =>
      rw [hp] at h
      simp only [if_true] at h
      cases hs : assoc (withExt (segments n)) files with
      | none => rw [hs] at h; simp at h
      | some s' => rw [hs] at h; simp at h; subst h; exact ⟨hty, rfl, rfl⟩

/-! ### static relation: model terms ↔ spec terms -/

def nodeOfName (n : Name) : Node := if n = mainName then .main else .named n

/-- no import statement names the internal name of the main module -/
def NoReserved (files : Files) : Prop :=
  ∀ p src, (p, src) ∈ files → ∀ imp, imp ∈ src.imports → imp.name ≠ mainName

theorem msrc_mem_files {files : Files} {mainSrc : ModuleSrc} {mainPath : Path} (hmain : assoc mainPath files = some mainSrc)
    {n : Name} {s : ModuleSrc} (h : msrc files mainSrc n = some s) : ∃ p, (p, s) ∈ files := by
  by_cases hn : n = mainName
  · unfold msrc at h
    simp [hn] at h; subst h; exact ⟨mainPath, assoc_mem hmain⟩
  · exact ⟨_, assoc_mem (msrc_plain hn h).2.2⟩

theorem msrc_eq_sourceOf {files : Files} {mainSrc : ModuleSrc} {mainPath : Path}
    (hmain : assoc mainPath files = some mainSrc) {n : Name} (hc : (parseLibName n).libType = .custom) :
    msrc files mainSrc n = sourceOf files mainPath (nodeOfName n) := by
  unfold nodeOfName
  by_cases hn : n = mainName
  · simp [hn, msrc, sourceOf, hmain]
  · simp only [hn, if_false]; exact msrc_named files mainSrc mainPath hn hc

theorem mimports_to_imports {files : Files} {mainSrc : ModuleSrc} {mainPath : Path}
    (hmain : assoc mainPath files = some mainSrc) (hres : NoReserved files) {a b : Name}
    (ha : (parseLibName a).libType = .custom) (h : MImports files mainSrc a b) :
    Imports files mainPath (nodeOfName a) (nodeOfName b) := by
  obtain ⟨src, imp, hsrc, himp, hname, hc⟩ := h
  obtain ⟨p, hp⟩ := msrc_mem_files hmain hsrc
  have hb : b ≠ mainName := hname ▸ hres p src hp imp himp
  refine ⟨src, imp, b, ?_, himp, hname, (custom_iff_not_lib b).1 hc, ?_⟩
  · rw [← msrc_eq_sourceOf hmain ha]; exact hsrc
  · simp [nodeOfName, hb]

theorem mreach_to_reach {files : Files} {mainSrc : ModuleSrc} {mainPath : Path}
    (hmain : assoc mainPath files = some mainSrc) (hres : NoReserved files) {a : Name}
    (h : MReach files mainSrc a) : Reach files mainPath .main (nodeOfName a) := by
  induction h with
  | main => simp [nodeOfName]; exact Reach.refl _
  | step hr hi ih => exact Reach.step ih (mimports_to_imports hmain hres hr.custom hi)

theorem Reach.trans' {files : Files} {mainPath : Path} {a b c : Node} (h1 : Reach files mainPath a b)
    (h2 : Reach files mainPath b c) : Reach files mainPath a c := by
  induction h2 with
  | refl => exact h1
  | step _ hi ih => exact Reach.step ih hi

theorem mwalk_to_reach {files : Files} {mainSrc : ModuleSrc} {mainPath : Path}
    (hmain : assoc mainPath files = some mainSrc) (hres : NoReserved files) {a b : Name}
    (w : MWalk files mainSrc a b) : (parseLibName a).libType = .custom →
      Reach files mainPath (nodeOfName a) (nodeOfName b) := by
  induction w with
  | refl a => intro _; exact Reach.refl _
  | @cons a b c hi _ ih =>
    intro ha
    have hb : (parseLibName b).libType = .custom := by obtain ⟨_, _, _, _, _, hc⟩ := hi; exact hc
    exact Reach.trans' (Reach.step (Reach.refl _) (mimports_to_imports hmain hres ha hi)) (ih hb)

theorem mcycle_to_static {files : Files} {mainSrc : ModuleSrc} {mainPath : Path}
    (hmain : assoc mainPath files = some mainSrc) (hres : NoReserved files) (h : MCycle files mainSrc) :
    StaticCycle files mainPath := by
  obtain ⟨a, b, hr, hi, hw⟩ := h
  have hb : (parseLibName b).libType = .custom := by obtain ⟨_, _, _, _, _, hc⟩ := hi; exact hc
  exact ⟨nodeOfName a, nodeOfName b, mreach_to_reach hmain hres hr, mimports_to_imports hmain hres hr.custom hi,
    mwalk_to_reach hmain hres hw hb⟩

theorem imports_to_mimports {files : Files} {mainSrc : ModuleSrc} {mainPath : Path}
    (hmain : assoc mainPath files = some mainSrc) (hres : NoReserved files) {a : Name} {c : Node}
    (ha : (parseLibName a).libType = .custom) (h : Imports files mainPath (nodeOfName a) c) :
    ∃ b, c = nodeOfName b ∧ MImports files mainSrc a b := by
  obtain ⟨src, imp, n, hsrc, himp, hname, hl, hc⟩ := h
  have hcn : (parseLibName n).libType = .custom := (custom_iff_not_lib n).2 hl
  rw [← msrc_eq_sourceOf hmain ha] at hsrc
  obtain ⟨p, hp⟩ := msrc_mem_files hmain hsrc
  have hb : n ≠ mainName := hname ▸ hres p src hp imp himp
  exact ⟨n, by rw [hc]; simp [nodeOfName, hb], src, imp, hsrc, himp, hname, hcn⟩

theorem MWalk.snoc {files : Files} {mainSrc : ModuleSrc} {a b c : Name} (w : MWalk files mainSrc a b)
    (hi : MImports files mainSrc b c) : MWalk files mainSrc a c := by
  induction w with
  | refl => exact MWalk.cons hi (MWalk.refl _)
  | cons h _ ih => exact MWalk.cons h (ih hi)

theorem reach_to_mwalk {files : Files} {mainSrc : ModuleSrc} {mainPath : Path}
    (hmain : assoc mainPath files = some mainSrc) (hres : NoReserved files) {x y : Node}
    (h : Reach files mainPath x y) : ∀ {a : Name}, x = nodeOfName a → (parseLibName a).libType = .custom →
      ∃ b, y = nodeOfName b ∧ (parseLibName b).libType = .custom ∧ MWalk files mainSrc a b := by
  induction h with
  | refl => intro a ha hc; exact ⟨a, ha, hc, MWalk.refl _⟩
  | step _ hi ih =>
    intro a ha hc
    obtain ⟨b, hb, hbc, hw⟩ := ih ha hc
    rw [hb] at hi
    obtain ⟨c, hcn, hmi⟩ := imports_to_mimports hmain hres hbc hi
    have hcc : (parseLibName c).libType = .custom := by obtain ⟨_, _, _, _, _, h⟩ := hmi; exact h
    exact ⟨c, hcn, hcc, hw.snoc hmi⟩

theorem mwalk_reach {files : Files} {mainSrc : ModuleSrc} {a b : Name} (hr : MReach files mainSrc a)
    (w : MWalk files mainSrc a b) : MReach files mainSrc b := by
  induction w with
  | refl => exact hr
  | cons hi _ ih => exact ih (MReach.step hr hi)

theorem nodeOfName_inj {a b : Name} (h : nodeOfName a = nodeOfName b) : a = b := by
  unfold nodeOfName at h
  by_cases ha : a = mainName <;> by_cases hb : b = mainName <;> simp [ha, hb] at h
  · rw [ha, hb]
  · exact h

theorem static_to_mcycle {files : Files} {mainSrc : ModuleSrc} {mainPath : Path}
    (hmain : assoc mainPath files = some mainSrc) (hres : NoReserved files) (h : StaticCycle files mainPath) :
    MCycle files mainSrc := by
  obtain ⟨x, y, hr, hi, hback⟩ := h
  obtain ⟨a, ha, hac, hwa⟩ := reach_to_mwalk hmain hres hr (a := mainName) (by simp [nodeOfName]) mainName_custom
  rw [ha] at hi
  obtain ⟨b, hb, hmi⟩ := imports_to_mimports hmain hres hac hi
  have hbc : (parseLibName b).libType = .custom := by obtain ⟨_, _, _, _, _, h⟩ := hmi; exact h
  obtain ⟨a', ha', _, hwb⟩ := reach_to_mwalk hmain hres hback hb hbc
  have : a' = a := nodeOfName_inj (ha'.symm.trans ha)
  subst this
  exact ⟨a', b, mwalk_reach MReach.main hwa, hmi, hwb⟩

end ZnVerif.Proofs.Modules
