/-
Bridge (A) ↔ (B), symbol table, continued: operation histories on the evaluator model's scope (`stepI`, `runI`: one
`Spec.Scopes.Op` = one call of the corresponding `Model.Scope` function, exactly as `SymTab.Scope.step` does for
(B)), the one-step and history simulations, and the frame stack an evaluator scope stands for.  Core Lean only.
-/
import ZnVerif.Proofs.BridgesScope
import ZnVerif.Proofs.ScopeBridge

namespace ZnVerif.Proofs.Bridges
open ZnVerif ZnVerif.Model ZnVerif.Proofs.Scope
open ZnVerif.SymTab (GoRes LocalSymbol refLookup)
open ZnVerif.Spec.Scopes (Op Stack finalDepth extAtRoot Balanced initial)

/-! ## histories on (A) -/

/-- a function of (A) returning `Except Err Scope`: success → `done`; a runtime error keeps the scope and answers
its code; any other error class cannot come out of `Scope.declare` / `Scope.set` (`none`, shown unreachable below) -/
def ofExcept (sc : Model.Scope) : Except Err Model.Scope → Option (Model.Scope × Spec.Scopes.Res Addr)
  | .ok sc' => some (sc', .done)
  | .error (.rt c) => some (sc, .err c)
  | .error _ => none

def stepI (sc : Model.Scope) : Op Addr → Option (Model.Scope × Spec.Scopes.Res Addr)
  | .beginScope => some (sc.beginScope, .done)
  | .endScope => some (sc.endScope, .done)
  | .declare n v => ofExcept sc (sc.declare n v false none)
  | .declareConst n v => ofExcept sc (sc.declare n v true none)
  | .declareExternal n v m => ofExcept sc (sc.declare n v true (some (m : Int)))
  | .assign n v => ofExcept sc (sc.set n v)
  | .lookup n => some (sc, match sc.find n with | some sy => .val sy.val | none => .undefined)
  | .lookupM n => some (sc, match findM sc n with | (some v, m) => .valM v m | (none, _) => .undefined)

def runI (sc : Model.Scope) : List (Op Addr) → Option (Model.Scope × List (Spec.Scopes.Res Addr))
  | [] => some (sc, [])
  | op :: ops =>
    match stepI sc op with
    | none => none
    | some (sc', r) =>
      match runI sc' ops with
      | none => none
      | some (sc'', rs) => some (sc'', r :: rs)

/-! ## the frame stack an evaluator scope stands for -/

/-- a symbol of (A) written as a live entry of (B) (module ids are never negative: see `toEntry_toSym`) -/
def toEntry (sy : Sym) : Entry Addr :=
  { sym := ⟨sy.name, sy.depth, sy.isConst⟩, value := sy.val, ext := sy.ext.map Int.toNat }

theorem toEntry_toSym (e : Entry Addr) : toEntry (toSym e) = e := by
  obtain ⟨⟨n, d, c⟩, v, x⟩ := e
  cases x <;> simp [toEntry, toSym]

/-- (A)'s symbols grouped by depth: the spec's frame stack -/
def stackOf (sc : Model.Scope) : Stack Addr := absAux sc.depth.toNat (sc.syms.map toEntry)

theorem stackOf_eq {sc : Model.Scope} {σ : SymTab.Scope Addr} (h : R sc σ) : stackOf sc = abs σ := by
  unfold stackOf abs
  rw [h.syms, h.depth, List.map_map]
  congr 1
  have : (toEntry ∘ toSym) = id := funext toEntry_toSym
  rw [this, List.map_id]

/-! ## one step, then histories -/

theorem ofErr_bridge {sc : Model.Scope} {σ : SymTab.Scope Addr} (h : R sc σ)
    {r : Except Err Model.Scope} {g : GoRes (SymTab.Scope Addr)} (hr : RelRes r g) :
    ∃ sc' σ' a, ofExcept sc r = some (sc', a) ∧ σ.ofErr g = .ok (σ', a) ∧ R sc' σ' := by
  cases r with
  | ok sc' =>
    cases g with
    | ok σ' => exact ⟨sc', σ', .done, rfl, rfl, hr.1⟩
    | err c => exact hr.elim
    | panic => exact hr.elim
  | error e =>
    cases g with
    | ok σ' => exact hr.elim
    | err c =>
      have he : e = .rt c := hr
      subst he
      exact ⟨sc, σ, .err c, rfl, rfl, h⟩
    | panic => exact hr.elim

/-- one operation on related states, under (B)'s invariant: neither model fails, both give the same answer, the states
are related again and (B)'s invariant holds again -/
theorem step_bridge {sc : Model.Scope} {σ : SymTab.Scope Addr} {d : Nat} (h : R sc σ) (hs : Sim σ d)
    (op : Op Addr) (hok : opOK d op) :
    ∃ sc' σ' r, stepI sc op = some (sc', r) ∧ σ.step op = .ok (σ', r) ∧ R sc' σ' ∧ Sim σ' (nextDepth d op) := by
  obtain ⟨σ₁, r₁, hstep, hsim, _⟩ := step_sim hs op hok
  have close : ∀ {sc' σ' r}, stepI sc op = some (sc', r) → σ.step op = .ok (σ', r) → R sc' σ' →
      ∃ sc' σ' r, stepI sc op = some (sc', r) ∧ σ.step op = .ok (σ', r) ∧ R sc' σ' ∧ Sim σ' (nextDepth d op) := by
    intro sc' σ' r h1 h2 h3
    have := h2.symm.trans hstep
    simp only [GoRes.ok.injEq, Prod.mk.injEq] at this
    obtain ⟨rfl, rfl⟩ := this
    exact ⟨sc', σ', r, h1, h2, h3, hsim⟩
  cases op with
  | beginScope => exact close rfl rfl (sim_beginScope h)
  | endScope =>
    obtain ⟨σ', he, hR, _⟩ := sim_endScope h hs.wf
    exact close rfl (by simp [SymTab.Scope.step, he]) hR
  | declare n v =>
    obtain ⟨sc', σ', a, h1, h2, h3⟩ := ofErr_bridge h (sim_declare h hs.wf hs.refs n v false)
    exact close h1 h2 h3
  | declareConst n v =>
    obtain ⟨sc', σ', a, h1, h2, h3⟩ := ofErr_bridge h (sim_declare h hs.wf hs.refs n v true)
    exact close h1 h2 h3
  | declareExternal n v m =>
    obtain ⟨sc', σ', a, h1, h2, h3⟩ := ofErr_bridge h (sim_declareExt h hs.wf n v m)
    exact close h1 h2 h3
  | assign n v =>
    obtain ⟨sc', σ', a, h1, h2, h3⟩ := ofErr_bridge h (sim_set h hs.wf n v)
    exact close h1 h2 h3
  | lookup n =>
    have hf := sim_find h hs.wf n
    refine close (sc' := sc) (σ' := σ) rfl ?_ h
    simp only [SymTab.Scope.step, hf]
    cases sc.find n <;> rfl
  | lookupM n =>
    have hf := sim_findM h hs.wf n
    refine close (sc' := sc) (σ' := σ) rfl ?_ h
    simp only [SymTab.Scope.step, hf]
    unfold findM
    cases sc.find n <;> rfl

/-- histories: induction over the operation list -/
theorem run_bridge (ops : List (Op Addr)) : ∀ (sc : Model.Scope) (σ : SymTab.Scope Addr) (d d' : Nat),
    R sc σ → Sim σ d → finalDepth d ops = some d' → extAtRoot d ops = true →
    ∃ sc' σ' rs, runI sc ops = some (sc', rs) ∧ σ.run ops = .ok (σ', rs) ∧ R sc' σ' ∧ Sim σ' d' := by
  induction ops with
  | nil =>
    intro sc σ d d' h hs h1 _
    simp only [finalDepth, Option.some.injEq] at h1
    subst h1
    exact ⟨sc, σ, [], rfl, rfl, h, hs⟩
  | cons op ops ih =>
    intro sc σ d d' h hs h1 h2
    obtain ⟨hok, hf, he⟩ := wf_cons h1 h2
    obtain ⟨sc₁, σ₁, r, hI, hB, hR₁, hs₁⟩ := step_bridge h hs op hok
    obtain ⟨sc₂, σ₂, rs, hI₂, hB₂, hR₂, hs₂⟩ := ih sc₁ σ₁ _ d' hR₁ hs₁ hf he
    exact ⟨sc₂, σ₂, r :: rs, by simp [runI, hI, hI₂], by simp [SymTab.Scope.run, hB, hB₂], hR₂, hs₂⟩

end ZnVerif.Proofs.Bridges
