/-
Bridge (A) ↔ (C), dictionaries, whole histories and the invariant.

* `dictStepI` / `dictRunI`: the pure core of the evaluator's dictionary operations (`hmAppend`, `assocErase` /
  `List.erase`, `lookup` — the functions `Model/Interp.lean` itself calls) in the operation vocabulary of
  `Model/Containers.lean`; `dictStepI_bridge` relates one step to `Containers.dictStep`, `dictStepI_spec` composes that
  with C12's `dictStep_spec`.
* `KW a`: "if cell `a` holds a dictionary with the invariant before, it does after" — kept by every run of
  `builtinMethod`, `getProperty`, `setProperty`, `reduceLHS`, `reduceRHS` on that cell, whatever the outcome.
-/
import ZnVerif.Proofs.BridgesDict2
set_option linter.unusedSectionVars false
set_option linter.unusedVariables false

namespace ZnVerif.Proofs.Bridges
open ZnVerif ZnVerif.Model
open ZnVerif.Model.Containers (HashMap mapGet DictOp OpResult)
open ZnVerif.Proofs.Containers (Inv)

variable {ν : Type} [NumOps ν]

/-! ## the pure core of the evaluator's dictionary operations -/

/-- contents of a dictionary cell: `.hm vals order` -/
abbrev DictSt := List (String × Addr) × List String

def dictStepI (sub : Addr → String → Option Addr) (st : DictSt) : DictOp Addr → DictSt × OpResult Addr
  | .get keys => (st, Containers.getResult (Containers.hmGet sub (toC st.1 st.2) keys))
  | .set k v => (hmAppend st.1 st.2 k v, .elem v)
  | .delete k =>
    match lookup k st.1 with
    | some v => ((assocErase k st.1, st.2.erase k), .elem v)
    | none => (st, .null)
  | .ivRead k => (st, match lookup k st.1 with | some v => .elem v | none => .err 41)
  | .ivWrite k v => (hmAppend st.1 st.2 k v, .unit)

/-- a whole history: after every operation the result and the cell contents -/
def dictRunI (sub : Addr → String → Option Addr) : DictSt → List (DictOp Addr) → List (OpResult Addr × DictSt)
  | _, [] => []
  | st, op :: ops => let r := dictStepI sub st op; (r.2, r.1) :: dictRunI sub r.1 ops

theorem hmGet_congr (sub : Addr → String → Option Addr) {vals : List (String × Addr)} {order : List String}
    {hm : HashMap Addr} (hR : Rhm vals order hm) (keys : List String) :
    Containers.hmGet sub hm keys = Containers.hmGet sub (toC vals order) keys := by
  cases keys with
  | nil => rfl
  | cons k ks =>
    simp only [Containers.hmGet]
    rw [← hR.get k, ← (Rhm_toC vals order).get k]

/-- one step: on related states (C)'s `dictStep` succeeds with the evaluator's answer, the new states are related and
the evaluator's invariant holds again -/
theorem dictStepI_bridge (sub : Addr → String → Option Addr) {st : DictSt} {hm : HashMap Addr}
    (hR : Rhm st.1 st.2 hm) (hwf : dictWF st.1 st.2) (op : DictOp Addr) :
    ∃ hm', Containers.dictStep sub hm op = .ok (hm', (dictStepI sub st op).2) ∧
      Rhm (dictStepI sub st op).1.1 (dictStepI sub st op).1.2 hm' ∧
      dictWF (dictStepI sub st op).1.1 (dictStepI sub st op).1.2 := by
  obtain ⟨vals, order⟩ := st
  cases op with
  | get keys =>
    refine ⟨hm, ?_, hR, hwf⟩
    simp only [Containers.dictStep, dictStepI, hmGet_congr sub hR keys]
  | set k v =>
    exact ⟨_, rfl, hmAppend_bridge hR k v, hmAppend_wf k v hwf⟩
  | delete k =>
    have hkeys : (vals.map Prod.fst).Nodup := by rw [hwf.1]; exact hwf.2
    have hnd : hm.keyOrder.Nodup := by rw [← hR.order]; exact hwf.2
    simp only [Containers.dictStep, dictStepI]
    cases hl : lookup k vals with
    | none =>
      rw [erase_absent_bridge hR k hl]
      exact ⟨hm, rfl, hR, hwf⟩
    | some v =>
      obtain ⟨hm', hd, hR'⟩ := erase_bridge hR hkeys hnd k v hl
      rw [hd]
      exact ⟨hm', rfl, hR', erase_wf k hwf⟩
  | ivRead k =>
    refine ⟨hm, ?_, hR, hwf⟩
    simp only [Containers.dictStep, dictStepI, Containers.ivMapRead, ← hR.get k]
    cases lookup k vals <;> rfl
  | ivWrite k v =>
    exact ⟨_, rfl, hmAppend_bridge hR k v, hmAppend_wf k v hwf⟩

/-- one step against the spec: the association list of the cell moves as the insertion-ordered map does, the answer is
the spec's, the invariant holds again.  (Bridge, then C12's `dictStep_spec`, then `abs = vals` on both ends.) -/
theorem dictStepI_spec (sub : Addr → String → Option Addr) {st : DictSt} (hwf : dictWF st.1 st.2) (op : DictOp Addr) :
    Spec.CollHistory.dictStep sub st.1 op = ((dictStepI sub st op).1.1, (dictStepI sub st op).2) ∧
      dictWF (dictStepI sub st op).1.1 (dictStepI sub st op).1.2 := by
  have hR := Rhm_toC st.1 st.2
  have hinv := inv_of_dictWF hwf
  obtain ⟨hm', hs, hR', hwf'⟩ := dictStepI_bridge sub hR hwf op
  obtain ⟨hm'', r, hs2, _, hspec⟩ := ZnVerif.Proofs.Containers.dictStep_spec sub hinv op
  rw [hs] at hs2
  simp only [Containers.Res.ok.injEq, Prod.mk.injEq] at hs2
  obtain ⟨rfl, rfl⟩ := hs2
  rw [abs_eq_vals hR hwf, abs_eq_vals hR' hwf'] at hspec
  exact ⟨hspec, hwf'⟩

/-- whole histories: the sequence of (answer, association list) the evaluator's dictionary operations produce is the
history of the insertion-ordered map, and every state on the way has the invariant -/
theorem dictRunI_spec (sub : Addr → String → Option Addr) (ops : List (DictOp Addr)) : ∀ (st : DictSt),
    dictWF st.1 st.2 →
    (dictRunI sub st ops).map (fun p => (p.1, p.2.1)) = Spec.CollHistory.dictRun sub st.1 ops ∧
    ∀ p ∈ dictRunI sub st ops, dictWF p.2.1 p.2.2 := by
  induction ops with
  | nil => intro st _; exact ⟨rfl, by simp [dictRunI]⟩
  | cons op ops ih =>
    intro st hwf
    obtain ⟨hstep, hwf'⟩ := dictStepI_spec sub hwf op
    obtain ⟨ih1, ih2⟩ := ih (dictStepI sub st op).1 hwf'
    refine ⟨?_, ?_⟩
    · simp only [dictRunI, Spec.CollHistory.dictRun, List.map_cons, hstep, ih1]
    · intro p hp
      simp only [dictRunI, List.mem_cons] at hp
      rcases hp with rfl | hp
      · exact hwf'
      · exact ih2 p hp

/-! ## dictionary literals -/

theorem hmFold_wf : ∀ (kvs : List (String × Addr)) (st : DictSt), dictWF st.1 st.2 →
    dictWF (kvs.foldl hmStep st).1 (kvs.foldl hmStep st).2
  | [], _, h => h
  | kv :: kvs, st, h => hmFold_wf kvs (hmStep st kv) (hmAppend_wf kv.1 kv.2 h)

/-- `NewHashMap` on any literal (duplicate keys included): the cell has the invariant, is related to (C)'s
`newHashMap`, and its association list is the spec's `OrderedMap.ofList` -/
theorem newHashMapCell_spec (kvs : List (String × Addr)) :
    ∃ vals order, (newHashMapCell kvs : Cell ν) = .hm vals order ∧ dictWF vals order ∧
      Rhm vals order (Containers.newHashMap kvs) ∧ vals = Spec.OrderedMap.ofList kvs := by
  obtain ⟨vals, order, hcell, hR⟩ := newHashMapCell_bridge (ν := ν) kvs
  have hwf0 := hmFold_wf kvs ([], []) ⟨rfl, List.nodup_nil⟩
  have hcell' := newHashMapCell_eq (ν := ν) kvs
  rw [hcell] at hcell'
  injection hcell' with hv ho
  have hwf : dictWF vals order := by rw [hv, ho]; exact hwf0
  refine ⟨vals, order, hcell, hwf, hR, ?_⟩
  rw [← abs_eq_vals hR hwf]
  exact (ZnVerif.Proofs.Containers.newHashMap_spec kvs).2

/-! ## the invariant, kept by every evaluator operation on the cell -/

/-- if cell `a` holds a dictionary with the invariant in `s`, it does in `s'` -/
def KW (a : Addr) (s s' : VM ν) : Prop :=
  (∃ vals order, s.heap[a]? = some (.hm vals order) ∧ dictWF vals order) →
  ∃ vals' order', s'.heap[a]? = some (.hm vals' order') ∧ dictWF vals' order'

instance (a : Addr) : GrowRel (KW (ν := ν) a) where
  refl s := fun h => h
  trans h1 h2 := fun h => h2 (h1 h)
  ofGrow := by
    intro s s' hg ⟨vals, order, hc, hwf⟩
    exact ⟨vals, order, hg.2.get hc, hwf⟩

/-- storing a dictionary cell that has the invariant -/
theorem setCell_kw (a : Addr) {nv : List (String × Addr)} {no : List String} (hwf : dictWF nv no) :
    Pres (KW (ν := ν) a) (setCell a (.hm nv no)) := by
  constructor
  intro s r s' h _
  unfold setCell at h
  by_cases hlt : a < s.heap.size
  · rw [if_pos hlt] at h
    injection h with _ h2
    subst h2
    refine ⟨nv, no, ?_, hwf⟩
    simp [Array.set!, hlt]
  · have : s.heap[a]? = none := Array.getElem?_eq_none (Nat.le_of_not_lt hlt)
    rename_i hpre
    obtain ⟨_, _, hc, _⟩ := hpre
    rw [this] at hc; cases hc

theorem bind_getCell {β : Type} {s : VM ν} {a : Addr} {c : Cell ν} (hc : s.heap[a]? = some c) (f : Cell ν → M ν β) :
    (getCell a >>= f) s = f c s := by
  simp only [bind, getCell, hc]

/-- every method call on a dictionary cell, whatever the name, the arguments and the outcome -/
theorem bm_hm_keeps (n : Nat) (a : Addr) (name : String) (args : List Addr) (vals : List (String × Addr))
    (order : List String) (s s' : VM ν) (r : Model.Res Addr) (hc : s.heap[a]? = some (.hm vals order))
    (hwf : dictWF vals order) (h : builtinMethod n a name args s = (r, s')) : KW a s s' := by
  unfold builtinMethod at h
  rw [bind_getCell hc] at h
  simp only at h
  refine Pres.run (?_ : Pres (KW a) _) s r s' h
  pres_auto
  all_goals first
    | with_reducible exact goGet_pres _ _
    | exact setCell_kw a (hmAppend_wf _ _ hwf)
    | exact setCell_kw a (erase_wf _ hwf)

/-- `D#k = v` and property assignment through a dictionary receiver -/
theorem lhs_hm_keeps (a : Addr) (kind : Nat) (key : String) (idx : Int) (v : Addr) (vals : List (String × Addr))
    (order : List String) (s s' : VM ν) (r : Model.Res Unit) (hc : s.heap[a]? = some (.hm vals order))
    (hwf : dictWF vals order) (h : reduceLHS (kind, a, key, idx) v s = (r, s')) : KW a s s' := by
  simp only [reduceLHS] at h
  by_cases h1 : (kind == 1) = true
  · simp only [h1, if_true, bind_getCell hc] at h
    simp only [rtErr, throwE] at h
    injection h with _ h2; subst h2; exact fun x => x
  · simp only [h1, Bool.false_eq_true, if_false] at h
    by_cases h2 : (kind == 2) = true
    · simp only [h2, if_true, bind_getCell hc] at h
      exact (setCell_kw a (hmAppend_wf key v hwf)).run s r s' h
    · simp only [h2, Bool.false_eq_true, if_false] at h
      unfold setProperty at h
      rw [bind_getCell hc] at h
      simp only [rtErr, throwE] at h
      injection h with _ h2; subst h2; exact fun x => x

/-- reading (`D#k`, properties) only allocates -/
theorem getProperty_grow (n : Nat) (a : Addr) (name : String) : Pres Grow (getProperty n a name : M ν Addr) := by
  unfold getProperty
  pres_auto

theorem rhs_keeps (n : Nat) (a : Addr) (kind : Nat) (key : String) (idx : Int) (s s' : VM ν) (r : Model.Res Addr)
    (h : reduceRHS n (kind, a, key, idx) s = (r, s')) : KW a s s' := by
  have hp : Pres (KW a) (reduceRHS n (kind, a, key, idx) : M ν Addr) := by
    simp only [reduceRHS]
    pres_auto
    exact (getProperty_grow n a key).mono (fun _ _ => GrowRel.ofGrow)
  exact hp.run s r s' h

end ZnVerif.Proofs.Bridges
