/-
The module table under the evaluator and the loader of `Model/Interp.lean`: it only grows at the end, a module keeps its
name, and distinct names stay distinct (`ModKept`).  The evaluator writes export lists only (`addExport`), the loader
appends a module only after `findModuleByName` has failed for its name (`allocateModule`).  Instance of `LoaderPrims`, so
`allPres` and `Pres.importWith` / `Pres.evalProgram` give it for every function.
-/
import ZnVerif.Proofs.LoaderPres
import ZnVerif.Proofs.Handlers
set_option linter.unusedSectionVars false
set_option linter.unusedSimpArgs false
set_option linter.unusedVariables false

namespace ZnVerif.Proofs.Balance
open ZnVerif.Model ZnVerif.Proofs.Calls

variable {ν : Type} [NumOps ν]

/-- the names of the allocated modules, by module id -/
def modNames (s : VM ν) : List String := s.modules.toList.map (·.name)

/-- the module table only grows at the end, names are kept, distinct names stay distinct -/
def ModKept (s s' : VM ν) : Prop :=
  (∃ extra, modNames s' = modNames s ++ extra) ∧ ((modNames s).Nodup → (modNames s').Nodup)

theorem ModKept.of_names_eq {s s' : VM ν} (h : modNames s' = modNames s) : ModKept s s' :=
  ⟨⟨[], by simp [h]⟩, fun hn => by rw [h]; exact hn⟩

theorem ModKept.of_modules_eq {s s' : VM ν} (h : s'.modules = s.modules) : ModKept s s' :=
  ModKept.of_names_eq (by unfold modNames; rw [h])

instance : PreRel (ModKept (ν := ν)) where
  refl s := ModKept.of_names_eq rfl
  trans := by
    rintro a b c ⟨⟨e1, h1⟩, n1⟩ ⟨⟨e2, h2⟩, n2⟩
    exact ⟨⟨e1 ++ e2, by rw [h2, h1, List.append_assoc]⟩, fun h => n2 (n1 h)⟩

theorem names_set (a : Array Module) (i : Nat) (md : Module) (e : List (String × Addr)) (h : a[i]? = some md) :
    (a.set! i { md with exports := e }).toList.map (·.name) = a.toList.map (·.name) := by
  apply List.ext_getElem?
  intro j
  simp only [List.getElem?_map, Array.set!_eq_setIfInBounds, Array.toList_setIfInBounds, List.getElem?_set]
  by_cases hij : i = j
  · subst hij
    have h' : a.toList[i]? = some md := by simpa using h
    simp only [if_true, h']
    split <;> simp_all
  · simp [hij]

instance : Stable (ModKept (ν := ν)) where
  heap s h := ModKept.of_modules_eq rfl
  stack s st cs := ModKept.of_modules_eq rfl
  exports s i md e h := ModKept.of_names_eq (names_set s.modules i md e h)

theorem setElement_modules (name : String) (v : Addr) (s : VM ν) : (setElement name v s).2.modules = s.modules := by
  unfold setElement
  have hcs : currentScope s = (.ok (getScope s.csModuleID s), s) := rfl
  rw [bind_ok hcs]
  cases getScope s.csModuleID s with
  | none => rfl
  | some sc =>
    simp only
    cases sc.set name v with
    | error e => rfl
    | ok sc' => exact putScope_modules _ _ _

theorem declareElement_modules (name : String) (v : Addr) (c : Bool) (ext : Option Int) (s : VM ν) :
    (declareElement name v c ext s).2.modules = s.modules := by
  rcases declareElement_cases name v c ext s with ⟨e, he⟩ | ⟨sc, sc', _, _, h3⟩
  · rw [he]
  · rw [h3]; exact putScope_modules _ _ _

theorem exitScope_modules (s t : VM ν) : (exitScope s t).modules = t.modules := by
  unfold exitScope
  cases getScope s.csModuleID s <;> simp

instance : ScopePrims (ModKept (ν := ν)) where
  emit l := ⟨fun s => ModKept.of_modules_eq rfl⟩
  pushFrame fr := ⟨fun s => ModKept.of_modules_eq (pushFrame_run fr s).2.2.2.2.2.2⟩
  declareElement name v c ext := ⟨fun s => ModKept.of_modules_eq (declareElement_modules name v c ext s)⟩
  setElement name v := ⟨fun s => ModKept.of_modules_eq (setElement_modules name v s)⟩
  withScope body hb := ⟨fun s => by
    rw [withScope_run]
    simp only
    have h1 : ModKept s (enterScope s) := ModKept.of_modules_eq (enterScope_frame s).2.2.2.2.2
    have h2 := hb.run (enterScope s)
    have h3 : ModKept (body (enterScope s)).2 (exitScope s (body (enterScope s)).2) :=
      ModKept.of_modules_eq (exitScope_modules s _)
    exact PreRel.trans h1 (PreRel.trans h2 h3)⟩

theorem findModuleByName_none_iff (name : String) (s : VM ν) :
    findModuleByName name s = none ↔ name ∉ modNames s := by
  unfold findModuleByName modNames
  rw [List.findIdx?_eq_none_iff]
  constructor
  · intro h hmem
    obtain ⟨m, hm, rfl⟩ := List.mem_map.1 hmem
    have := h m hm
    simp at this
  · intro h m hm
    cases hc : (m.name == name) with
    | false => rfl
    | true =>
      exfalso
      apply h
      have : m.name = name := by simpa using hc
      exact List.mem_map.2 ⟨m, hm, this⟩

theorem beginBoundScope_modules (s : VM ν) : (beginBoundScope s).2.modules = s.modules := by
  unfold Model.beginBoundScope
  split
  · rfl
  · exact putScope_modules _ _ _

instance : LoaderPrims (ModKept (ν := ν)) where
  graph s g := ModKept.of_modules_eq rfl
  beginBoundScope := ⟨fun s => ModKept.of_modules_eq (beginBoundScope_modules s)⟩
  pushModule s m hfresh := by
    have hn : modNames ({ s with modules := s.modules.push m } : VM ν) = modNames s ++ [m.name] := by
      simp [modNames]
    refine ⟨⟨[m.name], hn⟩, fun hnd => ?_⟩
    rw [hn]
    exact List.nodup_append.2 ⟨hnd, List.nodup_cons.2 ⟨by simp, List.nodup_nil⟩, by
      intro a ha b hb
      simp only [List.mem_singleton] at hb
      subst hb
      intro hab; subst hab
      exact (findModuleByName_none_iff _ s).1 hfresh ha⟩

/-- a module that has been allocated keeps its id -/
theorem findModuleByName_kept {s s' : VM ν} (h : ModKept s s') {name : String} {i : Nat}
    (hf : findModuleByName name s = some i) : findModuleByName name s' = some i := by
  obtain ⟨⟨extra, he⟩, _⟩ := h
  unfold findModuleByName at *
  have key : ∀ (l : List Module) (i : Nat), l.findIdx? (·.name == name) = some i →
      (l.map (·.name)).findIdx? (· == name) = some i := by
    intro l
    induction l with
    | nil => intro i h; simp at h
    | cons x xs ih =>
      intro i h
      simp only [List.findIdx?_cons, List.map_cons] at h ⊢
      split at h
      · rename_i hx; simp [hx, h] at *
      · rename_i hx
        simp only [hx]
        cases hxs : xs.findIdx? (·.name == name) with
        | none => simp [hxs] at h
        | some j =>
          simp [hxs] at h
          simp [ih j hxs, h]
  have key' : ∀ (l : List Module) (i : Nat), (l.map (·.name)).findIdx? (· == name) = some i →
      l.findIdx? (·.name == name) = some i := by
    intro l
    induction l with
    | nil => intro i h; simp at h
    | cons x xs ih =>
      intro i h
      simp only [List.findIdx?_cons, List.map_cons] at h ⊢
      split at h
      · rename_i hx; simp [hx, h] at *
      · rename_i hx
        simp only [hx]
        cases hxs : (xs.map (·.name)).findIdx? (· == name) with
        | none => simp [hxs] at h
        | some j =>
          simp [hxs] at h
          simp [ih j hxs, h]
  apply key'
  have h1 := key _ _ hf
  unfold modNames at he
  rw [he, List.findIdx?_append, h1]
  rfl

end ZnVerif.Proofs.Balance
