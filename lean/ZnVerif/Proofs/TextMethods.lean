/-
C14, the remaining text methods: the byte-level models of Model/TextMethods.lean on the UTF-8 encoding of a text of
Unicode scalar values compute the encoding of what the character-level specs of Spec/TextMethods.lean say.
Built on Proofs/TextUtf8.lean (decoding an encoding) and Proofs/TextOps.lean (an encoded pattern is found at character
boundaries only).
-/
import ZnVerif.Proofs.TextOps
import ZnVerif.Spec.TextMethods

namespace ZnVerif.Proofs.TextMethods
open ZnVerif.Model ZnVerif.Spec
open ZnVerif.Proofs.TextUtf8 ZnVerif.Proofs.TextOps

/-! ### generalities -/

theorem encode_eq_nil {t : List Nat} (h : Model.TextOps.encode t = []) : t = [] := by
  cases t with
  | nil => rfl
  | cons c t =>
    rw [encode_cons] at h
    exact absurd (List.append_eq_nil_iff.1 h).1 (encodeRune_ne_nil c)

theorem encode_ne_nil {t : List Nat} (h : t ≠ []) : Model.TextOps.encode t ≠ [] := fun he => h (encode_eq_nil he)

theorem encode_injective {a b : List Nat} (ha : ValidText a) (hb : ValidText b)
    (h : Model.TextOps.encode a = Model.TextOps.encode b) : a = b := by
  rw [← runes_encode a ha, ← runes_encode b hb, h]

/-- the encoded text starts with a byte that is no continuation byte -/
theorem encode_head {c : Nat} {t : List Nat} (hc : Model.TextOps.isScalar c = true) :
    ∃ b bs, Model.TextOps.encode (c :: t) = b :: bs ∧ Model.TextOps.isCont b = false := by
  obtain ⟨b, bs, hb, hb0, _⟩ := encodeRune_shape c hc
  exact ⟨b, bs ++ Model.TextOps.encode t, by rw [encode_cons, hb]; rfl, hb0⟩

theorem encode_join (sep : List Nat) : ∀ (ps : List (List Nat)),
    Model.TextOps.encode (Spec.TextOps.join sep ps) =
      Spec.TextOps.join (Model.TextOps.encode sep) (ps.map Model.TextOps.encode)
  | [] => rfl
  | [p] => rfl
  | p :: q :: r => by
    have ih := encode_join sep (q :: r)
    simp only [Spec.TextOps.join, List.map_cons, encode_append] at ih ⊢
    rw [ih]

/-! ### 替换 -/

theorem splitGo_eq_splitOn (sep : List Nat) : ∀ (s : List Nat) (skip : Nat) (cur : List Nat),
    Model.TextOps.splitGo sep skip cur s = Spec.TextOps.splitOn sep skip cur s := by
  intro s
  induction s with
  | nil => intro skip cur; cases skip <;> rfl
  | cons b rest ih =>
    intro skip cur
    cases skip with
    | succ k => simp only [Model.TextOps.splitGo, Spec.TextOps.splitOn]; exact ih k cur
    | zero =>
      simp only [Model.TextOps.splitGo, Spec.TextOps.splitOn]
      split
      · rw [ih]
      · rw [ih]

/-- replacing = cutting at the pattern and joining with the replacement (for any lists: bytes or characters) -/
theorem join_splitOn_eq_replaceOn (pat rep : List Nat) : ∀ (s : List Nat) (skip : Nat) (cur : List Nat),
    Spec.TextOps.join rep (Spec.TextOps.splitOn pat skip cur s) = cur ++ Spec.TextOps.replaceOn pat rep skip s := by
  intro s
  induction s with
  | nil => intro skip cur; cases skip <;> simp [Spec.TextOps.splitOn, Spec.TextOps.replaceOn, Spec.TextOps.join]
  | cons b rest ih =>
    intro skip cur
    cases skip with
    | succ k => simp only [Spec.TextOps.splitOn, Spec.TextOps.replaceOn]; exact ih k cur
    | zero =>
      simp only [Spec.TextOps.splitOn, Spec.TextOps.replaceOn]
      split
      · rw [join_cons_ne rep cur _ (splitOn_ne_nil pat rest _ _), ih]
        simp
      · rw [ih]; simp

theorem replaceGo_eq_replaceOn (pat rep : List Nat) : ∀ (s : List Nat) (skip : Nat),
    Model.TextOps.replaceGo pat rep skip s = Spec.TextOps.replaceOn pat rep skip s := by
  intro s
  induction s with
  | nil => intro skip; cases skip <;> rfl
  | cons b rest ih =>
    intro skip
    cases skip with
    | succ k => simp only [Model.TextOps.replaceGo, Spec.TextOps.replaceOn]; exact ih k
    | zero =>
      simp only [Model.TextOps.replaceGo, Spec.TextOps.replaceOn]
      split
      · rw [ih]
      · rw [ih]

/-- `strings.ReplaceAll` on encoded texts = the spec's replacement, encoded -/
theorem replaceAll_encode (t pat rep : List Nat) (hvt : ValidText t) (hvp : ValidText pat) :
    Model.TextOps.replaceAll (Model.TextOps.encode t) (Model.TextOps.encode pat) (Model.TextOps.encode rep) =
      Model.TextOps.encode (Spec.TextOps.replaceAll t pat rep) := by
  unfold Model.TextOps.replaceAll Spec.TextOps.replaceAll
  by_cases hp : pat = []
  · subst hp
    simp only [encode_nil, if_true]
    rw [explode_encode t hvt, encode_append]
    congr 1
    clear hvt
    induction t with
    | nil => rfl
    | cons c t ih =>
      simp only [List.map_cons, List.flatten_cons, encode_append, encode_cons] at ih ⊢
      rw [ih]
  · rw [if_neg (encode_ne_nil hp), if_neg hp]
    have h1 := join_splitOn_eq_replaceOn (Model.TextOps.encode pat) (Model.TextOps.encode rep) (Model.TextOps.encode t) 0 []
    have h2 := join_splitOn_eq_replaceOn pat rep t 0 []
    simp only [List.nil_append] at h1 h2
    rw [replaceGo_eq_replaceOn, ← h1, ← h2, encode_join, ← splitGo_eq_splitOn]
    have := splitGo_encode pat hp hvp t hvt 0 [] (Nat.zero_le _)
    simp only [List.take_zero, encode_nil, List.length_nil] at this
    rw [this]

/-! ### 匹配 / 匹配开头 / 匹配结尾 -/

theorem occursIn_nil (sub : List Nat) : Spec.TextOps.occursIn sub [] = sub.isPrefixOf [] := by
  simp [Spec.TextOps.occursIn]

theorem occursIn_cons (sub : List Nat) (c : Nat) (t : List Nat) :
    Spec.TextOps.occursIn sub (c :: t) = (sub.isPrefixOf (c :: t) || Spec.TextOps.occursIn sub t) := by
  unfold Spec.TextOps.occursIn
  rw [List.length_cons, List.range_succ_eq_map, List.any_cons, List.any_map]
  rfl

/-- the encoded pattern starts with a lead byte: it is not found at continuation bytes -/
theorem containsGo_conts (sub : List Nat) (b0 : Nat) (sb : List Nat) (hsub : sub = b0 :: sb)
    (hb0 : Model.TextOps.isCont b0 = false) :
    ∀ (xs : List Nat), (∀ x ∈ xs, Model.TextOps.isCont x = true) → ∀ (ys : List Nat),
    Model.TextOps.containsGo sub (xs ++ ys) = Model.TextOps.containsGo sub ys := by
  intro xs
  induction xs with
  | nil => intro _ ys; rfl
  | cons x xs ih =>
    intro hx ys
    have hx0 : Model.TextOps.isCont x = true := hx x (by simp)
    have hne : b0 ≠ x := by
      intro h; rw [h] at hb0; rw [hb0] at hx0; exact absurd hx0 (by simp)
    have hnp : sub.isPrefixOf (x :: (xs ++ ys)) = false := by
      rw [hsub]; simp [List.isPrefixOf, hne]
    rw [List.cons_append, Model.TextOps.containsGo, hnp, Bool.false_or]
    exact ih (fun y hy => hx y (by simp [hy])) ys

theorem containsGo_encode (sub : List Nat) (hvs : ValidText sub) : ∀ (t : List Nat), ValidText t →
    Model.TextOps.containsGo (Model.TextOps.encode sub) (Model.TextOps.encode t) = Spec.TextOps.occursIn sub t := by
  intro t
  induction t with
  | nil =>
    intro _
    rw [occursIn_nil, encode_nil, Model.TextOps.containsGo]
    have := prefix_encode sub [] hvs (by intro c hc; cases hc)
    rw [encode_nil] at this
    exact this
  | cons c t ih =>
    intro hvt
    obtain ⟨hc, hvt'⟩ := (validText_cons c t).1 hvt
    rw [occursIn_cons, ← ih hvt', ← prefix_encode sub (c :: t) hvs hvt]
    obtain ⟨c0, cb, hcb, hc0, hcconts⟩ := encodeRune_shape c hc
    rw [encode_cons, hcb, List.cons_append, Model.TextOps.containsGo]
    congr 1
    cases sub with
    | nil =>
      -- the empty pattern is found everywhere
      have e : ∀ l : List Nat, Model.TextOps.containsGo (Model.TextOps.encode []) l = true := by
        intro l; cases l <;> simp [Model.TextOps.containsGo, encode_nil]
      rw [e, e]
    | cons s0 sub' =>
      obtain ⟨hs0, _⟩ := (validText_cons s0 sub').1 hvs
      obtain ⟨b0, bs, hb, hb0⟩ := encode_head (t := sub') hs0
      exact containsGo_conts _ b0 bs hb hb0 cb hcconts _

theorem hasPrefix_encode (t sub : List Nat) (hvt : ValidText t) (hvs : ValidText sub) :
    Model.TextOps.hasPrefix (Model.TextOps.encode t) (Model.TextOps.encode sub) = Spec.TextOps.startsWith t sub :=
  prefix_encode sub t hvs hvt

/-- an encoded text that ends an encoded text does so at a character boundary -/
theorem suffix_boundary (sub : List Nat) (hvs : ValidText sub) : ∀ (t : List Nat), ValidText t → ∀ (x : List Nat),
    Model.TextOps.encode t = x ++ Model.TextOps.encode sub → ∃ t1, t = t1 ++ sub := by
  intro t
  induction t with
  | nil =>
    intro _ x h
    rw [encode_nil] at h
    have := (List.append_eq_nil_iff.1 h.symm).2
    exact ⟨[], by rw [encode_eq_nil this]; rfl⟩
  | cons c t ih =>
    intro hvt x h
    obtain ⟨hc, hvt'⟩ := (validText_cons c t).1 hvt
    cases sub with
    | nil => exact ⟨c :: t, by simp⟩
    | cons s0 sub' =>
      obtain ⟨hs0, _⟩ := (validText_cons s0 sub').1 hvs
      obtain ⟨b0, bs, hb, hb0⟩ := encode_head (t := sub') hs0
      obtain ⟨c0, cb, hcb, hc0, hcconts⟩ := encodeRune_shape c hc
      rw [encode_cons] at h
      rcases List.append_eq_append_iff.1 h with ⟨a, hx, ht⟩ | ⟨a, hcr, hsub⟩
      · -- the first character lies inside `x`
        obtain ⟨t1, ht1⟩ := ih hvt' a ht
        exact ⟨c :: t1, by rw [ht1]; rfl⟩
      · -- `x` ends inside the first character: then it is empty
        cases x with
        | nil =>
          simp only [List.nil_append] at hcr
          rw [← hcr, ← encode_cons] at hsub
          exact ⟨[], by rw [List.nil_append]; exact (encode_injective hvs hvt hsub).symm⟩
        | cons x0 xs =>
          cases a with
          | nil =>
            simp only [List.append_nil] at hcr
            rw [List.nil_append] at hsub
            obtain ⟨t1, ht1⟩ := ih hvt' [] (by rw [List.nil_append]; exact hsub.symm)
            exact ⟨c :: t1, by rw [ht1]; rfl⟩
          | cons a0 as =>
            -- a0 is a continuation byte of `c`, but the encoded `sub` starts with `b0`
            exfalso
            rw [hcb, List.cons_append] at hcr
            injection hcr with _ hcr
            have ha0 : a0 ∈ cb := by rw [hcr]; simp
            have h1 := hcconts a0 ha0
            rw [hb, List.cons_append] at hsub
            injection hsub with hba _
            rw [hba, h1] at hb0
            cases hb0

theorem hasSuffix_encode (t sub : List Nat) (hvt : ValidText t) (hvs : ValidText sub) :
    Model.TextOps.hasSuffix (Model.TextOps.encode t) (Model.TextOps.encode sub) = Spec.TextOps.endsWith t sub := by
  apply Bool.eq_iff_iff.2
  unfold Model.TextOps.hasSuffix Spec.TextOps.endsWith
  rw [List.isSuffixOf_iff_suffix, Bool.and_eq_true, decide_eq_true_eq, beq_iff_eq]
  constructor
  · rintro ⟨hl, hd⟩
    have hx : Model.TextOps.encode t =
        (Model.TextOps.encode t).take ((Model.TextOps.encode t).length - (Model.TextOps.encode sub).length) ++
          Model.TextOps.encode sub := by
      conv => lhs; rw [← List.take_append_drop ((Model.TextOps.encode t).length - (Model.TextOps.encode sub).length)
        (Model.TextOps.encode t)]
      rw [hd]
    obtain ⟨t1, ht1⟩ := suffix_boundary sub hvs t hvt _ hx
    exact ⟨t1, ht1.symm⟩
  · rintro ⟨t1, ht1⟩
    rw [← ht1, encode_append]
    refine ⟨by simp, ?_⟩
    simp

/-! ### 去除空格 -/

theorem isSpaceRune_eq (c : Nat) : Model.TextOps.isSpaceRune c = Spec.TextOps.isSpace c := by
  apply Bool.eq_iff_iff.2
  simp only [Model.TextOps.isSpaceRune, Spec.TextOps.isSpace, Spec.TextOps.whiteSpace, List.contains_iff_mem,
    List.mem_cons, List.not_mem_nil, or_false, Bool.or_eq_true, Bool.and_eq_true, decide_eq_true_eq, beq_iff_eq]
  omega

theorem trimSpace_encode (t : List Nat) (hvt : ValidText t) :
    Model.TextOps.trimSpace (Model.TextOps.encode t) = Model.TextOps.encode (Spec.TextOps.trim t) := by
  unfold Model.TextOps.trimSpace Spec.TextOps.trim
  rw [decodeLoop_encode t hvt _ (Nat.le_refl _)]
  have hf : ((fun p : Nat × List Nat => Model.TextOps.isSpaceRune p.1) ∘ fun c => (c, Model.TextOps.encodeRune c)) =
      Spec.TextOps.isSpace := by
    funext c; simp [isSpaceRune_eq]
  simp only [List.dropWhile_map, hf, ← List.map_reverse, List.map_map]
  simp [Model.TextOps.encode, Function.comp_def]

/-! ### 转小写-英文 / 转大写-英文 -/

theorem toLower_encode (t : List Nat) (hvt : ValidText t) :
    Model.TextOps.toLower (Model.TextOps.encode t) = (Spec.TextOps.toLower t).map Model.TextOps.encode := by
  unfold Model.TextOps.toLower Model.TextOps.mapCase Spec.TextOps.toLower
  rw [runes_encode t hvt]
  have : (t.all fun c => decide (c < 0x80) || Model.TextOps.caseless c) = t.all Spec.TextOps.hasNoCase := rfl
  simp only [this]
  split <;> rfl

theorem toUpper_encode (t : List Nat) (hvt : ValidText t) :
    Model.TextOps.toUpper (Model.TextOps.encode t) = (Spec.TextOps.toUpper t).map Model.TextOps.encode := by
  unfold Model.TextOps.toUpper Model.TextOps.mapCase Spec.TextOps.toUpper
  rw [runes_encode t hvt]
  have : (t.all fun c => decide (c < 0x80) || Model.TextOps.caseless c) = t.all Spec.TextOps.hasNoCase := rfl
  simp only [this]
  split <;> rfl

/-! ### 格式化 -/

theorem digitChar_ascii (n : Nat) : (Nat.digitChar n).toNat < 0x80 := by
  match n with
  | 0 | 1 | 2 | 3 | 4 | 5 | 6 | 7 | 8 | 9 | 10 | 11 | 12 | 13 | 14 | 15 => decide
  | n + 16 =>
    have : Nat.digitChar (n + 16) = '*' := by
      unfold Nat.digitChar
      simp
    rw [this]; decide

theorem toDigitsCore_ascii (b : Nat) : ∀ (fuel n : Nat) (acc : List Char), (∀ c ∈ acc, c.toNat < 0x80) →
    ∀ c ∈ Nat.toDigitsCore b fuel n acc, c.toNat < 0x80 := by
  intro fuel
  induction fuel with
  | zero => intro n acc h; simpa [Nat.toDigitsCore] using h
  | succ f ih =>
    intro n acc h
    unfold Nat.toDigitsCore
    dsimp only
    split
    · intro c hc
      rcases List.mem_cons.1 hc with rfl | hc
      · exact digitChar_ascii _
      · exact h c hc
    · apply ih
      intro c hc
      rcases List.mem_cons.1 hc with rfl | hc
      · exact digitChar_ascii _
      · exact h c hc

/-- all characters below U+0080 -/
def Ascii (l : List Nat) : Prop := ∀ c ∈ l, c < 0x80

theorem ascii_placeholder (k : Nat) : Ascii (Spec.TextOps.placeholder k) := by
  intro c hc
  unfold Spec.TextOps.placeholder Spec.TextOps.decimalDigits at hc
  rcases List.mem_append.1 hc with hc | hc
  · rcases List.mem_append.1 hc with hc | hc
    · simp at hc; omega
    · obtain ⟨d, hd, rfl⟩ := List.mem_map.1 hc
      exact toDigitsCore_ascii 10 _ _ [] (by simp) d hd
  · simp at hc; omega

theorem encode_ascii : ∀ (l : List Nat), Ascii l → Model.TextOps.encode l = l
  | [], _ => rfl
  | c :: l, h => by
    have hc : c < 0x80 := h c (by simp)
    rw [encode_cons, encode_ascii l (fun x hx => h x (by simp [hx]))]
    simp [Model.TextOps.encodeRune, hc]

theorem validText_ascii (l : List Nat) (h : Ascii l) : ValidText l := by
  intro c hc
  have := h c hc
  rw [isScalar_iff]; omega

theorem formatKey_eq (k : Nat) : Model.TextOps.formatKey k = Spec.TextOps.placeholder k := rfl

theorem placeholder_head (k : Nat) : ∃ r, Spec.TextOps.placeholder k = 0x7B :: r := ⟨_, rfl⟩

/-- the key found at a character boundary of the encoded text is the placeholder found there, with the encoded value -/
theorem keyAt_encode (t : List Nat) (hvt : ValidText t) : ∀ (vals : List (List Nat)) (k : Nat),
    Model.TextOps.keyAt k (vals.map Model.TextOps.encode) (Model.TextOps.encode t) =
      (Spec.TextOps.placeholderAt k vals t).map (fun p => (p.1, Model.TextOps.encode p.2)) := by
  intro vals
  induction vals with
  | nil => intro k; rfl
  | cons v vs ih =>
    intro k
    simp only [List.map_cons, Model.TextOps.keyAt, Spec.TextOps.placeholderAt, formatKey_eq]
    have hp := prefix_encode (Spec.TextOps.placeholder k) t (validText_ascii _ (ascii_placeholder k)) hvt
    rw [encode_ascii _ (ascii_placeholder k)] at hp
    simp only [hp]
    split
    · rfl
    · exact ih (k + 1)

/-- no key starts at a continuation byte -/
theorem keyAt_cont (x : Nat) (hx : Model.TextOps.isCont x = true) (ys : List Nat) :
    ∀ (vals : List (List Nat)) (k : Nat), Model.TextOps.keyAt k vals (x :: ys) = none := by
  intro vals
  induction vals with
  | nil => intro k; rfl
  | cons v vs ih =>
    intro k
    have hne : (0x7B : Nat) ≠ x := by
      intro h; rw [← h] at hx; revert hx; decide
    have hnp : (Model.TextOps.formatKey k).isPrefixOf (x :: ys) = false := by
      obtain ⟨r, hr⟩ := placeholder_head k
      rw [formatKey_eq, hr]; simp [List.isPrefixOf, hne]
    simp only [Model.TextOps.keyAt, hnp]
    exact ih (k + 1)

theorem formatGo_skip (vals : List (List Nat)) : ∀ (xs : List Nat) (skip : Nat) (ys : List Nat),
    Model.TextOps.formatGo vals (xs.length + skip) (xs ++ ys) = Model.TextOps.formatGo vals skip ys := by
  intro xs
  induction xs with
  | nil => intro skip ys; simp
  | cons x xs ih =>
    intro skip ys
    have : (x :: xs).length + skip = (xs.length + skip) + 1 := by simp; omega
    rw [this, List.cons_append, Model.TextOps.formatGo, ih]

theorem formatGo_conts (vals : List (List Nat)) : ∀ (xs : List Nat), (∀ x ∈ xs, Model.TextOps.isCont x = true) →
    ∀ (ys : List Nat), Model.TextOps.formatGo vals 0 (xs ++ ys) = xs ++ Model.TextOps.formatGo vals 0 ys := by
  intro xs
  induction xs with
  | nil => intro _ ys; rfl
  | cons x xs ih =>
    intro hx ys
    rw [List.cons_append, Model.TextOps.formatGo, keyAt_cont x (hx x (by simp))]
    simp only [List.cons_append]
    rw [ih (fun y hy => hx y (by simp [hy]))]

/-- the replacer on encoded texts = filling in the placeholders of the character sequence, encoded -/
theorem formatGo_encode (vals : List (List Nat)) : ∀ (t : List Nat), ValidText t → ∀ (k : Nat), k ≤ t.length →
    Model.TextOps.formatGo (vals.map Model.TextOps.encode) (Model.TextOps.encode (t.take k)).length (Model.TextOps.encode t) =
      Model.TextOps.encode (Spec.TextOps.fillOn vals k t) := by
  intro t
  induction t with
  | nil =>
    intro _ k hk
    simp at hk; subst hk
    simp [encode_nil, Model.TextOps.formatGo, Spec.TextOps.fillOn]
  | cons c t ih =>
    intro hvt k hk
    obtain ⟨hc, hvt'⟩ := (validText_cons c t).1 hvt
    obtain ⟨c0, cb, hcb, hc0, hcconts⟩ := encodeRune_shape c hc
    cases k with
    | succ k =>
      have hk' : k ≤ t.length := by simp at hk; omega
      have e1 : (Model.TextOps.encode ((c :: t).take (k + 1))).length =
          (Model.TextOps.encodeRune c).length + (Model.TextOps.encode (t.take k)).length := by
        simp [encode_cons]
      rw [e1, encode_cons c t, formatGo_skip, ih hvt' k hk']
      simp [Spec.TextOps.fillOn]
    | zero =>
      simp only [List.take_zero, encode_nil, List.length_nil]
      have hkey := keyAt_encode (c :: t) hvt vals 1
      rw [Spec.TextOps.fillOn]
      rw [encode_cons c t, hcb, List.cons_append] at hkey ⊢
      rw [Model.TextOps.formatGo, hkey]
      cases hpa : Spec.TextOps.placeholderAt 1 vals (c :: t) with
      | none =>
        simp only [Option.map_none]
        rw [formatGo_conts _ cb hcconts]
        have := ih hvt' 0 (Nat.zero_le _)
        simp only [List.take_zero, encode_nil, List.length_nil] at this
        rw [this, encode_cons, hcb]
        simp
      | some p =>
        obtain ⟨n, v⟩ := p
        simp only [Option.map_some, encode_append]
        congr 1
        -- the placeholder found is a prefix of the text: its remaining characters are ASCII, one byte each
        have hfound : ∃ j, n = (Spec.TextOps.placeholder j).length ∧ (Spec.TextOps.placeholder j).isPrefixOf (c :: t) = true := by
          clear hkey ih
          generalize (1 : Nat) = j0 at hpa
          induction vals generalizing j0 with
          | nil => simp [Spec.TextOps.placeholderAt] at hpa
          | cons w ws ihv =>
            simp only [Spec.TextOps.placeholderAt] at hpa
            split at hpa
            · rename_i hpre
              injection hpa with hpa
              injection hpa with h1 h2
              exact ⟨j0, h1.symm, hpre⟩
            · exact ihv _ hpa
        obtain ⟨j, hn, hpre⟩ := hfound
        obtain ⟨r, hr⟩ := placeholder_head j
        rw [hr, isPrefixOf_cons_cons, Bool.and_eq_true, beq_iff_eq] at hpre
        obtain ⟨_, hrt⟩ := hpre
        obtain ⟨rest, hrest⟩ := (isPrefixOf_iff r t).1 hrt
        have hra : Ascii r := fun x hx => ascii_placeholder j x (by rw [hr]; simp [hx])
        have hnr : n - 1 = r.length := by rw [hn, hr]; simp
        have hlen : r.length ≤ t.length := by rw [hrest]; simp
        have htake : t.take r.length = r := by rw [hrest]; simp
        have := ih hvt' r.length hlen
        rw [htake, encode_ascii r hra] at this
        have hcbnil : cb = [] := by
          -- `c` is `{`, a one-byte character
          have hc7 : c = 0x7B := by
            have := hr ▸ (show (Spec.TextOps.placeholder j).isPrefixOf (c :: t) = true from by
              rw [hr, isPrefixOf_cons_cons, Bool.and_eq_true, beq_iff_eq]; exact ⟨by assumption, hrt⟩)
            rw [isPrefixOf_cons_cons, Bool.and_eq_true, beq_iff_eq] at this
            exact this.1.symm
          subst hc7
          have : Model.TextOps.encodeRune 0x7B = [0x7B] := by decide
          rw [this] at hcb
          injection hcb with _ h2
          exact h2.symm
        subst hcbnil
        rw [List.nil_append, hnr, this]

theorem format_encode (t : List Nat) (vals : List (List Nat)) (hvt : ValidText t) :
    Model.TextOps.format (Model.TextOps.encode t) (vals.map Model.TextOps.encode) =
      Model.TextOps.encode (Spec.TextOps.fill t vals) := by
  have := formatGo_encode vals t hvt 0 (Nat.zero_le _)
  simp only [List.take_zero, encode_nil, List.length_nil] at this
  exact this

/-! ### 转换数值 -/

theorem isDigit_eq : Spec.TextOps.isDigit = Model.TextOps.isDigitB := rfl
theorem digitsValue_eq : Spec.TextOps.digitsValue = Model.TextOps.expValue := rfl

theorem unsigned_eq (l : List Nat) : Spec.TextOps.unsigned l = Model.TextOps.stripSign l := by
  unfold Spec.TextOps.unsigned Model.TextOps.stripSign
  split
  · rfl
  · rfl
  · split
    · simp_all
    · simp_all
    · rfl

theorem mantLoop_dot : ∀ (l : List Nat) (n : Nat) (sg : Bool),
    Model.TextOps.mantLoop true n sg l =
      (true, n, sg || !(l.takeWhile Model.TextOps.isDigitB).isEmpty, l.dropWhile Model.TextOps.isDigitB) := by
  intro l
  induction l with
  | nil => intro n sg; simp [Model.TextOps.mantLoop]
  | cons c r ih =>
    intro n sg
    unfold Model.TextOps.mantLoop
    by_cases hdot : c = 0x2E
    · subst hdot
      simp [Model.TextOps.isDigitB]
    · have hd : (c == 0x2E) = false := by simp [hdot]
      simp only [hd, Bool.false_eq_true, if_false, if_true]
      by_cases hdig : Model.TextOps.isDigitB c = true
      · simp [hdig, ih]
      · simp [hdig]

theorem mantLoop_nodot : ∀ (l : List Nat) (n : Nat) (sg : Bool),
    Model.TextOps.mantLoop false n sg l =
      (match Spec.TextOps.afterPoint (l.dropWhile Model.TextOps.isDigitB) with
       | some r' =>
         (true, n + (l.takeWhile Model.TextOps.isDigitB).length,
           (sg || !(l.takeWhile Model.TextOps.isDigitB).isEmpty) || !(r'.takeWhile Model.TextOps.isDigitB).isEmpty,
           r'.dropWhile Model.TextOps.isDigitB)
       | none => (false, n + (l.takeWhile Model.TextOps.isDigitB).length,
           sg || !(l.takeWhile Model.TextOps.isDigitB).isEmpty, l.dropWhile Model.TextOps.isDigitB)) := by
  intro l
  induction l with
  | nil => intro n sg; simp [Model.TextOps.mantLoop, Spec.TextOps.afterPoint]
  | cons c r ih =>
    intro n sg
    unfold Model.TextOps.mantLoop
    by_cases hdot : c = 0x2E
    · subst hdot
      simp [Model.TextOps.isDigitB, mantLoop_dot, Spec.TextOps.afterPoint]
    · have hd : (c == 0x2E) = false := by simp [hdot]
      simp only [hd, Bool.false_eq_true, if_false]
      by_cases hdig : Model.TextOps.isDigitB c = true
      · simp only [hdig, if_true, List.dropWhile_cons_of_pos, List.takeWhile_cons_of_pos, ih]
        split <;> simp <;> omega
      · have hdig' : Model.TextOps.isDigitB c = false := by simpa using hdig
        have hap : Spec.TextOps.afterPoint (c :: r) = none := by
          unfold Spec.TextOps.afterPoint
          split
          · rename_i h; injection h with h1 _; exact absurd h1 hdot
          · rfl
        simp [hdig', hap]

theorem expSign_snd (r : List Nat) : (Model.TextOps.expSign r).2 = Model.TextOps.stripSign r := by
  unfold Model.TextOps.expSign Model.TextOps.stripSign
  split
  · rfl
  · rfl
  · first
      | rfl
      | (split <;> simp_all)

theorem expSign_fst (r : List Nat) :
    (Model.TextOps.expSign r).1 = (match r with | 0x2D :: _ => true | _ => false) := by
  unfold Model.TextOps.expSign
  split
  · rfl
  · rfl
  · first
      | rfl
      | (split <;> simp_all)

theorem exponentOf_eq (l : List Nat) : Spec.TextOps.exponentOf l = Model.TextOps.expPart l := by
  cases l with
  | nil => rfl
  | cons c r =>
    simp only [Spec.TextOps.exponentOf, Model.TextOps.expPart]
    by_cases he : (c == 0x65 || c == 0x45) = true
    · simp only [he, if_true]
      rw [unsigned_eq, isDigit_eq, digitsValue_eq, expSign_snd, expSign_fst]
      split
      · rfl
      · congr 1
        split <;> simp_all
    · simp only [he]
      rfl

/-- the model's classes as the spec names them -/
def classOf : Spec.TextOps.Numeral → Model.TextOps.AtofClass
  | .decimal => .number
  | .malformed => .syntaxErr
  | .open_ => .special

theorem opensSpecial_eq (l : List Nat) : Spec.TextOps.opensSpecial l = Model.TextOps.specialHead l := by
  cases l with
  | nil => rfl
  | cons c r => cases r <;> rfl

theorem decimalClass_decimalKind (body : List Nat) :
    Model.TextOps.decimalClass body = classOf (Spec.TextOps.decimalKind body) := by
  unfold Model.TextOps.decimalClass Spec.TextOps.decimalKind
  rw [mantLoop_nodot, isDigit_eq]
  simp only [exponentOf_eq, Nat.zero_add, Bool.false_or]
  cases Spec.TextOps.afterPoint (body.dropWhile Model.TextOps.isDigitB) with
  | none =>
    simp only []
    cases hip : (body.takeWhile Model.TextOps.isDigitB).isEmpty
    · simp only [Bool.not_false, Bool.not_true, Bool.false_and, Bool.false_eq_true, if_false]
      cases Model.TextOps.expPart (body.dropWhile Model.TextOps.isDigitB) with
      | none => rfl
      | some e => simp only []; split <;> rfl
    · rfl
  | some r' =>
    simp only []
    cases hip : (body.takeWhile Model.TextOps.isDigitB).isEmpty <;>
      cases hfp : (r'.takeWhile Model.TextOps.isDigitB).isEmpty
    all_goals simp only [Bool.not_false, Bool.not_true, Bool.false_and, Bool.true_and, Bool.or_true, Bool.or_false,
      Bool.false_eq_true, if_false, if_true]
    all_goals first
      | rfl
      | (cases Model.TextOps.expPart (r'.dropWhile Model.TextOps.isDigitB) with
         | none => rfl
         | some e => simp only []; split <;> rfl)

/-- the scanner of `strconv` (mantissa loop, exponent part, end test) accepts exactly the documented numeral form -/
theorem atofClass_numeralKind (l : List Nat) : Model.TextOps.atofClass l = classOf (Spec.TextOps.numeralKind l) := by
  unfold Model.TextOps.atofClass Spec.TextOps.numeralKind
  rw [unsigned_eq, opensSpecial_eq, decimalClass_decimalKind]
  split
  · rfl
  · split <;> rfl

/-! the byte scanner on an encoded text = the same scanner on its characters: every decision compares with ASCII values,
a character beyond ASCII and each of its bytes fail all of them alike -/

theorem encodeRune_low (c : Nat) (h : c < 0x80) : Model.TextOps.encodeRune c = [c] := by
  simp [Model.TextOps.encodeRune, h]

theorem encodeRune_high (c : Nat) (hc : Model.TextOps.isScalar c = true) (h : 0x80 ≤ c) :
    ∀ x ∈ Model.TextOps.encodeRune c, 0x80 ≤ x := by
  have hs := (isScalar_iff c).1 hc
  have hsc : (!Model.TextOps.isScalar c) = false := by simp [hc]
  have h1 : ¬ c < 0x80 := by omega
  unfold Model.TextOps.encodeRune
  intro x hx
  by_cases h2 : c < 0x800
  · simp [h1, h2] at hx; omega
  by_cases h3 : c < 0x10000
  · simp [h1, h2, h3, hsc] at hx; omega
  · simp [h1, h2, h3, hsc] at hx; omega

/-- an ASCII value is a byte of the encoding iff it is a character of the text -/
theorem mem_encode_ascii (b : Nat) (hb : b < 0x80) : ∀ (t : List Nat), ValidText t →
    (b ∈ Model.TextOps.encode t ↔ b ∈ t) := by
  intro t
  induction t with
  | nil => intro _; simp [encode_nil]
  | cons c t ih =>
    intro hv
    obtain ⟨hc, hvt⟩ := (validText_cons c t).1 hv
    rw [encode_cons, List.mem_append, List.mem_cons, ih hvt]
    by_cases hlow : c < 0x80
    · rw [encodeRune_low c hlow]; simp
    · have := encodeRune_high c hc (by omega)
      constructor
      · rintro (h | h)
        · have := this b h; omega
        · exact .inr h
      · rintro (h | h)
        · omega
        · exact .inr h

/-- a text with a character beyond ASCII has a byte beyond ASCII -/
theorem high_byte_of_high_char {t : List Nat} (hv : ValidText t) {c : Nat} (hc : c ∈ t) (h : 0x80 ≤ c) :
    ∃ x ∈ Model.TextOps.encode t, 0x80 ≤ x := by
  induction t with
  | nil => cases hc
  | cons d t ih =>
    obtain ⟨hd, hvt⟩ := (validText_cons d t).1 hv
    rw [encode_cons]
    rcases List.mem_cons.1 hc with rfl | hc
    · obtain ⟨b, bs, hb, _, _⟩ := encodeRune_shape c hd
      exact ⟨b, by rw [hb]; simp, encodeRune_high c hd h b (by rw [hb]; simp)⟩
    · obtain ⟨x, hx, hx80⟩ := ih hvt hc
      exact ⟨x, List.mem_append_right _ hx, hx80⟩

/-- the first unit of an encoding: the character itself when ASCII, else a byte beyond ASCII -/
theorem encode_cons_cases (c : Nat) (t : List Nat) (hc : Model.TextOps.isScalar c = true) :
    (c < 0x80 ∧ Model.TextOps.encode (c :: t) = c :: Model.TextOps.encode t) ∨
    (0x80 ≤ c ∧ ∃ b bs, 0x80 ≤ b ∧ Model.TextOps.encode (c :: t) = b :: bs) := by
  by_cases h : c < 0x80
  · exact .inl ⟨h, by rw [encode_cons, encodeRune_low c h]; rfl⟩
  · obtain ⟨b, bs, hb, _, _⟩ := encodeRune_shape c hc
    exact .inr ⟨by omega, b, bs ++ Model.TextOps.encode t, encodeRune_high c hc (by omega) b (by rw [hb]; simp),
      by rw [encode_cons, hb]; rfl⟩

theorem stripSign_high (b : Nat) (bs : List Nat) (h : 0x80 ≤ b) : Model.TextOps.stripSign (b :: bs) = b :: bs := by
  unfold Model.TextOps.stripSign
  split
  · rename_i heq; injection heq with h1 _; omega
  · rename_i heq; injection heq with h1 _; omega
  · rfl

theorem stripSign_encode (t : List Nat) (hv : ValidText t) :
    Model.TextOps.stripSign (Model.TextOps.encode t) = Model.TextOps.encode (Model.TextOps.stripSign t) := by
  cases t with
  | nil => rfl
  | cons c t =>
    obtain ⟨hc, _⟩ := (validText_cons c t).1 hv
    rcases encode_cons_cases c t hc with ⟨hlow, he⟩ | ⟨hhigh, b, bs, hb, he⟩
    · rw [he]
      by_cases h1 : c = 0x2B
      · subst h1; rfl
      · by_cases h2 : c = 0x2D
        · subst h2; rfl
        · have e1 : ∀ r : List Nat, Model.TextOps.stripSign (c :: r) = c :: r := by
            intro r
            unfold Model.TextOps.stripSign
            split
            · rename_i heq; injection heq with h _; exact absurd h h1
            · rename_i heq; injection heq with h _; exact absurd h h2
            · rfl
          rw [e1, e1, he]
    · rw [he, stripSign_high b bs hb, stripSign_high c t hhigh, he]

theorem validText_stripSign (t : List Nat) (hv : ValidText t) : ValidText (Model.TextOps.stripSign t) := by
  unfold Model.TextOps.stripSign
  split
  · exact ((validText_cons _ _).1 hv).2
  · exact ((validText_cons _ _).1 hv).2
  · exact hv

theorem hexMark_encode (t : List Nat) (hv : ValidText t) :
    Model.TextOps.hexMark (Model.TextOps.encode t) = Model.TextOps.hexMark t := by
  cases t with
  | nil => rfl
  | cons c t =>
    obtain ⟨hc, _⟩ := (validText_cons c t).1 hv
    rcases encode_cons_cases c t hc with ⟨_, he⟩ | ⟨hhigh, b, bs, hb, he⟩
    · rw [he]; rfl
    · rw [he]
      simp only [Model.TextOps.hexMark]
      have : (b == 0x78 || b == 0x58) = false := by simp; omega
      have : (c == 0x78 || c == 0x58) = false := by simp; omega
      simp [*]

theorem specialHead_encode (t : List Nat) (hv : ValidText t) :
    Model.TextOps.specialHead (Model.TextOps.encode t) = Model.TextOps.specialHead t := by
  cases t with
  | nil => rfl
  | cons c t =>
    obtain ⟨hc, hvt⟩ := (validText_cons c t).1 hv
    rcases encode_cons_cases c t hc with ⟨_, he⟩ | ⟨hhigh, b, bs, hb, he⟩
    · rw [he]
      simp only [Model.TextOps.specialHead, hexMark_encode t hvt]
    · rw [he]
      simp only [Model.TextOps.specialHead]
      have e1 : (b == 0x69 || b == 0x49 || b == 0x6E || b == 0x4E || (b == 0x30 && Model.TextOps.hexMark bs)) = false := by
        simp; omega
      have e2 : (c == 0x69 || c == 0x49 || c == 0x6E || c == 0x4E || (c == 0x30 && Model.TextOps.hexMark t)) = false := by
        simp; omega
      rw [e1, e2]

/-- what the mantissa loop leaves unread holds every unit that is neither a digit nor a point -/
theorem mem_mantLoop_rest (x : Nat) (hx1 : x ≠ 0x2E) (hx2 : Model.TextOps.isDigitB x = false) :
    ∀ (l : List Nat) (sd : Bool) (n : Nat) (sg : Bool), x ∈ l → x ∈ (Model.TextOps.mantLoop sd n sg l).2.2.2 := by
  intro l
  induction l with
  | nil => intro _ _ _ h; cases h
  | cons c r ih =>
    intro sd n sg h
    unfold Model.TextOps.mantLoop
    by_cases hdot : c = 0x2E
    · subst hdot
      have hxr : x ∈ r := by
        rcases List.mem_cons.1 h with h | h
        · exact absurd h hx1
        · exact h
      cases sd
      · simp only [beq_self_eq_true, if_true, Bool.false_eq_true, if_false]; exact ih _ _ _ hxr
      · simp only [beq_self_eq_true, if_true]; exact h
    · have hd : (c == 0x2E) = false := by simp [hdot]
      simp only [hd, Bool.false_eq_true, if_false]
      by_cases hdig : Model.TextOps.isDigitB c = true
      · simp only [hdig, if_true]
        have hxr : x ∈ r := by
          rcases List.mem_cons.1 h with h | h
          · subst h; rw [hdig] at hx2; cases hx2
          · exact h
        exact ih _ _ _ hxr
      · simp only [hdig, Bool.false_eq_true, if_false]; exact h

theorem mem_of_mem_stripSign (x : Nat) (r : List Nat) (h : x ∈ r) :
    x ∈ Model.TextOps.stripSign r ∨ x = 0x2B ∨ x = 0x2D := by
  unfold Model.TextOps.stripSign
  split
  · rcases List.mem_cons.1 h with h | h
    · exact .inr (.inl h)
    · exact .inl h
  · rcases List.mem_cons.1 h with h | h
    · exact .inr (.inr h)
    · exact .inl h
  · exact .inl h

/-- a well-formed exponent part is ASCII -/
theorem expPart_ascii (l : List Nat) (e : Int) (h : Model.TextOps.expPart l = some e) : ∀ x ∈ l, x < 0x80 := by
  cases l with
  | nil => intro x hx; cases hx
  | cons c r =>
    simp only [Model.TextOps.expPart] at h
    by_cases hce : (c == 0x65 || c == 0x45) = true
    · simp only [hce, if_true, expSign_snd] at h
      have hc : c < 0x80 := by
        simp at hce; omega
      split at h
      · cases h
      · rename_i hcond
        have hall : (Model.TextOps.stripSign r).all Model.TextOps.isDigitB = true := by
          cases hd : (Model.TextOps.stripSign r).all Model.TextOps.isDigitB
          · simp [hd] at hcond
          · rfl
        intro x hx
        rcases List.mem_cons.1 hx with rfl | hx
        · exact hc
        · rcases mem_of_mem_stripSign x r hx with hx | rfl | rfl
          · have := List.all_eq_true.1 hall x hx
            simp [Model.TextOps.isDigitB] at this; omega
          · decide
          · decide
    · simp only [hce] at h
      cases h

/-- a unit beyond ASCII anywhere: no numeral -/
theorem decimalClass_junk (l : List Nat) (x : Nat) (hx : x ∈ l) (h : 0x80 ≤ x) :
    Model.TextOps.decimalClass l = .syntaxErr := by
  have hx2 : Model.TextOps.isDigitB x = false := by simp [Model.TextOps.isDigitB]; omega
  have hm := mem_mantLoop_rest x (by omega) hx2 l false 0 false hx
  unfold Model.TextOps.decimalClass
  rcases hml : Model.TextOps.mantLoop false 0 false l with ⟨sd, nint, sg, rest⟩
  rw [hml] at hm
  simp only []
  split
  · rfl
  · cases hep : Model.TextOps.expPart rest with
    | none => rfl
    | some e =>
      have := expPart_ascii rest e hep x hm
      omega

theorem decimalClass_encode (t : List Nat) (hv : ValidText t) :
    Model.TextOps.decimalClass (Model.TextOps.encode t) = Model.TextOps.decimalClass t := by
  by_cases ha : Ascii t
  · rw [encode_ascii t ha]
  · have : ∃ c ∈ t, 0x80 ≤ c := by
      apply Classical.byContradiction
      intro hne
      apply ha
      intro c hc
      apply Classical.byContradiction
      intro hlt
      exact hne ⟨c, hc, by omega⟩
    obtain ⟨c, hc, hc80⟩ := this
    obtain ⟨x, hx, hx80⟩ := high_byte_of_high_char hv hc hc80
    rw [decimalClass_junk _ x hx hx80, decimalClass_junk _ c hc hc80]

/-- `strconv.ParseFloat`'s verdict on the bytes of a text is its verdict on the characters -/
theorem atofClass_encode (t : List Nat) (hv : ValidText t) :
    Model.TextOps.atofClass (Model.TextOps.encode t) = Model.TextOps.atofClass t := by
  unfold Model.TextOps.atofClass
  have hu : (Model.TextOps.encode t).contains 0x5F = t.contains 0x5F := by
    apply Bool.eq_iff_iff.2
    rw [List.contains_iff_mem, List.contains_iff_mem]
    exact mem_encode_ascii 0x5F (by decide) t hv
  rw [hu, stripSign_encode t hv, specialHead_encode _ (validText_stripSign t hv),
    decimalClass_encode _ (validText_stripSign t hv)]

/-- a text `strconv.ParseFloat` reads as a plain decimal numeral is ASCII -/
theorem ascii_of_number (l : List Nat) (h : Model.TextOps.atofClass l = .number) : Ascii l := by
  intro c hc
  apply Classical.byContradiction
  intro hlt
  have hc80 : 0x80 ≤ c := by omega
  unfold Model.TextOps.atofClass at h
  split at h
  · cases h
  · split at h
    · cases h
    · have hm : c ∈ Model.TextOps.stripSign l := by
        rcases mem_of_mem_stripSign c l hc with hm | rfl | rfl
        · exact hm
        · omega
        · omega
      rw [decimalClass_junk _ c hm hc80] at h
      cases h

end ZnVerif.Proofs.TextMethods
