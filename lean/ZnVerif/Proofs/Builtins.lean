/-
C10 helper lemmas: a small Hoare calculus "never panics and keeps the heap well-formed" for the
built-in members of Model/Interp.lean (getProperty, setProperty, builtinMethod, reduceLHS, reduceRHS and
what they call: validators, dup, display, compareXEQ).  Nothing here changes the model.
-/
import ZnVerif.Model.Interp
set_option linter.unusedSectionVars false
set_option linter.unusedVariables false

namespace ZnVerif.Proofs.Builtins
open ZnVerif.Model

variable {ν : Type} [NumOps ν]

/-! ## the monad is lawful (gives `List.mapM_cons`, `List.forM_cons`) -/

instance lawfulM : LawfulMonad (M ν) := LawfulMonad.mk' (M ν)
  (id_map := by
    intro α x; funext s
    show (match x s with
      | (.ok a, s') => (pure (id a) : M ν α) s'
      | (.err e, s') => (.err e, s')
      | (.panic, s') => (.panic, s')
      | (.fuel, s') => (.fuel, s')
      | (.unmodelled, s') => (.unmodelled, s')) = x s
    cases h : x s with | mk r s1 => cases r <;> rfl)
  (pure_bind := by intros; rfl)
  (bind_assoc := by
    intro α β γ x f g; funext s
    simp only [bind]
    cases h : x s with | mk r s1 => cases r <;> rfl)

theorem bind_apply {α β} (m : M ν α) (f : α → M ν β) (s : VM ν) :
    (m >>= f) s = match m s with
      | (.ok a, s') => f a s'
      | (.err e, s') => (.err e, s')
      | (.panic, s') => (.panic, s')
      | (.fuel, s') => (.fuel, s')
      | (.unmodelled, s') => (.unmodelled, s') := rfl

theorem pure_apply {α} (a : α) (s : VM ν) : (pure a : M ν α) s = (.ok a, s) := rfl

/-! ## well-formed heaps -/

abbrev Heap (ν : Type) := Array (Cell ν)

/-- the cell at `a` is a class (Go: the `model *ClassModel` field of an object is typed) -/
def IsCls (h : Heap ν) (a : Nat) : Prop := ∃ n c p m, h[a]? = some (Cell.cls n c p m)

/-- every address stored in the cell points into the heap; a dictionary's key order lists keys of its
    map, without repetition (the invariant of value.HashMap); an object's class is a class -/
def CellOk (h : Heap ν) : Cell ν → Prop
  | .arr items => ∀ x ∈ items, x < h.size
  | .hm vals order => (∀ p ∈ vals, p.2 < h.size) ∧ (∀ k ∈ order, (lookup k vals).isSome = true) ∧ order.Nodup
  | .obj c props => IsCls h c ∧ ∀ p ∈ props, p.2 < h.size
  | .cls _ _ props methods => (∀ p ∈ props, p.2 < h.size) ∧ (∀ p ∈ methods, p.2 < h.size)
  | _ => True

def HeapOk (h : Heap ν) : Prop := ∀ (a : Nat) (c : Cell ν), h[a]? = some c → CellOk h c

/-- `WfHeap s`: every address stored in a cell of the heap is smaller than the heap size (plus the two typing
    facts above) -/
def WfHeap (s : VM ν) : Prop := HeapOk s.heap

/-- heap extension by allocation only: every old cell is still there, unchanged -/
def Pre (h h' : Heap ν) : Prop := ∀ (a : Nat) (c : Cell ν), h[a]? = some c → h'[a]? = some c

/-- heap evolution by allocation and by overwriting cells that are not classes -/
structure Ext (h h' : Heap ν) : Prop where
  size : h.size ≤ h'.size
  cls : ∀ a : Nat, IsCls h a → IsCls h' a

theorem Pre.refl (h : Heap ν) : Pre h h := fun _ _ x => x
theorem Pre.trans {a b c : Heap ν} (h1 : Pre a b) (h2 : Pre b c) : Pre a c := fun x y hx => h2 x y (h1 x y hx)
theorem Ext.refl (h : Heap ν) : Ext h h := ⟨Nat.le_refl _, fun _ x => x⟩
theorem Ext.trans {a b c : Heap ν} (h1 : Ext a b) (h2 : Ext b c) : Ext a c :=
  ⟨Nat.le_trans h1.size h2.size, fun x hx => h2.cls x (h1.cls x hx)⟩

theorem lt_size_of_get {h : Heap ν} {a : Nat} {c : Cell ν} (hc : h[a]? = some c) : a < h.size := by
  rcases Nat.lt_or_ge a h.size with hl | hg
  · exact hl
  · rw [Array.getElem?_eq_none hg] at hc; cases hc

theorem get_of_lt_size {h : Heap ν} {a : Nat} (ha : a < h.size) : ∃ c, h[a]? = some c :=
  ⟨h[a], Array.getElem?_eq_getElem ha⟩

theorem Pre.size {h h' : Heap ν} (p : Pre h h') : h.size ≤ h'.size := by
  rcases Nat.lt_or_ge h'.size h.size with hl | hg
  · obtain ⟨c, hc⟩ := get_of_lt_size (h := h) (a := h'.size) hl
    have h2 : h'.size < h'.size := lt_size_of_get (p h'.size c hc)
    exact absurd h2 (Nat.lt_irrefl _)
  · exact hg

theorem Pre.ext {h h' : Heap ν} (p : Pre h h') : Ext h h' :=
  ⟨p.size, fun a ⟨n, c, pr, m, hc⟩ => ⟨n, c, pr, m, p _ _ hc⟩⟩

theorem CellOk.mono {h h' : Heap ν} (e : Ext h h') {c : Cell ν} (hc : CellOk h c) : CellOk h' c := by
  cases c with
  | arr items => exact fun x hx => Nat.lt_of_lt_of_le (hc x hx) e.size
  | hm vals order => exact ⟨fun p hp => Nat.lt_of_lt_of_le (hc.1 p hp) e.size, hc.2.1, hc.2.2⟩
  | obj c props => exact ⟨e.cls _ hc.1, fun p hp => Nat.lt_of_lt_of_le (hc.2 p hp) e.size⟩
  | cls n ct props methods =>
    exact ⟨fun p hp => Nat.lt_of_lt_of_le (hc.1 p hp) e.size, fun p hp => Nat.lt_of_lt_of_le (hc.2 p hp) e.size⟩
  | _ => trivial

theorem pre_push (h : Heap ν) (c : Cell ν) : Pre h (h.push c) := by
  intro a c' hc
  have := lt_size_of_get hc
  rw [Array.getElem?_push_lt this]
  rwa [Array.getElem?_eq_getElem this] at hc

theorem heapOk_push {h : Heap ν} (hh : HeapOk h) {c : Cell ν} (hc : CellOk h c) : HeapOk (h.push c) := by
  intro a c' hc'
  have e : Ext h (h.push c) := (pre_push h c).ext
  by_cases ha : a < h.size
  · rw [Array.getElem?_push_lt ha] at hc'
    have : h[a]? = some c' := by rw [Array.getElem?_eq_getElem ha]; exact hc'
    exact (hh a c' this).mono e
  · have hsz : a < (h.push c).size := lt_size_of_get hc'
    have : a = h.size := by rw [Array.size_push] at hsz; omega
    subst this
    simp at hc'
    subst hc'
    exact hc.mono e


theorem heapOk_set {h : Heap ν} (hh : HeapOk h) {a : Nat} {old c : Cell ν} (ha : h[a]? = some old)
    (hold : ¬ ∃ n ct p m, old = Cell.cls n ct p m) (hc : CellOk h c) :
    HeapOk (h.set! a c) ∧ Ext h (h.set! a c) := by
  have halt : a < h.size := lt_size_of_get ha
  have e : Ext h (h.set! a c) := by
    refine ⟨by simp, ?_⟩
    rintro b ⟨n, ct, p, m, hb⟩
    by_cases hab : a = b
    · subst hab
      rw [ha] at hb
      exact absurd ⟨n, ct, p, m, (Option.some.inj hb)⟩ hold
    · exact ⟨n, ct, p, m, by simp [hab]; exact hb⟩
  refine ⟨?_, e⟩
  intro b c' hb
  by_cases hab : a = b
  · subst hab
    simp [halt] at hb
    subst hb
    exact hc.mono e
  · simp [hab] at hb
    exact (hh b c' hb).mono e

/-! ## the calculus -/

/-- outcome of a run started in `s`: never a panic; the heap stays well-formed and is related to the initial
    one by `R` whatever the outcome (value, error, out of fuel, not modelled); a value satisfies `Q` -/
def Post {α} (R : Heap ν → Heap ν → Prop) (s : VM ν) (Q : α → VM ν → Prop) : Res α × VM ν → Prop
  | (.ok a, s') => HeapOk s'.heap ∧ R s.heap s'.heap ∧ Q a s'
  | (.panic, _) => False
  | (_, s') => HeapOk s'.heap ∧ R s.heap s'.heap

class RelOk (R : Heap ν → Heap ν → Prop) : Prop where
  refl : ∀ h, R h h
  trans : ∀ {a b c}, R a b → R b c → R a c

instance : RelOk (Pre (ν := ν)) := ⟨Pre.refl, Pre.trans⟩
instance : RelOk (Ext (ν := ν)) := ⟨Ext.refl, Ext.trans⟩

section calculus
variable {R : Heap ν → Heap ν → Prop} [RelOk R] {α β : Type}

theorem Post.ok {s s' : VM ν} {Q : α → VM ν → Prop} {a : α} (h : HeapOk s'.heap) (r : R s.heap s'.heap) (q : Q a s') :
    Post R s Q (.ok a, s') := ⟨h, r, q⟩

theorem Post.pure {s : VM ν} {Q : α → VM ν → Prop} {a : α} (h : HeapOk s.heap) (q : Q a s) :
    Post R s Q ((pure a : M ν α) s) := ⟨h, RelOk.refl _, q⟩

theorem Post.err {s : VM ν} {Q : α → VM ν → Prop} (e : Err) (h : HeapOk s.heap) : Post R s Q ((.err e : Res α), s) :=
  ⟨h, RelOk.refl _⟩

theorem Post.rtErr {s : VM ν} {Q : α → VM ν → Prop} (c : Nat) (h : HeapOk s.heap) : Post R s Q ((rtErr c : M ν α) s) :=
  ⟨h, RelOk.refl _⟩

theorem Post.fuel {s : VM ν} {Q : α → VM ν → Prop} (h : HeapOk s.heap) : Post R s Q ((outOfFuel : M ν α) s) :=
  ⟨h, RelOk.refl _⟩

theorem Post.notModelled {s : VM ν} {Q : α → VM ν → Prop} (h : HeapOk s.heap) : Post R s Q ((notModelled : M ν α) s) :=
  ⟨h, RelOk.refl _⟩

/-- what every non-panic outcome gives -/
theorem Post.frame {s : VM ν} {Q : α → VM ν → Prop} {p : Res α × VM ν} (h : Post R s Q p) :
    HeapOk p.2.heap ∧ R s.heap p.2.heap := by
  rcases p with ⟨r, s'⟩
  cases r <;> first | exact ⟨h.1, h.2.1⟩ | exact ⟨h.1, h.2⟩ | exact h.elim

theorem Post.ne_panic {s : VM ν} {Q : α → VM ν → Prop} {p : Res α × VM ν} (h : Post R s Q p) : ∀ s', p ≠ (.panic, s') := by
  rintro s' rfl
  exact h

theorem Post.weaken {s : VM ν} {Q Q' : α → VM ν → Prop} {p : Res α × VM ν} (h : Post R s Q p)
    (hq : ∀ a s', HeapOk s'.heap → R s.heap s'.heap → Q a s' → Q' a s') : Post R s Q' p := by
  rcases p with ⟨r, s'⟩
  cases r with
  | ok a => exact ⟨h.1, h.2.1, hq a s' h.1 h.2.1 h.2.2⟩
  | err e => exact h
  | panic => exact h
  | fuel => exact h
  | unmodelled => exact h

theorem Post.rel {R' : Heap ν → Heap ν → Prop} (hr : ∀ a b, R a b → R' a b) {s : VM ν} {Q : α → VM ν → Prop}
    {p : Res α × VM ν} (h : Post R s Q p) : Post R' s Q p := by
  rcases p with ⟨r, s'⟩
  cases r with
  | ok a => exact ⟨h.1, hr _ _ h.2.1, h.2.2⟩
  | err e => exact ⟨h.1, hr _ _ h.2⟩
  | panic => exact h
  | fuel => exact ⟨h.1, hr _ _ h.2⟩
  | unmodelled => exact ⟨h.1, hr _ _ h.2⟩

theorem Post.bind {s : VM ν} {m : M ν α} {f : α → M ν β} {Q1 : α → VM ν → Prop} {Q2 : β → VM ν → Prop}
    (h1 : Post R s Q1 (m s))
    (h2 : ∀ a s', HeapOk s'.heap → R s.heap s'.heap → Q1 a s' → Post R s' Q2 (f a s')) :
    Post R s Q2 ((m >>= f) s) := by
  rw [bind_apply]
  rcases hm : m s with ⟨r, s1⟩
  rw [hm] at h1
  cases r with
  | ok a =>
    have h3 := h2 a s1 h1.1 h1.2.1 h1.2.2
    show Post R s Q2 (f a s1)
    rcases hf : f a s1 with ⟨r2, s2⟩
    rw [hf] at h3
    cases r2 with
    | ok b => exact ⟨h3.1, RelOk.trans h1.2.1 h3.2.1, h3.2.2⟩
    | err e => exact ⟨h3.1, RelOk.trans h1.2.1 h3.2⟩
    | panic => exact h3
    | fuel => exact ⟨h3.1, RelOk.trans h1.2.1 h3.2⟩
    | unmodelled => exact ⟨h3.1, RelOk.trans h1.2.1 h3.2⟩
  | err e => exact h1
  | panic => exact h1
  | fuel => exact h1
  | unmodelled => exact h1

end calculus

/-! ## primitives -/

theorem getCell_apply {s : VM ν} {a : Nat} {c : Cell ν} (h : s.heap[a]? = some c) : getCell a s = (.ok c, s) := by
  unfold getCell; rw [h]

theorem alloc_apply (c : Cell ν) (s : VM ν) : alloc c s = (.ok s.heap.size, { s with heap := s.heap.push c }) := rfl

theorem setCell_apply {s : VM ν} {a : Nat} (c : Cell ν) (h : a < s.heap.size) :
    setCell a c s = (.ok (), { s with heap := s.heap.set! a c }) := by
  unfold setCell; rw [if_pos h]

theorem post_alloc {s : VM ν} (hs : HeapOk s.heap) {c : Cell ν} (hc : CellOk s.heap c) :
    Post Pre s (fun a s' => a < s'.heap.size ∧ s'.heap[a]? = some c) (alloc c s) := by
  rw [alloc_apply]
  refine ⟨heapOk_push hs hc, pre_push _ _, ?_, ?_⟩
  · show s.heap.size < (s.heap.push c).size
    rw [Array.size_push]; exact Nat.lt_succ_self _
  · show (s.heap.push c)[s.heap.size]? = some c
    simp

theorem post_setCell {s : VM ν} (hs : HeapOk s.heap) {a : Nat} {old c : Cell ν} (ha : s.heap[a]? = some old)
    (hold : ¬ ∃ n ct p m, old = Cell.cls n ct p m) (hc : CellOk s.heap c) :
    Post Ext s (fun _ s' => s'.heap[a]? = some c) (setCell a c s) := by
  rw [setCell_apply c (lt_size_of_get ha)]
  obtain ⟨h1, h2⟩ := heapOk_set hs ha hold hc
  refine ⟨h1, h2, ?_⟩
  show (s.heap.set! a c)[a]? = some c
  simp [lt_size_of_get ha]


/-! ## read-only computations -/

/-- a result that is not a panic; a value satisfies `Q` -/
def ResOk {α} (Q : α → Prop) : Res α → Prop
  | .ok a => Q a
  | .panic => False
  | _ => True

/-- pointwise relation of two lists of the same length -/
inductive All2 {α β} (P : α → β → Prop) : List α → List β → Prop
  | nil : All2 P [] []
  | cons {a b as bs} : P a b → All2 P as bs → All2 P (a :: as) (b :: bs)

theorem All2.right {α β} {P : α → β → Prop} {Q : β → Prop} (hpq : ∀ a b, P a b → Q b) :
    ∀ {l : List α} {bs : List β}, All2 P l bs → ∀ b ∈ bs, Q b
  | _, _, .nil, b, hb => by cases hb
  | _, _, .cons h t, b, hb => by
    rcases List.mem_cons.mp hb with rfl | hb
    · exact hpq _ _ h
    · exact All2.right hpq t b hb

/-- `m` run in `s` does not change the state and does not panic -/
def RO {α} (m : M ν α) (s : VM ν) (Q : α → Prop) : Prop := ∃ r, m s = (r, s) ∧ ResOk Q r

section ro
variable {α β : Type} {s : VM ν}

theorem RO.pure {Q : α → Prop} {a : α} (q : Q a) : RO (pure a : M ν α) s Q := ⟨.ok a, rfl, q⟩
theorem RO.rtErr {Q : α → Prop} (c : Nat) : RO (rtErr c : M ν α) s Q := ⟨.err (.rt c), rfl, trivial⟩
theorem RO.fuel {Q : α → Prop} : RO (outOfFuel : M ν α) s Q := ⟨.fuel, rfl, trivial⟩

theorem RO.getCell {a : Nat} {c : Cell ν} (h : s.heap[a]? = some c) : RO (getCell a) s (fun c' => c' = c) :=
  ⟨.ok c, getCell_apply h, rfl⟩

theorem RO.weaken {m : M ν α} {Q Q' : α → Prop} (h : RO m s Q) (hq : ∀ a, Q a → Q' a) : RO m s Q' := by
  obtain ⟨r, hr, hq'⟩ := h
  refine ⟨r, hr, ?_⟩
  cases r <;> first | exact hq _ hq' | exact hq'

theorem RO.bind {m : M ν α} {f : α → M ν β} {Q1 : α → Prop} {Q2 : β → Prop}
    (h1 : RO m s Q1) (h2 : ∀ a, Q1 a → RO (f a) s Q2) : RO (m >>= f) s Q2 := by
  obtain ⟨r, hr, hq⟩ := h1
  cases r with
  | ok a =>
    obtain ⟨r2, hr2, hq2⟩ := h2 a hq
    exact ⟨r2, by rw [bind_apply, hr]; exact hr2, hq2⟩
  | err e => exact ⟨.err e, by rw [bind_apply, hr], trivial⟩
  | panic => exact hq.elim
  | fuel => exact ⟨.fuel, by rw [bind_apply, hr], trivial⟩
  | unmodelled => exact ⟨.unmodelled, by rw [bind_apply, hr], trivial⟩

/-- a read-only step in front of a state-changing continuation -/
theorem RO.post_bind {R : Heap ν → Heap ν → Prop} [RelOk R] {m : M ν α} {f : α → M ν β} {Q1 : α → Prop}
    {Q2 : β → VM ν → Prop} (hs : HeapOk s.heap) (h1 : RO m s Q1) (h2 : ∀ a, Q1 a → Post R s Q2 (f a s)) :
    Post R s Q2 ((m >>= f) s) := by
  obtain ⟨r, hr, hq⟩ := h1
  rw [bind_apply, hr]
  cases r with
  | ok a => exact h2 a hq
  | err e => exact ⟨hs, RelOk.refl _⟩
  | panic => exact hq.elim
  | fuel => exact ⟨hs, RelOk.refl _⟩
  | unmodelled => exact ⟨hs, RelOk.refl _⟩

theorem RO.post {R : Heap ν → Heap ν → Prop} [RelOk R] {m : M ν α} {Q : α → Prop} (hs : HeapOk s.heap) (h : RO m s Q) :
    Post R s (fun a s' => s' = s ∧ Q a) (m s) := by
  obtain ⟨r, hr, hq⟩ := h
  rw [hr]
  cases r with
  | ok a => exact ⟨hs, RelOk.refl _, rfl, hq⟩
  | err e => exact ⟨hs, RelOk.refl _⟩
  | panic => exact hq.elim
  | fuel => exact ⟨hs, RelOk.refl _⟩
  | unmodelled => exact ⟨hs, RelOk.refl _⟩

theorem RO.forM {l : List α} {f : α → M ν PUnit} {P : α → Prop} (h : ∀ x ∈ l, RO (f x) s (fun _ => P x)) :
    RO (l.forM f) s (fun _ => ∀ x ∈ l, P x) := by
  induction l with
  | nil => exact ⟨.ok ⟨⟩, rfl, fun x hx => by cases hx⟩
  | cons x xs ih =>
    simp only [List.forM]
    refine RO.bind (h x (by simp)) (fun _ hx => ?_)
    refine RO.weaken (ih (fun y hy => h y (by simp [hy]))) (fun _ hxs => ?_)
    intro y hy
    rcases List.mem_cons.mp hy with rfl | hy
    · exact hx
    · exact hxs y hy

theorem RO.mapM {l : List α} {f : α → M ν β} {P : α → β → Prop} (h : ∀ x ∈ l, RO (f x) s (P x)) :
    RO (l.mapM f) s (fun bs => All2 P l bs) := by
  induction l with
  | nil => rw [List.mapM_nil]; exact RO.pure .nil
  | cons x xs ih =>
    rw [List.mapM_cons]
    refine RO.bind (h x (by simp)) (fun b hb => ?_)
    refine RO.bind (ih (fun y hy => h y (by simp [hy]))) (fun bs hbs => ?_)
    exact RO.pure (.cons hb hbs)

theorem RO.allM {l : List α} {f : α → M ν Bool} (h : ∀ x ∈ l, RO (f x) s (fun _ => True)) :
    RO (ZnVerif.Model.allM f l) s (fun _ => True) := by
  induction l with
  | nil => exact RO.pure trivial
  | cons x xs ih =>
    unfold ZnVerif.Model.allM
    refine RO.bind (h x (by simp)) (fun b _ => ?_)
    cases b
    · exact RO.pure trivial
    · exact ih (fun y hy => h y (by simp [hy]))

end ro

/-! ## validators -/

theorem ro_validateOne {s : VM ν} {a : Nat} (ty : String) (ha : a < s.heap.size) :
    RO (validateOne a ty) s (fun _ => ∃ c, s.heap[a]? = some c ∧ typeMatches c ty = true) := by
  obtain ⟨c, hc⟩ := get_of_lt_size ha
  unfold validateOne
  refine RO.bind (RO.getCell hc) (fun c' hc' => ?_)
  subst hc'
  split
  · next h => exact RO.pure ⟨c', hc, h⟩
  · exact RO.rtErr _

theorem ro_validateAll {s : VM ν} {vals : List Addr} (ty : String) (hv : ∀ v ∈ vals, v < s.heap.size) :
    RO (validateAll vals ty) s (fun _ => ∀ v ∈ vals, ∃ c, s.heap[v]? = some c ∧ typeMatches c ty = true) := by
  unfold validateAll
  exact RO.forM (fun v hvm => ro_validateOne ty (hv v hvm))

theorem ro_validateExact {s : VM ν} {vals : List Addr} (tys : List String) (hv : ∀ v ∈ vals, v < s.heap.size) :
    RO (validateExact vals tys) s (fun _ => vals.length = tys.length ∧
      ∀ p ∈ vals.zip tys, ∃ c, s.heap[p.1]? = some c ∧ typeMatches c p.2 = true) := by
  unfold validateExact
  split
  · exact RO.rtErr _
  · next hlen =>
    refine RO.weaken (RO.forM (P := fun p => ∃ c, s.heap[p.1]? = some c ∧ typeMatches c p.2 = true) (fun p hp => ?_))
      (fun _ h => ⟨by simpa using hlen, h⟩)
    exact ro_validateOne p.2 (hv p.1 (List.of_mem_zip hp).1)


/-! ## association lists, `hmAppend`, `newHashMapCell` -/

theorem lookup_isSome_of_mem {β} {k : String} {v : β} : ∀ {l : List (String × β)}, (k, v) ∈ l → (lookup k l).isSome = true
  | [], h => by cases h
  | (k', v') :: rest, h => by
    unfold lookup
    split
    · rfl
    · next hne =>
      rcases List.mem_cons.mp h with heq | h
      · injection heq with h1 h2; exact absurd h1 hne
      · exact lookup_isSome_of_mem h

theorem mem_of_lookup {β} {k : String} {v : β} : ∀ {l : List (String × β)}, lookup k l = some v → (k, v) ∈ l
  | [], h => by simp [lookup] at h
  | (k', v') :: rest, h => by
    unfold lookup at h
    split at h
    · next heq => injection h with h; subst h; subst heq; exact List.mem_cons_self
    · exact List.mem_cons_of_mem _ (mem_of_lookup h)

theorem mem_assocSet {β} {k : String} {v : β} {p : String × β} : ∀ {l : List (String × β)}, p ∈ assocSet k v l → p = (k, v) ∨ p ∈ l
  | [], h => by simp [assocSet] at h; exact .inl h
  | (k', v') :: rest, h => by
    unfold assocSet at h
    split at h
    · rcases List.mem_cons.mp h with h | h
      · exact .inl h
      · exact .inr (List.mem_cons_of_mem _ h)
    · rcases List.mem_cons.mp h with h | h
      · exact .inr (h ▸ List.mem_cons_self)
      · rcases mem_assocSet h with h | h
        · exact .inl h
        · exact .inr (List.mem_cons_of_mem _ h)

theorem lookup_assocSet_isSome {β} {k k' : String} {v : β} : ∀ {l : List (String × β)},
    (lookup k l).isSome = true → (lookup k (assocSet k' v l)).isSome = true
  | [], h => by simp [lookup] at h
  | (k2, v2) :: rest, h => by
    unfold assocSet
    split
    · next heq =>
      subst heq
      unfold lookup at h ⊢
      split
      · rfl
      · next hne => simp only [hne, if_false] at h; exact h
    · next hne =>
      unfold lookup at h ⊢
      split
      · rfl
      · next hne2 => simp only [hne2, if_false] at h; exact lookup_assocSet_isSome h

theorem lookup_append_isSome {β} {k : String} {l : List (String × β)} (l2 : List (String × β))
    (h : (lookup k l).isSome = true) : (lookup k (l ++ l2)).isSome = true := by
  induction l with
  | nil => simp [lookup] at h
  | cons p rest ih =>
    obtain ⟨k', v'⟩ := p
    rw [List.cons_append]
    unfold lookup at h ⊢
    split
    · rfl
    · next hne => simp only [hne, if_false] at h; exact ih h

theorem lookup_append_self {β} {k : String} {v : β} (l : List (String × β)) : (lookup k (l ++ [(k, v)])).isSome = true := by
  induction l with
  | nil => simp [lookup]
  | cons p rest ih =>
    obtain ⟨k', v'⟩ := p
    rw [List.cons_append]
    unfold lookup
    split
    · rfl
    · exact ih

/-- the dictionary part of `CellOk` -/
def HmOk (h : Heap ν) (vals : List (String × Addr)) (order : List String) : Prop :=
  (∀ p ∈ vals, p.2 < h.size) ∧ (∀ k ∈ order, (lookup k vals).isSome = true) ∧ order.Nodup

theorem hmAppend_ok {h : Heap ν} {vals : List (String × Addr)} {order : List String} (hok : HmOk h vals order)
    (k : String) {v : Nat} (hv : v < h.size) : HmOk h (hmAppend vals order k v).1 (hmAppend vals order k v).2 := by
  obtain ⟨h1, h2, h3⟩ := hok
  unfold hmAppend
  split
  · next x hx =>
    refine ⟨?_, ?_, h3⟩
    · intro p hp
      rcases mem_assocSet hp with rfl | hp
      · exact hv
      · exact h1 p hp
    · intro k2 hk2
      exact lookup_assocSet_isSome (h2 k2 hk2)
  · next hx =>
    have hnot : k ∉ order := fun hk => by have := h2 k hk; rw [hx] at this; cases this
    refine ⟨?_, ?_, ?_⟩
    · intro p hp
      rcases List.mem_append.mp hp with hp | hp
      · exact h1 p hp
      · simp at hp; subst hp; exact hv
    · intro k2 hk2
      rcases List.mem_append.mp hk2 with hk2 | hk2
      · exact lookup_append_isSome _ (h2 k2 hk2)
      · simp at hk2; subst hk2; exact lookup_append_self _
    · exact List.nodup_append.mpr ⟨h3, by simp, by
        intro a ha b hb
        simp at hb; subst hb
        exact fun heq => hnot (heq ▸ ha)⟩

theorem HmOk.cellOk {h : Heap ν} {vals : List (String × Addr)} {order : List String} (hok : HmOk h vals order) :
    CellOk h (.hm vals order) := hok

theorem newHashMapCell_ok {h : Heap ν} (kvs : List (String × Addr)) (hk : ∀ p ∈ kvs, p.2 < h.size) :
    CellOk h (newHashMapCell kvs : Cell ν) := by
  unfold newHashMapCell
  have key : ∀ (l : List (String × Addr)) (acc : List (String × Addr) × List String),
      (∀ p ∈ l, p.2 < h.size) → HmOk h acc.1 acc.2 →
      HmOk h (l.foldl (fun (acc : List (String × Addr) × List String) kv =>
        match lookup kv.1 acc.1 with
        | some _ => (assocSet kv.1 kv.2 acc.1, acc.2)
        | none => (acc.1 ++ [kv], acc.2 ++ [kv.1])) acc).1
        (l.foldl (fun (acc : List (String × Addr) × List String) kv =>
        match lookup kv.1 acc.1 with
        | some _ => (assocSet kv.1 kv.2 acc.1, acc.2)
        | none => (acc.1 ++ [kv], acc.2 ++ [kv.1])) acc).2 := by
    intro l
    induction l with
    | nil => intro acc _ hacc; exact hacc
    | cons kv rest ih =>
      intro acc hl hacc
      rw [List.foldl_cons]
      apply ih
      · exact fun p hp => hl p (List.mem_cons_of_mem _ hp)
      · have := hmAppend_ok hacc kv.1 (hl kv List.mem_cons_self)
        unfold hmAppend at this
        exact this
  have := key kvs ([], []) hk ⟨by simp, by simp, by simp⟩
  exact this.cellOk


/-! ## display, equality: read-only and total on well-formed heaps -/

theorem ro_display : ∀ (n : Nat) {s : VM ν} {a : Nat}, HeapOk s.heap → a < s.heap.size →
    RO (display n a) s (fun _ => True) := by
  intro n
  induction n with
  | zero => intro s a _ _; exact RO.fuel
  | succ n ih =>
    intro s a hs ha
    obtain ⟨c, hc⟩ := get_of_lt_size ha
    have hok := hs a c hc
    unfold display
    refine RO.bind (RO.getCell hc) (fun c' hc' => ?_)
    subst hc'
    cases c' with
    | num x => exact RO.pure trivial
    | str t => exact RO.pure trivial
    | bool b => exact RO.pure trivial
    | null => exact RO.pure trivial
    | arr items =>
      refine RO.bind (RO.mapM (P := fun _ _ => True) (fun x hx => ih hs (hok x hx))) (fun _ _ => RO.pure trivial)
    | hm vals order =>
      refine RO.bind (RO.mapM (P := fun _ _ => True) (fun k hk => ?_)) (fun _ _ => RO.pure trivial)
      have hsome := hok.2.1 k hk
      cases hl : lookup k vals with
      | none => rw [hl] at hsome; cases hsome
      | some v =>
        have hv : v < s.heap.size := hok.1 (k, v) (mem_of_lookup hl)
        exact RO.bind (ih hs hv) (fun _ _ => RO.pure trivial)
    | obj cl props =>
      obtain ⟨nm, ct, pr, ms, hcl⟩ := hok.1
      refine RO.bind (RO.getCell hcl) (fun c2 hc2 => ?_)
      subst hc2
      exact RO.pure trivial
    | fn f => exact RO.pure trivial
    | cls nm ct pr ms => exact RO.pure trivial
    | exc msg => exact RO.pure trivial

theorem ro_compareXEQ : ∀ (n : Nat) {s : VM ν} {l r : Nat}, HeapOk s.heap → l < s.heap.size → r < s.heap.size →
    RO (compareXEQ n l r) s (fun _ => True) := by
  intro n
  induction n with
  | zero => intro s l r _ _ _; exact RO.fuel
  | succ n ih =>
    intro s l r hs hl hr
    obtain ⟨cl, hcl⟩ := get_of_lt_size hl
    obtain ⟨cr, hcr⟩ := get_of_lt_size hr
    have hokl := hs l cl hcl
    have hokr := hs r cr hcr
    unfold compareXEQ
    refine RO.bind (RO.getCell hcl) (fun c1 hc1 => ?_)
    subst hc1
    refine RO.bind (RO.getCell hcr) (fun c2 hc2 => ?_)
    subst hc2
    cases c1 with
    | null => exact RO.pure trivial
    | num x => exact RO.pure trivial
    | str x => exact RO.pure trivial
    | bool x => exact RO.pure trivial
    | arr xs =>
      cases c2 with
      | arr ys =>
        dsimp only
        split
        · exact RO.pure trivial
        · refine RO.allM (fun p hp => ?_)
          have := List.of_mem_zip hp
          exact ih hs (hokl p.1 this.1) (hokr p.2 this.2)
      | _ => exact RO.pure trivial
    | hm lv lo =>
      cases c2 with
      | hm rv ro =>
        dsimp only
        split
        · exact RO.pure trivial
        · refine RO.allM (fun k hk => ?_)
          cases hrl : lookup k rv with
          | none => exact RO.pure trivial
          | some b =>
            have hsome := hokl.2.1 k hk
            cases hll : lookup k lv with
            | none => rw [hll] at hsome; cases hsome
            | some a =>
              exact ih hs (hokl.1 (k, a) (mem_of_lookup hll)) (hokr.1 (k, b) (mem_of_lookup hrl))
      | _ => exact RO.pure trivial
    | obj _ _ => exact RO.rtErr _
    | fn _ => exact RO.rtErr _
    | cls _ _ _ _ => exact RO.rtErr _
    | exc _ => exact RO.rtErr _


/-! ## allocating loops, `dup` -/

/-- `P b s`: a property of a produced value that survives further runs related by `R` -/
theorem post_mapM {R : Heap ν → Heap ν → Prop} [RelOk R] {α β : Type} {f : α → M ν β} {P : β → VM ν → Prop}
    (hP : ∀ b (s s' : VM ν), P b s → R s.heap s'.heap → P b s') :
    ∀ (l : List α) (s : VM ν), HeapOk s.heap →
      (∀ x ∈ l, ∀ s' : VM ν, HeapOk s'.heap → R s.heap s'.heap → Post R s' P (f x s')) →
      Post R s (fun bs s' => ∀ b ∈ bs, P b s') (l.mapM f s) := by
  intro l
  induction l with
  | nil => intro s hs _; rw [List.mapM_nil]; exact Post.pure hs (fun b hb => by cases hb)
  | cons x xs ih =>
    intro s hs hf
    rw [List.mapM_cons]
    refine Post.bind (hf x (by simp) s hs (RelOk.refl _)) (fun b s1 hs1 r1 hb => ?_)
    refine Post.bind (ih s1 hs1 (fun y hy s' hs' r' => hf y (by simp [hy]) s' hs' (RelOk.trans r1 r'))) (fun bs s2 hs2 r2 hbs => ?_)
    refine Post.pure hs2 (fun b' hb' => ?_)
    rcases List.mem_cons.mp hb' with rfl | hb'
    · exact hP _ _ _ hb r2
    · exact hbs b' hb'

theorem lt_stable (b : Nat) (s s' : VM ν) (h : b < s.heap.size) (p : Pre s.heap s'.heap) : b < s'.heap.size :=
  Nat.lt_of_lt_of_le h p.size

theorem post_dup : ∀ (n : Nat) {s : VM ν} {a : Nat}, HeapOk s.heap → a < s.heap.size →
    Post Pre s (fun r s' => r < s'.heap.size) (dup n a s) := by
  intro n
  induction n with
  | zero => intro s a hs _; exact Post.fuel hs
  | succ n ih =>
    intro s a hs ha
    obtain ⟨c, hc⟩ := get_of_lt_size ha
    have hok := hs a c hc
    unfold dup
    refine RO.post_bind hs (RO.getCell hc) (fun c' hc' => ?_)
    subst hc'
    cases c' with
    | bool b => exact (post_alloc hs (c := .bool b) trivial).weaken (fun _ _ _ _ q => q.1)
    | str t => exact (post_alloc hs (c := .str t) trivial).weaken (fun _ _ _ _ q => q.1)
    | num x => exact (post_alloc hs (c := .num x) trivial).weaken (fun _ _ _ _ q => q.1)
    | null => exact Post.pure hs ha
    | arr items =>
      refine Post.bind (post_mapM (P := fun b s => b < s.heap.size) lt_stable items s hs
        (fun x hx s' hs' r' => ih hs' (Nat.lt_of_lt_of_le (hok x hx) r'.size))) (fun items' s1 hs1 _ hit => ?_)
      exact (post_alloc hs1 (c := .arr items') hit).weaken (fun _ _ _ _ q => q.1)
    | hm vals order =>
      refine Post.bind (post_mapM (P := fun (b : String × Addr) s => b.2 < s.heap.size)
        (fun b s s' h p => Nat.lt_of_lt_of_le h p.size) order s hs
        (fun k hk s' hs' r' => ?_)) (fun kvs s1 hs1 _ hkvs => ?_)
      · have hsome := hok.2.1 k hk
        cases hl : lookup k vals with
        | none => rw [hl] at hsome; cases hsome
        | some v =>
          have hv : v < s'.heap.size := Nat.lt_of_lt_of_le (hok.1 (k, v) (mem_of_lookup hl)) r'.size
          exact Post.bind (ih hs' hv) (fun v' s2 hs2 _ hv' => Post.pure hs2 hv')
      · exact (post_alloc hs1 (newHashMapCell_ok kvs hkvs)).weaken (fun _ _ _ _ q => q.1)
    | obj _ _ => exact Post.pure hs ha
    | fn _ => exact Post.pure hs ha
    | cls _ _ _ _ => exact Post.pure hs ha
    | exc _ => exact Post.pure hs ha

end ZnVerif.Proofs.Builtins
