/-
Token-level round trip with layout, part 5: 如果 … 再如 … 否则.
-/
import ZnVerif.Proofs.StmtBlock

namespace ZnVerif.Proofs.StmtRT
open ZnVerif.Model ZnVerif.Model.Parser ZnVerif.Generated.Tokens ZnVerif.Generated.ParserTables
open ZnVerif.Spec.StmtSyntax

variable {Y : Layout} {v : Variant}

theorem toStmt_same (acc : BranchAcc) (h1 : acc.hasElse = false) (h2 : acc.elseB = none) :
    BranchAcc.toStmt { acc with others := acc.others ++ [], hasElse := false, elseB := none } = acc.toStmt := by
  unfold BranchAcc.toStmt
  simp [h1, h2]

/-- the loop header in the states "after the 如果 block" / "after a 再如 block" when no 再如 / 否则 follows -/
theorem branchHeader_none {d : Nat} (m : Nat) (st : BrSt) (hst : st = .ifB ∨ st = .other) (p1 : Option Token) (rest : List Token)
    (hne : (Y.peek rest).type ≠ cTypeEOF) (hf : Foll Y d rest) :
    branchHeader (layoutOps Y) m d st (S Y p1 rest true) = .ok none (S Y p1 rest true) := by
  have hd : Y.ind (Y.peek rest) < d ∨ (Y.ind (Y.peek rest) = d ∧ (Y.peek rest).type ∉ condKeywords) :=
    hf.dedent.elim (fun h => absurd h hne) id
  rcases hst with rfl | rfl <;>
  · unfold branchHeader
    simp only []
    rw [bind_ok (getS_S _)]
    rcases hd with hd | hd
    · have : peekIndentOf (layoutOps Y) (S Y p1 rest true) ≠ d := by rw [peekIndentOf_S]; omega
      simp only [this, ne_eq, not_false_eq_true, if_true]
      rfl
    · have : peekIndentOf (layoutOps Y) (S Y p1 rest true) = d := by rw [peekIndentOf_S]; exact hd.1
      simp only [this, ne_eq, not_true_eq_false, if_false]
      rw [bind_ok (unsetFlag_S p1 rest true), bind_ok (tryConsume_miss m _ p1 rest false (Or.inr hd.2) hf.nc)]
      rfl

/-- the loop header when 再如 / 否则 follows on a line indented like the 如果 -/
theorem branchHeader_some {d : Nat} (m : Nat) (st : BrSt) (hst : st = .ifB ∨ st = .other) (p1 : Option Token) (kw : Token)
    (r : List Token) (hk : kw.type ∈ condKeywords) (hind : Y.ind kw = d) (ho : Y.InOrder (kw :: r)) :
    branchHeader (layoutOps Y) (m + 1) d st (S Y p1 (kw :: r) true) =
      .ok (some (if kw.type = cTypeCondOtherW then .other else .elseB)) (S Y (some kw) r (Y.brk kw (Y.peek r))) := by
  have hkc : kw.type ≠ cTypeCommaSep := by
    intro h; rw [h] at hk; revert hk; decide
  rcases hst with rfl | rfl <;>
  · unfold branchHeader
    simp only []
    rw [bind_ok (getS_S _)]
    have : peekIndentOf (layoutOps Y) (S Y p1 (kw :: r) true) = d := by rw [peekIndentOf_S]; exact hind
    simp only [this, ne_eq, not_true_eq_false, if_false]
    rw [bind_ok (unsetFlag_S p1 _ true), bind_ok (tryConsume_hit m _ p1 kw r hk hkc ho)]
    rfl

theorem tail_nil (d : Nat) : CTail v Y d [] false none [] := by
  intro p1 rest st acc hst h1 h2 ho hb hf n' hn
  obtain ⟨m, rfl⟩ : ∃ m, n' = m + 1 := ⟨n' - 1, by unfold fB at hn; omega⟩
  have hst' : (st == BrSt.init) = false := by rcases hst with rfl | rfl <;> rfl
  show pBranchLoop v (layoutOps Y) m _ d st acc _ = _
  unfold pBranchLoop
  rw [bind_ok (getS_S _)]
  simp only [List.nil_append, lastTok_nil, toStmt_same acc h1 h2]
  by_cases he : (Y.peek rest).type = cTypeEOF
  · have hcond : ¬ ((v.ifFix && st == BrSt.init || decide ((S Y p1 rest true).p2.type ≠ cTypeEOF)) = true) := by
      have : (S Y p1 rest true).p2.type = cTypeEOF := he
      simp [hst', this]
    rw [if_neg hcond]
    rfl
  · have hcond : (v.ifFix && st == BrSt.init || decide ((S Y p1 rest true).p2.type ≠ cTypeEOF)) = true := by
      have : (S Y p1 rest true).p2.type ≠ cTypeEOF := he
      simp [this]
    rw [if_pos hcond, bind_ok (branchHeader_none m st hst p1 rest he hf)]
    rfl

theorem tail_else {d : Nat} {kw colon : Token} {b : List Stmt} {tb : List Token}
    (hk : kw.type = cTypeCondElseW) (hcol : colon.type = cTypeFuncCall) (hg : Y.Glued [kw, colon]) (hik : Y.ind kw = d)
    (hind : Y.ind colon = d) (hne : tb ≠ []) (hH : Heads Y (d + 1) stmtHeads tb) (hB : CBlockA v Y (d + 1) b tb) :
    CTail v Y d [] true (some b) (kw :: colon :: tb) := by
  intro p1 rest st acc hst h1 h2 ho hb hf n' hn
  obtain ⟨m, rfl⟩ : ∃ m, n' = m + 2 := ⟨n' - 2, by unfold fB at hn; omega⟩
  have hst' : (st == BrSt.init) = false := by rcases hst with rfl | rfl <;> rfl
  have e0 : (kw :: colon :: tb) ++ rest = kw :: colon :: (tb ++ rest) := rfl
  rw [e0] at ho ⊢
  have el : (kw :: colon :: tb).getLast? = tb.getLast? := getLast?_append_ne [kw, colon] hne
  have hbl : Y.jf tb.getLast? (Y.peek rest) = true := by rw [← el]; exact hb (by simp)
  rw [lastTok_ne p1 (by simp : kw :: colon :: tb ≠ []), el]
  show pBranchLoop v (layoutOps Y) (m + 1) _ d st acc _ = _
  unfold pBranchLoop
  rw [bind_ok (getS_S _)]
  have hke : (S Y p1 (kw :: colon :: (tb ++ rest)) true).p2.type ≠ cTypeEOF := by show kw.type ≠ _; rw [hk]; decide
  have hcond : (v.ifFix && st == BrSt.init ||
      decide ((S Y p1 (kw :: colon :: (tb ++ rest)) true).p2.type ≠ cTypeEOF)) = true := by simp [hke]
  rw [if_pos hcond, bind_ok (branchHeader_some m st hst p1 kw _ (by rw [hk]; decide) hik ho)]
  have hko : ¬ kw.type = cTypeCondOtherW := by rw [hk]; decide
  simp only [hko, if_false]
  have hb1 : Y.brk kw (Y.peek (colon :: (tb ++ rest))) = false := glued_head hg
  rw [hb1]
  have hlen : fB tb + 1 ≤ m + 1 := by unfold fB at hn ⊢; simp only [List.length_cons] at hn; omega
  obtain ⟨h2', h3, h4⟩ := colon_block (v := v) hcol hind hne hH hB (some kw) rest (inOrder_tail ho) hbl hf.inner (m + 1) hlen
  simp only [ne_eq, not_true_eq_false, if_false]
  rw [bind_ok (show (pure Expr.nil : PM (List Token) Expr) _ = .ok Expr.nil _ from rfl), bind_ok h2', bind_ok h3]
  dsimp only
  show (parse v (layoutOps Y) (m + 1) (.block (d + 1)) >>= _) _ = _
  rw [bind_ok h4]
  simp only [List.append_nil]
  rfl

theorem tail_other {d : Nat} {kw colon : Token} {c : Expr} {tc : List Token} {b : List Stmt} {tb : List Token}
    {os : List (Expr × Option (List Stmt))} {he : Bool} {eb : Option (List Stmt)} {tt : List Token}
    (hk : kw.type = cTypeCondOtherW) (hc : LinE Y 1 c tc) (hcol : colon.type = cTypeFuncCall)
    (hg : Y.Glued (kw :: tc ++ [colon])) (hik : Y.ind kw = d) (hind : Y.ind colon = d) (hne : tb ≠ [])
    (hH : Heads Y (d + 1) stmtHeads tb) (hB : CBlockA v Y (d + 1) b tb) (hT : CTail v Y d os he eb tt)
    (hHt : Heads Y d condKeywords tt) (hsep : Y.Sep tb tt) :
    CTail v Y d ((c, some b) :: os) he eb (kw :: tc ++ colon :: (tb ++ tt)) := by
  intro p1 rest st acc hst h1 h2 ho hb hf n' hn
  obtain ⟨m, rfl⟩ : ∃ m, n' = m + 2 := ⟨n' - 2, by unfold fB at hn; omega⟩
  have hst' : (st == BrSt.init) = false := by rcases hst with rfl | rfl <;> rfl
  have hfc := linE_facts hc
  have e0 : (kw :: tc ++ colon :: (tb ++ tt)) ++ rest = kw :: (tc ++ colon :: (tb ++ (tt ++ rest))) := by simp
  rw [e0] at ho ⊢
  have el : (kw :: tc ++ colon :: (tb ++ tt)).getLast? = (tb ++ tt).getLast? :=
    getLast?_hdr (kw :: tc) colon (by simp [hne])
  have hbr : Brk Y (tb ++ tt) rest := fun h => by rw [← el]; exact hb (by simp)
  have hlt : lastTok p1 (kw :: tc ++ colon :: (tb ++ tt)) = lastTok tb.getLast? tt := by
    rw [lastTok_ne p1 (by simp), el, ← lastTok_ne p1 (by simp [hne] : tb ++ tt ≠ []), lastTok_append, lastTok_ne p1 hne]
  rw [hlt]
  show pBranchLoop v (layoutOps Y) (m + 1) _ d st acc _ = _
  unfold pBranchLoop
  rw [bind_ok (getS_S _)]
  have hke : (S Y p1 (kw :: (tc ++ colon :: (tb ++ (tt ++ rest)))) true).p2.type ≠ cTypeEOF := by
    show kw.type ≠ _; rw [hk]; decide
  have hcond : (v.ifFix && st == BrSt.init ||
      decide ((S Y p1 (kw :: (tc ++ colon :: (tb ++ (tt ++ rest)))) true).p2.type ≠ cTypeEOF)) = true := by simp [hke]
  rw [if_pos hcond, bind_ok (branchHeader_some m st hst p1 kw _ (by rw [hk]; decide) hik ho)]
  simp only [hk, if_true]
  have hb1 : Y.brk kw (Y.peek (tc ++ colon :: (tb ++ (tt ++ rest)))) = false := by
    have hg' : Y.Glued (kw :: (tc ++ [colon])) := hg
    rw [peek_append hfc.1]
    cases tc with
    | nil => exact absurd rfl hfc.1
    | cons u r => exact glued_head hg'
  rw [hb1]
  have hlen : 16 * tc.length + 16 ≤ m + 1 ∧ fB tb + 1 ≤ m + 1 ∧ fB tt ≤ m + 1 := by
    unfold fB at hn ⊢; simp only [List.length_cons, List.length_append] at hn; omega
  have ho1 := inOrder_tail ho
  have hx := header_expr (v := v) hc hcol (glued_tail (t := kw) hg) (some kw) (tb ++ (tt ++ rest)) ho1 (m + 1) hlen.1
  have hab : AfterB Y (d + 1) tb.getLast? (tt ++ rest) :=
    afterB_mid hne hsep hbr hf.inner hHt (by decide)
  have e1 : tb ++ (tt ++ rest) = tb ++ (tt ++ rest) := rfl
  obtain ⟨h2', h3, h4⟩ := colon_block (v := v) hcol hind hne hH hB tc.getLast? (tt ++ rest) (inOrder_drop tc ho1) hab.brk
    ⟨hab.nc, hab.dedent⟩ (m + 1) hlen.2.1
  show (parse v (layoutOps Y) (m + 1) (.expr true) >>= _) _ = _
  rw [bind_ok hx, bind_ok h2', bind_ok h3]
  dsimp only
  show (parse v (layoutOps Y) (m + 1) (.block (d + 1)) >>= _) _ = _
  rw [bind_ok h4]
  have := hT tb.getLast? rest .other { acc with others := acc.others ++ [(c, some b)] } (Or.inr rfl) h1 h2
    (inOrder_drop tb (inOrder_tail (inOrder_drop tc ho1))) hbr.right hf (m + 1) hlen.2.2
  rw [this]
  simp only [List.append_assoc, List.singleton_append]

/-- 如果 c：block, then the tail -/
theorem stmt_branch {d : Nat} {kw colon : Token} {c : Expr} {tc : List Token} {b : List Stmt} {tb : List Token}
    {os : List (Expr × Option (List Stmt))} {he : Bool} {eb : Option (List Stmt)} {tt : List Token}
    (hk : kw.type = cTypeCondW) (hc : LinE Y 1 c tc) (hcol : colon.type = cTypeFuncCall)
    (hg : Y.Glued (kw :: tc ++ [colon])) (hik : Y.ind kw = d) (hind : Y.ind colon = d) (hne : tb ≠ [])
    (hH : Heads Y (d + 1) stmtHeads tb) (hB : CBlockA v Y (d + 1) b tb) (hT : CTail v Y d os he eb tt)
    (hHt : Heads Y d condKeywords tt) (hsep : Y.Sep tb tt) :
    CStmt v Y d (.branch (Y.sl kw) c (some b) os he eb) (kw :: tc ++ colon :: (tb ++ tt)) := by
  intro p1 rest fl ho ha n' hn
  obtain ⟨m, rfl⟩ : ∃ m, n' = m + 4 := ⟨n' - 4, by unfold fS at hn; omega⟩
  have hfc := linE_facts hc
  have e0 : (kw :: tc ++ colon :: (tb ++ tt)) ++ rest = kw :: (tc ++ colon :: (tb ++ (tt ++ rest))) := by simp
  rw [e0] at ho ⊢
  have el : (kw :: tc ++ colon :: (tb ++ tt)).getLast? = (tb ++ tt).getLast? :=
    getLast?_hdr (kw :: tc) colon (by simp [hne])
  rw [el] at ha ⊢
  have hbr : Brk Y (tb ++ tt) rest := fun _ => ha.brk
  have hlt : (tb ++ tt).getLast? = lastTok tb.getLast? tt := by
    rw [← lastTok_ne none (by simp [hne] : tb ++ tt ≠ []), lastTok_append, lastTok_ne none hne]
  rw [hlt]
  refine statement_kw (Y := Y) (v := v) (m + 2) p1 fl kw _ (.branch 0 c (some b) os he eb) _ rest (by rw [hk]; decide)
    (by rw [hk]; decide) ho ?_
  rw [stmtBody_cond _ _ _ _ _ hk]
  have hb1 : Y.brk kw (Y.peek (tc ++ colon :: (tb ++ (tt ++ rest)))) = false := by
    have hg' : Y.Glued (kw :: (tc ++ [colon])) := hg
    rw [peek_append hfc.1]
    cases tc with
    | nil => exact absurd rfl hfc.1
    | cons u r => exact glued_head hg'
  rw [hb1]
  show pBranch (layoutOps Y) _ _ = _
  unfold pBranch
  rw [bind_ok (getS_S _), currIndentOf_S, hik]
  show pBranchLoop v (layoutOps Y) (m + 1) _ d .init {} _ = _
  unfold pBranchLoop
  rw [bind_ok (getS_S _)]
  have hp2 : (S Y (some kw) (tc ++ colon :: (tb ++ (tt ++ rest))) false).p2.type ≠ cTypeEOF := by
    show (Y.peek (tc ++ colon :: (tb ++ (tt ++ rest)))).type ≠ _
    rw [peek_append hfc.1]
    exact (exprHeads_spec _ hfc.2).1
  have hcond : (v.ifFix && BrSt.init == BrSt.init ||
      decide ((S Y (some kw) (tc ++ colon :: (tb ++ (tt ++ rest))) false).p2.type ≠ cTypeEOF)) = true := by
    simp [hp2]
  rw [if_pos hcond]
  have hhd : branchHeader (layoutOps Y) (m + 1) d .init (S Y (some kw) (tc ++ colon :: (tb ++ (tt ++ rest))) false) =
      .ok (some .ifB) (S Y (some kw) (tc ++ colon :: (tb ++ (tt ++ rest))) false) := rfl
  rw [bind_ok hhd]
  have hlen : 16 * tc.length + 16 ≤ m + 1 ∧ fB tb + 1 ≤ m + 1 ∧ fB tt ≤ m + 1 := by
    unfold fS at hn; unfold fB; simp only [List.length_cons, List.length_append] at hn; omega
  have ho1 := inOrder_tail ho
  have hx := header_expr (v := v) hc hcol (glued_tail (t := kw) hg) (some kw) (tb ++ (tt ++ rest)) ho1 (m + 1) hlen.1
  have hab : AfterB Y (d + 1) tb.getLast? (tt ++ rest) :=
    afterB_mid hne hsep hbr ha.foll.inner hHt (by decide)
  obtain ⟨h2', h3, h4⟩ := colon_block (v := v) hcol hind hne hH hB tc.getLast? (tt ++ rest) (inOrder_drop tc ho1) hab.brk
    ⟨hab.nc, hab.dedent⟩ (m + 1) hlen.2.1
  show (parse v (layoutOps Y) (m + 1) (.expr true) >>= _) _ = _
  rw [bind_ok hx, bind_ok h2', bind_ok h3]
  dsimp only
  show (parse v (layoutOps Y) (m + 1) (.block (d + 1)) >>= _) _ = _
  rw [bind_ok h4]
  have := hT tb.getLast? rest .ifB { ifE := c, ifB := some b } (Or.inl rfl) rfl rfl
    (inOrder_drop tb (inOrder_tail (inOrder_drop tc ho1))) hbr.right ha.foll (m + 1) hlen.2.2
  rw [this]
  rfl

end ZnVerif.Proofs.StmtRT
