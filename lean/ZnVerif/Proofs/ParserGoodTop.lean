/-
`step_good`, part 5: 如何 / exec blocks / 以 … / 遍历 / 抛出 / 拦截 / 导入 / 定义 / the program; then `step_good` and `parse_good`.
-/
import ZnVerif.Proofs.ParserGoodBlock

namespace ZnVerif.Proofs.ParserGood
open ZnVerif.Model ZnVerif.Model.Parser ZnVerif.Generated.Tokens ZnVerif.Generated.ParserTables
open ZnVerif.Spec.Grammar ZnVerif.Proofs.ParserHoare

variable {σ : Type} {ops : LexOps σ} {B : Nat} {μ : σ → Nat} {I : σ → Prop}
variable (hl : LexOK ops B μ I) {n : Nat} {rec : Rec σ} (hg : Good ops B μ I n rec)
include hl hg

theorem pFunctionBlock_good (s : PState σ) (hs : Inv ops B I s) :
    Sat (pFunctionBlock Variant.fixed ops n rec s) (Post ops B μ I .functionBlock s) (ErrOK B) (n + 1 < need μ .functionBlock s) := by
  unfold pFunctionBlock
  simp only [sat_bind]
  apply parseID_sat hl hs
  · intro i s1 hi1 hm1 hq1
    apply consume_sat hl hi1 (by decide)
    · intro s2 hi2 hm2 hq2
      apply expectBlockIndent_sat hi2 hq2
      intro r
      cases r with
      | none => exact errPeek_sat hi2 (by decide)
      | some bi =>
        simp only [sat_bind]
        apply hg.callN (.execBlock bi) hi2 trivial
        · intro x s3 hi3 hm3 hq3 hc3
          simp only [sat_pure]
          exact post_lt hi3 (by omega) (by omega) hc3
        · fuel_tac
    · fuel_tac
  · fuel_tac

omit hl in
theorem pExecBlock_good (indent : Nat) (s : PState σ) (hs : Inv ops B I s) :
    Sat (pExecBlock rec indent s) (Post ops B μ I (.execBlock indent) s) (ErrOK B) (n + 1 < need μ (.execBlock indent) s) := by
  unfold pExecBlock
  apply hg.call (.execLoop indent .input [] [] []) hs ⟨by intro x hx; simp at hx, by intro x hx; simp at hx⟩
  · intro x s1 h
    exact post_le rfl h.1 h.2.1 h.2.2.1 (fun hc => h.2.2.2.2.1 hc) h.2.2.2.2.2
  · fuel_tac

theorem pExecLoop_good (indent : Nat) (st : ExSt) (inputs : List Ident) (stmts : List Stmt)
    (catches : List (Option Ident × Option (List Stmt))) (s : PState σ) (hs : Inv ops B I s)
    (hpre : (∀ x ∈ stmts, CStmt x) ∧ ∀ c ∈ catches, CatchOK c) :
    Sat (pExecLoop Variant.fixed ops n rec indent st inputs stmts catches s)
      (Post ops B μ I (.execLoop indent st inputs stmts catches) s) (ErrOK B)
      (n + 1 < need μ (.execLoop indent st inputs stmts catches) s) := by
  unfold pExecLoop
  simp only [sat_bind, sat_getS]
  have hm0 : m μ ({ s with flag := false } : PState σ) = m μ s := rfl
  have hq0 : q ({ s with flag := false } : PState σ) = q s := rfl
  rw [sat_ite]
  refine ⟨fun hcond => ?_, fun hcond => ?_⟩
  · cases st with
    | input =>
      simp only [sat_bind]
      apply tryConsume_sat hl hs (by decide)
      · intro s1 hi1 hm1 hq1 hrel
        apply hg.call (.execLoop indent .stmt inputs stmts catches) hi1 hpre
        · intro x s2 h
          refine post_le rfl h.1 (by have := h.2.1; omega) (by have := h.2.2.1; omega) (fun _ => ?_) h.2.2.2.2.2
          rcases hrel with rfl | ⟨h1, h2⟩
          · exact h.2.2.2.2.1 hcond
          · exact ⟨by have := h.2.1; omega, by have := h.2.2.1; have := q_le_one s2; omega⟩
        · fuel_tac
      · intro tk s1 hi1 hm1 hq1 _ _
        simp only [sat_bind]
        apply hg.callS (.commaIds inputs) rfl hi1 trivial
        · intro ids s2 hi2 hm2 hq2 _
          apply hg.callN (.execLoop indent .input ids stmts catches) hi2 hpre
          · intro x s3 hi3 hm3 hq3 hc3
            exact post_le rfl hi3 (by omega) (by have := q_le_one s; omega)
              (fun _ => ⟨by omega, by have := q_le_one s3; omega⟩) hc3
          · fuel_tac
        · fuel_tac
      · fuel_tac
    | stmt =>
      simp only [sat_bind, sat_unsetFlag]
      apply tryConsume_sat hl (inv_flag false hs) (by decide)
      · intro s1 hi1 hm1 hq1 _
        simp only [sat_bind]
        apply hg.callS .statement rfl hi1 trivial
        · intro x s2 hi2 hm2 hq2 hc2
          apply hg.callN (.execLoop indent .stmt inputs (stmts ++ [x]) catches) hi2 ⟨mem_snoc hpre.1 hc2, hpre.2⟩
          · intro r s3 hi3 hm3 hq3 hc3
            exact post_le rfl hi3 (by omega) (by have := q_le_one s; omega)
              (fun _ => ⟨by omega, by have := q_le_one s3; omega⟩) hc3
          · fuel_tac
        · fuel_tac
      · intro tk s1 hi1 hm1 hq1 _ _
        simp only [sat_bind]
        apply hg.callS .catchStmt rfl hi1 trivial
        · intro c s2 hi2 hm2 hq2 hc2
          apply hg.callN (.execLoop indent .catch_ inputs stmts (catches ++ [c])) hi2 ⟨hpre.1, mem_snoc hpre.2 hc2⟩
          · intro r s3 hi3 hm3 hq3 hc3
            exact post_le rfl hi3 (by omega) (by have := q_le_one s; omega)
              (fun _ => ⟨by omega, by have := q_le_one s3; omega⟩) hc3
          · fuel_tac
        · fuel_tac
      · fuel_tac
    | catch_ =>
      simp only [sat_bind, sat_unsetFlag]
      apply tryConsume_sat hl (inv_flag false hs) (by decide)
      · intro s1 hi1 _ _ _
        simp only [Variant.fixed, if_true]
        exact errPeek_sat hi1 (by decide)
      · intro tk s1 hi1 hm1 hq1 _ _
        simp only [sat_bind]
        apply hg.callS .catchStmt rfl hi1 trivial
        · intro c s2 hi2 hm2 hq2 hc2
          apply hg.callN (.execLoop indent .catch_ inputs stmts (catches ++ [c])) hi2 ⟨hpre.1, mem_snoc hpre.2 hc2⟩
          · intro r s3 hi3 hm3 hq3 hc3
            exact post_le rfl hi3 (by omega) (by have := q_le_one s; omega)
              (fun _ => ⟨by omega, by have := q_le_one s3; omega⟩) hc3
          · fuel_tac
        · fuel_tac
      · fuel_tac
  · rw [sat_ite]
    refine ⟨fun _ => by simp only [Variant.fixed]; exact errPeek_sat hs (by decide), fun _ => ?_⟩
    simp only [sat_pure]
    refine post_le rfl hs (Nat.le_refl _) (Nat.le_refl _) (fun h => absurd h hcond) ?_
    refine .mk _ _ _ hpre.1 (fun c hc => ?_) (fun c hc b hb => ?_)
    · obtain ⟨h1, l, h2, _⟩ := hpre.2 c hc
      exact ⟨h1, by simp [h2]⟩
    · obtain ⟨_, l, h2, h3⟩ := hpre.2 c hc
      rw [h2] at hb
      cases hb
      exact h3

theorem pIteratorRest_good (ids : List Ident) (s : PState σ) (hs : Inv ops B I s) (hpre : ids.length ≤ 2) :
    Sat (pIteratorRest Variant.fixed ops n rec ids s) (Post ops B μ I (.iteratorRest ids) s) (ErrOK B)
      (n + 1 < need μ (.iteratorRest ids) s) := by
  unfold pIteratorRest
  simp only [sat_bind]
  apply hg.callS (.expr true) rfl hs trivial
  · intro e s1 hi1 hm1 hq1 hc1
    apply consume_sat hl hi1 (by decide)
    · intro s2 hi2 hm2 hq2
      apply expectBlockIndent_sat hi2 hq2
      intro r
      cases r with
      | none => exact errPeek_sat hi2 (by decide)
      | some bi =>
        simp only [sat_bind]
        apply hg.callN (.block bi) hi2 trivial
        · intro b s3 hi3 hm3 hq3 hc3
          simp only [sat_pure]
          exact post_lt hi3 (by omega) (by omega) (.iterate _ _ _ _ hc1 hpre hc3)
        · fuel_tac
    · fuel_tac
  · fuel_tac

theorem pVarOneSecond_good (e1 : Expr) (s s0 : PState σ) (hs : Inv ops B I s) (hm0 : m μ s < m μ s0) :
    Sat (pVarOneSecond Variant.fixed ops n rec e1 s) (Post ops B μ I .varOneLead s0) (ErrOK B) (n + 1 < need μ .varOneLead s0) := by
  unfold pVarOneSecond
  simp only [sat_bind]
  apply consume_sat hl hs (by decide)
  · intro s1 hi1 hm1 hq1
    apply hg.callS (.expr true) rfl hi1 trivial
    · intro e2 s2 hi2 hm2 hq2 hc2
      apply tryConsume_sat hl hi2 (by decide)
      · intro s3 hi3 _ _ _
        exact errPeek_sat hi3 (by decide)
      · intro tk s3 hi3 hm3 hq3 _ _
        simp only
        split
        · apply hg.callS (.iteratorRest _) rfl hi3 (by simp [PreC])
          · intro st s4 hi4 hm4 hq4 hc4
            exact post_lt hi4 (by omega) (by omega) hc4
          · fuel_tac
        · exact errPeek_sat hi3 (by decide)
      · fuel_tac
    · fuel_tac
  · fuel_tac

theorem pVarOneLead_good (s : PState σ) (hs : Inv ops B I s) :
    Sat (pVarOneLead Variant.fixed ops n rec s) (Post ops B μ I .varOneLead s) (ErrOK B) (n + 1 < need μ .varOneLead s) := by
  unfold pVarOneLead
  simp only [sat_bind]
  apply hg.callS (.expr true) rfl hs trivial
  · intro e1 s1 hi1 hm1 hq1 hc1
    apply tryConsume_sat hl hi1 (by decide)
    · intro s2 hi2 hm2 hq2 _
      exact pVarOneSecond_good hl hg e1 s2 s hi2 (by omega)
    · intro tk s2 hi2 hm2 hq2 _ _
      simp only
      rw [sat_ite]
      refine ⟨fun _ => ?_, fun _ => ?_⟩
      · split
        · apply hg.callS (.iteratorRest _) rfl hi2 (by simp [PreC])
          · intro st s3 hi3 hm3 hq3 hc3
            exact post_lt hi3 (by omega) (by omega) hc3
          · fuel_tac
        · exact errPeek_sat hi2 (by decide)
      rw [sat_ite]
      refine ⟨fun _ => ?_, fun _ => ?_⟩
      · simp only [sat_bind]
        apply hg.callS (.funcCall false) rfl hi2 trivial
        · intro f s3 hi3 hm3 hq3 hc3
          apply hg.callN (.chainLoop [f]) hi3 ⟨by simp, by intro x hx; simp at hx; subst hx; exact hc3⟩
          · intro chain s4 hi4 hm4 hq4 hc4
            apply optYield_sat hl hi4
            · intro y s5 hi5 hm5 hq5
              simp only [sat_pure]
              exact post_lt hi5 (by omega) (by omega) (.expr _ (.mcall _ _ _ _ hc1 hc4.1 hc4.2))
            · fuel_tac
          · fuel_tac
        · fuel_tac
      · exact pVarOneSecond_good hl hg e1 s2 s hi2 (by omega)
    · fuel_tac
  · fuel_tac

theorem pThrow_good (s : PState σ) (hs : Inv ops B I s) :
    Sat (pThrow Variant.fixed ops n rec s) (Post ops B μ I .throwStmt s) (ErrOK B) (n + 1 < need μ .throwStmt s) := by
  unfold pThrow
  simp only [sat_bind]
  apply parseID_sat hl hs
  · intro cls s1 hi1 hm1 hq1
    apply consume_sat hl hi1 (by decide)
    · intro s2 hi2 hm2 hq2
      apply hg.callS (.expr true) rfl hi2 trivial
      · intro e s3 hi3 hm3 hq3 hc3
        apply hg.callN (.throwLoop [e]) hi3 ⟨by simp, by intro x hx; simp at hx; subst hx; exact hc3⟩
        · intro es s4 hi4 hm4 hq4 hc4
          apply consume_sat hl hi4 (by decide)
          · intro s5 hi5 hm5 hq5
            simp only [sat_pure]
            exact post_lt hi5 (by omega) (by omega) (.throw _ _ _ hc4.1 hc4.2)
          · fuel_tac
        · fuel_tac
      · fuel_tac
    · fuel_tac
  · fuel_tac

theorem pThrowLoop_good (acc : List Expr) (s : PState σ) (hs : Inv ops B I s) (hpre : acc ≠ [] ∧ ∀ e ∈ acc, CExpr e) :
    Sat (pThrowLoop ops n rec acc s) (Post ops B μ I (.throwLoop acc) s) (ErrOK B) (n + 1 < need μ (.throwLoop acc) s) := by
  unfold pThrowLoop
  simp only [sat_bind]
  apply tryConsume_sat hl hs (by decide)
  · intro s1 hi1 hm1 hq1 _
    simp only [sat_pure]
    exact post_le rfl hi1 hm1 hq1 (fun h => h.elim) hpre
  · intro tk s1 hi1 hm1 hq1 _ _
    simp only [sat_bind]
    apply hg.callS (.expr true) rfl hi1 trivial
    · intro e s2 hi2 hm2 hq2 hc2
      apply hg.callN (.throwLoop (acc ++ [e])) hi2 ⟨by simp, mem_snoc hpre.2 hc2⟩
      · intro r s3 hi3 hm3 hq3 hc3
        exact post_le rfl hi3 (by omega) (by have := q_le_one s; omega) (fun h => h.elim) hc3
      · fuel_tac
    · fuel_tac
  · fuel_tac

theorem pCatchStmt_good (s : PState σ) (hs : Inv ops B I s) :
    Sat (pCatchStmt Variant.fixed ops n rec s) (Post ops B μ I .catchStmt s) (ErrOK B) (n + 1 < need μ .catchStmt s) := by
  unfold pCatchStmt
  simp only [sat_bind]
  apply parseID_sat hl hs
  · intro cls s1 hi1 hm1 hq1
    apply consume_sat hl hi1 (by decide)
    · intro s2 hi2 hm2 hq2
      apply expectBlockIndent_sat hi2 hq2
      intro r
      cases r with
      | none => exact errPeek_sat hi2 (by decide)
      | some bi =>
        simp only [sat_bind]
        apply hg.callN (.block bi) hi2 trivial
        · intro b s3 hi3 hm3 hq3 hc3
          simp only [sat_pure]
          exact post_lt hi3 (by omega) (by omega) ⟨rfl, _, rfl, hc3⟩
        · fuel_tac
    · fuel_tac
  · fuel_tac

theorem pImportStmt_good (s : PState σ) (hs : Inv ops B I s) :
    Sat (pImportStmt Variant.fixed ops n rec s) (Post ops B μ I .importStmt s) (ErrOK B) (n + 1 < need μ .importStmt s) := by
  unfold pImportStmt
  simp only [sat_bind]
  apply tryConsume_sat hl hs (by decide)
  · intro s1 hi1 _ _ _
    exact errPeek_sat hi1 (by decide)
  · intro tk s1 hi1 hm1 hq1 _ _
    simp only [sat_bind]
    have hty : (if tk.type = cTypeLibString then cLibTypeStd else cLibTypeCustom) = 1 ∨
        (if tk.type = cTypeLibString then cLibTypeStd else cLibTypeCustom) = 2 := by split <;> decide
    apply tryConsume_sat hl hi1 (by decide)
    · intro s2 hi2 hm2 hq2 _
      simp only [sat_pure]
      exact post_lt hi2 (by omega) (by omega) ⟨rfl, hty⟩
    · intro tk2 s2 hi2 hm2 hq2 _ _
      simp only [sat_bind]
      apply hg.callS (.commaIds []) rfl hi2 trivial
      · intro ids s3 hi3 hm3 hq3 _
        simp only [sat_pure]
        exact post_lt hi3 (by omega) (by omega) ⟨rfl, hty⟩
      · fuel_tac
    · fuel_tac
  · fuel_tac

theorem pPropertyDecl_good (s : PState σ) (hs : Inv ops B I s) :
    Sat (pPropertyDecl Variant.fixed ops n rec s) (Post ops B μ I .propertyDecl s) (ErrOK B) (n + 1 < need μ .propertyDecl s) := by
  unfold pPropertyDecl
  simp only [sat_bind]
  apply parseID_sat hl hs
  · intro i s1 hi1 hm1 hq1
    apply consume_sat hl hi1 (by decide)
    · intro s2 hi2 hm2 hq2
      apply hg.callS (.expr true) rfl hi2 trivial
      · intro e s3 hi3 hm3 hq3 hc3
        simp only [sat_pure]
        exact post_lt hi3 (by omega) (by omega) ⟨rfl, hc3⟩
      · fuel_tac
    · fuel_tac
  · fuel_tac

theorem pClassDecl_good (s : PState σ) (hs : Inv ops B I s) :
    Sat (pClassDecl Variant.fixed ops n rec s) (Post ops B μ I .classDecl s) (ErrOK B) (n + 1 < need μ .classDecl s) := by
  unfold pClassDecl
  simp only [sat_bind]
  apply parseID_sat hl hs
  · intro cls s1 hi1 hm1 hq1
    apply consume_sat hl hi1 (by decide)
    · intro s2 hi2 hm2 hq2
      apply expectBlockIndent_sat hi2 hq2
      intro r
      cases r with
      | none => exact errPeek_sat hi2 (by decide)
      | some bi =>
        simp only [sat_bind]
        apply hg.callN (.classLoop bi [] [] []) hi2
          ⟨by intro x hx; simp at hx, by intro x hx; simp at hx, by intro x hx; simp at hx⟩
        · intro r s3 hi3 hm3 hq3 hc3
          simp only [sat_pure]
          exact post_lt hi3 (by omega) (by omega)
            (.classDecl _ _ _ _ _ (fun p hp => (hc3.1 p hp).1) (fun p hp => (hc3.1 p hp).2) hc3.2.1 hc3.2.2)
        · fuel_tac
    · fuel_tac
  · fuel_tac

theorem pClassLoop_good (indent : Nat) (props : List (Option Ident × Expr)) (methods getters : List Stmt)
    (s : PState σ) (hs : Inv ops B I s)
    (hpre : (∀ p ∈ props, PropOK p) ∧ (∀ f ∈ methods, CFunc 1 f) ∧ (∀ g ∈ getters, CFunc 2 g)) :
    Sat (pClassLoop Variant.fixed ops n rec indent props methods getters s)
      (Post ops B μ I (.classLoop indent props methods getters) s) (ErrOK B)
      (n + 1 < need μ (.classLoop indent props methods getters) s) := by
  unfold pClassLoop
  simp only [sat_bind, sat_getS]
  have hm0 : m μ ({ s with flag := false } : PState σ) = m μ s := rfl
  have hq0 : q ({ s with flag := false } : PState σ) = q s := rfl
  rw [sat_ite]
  refine ⟨fun _ => ?_, fun _ => ?_⟩
  · simp only [sat_bind, sat_unsetFlag]
    apply tryConsume_sat hl (inv_flag false hs) (by decide)
    · intro s1 hi1 _ _ _
      exact errPeek_sat hi1 (by decide)
    · intro tk s1 hi1 hm1 hq1 _ _
      simp only
      have loop : ∀ ps ms gs s2, Inv ops B I s2 → m μ s2 ≤ m μ s1 → 1 ≤ q s2 →
          ((∀ p ∈ ps, PropOK p) ∧ (∀ f ∈ ms, CFunc 1 f) ∧ (∀ g ∈ gs, CFunc 2 g)) →
          Sat (rec (.classLoop indent ps ms gs) s2)
            (Post ops B μ I (.classLoop indent props methods getters) s) (ErrOK B)
            (n + 1 < need μ (.classLoop indent props methods getters) s) := by
        intro ps ms gs s2 hi2 hm2 hq2 hp
        apply hg.callN (.classLoop indent ps ms gs) hi2 hp
        · intro r s3 hi3 hm3 hq3 hc3
          exact post_le rfl hi3 (by omega) (by have := q_le_one s; omega) (fun h => h.elim) hc3
        · fuel_tac
      rw [sat_ite]
      refine ⟨fun _ => ?_, fun _ => ?_⟩
      · simp only [sat_bind]
        apply hg.callS .functionBlock rfl hi1 trivial
        · intro r s2 hi2 hm2 hq2 hc2
          exact loop _ _ _ s2 hi2 (by omega) (by omega) ⟨hpre.1, mem_snoc hpre.2.1 (.mk _ _ _ _ hc2), hpre.2.2⟩
        · fuel_tac
      rw [sat_ite]
      refine ⟨fun _ => ?_, fun _ => ?_⟩
      · simp only [sat_bind]
        apply hg.callS .functionBlock rfl hi1 trivial
        · intro r s2 hi2 hm2 hq2 hc2
          exact loop _ _ _ s2 hi2 (by omega) (by omega) ⟨hpre.1, hpre.2.1, mem_snoc hpre.2.2 (.mk _ _ _ _ hc2)⟩
        · fuel_tac
      rw [sat_ite]
      refine ⟨fun _ => ?_, fun _ => ?_⟩
      · simp only [sat_bind]
        apply hg.callS .propertyDecl rfl hi1 trivial
        · intro p s2 hi2 hm2 hq2 hc2
          exact loop _ _ _ s2 hi2 (by omega) (by omega) ⟨mem_snoc hpre.1 hc2, hpre.2.1, hpre.2.2⟩
        · fuel_tac
      · exact loop _ _ _ s1 hi1 (Nat.le_refl _) (by omega) hpre
    · fuel_tac
  · simp only [sat_pure]
    exact post_le rfl hs (Nat.le_refl _) (Nat.le_refl _) (fun h => h.elim) hpre

omit hl in
theorem pProgram_good (s : PState σ) (hs : Inv ops B I s) :
    Sat (pProgram ops rec s) (Post ops B μ I .program s) (ErrOK B) (n + 1 < need μ .program s) := by
  unfold pProgram
  simp only [sat_bind, sat_getS]
  apply hg.callN (.programLoop _ false [] none) hs ⟨by intro x hx; simp at hx, by intro x hx; cases hx⟩
  · intro p s1 hi1 hm1 hq1 hc1
    exact post_le rfl hi1 hm1 hq1 (fun h => h.elim) hc1
  · fuel_tac

theorem pProgramLoop_good (indent : Nat) (inExec : Bool) (imports : List Import) (exec : Option ExecBlock)
    (s : PState σ) (hs : Inv ops B I s)
    (hpre : (∀ im ∈ imports, ImportOK im) ∧ (∀ x, exec = some x → CExec x)) :
    Sat (pProgramLoop ops n rec indent inExec imports exec s)
      (Post ops B μ I (.programLoop indent inExec imports exec) s) (ErrOK B)
      (n + 1 < need μ (.programLoop indent inExec imports exec) s) := by
  unfold pProgramLoop
  simp only [sat_bind, sat_getS]
  have hm0 : m μ ({ s with flag := false } : PState σ) = m μ s := rfl
  have hq0 : q ({ s with flag := false } : PState σ) = q s := rfl
  rw [sat_ite]
  refine ⟨fun hcond => ?_, fun _ => ?_⟩
  · simp only [sat_bind, sat_unsetFlag]
    cases inExec with
    | true =>
      simp only [if_true, sat_bind]
      apply hg.callX (.execBlock indent) (inv_flag false hs) trivial hcond
      · intro x s1 hi1 hm1 hq1 hc1
        apply hg.callN (.programLoop indent true imports (some x)) hi1
          ⟨hpre.1, by intro y hy; cases hy; exact hc1⟩
        · intro p s2 hi2 hm2 hq2 hc2
          exact post_le rfl hi2 (by omega) (by have := q_le_one s; omega) (fun h => h.elim) hc2
        · fuel_tac
      · fuel_tac
    | false =>
      simp only [Bool.false_eq_true, if_false, sat_bind]
      apply tryConsume_sat hl (inv_flag false hs) (by decide)
      · intro s1 hi1 hm1 hq1 _
        apply hg.callN (.programLoop indent true imports exec) hi1 hpre
        · intro p s2 hi2 hm2 hq2 hc2
          exact post_le rfl hi2 (by omega) (by omega) (fun h => h.elim) hc2
        · fuel_tac
      · intro tk s1 hi1 hm1 hq1 _ _
        simp only [sat_bind]
        apply hg.callS .importStmt rfl hi1 trivial
        · intro im s2 hi2 hm2 hq2 hc2
          apply lineOf_sat
          intro l
          apply swallowAll_sat hl (by decide) n s2 hi2
          · intro s2' hi2' hm2' hq2'
            apply hg.callN (.programLoop indent false (imports ++ [{ im with line := l }]) exec) hi2'
              ⟨mem_snoc hpre.1 (show ImportOK { im with line := l } from hc2), hpre.2⟩
            · intro p s3 hi3 hm3 hq3 hc3
              exact post_le rfl hi3 (by omega) (by have := q_le_one s; omega) (fun h => h.elim) hc3
            · fuel_tac
          · intro h
            simp only [need, rank]
            omega
        · fuel_tac
      · fuel_tac
  · simp only [sat_pure]
    exact post_le rfl hs (Nat.le_refl _) (Nat.le_refl _) (fun h => h.elim) hpre

/-- one more unit of fuel keeps the invariant of the induction -/
theorem step_good : Good ops B μ I (n + 1) (step Variant.fixed ops n rec) := by
  intro nt s hs hpre
  cases nt with
  | program => exact pProgram_good hg s hs
  | programLoop i x im e => exact pProgramLoop_good hl hg i x im e s hs hpre
  | statement => exact pStatement_good hl hg s hs
  | expr cfg => exact pLv1_good hg cfg s hs
  | lv1Tail cfg el => exact pLv1Tail_good hl hg cfg el s hs hpre
  | lv2 cfg => exact pLv2_good hg cfg s hs
  | lv2Tail cfg el => exact pLv2Tail_good hl hg cfg el s hs hpre
  | lv3 cfg => exact pLv3_good hl hg cfg s hs
  | lv4 cfg => exact pLv4_good hl hg cfg s hs
  | arith => exact pArith_good hg s hs
  | arithTail el => exact pArithTail_good hl hg el s hs hpre
  | mulDiv => exact pMulDiv_good hg s hs
  | mulDivTail el => exact pMulDivTail_good hl hg el s hs hpre
  | member => exact pMember_good hl hg s hs
  | memberTail e => exact pMemberTail_good hl hg e s hs hpre
  | basic => exact pBasic_good hl hg s hs
  | array => exact pArray_good hl hg s hs
  | arrayLoop items => exact pArrayLoop_good hl hg items s hs hpre
  | hashLoop kvs => exact pHashLoop_good hl hg kvs s hs hpre
  | funcCall y => exact pFuncCall_good hl hg y s hs
  | commaExprs acc => exact pCommaExprs_good hl hg acc s hs hpre
  | commaIds acc => exact pCommaIds_good hl hg acc s hs
  | memberFuncCall => exact pMemberFuncCall_good hl hg s hs
  | chainLoop c => exact pChainLoop_good hl hg c s hs hpre
  | varDecl => exact pVarDecl_good hl hg s hs
  | varDeclLoop i ps => exact pVarDeclLoop_good hl hg i ps s hs hpre
  | vdPair => exact pVdPair_good hl hg s hs
  | objNew => exact pObjNew_good hl hg s hs
  | whileLoop => exact pWhileLoop_good hl hg s hs
  | block i => exact pBlock_good hg i s hs
  | blockLoop i acc => exact pBlockLoop_good hg i acc s hs hpre
  | branch => exact pBranch_good hg s hs
  | branchLoop mi st acc => exact pBranchLoop_good hl hg mi st acc s hs hpre
  | functionBlock => exact pFunctionBlock_good hl hg s hs
  | execBlock i => exact pExecBlock_good hg i s hs
  | execLoop i st ins ss cs => exact pExecLoop_good hl hg i st ins ss cs s hs hpre
  | varOneLead => exact pVarOneLead_good hl hg s hs
  | iteratorRest ids => exact pIteratorRest_good hl hg ids s hs hpre
  | throwStmt => exact pThrow_good hl hg s hs
  | throwLoop acc => exact pThrowLoop_good hl hg acc s hs hpre
  | catchStmt => exact pCatchStmt_good hl hg s hs
  | importStmt => exact pImportStmt_good hl hg s hs
  | classDecl => exact pClassDecl_good hl hg s hs
  | classLoop i ps ms gs => exact pClassLoop_good hl hg i ps ms gs s hs hpre
  | propertyDecl => exact pPropertyDecl_good hl hg s hs

omit hg in
/-- the invariant of the induction holds for the tagged parser at every fuel -/
theorem parse_good : ∀ n, Good ops B μ I n (parse Variant.fixed ops n)
  | 0 => by
    intro nt s _ _
    show 0 < need μ nt s
    unfold need
    have : 2 ≤ rank nt := by cases nt <;> simp [rank] <;> (try split) <;> omega
    omega
  | n + 1 => step_good hl (parse_good n)

end ZnVerif.Proofs.ParserGood
