/-
C01 refinement: the logic (且 或) and comparison nodes.
-/
import ZnVerif.Proofs.ExprBase
set_option linter.unusedSectionVars false
set_option linter.unusedSimpArgs false

namespace ZnVerif.Proofs
open ZnVerif.Model ZnVerif.Spec

variable {ν : Type} [NumOps ν]

theorem sim_logic_andor {ω : Addr → Option (SVal ν)} {d n : Nat} (ih : IH ω d n) (ln ty : Nat) (l r : Expr)
    (hty : ty = LogicAND ∨ ty = LogicOR) (hl : PureExpr l) (hr : PureExpr r) (s : VM ν) (σ : SState ν)
    (henv : EnvRel ω d s σ) {k : Nat} (hk : 0 < k) :
    Sim d (Reads ω k) s σ (evalExpr (n+1) (.logic ln ty l r)) (evalE (n+1) (.logic ln ty l r)) := by
  simp only [evalExpr, evalE]
  rcases hty with rfl | rfl <;>
  · simp only [LogicAND, LogicOR, Nat.reduceBEq, Bool.or_false, Bool.false_or, Bool.or_true, Bool.true_or, Bool.false_and,
      Bool.true_and, if_true, if_false, Bool.false_eq_true]
    refine sim_bind (ih l s σ hl henv) fun s1 a v hF hq => ?_
    obtain ⟨k', c, hk, hc, hlay⟩ := hq.cell
    refine sim_getCell hc ?_
    cases c <;> simp only [Layer] at hlay
    case bool lb =>
      subst hlay
      cases lb <;> simp only [Bool.not_true, Bool.not_false, if_true, if_false, Bool.false_eq_true]
      any_goals exact sim_alloc_scalar _ _ (by omega) (fun _ _ => rfl)
      all_goals
        refine sim_bind (ih r s1 σ hr (henv.frame hF)) fun s2 a2 v2 hF2 hq2 => ?_
        obtain ⟨k2, c2, hk2, hc2, hlay2⟩ := hq2.cell
        refine sim_getCell hc2 ?_
        cases c2 <;> simp only [Layer] at hlay2
        case bool rb =>
          subst hlay2
          simp only [Bool.true_and, Bool.false_or]
          exact sim_alloc_scalar _ _ (by omega) (fun _ _ => rfl)
        all_goals reject hlay2 v2 with (sim_rt' 80 80 rfl)
    all_goals reject hlay v with (sim_rt' 80 80 rfl)

theorem sim_logic_eq {ω : Addr → Option (SVal ν)} {d n : Nat} (ih : IH ω d n) (ln ty : Nat) (l r : Expr)
    (hty : ty = LogicEQ ∨ ty = LogicXEQ ∨ ty = LogicNEQ ∨ ty = LogicXNEQ) (hl : PureExpr l) (hr : PureExpr r)
    (s : VM ν) (σ : SState ν) (henv : EnvRel ω d s σ) {k : Nat} (hk : 0 < k) :
    Sim d (Reads ω k) s σ (evalExpr (n+1) (.logic ln ty l r)) (evalE (n+1) (.logic ln ty l r)) := by
  simp only [evalExpr, evalE]
  rcases hty with rfl | rfl | rfl | rfl <;>
  · simp only [LogicAND, LogicOR, LogicEQ, LogicXEQ, LogicNEQ, LogicXNEQ, Nat.reduceBEq, Bool.or_false, Bool.false_or,
      Bool.or_true, Bool.true_or, Bool.false_and, Bool.true_and, if_true, if_false, Bool.false_eq_true, Bool.or_self]
    refine sim_bind (ih l s σ hl henv) fun s1 a v hF hq => ?_
    refine sim_bind (ih r s1 σ hr (henv.frame hF)) fun s2 a2 v2 hF2 hq2 => ?_
    obtain ⟨X, hX, hR⟩ := cmp_sim ω s2 n (n + d) a a2 v v2 (hq.frame hF2) hq2
    generalize valEq n v v2 = o at hR ⊢
    cases hR with
    | ok bv =>
      refine sim_left (m2 := newBool _) (by rw [M.bind_def, hX]) ?_
      exact sim_alloc_scalar _ _ (by omega) (fun _ _ => rfl)
    | err _ => exact sim_left (m2 := rtErr 83) (by rw [M.bind_def, hX]; rfl) (sim_rt' 83 83 rfl)
    | fuel h => exact sim_left (m2 := outOfFuel) (by rw [M.bind_def, hX]; rfl) (sim_fuelCmp (by omega))

theorem sim_logic_order {ω : Addr → Option (SVal ν)} {d n : Nat} (ih : IH ω d n) (ln ty : Nat) (l r : Expr)
    (hty : ty = LogicGT ∨ ty = LogicGTE ∨ ty = LogicLT ∨ ty = LogicLTE) (hl : PureExpr l) (hr : PureExpr r)
    (s : VM ν) (σ : SState ν) (henv : EnvRel ω d s σ) {k : Nat} (hk : 0 < k) :
    Sim d (Reads ω k) s σ (evalExpr (n+1) (.logic ln ty l r)) (evalE (n+1) (.logic ln ty l r)) := by
  simp only [evalExpr, evalE]
  rcases hty with rfl | rfl | rfl | rfl <;>
  · simp only [LogicAND, LogicOR, LogicEQ, LogicXEQ, LogicNEQ, LogicXNEQ, LogicGT, LogicGTE, LogicLT, LogicLTE,
      Nat.reduceBEq, Bool.or_false, Bool.false_or,
      Bool.or_true, Bool.true_or, Bool.false_and, Bool.true_and, if_true, if_false, Bool.false_eq_true, Bool.or_self]
    refine sim_bind (ih l s σ hl henv) fun s1 a v hF hq => ?_
    refine sim_bind (ih r s1 σ hr (henv.frame hF)) fun s2 a2 v2 hF2 hq2 => ?_
    obtain ⟨k', c, hk, hc, hlay⟩ := (hq.frame hF2).cell
    refine sim_getCell hc ?_
    cases c <;> simp only [Layer] at hlay
    case num x =>
      subst hlay
      obtain ⟨k2, c2, hk2, hc2, hlay2⟩ := hq2.cell
      refine sim_getCell hc2 ?_
      cases c2 <;> simp only [Layer] at hlay2
      case num y =>
        subst hlay2
        exact sim_alloc_scalar _ _ (by omega) (fun _ _ => rfl)
      all_goals reject hlay2 v2 with (sim_rt' 84 83 rfl)
    all_goals reject hlay v with (sim_rt' 83 83 rfl)

end ZnVerif.Proofs
