/-
The program-level closure of C07: a 令 declaration followed by any list of "changes through one name" (element / key
assignments and built-in method calls on access paths below that name, with literal arguments) is threaded through
`evalStmt` / `evalExpr` / `memberIV` / `execMethodFunction` with the zone discipline of Proofs/CopyZone.lean.
-/
import ZnVerif.Proofs.CopyZone
set_option linter.unusedSectionVars false
set_option linter.unusedVariables false

namespace ZnVerif.Model

variable {ν : Type} [NumOps ν]

/-! ## the fragment -/

/-- literal expressions that mention no name: numbers, texts, lists and dictionaries of such -/
inductive LitExpr : Expr → Prop
  | num (i : Ident) : tryParseNumber (strCps i.lit) = .number → LitExpr (.id i)
  | str (ln : Nat) (x : String) : LitExpr (.str ln x)
  | arr (ln : Nat) (items : List Expr) : (∀ e ∈ items, LitExpr e) → LitExpr (.arr ln items)
  | hm (ln : Nat) (kvs : List (Expr × Expr)) :
      (∀ kv ∈ kvs, ∃ l k, kv.1 = .str l k) → (∀ kv ∈ kvs, LitExpr kv.2) → LitExpr (.hm ln kvs)

/-- access paths below the name `y`: `y`, `y#i`, `y#i#j`, … with literal indices -/
inductive PathExpr (y : String) : Expr → Prop
  | root (ln : Nat) : PathExpr y (.id ⟨ln, y⟩)
  | index (ln : Nat) (p idx : Expr) : PathExpr y p → LitExpr idx → PathExpr y (.member ln 1 p 2 none idx)

/-- a change made through the variable `y`: `y#i… = literal`, or `以 y#i…（m：literals）` -/
inductive ThroughStmt (y : String) : Stmt → Prop
  | assign (ln l : Nat) (p idx rhs : Expr) : PathExpr y p → LitExpr idx → LitExpr rhs →
      ThroughStmt y (.expr (.assign ln (.member l 1 p 2 none idx) rhs))
  | method (ln l : Nat) (p : Expr) (m : Ident) (params : List Expr) : PathExpr y p → (∀ e ∈ params, LitExpr e) →
      ThroughStmt y (.expr (.mcall ln p [.call l (some m) params none] none))

/-! ## judgments at one state -/

/-- `Tight` at one initial state -/
def TightAt (Z : Zone ν) {α : Type} (Q : α → Prop) (m : M ν α) (s : VM ν) : Prop :=
  ∀ r s', ZInv Z s.heap → m s = (r, s') →
    SameBut s s' ∧ (∀ i, ¬ Z.W i → s'.heap[i]? = Z.fix[i]?) ∧ ∀ a, r = .ok a → ZInv Z s'.heap ∧ Q a

theorem Tight.at {Z : Zone ν} {α : Type} {Q : α → Prop} {m : M ν α} (h : Tight Z Q m) (s : VM ν) : TightAt Z Q m s :=
  fun r s' hi hm => h.run s r s' hi hm

theorem TightAt.weaken {Z : Zone ν} {α : Type} {Q Q' : α → Prop} {m : M ν α} {s : VM ν} (h : TightAt Z Q m s)
    (hq : ∀ a, Q a → Q' a) : TightAt Z Q' m s := by
  intro r s' hi hm
  rcases h r s' hi hm with ⟨h1, h2, h3⟩
  exact ⟨h1, h2, fun a ha => ⟨(h3 a ha).1, hq a (h3 a ha).2⟩⟩

theorem tightAt_bind {Z : Zone ν} {α β : Type} {Q : α → Prop} {Q' : β → Prop} {m : M ν α} {f : α → M ν β} {s : VM ν}
    (hm : TightAt Z Q m s) (hf : ∀ a s1, SameBut s s1 → Q a → TightAt Z Q' (f a) s1) : TightAt Z Q' (m >>= f) s := by
  intro r s' hi h
  simp only [bind] at h
  cases h1 : m s with | mk r1 s1 =>
  rw [h1] at h
  rcases hm r1 s1 hi h1 with ⟨g1, g2, g3⟩
  cases r1 with
  | ok a =>
    rcases g3 a rfl with ⟨hi1, hq⟩
    rcases hf a s1 g1 hq r s' hi1 h with ⟨k1, k2, k3⟩
    exact ⟨g1.trans k1, k2, k3⟩
  | err e => simp at h; rw [← h.2, ← h.1]; exact ⟨g1, g2, fun a ha => by cases ha⟩
  | panic => simp at h; rw [← h.2, ← h.1]; exact ⟨g1, g2, fun a ha => by cases ha⟩
  | fuel => simp at h; rw [← h.2, ← h.1]; exact ⟨g1, g2, fun a ha => by cases ha⟩
  | unmodelled => simp at h; rw [← h.2, ← h.1]; exact ⟨g1, g2, fun a ha => by cases ha⟩

/-! ## unfolding equations of the evaluator on the fragment -/

theorem evalExpr_str (n ln : Nat) (x : String) : evalExpr (ν := ν) (n+1) (.str ln x) = newStr x := by
  simp only [evalExpr]

theorem evalExpr_id (n : Nat) (i : Ident) : evalExpr (ν := ν) (n+1) (.id i) = (do
    match ← matchIDType i.lit with
    | .name s => findElement s
    | .number x => newNum x) := by
  simp only [evalExpr]
  rfl

theorem evalExpr_arr (n ln : Nat) (items : List Expr) : evalExpr (ν := ν) (n+1) (.arr ln items) = (do
    let vs ← items.mapM (evalExpr n)
    alloc (.arr vs)) := by
  simp only [evalExpr]

theorem evalExpr_hm (n ln : Nat) (kvs : List (Expr × Expr)) : evalExpr (ν := ν) (n+1) (.hm ln kvs) = (do
    let pairs ← kvs.mapM fun kv => do
      let key ← match kv.1 with
        | .str _ s => pure s
        | .id i => do let _ ← matchIDType i.lit; pure i.lit
        | _ => rtErr 80
      let v ← evalExpr n kv.2
      pure (key, v)
    alloc (newHashMapCell pairs)) := by
  simp only [evalExpr]
  rfl

theorem evalExpr_member (n l rt mt : Nat) (root : Expr) (mid : Option Ident) (idx : Expr) :
    evalExpr (ν := ν) (n+1) (.member l rt root mt mid idx) = (do
      let iv ← memberIV n (.member l rt root mt mid idx)
      reduceRHS n iv) := by
  simp only [evalExpr]

/-- `memberIV` on `root#idx` (root type 1 = expression, member type 2 = index) -/
theorem memberIV_index (n l : Nat) (root idx : Expr) :
    memberIV (ν := ν) (n+1) (.member l 1 root 2 none idx) = (do
      let rv ← evalExpr n root
      let iv ← evalExpr n idx
      match ← getCell rv with
      | .arr _ =>
        match ← getCell iv with
        | .num x => pure (1, rv, "", NumOps.toInt x)
        | _ => rtErr 80
      | .hm _ _ =>
        match ← getCell iv with
        | .num x => pure (2, rv, NumOps.fmt x, 0)
        | .str s => pure (2, rv, s, 0)
        | _ => rtErr 80
      | _ => rtErr 80) := by
  simp only [memberIV]
  rfl

theorem evalExpr_mcall1 (n ln l : Nat) (p : Expr) (m : Ident) (params : List Expr) :
    evalExpr (ν := ν) (n+1) (.mcall ln p [.call l (some m) params none] none) = (do
      let rv ← evalExpr n p
      let fname ← matchIDName m.lit
      let vals ← params.mapM (evalExpr n)
      execMethodFunction n rv fname vals) := by
  simp only [evalExpr, List.foldlM_cons, List.foldlM_nil, matchIDNameOpt, bind_pure]

theorem evalStmt_expr (n : Nat) (e : Expr) : evalStmt (ν := ν) (n+1) (.expr e) = (do
    setTopFrame fun fr => { fr with line := (Stmt.expr e).line, started := true }
    evalExpr n e) := by
  simp only [evalStmt]

/-! ## literals and access paths -/

theorem matchIDType_number {lit : String} (h : tryParseNumber (strCps lit) = .number) :
    matchIDType (ν := ν) lit = pure (.number (NumOps.parse (parseFloatText (strCps lit)))) := by
  simp only [matchIDType, h]

/-- a literal evaluates to a tainted value and only allocates well-typed cells -/
theorem lit_tight (Z : Zone ν) {e : Expr} (he : LitExpr e) : ∀ n, Tight Z Z.T (evalExpr n e : M ν Addr) := by
  induction he with
  | num i hnum =>
    intro n
    cases n with
    | zero => simp only [evalExpr]; exact tight_outOfFuel
    | succ n =>
      rw [evalExpr_id, matchIDType_number hnum, pure_bind]
      exact tight_newNum _
  | str ln x =>
    intro n
    cases n with
    | zero => simp only [evalExpr]; exact tight_outOfFuel
    | succ n => rw [evalExpr_str]; exact tight_newStr _
  | arr ln items hall ih =>
    intro n
    cases n with
    | zero => simp only [evalExpr]; exact tight_outOfFuel
    | succ n =>
      rw [evalExpr_arr]
      exact tight_bind (tight_mapM items (fun e he => ih e he n)) (fun vs hvs => tight_alloc _ (okCell_arr.2 hvs))
  | hm ln kvs hkeys hall ih =>
    intro n
    cases n with
    | zero => simp only [evalExpr]; exact tight_outOfFuel
    | succ n =>
      rw [evalExpr_hm]
      refine tight_bind (Q := fun pairs => ∀ p ∈ pairs, Z.T p.2) (tight_mapM kvs (fun kv hkv => ?_))
        (fun pairs hp => tight_alloc _ (okCell_newHashMapCell pairs hp))
      rcases hkeys kv hkv with ⟨l, k, hk⟩
      rw [hk]
      exact tight_bind (tight_pure (Q := fun _ => True) _ trivial)
        (fun _ _ => tight_bind (ih kv hkv n) (fun v hv => tight_pure _ hv))

/-- reading `root#idx` / `root#{k}` below a tainted root answers a tainted value -/
theorem reduceRHS_tight (Z : Zone ν) (n kind : Nat) (hk : kind = 1 ∨ kind = 2) (root : Addr) (nm : String) (idx : Int)
    (hr : Z.T root) : Tight Z Z.T (reduceRHS n (kind, root, nm, idx) : M ν Addr) := by
  rcases hk with rfl | rfl
  · simp only [reduceRHS]
    rw [if_pos (by rfl)]
    refine tight_bind (tight_getCell root hr) (fun c hc => ?_)
    split
    · split
      · exact tight_rtErr _
      · split
        · rename_i items _ x hx
          exact tight_pure _ (okCell_arr.1 hc x (List.mem_of_getElem? hx))
        · exact tight_goPanic
    · exact tight_rtErr _
  · simp only [reduceRHS]
    rw [if_neg (by decide), if_pos (by rfl)]
    refine tight_bind (tight_getCell root hr) (fun c hc => ?_)
    split
    · split
      · rename_i vals _ v hv
        exact tight_pure _ (okCell_hm.1 hc v (lookup_mem_snd hv))
      · exact tight_rtErr _
    · exact tight_rtErr _

/-- an element / key store into a writable root, of a tainted value -/
theorem reduceLHS_tight (Z : Zone ν) (kind : Nat) (hk : kind = 1 ∨ kind = 2) (root : Addr) (nm : String) (idx : Int)
    (v : Addr) (hr : Z.W root) (hv : Z.T v) : Tight Z (fun _ => True) (reduceLHS (kind, root, nm, idx) v : M ν Unit) := by
  have hrt := Z.wt root hr
  rcases hk with rfl | rfl
  · simp only [reduceLHS]
    rw [if_pos (by rfl)]
    refine tight_bind (tight_getCell root hrt) (fun c hc => ?_)
    split
    · split
      · exact tight_rtErr _
      · exact tight_setCell _ _ hr (okCell_set hc hv)
    · exact tight_rtErr _
  · simp only [reduceLHS]
    rw [if_neg (by decide), if_pos (by rfl)]
    refine tight_bind (tight_getCell root hrt) (fun c hc => ?_)
    split
    · exact tight_setCell _ _ hr (okCell_hmAppend hc hv)
    · exact tight_rtErr _

/-- an element / key store whose root is no cell, or 空, fails without touching the state -/
theorem reduceLHS_inert (kind : Nat) (hk : kind = 1 ∨ kind = 2) (root : Addr) (nm : String) (idx : Int) (v : Addr)
    (s s' : VM ν) (r : Res Unit) (hc : s.heap[root]? = none ∨ s.heap[root]? = some .null)
    (h : reduceLHS (kind, root, nm, idx) v s = (r, s')) : s' = s ∧ ∀ u, r ≠ .ok u := by
  rcases hk with rfl | rfl <;> rcases hc with hc | hc <;>
    simp [reduceLHS, bind, getCell, hc, rtErr, throwE] at h <;>
    exact ⟨h.2.symm, fun u hu => by rw [← h.1] at hu; cases hu⟩

/-- `getMemberExprIV` on `p#idx`, given that `p` evaluates to a tainted value: kind 1 or 2 over a tainted root -/
theorem memberIV_tightAt (Z : Zone ν) (l : Nat) (p idx : Expr) (hidx : LitExpr idx) (n : Nat) (s : VM ν)
    (hp : ∀ n, TightAt Z Z.T (evalExpr n p) s) :
    TightAt Z (fun iv => (iv.1 = 1 ∨ iv.1 = 2) ∧ Z.T iv.2.1) (memberIV n (.member l 1 p 2 none idx)) s := by
  cases n with
  | zero => simp only [memberIV]; exact tight_outOfFuel.at s
  | succ n =>
    rw [memberIV_index]
    refine tightAt_bind (hp n) (fun rv s1 _ hrv => Tight.at ?_ s1)
    refine tight_bind (lit_tight Z hidx n) (fun iv hiv => ?_)
    refine tight_bind (tight_getCell rv hrv) (fun c hc => ?_)
    split
    · refine tight_bind (tight_getCell iv hiv) (fun ci _ => ?_)
      split
      · exact tight_pure _ ⟨.inl rfl, hrv⟩
      · exact tight_rtErr _
    · refine tight_bind (tight_getCell iv hiv) (fun ci _ => ?_)
      split
      · exact tight_pure _ ⟨.inr rfl, hrv⟩
      · exact tight_pure _ ⟨.inr rfl, hrv⟩
      · exact tight_rtErr _
    · exact tight_rtErr _

/-- an access path below a name that denotes a tainted value evaluates to a tainted value -/
theorem path_tightAt (Z : Zone ν) {z : String} {p : Expr} (hp : PathExpr z p) :
    ∀ (n : Nat) (s : VM ν) (c : Addr), resolve z s = some c → Z.T c → TightAt Z Z.T (evalExpr n p) s := by
  induction hp with
  | root ln =>
    intro n s c hres hc
    cases n with
    | zero => simp only [evalExpr]; exact tight_outOfFuel.at s
    | succ n =>
      rw [evalExpr_id]
      simp only [matchIDType]
      cases tryParseNumber (strCps z) with
      | error =>
        intro r s' hi h
        simp only [bind, throwE] at h
        injection h with h1 h2
        subst h2
        exact ⟨SameBut.refl _, hi.keep, fun a ha => by rw [← h1] at ha; cases ha⟩
      | number => simp only [pure_bind]; exact (tight_newNum _).at s
      | name =>
        simp only [pure_bind]
        intro r s' hi h
        rw [findElement_eq, hres] at h
        injection h with h1 h2
        subst h2
        exact ⟨SameBut.refl _, hi.keep, fun a ha => by
          rw [← h1] at ha; injection ha with ha; subst ha; exact ⟨hi, hc⟩⟩
  | index ln p idx _ hidx ih =>
    intro n s c hres hc
    cases n with
    | zero => simp only [evalExpr]; exact tight_outOfFuel.at s
    | succ n =>
      rw [evalExpr_member]
      refine tightAt_bind (memberIV_tightAt Z ln p idx hidx n s (fun k => ih k s c hres hc)) (fun iv s1 _ hiv => Tight.at ?_ s1)
      rcases iv with ⟨kind, root, nm, ix⟩
      exact reduceRHS_tight Z n kind hiv.1 root nm ix hiv.2

/-! ## assignment through a path -/

theorem bind_inv {α β} {m : M ν α} {f : α → M ν β} {s s' : VM ν} {r : Res β} (h : (m >>= f) s = (r, s')) :
    (∃ a s1, m s = (.ok a, s1) ∧ f a s1 = (r, s')) ∨
    (∃ r1, m s = (r1, s') ∧ (∀ a, r1 ≠ .ok a) ∧ ∀ b, r ≠ .ok b) := by
  simp only [bind] at h
  cases h1 : m s with | mk r1 s1 =>
  rw [h1] at h
  cases r1 with
  | ok a => exact .inl ⟨a, s1, rfl, h⟩
  | err e => simp at h; rw [← h.2, ← h.1]; exact .inr ⟨_, rfl, by simp, by simp⟩
  | panic => simp at h; rw [← h.2, ← h.1]; exact .inr ⟨_, rfl, by simp, by simp⟩
  | fuel => simp at h; rw [← h.2, ← h.1]; exact .inr ⟨_, rfl, by simp, by simp⟩
  | unmodelled => simp at h; rw [← h.2, ← h.1]; exact .inr ⟨_, rfl, by simp, by simp⟩

/-- the store of an assignment `p#idx = …`, after the index vector was computed -/
theorem store_tightAt (Z : Zone ν) (iv : Nat × Addr × String × Int) (v : Addr) (hk : iv.1 = 1 ∨ iv.1 = 2)
    (hr : Z.T iv.2.1) (hv : Z.T v) (s : VM ν) :
    TightAt Z (fun _ => True) (do reduceLHS iv v; pure v : M ν Addr) s := by
  rcases iv with ⟨kind, root, nm, idx⟩
  by_cases hw : Z.W root
  · exact (tight_bind (reduceLHS_tight Z kind hk root nm idx v hw hv) (fun _ _ => tight_pure _ trivial)).at s
  · intro r s' hi h
    have hcell : s.heap[root]? = none ∨ s.heap[root]? = some .null := by
      rw [hi.keep root hw]
      cases hf : Z.fix[root]? with
      | none => exact .inl rfl
      | some c => rw [Z.nul root c hr hw hf]; exact .inr rfl
    rcases bind_inv h with ⟨u, s1, h1, _⟩ | ⟨r1, h1, _, hne⟩
    · exact absurd rfl ((reduceLHS_inert kind hk root nm idx v s s1 _ hcell h1).2 u)
    · have := (reduceLHS_inert kind hk root nm idx v s s' _ hcell h1).1
      subst this
      exact ⟨SameBut.refl _, hi.keep, fun a ha => absurd ha (hne a)⟩

theorem evalExpr_assign_index (n ln l : Nat) (p idx rhs : Expr) :
    evalExpr (ν := ν) (n+1) (.assign ln (.member l 1 p 2 none idx) rhs) = (do
      let vr ← evalExpr n rhs
      let vr ← dup n vr
      let iv ← memberIV n (.member l 1 p 2 none idx)
      reduceLHS iv vr
      pure vr) := by
  rw [evalExpr_assign]
  rfl

/-- `z#i… = literal`, where `z` denotes a tainted value -/
theorem assign_tightAt (Z : Zone ν) {z : String} {p idx rhs : Expr} (hp : PathExpr z p) (hidx : LitExpr idx)
    (hrhs : LitExpr rhs) (n ln l : Nat) (s : VM ν) (c : Addr) (hres : resolve z s = some c) (hc : Z.T c) :
    TightAt Z (fun _ => True) (evalExpr n (.assign ln (.member l 1 p 2 none idx) rhs)) s := by
  cases n with
  | zero => simp only [evalExpr]; exact tight_outOfFuel.at s
  | succ n =>
    rw [evalExpr_assign_index]
    refine tightAt_bind ((lit_tight Z hrhs n).at s) (fun vr s1 sb1 hvr => ?_)
    refine tightAt_bind ((tight_dup Z n vr hvr).at s1) (fun vr' s2 sb2 hvr' => ?_)
    have hres2 : resolve z s2 = some c := by rw [resolve_sameBut (sb1.trans sb2)]; exact hres
    refine tightAt_bind (memberIV_tightAt Z l p idx hidx n s2 (fun k => path_tightAt Z hp k s2 c hres2 hc))
      (fun iv s3 _ hiv => ?_)
    exact store_tightAt Z iv vr' hiv.1 hiv.2 hvr' s3

/-! ## frames and scopes around a built-in method call -/

/-- the module of the top frame (what `PopCallFrame` makes the current module) -/
def topMod : List Frame → Int
  | [] => -1
  | fr :: _ => fr.moduleId

theorem find?_map_keep {α} (q : α → Bool) (f : α → α) (hq : ∀ p, q (f p) = q p) (hf : ∀ p, q p = true → f p = p) :
    ∀ l : List α, (l.map f).find? q = l.find? q := by
  intro l
  induction l with
  | nil => rfl
  | cons p ps ih =>
    simp only [List.map_cons, List.find?_cons, hq p]
    cases hp : q p with
    | true => simp only [hf p hp]
    | false => exact ih

theorem getScope_putScope_ne (mid mid' : Int) (sc : Scope) (s : VM ν) (hne : mid' ≠ mid) :
    getScope mid' (putScope mid sc s) = getScope mid' s := by
  unfold getScope putScope
  split
  · simp only
    rw [find?_map_keep]
    · intro p
      by_cases hp : (p.1 == mid) = true
      · have h1 : p.1 = mid := by simpa using hp
        have h2 : (mid == mid') = false := by simpa using (Ne.symm hne)
        have h3 : (p.1 == mid') = false := by rw [h1]; exact h2
        simp [hp, h2, h3]
      · simp [hp]
    · intro p hp
      have h1 : p.1 = mid' := by simpa using hp
      have h2 : (p.1 == mid) = false := by rw [h1]; simpa using hne
      simp [h2]
  · simp only
    rw [List.find?_append]
    have h2 : (mid == mid') = false := by simpa using (Ne.symm hne)
    simp [h2]

/-- the state after `PushCallFrame` -/
def pushed (fr : Frame) (s : VM ν) : VM ν :=
  let s1 := { s with stack := fr :: s.stack, csModuleID := fr.moduleId }
  match getScope fr.moduleId s1 with
  | some _ => s1
  | none => putScope fr.moduleId {} s1

theorem pushFrame_eq (fr : Frame) (s : VM ν) : pushFrame fr s = (.ok (), pushed fr s) := rfl

theorem pushed_facts (fr : Frame) (s : VM ν) :
    (pushed fr s).heap = s.heap ∧ (pushed fr s).globals = s.globals ∧ (pushed fr s).stack = fr :: s.stack ∧
    (pushed fr s).csModuleID = fr.moduleId := by
  unfold pushed
  simp only
  split
  · exact ⟨rfl, rfl, rfl, rfl⟩
  · unfold putScope; split <;> exact ⟨rfl, rfl, rfl, rfl⟩

theorem pushed_scope (fr : Frame) (s : VM ν) (cs : Int) (sc : Scope) (h : getScope cs s = some sc) :
    getScope cs (pushed fr s) = some sc := by
  unfold pushed
  simp only
  split
  · exact h
  · rename_i hnone
    by_cases hcs : cs = fr.moduleId
    · subst hcs
      have : getScope fr.moduleId s = none := hnone
      rw [this] at h; cases h
    · rw [getScope_putScope_ne _ _ _ _ hcs]; exact h

theorem popFrame_eq (s : VM ν) (fr : Frame) (rest : List Frame) (hs : s.stack = fr :: rest) :
    popFrame s = (.ok (), { s with stack := rest, csModuleID := topMod rest }) := by
  unfold popFrame topMod
  rw [hs]
  rfl

theorem M_bind_pop (sb : VM ν) (rv : Addr) (fr : Frame) (rest : List Frame) (hs : sb.stack = fr :: rest) :
    ((do popFrame; pure rv) : M ν Addr) sb = (.ok rv, { sb with stack := rest, csModuleID := topMod rest }) := by
  simp only [bind, popFrame_eq sb fr rest hs, pure]

theorem execMethod_nonobj (n : Nat) (root : Addr) (fname : String) (params : List Addr) (s : VM ν) (c : Cell ν)
    (hc : s.heap[root]? = some c) (hno : ∀ k p, c ≠ .obj k p) :
    execMethodFunction (n+1) root fname params s = ((do
      pushFrame { moduleId := -1, callType := 2, this := some root }
      let r ← builtinMethod n root fname params
      popFrame
      pure r) : M ν Addr) s := by
  simp only [execMethodFunction, bind, getCell, hc]

theorem builtinMethod_null (n : Nat) (root : Addr) (fname : String) (params : List Addr) (s : VM ν)
    (hc : s.heap[root]? = some .null) : builtinMethod n root fname params s = (.err (.rt 46), s) := by
  simp [builtinMethod, bind, getCell, hc, rtErr, throwE]

/-- what every step keeps, whatever its outcome: the pinned cells, the predefined names, the scope of module `cs` -/
structure Kept (Z : Zone ν) (g : List (String × Addr)) (cs : Int) (sc : Scope) (s : VM ν) : Prop where
  keep : ∀ i, ¬ Z.W i → s.heap[i]? = Z.fix[i]?
  glob : s.globals = g
  scope : getScope cs s = some sc
  /-- the current module is `cs`, or — after a built-in method call failed — the native module -/
  curOr : s.csModuleID = cs ∨ s.csModuleID = -1

/-- the invariant between two statements: moreover the zone invariant holds, `cs` is the current module, and it is the
module of the top frame -/
structure Between (Z : Zone ν) (g : List (String × Addr)) (cs : Int) (sc : Scope) (s : VM ν) : Prop where
  kept : Kept Z g cs sc s
  zinv : ZInv Z s.heap
  cur : s.csModuleID = cs
  coh : topMod s.stack = cs

/-- name resolution as a function of the predefined names and one scope -/
def resolveIn (g : List (String × Addr)) (sc : Scope) (nm : String) : Option Addr :=
  match lookup nm g with
  | some a => some a
  | none => (sc.find nm).map (·.val)

theorem Between.resolve {Z : Zone ν} {g : List (String × Addr)} {cs : Int} {sc : Scope} {s : VM ν}
    (hb : Between Z g cs sc s) (nm : String) : resolve nm s = resolveIn g sc nm := by
  unfold Model.resolve resolveIn
  rw [hb.kept.glob, hb.cur, hb.kept.scope]
  rfl

theorem getScope_sameBut {s s' : VM ν} (h : SameBut s s') (mid : Int) : getScope mid s' = getScope mid s := by
  unfold SameBut at h
  rw [h]
  rfl

theorem Kept.sameBut {Z : Zone ν} {g : List (String × Addr)} {cs : Int} {sc : Scope} {s s' : VM ν}
    (hk : Kept Z g cs sc s) (h : SameBut s s') (hkeep : ∀ i, ¬ Z.W i → s'.heap[i]? = Z.fix[i]?) : Kept Z g cs sc s' := by
  refine ⟨hkeep, ?_, ?_, ?_⟩
  · have := hk.glob; unfold SameBut at h; rw [h]; exact this
  · rw [getScope_sameBut h]; exact hk.scope
  · have := hk.curOr; unfold SameBut at h; rw [h]; exact this

theorem Between.sameBut {Z : Zone ν} {g : List (String × Addr)} {cs : Int} {sc : Scope} {s s' : VM ν}
    (hb : Between Z g cs sc s) (h : SameBut s s') (hz : ZInv Z s'.heap) : Between Z g cs sc s' := by
  refine ⟨hb.kept.sameBut h hz.keep, hz, ?_, ?_⟩
  · have := hb.cur; unfold SameBut at h; rw [h]; exact this
  · have := hb.coh; unfold SameBut at h; rw [h]; exact this

/-- one heap-only step between statements -/
theorem Between.step {Z : Zone ν} {g : List (String × Addr)} {cs : Int} {sc : Scope} {s s' : VM ν} {α : Type}
    {Q : α → Prop} {m : M ν α} {r : Res α} (hb : Between Z g cs sc s) (ht : TightAt Z Q m s) (h : m s = (r, s')) :
    Kept Z g cs sc s' ∧ SameBut s s' ∧ ∀ a, r = .ok a → Between Z g cs sc s' ∧ Q a := by
  rcases ht r s' hb.zinv h with ⟨h1, h2, h3⟩
  exact ⟨hb.kept.sameBut h1 h2, h1, fun a ha => ⟨hb.sameBut h1 (h3 a ha).1, (h3 a ha).2⟩⟩

/-- **a built-in method call on a tainted receiver with tainted arguments.**  Whatever the outcome, the pinned cells, the
predefined names and the scope of the calling module are as before (after a failure the frame of the call is still on
the stack and the current module is the native one, `-1`); after success the caller's frame and module are current again. -/
theorem execMethod_run (Z : Zone ν) {g : List (String × Addr)} {cs : Int} {sc : Scope} (n : Nat) (root : Addr)
    (fname : String) (vals : List Addr) (s s' : VM ν) (r : Res Addr) (hb : Between Z g cs sc s) (hr : Z.T root)
    (hv : ∀ v ∈ vals, Z.T v) (h : execMethodFunction n root fname vals s = (r, s')) :
    Kept Z g cs sc s' ∧ ((∃ v, r = .ok v) → Between Z g cs sc s') := by
  cases n with
  | zero =>
    simp only [execMethodFunction, outOfFuel] at h
    injection h with h1 h2
    subst h2
    exact ⟨hb.kept, fun _ => hb⟩
  | succ n =>
    cases hcell : s.heap[root]? with
    | none =>
      simp only [execMethodFunction, bind, getCell, hcell] at h
      injection h with h1 h2
      subst h2
      exact ⟨hb.kept, fun _ => hb⟩
    | some c =>
      have hcases : (Z.W root ∧ okCell Z c) ∨ (¬ Z.W root ∧ c = .null) := by
        by_cases hw : Z.W root
        · exact .inl ⟨hw, hb.zinv.ok root c hr hcell⟩
        · refine .inr ⟨hw, Z.nul root c hr hw ?_⟩
          rw [← hb.zinv.keep root hw]; exact hcell
      have hno : ∀ k p, c ≠ .obj k p := by
        intro k p hcp
        rcases hcases with ⟨_, hok⟩ | ⟨_, hnull⟩
        · rw [hcp] at hok; exact absurd hok.1 (by simp [Cell.isRefKind])
        · rw [hcp] at hnull; cases hnull
      rw [execMethod_nonobj n root fname vals s c hcell hno] at h
      rcases bind_inv h with ⟨u, sp, hpush, h2⟩ | ⟨r1, hpush, hne, _⟩
      · rw [pushFrame_eq] at hpush
        injection hpush with _ hsp
        subst hsp
        rcases pushed_facts (ν := ν) { moduleId := -1, callType := 2, this := some root } s with ⟨ph, pg, pst, pcs⟩
        have pscope := pushed_scope (ν := ν) { moduleId := -1, callType := 2, this := some root } s cs sc hb.kept.scope
        have hzp : ZInv Z (pushed (ν := ν) { moduleId := -1, callType := 2, this := some root } s).heap := by
          rw [ph]; exact hb.zinv
        -- the built-in itself: only the heap changes
        have hbm : ∀ rb sb, builtinMethod n root fname vals
              (pushed (ν := ν) { moduleId := -1, callType := 2, this := some root } s) = (rb, sb) →
            SameBut (pushed (ν := ν) { moduleId := -1, callType := 2, this := some root } s) sb ∧
            (∀ i, ¬ Z.W i → sb.heap[i]? = Z.fix[i]?) ∧ ∀ a, rb = .ok a → ZInv Z sb.heap := by
          intro rb sb hrun
          rcases hcases with ⟨hw, _⟩ | ⟨_, hnull⟩
          · rcases (builtinMethod_tight Z n root fname vals hw hv).run _ rb sb hzp hrun with ⟨q1, q2, q3⟩
            exact ⟨q1, q2, fun a ha => (q3 a ha).1⟩
          · subst hnull
            rw [builtinMethod_null n root fname vals _ (by rw [ph]; exact hcell)] at hrun
            injection hrun with e1 e2
            subst e2
            exact ⟨SameBut.refl _, hzp.keep, fun a ha => by rw [← e1] at ha; cases ha⟩
        rcases bind_inv h2 with ⟨rv, sb, hrun, h3⟩ | ⟨r1, hrun, _, hrne⟩
        · rcases hbm _ _ hrun with ⟨q1, q2, q3⟩
          have hstack : sb.stack = { moduleId := -1, callType := 2, this := some root } :: s.stack := by
            have : sb.stack = (pushed (ν := ν) { moduleId := -1, callType := 2, this := some root } s).stack := by
              unfold SameBut at q1; rw [q1]
            rw [this, pst]
          rw [M_bind_pop sb rv _ _ hstack] at h3
          injection h3 with e1 e2
          subst e2
          have hk : Kept Z g cs sc
              { sb with stack := s.stack, csModuleID := topMod s.stack } := by
            refine ⟨q2, ?_, ?_, .inl hb.coh⟩
            · show sb.globals = g
              have : sb.globals = (pushed (ν := ν) { moduleId := -1, callType := 2, this := some root } s).globals := by
                unfold SameBut at q1; rw [q1]
              rw [this, pg]; exact hb.kept.glob
            · show getScope cs { sb with stack := s.stack, csModuleID := topMod s.stack } = some sc
              have : getScope cs { sb with stack := s.stack, csModuleID := topMod s.stack } = getScope cs sb := rfl
              rw [this, getScope_sameBut q1]; exact pscope
          exact ⟨hk, fun _ => ⟨hk, q3 rv rfl, hb.coh, hb.coh⟩⟩
        · rcases hbm _ _ hrun with ⟨q1, q2, _⟩
          refine ⟨⟨q2, ?_, ?_, .inr ?_⟩, fun ⟨v, hv'⟩ => absurd hv' (hrne v)⟩
          · have : s'.globals = (pushed (ν := ν) { moduleId := -1, callType := 2, this := some root } s).globals := by
              unfold SameBut at q1; rw [q1]
            rw [this, pg]; exact hb.kept.glob
          · rw [getScope_sameBut q1]; exact pscope
          · have : s'.csModuleID = (pushed (ν := ν) { moduleId := -1, callType := 2, this := some root } s).csModuleID := by
              unfold SameBut at q1; rw [q1]
            rw [this, pcs]
      · rw [pushFrame_eq] at hpush
        injection hpush with e1 _
        exact absurd e1.symm (hne ())

/-! ## statements -/

theorem matchIDName_state (lit : String) (s s' : VM ν) (r : Res String) (h : matchIDName lit s = (r, s')) : s' = s := by
  unfold matchIDName matchIDType at h
  simp only [bind] at h
  cases hp : tryParseNumber (strCps lit) <;> rw [hp] at h <;> simp [throwE, pure] at h <;> exact h.2.symm

/-- `以 z#i…（m：literals）` -/
theorem mcall_run (Z : Zone ν) {g : List (String × Addr)} {cs : Int} {sc : Scope} {z : String} {p : Expr}
    (hp : PathExpr z p) (m : Ident) (params : List Expr) (hpar : ∀ e ∈ params, LitExpr e) (n ln l : Nat)
    (s s' : VM ν) (r : Res Addr) (c : Addr) (hb : Between Z g cs sc s) (hres : resolveIn g sc z = some c) (hc : Z.T c)
    (h : evalExpr n (.mcall ln p [.call l (some m) params none] none) s = (r, s')) :
    Kept Z g cs sc s' ∧ ((∃ v, r = .ok v) → Between Z g cs sc s') := by
  cases n with
  | zero =>
    simp only [evalExpr, outOfFuel] at h
    injection h with h1 h2
    subst h2
    exact ⟨hb.kept, fun _ => hb⟩
  | succ n =>
    rw [evalExpr_mcall1] at h
    rcases bind_inv h with ⟨rv, s1, h1, h2⟩ | ⟨r1, h1, _, hne⟩
    · rcases hb.step (path_tightAt Z hp n s c (by rw [hb.resolve]; exact hres) hc) h1 with ⟨_, _, q⟩
      rcases q rv rfl with ⟨hb1, hrv⟩
      rcases bind_inv h2 with ⟨fname, s2, h3, h4⟩ | ⟨r1, h3, _, hne⟩
      · have := matchIDName_state _ _ _ _ h3
        subst this
        rcases bind_inv h4 with ⟨vals, s3, h5, h6⟩ | ⟨r1, h5, _, hne⟩
        · rcases hb1.step ((tight_mapM params (fun e he => lit_tight Z (hpar e he) n)).at _) h5 with ⟨_, _, q⟩
          rcases q vals rfl with ⟨hb3, hvals⟩
          exact execMethod_run Z n rv fname vals s3 s' r hb3 hrv hvals h6
        · rcases hb1.step ((tight_mapM params (fun e he => lit_tight Z (hpar e he) n)).at _) h5 with ⟨hk, _, _⟩
          exact ⟨hk, fun ⟨v, hv⟩ => absurd hv (hne v)⟩
      · have := matchIDName_state _ _ _ _ h3
        subst this
        exact ⟨hb1.kept, fun ⟨v, hv⟩ => absurd hv (hne v)⟩
    · rcases hb.step (path_tightAt Z hp n s c (by rw [hb.resolve]; exact hres) hc) h1 with ⟨hk, _, _⟩
      exact ⟨hk, fun ⟨v, hv⟩ => absurd hv (hne v)⟩

theorem setTopFrame_line (k : Nat) (s : VM ν) :
    ∃ s0, setTopFrame (fun fr => { fr with line := k, started := true }) s = (.ok (), s0) ∧ s0.heap = s.heap ∧ s0.globals = s.globals ∧
      s0.scopes = s.scopes ∧ s0.csModuleID = s.csModuleID ∧ topMod s0.stack = topMod s.stack := by
  unfold setTopFrame modifyVM
  refine ⟨_, rfl, ?_⟩
  dsimp only
  split <;> simp_all [topMod]

theorem Between.setLine {Z : Zone ν} {g : List (String × Addr)} {cs : Int} {sc : Scope} {s s0 : VM ν}
    (hb : Between Z g cs sc s) (h1 : s0.heap = s.heap) (h2 : s0.globals = s.globals) (h3 : s0.scopes = s.scopes)
    (h4 : s0.csModuleID = s.csModuleID) (h5 : topMod s0.stack = topMod s.stack) : Between Z g cs sc s0 := by
  refine ⟨⟨?_, ?_, ?_, ?_⟩, ?_, ?_, ?_⟩
  · rw [h1]; exact hb.kept.keep
  · rw [h2]; exact hb.kept.glob
  · have : getScope cs s0 = getScope cs s := by unfold getScope; rw [h3]
    rw [this]; exact hb.kept.scope
  · rw [h4]; exact hb.kept.curOr
  · rw [h1]; exact hb.zinv
  · rw [h4]; exact hb.cur
  · rw [h5]; exact hb.coh

/-- one statement of the fragment -/
theorem stmt_run (Z : Zone ν) {g : List (String × Addr)} {cs : Int} {sc : Scope} {z : String} {st : Stmt}
    (hst : ThroughStmt z st) (n : Nat) (s s' : VM ν) (r : Res Addr) (c : Addr) (hb : Between Z g cs sc s)
    (hres : resolveIn g sc z = some c) (hc : Z.T c) (h : evalStmt n st s = (r, s')) :
    Kept Z g cs sc s' ∧ ((∃ v, r = .ok v) → Between Z g cs sc s') := by
  cases n with
  | zero =>
    simp only [evalStmt, outOfFuel] at h
    injection h with h1 h2
    subst h2
    exact ⟨hb.kept, fun _ => hb⟩
  | succ n =>
    cases hst with
    | assign ln l p idx rhs hp hidx hrhs =>
      rw [evalStmt_expr] at h
      rcases setTopFrame_line (Stmt.expr (.assign ln (.member l 1 p 2 none idx) rhs)).line s with ⟨s0, e0, f1, f2, f3, f4, f5⟩
      rcases bind_inv h with ⟨u, s1, h1, h2⟩ | ⟨r1, h1, hne, _⟩
      · rw [e0] at h1
        injection h1 with _ e1
        subst e1
        have hb0 := hb.setLine f1 f2 f3 f4 f5
        rcases hb0.step (assign_tightAt Z hp hidx hrhs n ln l s0 c (by rw [hb0.resolve]; exact hres) hc) h2 with ⟨hk, _, q⟩
        exact ⟨hk, fun ⟨v, hv⟩ => (q v hv).1⟩
      · rw [e0] at h1
        injection h1 with e1 _
        exact absurd e1.symm (hne ())
    | method ln l p m params hp hpar =>
      rw [evalStmt_expr] at h
      rcases setTopFrame_line (Stmt.expr (.mcall ln p [.call l (some m) params none] none)).line s with ⟨s0, e0, f1, f2, f3, f4, f5⟩
      rcases bind_inv h with ⟨u, s1, h1, h2⟩ | ⟨r1, h1, hne, _⟩
      · rw [e0] at h1
        injection h1 with _ e1
        subst e1
        exact mcall_run Z hp m params hpar n ln l s0 s' r c (hb.setLine f1 f2 f3 f4 f5) hres hc h2
      · rw [e0] at h1
        injection h1 with e1 _
        exact absurd e1.symm (hne ())

theorem getReturnValue_state (s : VM ν) : ∃ x, getReturnValue s = (.ok x, s) := by
  unfold getReturnValue topFrame
  simp only [bind]
  cases s.stack.head? <;> exact ⟨_, rfl⟩

theorem isDecl_through {z : String} {st : Stmt} (h : ThroughStmt z st) : isDecl st = false := by
  cases h <;> rfl

/-- **the statement list.**  Any list of changes through `z`, run by the statement loop from a state between statements:
whatever the outcome, the pinned cells, the predefined names and the scope of the module are as before; when the
loop ends normally, the state is a state between statements again. -/
theorem loop_run (Z : Zone ν) {g : List (String × Addr)} {cs : Int} {sc : Scope} {z : String} (n : Nat) (c : Addr)
    (hres : resolveIn g sc z = some c) (hc : Z.T c) :
    ∀ (stmts : List Stmt), (∀ st ∈ stmts, ThroughStmt z st) → ∀ (last : Option Addr) (s s' : VM ν) (r : Res (Option Addr)),
      Between Z g cs sc s → stmtsLoop (evalStmt n) last stmts s = (r, s') →
      Kept Z g cs sc s' ∧ ((∃ v, r = .ok v) → Between Z g cs sc s') := by
  intro stmts
  induction stmts with
  | nil =>
    intro _ last s s' r hb h
    simp only [stmtsLoop, pure] at h
    injection h with h1 h2
    subst h2
    exact ⟨hb.kept, fun _ => hb⟩
  | cons st rest ih =>
    intro hall last s s' r hb h
    have hst := hall st (by simp)
    simp only [stmtsLoop, isDecl_through hst, Bool.false_eq_true, if_false, pure_bind] at h
    rcases bind_inv h with ⟨v, s1, h3, h2⟩ | ⟨r2, h3, _, hne⟩
    · rcases stmt_run Z hst n s s1 (.ok v) c hb hres hc h3 with ⟨_, q⟩
      have hb1 := q ⟨v, rfl⟩
      rcases getReturnValue_state s1 with ⟨x, hx⟩
      rcases bind_inv h2 with ⟨x', s2, h5, h6⟩ | ⟨r1, h5, hne, _⟩
      · rw [hx] at h5
        injection h5 with e3 e4
        subst e4
        injection e3 with e3
        subst e3
        cases x with
        | some rv =>
          simp only [pure] at h6
          injection h6 with e5 e6
          subst e6
          exact ⟨hb1.kept, fun _ => hb1⟩
        | none => exact ih (fun st' hst' => hall st' (by simp [hst'])) (some v) s1 s' r hb1 h6
      · rw [hx] at h5
        injection h5 with e3 _
        exact absurd e3.symm (hne x)
    · rcases stmt_run Z hst n s s' r2 c hb hres hc h3 with ⟨hk, _⟩
      exact ⟨hk, fun ⟨v, hv⟩ => absurd hv (hne v)⟩

/-! ## the declaration `令 y 为 x` -/

/-- two heaps that agree on every cell below `a` read `a` alike -/
theorem content_agree : ∀ (n : Nat) (h h' : Array (Cell ν)) (a : Addr), (∀ i, Reach h a i → h'[i]? = h[i]?) →
    content n h' a = content n h a := by
  intro n
  induction n with
  | zero => intro h h' a _; rfl
  | succ m ih =>
    intro h h' a hag
    simp only [content]
    rw [hag a (.refl a)]
    cases hc : h[a]? with
    | none => rfl
    | some c =>
      simp only
      rw [omapM_congr (content m h') (content m h) c.children
        (fun x hx => ih h h' x (fun i hr => hag i (.step hc hx hr)))]

theorem mapM_ok_mono {α β} (f g : α → M ν β) : ∀ (l : List α) (s s' : VM ν) (bs : List β),
    (∀ x ∈ l, ∀ s b s', f x s = (.ok b, s') → g x s = (.ok b, s')) →
    l.mapM f s = (.ok bs, s') → l.mapM g s = (.ok bs, s') := by
  intro l
  induction l with
  | nil => intro s s' bs _ h; simpa [pure] using h
  | cons x xs ih =>
    intro s s' bs hfg h
    rcases mapM_cons_inv f _ _ _ _ _ h with ⟨b, bs', s1, h1, h2, rfl⟩
    exact mapM_cons_ok g _ _ _ s1 _ _ _ (hfg x (by simp) _ _ _ h1) (ih s1 s' bs' (fun y hy => hfg y (by simp [hy])) h2)

theorem bind_ok_intro {α β} {m : M ν α} {f : α → M ν β} {s s1 : VM ν} {a : α} {r : Res β × VM ν}
    (h1 : m s = (.ok a, s1)) (h2 : f a s1 = r) : (m >>= f) s = r := by
  simp only [bind, h1]; exact h2

/-- a successful `dup` is the same with more fuel -/
theorem dup_fuel_mono : ∀ (k : Nat) (a : Addr) (s : VM ν) (b : Addr) (s' : VM ν),
    dup k a s = (.ok b, s') → dup (k+1) a s = (.ok b, s') := by
  intro k
  induction k with
  | zero => intro a s b s' h; simp [dup, outOfFuel] at h
  | succ k ih =>
    intro a s b s' h
    rw [dup] at h ⊢
    rcases bind_ok_inv _ _ _ _ _ h with ⟨c, s0, hc, h1⟩
    rcases getCell_ok_inv hc with ⟨hc', e⟩
    subst e
    refine bind_ok_intro hc ?_
    cases c with
    | arr items =>
      simp only at h1 ⊢
      rcases bind_ok_inv _ _ _ _ _ h1 with ⟨vs, s1, hm, h2⟩
      exact bind_ok_intro (mapM_ok_mono (dup k) (dup (k+1)) items s0 s1 vs (fun x _ s b s' hx => ih x s b s' hx) hm) h2
    | hm vals order =>
      simp only at h1 ⊢
      rcases bind_ok_inv _ _ _ _ _ h1 with ⟨kvs, s1, hm, h2⟩
      refine bind_ok_intro (mapM_ok_mono _ _ order s0 s1 kvs (fun key _ s p s' hx => ?_) hm) h2
      cases hl : lookup key vals with
      | none => rw [hl] at hx; simp [goPanic] at hx
      | some v =>
        rw [hl] at hx
        simp only at hx ⊢
        rcases bind_ok_inv _ _ _ _ _ hx with ⟨v', s2, hd, hp⟩
        exact bind_ok_intro (ih v s v' s2 hd) hp
    | _ => exact h1

/-- a source of `dup` whose copy is tainted: a readable value without objects below it, whose 空 cells are tainted -/
def Src (Z : Zone ν) (h : Array (Cell ν)) (a : Addr) : Prop :=
  Readable h a ∧ ∀ i, Reach h a i → ∃ c, h[i]? = some c ∧ c.isRefKind = false ∧ (c = .null → Z.T i)

theorem Src.ext {Z : Zone ν} {h h' : Array (Cell ν)} {a : Addr} (e : Ext h h') (hs : Src Z h a) : Src Z h' a := by
  rcases hs.1 with ⟨n, t, ht⟩
  refine ⟨hs.1.ext e, fun i hr => ?_⟩
  rcases hs.2 i ((reach_ext e (content_valid n ht)).1 hr) with ⟨c, hc, h1, h2⟩
  exact ⟨c, e.get hc, h1, h2⟩

theorem Src.child {Z : Zone ν} {h : Array (Cell ν)} {a x : Addr} {c : Cell ν} (hs : Src Z h a) (hc : h[a]? = some c)
    (hx : x ∈ c.children) : Src Z h x :=
  ⟨hs.1.of_reach (Reach.child hc hx), fun i hr => hs.2 i ((Reach.child hc hx).trans hr)⟩

/-- a loop that keeps an invariant of the state and answers values satisfying `Q` -/
theorem mapM_invariant {κ β} (I : VM ν → Prop) (Q : β → Prop) (f : κ → M ν β) :
    ∀ (l : List κ), (∀ k ∈ l, ∀ s b s', I s → f k s = (.ok b, s') → I s' ∧ Q b) →
    ∀ s bs s', I s → l.mapM f s = (.ok bs, s') → I s' ∧ ∀ b ∈ bs, Q b := by
  intro l
  induction l with
  | nil =>
    intro _ s bs s' hi h
    simp [pure] at h
    rcases h with ⟨rfl, rfl⟩
    exact ⟨hi, by simp⟩
  | cons k ks ih =>
    intro hf s bs s' hi h
    rcases mapM_cons_inv f _ _ _ _ _ h with ⟨b, bs', s1, h1, h2, rfl⟩
    rcases hf k (by simp) s b s1 hi h1 with ⟨hi1, hq⟩
    rcases ih (fun k' hk' => hf k' (by simp [hk'])) s1 bs' s' hi1 h2 with ⟨hi2, hqs⟩
    exact ⟨hi2, fun y hy => by
      rcases List.mem_cons.1 hy with rfl | hy
      · exact hq
      · exact hqs y hy⟩

/-- `dup` of such a source allocates only well-typed cells and answers a tainted value -/
theorem dup_src (Z : Zone ν) : ∀ (n : Nat) (a : Addr) (s : VM ν) (b : Addr) (s' : VM ν),
    ZInv Z s.heap → Src Z s.heap a → dup n a s = (.ok b, s') → ZInv Z s'.heap ∧ Z.T b := by
  intro n
  induction n with
  | zero => intro a s b s' _ _ h; simp [dup, outOfFuel] at h
  | succ n ih =>
    intro a s b s' hi hs h
    rcases hs.2 a (.refl a) with ⟨c, hc, hnr, hnull⟩
    rw [dup] at h
    simp only [bind, getCell, hc] at h
    -- the invariant of the two child loops: the zone invariant, and the heap only grew
    have hloop : ∀ x, x ∈ c.children → ∀ s1 b1 s2, (ZInv Z s1.heap ∧ Ext s.heap s1.heap) → dup n x s1 = (.ok b1, s2) →
        (ZInv Z s2.heap ∧ Ext s.heap s2.heap) ∧ Z.T b1 := by
      intro x hx s1 b1 s2 hi1 hd
      rcases ih x s1 b1 s2 hi1.1 ((hs.child hc hx).ext hi1.2) hd with ⟨q1, q2⟩
      exact ⟨⟨q1, hi1.2.trans ((dup_grow n x).run s1 _ s2 hd).2⟩, q2⟩
    cases c with
    | bool x => exact ⟨((tight_newBool (Z := Z) x).run s _ s' hi h).2.2 b rfl |>.1, ((tight_newBool (Z := Z) x).run s _ s' hi h).2.2 b rfl |>.2⟩
    | str x => exact ⟨((tight_newStr (Z := Z) x).run s _ s' hi h).2.2 b rfl |>.1, ((tight_newStr (Z := Z) x).run s _ s' hi h).2.2 b rfl |>.2⟩
    | num x => exact ⟨((tight_newNum (Z := Z) x).run s _ s' hi h).2.2 b rfl |>.1, ((tight_newNum (Z := Z) x).run s _ s' hi h).2.2 b rfl |>.2⟩
    | null =>
      simp only [pure] at h
      injection h with h1 h2
      injection h1 with h1
      subst h1; subst h2
      exact ⟨hi, hnull rfl⟩
    | arr items =>
      simp only at h
      rcases bind_ok_inv _ _ _ _ _ h with ⟨vs, s1, hm, h2⟩
      rcases mapM_invariant (fun s1 => ZInv Z s1.heap ∧ Ext s.heap s1.heap) Z.T (dup n) items
        (fun x hx s1 b1 s2 hi1 hd => hloop x hx s1 b1 s2 hi1 hd) s vs s1 ⟨hi, Ext.refl _⟩ hm with ⟨⟨hi1, _⟩, hvs⟩
      have := (tight_alloc (Z := Z) (.arr vs) (okCell_arr.2 hvs)).run s1 _ s' hi1 h2
      exact this.2.2 b rfl
    | hm vals order =>
      simp only at h
      rcases bind_ok_inv _ _ _ _ _ h with ⟨kvs, s1, hm, h2⟩
      rcases mapM_invariant (fun s1 => ZInv Z s1.heap ∧ Ext s.heap s1.heap) (fun (p : String × Addr) => Z.T p.2) _ order
        (fun key _ s1 p s2 hi1 hd => by
          cases hl : lookup key vals with
          | none => rw [hl] at hd; simp [goPanic] at hd
          | some v =>
            rw [hl] at hd
            simp only at hd
            rcases bind_ok_inv _ _ _ _ _ hd with ⟨v', s3, hd1, hp⟩
            rcases pure_ok_inv hp with ⟨e1, e2⟩
            rw [e1, e2]
            exact hloop v (lookup_mem_snd hl) s1 v' s3 hi1 hd1) s kvs s1 ⟨hi, Ext.refl _⟩ hm with ⟨⟨hi1, _⟩, hkvs⟩
      have := (tight_alloc (Z := Z) (newHashMapCell kvs) (okCell_newHashMapCell kvs hkvs)).run s1 _ s' hi1 h2
      exact this.2.2 b rfl
    | obj k p => simp [Cell.isRefKind] at hnr
    | fn f => simp [Cell.isRefKind] at hnr
    | cls nm ct p m => simp [Cell.isRefKind] at hnr
    | exc m => simp [Cell.isRefKind] at hnr

theorem resolve_congr {s s' : VM ν} (h1 : s'.globals = s.globals) (h2 : s'.scopes = s.scopes)
    (h3 : s'.csModuleID = s.csModuleID) (nm : String) : resolve nm s' = resolve nm s := by
  unfold resolve getScope
  rw [h1, h2, h3]

/-- evaluating a name: either what the name denotes (state unchanged), or — when it is a number literal — a new number cell -/
theorem id_eval (k l : Nat) (x : String) (s0 sA : VM ν) (obj : Addr) (h : evalExpr k (.id ⟨l, x⟩) s0 = (.ok obj, sA)) :
    (tryParseNumber (strCps x) = .name ∧ resolve x s0 = some obj ∧ sA = s0) ∨
    (tryParseNumber (strCps x) = .number ∧ ∃ v : ν, obj = s0.heap.size ∧ sA = { s0 with heap := s0.heap.push (.num v) }) := by
  cases k with
  | zero => simp [evalExpr, outOfFuel] at h
  | succ k =>
    rw [evalExpr_id] at h
    simp only [matchIDType] at h
    cases hp : tryParseNumber (strCps x) with
    | error => rw [hp] at h; simp [bind, throwE] at h
    | name =>
      rw [hp] at h
      simp only [pure_bind] at h
      rw [findElement_eq] at h
      cases hr : resolve x s0 with
      | none => rw [hr] at h; simp at h
      | some a0 =>
        rw [hr] at h
        simp only at h
        injection h with h1 h2
        injection h1 with h1
        exact .inl ⟨rfl, by rw [h1], h2.symm⟩
    | number =>
      rw [hp] at h
      simp only [pure_bind, newNum, alloc] at h
      injection h with h1 h2
      injection h1 with h1
      exact .inr ⟨rfl, _, h1.symm, h2.symm⟩

/-- the steps of `令 y 为 x` -/
theorem decl_inv (n ln l1 l2 : Nat) (x y : String) (s s1 : VM ν) (r1 : Addr)
    (h : evalStmt n (.varDecl ln [(1, [⟨l1, y⟩], .id ⟨l2, x⟩)]) s = (.ok r1, s1)) :
    ∃ k s0 obj sA b sB s3, n = k + 1 ∧ setTopFrame (fun fr => { fr with line := ln, started := true }) s = (.ok (), s0) ∧
      evalExpr k (.id ⟨l2, x⟩) s0 = (.ok obj, sA) ∧ dup k obj sA = (.ok b, sB) ∧
      declareElement y b false none sB = (.ok (), s3) ∧ s1 = { s3 with heap := s3.heap.push .null } := by
  cases n with
  | zero => simp [evalStmt, outOfFuel] at h
  | succ k =>
    rw [evalStmt_varDecl] at h
    rcases bind_ok_inv _ _ _ _ _ h with ⟨u, s0, h0, h1⟩
    rcases bind_ok_inv _ _ _ _ _ h1 with ⟨u', s2, hfor, hnull⟩
    simp only [List.forM] at hfor
    rcases bind_ok_inv _ _ _ _ _ hfor with ⟨u'', s2', hpair, hp0⟩
    rcases pure_ok_inv hp0 with ⟨_, e1⟩
    subst e1
    unfold declPair at hpair
    rw [if_pos (by rfl)] at hpair
    rcases bind_ok_inv _ _ _ _ _ hpair with ⟨obj, sA, hobj, hpair1⟩
    rcases bind_ok_inv _ _ _ _ _ hpair1 with ⟨last, s2'', hchain, hp1⟩
    rcases pure_ok_inv hp1 with ⟨_, e2⟩
    subst e2
    simp only [List.foldlM_cons, List.foldlM_nil] at hchain
    rcases bind_ok_inv _ _ _ _ _ hchain with ⟨b, s3, hstep, hrest⟩
    rcases pure_ok_inv hrest with ⟨_, e3⟩
    subst e3
    unfold declStep at hstep
    rcases bind_ok_inv _ _ _ _ _ hstep with ⟨name, sx, hname, hs1⟩
    rcases matchIDName_ok_inv hname with ⟨e4, e5⟩
    subst e4
    rw [e5] at hs1
    rcases bind_ok_inv _ _ _ _ _ hs1 with ⟨b', sB, hdup, hs2⟩
    rcases bind_ok_inv _ _ _ _ _ hs2 with ⟨u3, s3', hdecl, hs3⟩
    rcases pure_ok_inv hs3 with ⟨e6, e7⟩
    subst e6; subst e7
    simp only [newNull, alloc] at hnull
    injection hnull with _ e8
    exact ⟨k, s0, obj, sA, b, sB, s2, rfl, h0, hobj, hdup, hdecl, e8.symm⟩

theorem putScope_stack' (mid : Int) (sc : Scope) (s : VM ν) : (putScope mid sc s).stack = s.stack := by
  unfold putScope; split <;> rfl

/-- what the declaration `令 y 为 x` establishes, for any zone in which the heap before the declaration satisfies the
invariant and what `x` evaluates to is a copyable source: a state between statements, in which `y` denotes a tainted
value `b` and every other name denotes what it denoted -/
theorem decl_between (Z : Zone ν) (n ln l1 l2 : Nat) (x y : String) (s s1 : VM ν) (r1 : Addr)
    (h : evalStmt n (.varDecl ln [(1, [⟨l1, y⟩], .id ⟨l2, x⟩)]) s = (.ok r1, s1))
    (hcoh : topMod s.stack = s.csModuleID) (hz : ZInv Z s.heap)
    (hsrc : ∀ obj, resolve x s = some obj → Src Z s.heap obj) :
    ∃ sc1 b, Between Z s.globals s.csModuleID sc1 s1 ∧ Z.T b ∧ resolveIn s.globals sc1 y = some b ∧
      (∀ nm, nm ≠ y → resolveIn s.globals sc1 nm = resolve nm s) ∧ Ext s.heap s1.heap := by
  rcases decl_inv n ln l1 l2 x y s s1 r1 h with ⟨k, s0, obj, sA, b, sB, s3, rfl, h0, hobj, hdup, hdecl, rfl⟩
  rcases setTopFrame_line ln s with ⟨s0', e0, f1, f2, f3, f4, f5⟩
  rw [h0] at e0
  injection e0 with _ e0
  subst e0
  -- the source
  have hA : ZInv Z sA.heap ∧ Src Z sA.heap obj ∧ SameBut s0 sA ∧ Ext s0.heap sA.heap := by
    rcases id_eval k l2 x s0 sA obj hobj with ⟨_, hr, rfl⟩ | ⟨_, v, rfl, rfl⟩
    · have hr' : resolve x s = some obj := by rw [← resolve_congr f2 f3 f4]; exact hr
      refine ⟨by rw [f1]; exact hz, by rw [f1]; exact hsrc obj hr', SameBut.refl _, Ext.refl _⟩
    · have hz0 : ZInv Z s0.heap := by rw [f1]; exact hz
      refine ⟨hz0.push (okCell_num v), ⟨⟨1, .num v, ?_⟩, fun i hr => ?_⟩, SameBut.push _ _, Ext.push _ _⟩
      · simp [content, Cell.wf, Cell.children, Cell.rebuild]
      · have hcell : (s0.heap.push (Cell.num v))[s0.heap.size]? = some (.num v) := by simp
        rw [reach_leaf hcell rfl hr]
        exact ⟨_, hcell, rfl, fun hn => by cases hn⟩
  rcases hA with ⟨hzA, hsA, sb0A, e0A⟩
  rcases dup_src Z k obj sA b sB hzA hsA hdup with ⟨hzB, hTb⟩
  have gAB := (dup_grow k obj).run sA _ sB hdup
  rcases declareElement_ok_inv hdecl with ⟨sc0, hsc0, hg0, e3⟩
  have h3heap : s3.heap = sB.heap := declareElement_heap hdecl
  have hglobB : sB.globals = s.globals := by
    have h1 : sB.globals = sA.globals := by have := gAB.1; unfold SameBut at this; rw [this]
    have h2 : sA.globals = s0.globals := by unfold SameBut at sb0A; rw [sb0A]
    rw [h1, h2, f2]
  have hcsB : sB.csModuleID = s.csModuleID := by
    have h1 : sB.csModuleID = sA.csModuleID := by have := gAB.1; unfold SameBut at this; rw [this]
    have h2 : sA.csModuleID = s0.csModuleID := by unfold SameBut at sb0A; rw [sb0A]
    rw [h1, h2, f4]
  have hstB : sB.stack = s0.stack := by
    have h1 : sB.stack = sA.stack := by have := gAB.1; unfold SameBut at this; rw [this]
    have h2 : sA.stack = s0.stack := by unfold SameBut at sb0A; rw [sb0A]
    rw [h1, h2]
  have hz1 : ZInv Z (s3.heap.push Cell.null) := by rw [h3heap]; exact hzB.push okCell_null
  have hb : Between Z s.globals s.csModuleID
      { sc0 with syms := { name := y, depth := sc0.depth, isConst := false, ext := none, val := b } :: sc0.syms }
      { s3 with heap := s3.heap.push .null } := by
    refine ⟨⟨hz1.keep, ?_, ?_, .inl ?_⟩, hz1, ?_, ?_⟩
    · show s3.globals = s.globals
      rw [e3, (putScope_sameHeap _ _ _).2.1]; exact hglobB
    · show getScope s.csModuleID { s3 with heap := s3.heap.push .null } = some _
      have : getScope s.csModuleID { s3 with heap := s3.heap.push .null } = getScope s.csModuleID s3 := rfl
      rw [this, e3, ← hcsB]
      exact getScope_putScope _ _ _
    · show s3.csModuleID = s.csModuleID
      rw [e3, (putScope_sameHeap _ _ _).2.2]; exact hcsB
    · show s3.csModuleID = s.csModuleID
      rw [e3, (putScope_sameHeap _ _ _).2.2]; exact hcsB
    · show topMod s3.stack = s.csModuleID
      rw [e3, putScope_stack', hstB, f5]; exact hcoh
  have hsb3 : SameBut s3 { s3 with heap := s3.heap.push .null } := SameBut.push _ _
  refine ⟨_, b, hb, hTb, ?_, fun nm hne => ?_, ?_⟩
  · rw [← hb.resolve, resolve_sameBut hsb3]
    exact resolve_declare_self hdecl
  · rw [← hb.resolve, resolve_sameBut hsb3, resolve_declare_other hdecl hne, resolve_sameBut gAB.1,
      resolve_sameBut sb0A]
    exact resolve_congr f2 f3 f4 nm
  · show Ext s.heap (s3.heap.push .null)
    rw [h3heap, ← f1]
    exact (e0A.trans gAB.2).trans (Ext.push _ _)

/-! ## zone 1: everything allocated since the declaration started is the mutating side -/

/-- tainted: allocated at or after `h0.size`, or a 空 cell of `h0`; writable: allocated at or after `h0.size`; pinned: `h0` -/
def zoneNew (h0 : Array (Cell ν)) : Zone ν where
  T i := h0.size ≤ i ∨ h0[i]? = some .null
  W i := h0.size ≤ i
  fix := h0
  wt _ h := .inl h
  nul i c ht hw hc := by
    rcases ht with h | h
    · exact absurd h hw
    · rw [h] at hc; injection hc with e; exact e.symm

theorem zoneNew_init (h0 : Array (Cell ν)) : ZInv (zoneNew h0) h0 := by
  refine ⟨fun _ _ => rfl, fun i c ht hc => ?_, fun i h => h⟩
  rcases ht with h | h
  · have := lt_size_of_getElem? hc
    exact absurd h (Nat.not_le.2 this)
  · rw [h] at hc; injection hc with e; subst e; exact okCell_null

theorem not_isRef_cases {h : Array (Cell ν)} {i : Addr} {c : Cell ν} (hc : h[i]? = some c) (hn : ¬ IsRef h i) :
    c.isRefKind = false := by
  cases c <;> first | rfl | exact absurd ⟨_, hc, rfl, by intro hh; cases hh⟩ hn

/-- a readable value without objects below it is a copyable source in `zoneNew` -/
theorem src_zoneNew {n : Nat} {h0 : Array (Cell ν)} {a : Addr} {t : Tree ν} (ht : content n h0 a = some t)
    (hnoref : ∀ i, Reach h0 a i → ¬ IsRef h0 i) : Src (zoneNew h0) h0 a := by
  refine ⟨⟨n, t, ht⟩, fun i hr => ?_⟩
  rcases content_wellFormed ht i hr with ⟨c, hc, _⟩
  exact ⟨c, hc, not_isRef_cases hc (hnoref i hr), fun hn => .inr (by rw [hc, hn])⟩

/-- **changes through the copy are not visible through the original** (program level, every outcome).
After `令 y 为 x`, any list of changes through `y`, whatever its outcome `r2` (value, error, panic, out of fuel): no cell that
existed before the declaration has changed; the predefined names are the same; the scope of the declaring module still
binds `x` to `a`; `a` reads as `t`.  When the list ended normally, the declaring module is current again (and is the
module of the top frame), so `x` resolves to `a`. -/
theorem program_copy_new (n ln l1 l2 : Nat) (x y : String) (stmts : List Stmt) (s s1 s2 : VM ν) (a r1 : Addr) (t : Tree ν)
    (last : Option Addr) (r2 : Res (Option Addr))
    (hxy : x ≠ y) (hres : resolve x s = some a) (hcont : content n s.heap a = some t)
    (hnoref : ∀ i, Reach s.heap a i → ¬ IsRef s.heap i) (hcoh : topMod s.stack = s.csModuleID)
    (hdecl : evalStmt n (.varDecl ln [(1, [⟨l1, y⟩], .id ⟨l2, x⟩)]) s = (.ok r1, s1))
    (hall : ∀ st ∈ stmts, ThroughStmt y st) (hloop : stmtsLoop (evalStmt n) last stmts s1 = (r2, s2)) :
    (∀ i, i < s.heap.size → s2.heap[i]? = s.heap[i]?) ∧ s2.globals = s.globals ∧
    (∃ sc, getScope s.csModuleID s2 = some sc ∧ resolveIn s.globals sc x = some a) ∧
    content n s2.heap a = some t ∧ (s2.csModuleID = s.csModuleID ∨ s2.csModuleID = -1) ∧
    ((∃ v, r2 = .ok v) → s2.csModuleID = s.csModuleID ∧ topMod s2.stack = s.csModuleID ∧ resolve x s2 = some a) := by
  rcases decl_between (zoneNew s.heap) n ln l1 l2 x y s s1 r1 hdecl hcoh (zoneNew_init _)
    (fun obj ho => by rw [hres] at ho; injection ho with ho; subst ho; exact src_zoneNew hcont hnoref)
    with ⟨sc1, b, hb, hTb, hy, hother, _⟩
  rcases loop_run (zoneNew s.heap) n b hy hTb stmts hall last s1 s2 r2 hb hloop with ⟨hk, hok⟩
  have hx : resolveIn s.globals sc1 x = some a := by rw [hother x hxy]; exact hres
  have hkeep : ∀ i, i < s.heap.size → s2.heap[i]? = s.heap[i]? :=
    fun i hi => hk.keep i (fun (hw : s.heap.size ≤ i) => absurd hi (Nat.not_lt.2 hw))
  refine ⟨hkeep, hk.glob, ⟨sc1, hk.scope, hx⟩, ?_, hk.curOr, fun hv => ?_⟩
  · rw [content_agree n s.heap s2.heap a (fun i hr => hkeep i (content_valid n hcont i hr))]
    exact hcont
  · have hb2 := hok hv
    exact ⟨hb2.cur, hb2.coh, by rw [hb2.resolve]; exact hx⟩

/-! ## zone 2: the original, and everything allocated after the declaration, is the mutating side -/

/-- tainted: below the original `a` (in the heap `h0` before the declaration) or allocated after the declaration ended
(heap `h1`); writable: the same except the 空 cells below `a`; pinned: `h1` — in particular the copy made by the declaration -/
def zoneOld (h0 h1 : Array (Cell ν)) (a : Addr) (e : Ext h0 h1) (v : Valid h0 a) : Zone ν where
  T i := Reach h0 a i ∨ h1.size ≤ i
  W i := (Reach h0 a i ∧ h0[i]? ≠ some .null) ∨ h1.size ≤ i
  fix := h1
  wt _ h := h.imp (·.1) id
  nul i c ht hw hc := by
    rcases ht with h | h
    · have hlt := v i h
      rw [e.2 i hlt] at hc
      by_cases hn : h0[i]? = some .null
      · rw [hn] at hc; injection hc with e'; exact e'.symm
      · exact absurd (.inl ⟨h, hn⟩) hw
    · exact absurd (.inr h) hw

theorem zoneOld_init (h0 h1 : Array (Cell ν)) (a : Addr) (e : Ext h0 h1) (v : Valid h0 a)
    (hnoref : ∀ i, Reach h0 a i → ¬ IsRef h0 i) : ZInv (zoneOld h0 h1 a e v) h1 := by
  refine ⟨fun _ _ => rfl, fun i c ht hc => ?_, fun i h => .inr h⟩
  rcases ht with h | h
  · have hlt := v i h
    have hc0 : h0[i]? = some c := by rw [← e.2 i hlt]; exact hc
    exact ⟨not_isRef_cases hc0 (hnoref i h), fun x hx => .inl (h.trans (Reach.child hc0 hx))⟩
  · exact absurd (lt_size_of_getElem? hc) (Nat.not_lt.2 h)

/-- **changes through the original are not visible through the copy** (program level, every outcome).
After `令 y 为 x` (`x` a name), `y` denotes a value `b` that reads as `t`; after any list of changes through `x`, whatever its
outcome: no cell below `b` has changed, the scope of the declaring module still binds `y` to `b`, and `b` reads as `t`.
When the list ended normally, `y` resolves to `b`. -/
theorem program_copy_old (n ln l1 l2 : Nat) (x y : String) (stmts : List Stmt) (s s1 s2 : VM ν) (a r1 : Addr) (t : Tree ν)
    (last : Option Addr) (r2 : Res (Option Addr))
    (hxy : x ≠ y) (hxname : tryParseNumber (strCps x) ≠ .number)
    (hres : resolve x s = some a) (hcont : content n s.heap a = some t)
    (hnoref : ∀ i, Reach s.heap a i → ¬ IsRef s.heap i) (hcoh : topMod s.stack = s.csModuleID)
    (hdecl : evalStmt n (.varDecl ln [(1, [⟨l1, y⟩], .id ⟨l2, x⟩)]) s = (.ok r1, s1))
    (hall : ∀ st ∈ stmts, ThroughStmt x st) (hloop : stmtsLoop (evalStmt n) last stmts s1 = (r2, s2)) :
    ∃ b, resolve y s1 = some b ∧ content n s1.heap b = some t ∧
      (∀ i, Reach s1.heap b i → s2.heap[i]? = s1.heap[i]?) ∧ s2.globals = s.globals ∧
      (∃ sc, getScope s.csModuleID s2 = some sc ∧ resolveIn s.globals sc y = some b) ∧
      content n s2.heap b = some t ∧ (s2.csModuleID = s.csModuleID ∨ s2.csModuleID = -1) ∧
      ((∃ v, r2 = .ok v) → s2.csModuleID = s.csModuleID ∧ topMod s2.stack = s.csModuleID ∧ resolve y s2 = some b) := by
  -- the state after the declaration (frames, scopes, names), from the zone-1 run
  rcases decl_between (zoneNew s.heap) n ln l1 l2 x y s s1 r1 hdecl hcoh (zoneNew_init _)
    (fun obj ho => by rw [hres] at ho; injection ho with ho; subst ho; exact src_zoneNew hcont hnoref)
    with ⟨sc1, b, hb1, _, hy, hother, hext⟩
  have hva : Valid s.heap a := content_valid n hcont
  have hbz : Between (zoneOld s.heap s1.heap a hext hva) s.globals s.csModuleID sc1 s1 :=
    ⟨⟨fun _ _ => rfl, hb1.kept.glob, hb1.kept.scope, hb1.kept.curOr⟩, zoneOld_init _ _ _ hext hva hnoref, hb1.cur, hb1.coh⟩
  have hyres : resolve y s1 = some b := by rw [hb1.resolve]; exact hy
  -- the copy itself: what `dup` established
  rcases decl_inv n ln l1 l2 x y s s1 r1 hdecl with ⟨k, s0, obj, sA, b', sB, s3, rfl, h0, hobj, hdup, hdeclE, e1⟩
  rcases setTopFrame_line ln s with ⟨s0', e0, f1, f2, f3, f4, f5⟩
  rw [h0] at e0
  injection e0 with _ e0
  subst e0
  have hbb : b' = b := by
    have h1 : resolve y s1 = some b' := by
      rw [e1, resolve_sameBut (SameBut.push s3 .null)]
      exact resolve_declare_self hdeclE
    rw [hyres] at h1; injection h1 with h1; exact h1.symm
  subst hbb
  have hname : resolve x s0 = some obj ∧ sA = s0 := by
    rcases id_eval k l2 x s0 sA obj hobj with ⟨_, hr, e⟩ | ⟨hnum, _⟩
    · exact ⟨hr, e⟩
    · exact absurd hnum hxname
  rcases hname with ⟨hr, esA⟩
  rw [esA] at hdup
  have hobja : obj = a := by
    have : resolve x s = some obj := by rw [← resolve_congr f2 f3 f4]; exact hr
    rw [hres] at this; injection this with this; exact this.symm
  subst hobja
  have hp : DupPost (k+1) s0 t b' sB :=
    dup_post (by rw [f1]; exact hcont) (dup_fuel_mono k obj s0 b' sB hdup)
  have h3heap : s3.heap = sB.heap := declareElement_heap hdeclE
  have h1heap : s1.heap = sB.heap.push .null := by rw [e1, ← h3heap]
  have eB1 : Ext sB.heap s1.heap := by rw [h1heap]; exact Ext.push _ _
  have hcont1 : content (k+1) s1.heap b' = some t := content_ext eB1 _ _ _ hp.cont
  -- no cell below the copy is writable
  have hfoot : ∀ i, Reach s1.heap b' i → ¬ (zoneOld s.heap s1.heap obj hext hva).W i := by
    intro i hr hw
    have hrB : Reach sB.heap b' i := (reach_ext eB1 hp.valid).1 hr
    have hltB : i < sB.heap.size := hp.valid i hrB
    rcases hw with ⟨hra, hnn⟩ | hge
    · have hlt0 : i < s.heap.size := hva i hra
      rcases hp.fresh i hrB with hfr | ⟨c, hc, hm⟩
      · rw [f1] at hfr; exact absurd hlt0 (Nat.not_lt.2 hfr)
      · have hc0 : s.heap[i]? = some c := by
          rw [← f1, ← hp.ext.2 i (by rw [f1]; exact hlt0)]; exact hc
        have : c = .null := Classical.byContradiction fun hne => hnoref i hra ⟨c, hc0, hm, hne⟩
        rw [this] at hc0
        exact hnn hc0
    · have h2 : s1.heap.size ≤ i := hge
      have h3 : s1.heap.size = sB.heap.size + 1 := by rw [h1heap]; simp
      rw [h3] at h2
      exact absurd hltB (Nat.not_lt.2 (Nat.le_of_succ_le h2))
  rcases loop_run (zoneOld s.heap s1.heap obj hext hva) (k+1) obj (by rw [hother x hxy]; exact hres) (.inl (.refl _))
    stmts hall last s1 s2 r2 hbz hloop with ⟨hk, hok⟩
  have hkeep : ∀ i, Reach s1.heap b' i → s2.heap[i]? = s1.heap[i]? := fun i hr => hk.keep i (hfoot i hr)
  refine ⟨b', hyres, hcont1, hkeep, hk.glob, ⟨sc1, hk.scope, hy⟩, ?_, hk.curOr, fun hv => ?_⟩
  · rw [content_agree (k+1) s1.heap s2.heap b' hkeep]; exact hcont1
  · have hb2 := hok hv
    exact ⟨hb2.cur, hb2.coh, by rw [hb2.resolve]; exact hy⟩

end ZnVerif.Model
