/-
(base: leaves of the calculus for `HeapMono`, the induction statement, the small functions)
The whole evaluator never shrinks the heap: no run of any expression, statement, call or block — whatever its
outcome — ends with fewer cells than it started with.  (Addresses stay valid; "allocated at or after the old heap size"
means "different from every cell that existed".)  Mutual induction on the fuel over the 16 functions of the evaluator.
-/
import ZnVerif.Proofs.HeapMutators
set_option linter.unusedSectionVars false
set_option linter.unusedVariables false

namespace ZnVerif.Model

variable {ν : Type} [NumOps ν]

/-- the heap did not shrink -/
def HeapMono (s s' : VM ν) : Prop := s.heap.size ≤ s'.heap.size

instance : GrowRel (HeapMono (ν := ν)) where
  refl s := Nat.le_refl _
  trans h1 h2 := Nat.le_trans h1 h2
  ofGrow h := h.2.1

theorem pres_of_heap_eq {α : Type} {m : M ν α} (h : ∀ s, (m s).2.heap = s.heap) : Pres HeapMono m := by
  constructor
  intro s r s' hm
  have := h s
  rw [hm] at this
  show s.heap.size ≤ s'.heap.size
  simp only at this
  rw [this]
  exact Nat.le_refl _

theorem mono_setCell (a : Addr) (c : Cell ν) : Pres HeapMono (setCell a c) := by
  constructor
  intro s r s' h
  unfold setCell at h
  split at h <;> injection h with _ h2 <;> subst h2 <;> simp [HeapMono]

theorem mono_modifyVM {f : VM ν → VM ν} (hf : ∀ s, (f s).heap = s.heap) : Pres HeapMono (modifyVM f) :=
  pres_of_heap_eq (fun s => hf s)

theorem mono_setTopFrame (f : Frame → Frame) : Pres (ν := ν) HeapMono (setTopFrame f) :=
  mono_modifyVM (fun s => by cases h : s.stack <;> simp)

theorem mono_pushFrame (fr : Frame) : Pres (ν := ν) HeapMono (pushFrame fr) :=
  mono_modifyVM (fun s => by
    simp only
    split
    · rfl
    · exact (putScope_sameHeap _ _ _).1)

theorem mono_popFrame : Pres (ν := ν) HeapMono popFrame :=
  pres_of_heap_eq (fun s => by unfold popFrame; cases s.stack <;> rfl)

theorem mono_unwindTo (d : Nat) : Pres (ν := ν) HeapMono (unwindTo d) :=
  mono_modifyVM (fun s => by simp only; split <;> rfl)

theorem mono_beginBoundScope : Pres (ν := ν) HeapMono beginBoundScope :=
  pres_of_heap_eq (fun s => by
    unfold beginBoundScope
    cases getScope s.csModuleID s with
    | none => rfl
    | some sc => exact (putScope_sameHeap _ _ _).1)

theorem mono_endBoundScope (h : Option Int) : Pres (ν := ν) HeapMono (endBoundScope h) :=
  mono_modifyVM (fun s => by
    cases h with
    | none => rfl
    | some mid =>
      simp only
      cases getScope mid s with
      | none => rfl
      | some sc => exact (putScope_sameHeap _ _ _).1)

theorem mono_putCurrentScope (sc : Scope) : Pres (ν := ν) HeapMono (putCurrentScope sc) :=
  mono_modifyVM (fun s => (putScope_sameHeap _ _ _).1)

theorem mono_emit (l : String) : Pres (ν := ν) HeapMono (emit l) := mono_modifyVM (fun s => rfl)

theorem mono_currentModule : Pres (ν := ν) HeapMono currentModule :=
  pres_of_heap_eq (fun s => by
    unfold currentModule
    split
    · rfl
    · split <;> rfl)

theorem mono_addExport (i : Nat) (name : String) (v : Addr) : Pres (ν := ν) HeapMono (addExport i name v) :=
  pres_of_heap_eq (fun s => by
    unfold addExport
    split
    · rfl
    · split <;> rfl)

macro_rules
  | `(tactic| pres_leaf) => `(tactic| first
      | with_reducible exact mono_setCell _ _ | with_reducible exact mono_setTopFrame _ | with_reducible exact mono_pushFrame _
      | with_reducible exact mono_popFrame | with_reducible exact mono_unwindTo _ | with_reducible exact mono_beginBoundScope
      | with_reducible exact mono_endBoundScope _ | with_reducible exact mono_putCurrentScope _ | with_reducible exact mono_emit _
      | with_reducible exact mono_currentModule | with_reducible exact mono_addExport _ _ _)

theorem mono_findElement (nm : String) : Pres (ν := ν) HeapMono (findElement nm) := by unfold findElement; pres_auto
theorem mono_findElementWithModule (nm : String) : Pres (ν := ν) HeapMono (findElementWithModule nm) := by
  unfold findElementWithModule; pres_auto
theorem mono_declareElement (nm : String) (v : Addr) (c : Bool) (e : Option Int) :
    Pres (ν := ν) HeapMono (declareElement nm v c e) := by unfold declareElement; pres_auto
theorem mono_setElement (nm : String) (v : Addr) : Pres (ν := ν) HeapMono (setElement nm v) := by unfold setElement; pres_auto
theorem mono_getThis : Pres (ν := ν) HeapMono getThis := by unfold getThis; pres_auto
theorem mono_getReturnValue : Pres (ν := ν) HeapMono getReturnValue := by unfold getReturnValue; pres_auto
theorem mono_matchIDType (l : String) : Pres (ν := ν) HeapMono (matchIDType l) := by unfold matchIDType; pres_auto
theorem mono_matchIDName (l : String) : Pres (ν := ν) HeapMono (matchIDName l) := by
  unfold matchIDName; pres_auto; exact mono_matchIDType _
theorem mono_matchIDNameOpt (l : Option Ident) : Pres (ν := ν) HeapMono (matchIDNameOpt l) := by
  unfold matchIDNameOpt; pres_auto; exact mono_matchIDName _

macro_rules
  | `(tactic| pres_leaf) => `(tactic| first
      | with_reducible exact mono_findElement _ | with_reducible exact mono_findElementWithModule _
      | with_reducible exact mono_declareElement _ _ _ _ | with_reducible exact mono_setElement _ _
      | with_reducible exact mono_getThis | with_reducible exact mono_getReturnValue | with_reducible exact mono_matchIDType _
      | with_reducible exact mono_matchIDName _ | with_reducible exact mono_matchIDNameOpt _)

theorem mono_withScope {α : Type} {body : M ν α} (hb : Pres HeapMono body) : Pres HeapMono (withScope body) := by
  unfold withScope; pres_auto

theorem mono_getProperty (n : Nat) (a : Addr) (name : String) : Pres (ν := ν) HeapMono (getProperty n a name) := by
  unfold getProperty; pres_auto

theorem mono_setProperty (a : Addr) (name : String) (v : Addr) : Pres (ν := ν) HeapMono (setProperty a name v) :=
  (setProperty_frame a name v).mono (fun _ _ h => h.2.1)

theorem mono_builtinMethod (n : Nat) (a : Addr) (name : String) (vals : List Addr) :
    Pres (ν := ν) HeapMono (builtinMethod n a name vals) :=
  (builtinMethod_frame n a name vals).mono (fun _ _ h => h.2.1)

theorem mono_reduceLHS (iv : Nat × Addr × String × Int) (v : Addr) : Pres (ν := ν) HeapMono (reduceLHS iv v) := by
  rcases iv with ⟨k, r, nm, ix⟩
  exact (reduceLHS_frame k r nm ix v).mono (fun _ _ h => h.2.1)

theorem mono_reduceRHS (n : Nat) (iv : Nat × Addr × String × Int) : Pres (ν := ν) HeapMono (reduceRHS n iv) := by
  rcases iv with ⟨k, r, nm, ix⟩
  simp only [reduceRHS]
  pres_auto
  exact mono_getProperty _ _ _

theorem mono_stmtsLoop {evalOne : Stmt → M ν Addr} (h1 : ∀ st, Pres HeapMono (evalOne st)) :
    ∀ (l : List Stmt) (last : Option Addr), Pres HeapMono (stmtsLoop evalOne last l) := by
  intro l
  induction l with
  | nil => intro last; unfold stmtsLoop; pres_auto
  | cons st rest ih => intro last; unfold stmtsLoop; pres_auto; all_goals first | exact h1 _ | exact ih _

macro_rules
  | `(tactic| pres_leaf) => `(tactic| first
      | with_reducible exact mono_getProperty _ _ _ | with_reducible exact mono_setProperty _ _ _
      | with_reducible exact mono_builtinMethod _ _ _ _ | with_reducible exact mono_reduceLHS _ _
      | with_reducible exact mono_reduceRHS _ _ | with_reducible apply mono_withScope | with_reducible apply mono_stmtsLoop)

/-- the statement proved by mutual induction on the fuel -/
structure EvalMono (ν : Type) [NumOps ν] (n : Nat) : Prop where
  expr : ∀ e, Pres HeapMono (evalExpr (ν := ν) n e)
  member : ∀ e, Pres HeapMono (memberIV (ν := ν) n e)
  execFn : ∀ f t ps, Pres HeapMono (execFunction (ν := ν) n f t ps)
  execDirect : ∀ nm ps, Pres HeapMono (execDirectFunction (ν := ν) n nm ps)
  execMethod : ∀ r nm ps, Pres HeapMono (execMethodFunction (ν := ν) n r nm ps)
  constr : ∀ cv ps, Pres HeapMono (construct (ν := ν) n cv ps)
  execBlock : ∀ b ps, Pres HeapMono (evalExecBlock (ν := ν) n b ps)
  handle : ∀ bm bd cs e, Pres HeapMono (handleException (ν := ν) n bm bd cs e)
  stmtBlock : ∀ b, Pres HeapMono (evalStmtBlock (ν := ν) n b)
  pureBlock : ∀ b, Pres HeapMono (evalPureStmtBlock (ν := ν) n b)
  stmt : ∀ st, Pres HeapMono (evalStmt (ν := ν) n st)
  classDecl : ∀ st, Pres HeapMono (evalClassDecl (ν := ν) n st)
  funcDecl : ∀ st, Pres HeapMono (evalFuncDecl (ν := ν) n st)
  ctorDecl : ∀ st, Pres HeapMono (evalCtorDecl (ν := ν) n st)

/-- close the goals `pres_auto` leaves: recursive calls one fuel unit down -/
macro "use_ih " ih:ident : tactic => `(tactic| all_goals first
  | with_reducible exact ($ih).expr _ | with_reducible exact ($ih).member _ | with_reducible exact ($ih).execFn _ _ _
  | with_reducible exact ($ih).execDirect _ _ | with_reducible exact ($ih).execMethod _ _ _
  | with_reducible exact ($ih).constr _ _ | with_reducible exact ($ih).execBlock _ _
  | with_reducible exact ($ih).handle _ _ _ _ | with_reducible exact ($ih).stmtBlock _
  | with_reducible exact ($ih).pureBlock _ | with_reducible exact ($ih).stmt _ | with_reducible exact ($ih).classDecl _
  | with_reducible exact ($ih).funcDecl _ | with_reducible exact ($ih).ctorDecl _
  | with_reducible exact ($ih).expr | with_reducible exact ($ih).stmt)

theorem evalMono_zero : EvalMono ν 0 where
  expr e := by simp only [evalExpr]; exact pres_outOfFuel
  member e := by simp only [memberIV]; exact pres_outOfFuel
  execFn f t ps := by simp only [execFunction]; exact pres_outOfFuel
  execDirect nm ps := by simp only [execDirectFunction]; exact pres_outOfFuel
  execMethod r nm ps := by simp only [execMethodFunction]; exact pres_outOfFuel
  constr cv ps := by simp only [construct]; exact pres_outOfFuel
  execBlock b ps := by simp only [evalExecBlock]; exact pres_outOfFuel
  handle bm bd cs e := by simp only [handleException]; exact pres_outOfFuel
  stmtBlock b := by simp only [evalStmtBlock]; exact pres_outOfFuel
  pureBlock b := by simp only [evalPureStmtBlock]; exact pres_outOfFuel
  stmt st := by simp only [evalStmt]; exact pres_outOfFuel
  classDecl st := by simp only [evalClassDecl]; exact pres_outOfFuel
  funcDecl st := by simp only [evalFuncDecl]; exact pres_outOfFuel
  ctorDecl st := by simp only [evalCtorDecl]; exact pres_outOfFuel

section succ
variable (n : Nat) (ih : EvalMono ν n)
include ih

theorem mono_succ_member (e : Expr) : Pres HeapMono (memberIV (ν := ν) (n+1) e) := by
  simp only [memberIV]; pres_auto; use_ih ih
theorem mono_succ_execFn (f : FnRef) (t : Option Addr) (ps : List Addr) : Pres HeapMono (execFunction (ν := ν) (n+1) f t ps) := by
  simp only [execFunction]; pres_auto; use_ih ih
theorem mono_succ_execDirect (nm : String) (ps : List Addr) : Pres HeapMono (execDirectFunction (ν := ν) (n+1) nm ps) := by
  simp only [execDirectFunction]; pres_auto; use_ih ih
theorem mono_succ_execMethod (r : Addr) (nm : String) (ps : List Addr) :
    Pres HeapMono (execMethodFunction (ν := ν) (n+1) r nm ps) := by
  simp only [execMethodFunction]; pres_auto; use_ih ih
theorem mono_succ_constr (cv : Addr) (ps : List Addr) : Pres HeapMono (construct (ν := ν) (n+1) cv ps) := by
  simp only [construct]; pres_auto; use_ih ih
theorem mono_succ_execBlock (b : Option ExecBlock) (ps : List Addr) : Pres HeapMono (evalExecBlock (ν := ν) (n+1) b ps) := by
  cases b with
  | none => simp only [evalExecBlock]; exact pres_goPanic
  | some blk => cases blk with | mk ins body cs => simp only [evalExecBlock]; pres_auto; use_ih ih
theorem mono_succ_handle (bm : Int) (bd : Nat) (cs : List (Option Ident × Option (List Stmt))) (e : Err) :
    Pres HeapMono (handleException (ν := ν) (n+1) bm bd cs e) := by
  simp only [handleException]; pres_auto; use_ih ih
theorem mono_succ_stmtBlock (b : Option (List Stmt)) : Pres HeapMono (evalStmtBlock (ν := ν) (n+1) b) := by
  cases b with
  | none => simp only [evalStmtBlock]; exact pres_goPanic
  | some l => simp only [evalStmtBlock]; pres_auto; use_ih ih
theorem mono_succ_pureBlock (b : Option (List Stmt)) : Pres HeapMono (evalPureStmtBlock (ν := ν) (n+1) b) := by
  cases b with
  | none => simp only [evalPureStmtBlock]; exact pres_goPanic
  | some l => simp only [evalPureStmtBlock]; pres_auto; use_ih ih
theorem mono_succ_classDecl (st : Stmt) : Pres HeapMono (evalClassDecl (ν := ν) (n+1) st) := by
  simp only [evalClassDecl]; pres_auto; use_ih ih
omit ih in
theorem mono_succ_funcDecl (st : Stmt) : Pres HeapMono (evalFuncDecl (ν := ν) (n+1) st) := by
  simp only [evalFuncDecl]; pres_auto
omit ih in
theorem mono_succ_ctorDecl (st : Stmt) : Pres HeapMono (evalCtorDecl (ν := ν) (n+1) st) := by
  simp only [evalCtorDecl]; pres_auto

end succ

end ZnVerif.Model
