/-
Helper lemmas for the input-variable theorems, part 3: calls, method calls and 新建 in a VM that satisfies `VI`.  No cell is
a user-defined method or a type with a user-defined constructor / with methods, so none of the three enters `evalExecBlock`:
they are proved directly (no induction on the fuel).  This is where the frames are pushed and popped — every `popFrame` is
shown to find the frame its own `pushFrame` put there.
-/
import ZnVerif.Proofs.VarInputVM
set_option linter.unusedSectionVars false
set_option linter.unusedVariables false
set_option linter.unusedSimpArgs false

namespace ZnVerif.Proofs.VarInput
open ZnVerif.Model ZnVerif.Proofs.Builtins ZnVerif.Proofs.Balance ZnVerif.Proofs.Calls

variable {ν : Type} [NumOps ν]

theorem vpost_getCell_bind {β : Type} {s : VM ν} (hs : VI s) {a : Addr} (ha : a < s.heap.size) {f : Cell ν → M ν β}
    {Q : β → VM ν → Prop} (h : ∀ c, s.heap[a]? = some c → VPost s Q (f c s)) : VPost s Q ((getCell a >>= f) s) := by
  obtain ⟨c, hc⟩ := get_of_lt_size ha
  refine RO.vpost_bind hs (RO.getCell hc) (fun c' hc' => ?_)
  subst hc'
  exact h c' hc

theorem vpost_dup (n : Nat) {s : VM ν} (hs : VI s) {a : Addr} (ha : a < s.heap.size) :
    VPost s (fun r s' => r < s'.heap.size) (dup n a s) :=
  (VPost.ofPost hs (kr_dup n a) (post_dup n hs.heap ha).ofPre).weaken (fun _ _ _ _ q => q.1)

theorem plain_cls {c : Cell ν} {nm : String} {ctor : Ctor} {props methods : List (String × Addr)}
    (h : Plain c) (hc : c = .cls nm ctor props methods) : (∀ mid exec, ctor ≠ .user mid exec) ∧ methods = [] := by
  subst hc
  cases ctor with
  | default => exact ⟨(fun _ _ he => nomatch he), h⟩
  | exception => exact ⟨(fun _ _ he => nomatch he), h⟩
  | user mid exec => exact h.elim

/-- `ClassModel.Construct` on a class without a user-defined constructor (the only kind there is) -/
theorem vpost_construct (n : Nat) {s : VM ν} (hs : VI s) {cv : Addr} (hcv : IsCls s.heap cv) {params : List Addr}
    (hp : ∀ v ∈ params, v < s.heap.size) : VPost s (fun r s' => r < s'.heap.size) (construct n cv params s) := by
  cases n with
  | zero => unfold construct; exact VPost.fuel hs
  | succ n =>
    obtain ⟨nm, ctor, props, methods, hc⟩ := hcv
    have hok := hs.heap cv _ hc
    obtain ⟨hctor, _⟩ := plain_cls (hs.plain cv _ hc) rfl
    unfold construct
    refine RO.vpost_bind hs (RO.getCell hc) (fun c' hc' => ?_)
    subst hc'
    dsimp only
    refine VPost.bind (vpost_mapM (P := fun (b : String × Addr) s => b.2 < s.heap.size)
      (fun b s s' h e => Nat.lt_of_lt_of_le h e.size) props s hs (fun p hpm s' hs' r' => ?_)) (fun props' s1 hs1 e1 hprops => ?_)
    · exact VPost.bind (vpost_dup n hs' (Nat.lt_of_lt_of_le (hok.1 p hpm) r'.size)) (fun v s2 hs2 _ hv => VPost.pure hs2 hv)
    · have hcls : IsCls s1.heap cv := e1.cls cv ⟨nm, ctor, props, methods, hc⟩
      refine VPost.bind (vpost_alloc_lt hs1 (c := .obj cv props') ⟨hcls, hprops⟩ trivial) (fun inst s2 hs2 e2 hinst => ?_)
      cases ctor with
      | default => exact VPost.pure hs2 hinst
      | user mid exec => exact absurd rfl (hctor mid exec)
      | exception =>
        dsimp only
        have hp2 : ∀ v ∈ params, v < s2.heap.size :=
          fun v hv => Nat.lt_of_lt_of_le (hp v hv) (Nat.le_trans e1.size e2.size)
        refine RO.vpost_bind hs2 (ro_validateExact _ hp2) (fun _ hval => ?_)
        obtain ⟨m, rfl, ⟨cm, hcm, htm⟩⟩ := exact1 hval
        obtain ⟨msg, rfl⟩ := tm_string htm
        dsimp only
        refine RO.vpost_bind hs2 (RO.getCell hcm) (fun c' hc' => ?_)
        subst hc'
        exact vpost_alloc_lt hs2 (c := .exc msg) trivial trivial

/-- `execDirectFunction`: `（f：…）`.  The name is looked up (no scope → 42, never an index into the empty call stack), a frame of
    the value's home module is pushed — for a name bound by an input-variable text itself that is module -1, the native module
    (commit 2eab72e) —, a value that is not a method is error 81 (frame left, as in programs), a predefined function runs and
    its frame is popped. -/
theorem vpost_execDirectFunction (n : Nat) {s : VM ν} (hs : VI s) (fname : String) {params : List Addr}
    (hp : ∀ v ∈ params, v < s.heap.size) :
    VPost s (fun r s' => r < s'.heap.size) (execDirectFunction n fname params s) := by
  cases n with
  | zero => unfold execDirectFunction; exact VPost.fuel hs
  | succ n =>
    unfold execDirectFunction
    refine RO.vpost_bind hs (ro_findElementWithModule hs fname) (fun p hpv => ?_)
    obtain ⟨fv, mid⟩ := p
    dsimp only
    refine VPost.bind (vpost_pushFrame hs { moduleId := mid, callType := 2 } (fun t ht => by cases ht))
      (fun _ s1 hs1 e1 h1 => ?_)
    obtain ⟨hh1, hst1⟩ := h1
    have hfv : fv < s1.heap.size := by rw [hh1]; exact hpv
    refine vpost_getCell_bind hs1 hfv (fun c hc => ?_)
    cases c with
    | fn f =>
      dsimp only
      have hp1 : ∀ v ∈ params, v < s1.heap.size := by rw [hh1]; exact hp
      refine VPost.bind (vpost_execFunction_plain n hs1 f (hs1.plain fv _ hc) none hp1) (fun r s2 hs2 e2 h2 => ?_)
      refine VPost.bind (vpost_popFrame hs2 (h2.2.trans hst1)) (fun _ s3 hs3 e3 h3 => ?_)
      exact VPost.pure hs3 (by rw [h3.1]; exact h2.1)
    | _ => exact VPost.rtErr _ hs1

/-- `execMethodFunction`: `以 root（f：…）`.  A built-in value: frame of the native module with `this = root`, the built-in
    method (Properties/C10 `builtin_total`), the frame popped.  An object: its type has no methods → 46. -/
theorem vpost_execMethodFunction (n : Nat) {s : VM ν} (hs : VI s) {root : Addr} (hr : root < s.heap.size) (fname : String)
    {params : List Addr} (hp : ∀ v ∈ params, v < s.heap.size) :
    VPost s (fun r s' => r < s'.heap.size) (execMethodFunction n root fname params s) := by
  cases n with
  | zero => unfold execMethodFunction; exact VPost.fuel hs
  | succ n =>
    unfold execMethodFunction
    have builtin : VPost s (fun r s' => r < s'.heap.size) ((do
        pushFrame { moduleId := -1, callType := 2, this := some root }
        let r ← builtinMethod n root fname params
        popFrame
        pure r : M ν Addr) s) := by
      refine VPost.bind (vpost_pushFrame hs { moduleId := -1, callType := 2, this := some root }
        (fun t ht => by cases ht; exact hr)) (fun _ s1 hs1 e1 h1 => ?_)
      obtain ⟨hh1, hst1⟩ := h1
      have hr1 : root < s1.heap.size := by rw [hh1]; exact hr
      have hp1 : ∀ v ∈ params, v < s1.heap.size := by rw [hh1]; exact hp
      refine VPost.bind (VPost.ofPost hs1 (kr_builtinMethod n root fname params)
        (post_builtinMethod n fname params hs1.heap hr1 hp1)) (fun r s2 hs2 e2 h2 => ?_)
      refine VPost.bind (vpost_popFrame hs2 (h2.2.2.2.1.trans hst1)) (fun _ s3 hs3 e3 h3 => ?_)
      exact VPost.pure hs3 (by rw [h3.1]; exact h2.1)
    refine vpost_getCell_bind hs hr (fun c hc => ?_)
    cases c with
    | obj cl props =>
      dsimp only
      obtain ⟨cn, ct, cp, cm, hcl⟩ := (hs.heap root _ hc).1
      refine RO.vpost_bind hs (RO.getCell hcl) (fun c' hc' => ?_)
      subst hc'
      dsimp only
      obtain ⟨_, hm⟩ := plain_cls (hs.plain cl _ hcl) rfl
      subst hm
      refine RO.vpost_bind hs (ro_findElementWithModule hs cn) (fun p _ => ?_)
      obtain ⟨_, mid⟩ := p
      dsimp only
      refine VPost.bind (vpost_pushFrame hs { moduleId := mid, callType := 2, this := some root }
        (fun t ht => by cases ht; exact hr)) (fun _ s1 hs1 e1 h1 => ?_)
      exact VPost.rtErr _ hs1
    | _ => exact builtin

end ZnVerif.Proofs.VarInput
