/-
Helper lemmas for the input-variable theorems, part 2: the invariant `VI`, the judgment `VPost`, its rules, the lifting of the
heap-level results of Proofs/BuiltinMembers.lean, and the VM accessors (name lookup, declaration, assignment, frames) — the
places where the Go code used to index an empty call stack.
-/
import ZnVerif.Proofs.VarInputBase
set_option linter.unusedSectionVars false
set_option linter.unusedVariables false
set_option linter.unusedSimpArgs false

namespace ZnVerif.Proofs.VarInput
open ZnVerif.Model ZnVerif.Proofs.Builtins ZnVerif.Proofs.Balance ZnVerif.Proofs.Calls

variable {ν : Type} [NumOps ν]

/-! ## the invariant -/

structure VI (s : VM ν) : Prop where
  heap : HeapOk s.heap
  plain : PlainHeap s.heap
  globals : ∀ p ∈ s.globals, p.2 < s.heap.size
  scopes : ∀ p ∈ s.scopes, ∀ sy ∈ p.2.syms, sy.val < s.heap.size
  frames : ∀ fr ∈ s.stack, ∀ t, fr.this = some t → t < s.heap.size

/-- everything but heap / output / module table unchanged, heap grown and still well-formed: the invariant survives -/
theorem VI.ofKR {s s' : VM ν} (hvi : VI s) (hk : KR s s') (hh : HeapOk s'.heap) (he : Ext s.heap s'.heap) : VI s' := by
  obtain ⟨k1, k2, k3, k4, k5⟩ := hk
  refine ⟨hh, k5 hvi.plain, ?_, ?_, ?_⟩
  · rw [k1]; exact fun p hp => Nat.lt_of_lt_of_le (hvi.globals p hp) he.size
  · rw [k2]; exact fun p hp sy hsy => Nat.lt_of_lt_of_le (hvi.scopes p hp sy hsy) he.size
  · rw [k3]; exact fun fr hfr t ht => Nat.lt_of_lt_of_le (hvi.frames fr hfr t ht) he.size

/-! ## the judgment -/

def VPost {α} (s : VM ν) (Q : α → VM ν → Prop) : Res α × VM ν → Prop
  | (.ok a, s') => VI s' ∧ Ext s.heap s'.heap ∧ Q a s'
  | (.panic, _) => False
  | (_, s') => VI s' ∧ Ext s.heap s'.heap

section rules
variable {α β : Type} {s : VM ν}

theorem VPost.pure {Q : α → VM ν → Prop} {a : α} (h : VI s) (q : Q a s) : VPost s Q ((pure a : M ν α) s) :=
  ⟨h, Ext.refl _, q⟩

theorem VPost.err {Q : α → VM ν → Prop} (e : Err) (h : VI s) : VPost s Q ((.err e : Res α), s) := ⟨h, Ext.refl _⟩
theorem VPost.throwE {Q : α → VM ν → Prop} (e : Err) (h : VI s) : VPost s Q ((throwE e : M ν α) s) := ⟨h, Ext.refl _⟩
theorem VPost.rtErr {Q : α → VM ν → Prop} (c : Nat) (h : VI s) : VPost s Q ((rtErr c : M ν α) s) := ⟨h, Ext.refl _⟩
theorem VPost.fuel {Q : α → VM ν → Prop} (h : VI s) : VPost s Q ((outOfFuel : M ν α) s) := ⟨h, Ext.refl _⟩
theorem VPost.notModelled {Q : α → VM ν → Prop} (h : VI s) : VPost s Q ((notModelled : M ν α) s) := ⟨h, Ext.refl _⟩

theorem VPost.frame {Q : α → VM ν → Prop} {p : Res α × VM ν} (h : VPost s Q p) : VI p.2 ∧ Ext s.heap p.2.heap := by
  rcases p with ⟨r, s'⟩
  cases r <;> first | exact ⟨h.1, h.2.1⟩ | exact ⟨h.1, h.2⟩ | exact h.elim

theorem VPost.ne_panic {Q : α → VM ν → Prop} {p : Res α × VM ν} (h : VPost s Q p) : p.1 ≠ .panic := by
  rcases p with ⟨r, s'⟩
  cases r <;> first | exact h.elim | (intro hc; cases hc)

theorem VPost.weaken {Q Q' : α → VM ν → Prop} {p : Res α × VM ν} (h : VPost s Q p)
    (hq : ∀ a s', VI s' → Ext s.heap s'.heap → Q a s' → Q' a s') : VPost s Q' p := by
  rcases p with ⟨r, s'⟩
  cases r with
  | ok a => exact ⟨h.1, h.2.1, hq a s' h.1 h.2.1 h.2.2⟩
  | err e => exact h
  | panic => exact h
  | fuel => exact h
  | unmodelled => exact h

theorem VPost.bind {m : M ν α} {f : α → M ν β} {Q1 : α → VM ν → Prop} {Q2 : β → VM ν → Prop}
    (h1 : VPost s Q1 (m s))
    (h2 : ∀ a s', VI s' → Ext s.heap s'.heap → Q1 a s' → VPost s' Q2 (f a s')) :
    VPost s Q2 ((m >>= f) s) := by
  rw [Builtins.bind_apply]
  rcases hm : m s with ⟨r, s1⟩
  rw [hm] at h1
  cases r with
  | ok a =>
    have h3 := h2 a s1 h1.1 h1.2.1 h1.2.2
    show VPost s Q2 (f a s1)
    rcases hf : f a s1 with ⟨r2, s2⟩
    rw [hf] at h3
    cases r2 with
    | ok b => exact ⟨h3.1, Ext.trans h1.2.1 h3.2.1, h3.2.2⟩
    | err e => exact ⟨h3.1, Ext.trans h1.2.1 h3.2⟩
    | panic => exact h3
    | fuel => exact ⟨h3.1, Ext.trans h1.2.1 h3.2⟩
    | unmodelled => exact ⟨h3.1, Ext.trans h1.2.1 h3.2⟩
  | err e => exact h1
  | panic => exact h1
  | fuel => exact h1
  | unmodelled => exact h1

/-- a read-only step in front of a continuation -/
theorem RO.vpost_bind {m : M ν α} {f : α → M ν β} {Q1 : α → Prop} {Q2 : β → VM ν → Prop}
    (hs : VI s) (h1 : RO m s Q1) (h2 : ∀ a, Q1 a → VPost s Q2 (f a s)) : VPost s Q2 ((m >>= f) s) := by
  obtain ⟨r, hr, hq⟩ := h1
  rw [Builtins.bind_apply, hr]
  cases r with
  | ok a => exact h2 a hq
  | err e => exact ⟨hs, Ext.refl _⟩
  | panic => exact hq.elim
  | fuel => exact ⟨hs, Ext.refl _⟩
  | unmodelled => exact ⟨hs, Ext.refl _⟩

theorem RO.vpost {m : M ν α} {Q : α → Prop} (hs : VI s) (h : RO m s Q) : VPost s (fun a s' => s' = s ∧ Q a) (m s) := by
  obtain ⟨r, hr, hq⟩ := h
  rw [hr]
  cases r with
  | ok a => exact ⟨hs, Ext.refl _, rfl, hq⟩
  | err e => exact ⟨hs, Ext.refl _⟩
  | panic => exact hq.elim
  | fuel => exact ⟨hs, Ext.refl _⟩
  | unmodelled => exact ⟨hs, Ext.refl _⟩

/-- a heap-level result (Proofs/BuiltinMembers.lean) of a function that touches nothing but the heap -/
theorem VPost.ofPost {m : M ν α} {Q : α → VM ν → Prop} (hvi : VI s) (hk : Pres KR m) (hp : Post Ext s Q (m s)) :
    VPost s (fun a s' => Q a s' ∧ KR s s') (m s) := by
  have k := hk.run s
  rcases hm : m s with ⟨r, s'⟩
  rw [hm] at hp k
  cases r with
  | ok a => exact ⟨hvi.ofKR k hp.1 hp.2.1, hp.2.1, hp.2.2, k⟩
  | err e => exact ⟨hvi.ofKR k hp.1 hp.2, hp.2⟩
  | panic => exact hp.elim
  | fuel => exact ⟨hvi.ofKR k hp.1 hp.2, hp.2⟩
  | unmodelled => exact ⟨hvi.ofKR k hp.1 hp.2, hp.2⟩

/-- `P b s`: a property of a produced value that survives later runs -/
theorem vpost_mapM {f : α → M ν β} {P : β → VM ν → Prop}
    (hP : ∀ b (s s' : VM ν), P b s → Ext s.heap s'.heap → P b s') :
    ∀ (l : List α) (s : VM ν), VI s →
      (∀ x ∈ l, ∀ s' : VM ν, VI s' → Ext s.heap s'.heap → VPost s' P (f x s')) →
      VPost s (fun bs s' => ∀ b ∈ bs, P b s') (l.mapM f s) := by
  intro l
  induction l with
  | nil => intro s hs _; rw [List.mapM_nil]; exact VPost.pure hs (fun b hb => by cases hb)
  | cons x xs ih =>
    intro s hs hf
    rw [List.mapM_cons]
    refine VPost.bind (hf x (by simp) s hs (Ext.refl _)) (fun b s1 hs1 r1 hb => ?_)
    refine VPost.bind (ih s1 hs1 (fun y hy s' hs' r' => hf y (by simp [hy]) s' hs' (Ext.trans r1 r'))) (fun bs s2 hs2 r2 hbs => ?_)
    refine VPost.pure hs2 (fun b' hb' => ?_)
    rcases List.mem_cons.mp hb' with rfl | hb'
    · exact hP _ _ _ hb r2
    · exact hbs b' hb'

theorem vpost_foldlM {f : β → α → M ν β} {P : β → VM ν → Prop} :
    ∀ (l : List α) (b : β) (s : VM ν), VI s → P b s →
      (∀ x ∈ l, ∀ (b : β) (s' : VM ν), VI s' → Ext s.heap s'.heap → P b s' → VPost s' P (f b x s')) →
      VPost s P (l.foldlM f b s) := by
  intro l
  induction l with
  | nil => intro b s hs hb _; rw [List.foldlM_nil]; exact VPost.pure hs hb
  | cons x xs ih =>
    intro b s hs hb hf
    rw [List.foldlM_cons]
    refine VPost.bind (hf x (by simp) b s hs (Ext.refl _) hb) (fun b1 s1 hs1 r1 hb1 => ?_)
    exact ih b1 s1 hs1 hb1 (fun y hy b' s' hs' r' hb' => hf y (by simp [hy]) b' s' hs' (Ext.trans r1 r') hb')

end rules

theorem inHeap_stable (b : Nat) (s s' : VM ν) (h : b < s.heap.size) (e : Ext s.heap s'.heap) : b < s'.heap.size :=
  Nat.lt_of_lt_of_le h e.size

/-! ## allocation -/

theorem vpost_alloc {s : VM ν} (hs : VI s) {c : Cell ν} (hc : CellOk s.heap c) (hp : Plain c) :
    VPost s (fun a s' => a < s'.heap.size ∧ s'.heap[a]? = some c ∧ KR s s') (alloc c s) :=
  (VPost.ofPost hs (kr_alloc hp) (post_alloc hs.heap hc).ofPre).weaken (fun _ _ _ _ q => ⟨q.1.1, q.1.2, q.2⟩)

theorem vpost_alloc_lt {s : VM ν} (hs : VI s) {c : Cell ν} (hc : CellOk s.heap c) (hp : Plain c) :
    VPost s (fun a s' => a < s'.heap.size) (alloc c s) :=
  (vpost_alloc hs hc hp).weaken (fun _ _ _ _ q => q.1)

theorem vpost_newNull {s : VM ν} (hs : VI s) : VPost s (fun a s' => a < s'.heap.size) ((newNull : M ν Addr) s) :=
  vpost_alloc_lt hs (c := .null) trivial trivial
theorem vpost_newBool {s : VM ν} (hs : VI s) (b : Bool) : VPost s (fun a s' => a < s'.heap.size) ((newBool b : M ν Addr) s) :=
  vpost_alloc_lt hs (c := .bool b) trivial trivial
theorem vpost_newNum {s : VM ν} (hs : VI s) (x : ν) : VPost s (fun a s' => a < s'.heap.size) ((newNum x : M ν Addr) s) :=
  vpost_alloc_lt hs (c := .num x) trivial trivial
theorem vpost_newStr {s : VM ν} (hs : VI s) (t : String) : VPost s (fun a s' => a < s'.heap.size) ((newStr t : M ν Addr) s) :=
  vpost_alloc_lt hs (c := .str t) trivial trivial

/-! ## identifiers: read-only, never a panic -/

theorem ro_matchIDType (lit : String) (s : VM ν) : RO (matchIDType (ν := ν) lit) s (fun _ => True) := by
  unfold matchIDType
  split
  · exact ⟨.err (.sem 30), rfl, trivial⟩
  · exact RO.pure trivial
  · exact RO.pure trivial

theorem ro_matchIDName (lit : String) (s : VM ν) : RO (matchIDName (ν := ν) lit) s (fun _ => True) := by
  unfold matchIDName
  refine RO.bind (ro_matchIDType lit s) (fun t _ => ?_)
  cases t with
  | name n => exact RO.pure trivial
  | number x => exact ⟨.err (.sem 32), rfl, trivial⟩

/-! ## scopes -/

theorem getScope_mem {mid : Int} {s : VM ν} {sc : Scope} (h : getScope mid s = some sc) : ∃ p ∈ s.scopes, p.2 = sc := by
  unfold getScope at h
  cases hf : s.scopes.find? (·.1 == mid) with
  | none => rw [hf] at h; cases h
  | some p =>
    rw [hf] at h
    injection h with h
    exact ⟨p, List.mem_of_find?_eq_some hf, h⟩

theorem mem_putL {l : List (Int × Scope)} {mid : Int} {sc : Scope} {p : Int × Scope} (h : p ∈ putL l mid sc) :
    p ∈ l ∨ p = (mid, sc) := by
  unfold putL at h
  split at h
  · obtain ⟨q, hq, he⟩ := List.mem_map.mp h
    split at he
    · exact .inr he.symm
    · exact .inl (he ▸ hq)
  · rcases List.mem_append.mp h with h | h
    · exact .inl h
    · exact .inr (by simpa using h)

/-- storing a scope whose symbols hold addresses of cells -/
theorem VI.putScope {s : VM ν} (hs : VI s) (mid : Int) {sc : Scope} (hsc : ∀ sy ∈ sc.syms, sy.val < s.heap.size) :
    VI (putScope mid sc s) := by
  refine ⟨by rw [putScope_heap]; exact hs.heap, by rw [putScope_heap]; exact hs.plain, ?_, ?_, ?_⟩
  · rw [putScope_globals, putScope_heap]; exact hs.globals
  · rw [putScope_scopes, putScope_heap]
    intro p hp sy hsy
    rcases mem_putL hp with hp | rfl
    · exact hs.scopes p hp sy hsy
    · exact hsc sy hsy
  · rw [putScope_stack, putScope_heap]; exact hs.frames

theorem VI.scope_syms {s : VM ν} (hs : VI s) {mid : Int} {sc : Scope} (h : getScope mid s = some sc) :
    ∀ sy ∈ sc.syms, sy.val < s.heap.size := by
  obtain ⟨p, hp, rfl⟩ := getScope_mem h
  exact hs.scopes p hp

theorem currentScope_apply (s : VM ν) : currentScope s = (.ok (getScope s.csModuleID s), s) := rfl

/-- `vm.FindElement`: a predefined name, else a symbol of the current scope — when there is one; no scope is NameNotDefined (42),
    not an index into an empty call stack -/
theorem ro_findElement {s0 : VM ν} (hs : VI s0) (name : String) : RO (findElement name) s0 (fun a => a < s0.heap.size) := by
  unfold findElement
  refine RO.bind ⟨.ok s0, rfl, rfl⟩ (fun s1 hs1 => ?_)
  subst hs1
  cases hg : lookup name s0.globals with
  | some a => exact RO.pure (hs.globals (name, a) (mem_of_lookup hg))
  | none =>
    refine RO.bind ⟨.ok _, currentScope_apply s0, rfl⟩ (fun o ho => ?_)
    subst ho
    cases hc : getScope s0.csModuleID s0 with
    | none => exact RO.rtErr _
    | some sc =>
      dsimp only
      cases hf : sc.find name with
      | none => exact RO.rtErr _
      | some sy =>
        refine RO.pure (hs.scope_syms hc sy ?_)
        unfold Scope.find at hf
        exact List.mem_of_find?_eq_some hf

theorem ro_findElementWithModule {s0 : VM ν} (hs : VI s0) (name : String) :
    RO (findElementWithModule name) s0 (fun p => p.1 < s0.heap.size) := by
  unfold findElementWithModule
  refine RO.bind ⟨.ok s0, rfl, rfl⟩ (fun s1 hs1 => ?_)
  subst hs1
  cases hg : lookup name s0.globals with
  | some a => exact RO.pure (hs.globals (name, a) (mem_of_lookup hg))
  | none =>
    refine RO.bind ⟨.ok _, currentScope_apply s0, rfl⟩ (fun o ho => ?_)
    subst ho
    cases hc : getScope s0.csModuleID s0 with
    | none => exact RO.rtErr _
    | some sc =>
      dsimp only
      cases hf : sc.find name with
      | none => exact RO.rtErr _
      | some sy =>
        refine RO.pure (hs.scope_syms hc sy ?_)
        unfold Scope.find at hf
        exact List.mem_of_find?_eq_some hf

/-- `vm.GetThisValue`: no frame, no `this` (Go: `getCurrentCallFrame() == nil`) -/
theorem ro_getThis {s : VM ν} (hs : VI s) : RO (getThis (ν := ν)) s (fun o => ∀ t, o = some t → t < s.heap.size) := by
  unfold getThis
  refine RO.bind ⟨.ok s.stack.head?, rfl, rfl⟩ (fun o ho => ?_)
  subst ho
  cases hst : s.stack with
  | nil => exact RO.pure (fun t ht => by cases ht)
  | cons fr rest =>
    refine RO.pure (fun t ht => hs.frames fr (by rw [hst]; exact List.mem_cons_self) t ht)

theorem putCurrentScope_apply (sc : Scope) (s : VM ν) : putCurrentScope sc s = (.ok (), putScope s.csModuleID sc s) := rfl

/-- `vm.DeclareConstElement` / `DeclareElement` (得到): no scope → 42, a predefined name → 43, else `Scope.declareValue` -/
theorem vpost_declareElement {s : VM ν} (hs : VI s) (name : String) {v : Addr} (hv : v < s.heap.size) (c : Bool)
    (ext : Option Int) : VPost s (fun _ s' => s'.heap = s.heap) (declareElement name v c ext s) := by
  unfold declareElement
  refine RO.vpost_bind hs ⟨.ok _, currentScope_apply s, rfl⟩ (fun o ho => ?_)
  subst ho
  cases hc : getScope s.csModuleID s with
  | none => exact VPost.rtErr _ hs
  | some sc =>
    dsimp only
    refine RO.vpost_bind hs (Q1 := fun x => x = s) ⟨.ok s, rfl, rfl⟩ (fun s0 hs0 => ?_)
    rw [hs0]
    cases hg : lookup name s.globals with
    | some _ => exact VPost.rtErr _ hs
    | none =>
      dsimp only
      cases hd : sc.declare name v c ext with
      | error e => exact VPost.throwE e hs
      | ok sc' =>
        dsimp only
        rw [putCurrentScope_apply]
        have hsy : ∀ sy ∈ sc'.syms, sy.val < s.heap.size := by
          rw [declare_ok hd]
          intro sy hsy
          rcases List.mem_cons.mp hsy with rfl | hsy
          · exact hv
          · exact hs.scope_syms hc sy hsy
        exact ⟨hs.putScope _ hsy, by rw [putScope_heap]; exact Ext.refl _, putScope_heap _ _ _⟩

theorem set_go_vals (name : String) (v : Addr) :
    ∀ (l l' : List Sym), Scope.set.go name v l = some (.ok l') → ∀ sy ∈ l', sy.val = v ∨ sy ∈ l
  | [], l', h => by simp [Scope.set.go] at h
  | sy :: rest, l', h => by
    unfold Scope.set.go at h
    split at h
    · split at h
      · cases h
      · cases h
        intro y hy
        rcases List.mem_cons.mp hy with rfl | hy
        · exact .inl rfl
        · exact .inr (List.mem_cons_of_mem _ hy)
    · split at h
      · cases h
      · cases h
      · rename_i rest' hr
        cases h
        intro y hy
        rcases List.mem_cons.mp hy with rfl | hy
        · exact .inr List.mem_cons_self
        · rcases set_go_vals name v rest rest' hr y hy with h | h
          · exact .inl h
          · exact .inr (List.mem_cons_of_mem _ h)

/-- `vm.SetElement` (`X = …` inside an expression): no scope → 42 -/
theorem vpost_setElement {s : VM ν} (hs : VI s) (name : String) {v : Addr} (hv : v < s.heap.size) :
    VPost s (fun _ s' => s'.heap = s.heap) (setElement name v s) := by
  unfold setElement
  refine RO.vpost_bind hs ⟨.ok _, currentScope_apply s, rfl⟩ (fun o ho => ?_)
  subst ho
  cases hc : getScope s.csModuleID s with
  | none => exact VPost.rtErr _ hs
  | some sc =>
    dsimp only
    cases hd : sc.set name v with
    | error e => exact VPost.throwE e hs
    | ok sc' =>
      dsimp only
      rw [putCurrentScope_apply]
      have hsy : ∀ sy ∈ sc'.syms, sy.val < s.heap.size := by
        unfold Scope.set at hd
        split at hd
        · cases hd
        · cases hd
        · rename_i syms hg
          cases hd
          intro sy hsy
          rcases set_go_vals name v _ _ hg sy hsy with h | h
          · rw [h]; exact hv
          · exact hs.scope_syms hc sy h
      exact ⟨hs.putScope _ hsy, by rw [putScope_heap]; exact Ext.refl _, putScope_heap _ _ _⟩

/-! ## frames -/

theorem pushFrame_apply (fr : Frame) (s : VM ν) :
    pushFrame fr s = (.ok (),
      match getScope fr.moduleId { s with stack := fr :: s.stack, csModuleID := fr.moduleId } with
      | some _ => { s with stack := fr :: s.stack, csModuleID := fr.moduleId }
      | none => putScope fr.moduleId {} { s with stack := fr :: s.stack, csModuleID := fr.moduleId }) := rfl

/-- `PushCallFrame` of a frame whose `this` (if any) is a value: the frame is on top, the heap untouched -/
theorem vpost_pushFrame {s : VM ν} (hs : VI s) (fr : Frame) (ht : ∀ t, fr.this = some t → t < s.heap.size) :
    VPost s (fun _ s' => s'.heap = s.heap ∧ s'.stack = fr :: s.stack) (pushFrame fr s) := by
  rw [pushFrame_apply]
  have h1 : VI ({ s with stack := fr :: s.stack, csModuleID := fr.moduleId } : VM ν) := by
    refine ⟨hs.heap, hs.plain, hs.globals, hs.scopes, ?_⟩
    intro f hf t htt
    rcases List.mem_cons.mp hf with rfl | hf
    · exact ht t htt
    · exact hs.frames f hf t htt
  split
  · exact ⟨h1, Ext.refl _, rfl, rfl⟩
  · refine ⟨h1.putScope _ (fun sy hsy => by cases hsy), ?_, ?_, ?_⟩
    · rw [putScope_heap]; exact Ext.refl _
    · rw [putScope_heap]
    · rw [putScope_stack]

/-- `PopCallFrame` with a frame to pop -/
theorem vpost_popFrame {s : VM ν} (hs : VI s) {fr : Frame} {rest : List Frame} (hst : s.stack = fr :: rest) :
    VPost s (fun _ s' => s'.heap = s.heap ∧ s'.stack = rest) (popFrame s) := by
  unfold popFrame
  rw [hst]
  dsimp only
  refine ⟨⟨hs.heap, hs.plain, hs.globals, hs.scopes, ?_⟩, Ext.refl _, rfl, rfl⟩
  intro f hf t ht
  exact hs.frames f (by rw [hst]; exact List.mem_cons_of_mem _ hf) t ht

/-! ## the predefined functions: no user code -/

theorem emit_apply (l : String) (s : VM ν) : emit l s = (.ok (), { s with out := l :: s.out }) := rfl

/-- `Function.Exec` of a predefined function (显示; 取随机数 and library functions are `notModelled`): the call stack is as before -/
theorem vpost_execFunction_plain (n : Nat) {s : VM ν} (hs : VI s) (f : FnRef) (hf : Plain (Cell.fn f : Cell ν))
    (this : Option Addr) {params : List Addr} (hp : ∀ v ∈ params, v < s.heap.size) :
    VPost s (fun r s' => r < s'.heap.size ∧ s'.stack = s.stack) (execFunction n f this params s) := by
  cases n with
  | zero => unfold execFunction; exact VPost.fuel hs
  | succ n =>
    cases f with
    | user ex => exact hf.elim
    | random => rw [execFunction]; exact VPost.notModelled hs
    | lib nm => rw [execFunction]; exact VPost.notModelled hs
    | display =>
      rw [execFunction]
      refine RO.vpost_bind hs (RO.mapM (P := fun _ _ => True) (fun x hx => ro_display n hs.heap (hp x hx))) (fun ss _ => ?_)
      rw [Builtins.bind_apply, emit_apply]
      dsimp only
      have h1 : VI ({ s with out := joinWith " " ss :: s.out } : VM ν) := ⟨hs.heap, hs.plain, hs.globals, hs.scopes, hs.frames⟩
      have := (VPost.ofPost h1 kr_newNull (post_newNull h1.heap).ofPre)
      rcases hn : (newNull : M ν Addr) { s with out := joinWith " " ss :: s.out } with ⟨r, s'⟩
      rw [hn] at this
      cases r with
      | ok a => exact ⟨this.1, this.2.1, this.2.2.1, this.2.2.2.2.2.1⟩
      | err e => exact this
      | panic => exact this
      | fuel => exact this
      | unmodelled => exact this

end ZnVerif.Proofs.VarInput
