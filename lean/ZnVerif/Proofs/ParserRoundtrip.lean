/-
Token-level round trip for expressions: `Lin 1 e ts → parseTokens ts = tree (exprProgram e)`.
States of the token-level lexer are written `S p1 ts fl` (current token, tokens from the peek token on, flag).
Every claim is "stable": it holds for every fuel from a bound on, so that no separate monotonicity lemma is needed.
-/
import ZnVerif.Spec.ExprSyntax

namespace ZnVerif.Proofs.Roundtrip
open ZnVerif.Model ZnVerif.Model.Parser ZnVerif.Generated.Tokens ZnVerif.Generated.ParserTables
open ZnVerif.Spec.ExprSyntax

def eofTok : Token := { type := cTypeEOF, startIdx := 0, endIdx := 0 }
def peekOf (ts : List Token) : Token := ts.headD eofTok

/-- parser state of the token-level lexer: current token `p1`, peek token = head of `ts` -/
def S (p1 : Option Token) (ts : List Token) (fl : Bool) : PState (List Token) :=
  { lex := ts.tail, p1 := p1, p2 := peekOf ts, sl1 := 0, el1 := 0, sl2 := 0, el2 := 0, flag := fl }

def NoCmt (ts : List Token) : Prop := ∀ t ∈ ts, t.type ≠ cTypeComment

def endFlag (rest : List Token) : Bool := decide ((peekOf rest).type = cTypeEOF)

theorem findLineIdx_one (c : Nat) : findLineIdx (tokenOps.lines ([] : List Token)) c 0 = 0 := by
  simp [findLineIdx, tokenOps, findLineIdxAux]

theorem lines_eq (l : List Token) : tokenOps.lines l = #[{ indents := 0, startIdx := 0 }] := rfl

theorem fetch_tok (n : Nat) (r : List Token) (h : (peekOf r).type ≠ cTypeComment) :
    fetch tokenOps (n + 1) r = .ok (peekOf r) r.tail := by
  cases r with
  | nil => simp [fetch, tokenOps, peekOf, eofTok] at h ⊢; exact fun h' => absurd h' h
  | cons a r => simp [fetch, tokenOps, peekOf] at h ⊢; exact fun h' => absurd h' h

/-- `next()` on the token-level lexer -/
theorem next_S (n : Nat) (p1 : Option Token) (t : Token) (r : List Token) (fl : Bool)
    (h : (peekOf r).type ≠ cTypeComment) :
    next tokenOps (n + 1) (S p1 (t :: r) fl) =
      .ok () (S (some t) r (fl || decide (t.type = cTypeEOF ∨ (peekOf r).type = cTypeEOF))) := by
  unfold next
  simp only [S, List.tail_cons, fetch_tok n r h]
  simp [lines_eq, findLineIdx, findLineIdxAux, meetStmtLineBreak, peekOf]


theorem bind_ok {α β : Type} {x : PM (List Token) α} {f : α → PM (List Token) β} {s s' : PState (List Token)} {a : α}
    (h : x s = .ok a s') : (x >>= f) s = f a s' := by
  show PM.bind x f s = _
  unfold PM.bind
  rw [h]

/-- the awaited token is the peek token -/
theorem tryConsume_hit (n : Nat) (tys : List Nat) (p1 : Option Token) (t : Token) (r : List Token)
    (hmem : t.type ∈ tys) (hc : t.type ≠ cTypeCommaSep) (hcm : (peekOf r).type ≠ cTypeComment) :
    tryConsume tokenOps (n + 1) tys (S p1 (t :: r) false) =
      .ok (some t) (S (some t) r (decide (t.type = cTypeEOF ∨ (peekOf r).type = cTypeEOF))) := by
  unfold tryConsume
  have h1 : (S p1 (t :: r) false).p2.type ≠ cTypeCommaSep := hc
  simp only [Bind.bind, PM.bind, getS, h1, if_false]
  unfold tryConsumeCore
  have h2 : tys.contains (S p1 (t :: r) false).p2.type = true := by simpa [S, peekOf] using hmem
  have h3 : (S p1 (t :: r) false).flag = false := rfl
  simp only [Bind.bind, PM.bind, getS, h2, h3, if_true, Bool.false_eq_true, if_false, next_S n p1 t r false hcm,
    Bool.false_or]
  rfl

/-- the peek token is not awaited (or the statement is complete), and it is not a comma -/
theorem tryConsume_miss (n : Nat) (tys : List Nat) (p1 : Option Token) (ts : List Token) (fl : Bool)
    (h : fl = true ∨ (peekOf ts).type ∉ tys) (hc : (peekOf ts).type ≠ cTypeCommaSep) :
    tryConsume tokenOps n tys (S p1 ts fl) = .ok none (S p1 ts fl) := by
  unfold tryConsume
  have h1 : (S p1 ts fl).p2.type ≠ cTypeCommaSep := hc
  simp only [Bind.bind, PM.bind, getS, h1, if_false]
  unfold tryConsumeCore
  simp only [Bind.bind, PM.bind, getS]
  rcases h with h | h
  · have : (S p1 ts fl).flag = true := h
    simp [this, Pure.pure, PM.pure]
  · have h2 : tys.contains (S p1 ts fl).p2.type = false := by simpa [S] using h
    by_cases hf : (S p1 ts fl).flag = true
    · simp [hf, Pure.pure, PM.pure]
    · have h3 : ¬ (S p1 ts fl).p2.type ∈ tys := h
      simp [hf, h3, Pure.pure, PM.pure]

theorem consume_hit (n : Nat) (tys : List Nat) (p1 : Option Token) (t : Token) (r : List Token)
    (hmem : t.type ∈ tys) (hc : t.type ≠ cTypeCommaSep) (hcm : (peekOf r).type ≠ cTypeComment) :
    consume Variant.fixed tokenOps (n + 1) tys (S p1 (t :: r) false) =
      .ok () (S (some t) r (decide (t.type = cTypeEOF ∨ (peekOf r).type = cTypeEOF))) := by
  unfold consume
  rw [bind_ok (tryConsume_hit n tys p1 t r hmem hc hcm)]
  rfl

theorem lineOf_S (tk : Token) (s : PState (List Token)) : lineOf tokenOps tk s = .ok 0 s := by
  simp [lineOf, lines_eq, findLineIdx, findLineIdxAux]

/-- `parse` yields `r` for every fuel from `n` on -/
def Stable (nt : NT) (s : PState (List Token)) (r : Res (List Token) nt.Out) (n : Nat) : Prop :=
  ∀ n', n ≤ n' → parse Variant.fixed tokenOps n' nt s = r

theorem Stable.mono {nt : NT} {s : PState (List Token)} {r : Res (List Token) nt.Out} {n m : Nat}
    (h : Stable nt s r n) (hnm : n ≤ m) : Stable nt s r m := fun n' h' => h n' (Nat.le_trans hnm h')

theorem parse_succ (n : Nat) (nt : NT) (s : PState (List Token)) :
    parse Variant.fixed tokenOps (n + 1) nt s = step Variant.fixed tokenOps n (parse Variant.fixed tokenOps n) nt s := rfl


-- follow sets: token types that would continue an expression of the given level (or be swallowed / skipped)
def F7 : List Nat := [cTypeMapHash, cTypeObjDotW, cTypeObjDotIIW, cTypeCommaSep, cTypeComment]
def F6 : List Nat := F7 ++ mulDivTypes
def F5 : List Nat := F6 ++ addSubTypes
def F4 : List Nat := F5 ++ (lv4ValidTypes ++ lv4VarAssignExtra)
def F3 : List Nat := F4 ++ lv3ValidTypes
def F2 : List Nat := F3 ++ [cTypeLogicAndW]
def F1 : List Nat := F2 ++ [cTypeLogicOrW]

/-- the state after the tokens `ts` have been consumed and `rest` follows -/
def Send (ts rest : List Token) : PState (List Token) := S ts.getLast? rest (endFlag rest)

/-- a token that is neither EOF, nor a comma, nor a comment -/
def Plain (t : Token) : Prop := t.type ≠ cTypeEOF ∧ t.type ≠ cTypeCommaSep ∧ t.type ≠ cTypeComment

section tails
variable (e : Expr) (p1 : Option Token) (rest : List Token) (fl : Bool)

theorem lv1Tail_now (h : fl = true ∨ (peekOf rest).type ∉ [cTypeLogicOrW]) (hc : (peekOf rest).type ≠ cTypeCommaSep) :
    Stable (.lv1Tail true e) (S p1 rest fl) (.ok e (S p1 rest fl)) 1 := by
  intro n' hn
  obtain ⟨m, rfl⟩ : ∃ m, n' = m + 1 := ⟨n' - 1, by omega⟩
  show pLv1Tail tokenOps m _ true e _ = _
  unfold pLv1Tail
  rw [bind_ok (tryConsume_miss m _ p1 rest fl h hc)]
  rfl

theorem lv2Tail_now (h : fl = true ∨ (peekOf rest).type ∉ [cTypeLogicAndW]) (hc : (peekOf rest).type ≠ cTypeCommaSep) :
    Stable (.lv2Tail true e) (S p1 rest fl) (.ok e (S p1 rest fl)) 1 := by
  intro n' hn
  obtain ⟨m, rfl⟩ : ∃ m, n' = m + 1 := ⟨n' - 1, by omega⟩
  show pLv2Tail tokenOps m _ true e _ = _
  unfold pLv2Tail
  rw [bind_ok (tryConsume_miss m _ p1 rest fl h hc)]
  rfl

theorem arithTail_now (h : fl = true ∨ (peekOf rest).type ∉ addSubTypes) (hc : (peekOf rest).type ≠ cTypeCommaSep) :
    Stable (.arithTail e) (S p1 rest fl) (.ok e (S p1 rest fl)) 1 := by
  intro n' hn
  obtain ⟨m, rfl⟩ : ∃ m, n' = m + 1 := ⟨n' - 1, by omega⟩
  show pArithTail tokenOps m _ e _ = _
  unfold pArithTail
  rw [bind_ok (tryConsume_miss m _ p1 rest fl h hc)]
  rfl

theorem mulDivTail_now (h : fl = true ∨ (peekOf rest).type ∉ mulDivTypes) (hc : (peekOf rest).type ≠ cTypeCommaSep) :
    Stable (.mulDivTail e) (S p1 rest fl) (.ok e (S p1 rest fl)) 1 := by
  intro n' hn
  obtain ⟨m, rfl⟩ : ∃ m, n' = m + 1 := ⟨n' - 1, by omega⟩
  show pMulDivTail tokenOps m _ e _ = _
  unfold pMulDivTail
  rw [bind_ok (tryConsume_miss m _ p1 rest fl h hc)]
  rfl

theorem memberTail_now (h : fl = true ∨ (peekOf rest).type ∉ [cTypeMapHash, cTypeObjDotW, cTypeObjDotIIW])
    (hc : (peekOf rest).type ≠ cTypeCommaSep) :
    Stable (.memberTail e) (S p1 rest fl) (.ok e (S p1 rest fl)) 1 := by
  intro n' hn
  obtain ⟨m, rfl⟩ : ∃ m, n' = m + 1 := ⟨n' - 1, by omega⟩
  show pMemberTail Variant.fixed tokenOps m _ e _ = _
  unfold pMemberTail
  rw [bind_ok (tryConsume_miss m _ p1 rest fl h hc)]
  rfl

end tails


/-- fuel bound of level `k` on `ts`: looser levels sit higher in the call chain -/
def D (k : Nat) (ts : List Token) : Nat := 16 * ts.length + 2 * (8 - k)

def C7 (e : Expr) (ts : List Token) : Prop :=
  ∀ p1 rest, (peekOf rest).type ∉ F7 →
    Stable .member (S p1 (ts ++ rest) false) (.ok e (Send ts rest)) (D 7 ts)
def C6 (e : Expr) (ts : List Token) : Prop :=
  ∀ p1 rest r n, 1 ≤ n → (peekOf rest).type ∉ F7 → Stable (.mulDivTail e) (Send ts rest) r n →
    Stable .mulDiv (S p1 (ts ++ rest) false) r (n + D 6 ts)
def C5 (e : Expr) (ts : List Token) : Prop :=
  ∀ p1 rest r n, 1 ≤ n → (peekOf rest).type ∉ F6 → Stable (.arithTail e) (Send ts rest) r n →
    Stable .arith (S p1 (ts ++ rest) false) r (n + D 5 ts)
def C4 (e : Expr) (ts : List Token) : Prop :=
  ∀ p1 rest, (peekOf rest).type ∉ F4 →
    Stable (.lv4 true) (S p1 (ts ++ rest) false) (.ok e (Send ts rest)) (D 4 ts)
def C3 (e : Expr) (ts : List Token) : Prop :=
  ∀ p1 rest, (peekOf rest).type ∉ F3 →
    Stable (.lv3 true) (S p1 (ts ++ rest) false) (.ok e (Send ts rest)) (D 3 ts)
def C2 (e : Expr) (ts : List Token) : Prop :=
  ∀ p1 rest r n, 1 ≤ n → (peekOf rest).type ∉ F3 → Stable (.lv2Tail true e) (Send ts rest) r n →
    Stable (.lv2 true) (S p1 (ts ++ rest) false) r (n + D 2 ts)
def C1 (e : Expr) (ts : List Token) : Prop :=
  ∀ p1 rest r n, 1 ≤ n → (peekOf rest).type ∉ F2 → Stable (.lv1Tail true e) (Send ts rest) r n →
    Stable (.expr true) (S p1 (ts ++ rest) false) r (n + D 1 ts)

def Claim : Nat → Expr → List Token → Prop
  | 1 => C1 | 2 => C2 | 3 => C3 | 4 => C4 | 5 => C5 | 6 => C6 | 7 => C7
  | _ => fun _ _ => False

structure Facts (e : Expr) (ts : List Token) : Prop where
  ne : ts ≠ []
  plain : ∀ t ∈ ts, Plain t
  first : (peekOf ts).type ∈ [cTypeIdentifier, cTypeString, cTypeStmtQuoteL]
  line : e.setLine 0 = e

theorem plain_of_mem {l : List Nat} (hl : ∀ ty ∈ l, ty ≠ cTypeEOF ∧ ty ≠ cTypeCommaSep ∧ ty ≠ cTypeComment) {t : Token}
    (h : t.type ∈ l) : Plain t := hl _ h

theorem lv3_plain : ∀ ty ∈ lv3ValidTypes, ty ≠ cTypeEOF ∧ ty ≠ cTypeCommaSep ∧ ty ≠ cTypeComment := by decide
theorem addSub_plain : ∀ ty ∈ addSubTypes, ty ≠ cTypeEOF ∧ ty ≠ cTypeCommaSep ∧ ty ≠ cTypeComment := by decide
theorem mulDiv_plain : ∀ ty ∈ mulDivTypes, ty ≠ cTypeEOF ∧ ty ≠ cTypeCommaSep ∧ ty ≠ cTypeComment := by decide

theorem peekOf_append {ts : List Token} (h : ts ≠ []) (rest : List Token) : peekOf (ts ++ rest) = peekOf ts := by
  cases ts with
  | nil => exact absurd rfl h
  | cons a r => rfl

theorem facts_binop {a b : Expr} {ta tb : List Token} {t : Token} {e : Expr} (ha : Facts a ta) (hb : Facts b tb) (ht : Plain t)
    (he : e.setLine 0 = e) : Facts e (ta ++ t :: tb) where
  ne := by simp
  plain := by
    intro x hx
    simp only [List.mem_append, List.mem_cons] at hx
    rcases hx with hx | rfl | hx
    · exact ha.plain x hx
    · exact ht
    · exact hb.plain x hx
  first := by rw [peekOf_append ha.ne]; exact ha.first
  line := he

theorem getLast?_binop (ta tb : List Token) (t : Token) (h : tb ≠ []) : (ta ++ t :: tb).getLast? = tb.getLast? := by
  have h1 : (t :: tb).getLast? = tb.getLast? := by
    cases tb with
    | nil => exact absurd rfl h
    | cons x r => simp [List.getLast?_cons_cons]
  have h2 : ∃ y, tb.getLast? = some y := by
    cases hh : tb.getLast? with
    | none => simp [List.getLast?_eq_none_iff] at hh; exact absurd hh h
    | some y => exact ⟨y, rfl⟩
  obtain ⟨y, hy⟩ := h2
  rw [List.getLast?_append, h1, hy]
  rfl

theorem Send_binop (ta tb rest : List Token) (t : Token) (h : tb ≠ []) : Send (ta ++ t :: tb) rest = Send tb rest := by
  unfold Send
  rw [getLast?_binop ta tb t h]

/-- state after the tokens of `ta`, when the operator `t` and the right operand follow -/
theorem Send_mid (ta tb rest : List Token) (t : Token) (ht : Plain t) :
    Send ta (t :: tb ++ rest) = S ta.getLast? (t :: (tb ++ rest)) false := by
  unfold Send endFlag
  simp [peekOf, ht.1]


theorem not_mem_of_append_left {a : Nat} {l1 l2 : List Nat} (h : a ∉ l1 ++ l2) : a ∉ l1 :=
  fun h' => h (List.mem_append_left _ h')
theorem not_mem_of_append_right {a : Nat} {l1 l2 : List Nat} (h : a ∉ l1 ++ l2) : a ∉ l2 :=
  fun h' => h (List.mem_append_right _ h')

theorem F7_comma {ty : Nat} (h : ty ∉ F7) : ty ≠ cTypeCommaSep ∧ ty ≠ cTypeComment ∧
    ty ∉ [cTypeMapHash, cTypeObjDotW, cTypeObjDotIIW] := by
  simp only [F7, List.mem_cons, List.not_mem_nil, or_false, not_or] at h ⊢
  exact ⟨h.2.2.2.1, h.2.2.2.2, h.1, h.2.1, h.2.2.1⟩

/-- flag after consuming a plain token when a plain token follows -/
theorem flag_mid {t u : Token} (ht : Plain t) (hu : Plain u) :
    decide (t.type = cTypeEOF ∨ u.type = cTypeEOF) = false := by
  simp [ht.1, hu.1]

theorem flag_end {t : Token} (ht : Plain t) (rest : List Token) :
    decide (t.type = cTypeEOF ∨ (peekOf rest).type = cTypeEOF) = endFlag rest := by
  simp [endFlag, ht.1]

theorem peek_plain {ts : List Token} (hne : ts ≠ []) (hp : ∀ t ∈ ts, Plain t) (rest : List Token) :
    Plain (peekOf (ts ++ rest)) := by
  cases ts with
  | nil => exact absurd rfl hne
  | cons a r => exact hp a (List.mem_cons_self ..)

theorem F_chain {ty : Nat} :
    (ty ∉ F2 → ty ∉ F3) ∧ (ty ∉ F3 → ty ∉ F4) ∧ (ty ∉ F4 → ty ∉ F5) ∧ (ty ∉ F5 → ty ∉ F6) ∧ (ty ∉ F6 → ty ∉ F7) :=
  ⟨not_mem_of_append_left, not_mem_of_append_left, not_mem_of_append_left, not_mem_of_append_left, not_mem_of_append_left⟩

/-- `a 或 b` -/
theorem case_or (t : Token) (a b : Expr) (ta tb : List Token) (ht : t.type = cTypeLogicOrW)
    (Ca : C1 a ta) (Fb : Facts b tb) (Cb : C2 b tb) :
    C1 (.logic 0 cLogicOR a b) (ta ++ t :: tb) := by
  intro p1 rest r n hn1 hf hstab
  have htp : Plain t := by unfold Plain; rw [ht]; decide
  have hf3 := F_chain.1 hf
  have hf7 := F_chain.2.2.2.2 (F_chain.2.2.2.1 (F_chain.2.2.1 (F_chain.2.1 hf3)))
  have hand : (peekOf rest).type ∉ [cTypeLogicAndW] := not_mem_of_append_right hf
  have key : Stable (.lv1Tail true a) (Send ta (t :: tb ++ rest)) r (max n (1 + D 2 tb) + 1) := by
    intro n' hn
    obtain ⟨m, rfl⟩ : ∃ m, n' = m + 2 := ⟨n' - 2, by unfold D at hn; omega⟩
    rw [Send_mid ta tb rest t htp]
    show pLv1Tail tokenOps (m + 1) _ true a _ = r
    unfold pLv1Tail
    rw [bind_ok (tryConsume_hit m _ _ t (tb ++ rest) (by simp [ht]) htp.2.1 (peek_plain Fb.ne Fb.plain rest).2.2)]
    simp only [flag_mid htp (peek_plain Fb.ne Fb.plain rest)]
    have hb := Cb (some t) rest (.ok b (Send tb rest)) 1 (Nat.le_refl _) hf3
      (lv2Tail_now b _ rest _ (Or.inr hand) (F7_comma hf7).1) (m + 1) (by omega)
    rw [bind_ok hb, bind_ok (lineOf_S t _)]
    rw [Send_binop ta tb rest t Fb.ne] at hstab
    exact hstab (m + 1) (by omega)
  have hhead : (peekOf (t :: tb ++ rest)).type ∉ F2 := by
    show t.type ∉ F2
    rw [ht]; decide
  have := Ca p1 (t :: tb ++ rest) r _ (by omega) hhead key
  rw [List.append_assoc]
  refine this.mono ?_
  unfold D
  simp only [List.length_append, List.length_cons]
  omega

/-- `a 且 b` -/
theorem case_and (t : Token) (a b : Expr) (ta tb : List Token) (ht : t.type = cTypeLogicAndW)
    (Ca : C2 a ta) (Fb : Facts b tb) (Cb : C3 b tb) :
    C2 (.logic 0 cLogicAND a b) (ta ++ t :: tb) := by
  intro p1 rest r n hn1 hf hstab
  have htp : Plain t := by unfold Plain; rw [ht]; decide
  have key : Stable (.lv2Tail true a) (Send ta (t :: tb ++ rest)) r (max n (D 3 tb) + 1) := by
    intro n' hn
    obtain ⟨m, rfl⟩ : ∃ m, n' = m + 2 := ⟨n' - 2, by unfold D at hn; omega⟩
    rw [Send_mid ta tb rest t htp]
    show pLv2Tail tokenOps (m + 1) _ true a _ = r
    unfold pLv2Tail
    rw [bind_ok (tryConsume_hit m _ _ t (tb ++ rest) (by simp [ht]) htp.2.1 (peek_plain Fb.ne Fb.plain rest).2.2)]
    simp only [flag_mid htp (peek_plain Fb.ne Fb.plain rest)]
    have hb := Cb (some t) rest hf (m + 1) (by omega)
    rw [bind_ok hb, bind_ok (lineOf_S t _)]
    rw [Send_binop ta tb rest t Fb.ne] at hstab
    exact hstab (m + 1) (by omega)
  have hhead : (peekOf (t :: tb ++ rest)).type ∉ F3 := by
    show t.type ∉ F3
    rw [ht]; decide
  have := Ca p1 (t :: tb ++ rest) r _ (by omega) hhead key
  rw [List.append_assoc]
  refine this.mono ?_
  unfold D
  simp only [List.length_append, List.length_cons]
  omega

theorem addSub_not_F6 : ∀ ty ∈ addSubTypes, ty ∉ F6 := by decide
theorem mulDiv_not_F7 : ∀ ty ∈ mulDivTypes, ty ∉ F7 := by decide
theorem lv3_not_F4 : ∀ ty ∈ lv3ValidTypes, ty ∉ F4 := by decide

/-- `a + b`, `a - b` -/
theorem case_add (t : Token) (a b : Expr) (ta tb : List Token) (ht : t.type ∈ addSubTypes)
    (Ca : C5 a ta) (Fb : Facts b tb) (Cb : C6 b tb) :
    C5 (.arith 0 (lookupD addSubOverride t.type addSubDefault) a b) (ta ++ t :: tb) := by
  intro p1 rest r n hn1 hf hstab
  have htp : Plain t := plain_of_mem addSub_plain ht
  have hf7 := F_chain.2.2.2.2 hf
  have hmd : (peekOf rest).type ∉ mulDivTypes := not_mem_of_append_right hf
  have key : Stable (.arithTail a) (Send ta (t :: tb ++ rest)) r (max n (1 + D 6 tb) + 1) := by
    intro n' hn
    obtain ⟨m, rfl⟩ : ∃ m, n' = m + 2 := ⟨n' - 2, by unfold D at hn; omega⟩
    rw [Send_mid ta tb rest t htp]
    show pArithTail tokenOps (m + 1) _ a _ = r
    unfold pArithTail
    rw [bind_ok (tryConsume_hit m _ _ t (tb ++ rest) ht htp.2.1 (peek_plain Fb.ne Fb.plain rest).2.2)]
    simp only [flag_mid htp (peek_plain Fb.ne Fb.plain rest)]
    have hb := Cb (some t) rest (.ok b (Send tb rest)) 1 (Nat.le_refl _) hf7
      (mulDivTail_now b _ rest _ (Or.inr hmd) (F7_comma hf7).1) (m + 1) (by omega)
    rw [bind_ok hb, bind_ok (lineOf_S t _)]
    rw [Send_binop ta tb rest t Fb.ne] at hstab
    exact hstab (m + 1) (by omega)
  have hhead : (peekOf (t :: tb ++ rest)).type ∉ F6 := addSub_not_F6 _ ht
  have := Ca p1 (t :: tb ++ rest) r _ (by omega) hhead key
  rw [List.append_assoc]
  refine this.mono ?_
  unfold D
  simp only [List.length_append, List.length_cons]
  omega

/-- `a * b`, `a / b`, `a | b`, `a % b` -/
theorem case_mul (t : Token) (a b : Expr) (ta tb : List Token) (ht : t.type ∈ mulDivTypes)
    (Ca : C6 a ta) (Fb : Facts b tb) (Cb : C7 b tb) :
    C6 (.arith 0 (lookupD mulDivTypeMap t.type 0) a b) (ta ++ t :: tb) := by
  intro p1 rest r n hn1 hf hstab
  have htp : Plain t := plain_of_mem mulDiv_plain ht
  have key : Stable (.mulDivTail a) (Send ta (t :: tb ++ rest)) r (max n (D 7 tb) + 1) := by
    intro n' hn
    obtain ⟨m, rfl⟩ : ∃ m, n' = m + 2 := ⟨n' - 2, by unfold D at hn; omega⟩
    rw [Send_mid ta tb rest t htp]
    show pMulDivTail tokenOps (m + 1) _ a _ = r
    unfold pMulDivTail
    rw [bind_ok (tryConsume_hit m _ _ t (tb ++ rest) ht htp.2.1 (peek_plain Fb.ne Fb.plain rest).2.2)]
    simp only [flag_mid htp (peek_plain Fb.ne Fb.plain rest)]
    have hb := Cb (some t) rest hf (m + 1) (by omega)
    rw [bind_ok hb, bind_ok (lineOf_S t _)]
    rw [Send_binop ta tb rest t Fb.ne] at hstab
    exact hstab (m + 1) (by omega)
  have hhead : (peekOf (t :: tb ++ rest)).type ∉ F7 := mulDiv_not_F7 _ ht
  have := Ca p1 (t :: tb ++ rest) r _ (by omega) hhead key
  rw [List.append_assoc]
  refine this.mono ?_
  unfold D
  simp only [List.length_append, List.length_cons]
  omega

/-- `a < b` and the other comparisons: exactly one -/
theorem case_cmp (t : Token) (a b : Expr) (ta tb : List Token) (ht : t.type ∈ lv3ValidTypes)
    (Fa : Facts a ta) (Ca : C4 a ta) (Fb : Facts b tb) (Cb : C4 b tb) :
    C3 (.logic 0 (lookupD logicTypeMap t.type 0) a b) (ta ++ t :: tb) := by
  intro p1 rest hf n' hn
  have htp : Plain t := plain_of_mem lv3_plain ht
  obtain ⟨m, rfl⟩ : ∃ m, n' = m + 2 := ⟨n' - 2, by unfold D at hn; omega⟩
  have hlen : D 3 (ta ++ t :: tb) = 16 * (ta.length + (tb.length + 1)) + 10 := by
    unfold D; simp only [List.length_append, List.length_cons]
  rw [hlen] at hn
  show pLv3 tokenOps (m + 1) _ true _ = _
  unfold pLv3
  rw [List.append_assoc]
  have ha := Ca p1 (t :: tb ++ rest) (lv3_not_F4 _ ht) (m + 1) (by unfold D; omega)
  rw [bind_ok ha, Send_mid ta tb rest t htp]
  rw [bind_ok (tryConsume_hit m _ _ t (tb ++ rest) ht htp.2.1 (peek_plain Fb.ne Fb.plain rest).2.2)]
  simp only [flag_mid htp (peek_plain Fb.ne Fb.plain rest)]
  have hb := Cb (some t) rest (F_chain.2.1 hf) (m + 1) (by unfold D; omega)
  rw [bind_ok hb, bind_ok (lineOf_S t _), Send_binop ta tb rest t Fb.ne]
  rfl


-- ---- a tighter expression where a looser one is expected ---------------------------------------------------------------

theorem up6 (e : Expr) (ts : List Token) (h : C7 e ts) : C6 e ts := by
  intro p1 rest r n hn1 hf hstab n' hn
  obtain ⟨m, rfl⟩ : ∃ m, n' = m + 1 := ⟨n' - 1, by unfold D at hn; omega⟩
  show pMulDiv _ _ = r
  unfold pMulDiv
  rw [bind_ok (h p1 rest hf m (by unfold D at hn ⊢; omega))]
  exact hstab m (by unfold D at hn; omega)

theorem up5 (e : Expr) (ts : List Token) (h : C6 e ts) : C5 e ts := by
  intro p1 rest r n hn1 hf hstab n' hn
  obtain ⟨m, rfl⟩ : ∃ m, n' = m + 1 := ⟨n' - 1, by unfold D at hn; omega⟩
  have hf7 := F_chain.2.2.2.2 hf
  show pArith _ _ = r
  unfold pArith
  rw [bind_ok (h p1 rest (.ok e (Send ts rest)) 1 (Nat.le_refl _) hf7
    (mulDivTail_now e _ rest _ (Or.inr (not_mem_of_append_right hf)) (F7_comma hf7).1) m (by unfold D at hn ⊢; omega))]
  exact hstab m (by unfold D at hn; omega)

theorem F4_assign {ty : Nat} (h : ty ∉ F4) : ty ∉ lv4ValidTypes ++ lv4VarAssignExtra := not_mem_of_append_right h

theorem up4 (e : Expr) (ts : List Token) (h : C5 e ts) : C4 e ts := by
  intro p1 rest hf n' hn
  obtain ⟨m, rfl⟩ : ∃ m, n' = m + 1 := ⟨n' - 1, by unfold D at hn; omega⟩
  have hf5 := F_chain.2.2.1 hf
  have hf7 := F_chain.2.2.2.2 (F_chain.2.2.2.1 hf5)
  show pLv4 Variant.fixed tokenOps m _ true _ = _
  unfold pLv4
  rw [bind_ok (h p1 rest (.ok e (Send ts rest)) 1 (Nat.le_refl _) (F_chain.2.2.2.1 hf5)
    (arithTail_now e _ rest _ (Or.inr (not_mem_of_append_right hf5)) (F7_comma hf7).1) m (by unfold D at hn ⊢; omega))]
  simp only [if_true]
  unfold Send
  rw [bind_ok (tryConsume_miss m _ _ rest _ (Or.inr (F4_assign hf)) (F7_comma hf7).1)]
  rfl

theorem up3 (e : Expr) (ts : List Token) (h : C4 e ts) : C3 e ts := by
  intro p1 rest hf n' hn
  obtain ⟨m, rfl⟩ : ∃ m, n' = m + 1 := ⟨n' - 1, by unfold D at hn; omega⟩
  have hf4 := F_chain.2.1 hf
  have hf7 := F_chain.2.2.2.2 (F_chain.2.2.2.1 (F_chain.2.2.1 hf4))
  show pLv3 tokenOps m _ true _ = _
  unfold pLv3
  rw [bind_ok (h p1 rest hf4 m (by unfold D at hn ⊢; omega))]
  unfold Send
  rw [bind_ok (tryConsume_miss m _ _ rest _ (Or.inr (not_mem_of_append_right hf)) (F7_comma hf7).1)]
  rfl

theorem up2 (e : Expr) (ts : List Token) (h : C3 e ts) : C2 e ts := by
  intro p1 rest r n hn1 hf hstab n' hn
  obtain ⟨m, rfl⟩ : ∃ m, n' = m + 1 := ⟨n' - 1, by unfold D at hn; omega⟩
  show pLv2 _ true _ = r
  unfold pLv2
  rw [bind_ok (h p1 rest hf m (by unfold D at hn ⊢; omega))]
  exact hstab m (by unfold D at hn; omega)

theorem up1 (e : Expr) (ts : List Token) (h : C2 e ts) : C1 e ts := by
  intro p1 rest r n hn1 hf hstab n' hn
  obtain ⟨m, rfl⟩ : ∃ m, n' = m + 1 := ⟨n' - 1, by unfold D at hn; omega⟩
  have hf3 := F_chain.1 hf
  have hf7 := F_chain.2.2.2.2 (F_chain.2.2.2.1 (F_chain.2.2.1 (F_chain.2.1 hf3)))
  show pLv1 _ true _ = r
  unfold pLv1
  rw [bind_ok (h p1 rest (.ok e (Send ts rest)) 1 (Nat.le_refl _) hf3
    (lv2Tail_now e _ rest _ (Or.inr (not_mem_of_append_right hf)) (F7_comma hf7).1) m (by unfold D at hn ⊢; omega))]
  exact hstab m (by unfold D at hn; omega)


-- ---- level 7: identifiers, strings, braces -----------------------------------------------------------------------------

theorem Send_single (t : Token) (rest : List Token) : Send [t] rest = S (some t) rest (endFlag rest) := rfl

theorem basic_id (m : Nat) (p1 : Option Token) (t : Token) (rest : List Token) (ht : t.type = cTypeIdentifier)
    (hc : (peekOf rest).type ≠ cTypeComment) :
    parse Variant.fixed tokenOps (m + 2) .basic (S p1 (t :: rest) false) =
      .ok (.id ⟨0, runesToString t.literal⟩) (Send [t] rest) := by
  have htp : Plain t := by unfold Plain; rw [ht]; decide
  show pBasic Variant.fixed tokenOps (m + 1) _ _ = _
  unfold pBasic
  rw [bind_ok (tryConsume_hit m _ p1 t rest (by rw [ht]; decide) htp.2.1 hc), flag_end htp rest]
  simp only [ht, if_true, newID, Bind.bind, PM.bind, lineOf_S, Pure.pure, PM.pure, Expr.setLine,
    Send_single]

theorem basic_str (m : Nat) (p1 : Option Token) (t : Token) (rest : List Token) (ht : t.type = cTypeString)
    (hc : (peekOf rest).type ≠ cTypeComment) :
    parse Variant.fixed tokenOps (m + 2) .basic (S p1 (t :: rest) false) =
      .ok (.str 0 (runesToString t.literal)) (Send [t] rest) := by
  have htp : Plain t := by unfold Plain; rw [ht]; decide
  show pBasic Variant.fixed tokenOps (m + 1) _ _ = _
  unfold pBasic
  rw [bind_ok (tryConsume_hit m _ p1 t rest (by rw [ht]; decide) htp.2.1 hc), flag_end htp rest]
  have h1 : ¬ cTypeString = cTypeIdentifier := by decide
  simp only [ht, h1, if_true, if_false, newString, Bind.bind, PM.bind, lineOf_S, Pure.pure, PM.pure,
    Expr.setLine, Send_single]

/-- an expression whose first token can start a basic expression: ParseMemberExpr = ParseBasicExpr, then the member tail -/
theorem member_of_basic (m : Nat) (p1 : Option Token) (ts rest : List Token) (e : Expr) (hne : ts ≠ [])
    (hfirst : (peekOf ts).type ∈ [cTypeIdentifier, cTypeString, cTypeStmtQuoteL])
    (hf : (peekOf rest).type ∉ F7)
    (hb : parse Variant.fixed tokenOps (m + 1) .basic (S p1 (ts ++ rest) false) = .ok e (Send ts rest)) :
    parse Variant.fixed tokenOps (m + 2) .member (S p1 (ts ++ rest) false) = .ok e (Send ts rest) := by
  show pMember Variant.fixed tokenOps (m + 1) _ _ = _
  unfold pMember
  have hp : (peekOf (ts ++ rest)).type ∈ [cTypeIdentifier, cTypeString, cTypeStmtQuoteL] := by
    rw [peekOf_append hne]; exact hfirst
  have h1 : (peekOf (ts ++ rest)).type ∉ [cTypeObjThisW] := by
    intro h
    simp only [List.mem_cons, List.not_mem_nil, or_false] at h hp
    rw [h] at hp
    revert hp; decide
  have h2 : (peekOf (ts ++ rest)).type ≠ cTypeCommaSep := by
    intro h
    simp only [List.mem_cons, List.not_mem_nil, or_false] at hp
    rw [h] at hp
    revert hp; decide
  rw [bind_ok (tryConsume_miss (m + 1) _ p1 (ts ++ rest) false (Or.inr h1) h2)]
  show (parse Variant.fixed tokenOps (m + 1) .basic >>= fun e => parse Variant.fixed tokenOps (m + 1) (.memberTail e)) _ = _
  rw [bind_ok hb]
  exact memberTail_now e _ rest _ (Or.inr (F7_comma hf).2.2) (F7_comma hf).1 (m + 1) (by omega)

theorem case_id (t : Token) (ht : t.type = cTypeIdentifier) : C7 (.id ⟨0, runesToString t.literal⟩) [t] := by
  intro p1 rest hf n' hn
  obtain ⟨m, rfl⟩ : ∃ m, n' = m + 3 := ⟨n' - 3, by unfold D at hn; simp at hn; omega⟩
  exact member_of_basic (m + 1) p1 [t] rest _ (by simp) (by simp [peekOf, ht]) hf
    (basic_id m p1 t rest ht (F7_comma hf).2.1)

theorem case_str (t : Token) (ht : t.type = cTypeString) : C7 (.str 0 (runesToString t.literal)) [t] := by
  intro p1 rest hf n' hn
  obtain ⟨m, rfl⟩ : ∃ m, n' = m + 3 := ⟨n' - 3, by unfold D at hn; simp at hn; omega⟩
  exact member_of_basic (m + 1) p1 [t] rest _ (by simp) (by simp [peekOf, ht]) hf
    (basic_str m p1 t rest ht (F7_comma hf).2.1)


theorem getLast?_brace (l r : Token) (ts : List Token) : (l :: ts ++ [r]).getLast? = some r := by
  have : l :: ts ++ [r] = (l :: ts) ++ [r] := rfl
  rw [this, List.getLast?_append]
  rfl

/-- `{ e }` -/
theorem case_brace (l r : Token) (e : Expr) (ts : List Token) (hl : l.type = cTypeStmtQuoteL) (hr : r.type = cTypeStmtQuoteR)
    (Fe : Facts e ts) (Ce : C1 e ts) : C7 e (l :: ts ++ [r]) := by
  intro p1 rest hf n' hn
  have hlen : D 7 (l :: ts ++ [r]) = 16 * (ts.length + 2) + 2 := by
    unfold D; simp only [List.length_append, List.length_cons, List.length_nil]
  rw [hlen] at hn
  obtain ⟨m, rfl⟩ : ∃ m, n' = m + 3 := ⟨n' - 3, by omega⟩
  have hlp : Plain l := by unfold Plain; rw [hl]; decide
  have hrp : Plain r := by unfold Plain; rw [hr]; decide
  refine member_of_basic (m + 1) p1 (l :: ts ++ [r]) rest e (by simp) (by simp [peekOf, hl]) hf ?_
  have hshape : (l :: ts ++ [r]) ++ rest = l :: (ts ++ r :: rest) := by simp
  rw [hshape]
  show pBasic Variant.fixed tokenOps (m + 1) _ _ = _
  unfold pBasic
  have hpk : Plain (peekOf (ts ++ r :: rest)) := peek_plain Fe.ne Fe.plain _
  rw [bind_ok (tryConsume_hit m _ p1 l (ts ++ r :: rest) (by rw [hl]; decide) hlp.2.1 hpk.2.2), flag_mid hlp hpk]
  have h1 : ¬ cTypeStmtQuoteL = cTypeIdentifier := by decide
  have h2 : ¬ cTypeStmtQuoteL = cTypeString := by decide
  have h3 : ¬ cTypeStmtQuoteL = cTypeArrayQuoteL := by decide
  simp only [hl, h1, h2, h3, if_true, if_false]
  -- the inner expression, then the closing brace
  have hin := Ce (some l) (r :: rest) (.ok e (Send ts (r :: rest))) 1 (Nat.le_refl _)
    (by show r.type ∉ F2; rw [hr]; decide)
    (lv1Tail_now e _ (r :: rest) _ (Or.inr (by show r.type ∉ [cTypeLogicOrW]; rw [hr]; decide)) hrp.2.1)
    (m + 1) (by unfold D; omega)
  have hsend : Send ts (r :: rest) = S ts.getLast? (r :: rest) false := by
    unfold Send endFlag; simp [peekOf, hrp.1]
  rw [hsend] at hin
  have hcons := consume_hit m [cTypeStmtQuoteR] ts.getLast? r rest (by simp [hr]) hrp.2.1 (F7_comma hf).2.1
  rw [flag_end hrp rest] at hcons
  simp only [Bind.bind, PM.bind, hin, hcons, lineOf_S, Pure.pure, PM.pure, Fe.line]
  unfold Send
  rw [getLast?_brace]

theorem facts_brace (l r : Token) (e : Expr) (ts : List Token) (hl : l.type = cTypeStmtQuoteL) (hr : r.type = cTypeStmtQuoteR)
    (Fe : Facts e ts) : Facts e (l :: ts ++ [r]) where
  ne := by simp
  plain := by
    intro x hx
    simp only [List.cons_append, List.mem_cons, List.mem_append, List.not_mem_nil, or_false] at hx
    rcases hx with rfl | hx | rfl
    · unfold Plain; rw [hl]; decide
    · exact Fe.plain x hx
    · unfold Plain; rw [hr]; decide
  first := by simp [peekOf, hl]
  line := Fe.line

/-- the claim of its level holds for every linearisation -/
theorem lin_claim {k : Nat} {e : Expr} {ts : List Token} (h : Lin k e ts) : Facts e ts ∧ Claim k e ts := by
  induction h with
  | id t ht =>
    exact ⟨⟨by simp, by intro x hx; simp at hx; subst hx; unfold Plain; rw [ht]; decide, by simp [peekOf, ht], rfl⟩,
      case_id t ht⟩
  | str t ht =>
    exact ⟨⟨by simp, by intro x hx; simp at hx; subst hx; unfold Plain; rw [ht]; decide, by simp [peekOf, ht], rfl⟩,
      case_str t ht⟩
  | brace l r e ts hl hr _ ih => exact ⟨facts_brace l r e ts hl hr ih.1, case_brace l r e ts hl hr ih.1 ih.2⟩
  | up k e ts hk _ ih =>
    refine ⟨ih.1, ?_⟩
    match k, hk, ih.2 with
    | 1, _, c => exact up1 e ts c
    | 2, _, c => exact up2 e ts c
    | 3, _, c => exact up3 e ts c
    | 4, _, c => exact up4 e ts c
    | 5, _, c => exact up5 e ts c
    | 6, _, c => exact up6 e ts c
    | (n + 7), _, c => exact c.elim
  | or t a b ta tb ht _ _ iha ihb =>
    exact ⟨facts_binop iha.1 ihb.1 (by unfold Plain; rw [ht]; decide) rfl, case_or t a b ta tb ht iha.2 ihb.1 ihb.2⟩
  | and t a b ta tb ht _ _ iha ihb =>
    exact ⟨facts_binop iha.1 ihb.1 (by unfold Plain; rw [ht]; decide) rfl, case_and t a b ta tb ht iha.2 ihb.1 ihb.2⟩
  | cmp t a b ta tb ht _ _ iha ihb =>
    exact ⟨facts_binop iha.1 ihb.1 (plain_of_mem lv3_plain ht) rfl, case_cmp t a b ta tb ht iha.1 iha.2 ihb.1 ihb.2⟩
  | add t a b ta tb ht _ _ iha ihb =>
    exact ⟨facts_binop iha.1 ihb.1 (plain_of_mem addSub_plain ht) rfl, case_add t a b ta tb ht iha.2 ihb.1 ihb.2⟩
  | mul t a b ta tb ht _ _ iha ihb =>
    exact ⟨facts_binop iha.1 ihb.1 (plain_of_mem mulDiv_plain ht) rfl, case_mul t a b ta tb ht iha.2 ihb.1 ihb.2⟩


-- ---- from the expression to the program --------------------------------------------------------------------------------

theorem first_not (ts : List Token) {e : Expr} (F : Facts e ts) (l : List Nat)
    (hl : cTypeIdentifier ∉ l ∧ cTypeString ∉ l ∧ cTypeStmtQuoteL ∉ l) :
    (peekOf ts).type ∉ l ∧ (peekOf ts).type ≠ cTypeCommaSep := by
  have h := F.first
  simp only [List.mem_cons, List.not_mem_nil, or_false] at h
  rcases h with h | h | h <;> rw [h] <;> refine ⟨by simp [hl.1, hl.2.1, hl.2.2], by decide⟩

theorem blockCond_start (ts : List Token) {e : Expr} (F : Facts e ts) (p1 : Option Token) :
    blockCond tokenOps 0 (S p1 ts false) = true := by
  have hp := (peek_plain F.ne F.plain []).1
  rw [List.append_nil] at hp
  simp [blockCond, peekIndentOf, S, lines_eq, hp]

theorem blockCond_end (ts : List Token) : blockCond tokenOps 0 (Send ts []) = false := by
  simp [blockCond, Send, S, peekOf, eofTok]

theorem Send_nil_flag (ts : List Token) : (Send ts []).flag = true := by
  simp [Send, S, endFlag, peekOf, eofTok]

theorem eof_not_F2 : (peekOf ([] : List Token)).type ∉ F2 := by decide

/-- the expression statement -/
theorem statement_expr {e : Expr} {ts : List Token} (h : Lin 1 e ts) (p1 : Option Token) (m : Nat) (hm : 1 + D 1 ts ≤ m) :
    parse Variant.fixed tokenOps (m + 1) .statement (S p1 ts false) = .ok (.expr e) (Send ts []) := by
  obtain ⟨F, C⟩ := lin_claim h
  show pStatement Variant.fixed tokenOps m _ _ = _
  unfold pStatement
  have hn := first_not ts F stmtValidTypes (by decide)
  have h0 : (unsetFlag : PM (List Token) Unit) (S p1 ts false) = .ok () (S p1 ts false) := rfl
  rw [bind_ok h0, bind_ok (tryConsume_miss m _ p1 ts false (Or.inr hn.1) hn.2)]
  have he : parse Variant.fixed tokenOps m (.expr true) (S p1 ts false) = .ok e (Send ts []) := by
    have := C p1 [] (.ok e (Send ts [])) 1 (Nat.le_refl _) eof_not_F2
      (lv1Tail_now e _ [] _ (Or.inl (by simp [endFlag, peekOf, eofTok])) (by decide)) m hm
    rwa [List.append_nil] at this
  show (parse Variant.fixed tokenOps m (.expr true) >>= _) _ = _
  rw [bind_ok he]
  have hend : (endOfStmt Variant.fixed : PM (List Token) Unit) (Send ts []) = .ok () (Send ts []) := by
    unfold endOfStmt
    simp [Send_nil_flag]
  rw [bind_ok hend]
  rfl

/-- **the round trip**: a token list that linearises the expression `e` parses (as a program) to the program whose only statement
is `e` — for every fuel from `D 1 ts + 10` on. -/
theorem parse_tokens_roundtrip {e : Expr} {ts : List Token} (h : Lin 1 e ts) (n : Nat) (hn : D 1 ts + 10 ≤ n) :
    parseTokens Variant.fixed n ts = .tree (exprProgram e) := by
  obtain ⟨F, C⟩ := lin_claim h
  obtain ⟨m, rfl⟩ : ∃ m, n = m + 8 := ⟨n - 8, by omega⟩
  have hpk := peek_plain F.ne F.plain []
  rw [List.append_nil] at hpk
  unfold parseTokens parseAST
  have hinit : initState tokenOps (m + 8) ts = .ok () (S none ts false) := by
    unfold initState
    have : fetch tokenOps (m + 7 + 1) ts = .ok (peekOf ts) ts.tail := fetch_tok (m + 7) ts hpk.2.2
    rw [this]
    simp [S, lines_eq, findLineIdx, findLineIdxAux]
  rw [hinit]
  simp only
  -- the chain program → programLoop → execBlock → execLoop → statement
  have hstmt : parse Variant.fixed tokenOps (m + 2) .statement (S none ts false) = .ok (.expr e) (Send ts []) :=
    statement_expr h none (m + 1) (by omega)
  have hIn := first_not ts F [cTypeInputW] (by decide)
  have hCa := first_not ts F [cTypeCatchErrorW] (by decide)
  have hIm := first_not ts F [cTypeImportW] (by decide)
  have hu : ∀ p1, (unsetFlag : PM (List Token) Unit) (S p1 ts false) = .ok () (S p1 ts false) := fun _ => rfl
  have hu2 : (unsetFlag : PM (List Token) Unit) (Send ts []) = .ok () { (Send ts []) with flag := false } := rfl
  -- execLoop in the statement state, after the statement: the block has ended
  have hloop2 : parse Variant.fixed tokenOps (m + 2) (.execLoop 0 .stmt [] [.expr e] []) (Send ts [])
      = .ok (.mk [] (some [.expr e]) []) (Send ts []) := by
    show pExecLoop Variant.fixed tokenOps (m + 1) _ 0 .stmt [] [.expr e] [] _ = _
    unfold pExecLoop
    simp [Bind.bind, PM.bind, getS, blockCond_end, Pure.pure, PM.pure]
  have hloop1 : parse Variant.fixed tokenOps (m + 3) (.execLoop 0 .stmt [] [] []) (S none ts false)
      = .ok (.mk [] (some [.expr e]) []) (Send ts []) := by
    show pExecLoop Variant.fixed tokenOps (m + 2) _ 0 .stmt [] [] [] _ = _
    unfold pExecLoop
    simp only [Bind.bind, PM.bind, getS, blockCond_start ts F, if_true, hu]
    rw [tryConsume_miss (m + 2) _ none ts false (Or.inr hCa.1) hCa.2]
    simp only [PM.bind, hstmt, List.nil_append, hloop2]
  have hloop0 : parse Variant.fixed tokenOps (m + 4) (.execLoop 0 .input [] [] []) (S none ts false)
      = .ok (.mk [] (some [.expr e]) []) (Send ts []) := by
    show pExecLoop Variant.fixed tokenOps (m + 3) _ 0 .input [] [] [] _ = _
    unfold pExecLoop
    simp only [Bind.bind, PM.bind, getS, blockCond_start ts F, if_true]
    rw [tryConsume_miss (m + 3) _ none ts false (Or.inr hIn.1) hIn.2]
    simp only [PM.bind, hloop1]
  have hexec : parse Variant.fixed tokenOps (m + 5) (.execBlock 0) (S none ts false)
      = .ok (.mk [] (some [.expr e]) []) (Send ts []) := hloop0
  have hpl2 : parse Variant.fixed tokenOps (m + 5) (.programLoop 0 true [] (some (.mk [] (some [.expr e]) []))) (Send ts [])
      = .ok (exprProgram e) (Send ts []) := by
    show pProgramLoop tokenOps (m + 4) _ 0 true [] _ _ = _
    unfold pProgramLoop
    simp [Bind.bind, PM.bind, getS, blockCond_end, Pure.pure, PM.pure, exprProgram]
  have hpl1 : parse Variant.fixed tokenOps (m + 6) (.programLoop 0 true [] none) (S none ts false)
      = .ok (exprProgram e) (Send ts []) := by
    show pProgramLoop tokenOps (m + 5) _ 0 true [] none _ = _
    unfold pProgramLoop
    simp only [Bind.bind, PM.bind, getS, blockCond_start ts F, if_true, hu, hexec, hpl2]
  have hpl0 : parse Variant.fixed tokenOps (m + 7) (.programLoop 0 false [] none) (S none ts false)
      = .ok (exprProgram e) (Send ts []) := by
    show pProgramLoop tokenOps (m + 6) _ 0 false [] none _ = _
    unfold pProgramLoop
    simp only [Bind.bind, PM.bind, getS, blockCond_start ts F, if_true, hu, Bool.false_eq_true, if_false]
    rw [tryConsume_miss (m + 6) _ none ts false (Or.inr hIm.1) hIm.2]
    simp only [PM.bind, hpl1]
  have hprog : parse Variant.fixed tokenOps (m + 8) .program (S none ts false) = .ok (exprProgram e) (Send ts []) := by
    show pProgram tokenOps _ _ = _
    unfold pProgram
    have hpi : peekIndentOf tokenOps (S none ts false) = 0 := by simp [peekIndentOf, S, lines_eq]
    simp only [Bind.bind, PM.bind, getS, hpi]
    exact hpl0
  rw [hprog]
  simp [Send, S, peekOf, eofTok]

end ZnVerif.Proofs.Roundtrip
