/-
Helper lemmas for C19 (JSON), reference codec: strings in every spelling, the number automaton, the mutual induction
`rt_value / rt_tail / rt_mtail` (the parser reads back a printed value and stops right after it), the fuel bound
`size_le_length`, `refParse_refPrint`; the repository's encoder writes what the reference printer writes in Go's style
(`write_value`, `write_nonfinite`).  Core Lean only.
-/
import ZnVerif.Model.Json
namespace ZnVerif.Proofs.Json
open ZnVerif.Model.Json

/-! ### white space -/

theorem skipWs_ws_append (w s : Text) (h : w.all isWs = true) : skipWs (w ++ s) = skipWs s := by
  induction w with
  | nil => rfl
  | cons c w ih =>
    simp only [List.all_cons, Bool.and_eq_true] at h
    simp [skipWs, h.1, ih h.2]

theorem skipWs_cons (c : Nat) (r : Text) (h : isWs c = false) : skipWs (c :: r) = c :: r := by
  simp [skipWs, h]

/-! ### hex digits -/

theorem hexVal_hexChar (up : Bool) (d : Nat) (h : d < 16) : hexVal (hexChar up d) = some d := by
  unfold hexChar hexVal
  cases up <;> simp <;> split <;> (try split) <;> (try split) <;> (try split) <;> simp <;> omega

theorem hex4?_hex4 (up : Bool) (n : Nat) (r : Text) (h : n < 65536) : hex4? (hex4 up n ++ r) = some (n, r) := by
  simp only [hex4, List.cons_append, List.nil_append, hex4?]
  rw [hexVal_hexChar up _ (Nat.mod_lt _ (by decide)), hexVal_hexChar up _ (Nat.mod_lt _ (by decide)),
    hexVal_hexChar up _ (Nat.mod_lt _ (by decide)), hexVal_hexChar up _ (Nat.mod_lt _ (by decide))]
  simp only [Option.some.injEq, Prod.mk.injEq, and_true]
  omega

/-! ### strings -/

theorem unShort_shortCode (c x : Nat) (h : shortCode c = some x) : x ≠ 0x75 ∧ unShort x = some c := by
  unfold shortCode at h
  repeat' split at h
  all_goals first | (cases h; subst_vars; decide) | simp at h

theorem escChar_ne_nil (f : EscForm) (c : Nat) : 1 ≤ (escChar f c).length := by
  unfold escChar
  cases f with
  | lit => simp
  | short => cases shortCode c <;> simp
  | uni up => simp only []; split <;> simp [hex4]

theorem parseStrBody_esc_lit (c : Nat) (hf : formOk c .lit = true) (k : Nat) (rest acc : Text) :
    parseStrBody (k + 1) (escChar .lit c ++ rest) acc = parseStrBody k rest (c :: acc) := by
  simp only [formOk, decide_eq_true_eq] at hf
  simp only [escChar, List.cons_append, List.nil_append, parseStrBody]
  have h1 : ¬ c = 0x22 := hf.2.1
  have h2 : ¬ c = 0x5C := hf.2.2
  have h3 : ¬ c < 0x20 := by omega
  simp [h1, h2, h3]

theorem parseStrBody_esc_short (c : Nat) (hf : formOk c .short = true) (k : Nat) (rest acc : Text) :
    parseStrBody (k + 1) (escChar .short c ++ rest) acc = parseStrBody k rest (c :: acc) := by
  simp only [formOk, Option.isSome_iff_exists] at hf
  obtain ⟨x, hx⟩ := hf
  obtain ⟨hne, hun⟩ := unShort_shortCode c x hx
  simp only [escChar, hx, List.cons_append, List.nil_append, parseStrBody]
  simp [hne, hun]

theorem parseStrBody_esc_bmp (up : Bool) (c : Nat) (hb : c < 0x10000) (hns : ¬ (0xD800 ≤ c ∧ c < 0xE000))
    (k : Nat) (rest acc : Text) :
    parseStrBody (k + 1) (escChar (.uni up) c ++ rest) acc = parseStrBody k rest (c :: acc) := by
  simp only [escChar, hb, if_true, List.cons_append, parseStrBody]
  simp only [show ¬ (0x5C = 0x22) by decide, if_false, hex4?_hex4 up c rest hb]
  simp [isSurrogate, hns]

theorem getu4_hex4 (up : Bool) (n : Nat) (rest : Text) (h : n < 65536) :
    getu4 (0x5C :: 0x75 :: (hex4 up n ++ rest)) = some (n, rest) := by
  simp only [getu4, and_self, if_true, hex4?_hex4 up _ _ h]

theorem parseStrBody_esc_astral (up : Bool) (c : Nat) (hb : ¬ c < 0x10000) (hlt : c < 0x110000)
    (k : Nat) (rest acc : Text) :
    parseStrBody (k + 1) (escChar (.uni up) c ++ rest) acc = parseStrBody k rest (c :: acc) := by
  simp only [escChar, hb, if_false, List.cons_append, List.append_assoc, parseStrBody]
  have hhi : 0xD800 + (c - 0x10000) / 0x400 < 65536 := by omega
  have hlo : 0xDC00 + (c - 0x10000) % 0x400 < 65536 := by omega
  simp only [show ¬ (0x5C = 0x22) by decide, if_false, if_true, hex4?_hex4 up _ _ hhi]
  have hs : isSurrogate (0xD800 + (c - 0x10000) / 0x400) = true := by
    simp only [isSurrogate, decide_eq_true_eq]; omega
  simp only [hs, if_true]
  rw [getu4_hex4 up _ _ hlo]
  have hc : (0xD800 + (c - 0x10000) / 0x400 < 0xDC00 ∧ 0xDC00 ≤ 0xDC00 + (c - 0x10000) % 0x400
      ∧ 0xDC00 + (c - 0x10000) % 0x400 < 0xE000) := by omega
  simp only [hc, and_self, if_true]
  have he : (0xD800 + (c - 0x10000) / 0x400 - 0xD800) * 0x400 + (0xDC00 + (c - 0x10000) % 0x400 - 0xDC00) + 0x10000 = c := by
    omega
  rw [he]

/-- one character, in any allowed spelling, is read back as itself in one step -/
theorem parseStrBody_esc (f : EscForm) (c : Nat) (hf : formOk c f = true) (k : Nat) (rest acc : Text) :
    parseStrBody (k + 1) (escChar f c ++ rest) acc = parseStrBody k rest (c :: acc) := by
  cases f with
  | lit => exact parseStrBody_esc_lit c hf k rest acc
  | short => exact parseStrBody_esc_short c hf k rest acc
  | uni up =>
    simp only [formOk, Bool.and_eq_true, decide_eq_true_eq, Bool.not_eq_true', isSurrogate, decide_eq_false_iff_not] at hf
    by_cases hb : c < 0x10000
    · exact parseStrBody_esc_bmp up c hb hf.2 k rest acc
    · exact parseStrBody_esc_astral up c hb hf.1 k rest acc

theorem printStrBody_length (st : Style) (s : Text) : s.length ≤ (printStrBody st s).length := by
  induction s with
  | nil => simp [printStrBody]
  | cons c s ih =>
    have := escChar_ne_nil (st.esc c) c
    simp only [printStrBody, List.length_append, List.length_cons]
    omega

theorem parseStrBody_print (st : Style) (hst : ∀ c, formOk c (st.esc c) = true) (rest : Text) :
    ∀ (s acc : Text) (k : Nat), s.length + 1 ≤ k →
      parseStrBody k (printStrBody st s ++ 0x22 :: rest) acc = .ok (acc.reverse ++ s, rest) := by
  intro s
  induction s with
  | nil =>
    intro acc k hk
    obtain ⟨k, rfl⟩ : ∃ k', k = k' + 1 := ⟨k - 1, by omega⟩
    simp [printStrBody, parseStrBody]
  | cons c s ih =>
    intro acc k hk
    obtain ⟨k, rfl⟩ : ∃ k', k = k' + 1 := ⟨k - 1, by omega⟩
    simp only [printStrBody, List.append_assoc]
    rw [parseStrBody_esc _ _ (hst c), ih (c :: acc) k (by simp at hk ⊢; omega)]
    simp

theorem parseStr_print (st : Style) (hst : ∀ c, formOk c (st.esc c) = true) (s rest : Text) :
    parseStr (printStrBody st s ++ 0x22 :: rest) = .ok (s, rest) := by
  unfold parseStr
  rw [parseStrBody_print st hst rest s [] _ (by
    have := printStrBody_length st s
    simp only [List.length_append, List.length_cons]; omega)]
  simp

/-! ### numbers -/

theorem numStep_alive (s : NumState) (c : Nat) (h : numStep s c ≠ .dead) : isNumChar c = true := by
  cases s <;> simp only [numStep] at h <;> (repeat' split at h) <;> simp_all [isNumChar, isDigit] <;> omega

theorem numFold_dead (t : Text) : t.foldl numStep .dead = .dead := by
  induction t with
  | nil => rfl
  | cons c t ih => simpa [numStep] using ih

theorem numFold_all (t : Text) : ∀ s, numAccepting (t.foldl numStep s) = true → t.all isNumChar = true := by
  induction t with
  | nil => intro _ _; rfl
  | cons c t ih =>
    intro s h
    simp only [List.foldl_cons] at h
    by_cases hd : numStep s c = .dead
    · rw [hd, numFold_dead] at h; simp [numAccepting] at h
    · simp [numStep_alive s c hd, ih _ h]

theorem isJsonNumber_all (t : Text) (h : isJsonNumber t = true) : t.all isNumChar = true :=
  numFold_all t _ h

/-- a number starts with `-` or a digit -/
theorem isJsonNumber_head (t : Text) (h : isJsonNumber t = true) :
    ∃ c r, t = c :: r ∧ (c = 0x2D ∨ isDigit c = true) := by
  cases t with
  | nil => simp [isJsonNumber, numAccepting] at h
  | cons c r =>
    refine ⟨c, r, rfl, ?_⟩
    simp only [isJsonNumber, List.foldl_cons] at h
    by_cases hd : numStep .start c = .dead
    · rw [hd, numFold_dead] at h; simp [numAccepting] at h
    · simp only [numStep] at hd
      repeat' split at hd
      all_goals simp_all [isDigit]

/-- the text after a value never continues a number: empty, or a character outside the number alphabet -/
def restOk (rest : Text) : Prop := ∀ c r, rest = c :: r → isNumChar c = false

theorem takeWhile_append_stop (p : Nat → Bool) (l rest : Text) (hl : l.all p = true)
    (hr : ∀ c r, rest = c :: r → p c = false) : (l ++ rest).takeWhile p = l ∧ (l ++ rest).dropWhile p = rest := by
  induction l with
  | nil =>
    cases rest with
    | nil => simp
    | cons c r => simp [hr c r rfl]
  | cons a l ih =>
    simp only [List.all_cons, Bool.and_eq_true] at hl
    simp [hl.1, ih hl.2]

theorem scanNumber_fmt {ν : Type} (C : NumCodec ν) (hC : C.Lawful) (x : ν) (hx : C.isFinite x = true) (rest : Text)
    (hr : restOk rest) : scanNumber C (C.fmtNum x ++ rest) = .ok (.num x, rest) := by
  have htok := hC.token x hx
  obtain ⟨h1, h2⟩ := takeWhile_append_stop isNumChar (C.fmtNum x) rest (isJsonNumber_all _ htok) hr
  simp [scanNumber, h1, h2, htok, hC.roundtrip x hx]

variable {ν : Type}

/-! ### the parser on printed values -/

/-- first characters of a JSON value -/
def isValueStart (c : Nat) : Bool :=
  decide (c = 0x5B) || decide (c = 0x7B) || decide (c = 0x22) || decide (c = 0x74) || decide (c = 0x66) || decide (c = 0x6E)
    || decide (c = 0x2D) || isDigit c

theorem valueStart_not_ws (c : Nat) (h : isValueStart c = true) : isWs c = false ∧ c ≠ 0x5D ∧ c ≠ 0x7D := by
  simp only [isValueStart, isDigit, Bool.or_eq_true, decide_eq_true_eq] at h
  simp only [isWs, Bool.or_eq_false_iff, decide_eq_false_iff_not]
  omega

theorem print_head (C : NumCodec ν) (hC : C.Lawful) (st : Style) (p : PV ν) (hp : p.finite C = true) :
    ∃ c t, print C st p = c :: t ∧ isValueStart c = true := by
  cases p with
  | null => exact ⟨_, _, by rw [print], by decide⟩
  | bool b => cases b <;> exact ⟨_, _, by rw [print], by decide⟩
  | num x =>
    obtain ⟨c, r, h, hc⟩ := isJsonNumber_head _ (hC.token x (by simpa [PV.finite] using hp))
    refine ⟨c, r, by simp [print, h], ?_⟩
    rcases hc with hc | hc <;> simp [isValueStart, hc]
  | str s => exact ⟨_, _, by rw [print, printStr]; rfl, by decide⟩
  | arr xs => cases xs <;> exact ⟨_, _, by rw [print]; rfl, by decide⟩
  | obj kvs =>
    cases kvs with
    | nil => exact ⟨_, _, by rw [print]; rfl, by decide⟩
    | cons kv kvs => obtain ⟨k, v⟩ := kv; exact ⟨_, _, by rw [print]; rfl, by decide⟩

theorem parse_skip (C : NumCodec ν) (w : Text) (hw : w.all isWs = true) (f : Nat) (m : Mode ν) (d : Nat) (s : Text) :
    parse C f m d (w ++ s) = parse C f m d s := by
  cases f with
  | zero => simp [parse]
  | succ f => cases m <;> simp only [parse, skipWs_ws_append w s hw]

theorem parseKey_print (st : Style) (hst : StyleOk st) (w : Text) (hw : w.all isWs = true) (k rest : Text) :
    parseKey (w ++ (printStr st k ++ (st.beforeColon ++ 0x3A :: rest))) = .ok (k, rest) := by
  unfold parseKey
  rw [skipWs_ws_append _ _ hw]
  simp only [printStr, List.cons_append, List.append_assoc, List.nil_append]
  rw [skipWs_cons _ _ (by decide)]
  simp only [if_true, parseStr_print st hst.esc]
  rw [skipWs_ws_append _ _ hst.beforeColon, skipWs_cons _ _ (by decide)]
  simp


theorem restOk_nil : restOk [] := by intro c r h; cases h

theorem restOk_cons (c : Nat) (s : Text) (h : isNumChar c = false) : restOk (c :: s) := by
  intro c' r' e; cases e; exact h

theorem isWs_not_num (c : Nat) (h : isWs c = true) : isNumChar c = false := by
  simp only [isWs, Bool.or_eq_true, decide_eq_true_eq] at h
  simp only [isNumChar, isDigit, Bool.or_eq_false_iff, decide_eq_false_iff_not]
  omega

theorem restOk_ws_append (w s : Text) (hw : w.all isWs = true) (hs : restOk s) : restOk (w ++ s) := by
  cases w with
  | nil => exact hs
  | cons a w =>
    simp only [List.all_cons, Bool.and_eq_true] at hw
    exact restOk_cons _ _ (isWs_not_num a hw.1)

theorem printTail_restOk (C : NumCodec ν) (st : Style) (hst : StyleOk st) (xs : List (PV ν)) (close : Nat)
    (hclose : isNumChar close = false) (rest : Text) :
    restOk (printTail C st xs ++ (st.beforeClose ++ close :: rest)) := by
  cases xs with
  | nil => simp only [printTail, List.nil_append]; exact restOk_ws_append _ _ hst.beforeClose (restOk_cons _ _ hclose)
  | cons x xs =>
    simp only [printTail, List.append_assoc]
    exact restOk_ws_append _ _ hst.beforeComma (restOk_cons _ _ (by decide))

theorem printMTail_restOk (C : NumCodec ν) (st : Style) (hst : StyleOk st) (kvs : List (Text × PV ν)) (close : Nat)
    (hclose : isNumChar close = false) (rest : Text) :
    restOk (printMTail C st kvs ++ (st.beforeClose ++ close :: rest)) := by
  cases kvs with
  | nil => simp only [printMTail, List.nil_append]; exact restOk_ws_append _ _ hst.beforeClose (restOk_cons _ _ hclose)
  | cons kv kvs =>
    obtain ⟨k, v⟩ := kv
    simp only [printMTail, List.append_assoc]
    exact restOk_ws_append _ _ hst.beforeComma (restOk_cons _ _ (by decide))

theorem succ_of_pos {n : Nat} (h : 1 ≤ n) : ∃ m, n = m + 1 := ⟨n - 1, by omega⟩

theorem stripPrefix_append (l s : Text) : stripPrefix l (l ++ s) = some s := by
  induction l with
  | nil => cases s <;> rfl
  | cons a l ih => simp [stripPrefix, ih]

theorem num_start_facts (c : Nat) (hc : c = 0x2D ∨ isDigit c = true) :
    ¬ c = 0x5B ∧ ¬ c = 0x7B ∧ ¬ c = 0x22 ∧ ¬ c = 0x74 ∧ ¬ c = 0x66 ∧ ¬ c = 0x6E := by
  simp only [isDigit, decide_eq_true_eq] at hc
  omega

theorem num_start_ws (c : Nat) (hc : c = 0x2D ∨ isDigit c = true) : isWs c = false := by
  simp only [isDigit, decide_eq_true_eq] at hc
  simp only [isWs, Bool.or_eq_false_iff, decide_eq_false_iff_not]
  omega

mutual
theorem size_pos : ∀ p : PV ν, 1 ≤ p.size
  | .arr xs => by simp [PV.size]
  | .obj kvs => by simp [PV.size]
  | .null => by simp [PV.size]
  | .bool _ => by simp [PV.size]
  | .num _ => by simp [PV.size]
  | .str _ => by simp [PV.size]
theorem sizeL_pos : ∀ xs : List (PV ν), 1 ≤ sizeL xs
  | [] => by simp [sizeL]
  | x :: xs => by have := size_pos x; simp only [sizeL]; omega
theorem sizeM_pos : ∀ kvs : List (Text × PV ν), 1 ≤ sizeM kvs
  | [] => by simp [sizeM]
  | (_, v) :: kvs => by have := size_pos v; simp only [sizeM]; omega
end

mutual
/-- the parser reads back a printed value and stops right after it -/
theorem rt_value (C : NumCodec ν) (hC : C.Lawful) (st : Style) (hst : StyleOk st) :
    ∀ (p : PV ν) (f d : Nat) (rest : Text), p.finite C = true → p.size ≤ f → p.depth ≤ d → restOk rest →
      parse C f .value d (print C st p ++ rest) = .ok (p, rest)
  | .null, f, d, rest, _, hf, _, _ => by
    obtain ⟨f, rfl⟩ := succ_of_pos (n := f) (by simpa [PV.size] using hf)
    simp only [print, List.cons_append, List.nil_append, parse]
    rw [skipWs_cons _ _ (by decide)]
    have := stripPrefix_append [0x75, 0x6C, 0x6C] rest
    simp only [List.cons_append, List.nil_append] at this
    simp [this]
  | .bool true, f, d, rest, _, hf, _, _ => by
    obtain ⟨f, rfl⟩ := succ_of_pos (n := f) (by simpa [PV.size] using hf)
    simp only [print, List.cons_append, List.nil_append, parse]
    rw [skipWs_cons _ _ (by decide)]
    have := stripPrefix_append [0x72, 0x75, 0x65] rest
    simp only [List.cons_append, List.nil_append] at this
    simp [this]
  | .bool false, f, d, rest, _, hf, _, _ => by
    obtain ⟨f, rfl⟩ := succ_of_pos (n := f) (by simpa [PV.size] using hf)
    simp only [print, List.cons_append, List.nil_append, parse]
    rw [skipWs_cons _ _ (by decide)]
    have := stripPrefix_append [0x61, 0x6C, 0x73, 0x65] rest
    simp only [List.cons_append, List.nil_append] at this
    simp [this]
  | .num x, f, d, rest, hfin, hf, _, hr => by
    obtain ⟨f, rfl⟩ := succ_of_pos (n := f) (by simpa [PV.size] using hf)
    have hx : C.isFinite x = true := by simpa [PV.finite] using hfin
    obtain ⟨c, t, hct, hc⟩ := isJsonNumber_head _ (hC.token x hx)
    have hscan := scanNumber_fmt C hC x hx rest hr
    simp only [print, parse]
    rw [hct] at hscan ⊢
    have hws := num_start_ws c hc
    simp only [List.cons_append] at hscan ⊢
    rw [skipWs_cons _ _ hws]
    obtain ⟨h1, h2, h3, h4, h5, h6⟩ := num_start_facts c hc
    simp only [h1, h2, h3, h4, h5, h6, if_false, hc, if_true, hscan]
  | .str s, f, d, rest, _, hf, _, _ => by
    obtain ⟨f, rfl⟩ := succ_of_pos (n := f) (by simpa [PV.size] using hf)
    simp only [print, printStr, List.cons_append, List.append_assoc, List.nil_append, parse]
    rw [skipWs_cons _ _ (by decide)]
    simp [parseStr_print st hst.esc]
  | .arr [], f, d, rest, _, hf, hd, _ => by
    obtain ⟨f, rfl⟩ := succ_of_pos (n := f) (by simp [PV.size, sizeL] at hf; omega)
    obtain ⟨d, rfl⟩ := succ_of_pos (n := d) (by simpa [PV.depth, depthL] using hd)
    simp only [print, List.cons_append, List.append_assoc, List.nil_append, parse]
    rw [skipWs_cons _ _ (by decide)]
    simp only [if_true, Nat.succ_ne_zero, if_false]
    rw [skipWs_ws_append _ _ hst.inEmpty, skipWs_cons _ _ (by decide)]
    simp
  | .arr (x :: xs), f, d, rest, hfin, hf, hd, hr => by
    simp only [PV.size, sizeL] at hf
    simp only [PV.depth, depthL] at hd
    simp only [PV.finite, finiteL, Bool.and_eq_true] at hfin
    obtain ⟨f, rfl⟩ := succ_of_pos (n := f) (by omega)
    obtain ⟨d, rfl⟩ := succ_of_pos (n := d) (by omega)
    obtain ⟨c, t, hct, hc⟩ := print_head C hC st x hfin.1
    obtain ⟨hws, h5d, _⟩ := valueStart_not_ws c hc
    have ih1 := rt_value C hC st hst x f d (printTail C st xs ++ (st.beforeClose ++ 0x5D :: rest)) hfin.1
      (by omega) (by omega) (printTail_restOk C st hst xs 0x5D (by decide) rest)
    have ih2 := rt_tail C hC st hst xs [x] f d rest hfin.2 (by omega) (by omega)
    simp only [print, List.cons_append, List.append_assoc, List.nil_append, parse]
    rw [skipWs_cons _ _ (by decide)]
    simp only [if_true, Nat.add_one_ne_zero, if_false, Nat.add_sub_cancel]
    rw [skipWs_ws_append _ _ hst.afterOpen, parse_skip C _ hst.afterOpen, ih1, hct]
    simp only [List.cons_append]
    rw [skipWs_cons _ _ hws]
    simp only [h5d, if_false]
    exact ih2
  | .obj [], f, d, rest, _, hf, hd, _ => by
    obtain ⟨f, rfl⟩ := succ_of_pos (n := f) (by simp [PV.size, sizeM] at hf; omega)
    obtain ⟨d, rfl⟩ := succ_of_pos (n := d) (by simpa [PV.depth, depthM] using hd)
    simp only [print, List.cons_append, List.append_assoc, List.nil_append, parse]
    rw [skipWs_cons _ _ (by decide)]
    simp only [show ¬ (0x7B = 0x5B) by decide, if_true, Nat.add_one_ne_zero, if_false]
    rw [skipWs_ws_append _ _ hst.inEmpty, skipWs_cons _ _ (by decide)]
    simp
  | .obj ((k, v) :: kvs), f, d, rest, hfin, hf, hd, hr => by
    simp only [PV.size, sizeM] at hf
    simp only [PV.depth, depthM] at hd
    simp only [PV.finite, finiteM, Bool.and_eq_true] at hfin
    obtain ⟨f, rfl⟩ := succ_of_pos (n := f) (by omega)
    obtain ⟨d, rfl⟩ := succ_of_pos (n := d) (by omega)
    have ih1 := rt_value C hC st hst v f d (printMTail C st kvs ++ (st.beforeClose ++ 0x7D :: rest)) hfin.1
      (by omega) (by omega) (printMTail_restOk C st hst kvs 0x7D (by decide) rest)
    have ih2 := rt_mtail C hC st hst kvs [(k, v)] f d rest hfin.2 (by omega) (by omega)
    simp only [print, List.cons_append, List.append_assoc, List.nil_append, parse]
    rw [skipWs_cons _ _ (by decide)]
    simp only [show ¬ (0x7B = 0x5B) by decide, if_true, Nat.add_one_ne_zero, if_false, Nat.add_sub_cancel]
    rw [skipWs_ws_append _ _ hst.afterOpen, parseKey_print st hst _ hst.afterOpen]
    simp only [printStr, List.cons_append]
    rw [skipWs_cons _ _ (by decide)]
    simp only [show ¬ (0x22 = 0x7D) by decide, if_false]
    rw [parse_skip C _ hst.afterColon, ih1]
    exact ih2
/-- … the remaining elements of a list, up to and including `]` -/
theorem rt_tail (C : NumCodec ν) (hC : C.Lawful) (st : Style) (hst : StyleOk st) :
    ∀ (xs acc : List (PV ν)) (f d : Nat) (rest : Text), finiteL C xs = true → sizeL xs ≤ f → depthL xs ≤ d →
      parse C f (.elems acc) d (printTail C st xs ++ (st.beforeClose ++ 0x5D :: rest)) = .ok (.arr (acc.reverse ++ xs), rest)
  | [], acc, f, d, rest, _, hf, _ => by
    obtain ⟨f, rfl⟩ := succ_of_pos (n := f) (by simpa [sizeL] using hf)
    simp only [printTail, List.nil_append, parse]
    rw [skipWs_ws_append _ _ hst.beforeClose, skipWs_cons _ _ (by decide)]
    simp
  | x :: xs, acc, f, d, rest, hfin, hf, hd => by
    simp only [sizeL] at hf
    simp only [depthL] at hd
    simp only [finiteL, Bool.and_eq_true] at hfin
    have hx := size_pos x
    obtain ⟨f, rfl⟩ := succ_of_pos (n := f) (by omega)
    have ih1 := rt_value C hC st hst x f d (printTail C st xs ++ (st.beforeClose ++ 0x5D :: rest)) hfin.1
      (by have := sizeL_pos xs; omega) (by omega) (printTail_restOk C st hst xs 0x5D (by decide) rest)
    have ih2 := rt_tail C hC st hst xs (x :: acc) f d rest hfin.2 (by omega) (by omega)
    simp only [printTail, List.cons_append, List.append_assoc, parse]
    rw [skipWs_ws_append _ _ hst.beforeComma, skipWs_cons _ _ (by decide)]
    simp only [if_true]
    rw [parse_skip C _ hst.afterComma, ih1]
    simp only []
    rw [ih2]
    simp
/-- … the remaining members of an object, up to and including `}` -/
theorem rt_mtail (C : NumCodec ν) (hC : C.Lawful) (st : Style) (hst : StyleOk st) :
    ∀ (kvs acc : List (Text × PV ν)) (f d : Nat) (rest : Text), finiteM C kvs = true → sizeM kvs ≤ f → depthM kvs ≤ d →
      parse C f (.members acc) d (printMTail C st kvs ++ (st.beforeClose ++ 0x7D :: rest)) = .ok (.obj (acc.reverse ++ kvs), rest)
  | [], acc, f, d, rest, _, hf, _ => by
    obtain ⟨f, rfl⟩ := succ_of_pos (n := f) (by simpa [sizeM] using hf)
    simp only [printMTail, List.nil_append, parse]
    rw [skipWs_ws_append _ _ hst.beforeClose, skipWs_cons _ _ (by decide)]
    simp
  | (k, v) :: kvs, acc, f, d, rest, hfin, hf, hd => by
    simp only [sizeM] at hf
    simp only [depthM] at hd
    simp only [finiteM, Bool.and_eq_true] at hfin
    have hx := size_pos v
    obtain ⟨f, rfl⟩ := succ_of_pos (n := f) (by omega)
    have ih1 := rt_value C hC st hst v f d (printMTail C st kvs ++ (st.beforeClose ++ 0x7D :: rest)) hfin.1
      (by have := sizeM_pos kvs; omega) (by omega) (printMTail_restOk C st hst kvs 0x7D (by decide) rest)
    have ih2 := rt_mtail C hC st hst kvs ((k, v) :: acc) f d rest hfin.2 (by omega) (by omega)
    simp only [printMTail, List.cons_append, List.append_assoc, parse]
    rw [skipWs_ws_append _ _ hst.beforeComma, skipWs_cons _ _ (by decide)]
    simp only [if_true]
    rw [parseKey_print st hst _ hst.afterComma]
    simp only []
    rw [parse_skip C _ hst.afterColon, ih1]
    simp only []
    rw [ih2]
    simp
end


theorem fmtNum_length (C : NumCodec ν) (hC : C.Lawful) (x : ν) (hx : C.isFinite x = true) : 1 ≤ (C.fmtNum x).length := by
  obtain ⟨c, r, h, _⟩ := isJsonNumber_head _ (hC.token x hx)
  simp [h]

mutual
theorem size_le_length (C : NumCodec ν) (hC : C.Lawful) (st : Style) :
    ∀ p : PV ν, p.finite C = true → p.size ≤ (print C st p).length
  | .null, _ => by simp [PV.size, print]
  | .bool true, _ => by simp [PV.size, print]
  | .bool false, _ => by simp [PV.size, print]
  | .num x, h => by simpa [PV.size, print] using fmtNum_length C hC x (by simpa [PV.finite] using h)
  | .str s, _ => by simp [PV.size, print, printStr]
  | .arr [], _ => by simp [PV.size, sizeL, print]
  | .arr (x :: xs), h => by
    simp only [PV.finite, finiteL, Bool.and_eq_true] at h
    have h1 := size_le_length C hC st x h.1
    have h2 := sizeL_le_length C hC st xs h.2
    simp only [PV.size, sizeL, print, List.length_cons, List.length_append, List.length_nil]
    omega
  | .obj [], _ => by simp [PV.size, sizeM, print]
  | .obj ((k, v) :: kvs), h => by
    simp only [PV.finite, finiteM, Bool.and_eq_true] at h
    have h1 := size_le_length C hC st v h.1
    have h2 := sizeM_le_length C hC st kvs h.2
    simp only [PV.size, sizeM, print, List.length_cons, List.length_append, List.length_nil]
    omega
theorem sizeL_le_length (C : NumCodec ν) (hC : C.Lawful) (st : Style) :
    ∀ xs : List (PV ν), finiteL C xs = true → sizeL xs ≤ 1 + (printTail C st xs).length
  | [], _ => by simp [sizeL, printTail]
  | x :: xs, h => by
    simp only [finiteL, Bool.and_eq_true] at h
    have h1 := size_le_length C hC st x h.1
    have h2 := sizeL_le_length C hC st xs h.2
    simp only [sizeL, printTail, List.length_cons, List.length_append]
    omega
theorem sizeM_le_length (C : NumCodec ν) (hC : C.Lawful) (st : Style) :
    ∀ kvs : List (Text × PV ν), finiteM C kvs = true → sizeM kvs ≤ 1 + (printMTail C st kvs).length
  | [], _ => by simp [sizeM, printMTail]
  | (k, v) :: kvs, h => by
    simp only [finiteM, Bool.and_eq_true] at h
    have h1 := size_le_length C hC st v h.1
    have h2 := sizeM_le_length C hC st kvs h.2
    simp only [sizeM, printMTail, List.length_cons, List.length_append]
    omega
end

theorem skipWs_all (w : Text) (hw : w.all isWs = true) : skipWs w = [] := by
  have := skipWs_ws_append w [] hw
  simpa [skipWs] using this

/-- the reference parser reads back what the reference printer writes, in every style -/
theorem refParse_refPrint (C : NumCodec ν) (hC : C.Lawful) (st : Style) (hst : StyleOk st) (p : PV ν)
    (hfin : p.finite C = true) (d : Nat) (hd : p.depth ≤ d) : refParse C d (refPrint C st p) = .ok p := by
  unfold refParse refPrint
  have hsz := size_le_length C hC st p hfin
  rw [List.append_assoc, parse_skip C _ hst.outerLead,
    rt_value C hC st hst p _ d st.outerTrail hfin (by simp only [List.length_append]; omega) hd
      (by simpa using restOk_ws_append st.outerTrail [] hst.outerTrail restOk_nil)]
  simp [skipWs_all _ hst.outerTrail]


/-! ### the repository's encoder writes what the reference printer writes in Go's style -/

theorem goStyle_ok : StyleOk goStyle := by
  refine ⟨?_, rfl, rfl, rfl, rfl, rfl, rfl, rfl, rfl, rfl⟩
  intro c
  simp only [goStyle, goEsc]
  split
  · rename_i h
    rcases h with h | h | h | h | h | h | h <;> subst h <;> decide
  · split
    · rename_i h1 h2
      simp only [formOk, isSurrogate, Bool.and_eq_true, decide_eq_true_eq, Bool.not_eq_true', decide_eq_false_iff_not]
      omega
    · rename_i h1 h2
      simp only [formOk, decide_eq_true_eq]
      omega

mutual
theorem write_value (C : NumCodec ν) : ∀ p : PV ν, p.finite C = true → writePlainValue C p = .ok (print C goStyle p)
  | .null, _ => by simp [writePlainValue, marshalScalar, print]
  | .bool true, _ => by simp [writePlainValue, marshalScalar, print]
  | .bool false, _ => by simp [writePlainValue, marshalScalar, print]
  | .num x, h => by
    have hx : C.isFinite x = true := by simpa [PV.finite] using h
    simp [writePlainValue, marshalScalar, print, hx]
  | .str s, _ => by simp [writePlainValue, marshalScalar, print]
  | .arr [], _ => by simp [writePlainValue, writeElems, print, goStyle]
  | .arr (x :: xs), h => by
    simp only [PV.finite, finiteL, Bool.and_eq_true] at h
    simp [writePlainValue, writeElems, write_value C x h.1, write_tail C xs h.2, print, goStyle]
  | .obj [], _ => by simp [writePlainValue, writeMembers, print, goStyle]
  | .obj ((k, v) :: kvs), h => by
    simp only [PV.finite, finiteM, Bool.and_eq_true] at h
    simp [writePlainValue, writeMembers, write_value C v h.1, write_mtail C kvs h.2, print, goStyle]
theorem write_tail (C : NumCodec ν) : ∀ xs : List (PV ν), finiteL C xs = true →
    writeElems C xs false = .ok (printTail C goStyle xs)
  | [], _ => by simp [writeElems, printTail]
  | x :: xs, h => by
    simp only [finiteL, Bool.and_eq_true] at h
    simp [writeElems, write_value C x h.1, write_tail C xs h.2, printTail, goStyle]
theorem write_mtail (C : NumCodec ν) : ∀ kvs : List (Text × PV ν), finiteM C kvs = true →
    writeMembers C kvs false = .ok (printMTail C goStyle kvs)
  | [], _ => by simp [writeMembers, printMTail]
  | (k, v) :: kvs, h => by
    simp only [finiteM, Bool.and_eq_true] at h
    simp [writeMembers, write_value C v h.1, write_mtail C kvs h.2, printMTail, goStyle]
end

mutual
theorem write_nonfinite (C : NumCodec ν) : ∀ p : PV ν, p.finite C = false → writePlainValue C p = .error .unsupportedValue
  | .null, h => by simp [PV.finite] at h
  | .bool _, h => by simp [PV.finite] at h
  | .str _, h => by simp [PV.finite] at h
  | .num x, h => by
    have hx : C.isFinite x = false := by simpa [PV.finite] using h
    simp [writePlainValue, marshalScalar, hx]
  | .arr xs, h => by
    simp only [PV.finite] at h
    simp [writePlainValue, write_nonfiniteL C xs h true]
  | .obj kvs, h => by
    simp only [PV.finite] at h
    simp [writePlainValue, write_nonfiniteM C kvs h true]
theorem write_nonfiniteL (C : NumCodec ν) : ∀ xs : List (PV ν), finiteL C xs = false →
    ∀ first, writeElems C xs first = .error .unsupportedValue
  | [], h, _ => by simp [finiteL] at h
  | x :: xs, h, first => by
    simp only [finiteL, Bool.and_eq_false_iff] at h
    cases hx : x.finite C with
    | false => simp [writeElems, write_nonfinite C x hx]
    | true =>
      have hxs : finiteL C xs = false := by
        rcases h with h | h
        · rw [hx] at h; cases h
        · exact h
      simp [writeElems, write_value C x hx, write_nonfiniteL C xs hxs false]
theorem write_nonfiniteM (C : NumCodec ν) : ∀ kvs : List (Text × PV ν), finiteM C kvs = false →
    ∀ first, writeMembers C kvs first = .error .unsupportedValue
  | [], h, _ => by simp [finiteM] at h
  | (k, v) :: kvs, h, first => by
    simp only [finiteM, Bool.and_eq_false_iff] at h
    cases hx : v.finite C with
    | false => simp [writeMembers, write_nonfinite C v hx]
    | true =>
      have hxs : finiteM C kvs = false := by
        rcases h with h | h
        · rw [hx] at h; cases h
        · exact h
      simp [writeMembers, write_value C v hx, write_nonfiniteM C kvs hxs false]
end

end ZnVerif.Proofs.Json
