/-
C02 refinement: the statements without sub-blocks (输出, expression statements, assignment, declaration,
the display call, 结束循环, 继续循环, the empty statement).
-/
import ZnVerif.Proofs.StmtRefineOps
set_option linter.unusedSectionVars false
set_option linter.unusedSimpArgs false

namespace ZnVerif.Proofs
open ZnVerif.Model ZnVerif.Spec

variable {ν : Type} [NumOps ν]

/-- statement-level simulation: value / returned / loop-signal relations at scope depth `D` over levels `ds` -/
abbrev SSim (ω : Addr → Option (SVal ν)) (mid : Int) (D : Int) (ds : List Int) (h0 : Array (Cell ν))
    (s : VM ν) (σ : SState ν) (m : M ν Addr) (m' : SM ν (SVal ν)) : Prop :=
  SimS (VRel ω mid D ds h0 (PVal ω)) (TRel ω mid D ds h0) (BRel ω mid D ds h0) s σ m m'

def NoT {α : Type} : VM ν → SState ν → α → SVal ν → Prop := fun _ _ _ _ => False
def NoB : VM ν → SState ν → Prop := fun _ _ => False

/-- after an expression: the invariant still holds and the result cell reads within `k` -/
def ExprV (ω : Addr → Option (SVal ν)) (mid : Int) (D : Int) (ds : List Int) (h0 : Array (Cell ν)) (k : Nat) :
    VM ν → SState ν → Addr → SVal ν → Prop :=
  fun s σ a v => Inv ω mid D ds h0 s σ ∧ contentW ω k s.heap a = some v

section
variable {ω : Addr → Option (SVal ν)} {mid : Int} {D : Int} {ds : List Int} {h0 : Array (Cell ν)} {s : VM ν} {σ : SState ν}

theorem simS_expr_of {Q : VM ν → Addr → SVal ν → Prop} {k n m : Nat} {e : Expr} (hinv : Inv ω mid D ds h0 s σ)
    (h : Sim 0 Q s σ (evalExpr m e) (evalE m e)) (hQ : ∀ s a v, Q s a v → contentW ω k s.heap a = some v)
    (hle : m ≤ n) (he : PureExpr e) :
    SimS (ExprV ω mid D ds h0 k) NoT NoB s σ (evalExpr n e) (evalE m e) :=
  simS_weaken (fun _ _ _ _ ⟨e1, hF, hq⟩ => by subst e1; exact ⟨hinv.frame hF, hQ _ _ _ hq⟩) (fun _ _ _ _ h => h) (fun _ _ h => h)
    (simS_of_sim (T := NoT) (B := NoB) h hle he)

theorem simS_expr_any {n m : Nat} {e : Expr} (hinv : Inv ω mid D ds h0 s σ) (hle : m ≤ n) (he : PureExpr e) :
    SimS (ExprV ω mid D ds h0 m) NoT NoB s σ (evalExpr n e) (evalE m e) :=
  simS_expr_of hinv (sim_eval ω 0 m e s σ he hinv.1.envRel) (fun _ _ _ h => h) hle he

theorem simS_expr_top {n m : Nat} {e : Expr} (hinv : Inv ω mid D ds h0 s σ) (hle : m ≤ n) (he : PureExpr e) (ht : TopScalar e) :
    SimS (ExprV ω mid D ds h0 1) NoT NoB s σ (evalExpr n e) (evalE m e) :=
  simS_expr_of hinv (sim_eval_top ω m e s σ he ht hinv.1.envRel) (fun _ _ _ h => h) hle he

theorem simS_expr_target {n m : Nat} {e : Expr} (hinv : Inv ω mid D ds h0 s σ) (hle : m ≤ n) (he : IterTarget e) :
    SimS (ExprV ω mid D ds h0 2) NoT NoB s σ (evalExpr n e) (evalE m e) :=
  simS_expr_of hinv (sim_eval_target ω m e s σ he hinv.1.envRel) (fun _ _ _ h => h) hle he.pure

/-- every statement first records its line in the top frame -/
theorem sSim_line {α α'} {V : VM ν → SState ν → α → α' → Prop} {T B} (l : Nat) (K : M ν α) (m' : SM ν α')
    (hinv : Inv ω mid D ds h0 s σ)
    (h : ∀ s0, Inv ω mid D ds h0 s0 σ → SimS V T B s0 σ K m') :
    SimS V T B s σ (setTopFrame (fun fr => { fr with line := l, started := true }) >>= fun _ => K) m' := by
  refine simS_step (m2 := K) (setTopFrame_bind _ _ s) (h _ ⟨hinv.1.topS _ (fun _ => rfl), ?_, ?_⟩)
  · rw [topS_heap]; exact hinv.2.1
  · rw [slot_topS_line]; exact hinv.2.2

theorem sim_ret {n m : Nat} (hle : m ≤ n) (ln : Nat) (e : Expr) (he : PureExpr e) (hinv : Inv ω mid D ds h0 s σ) :
    SSim ω mid D ds h0 s σ (evalStmt (n+1) (.ret ln e)) (execS (m+1) (.ret ln e)) := by
  simp only [evalStmt, execS]
  refine sSim_line _ _ _ hinv fun s0 hinv0 => ?_
  refine simS_bind (simS_expr_any hinv0 hle he) (fun s1 σ1 a v ⟨hi, hc⟩ => ?_) (fun _ _ _ _ h => h.elim) (fun _ _ h => h.elim)
  refine simS_step (m2 := pure a) (setTopFrame_bind _ _ s1) ?_
  refine simS_intro (r := .ok a) (r' := .ret v) rfl rfl (.inr (.inr (.inr (.ret
    ⟨hi.1.topS _ (fun _ => rfl), ?_, a, slot_topS_ret hi.1 a, m, ?_⟩))))
  · rw [topS_heap]; exact hi.2.1
  · rw [topS_heap]; exact hc

theorem sim_break {n m : Nat} (ln : Nat) (hinv : Inv ω mid D ds h0 s σ) :
    SSim ω mid D ds h0 s σ (evalStmt (n+1) (.break ln)) (execS (m+1) (.break ln)) := by
  simp only [evalStmt, execS]
  refine sSim_line _ _ _ hinv fun s0 hinv0 => ?_
  exact simS_intro (r := .err .sigBreak) (r' := .brk) rfl rfl (.inr (.inr (.inr (.brk hinv0))))

theorem sim_continue {n m : Nat} (ln : Nat) (hinv : Inv ω mid D ds h0 s σ) :
    SSim ω mid D ds h0 s σ (evalStmt (n+1) (.continue ln)) (execS (m+1) (.continue ln)) := by
  simp only [evalStmt, execS]
  refine sSim_line _ _ _ hinv fun s0 hinv0 => ?_
  exact simS_intro (r := .err .sigContinue) (r' := .cont) rfl rfl (.inr (.inr (.inr (.cont hinv0))))

theorem sim_empty {n m : Nat} (ln : Nat) (hinv : Inv ω mid D ds h0 s σ) :
    SSim ω mid D ds h0 s σ (evalStmt (n+1) (.empty ln)) (execS (m+1) (.empty ln)) := by
  simp only [evalStmt, execS]
  exact sSim_line _ _ _ hinv fun s0 hinv0 => simS_newNull hinv0

theorem sim_exprStmt {n m : Nat} (hle : m ≤ n) (e : Expr) (he : PureExpr e) (hinv : Inv ω mid D ds h0 s σ) :
    SSim ω mid D ds h0 s σ (evalStmt (n+1) (.expr e)) (execS (m+1) (.expr e)) := by
  simp only [evalStmt, execS]
  refine sSim_line _ _ _ hinv fun s0 hinv0 => ?_
  exact simS_weaken (fun _ _ _ _ ⟨hi, hc⟩ => ⟨hi.1, hi.2.1, hi.2.2, m, hc⟩) (fun _ _ _ _ h => h.elim) (fun _ _ h => h.elim)
    (simS_expr_any hinv0 hle he)

/-- the tail of the spec's assignment: the two ways of writing it run the same -/
theorem assign_tail (name : String) (v : SVal ν) (σ : SState ν) :
    (if predefined.contains name then (fault 42 : SM ν (SVal ν)) else do assignName name v; pure v) σ =
    ((if predefined.contains name then (fault 42 : SM ν Unit) else assignName name v) >>= fun _ => pure v) σ := by
  cases predefined.contains name <;> rfl

theorem sim_assign {n m : Nat} (hle : m ≤ n) (ln : Nat) (i : Ident) (rhs : Expr) (he : PureExpr rhs) (ht : TopScalar rhs)
    (hinv : Inv ω mid D ds h0 s σ) :
    SSim ω mid D ds h0 s σ (evalStmt (n+1) (.expr (.assign ln (.id i) rhs))) (execS (m+1) (.expr (.assign ln (.id i) rhs))) := by
  simp only [evalStmt, execS]
  refine sSim_line _ _ _ hinv fun s0 hinv0 => ?_
  cases m with
  | zero => simp only [evalE]; exact simS_specFuel
  | succ m =>
  cases n with
  | zero => omega
  | succ n =>
  simp only [evalExpr, evalE]
  refine simS_bind (simS_expr_top hinv0 (Nat.le_of_succ_le_succ hle) he ht) (fun s1 σ1 a v ⟨hi, hc⟩ => ?_)
    (fun _ _ _ _ h => h.elim) (fun _ _ h => h.elim)
  cases n with
  | zero => simp only [dup]; exact simS_modelFuel
  | succ n =>
  obtain ⟨a', s2, hdup, hF, hc'⟩ := dup_shallow (ω := ω) n hc
  refine simS_step (s0 := s2) (m2 := do let name ← matchIDName i.lit; setElement name a'; pure a') (by rw [M.bind_def, hdup]) ?_
  have hi2 := hi.frame hF
  refine simS_bind (simS_idName (T := NoT) (B := NoB) i.lit) (fun s3 σ3 x y ⟨e1, e2, e3⟩ => ?_)
    (fun _ _ _ _ h => h.elim) (fun _ _ h => h.elim)
  subst e1 e2 e3
  refine simS_right (assign_tail x v σ3) ?_
  refine simS_bind (simS_assign (T := NoT) (B := NoB) hi2.1 x a' v hc') (fun s4 σ4 _ _ ⟨h1, h2, h3⟩ => ?_)
    (fun _ _ _ _ h => h.elim) (fun _ _ h => h.elim)
  exact simS_pure ⟨h1, by rw [h2]; exact hi2.2.1, by rw [slot_of_stack h3]; exact hi2.2.2, 1, by rw [h2]; exact hc'⟩

theorem listForM_nil {m : Type → Type} [Monad m] {ι : Type} (f : ι → m PUnit) : List.forM [] f = pure ⟨⟩ := rfl
theorem listForM_cons {m : Type → Type} [Monad m] {ι : Type} (f : ι → m PUnit) (a : ι) (as : List ι) :
    List.forM (a :: as) f = f a >>= fun _ => List.forM as f := rfl

theorem simS_forM {ι : Type} {f : ι → M ν Unit} {f' : ι → SM ν Unit} (I : VM ν → SState ν → Prop) :
    ∀ (l : List ι) (s : VM ν) (σ : SState ν), I s σ →
      (∀ x ∈ l, ∀ s σ, I s σ → SimS (fun s' σ' (_ _ : Unit) => I s' σ') NoT NoB s σ (f x) (f' x)) →
      SimS (fun s' σ' (_ _ : Unit) => I s' σ') NoT NoB s σ (l.forM f) (l.forM f')
  | [], s, σ, hI, _ => by rw [listForM_nil, listForM_nil]; exact simS_pure hI
  | x :: xs, s, σ, hI, h => by
    rw [listForM_cons, listForM_cons]
    exact simS_bind (h x List.mem_cons_self s σ hI)
      (fun s1 σ1 _ _ hI1 => simS_forM I xs s1 σ1 hI1 fun y hy => h y (List.mem_cons_of_mem _ hy))
      (fun _ _ _ _ h => h.elim) (fun _ _ h => h.elim)

/-- the names of one declaration: the model copies the value along the chain, the spec binds the value -/
theorem sim_declVars (n : Nat) (c : Bool) (v : SVal ν) : ∀ (vars : List Ident) (s : VM ν) (σ : SState ν) (cur : Addr),
    Inv ω mid D ds h0 s σ → contentW ω 1 s.heap cur = some v →
    SimS (fun s' σ' (_ : Addr) (_ : Unit) => Inv ω mid D ds h0 s' σ') NoT NoB s σ
      (vars.foldlM (fun cur (x : Ident) => do
        let name ← matchIDName x.lit
        let cur' ← dup n cur
        declareElement name cur' c
        pure cur') cur)
      (vars.forM fun x => do
        let nm ← idName x.lit
        Spec.declare nm v c)
  | [], s, σ, cur, hinv, _ => by rw [List.foldlM_nil, listForM_nil]; exact simS_pure hinv
  | x :: xs, s, σ, cur, hinv, hc => by
    rw [List.foldlM_cons, listForM_cons]
    have step : SimS (fun s' σ' (a : Addr) (_ : Unit) => Inv ω mid D ds h0 s' σ' ∧ contentW ω 1 s'.heap a = some v) NoT NoB s σ
        (do let name ← matchIDName x.lit
            let cur' ← dup n cur
            declareElement name cur' c
            pure cur')
        (do let nm ← idName x.lit
            Spec.declare nm v c) := by
      refine simS_bind (simS_idName (T := NoT) (B := NoB) x.lit) (fun s3 σ3 y z ⟨e1, e2, e3⟩ => ?_)
        (fun _ _ _ _ h => h.elim) (fun _ _ h => h.elim)
      subst e1 e2 e3
      cases n with
      | zero => simp only [dup]; exact simS_modelFuel
      | succ n =>
      obtain ⟨a', s2, hdup, hF, hc'⟩ := dup_shallow (ω := ω) n hc
      refine simS_step (s0 := s2) (m2 := do declareElement y a' c; pure a') (by rw [M.bind_def, hdup]) ?_
      have hi2 := hinv.frame hF
      have : (Spec.declare y v c : SM ν Unit) = (Spec.declare y v c >>= fun _ => pure ()) := by
        rw [bind_pure]
      rw [this]
      refine simS_bind (simS_declare (T := NoT) (B := NoB) hi2.1 y a' v c hc') (fun s4 σ4 _ _ ⟨h1, h2, h3, _⟩ => ?_)
        (fun _ _ _ _ h => h.elim) (fun _ _ h => h.elim)
      exact simS_pure ⟨⟨h1, by rw [h2]; exact hi2.2.1, by rw [slot_of_stack h3]; exact hi2.2.2⟩, by rw [h2]; exact hc'⟩
    exact simS_bind step (fun s1 σ1 a _ ⟨hi, hc1⟩ => sim_declVars n c v xs s1 σ1 a hi hc1)
      (fun _ _ _ _ h => h.elim) (fun _ _ h => h.elim)

theorem sim_varDecl {n m : Nat} (hle : m ≤ n) (ln : Nat) (pairs : List (Nat × List Ident × Expr))
    (hp : ∀ p ∈ pairs, PureExpr p.2.2 ∧ TopScalar p.2.2) (hinv : Inv ω mid D ds h0 s σ) :
    SSim ω mid D ds h0 s σ (evalStmt (n+1) (.varDecl ln pairs)) (execS (m+1) (.varDecl ln pairs)) := by
  simp only [evalStmt, execS]
  refine sSim_line _ _ _ hinv fun s0 hinv0 => ?_
  refine simS_bind (simS_forM (Inv ω mid D ds h0) pairs s0 σ hinv0 fun p hpm s1 σ1 hi1 => ?_)
    (fun s1 σ1 _ _ hi => simS_newNull hi) (fun _ _ _ _ h => h.elim) (fun _ _ h => h.elim)
  obtain ⟨ty, vars, e⟩ := p
  simp only
  split
  · refine simS_bind (simS_expr_top hi1 hle (hp _ hpm).1 (hp _ hpm).2) (fun s2 σ2 a v ⟨hi2, hc⟩ => ?_)
      (fun _ _ _ _ h => h.elim) (fun _ _ h => h.elim)
    have hd := sim_declVars (ω := ω) n (ty == 3) v vars s2 σ2 a hi2 hc
    have e : (vars.forM fun x => do let nm ← idName x.lit; Spec.declare nm v (ty == 3) : SM ν Unit) =
        ((vars.forM fun x => do let nm ← idName x.lit; Spec.declare nm v (ty == 3)) >>= fun _ => pure ()) := by
      rw [bind_pure]
    rw [e]
    exact simS_bind hd (fun _ _ _ _ hi => simS_pure hi) (fun _ _ _ _ h => h.elim) (fun _ _ h => h.elim)
  · exact simS_pure hi1

end

end ZnVerif.Proofs
