/-
C03 at character level, free layout: comments that stay on their line — `// …`, `/* … */`, `注：…`, `注123：…`.

`dispatch_cmt`: with the cursor on the first character of such a comment, the dispatch of `NextToken` answers ONE comment token that
covers exactly the comment, and nothing but the cursor changes.
-/
import ZnVerif.Proofs.RenderLexItems

namespace ZnVerif.Proofs.RenderLex
open ZnVerif.Model ZnVerif.Generated ZnVerif.Generated.Tokens
open ZnVerif.Spec ZnVerif.Spec.RenderChars

theorem rest_peek {l : Lexer} {tl : List Nat} (h : l.rest = tl) : l.peek = tl.headD 0 := by
  rw [Lexer.peek_eq_head, h]
  cases tl <;> rfl

/-- one character of a comment body: the loop goes on, the quote counter untouched -/
theorem cmtStep_plain (s cty : Nat) (l : Lexer) (q c : Nat) (r : List Nat) (h : l.rest = c :: r)
    (hc : c ≠ 0 ∧ c ≠ runeCR ∧ c ≠ runeLF) (hcty : cty = ccommentTypeSingle ∨ cty = ccommentTypeSlash)
    (hstar : ¬ (c = cMultiplyOp ∧ cty = ccommentTypeSlash ∧ r.headD 0 = cSlashOp)) :
    parseCommentStep s cty l q = (.cont q, l.adv) := by
  obtain ⟨hp, hr⟩ := Lexer.rest_cons h
  have hcur : l.adv.cur = c := hp
  have hpeek : l.adv.peek = r.headD 0 := rest_peek hr
  obtain ⟨h0, hcr, hlf⟩ := hc
  unfold parseCommentStep
  have a0 : (c == runeEOF) = false := by simpa [runeEOF] using h0
  have a1 : (c == runeCR || c == runeLF) = false := by simp [hcr, hlf]
  simp only [hcur, hpeek, a0, a1, Bool.false_eq_true, ↓reduceIte]
  rcases hcty with rfl | rfl
  · have b1 : (ccommentTypeSingle == ccommentTypeQuoteI) = false := by decide
    have b2 : (ccommentTypeSingle == ccommentTypeQuoteII) = false := by decide
    have b3 : (ccommentTypeSingle == ccommentTypeSlash) = false := by decide
    simp only [b1, b2, b3, Bool.false_eq_true, ↓reduceIte, Bool.false_and]
    repeat' split
    all_goals rfl
  · have b1 : (ccommentTypeSlash == ccommentTypeQuoteI) = false := by decide
    have b2 : (ccommentTypeSlash == ccommentTypeQuoteII) = false := by decide
    simp only [b1, b2, Bool.false_eq_true, ↓reduceIte, beq_self_eq_true, Bool.true_and]
    repeat' split
    all_goals first
      | rfl
      | (exfalso
         rename_i hs hm
         apply hstar
         exact ⟨by simpa using hs, rfl, by simpa using hm⟩)

/-- a comment body that runs to the end of the line -/
theorem cmt_single_run (s : Nat) (rest : List Nat) (hend : rest.headD 0 = 0 ∨ rest.headD 0 = runeCR ∨ rest.headD 0 = runeLF) :
    ∀ (b : List Nat), Cmt.plainBody b → ∀ (l : Lexer) (q : Nat), l.rest = b ++ rest →
    parseCommentLoop s ccommentTypeSingle l q =
      ({ type := cTypeComment, startIdx := s, endIdx := l.cursor + 1 + b.length }, l.setCursor (l.cursor + 1 + b.length)) := by
  intro b
  induction b with
  | nil =>
    intro _ l q h
    have hcur : l.adv.cur = rest.headD 0 := rest_peek (by simpa using h)
    have hstep : parseCommentStep s ccommentTypeSingle l q =
        (.done { type := cTypeComment, startIdx := s, endIdx := l.adv.cursor }, l.adv) := by
      unfold parseCommentStep
      simp only [hcur]
      rcases hend with e | e | e <;> rw [e] <;> simp [runeEOF, runeCR, runeLF]
    unfold parseCommentLoop
    rw [iterate_done hstep]
    simp [Lexer.setCursor, Lexer.adv]
  | cons c b ih =>
    intro hb l q h
    have h' : l.rest = c :: (b ++ rest) := by simpa using h
    have hstep := cmtStep_plain s ccommentTypeSingle l q c (b ++ rest) h' (hb c List.mem_cons_self) (Or.inl rfl)
      (by rintro ⟨_, e, _⟩; revert e; decide)
    unfold parseCommentLoop at ih ⊢
    rw [iterate_cont hstep, ih (fun x hx => hb x (List.mem_cons_of_mem _ hx)) l.adv q (Lexer.rest_cons h').2]
    simp [Lexer.setCursor, Lexer.adv]
    omega

/-- a `/* … */` body up to and including the closing `*/` -/
theorem cmt_block_run (s : Nat) (rest : List Nat) :
    ∀ (b : List Nat), Cmt.plainBody b → Cmt.noClose b = true → ∀ (l : Lexer) (q : Nat),
    l.rest = b ++ cMultiplyOp :: cSlashOp :: rest →
    parseCommentLoop s ccommentTypeSlash l q =
      ({ type := cTypeComment, startIdx := s, endIdx := l.cursor + 1 + b.length + 2 }, l.setCursor (l.cursor + 1 + b.length + 2)) := by
  intro b
  induction b with
  | nil =>
    intro _ _ l q h
    have h' : l.rest = cMultiplyOp :: cSlashOp :: rest := by simpa using h
    obtain ⟨hp, hp2, _⟩ := Lexer.rest_cons2 h'
    have hcur : l.adv.cur = cMultiplyOp := hp
    have hpeek : l.adv.peek = cSlashOp := hp2
    have hstep : parseCommentStep s ccommentTypeSlash l q =
        (.done { type := cTypeComment, startIdx := s, endIdx := l.adv.adv.adv.cursor }, l.adv.adv.adv) := by
      unfold parseCommentStep
      simp only [hcur, hpeek]
      simp [runeEOF, runeCR, runeLF, cMultiplyOp, cSlashOp, cLeftDoubleQuoteI, cLeftDoubleQuoteII,
        cRightDoubleQuoteI, cRightDoubleQuoteII]
    unfold parseCommentLoop
    rw [iterate_done hstep]
    simp [Lexer.setCursor, Lexer.adv]
  | cons c b ih =>
    intro hb hnc l q h
    have h' : l.rest = c :: (b ++ cMultiplyOp :: cSlashOp :: rest) := by simpa using h
    have hnc' : Cmt.noClose b = true ∧ ¬ (c = cMultiplyOp ∧ (b ++ cMultiplyOp :: cSlashOp :: rest).headD 0 = cSlashOp) := by
      cases b with
      | nil => exact ⟨rfl, by rintro ⟨_, e⟩; simp at e; exact absurd e (by decide)⟩
      | cons d b' =>
        simp only [Cmt.noClose, Bool.and_eq_true, Bool.not_eq_true', Bool.and_eq_false_iff] at hnc
        refine ⟨hnc.2, ?_⟩
        rintro ⟨e1, e2⟩
        simp at e2
        rcases hnc.1 with h1 | h1
        · rw [e1] at h1; simp at h1
        · rw [e2] at h1; simp at h1
    have hstep := cmtStep_plain s ccommentTypeSlash l q c _ h' (hb c List.mem_cons_self) (Or.inr rfl)
      (by rintro ⟨e1, _, e2⟩; exact hnc'.2 ⟨e1, e2⟩)
    unfold parseCommentLoop at ih ⊢
    rw [iterate_cont hstep, ih (fun x hx => hb x (List.mem_cons_of_mem _ hx)) hnc'.1 l.adv q (Lexer.rest_cons h').2]
    simp [Lexer.setCursor, Lexer.adv]
    omega

theorem skipDigits_run : ∀ (ds : List Nat), (∀ d ∈ ds, isPureNumber d = true) → ∀ (l : Lexer) (tl : List Nat),
    l.rest = ds ++ tl → isPureNumber (tl.headD 0) = false → skipDigits l = l.setCursor (l.cursor + 1 + ds.length) := by
  intro ds
  induction ds with
  | nil =>
    intro _ l tl h ht
    have hcur : l.adv.cur = tl.headD 0 := rest_peek (by simpa using h)
    rw [skipDigits]
    simp only [hcur, ht, Bool.false_eq_true, ↓reduceDIte]
    rfl
  | cons d ds ih =>
    intro hds l tl h ht
    have h' : l.rest = d :: (ds ++ tl) := by simpa using h
    obtain ⟨hp, hr⟩ := Lexer.rest_cons h'
    have hcur : l.adv.cur = d := hp
    rw [skipDigits]
    simp only [hcur, hds d List.mem_cons_self, ↓reduceDIte]
    rw [ih (fun x hx => hds x (List.mem_cons_of_mem _ hx)) l.adv tl hr ht]
    simp [Lexer.setCursor, Lexer.adv]
    omega

/-- **a comment that stays on its line** -/
theorem dispatch_cmt (c : Cmt) (hw : c.WF) (rest : List Nat) (he : c.Ends rest) (l : Lexer) (h : here l = c.spelling ++ rest) :
    dispatchToken l = (.ok { type := cTypeComment, startIdx := l.cursor, endIdx := l.cursor + c.spelling.length },
      l.setCursor (l.cursor + c.spelling.length)) := by
  cases c with
  | line b =>
    have h' : here l = cSlashOp :: cSlashOp :: (b ++ rest) := by simpa [Cmt.spelling] using h
    obtain ⟨hc, hr⟩ := here_cons h'
    obtain ⟨hp, hr2⟩ := Lexer.rest_cons hr
    have hlen : (Cmt.line b).spelling.length = b.length + 2 := by simp [Cmt.spelling]
    rw [hlen]
    have hcom : parseComment l = (some { type := cTypeComment, startIdx := l.cursor, endIdx := l.cursor + (b.length + 2) },
        l.setCursor (l.cursor + (b.length + 2))) := by
      unfold parseComment
      have a1 : (l.cur == cCharZHU) = false := by rw [hc]; decide
      have a2 : (l.cur == cSlashOp) = true := by rw [hc]; decide
      have a3 : (l.peek == cSlashOp) = true := by rw [hp]; decide
      simp only [a1, a2, a3, Bool.false_eq_true, ↓reduceIte]
      rw [cmt_single_run l.cursor rest he b hw l.adv 0 hr2]
      simp [Lexer.setCursor, Lexer.adv]
      omega
    unfold dispatchToken
    have b1 : (l.cur == runeEOF) = false := by rw [hc]; decide
    have b2 : (l.cur == cCharZHU || l.cur == cSlashOp) = true := by rw [hc]; decide
    simp only [b1, b2, Bool.false_eq_true, ↓reduceIte, hcom]
  | block b =>
    have h' : here l = cSlashOp :: cMultiplyOp :: (b ++ cMultiplyOp :: cSlashOp :: rest) := by simpa [Cmt.spelling] using h
    obtain ⟨hc, hr⟩ := here_cons h'
    obtain ⟨hp, hr2⟩ := Lexer.rest_cons hr
    have hlen : (Cmt.block b).spelling.length = b.length + 4 := by simp [Cmt.spelling]
    rw [hlen]
    have hcom : parseComment l = (some { type := cTypeComment, startIdx := l.cursor, endIdx := l.cursor + (b.length + 4) },
        l.setCursor (l.cursor + (b.length + 4))) := by
      unfold parseComment
      have a1 : (l.cur == cCharZHU) = false := by rw [hc]; decide
      have a2 : (l.cur == cSlashOp) = true := by rw [hc]; decide
      have a3 : (l.peek == cSlashOp) = false := by rw [hp]; decide
      have a4 : (l.peek == cMultiplyOp) = true := by rw [hp]; decide
      simp only [a1, a2, a3, a4, Bool.false_eq_true, ↓reduceIte]
      rw [cmt_block_run l.cursor rest b hw.1 hw.2 l.adv 0 hr2]
      simp [Lexer.setCursor, Lexer.adv]
      omega
    unfold dispatchToken
    have b1 : (l.cur == runeEOF) = false := by rw [hc]; decide
    have b2 : (l.cur == cCharZHU || l.cur == cSlashOp) = true := by rw [hc]; decide
    simp only [b1, b2, Bool.false_eq_true, ↓reduceIte, hcom]
  | note ds b =>
    obtain ⟨hds, hb, hq1, hq2⟩ := hw
    have h' : here l = cCharZHU :: (ds ++ cColon :: (b ++ rest)) := by simpa [Cmt.spelling] using h
    obtain ⟨hc, hr⟩ := here_cons h'
    have hsk := skipDigits_run ds hds l (cColon :: (b ++ rest)) hr (by show isPureNumber cColon = false; decide)
    -- the lexer on the colon
    have hrc : (l.setCursor (l.cursor + 1 + ds.length)).rest = b ++ rest := by
      have : here (l.setCursor (l.cursor + (1 + ds.length))) = cColon :: (b ++ rest) := by
        rw [here_setCursor, h']
        rw [show 1 + ds.length = ds.length + 1 by omega, List.drop_succ_cons]
        exact List.drop_left' rfl
      rw [← Nat.add_assoc] at this
      exact (here_cons this).2
    have hcc : (l.setCursor (l.cursor + 1 + ds.length)).cur = cColon := by
      have : here (l.setCursor (l.cursor + (1 + ds.length))) = cColon :: (b ++ rest) := by
        rw [here_setCursor, h']
        rw [show 1 + ds.length = ds.length + 1 by omega, List.drop_succ_cons]
        exact List.drop_left' rfl
      rw [← Nat.add_assoc] at this
      exact (here_cons this).1
    have hpk : (l.setCursor (l.cursor + 1 + ds.length)).peek = (b ++ rest).headD 0 := rest_peek hrc
    have hpk1 : ((l.setCursor (l.cursor + 1 + ds.length)).peek == cLeftDoubleQuoteI) = false := by
      rw [hpk]
      cases b with
      | nil =>
        simp only [List.nil_append]
        rcases he with e | e | e <;> rw [e] <;> decide
      | cons x b' => simpa using hq1
    have hpk2 : ((l.setCursor (l.cursor + 1 + ds.length)).peek == cLeftDoubleQuoteII) = false := by
      rw [hpk]
      cases b with
      | nil =>
        simp only [List.nil_append]
        rcases he with e | e | e <;> rw [e] <;> decide
      | cons x b' => simpa using hq2
    have hlen : (Cmt.note ds b).spelling.length = ds.length + b.length + 2 := by simp [Cmt.spelling]; omega
    rw [hlen]
    have hcom : parseComment l = (some { type := cTypeComment, startIdx := l.cursor, endIdx := l.cursor + (ds.length + b.length + 2) },
        l.setCursor (l.cursor + (ds.length + b.length + 2))) := by
      unfold parseComment
      have a1 : (l.cur == cCharZHU) = true := by rw [hc]; decide
      simp only [a1, ↓reduceIte, hsk, hcc, beq_self_eq_true, hpk1, hpk2, Bool.false_eq_true]
      rw [cmt_single_run l.cursor rest he b hb _ 0 hrc]
      simp [Lexer.setCursor]
      omega
    unfold dispatchToken
    have b1 : (l.cur == runeEOF) = false := by rw [hc]; decide
    have b2 : (l.cur == cCharZHU || l.cur == cSlashOp) = true := by rw [hc]; decide
    simp only [b1, b2, Bool.false_eq_true, ↓reduceIte, hcom]

end ZnVerif.Proofs.RenderLex
