/-
Helper lemmas for C11 (Properties/C11.lean): finite-map reads under permutation, the site loops, sorting a
permutation, dictionary equality on pure trees.  Core Lean only.
-/
import ZnVerif.Model.MapSites

namespace ZnVerif.Proofs.MapSites
open ZnVerif.Model.MapSites

variable {κ : Type} {α : Type} {β : Type} {σ : Type} {ε : Type} [DecidableEq κ]

-- so that concrete loop outcomes can be compared by `decide`
deriving instance DecidableEq for Except

/-! ### reads of a finite map -/

theorem get?_some_mem {k : κ} {v : α} : ∀ {m : GoMap κ α}, get? k m = some v → (k, v) ∈ m
  | [], h => by simp [get?] at h
  | (k', v') :: rest, h => by
    unfold get? at h
    split at h
    · next hk => cases h; subst hk; exact List.mem_cons_self
    · exact List.mem_cons_of_mem _ (get?_some_mem h)

theorem get?_eq_none_iff {k : κ} : ∀ {m : GoMap κ α}, get? k m = none ↔ k ∉ keys m
  | [] => by simp [get?, keys]
  | (k', v') :: rest => by
    have ih := @get?_eq_none_iff k rest
    unfold get?
    by_cases hk : k' = k
    · simp [hk, keys]
    · have hk' : ¬ k = k' := fun h => hk h.symm
      simp only [hk, if_false, ih, keys, List.map_cons, List.mem_cons, hk', false_or]

theorem mem_keys_of_get? {k : κ} {v : α} {m : GoMap κ α} (h : get? k m = some v) : k ∈ keys m := by
  have := get?_some_mem h
  exact List.mem_map.2 ⟨(k, v), this, rfl⟩

theorem get?_isSome_of_mem_keys {k : κ} {m : GoMap κ α} (h : k ∈ keys m) : ∃ v, get? k m = some v := by
  cases hg : get? k m with
  | none => exact absurd h (get?_eq_none_iff.1 hg)
  | some v => exact ⟨v, rfl⟩

theorem get?_of_mem {k : κ} {v : α} : ∀ {m : GoMap κ α}, WF m → (k, v) ∈ m → get? k m = some v
  | [], _, h => by simp at h
  | (k', v') :: rest, hwf, h => by
    have hwf' : (k' ∉ keys rest) ∧ WF rest := by
      simpa [WF, keys, List.nodup_cons] using hwf
    unfold get?
    rcases List.mem_cons.1 h with heq | hmem
    · cases heq; simp
    · by_cases hk : k' = k
      · subst hk
        exact absurd (List.mem_map.2 ⟨(k', v), hmem, rfl⟩) hwf'.1
      · simp only [hk, if_false]; exact get?_of_mem hwf'.2 hmem

omit [DecidableEq κ] in
theorem keys_perm {m es : GoMap κ α} (h : es.Perm m) : (keys es).Perm (keys m) := h.map _

omit [DecidableEq κ] in
theorem wf_of_perm {m es : GoMap κ α} (hm : WF m) (h : es.Perm m) : WF es :=
  ((keys_perm h).nodup_iff).2 hm

/-- a map read does not depend on the layout of the map -/
theorem get?_perm {m es : GoMap κ α} (hm : WF m) (h : es.Perm m) (k : κ) : get? k es = get? k m := by
  cases hg : get? k m with
  | none =>
    have : k ∉ keys m := get?_eq_none_iff.1 hg
    exact get?_eq_none_iff.2 (fun hk => this ((keys_perm h).mem_iff.1 hk))
  | some v =>
    exact get?_of_mem (wf_of_perm hm h) (h.mem_iff.2 (get?_some_mem hg))

/-! ### writes -/

theorem get?_filter_ne {k k' : κ} (hk : ¬ k = k') : ∀ (m : GoMap κ α),
    get? k' (m.filter (fun p => !decide (p.1 = k))) = get? k' m
  | [] => rfl
  | (k'', v'') :: rest => by
    have ih := get?_filter_ne hk rest
    by_cases h2 : k'' = k
    · subst h2
      simp only [List.filter, decide_true, Bool.not_true, get?, hk, if_false]
      exact ih
    · by_cases h3 : k'' = k'
      · subst h3
        have : ¬ k'' = k := h2
        simp [List.filter, get?, this]
      · simp only [List.filter, h2, decide_false, Bool.not_false, get?, h3, if_false]
        exact ih

theorem get?_put (k k' : κ) (v : α) (m : GoMap κ α) :
    get? k' (put k v m) = if k = k' then some v else get? k' m := by
  unfold put
  by_cases hk : k = k'
  · simp [get?, hk]
  · simp only [get?, hk, if_false]
    exact get?_filter_ne hk m

/-! ### NewObject -/

omit [DecidableEq κ] in
theorem wf_cons {p : κ × α} {rest : GoMap κ α} (h : WF (p :: rest)) : p.1 ∉ keys rest ∧ WF rest := by
  simpa [WF, keys, List.nodup_cons] using h

theorem newObject_fold (dup : α → α) (init : GoMap κ α) (k : κ) :
    ∀ (es acc : GoMap κ α), WF es →
      get? k (es.foldl (fun acc p => put p.1 (objValue dup init p.1 p.2) acc) acc) =
        match get? k es with
        | some e => some (objValue dup init k e)
        | none => get? k acc
  | [], acc, _ => rfl
  | p :: rest, acc, hwf => by
    obtain ⟨hnot, hrest⟩ := wf_cons hwf
    obtain ⟨k', e'⟩ := p
    rw [List.foldl_cons, newObject_fold dup init k rest _ hrest]
    by_cases hk : k' = k
    · subst hk
      have : get? k' rest = none := get?_eq_none_iff.2 hnot
      simp [this, get?, get?_put]
    · simp [get?, hk, get?_put]

/-- every property of the new object is read back as: the initial value if one was given, else a copy of the
model's default; a name the model does not declare is absent -/
theorem newObject_get? (dup : α → α) (init es : GoMap κ α) (hwf : WF es) (k : κ) :
    get? k (newObject dup init es) = (get? k es).map (objValue dup init k) := by
  unfold newObject
  rw [newObject_fold dup init k es [] hwf]
  cases get? k es <;> rfl

/-! ### library export copy -/

theorem libraryCopy_get? (k : κ) : ∀ (es m0 : GoMap κ α), WF es →
    get? k (libraryCopy m0 es) = match get? k m0 with | some v => some v | none => get? k es
  | [], m0, _ => by simp [libraryCopy]; cases get? k m0 <;> rfl
  | p :: rest, m0, hwf => by
    obtain ⟨hnot, hrest⟩ := wf_cons hwf
    obtain ⟨k', v'⟩ := p
    have ih := libraryCopy_get? k rest (addExportValue m0 k' v') hrest
    unfold libraryCopy at ih ⊢
    rw [List.foldl_cons, ih]
    unfold addExportValue
    by_cases hk : k' = k
    · subst hk
      have hr : get? k' rest = none := get?_eq_none_iff.2 hnot
      cases h0 : get? k' m0 with
      | some v => simp [h0]
      | none => simp [get?_put, get?]
    · cases h0 : get? k' m0 with
      | some v => simp [get?, hk]
      | none => simp [get?_put, hk, get?]

/-! ### sorting what a `range` collected -/

omit [DecidableEq κ] in
/-- sorting forgets the order in which the keys were collected -/
theorem mergeSort_perm_invariant {le : κ → κ → Bool} (ho : TotalOrder le) {l₁ l₂ : List κ} (h : l₁.Perm l₂) :
    l₁.mergeSort le = l₂.mergeSort le := by
  apply List.Perm.eq_of_pairwise (le := fun a b => le a b = true)
  · intro a b _ _ hab hba; exact ho.antisymm a b hab hba
  · exact List.pairwise_mergeSort ho.trans ho.total l₁
  · exact List.pairwise_mergeSort ho.trans ho.total l₂
  · exact (List.mergeSort_perm l₁ le).trans (h.trans (List.mergeSort_perm l₂ le).symm)

omit [DecidableEq κ] in
theorem keys_rangeOrder {m es₁ es₂ : GoMap κ α} (h₁ : RangeOrder m es₁) (h₂ : RangeOrder m es₂) :
    (keys es₁).Perm (keys es₂) :=
  (keys_perm h₁).trans (keys_perm h₂).symm

/-! ### dictionary equality on pure trees -/

section Xeq
variable {ν : Type}

theorem mem_zip_swap {α β : Type} {a : α} {b : β} : ∀ {xs : List α} {ys : List β},
    (a, b) ∈ xs.zip ys → (b, a) ∈ ys.zip xs
  | [], _, h => by simp at h
  | _ :: _, [], h => by simp at h
  | x :: xs, y :: ys, h => by
    simp only [List.zip_cons_cons, List.mem_cons, Prod.mk.injEq] at h ⊢
    rcases h with ⟨rfl, rfl⟩ | h
    · exact .inl ⟨rfl, rfl⟩
    · exact .inr (mem_zip_swap h)

theorem same_symm {a b : PV ν} (h : Same a b) : Same b a := by
  induction h with
  | null => exact .null
  | num x => exact .num x
  | str s => exact .str s
  | bool b => exact .bool b
  | arr hlen _ ih =>
    refine .arr hlen.symm ?_
    intro a b hab
    rename_i xs ys _
    have : (b, a) ∈ xs.zip ys := mem_zip_swap hab
    exact ih _ _ this
  | hm w w' hk _ ih =>
    exact .hm w' w (fun k => (hk k).symm) (fun k a b ha hb => ih k b a hb ha)

theorem exists_zip_left {α β : Type} : ∀ {xs : List α} {ys : List β} {a : α}, xs.length = ys.length → a ∈ xs →
    ∃ b, (a, b) ∈ xs.zip ys
  | [], _, _, _, h => by simp at h
  | x :: xs, [], _, hl, _ => by simp at hl
  | x :: xs, y :: ys, a, hl, h => by
    rcases List.mem_cons.1 h with rfl | h
    · exact ⟨y, by simp⟩
    · obtain ⟨b, hb⟩ := exists_zip_left (ys := ys) (by simpa using hl) h
      exact ⟨b, by simp [hb]⟩

/-- the two loops stop at the same place when the element comparisons agree -/
theorem allPairs_agree {rec rec' : PV ν → PV ν → Res}
    (hrec : ∀ a a' b b', Same a a' → Same b b' → ∀ c c', rec a b = .ok c → rec' a' b' = .ok c' → c = c') :
    ∀ (xs xs' ys ys' : List (PV ν)), xs.length = xs'.length → ys.length = ys'.length →
      (∀ a a', (a, a') ∈ xs.zip xs' → Same a a') → (∀ b b', (b, b') ∈ ys.zip ys' → Same b b') →
      ∀ c c', allPairs rec xs ys = .ok c → allPairs rec' xs' ys' = .ok c' → c = c'
  | [], [], _, _, _, _, _, _, c, c', h, h' => by
    simp [allPairs] at h h'; rw [h, h']
  | [], _ :: _, _, _, hx, _, _, _, _, _, _, _ => by simp at hx
  | _ :: _, [], _, _, hx, _, _, _, _, _, _, _ => by simp at hx
  | _ :: _, _ :: _, [], [], _, _, _, _, c, c', h, h' => by
    simp [allPairs] at h h'; rw [h, h']
  | _ :: _, _ :: _, [], _ :: _, _, hy, _, _, _, _, _, _ => by simp at hy
  | _ :: _, _ :: _, _ :: _, [], _, hy, _, _, _, _, _, _ => by simp at hy
  | x :: xs, x' :: xs', y :: ys, y' :: ys', hx, hy, hX, hY, c, c', h, h' => by
    have sx : Same x x' := hX _ _ (by simp)
    have sy : Same y y' := hY _ _ (by simp)
    have ih := allPairs_agree hrec xs xs' ys ys' (by simpa using hx) (by simpa using hy)
      (fun a a' m => hX a a' (by simp [m])) (fun b b' m => hY b b' (by simp [m]))
    simp only [allPairs] at h h'
    cases hr : rec x y with
    | ok b =>
      cases hr' : rec' x' y' with
      | ok b' =>
        have hbb := hrec _ _ _ _ sx sy _ _ hr hr'
        subst hbb
        cases b with
        | true => simp only [hr, hr'] at h h'; exact ih c c' h h'
        | false =>
          simp only [hr, hr'] at h h'
          cases h; cases h'; rfl
      | err e => simp [hr'] at h'
      | panic => simp [hr'] at h'
      | fuel => simp [hr'] at h'
    | err e => simp [hr] at h
    | panic => simp [hr] at h
    | fuel => simp [hr] at h

theorem allKeys_true {rec : PV ν → PV ν → Res} {lv rv : List (String × PV ν)} :
    ∀ {ks : List String}, allKeys rec lv rv ks = .ok true →
      ∀ k ∈ ks, ∃ a b, get? k rv = some b ∧ get? k lv = some a ∧ rec a b = .ok true
  | [], _, k, hk => by simp at hk
  | k0 :: ks, h, k, hk => by
    simp only [allKeys] at h
    cases hb : get? k0 rv with
    | none => simp [hb] at h
    | some b =>
      cases ha : get? k0 lv with
      | none => simp [hb, ha] at h
      | some a =>
        simp only [hb, ha] at h
        cases hr : rec a b with
        | ok c =>
          cases c with
          | true =>
            simp only [hr] at h
            rcases List.mem_cons.1 hk with rfl | hk
            · exact ⟨a, b, hb, ha, hr⟩
            · exact allKeys_true h k hk
          | false => simp [hr] at h
        | err e => simp [hr] at h
        | panic => simp [hr] at h
        | fuel => simp [hr] at h

theorem allKeys_false {rec : PV ν → PV ν → Res} {lv rv : List (String × PV ν)} :
    ∀ {ks : List String}, allKeys rec lv rv ks = .ok false →
      ∃ k ∈ ks, get? k rv = none ∨ ∃ a b, get? k rv = some b ∧ get? k lv = some a ∧ rec a b = .ok false
  | [], h => by simp [allKeys] at h
  | k0 :: ks, h => by
    simp only [allKeys] at h
    cases hb : get? k0 rv with
    | none => exact ⟨k0, by simp, .inl hb⟩
    | some b =>
      cases ha : get? k0 lv with
      | none => simp [hb, ha] at h
      | some a =>
        simp only [hb, ha] at h
        cases hr : rec a b with
        | ok c =>
          cases c with
          | true =>
            simp only [hr] at h
            obtain ⟨k, hk, hd⟩ := allKeys_false h
            exact ⟨k, List.mem_cons_of_mem _ hk, hd⟩
          | false => exact ⟨k0, by simp, .inr ⟨a, b, hb, ha, hr⟩⟩
        | err e => simp [hr] at h
        | panic => simp [hr] at h
        | fuel => simp [hr] at h

theorem allPairs_total {rec : PV ν → PV ν → Res} :
    ∀ (xs ys : List (PV ν)), (∀ a ∈ xs, ∀ b, ∃ c, rec a b = .ok c) → ∃ c, allPairs rec xs ys = .ok c
  | [], _, _ => ⟨true, by simp [allPairs]⟩
  | _ :: _, [], _ => ⟨true, by simp [allPairs]⟩
  | x :: xs, y :: ys, h => by
    obtain ⟨c, hc⟩ := h x (by simp) y
    simp only [allPairs, hc]
    cases c with
    | true => exact allPairs_total xs ys (fun a ha => h a (List.mem_cons_of_mem _ ha))
    | false => exact ⟨false, rfl⟩

theorem allKeys_total {rec : PV ν → PV ν → Res} {lv rv : List (String × PV ν)} :
    ∀ (ks : List String), (∀ k ∈ ks, ∃ a, get? k lv = some a ∧ ∀ b, ∃ c, rec a b = .ok c) →
      ∃ c, allKeys rec lv rv ks = .ok c
  | [], _ => ⟨true, rfl⟩
  | k0 :: ks, h => by
    obtain ⟨a, ha, hrec⟩ := h k0 (by simp)
    simp only [allKeys]
    cases hb : get? k0 rv with
    | none => exact ⟨false, rfl⟩
    | some b =>
      obtain ⟨c, hc⟩ := hrec b
      simp only [ha, hc]
      cases c with
      | true => exact allKeys_total ks (fun k hk => h k (List.mem_cons_of_mem _ hk))
      | false => exact ⟨false, rfl⟩

/-- two Go maps with the same key set (one entry per key) have the same `len` -/
theorem length_eq_of_same_keys {lv lv' : List (String × PV ν)} (h : (keys lv).Nodup) (h' : (keys lv').Nodup)
    (hk : ∀ k, k ∈ keys lv ↔ k ∈ keys lv') : lv.length = lv'.length := by
  have := ((List.perm_ext_iff_of_nodup h h').2 hk).length_eq
  simpa [keys] using this

/-- whenever both comparisons finish with a verdict, values with the same contents get the same verdict -/
theorem xeq_agree (eqν : ν → ν → Bool) : ∀ (n m : Nat) (l l' r r' : PV ν), Same l l' → Same r r' →
    ∀ c c', xeq eqν n l r = .ok c → xeq eqν m l' r' = .ok c' → c = c'
  | 0, _, _, _, _, _, _, _, _, _, h, _ => by simp [xeq] at h
  | _ + 1, 0, _, _, _, _, _, _, _, _, _, h' => by simp [xeq] at h'
  | n + 1, m + 1, l, l', r, r', hl, hr, c, c', h, h' => by
    have ih := xeq_agree eqν n m
    cases hl with
    | null => cases hr <;> simp [xeq] at h h' <;> (subst_vars; rfl)
    | num x => cases hr <;> simp [xeq] at h h' <;> (subst_vars; rfl)
    | str x => cases hr <;> simp [xeq] at h h' <;> (subst_vars; rfl)
    | bool x => cases hr <;> simp [xeq] at h h' <;> (subst_vars; rfl)
    | @arr xs xs' hlen hX =>
      cases hr with
      | @arr ys ys' hlen' hY =>
        simp only [xeq] at h h'
        by_cases hne : xs.length = ys.length
        · have hne' : xs'.length = ys'.length := by omega
          simp only [hne, hne', ne_eq, not_true, if_false] at h h'
          exact allPairs_agree (fun a a' b b' sa sb c c' => ih a a' b b' sa sb c c') xs xs' ys ys' hlen hlen' hX hY c c' h h'
        · have hne' : ¬ xs'.length = ys'.length := by omega
          simp only [hne, hne', ne_eq, not_false_eq_true, if_true] at h h'
          cases h; cases h'; rfl
      | null => simp [xeq] at h h'; subst_vars; rfl
      | num _ => simp [xeq] at h h'; subst_vars; rfl
      | str _ => simp [xeq] at h h'; subst_vars; rfl
      | bool _ => simp [xeq] at h h'; subst_vars; rfl
      | hm _ _ _ _ => simp [xeq] at h h'; subst_vars; rfl
    | @hm lv lv' lo lo' w w' hk hV =>
      cases hr with
      | @hm rv rv' ro ro' v v' hk' hV' =>
        simp only [xeq] at h h'
        have e1 := length_eq_of_same_keys w.1 w'.1 hk
        have e2 := length_eq_of_same_keys v.1 v'.1 hk'
        by_cases hne : lv.length = rv.length
        · have hne' : lv'.length = rv'.length := by omega
          simp only [hne, hne', ne_eq, not_true, if_false] at h h'
          -- a `true` on one side and a `false` on the other would meet at one key
          have key : ∀ (n m : Nat) (lv lv' rv rv' : List (String × PV ν)) (lo lo' : List String),
              (∀ a a' b b', Same a a' → Same b b' → ∀ c c', xeq eqν n a b = .ok c → xeq eqν m a' b' = .ok c' → c = c') →
              DictWF lv lo → DictWF lv' lo' → (∀ k, k ∈ keys lv ↔ k ∈ keys lv') →
              (∀ k a b, get? k lv = some a → get? k lv' = some b → Same a b) →
              (∀ k, k ∈ keys rv ↔ k ∈ keys rv') →
              (∀ k a b, get? k rv = some a → get? k rv' = some b → Same a b) →
              allKeys (xeq eqν n) lv rv lo = .ok true → allKeys (xeq eqν m) lv' rv' lo' = .ok false → False := by
            intro n m lv lv' rv rv' lo lo' ih w w' hk hV hk' hV' ht hf
            obtain ⟨k, hkin, hd⟩ := allKeys_false hf
            have hklo : k ∈ lo := (w.2.2 k).2 ((hk k).2 ((w'.2.2 k).1 hkin))
            obtain ⟨a, b, hb, ha, hab⟩ := allKeys_true ht k hklo
            rcases hd with hnone | ⟨a', b', hb', ha', hab'⟩
            · have : k ∈ keys rv' := (hk' k).1 (mem_keys_of_get? hb)
              exact (get?_eq_none_iff.1 hnone) this
            · have := ih a a' b b' (hV k a a' ha ha') (hV' k b b' hb hb') _ _ hab hab'
              cases this
          cases c <;> cases c'
          · rfl
          · exact (key m n lv' lv rv' rv lo' lo
              (fun a a' b b' sa sb c c' h1 h2 => (ih a' a b' b (same_symm sa) (same_symm sb) c' c h2 h1).symm)
              w' w (fun k => (hk k).symm) (fun k a b ha hb => same_symm (hV k b a hb ha))
              (fun k => (hk' k).symm) (fun k a b ha hb => same_symm (hV' k b a hb ha)) h' h).elim
          · exact (key n m lv lv' rv rv' lo lo' ih w w' hk hV hk' hV' h h').elim
          · rfl
        · have hne' : ¬ lv'.length = rv'.length := by omega
          simp only [hne, hne', ne_eq, not_false_eq_true, if_true] at h h'
          cases h; cases h'; rfl
      | null => simp [xeq] at h h'; subst_vars; rfl
      | num _ => simp [xeq] at h h'; subst_vars; rfl
      | str _ => simp [xeq] at h h'; subst_vars; rfl
      | bool _ => simp [xeq] at h h'; subst_vars; rfl
      | arr _ _ => simp [xeq] at h h'; subst_vars; rfl

theorem sizeOf_lt_of_get? {k : String} {a : PV ν} {lv : List (String × PV ν)} (h : get? k lv = some a) :
    sizeOf a < sizeOf lv := by
  have hm := get?_some_mem h
  have := List.sizeOf_lt_of_mem hm
  simp only [Prod.mk.sizeOf_spec] at this
  omega

/-- on well-formed plain values the comparison always finishes with a verdict once the fuel exceeds the size of the
left operand: no error, no panic (`keyOrder` only names keys the map holds) -/
theorem xeq_total (eqν : ν → ν → Bool) : ∀ (n : Nat) (l l' r : PV ν), Same l l' → sizeOf l < n →
    ∃ c, xeq eqν n l r = .ok c
  | 0, _, _, _, _, h => by omega
  | n + 1, l, l', r, hl, hsz => by
    cases hl with
    | null => exact ⟨_, rfl⟩
    | num x => exact ⟨_, rfl⟩
    | str x => exact ⟨_, rfl⟩
    | bool x => exact ⟨_, rfl⟩
    | @arr xs xs' hlen hX =>
      cases r with
      | arr ys =>
        simp only [xeq]
        by_cases hne : xs.length = ys.length
        · simp only [hne, ne_eq, not_true, if_false]
          apply allPairs_total
          intro a ha b
          obtain ⟨a', ha'⟩ := exists_zip_left hlen ha
          have h1 := List.sizeOf_lt_of_mem ha
          simp only [PV.arr.sizeOf_spec] at hsz
          exact xeq_total eqν n a a' b (hX a a' ha') (by omega)
        · exact ⟨false, by simp [hne]⟩
      | null => exact ⟨_, rfl⟩
      | num _ => exact ⟨_, rfl⟩
      | str _ => exact ⟨_, rfl⟩
      | bool _ => exact ⟨_, rfl⟩
      | hm _ _ => exact ⟨_, rfl⟩
      | other _ => exact ⟨_, rfl⟩
    | @hm lv lv' lo lo' w w' hk hV =>
      cases r with
      | hm rv ro =>
        simp only [xeq]
        by_cases hne : lv.length = rv.length
        · simp only [hne, ne_eq, not_true, if_false]
          apply allKeys_total
          intro k hkin
          obtain ⟨a, ha⟩ := get?_isSome_of_mem_keys ((w.2.2 k).1 hkin)
          obtain ⟨a', ha'⟩ := get?_isSome_of_mem_keys ((hk k).1 (mem_keys_of_get? ha))
          refine ⟨a, ha, fun b => ?_⟩
          have h1 := sizeOf_lt_of_get? ha
          simp only [PV.hm.sizeOf_spec] at hsz
          exact xeq_total eqν n a a' b (hV k a a' ha ha') (by omega)
        · exact ⟨false, by simp [hne]⟩
      | null => exact ⟨_, rfl⟩
      | num _ => exact ⟨_, rfl⟩
      | str _ => exact ⟨_, rfl⟩
      | bool _ => exact ⟨_, rfl⟩
      | arr _ => exact ⟨_, rfl⟩
      | other _ => exact ⟨_, rfl⟩

end Xeq

end ZnVerif.Proofs.MapSites
