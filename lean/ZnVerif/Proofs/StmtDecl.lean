/-
Token-level round trip with layout, part 6: function bodies (输入 line, statements, 拦截 handlers), 如何 / 如何新建 declarations,
定义 with its members.
-/
import ZnVerif.Proofs.StmtBranch

namespace ZnVerif.Proofs.StmtRT
open ZnVerif.Model ZnVerif.Model.Parser ZnVerif.Generated.Tokens ZnVerif.Generated.ParserTables
open ZnVerif.Spec.StmtSyntax

variable {Y : Layout} {v : Variant}

def fE (ts : List Token) : Nat := 16 * ts.length + 48

/-- `ParseExecBlock`'s loop in its statement / handler state on a rendering of the handlers `cs` -/
def CHandlers (v : Variant) (Y : Layout) (d : Nat) (cs : List (Option Ident × Option (List Stmt))) (ts : List Token) : Prop :=
  ∀ p1 rest fl st inputs stmts catches, (st = ExSt.stmt ∨ st = ExSt.catch_) → Y.InOrder (ts ++ rest) → Brk Y ts rest →
    FollB Y d rest →
    Stable v Y (.execLoop d st inputs stmts catches) (S Y p1 (ts ++ rest) fl)
      (.ok (.mk inputs (some stmts) (catches ++ cs)) (S Y (lastTok p1 ts) rest (exitFl fl ts))) (fB ts)

/-- `ParseExecBlock` on a rendering of the body `x` -/
def CExec (v : Variant) (Y : Layout) (d : Nat) (x : ExecBlock) (ts : List Token) : Prop :=
  ∀ p1 rest, Y.InOrder (ts ++ rest) → AfterB Y d ts.getLast? rest →
    Stable v Y (.execBlock d) (S Y p1 (ts ++ rest) false) (.ok x (S Y ts.getLast? rest true)) (fE ts)

/-- `ParseClassDeclareStmt`'s loop on a rendering of the members -/
def CMembers (v : Variant) (Y : Layout) (d : Nat) (ps : List (Option Ident × Expr)) (ms gs : List Stmt) (ts : List Token) : Prop :=
  ∀ p1 rest fl props methods getters, Y.InOrder (ts ++ rest) → Brk Y ts rest → FollB Y d rest →
    Stable v Y (.classLoop d props methods getters) (S Y p1 (ts ++ rest) fl)
      (.ok (props ++ ps, methods ++ ms, getters ++ gs) (S Y (lastTok p1 ts) rest (exitFl fl ts))) (fB ts)

theorem FollB.weaken {d : Nat} {rest : List Token} (h : FollB Y d rest) : FollB Y (d + 1) rest :=
  ⟨h.nc, h.dedent.elim Or.inl (fun h => Or.inr (by omega))⟩

theorem brk_mid_left {t1 t2 rest : List Token} (hsep : Y.Sep t1 t2) (hb : Brk Y (t1 ++ t2) rest) : Brk Y t1 (t2 ++ rest) := by
  intro h1
  by_cases h2 : t2 = []
  · subst h2
    have := hb (by simpa using h1)
    simpa using this
  · rcases hsep with hsep | hsep
    · exact absurd hsep h2
    · rw [peek_append h2]; exact hsep

theorem foll_mid {d : Nat} {H : List Nat} {t2 rest : List Token} (hH : Heads Y d H t2)
    (hHs : ∀ ty ∈ H, ty ≠ cTypeCommaSep ∧ ty ∉ condKeywords) (hf : Foll Y d rest) : Foll Y d (t2 ++ rest) := by
  by_cases h2 : t2 = []
  · subst h2; exact hf
  · have hp := hH h2
    rw [← peek_append h2 rest] at hp
    exact ⟨(hHs _ hp.1).1, Or.inr (Or.inr ⟨hp.2, (hHs _ hp.1).2⟩)⟩

theorem exitFl_exitFl (fl : Bool) (t1 t2 : List Token) : exitFl (exitFl fl t1) t2 = exitFl fl (t1 ++ t2) := by
  by_cases h1 : t1 = []
  · subst h1; rfl
  · rw [exitFl_ne fl h1, exitFl_append fl t2 h1]

-- ---- handlers ----------------------------------------------------------------------------------------------------------------

theorem hand_nil (d : Nat) : CHandlers v Y d [] [] := by
  intro p1 rest fl st inputs stmts catches hst ho hb hf n' hn
  obtain ⟨m, rfl⟩ : ∃ m, n' = m + 1 := ⟨n' - 1, by unfold fB at hn; omega⟩
  show pExecLoop v (layoutOps Y) m _ d st inputs stmts catches _ = _
  unfold pExecLoop
  rw [bind_ok (getS_S _)]
  have hsti : ¬ st = ExSt.input := by rcases hst with rfl | rfl <;> decide
  simp only [List.nil_append, blockCond_false d p1 rest fl hf.ends, Bool.false_eq_true, if_false, hsti, List.append_nil,
    lastTok_nil, exitFl_nil]
  rfl

/-- `ParseCatchErrorStmt` after 拦截 -/
theorem catch_rt {d : Nat} {cls colon : Token} {b : List Stmt} {tb : List Token}
    (hcls : cls.type = cTypeIdentifier) (hcol : colon.type = cTypeFuncCall) (hg : Y.Glued [cls, colon])
    (hind : Y.ind colon = d) (hne : tb ≠ []) (hH : Heads Y (d + 1) stmtHeads tb) (hB : CBlockA v Y (d + 1) b tb)
    (a : Option Token) (rest : List Token) (ho : Y.InOrder (cls :: colon :: (tb ++ rest)))
    (hb : Y.jf tb.getLast? (Y.peek rest) = true) (hf : FollB Y (d + 1) rest) (m : Nat) (hm : fB tb + 1 ≤ m + 1) :
    parse v (layoutOps Y) (m + 2) .catchStmt (S Y a (cls :: colon :: (tb ++ rest)) false) =
      .ok (some (Y.idOf cls), some b) (S Y tb.getLast? rest true) := by
  show pCatchStmt v (layoutOps Y) (m + 1) _ _ = _
  unfold pCatchStmt
  rw [bind_ok (parseID_hit m a cls _ hcls ho)]
  have hb1 : Y.brk cls (Y.peek (colon :: (tb ++ rest))) = false := glued_head hg
  rw [hb1]
  obtain ⟨h2, h3, h4⟩ := colon_block (v := v) hcol hind hne hH hB (some cls) rest (inOrder_tail ho) hb hf (m + 1) hm
  rw [bind_ok h2, bind_ok h3]
  dsimp only
  show (parse v (layoutOps Y) (m + 1) (.block (d + 1)) >>= _) _ = _
  rw [bind_ok h4]
  rfl

theorem hand_cons {d : Nat} {kw cls colon : Token} {b : List Stmt} {tb : List Token}
    {cs : List (Option Ident × Option (List Stmt))} {tc : List Token}
    (hk : kw.type = cTypeCatchErrorW) (hcls : cls.type = cTypeIdentifier) (hcol : colon.type = cTypeFuncCall)
    (hg : Y.Glued [kw, cls, colon]) (hik : Y.ind kw = d) (hind : Y.ind colon = d) (hne : tb ≠ [])
    (hH : Heads Y (d + 1) stmtHeads tb) (hB : CBlockA v Y (d + 1) b tb) (hC : CHandlers v Y d cs tc)
    (hHc : Heads Y d [cTypeCatchErrorW] tc) (hsep : Y.Sep tb tc) :
    CHandlers v Y d ((some (Y.idOf cls), some b) :: cs) (kw :: cls :: colon :: (tb ++ tc)) := by
  intro p1 rest fl st inputs stmts catches hst ho hb hf n' hn
  obtain ⟨m, rfl⟩ : ∃ m, n' = m + 3 := ⟨n' - 3, by unfold fB at hn; omega⟩
  have e0 : (kw :: cls :: colon :: (tb ++ tc)) ++ rest = kw :: cls :: colon :: (tb ++ (tc ++ rest)) := by simp
  rw [e0] at ho ⊢
  have el : (kw :: cls :: colon :: (tb ++ tc)).getLast? = (tb ++ tc).getLast? :=
    getLast?_append_ne [kw, cls, colon] (by simp [hne])
  have hbr : Brk Y (tb ++ tc) rest := fun h => by rw [← el]; exact hb (by simp)
  have hlt : lastTok p1 (kw :: cls :: colon :: (tb ++ tc)) = lastTok tb.getLast? tc := by
    rw [lastTok_ne p1 (by simp), el, ← lastTok_ne p1 (by simp [hne] : tb ++ tc ≠ []), lastTok_append, lastTok_ne p1 hne]
  have hfl : exitFl fl (kw :: cls :: colon :: (tb ++ tc)) = exitFl true tc := by
    rw [exitFl_ne fl (by simp)]
    by_cases h : tc = []
    · subst h; rfl
    · rw [exitFl_ne _ h]
  rw [hlt, hfl]
  have hkc : kw.type ≠ cTypeCommaSep := by rw [hk]; decide
  have hlen : fB tb + 1 ≤ m + 1 ∧ fB tc ≤ m + 2 := by
    unfold fB at hn ⊢; simp only [List.length_cons, List.length_append] at hn; omega
  have hab : AfterB Y (d + 1) tb.getLast? (tc ++ rest) := afterB_mid hne hsep hbr hf.weaken hHc (by decide)
  have hcatch := catch_rt (v := v) hcls hcol (glued_tail hg) hind hne hH hB (some kw) (tc ++ rest) (inOrder_tail ho) hab.brk
    ⟨hab.nc, hab.dedent⟩ m hlen.1
  have hrest := hC tb.getLast? rest true .catch_ inputs stmts (catches ++ [(some (Y.idOf cls), some b)]) (Or.inr rfl)
    (inOrder_drop tb (inOrder_drop [kw, cls, colon] ho)) hbr.right hf (m + 2) hlen.2
  have hb1 : Y.brk kw (Y.peek (cls :: colon :: (tb ++ (tc ++ rest)))) = false := glued_head hg
  show pExecLoop v (layoutOps Y) (m + 2) _ d st inputs stmts catches _ = _
  unfold pExecLoop
  rw [bind_ok (getS_S _)]
  have hbc : blockCond (layoutOps Y) d (S Y p1 (kw :: cls :: colon :: (tb ++ (tc ++ rest))) fl) = true :=
    blockCond_true d p1 _ fl (by show kw.type ≠ _; rw [hk]; decide) hik
  simp only [hbc, if_true]
  rcases hst with rfl | rfl
  · dsimp only
    rw [bind_ok (unsetFlag_S p1 _ fl), bind_ok (tryConsume_hit (m + 1) _ p1 kw _ (by simp [hk]) hkc ho), hb1]
    dsimp only
    show (parse v (layoutOps Y) (m + 2) .catchStmt >>= _) _ = _
    rw [bind_ok hcatch]
    show parse v (layoutOps Y) (m + 2) (.execLoop d .catch_ inputs stmts _) _ = _
    rw [hrest]
    simp
  · dsimp only
    rw [bind_ok (unsetFlag_S p1 _ fl), bind_ok (tryConsume_hit (m + 1) _ p1 kw _ (by simp [hk]) hkc ho), hb1]
    dsimp only
    show (parse v (layoutOps Y) (m + 2) .catchStmt >>= _) _ = _
    rw [bind_ok hcatch]
    show parse v (layoutOps Y) (m + 2) (.execLoop d .catch_ inputs stmts _) _ = _
    rw [hrest]
    simp

-- ---- bodies ------------------------------------------------------------------------------------------------------------------

/-- the first token of a body without 输入 line -/
theorem body_head {d : Nat} {tb tc : List Token} (hHb : Heads Y d stmtHeads tb) (hHc : Heads Y d [cTypeCatchErrorW] tc)
    (hne : tb ++ tc ≠ []) :
    (Y.peek (tb ++ tc)).type ∈ cTypeCatchErrorW :: stmtHeads ∧ Y.ind (Y.peek (tb ++ tc)) = d := by
  by_cases h : tb = []
  · subst h
    have h2 : tc ≠ [] := by simpa using hne
    have := hHc h2
    simp only [List.nil_append]
    exact ⟨by have := this.1; simp only [List.mem_cons, List.not_mem_nil, or_false] at this; simp [this], this.2⟩
  · rw [peek_append h]
    have := hHb h
    exact ⟨List.mem_cons_of_mem _ this.1, this.2⟩

theorem bodyHeads_spec : ∀ ty ∈ cTypeCatchErrorW :: stmtHeads, ty ≠ cTypeEOF ∧ ty ≠ cTypeCommaSep ∧ ty ≠ cTypeInputW ∧
    ty ∉ condKeywords := by decide

/-- statements, then handlers: the loop in its statement state -/
theorem exec_stmts {d : Nat} {body : List Stmt} {tb : List Token} {cs : List (Option Ident × Option (List Stmt))}
    {tc : List Token} (hBb : CBlockB v Y d body tb) (hC : CHandlers v Y d cs tc) (hHc : Heads Y d [cTypeCatchErrorW] tc)
    (hsep : Y.Sep tb tc) (p1 : Option Token) (rest : List Token) (fl : Bool) (inputs : List Ident)
    (ho : Y.InOrder (tb ++ (tc ++ rest))) (hb : Brk Y (tb ++ tc) rest) (hf : FollB Y d rest) :
    Stable v Y (.execLoop d .stmt inputs [] []) (S Y p1 (tb ++ (tc ++ rest)) fl)
      (.ok (.mk inputs (some body) cs) (S Y (lastTok p1 (tb ++ tc)) rest (exitFl fl (tb ++ tc)))) (fB tc + fB tb) := by
  have hh := hC (lastTok p1 tb) rest (exitFl fl tb) .stmt inputs body [] (Or.inl rfl) (inOrder_drop tb ho) hb.right hf
  rw [← lastTok_append, exitFl_exitFl] at hh
  exact hBb p1 (tc ++ rest) fl inputs [] _ (fB tc) ho (brk_mid_left hsep hb)
    (foll_mid hHc (by decide) hf.toFoll) hh

theorem exec_plain {d : Nat} {body : List Stmt} {tb : List Token} {cs : List (Option Ident × Option (List Stmt))}
    {tc : List Token} (hBb : CBlockB v Y d body tb) (hHb : Heads Y d stmtHeads tb) (hC : CHandlers v Y d cs tc)
    (hHc : Heads Y d [cTypeCatchErrorW] tc) (hsep : Y.Sep tb tc) (hne : tb ++ tc ≠ []) :
    CExec v Y d (.mk [] (some body) cs) (tb ++ tc) := by
  intro p1 rest ho ha n' hn
  obtain ⟨m, rfl⟩ : ∃ m, n' = m + 2 := ⟨n' - 2, by unfold fE at hn; omega⟩
  have e0 : (tb ++ tc) ++ rest = tb ++ (tc ++ rest) := List.append_assoc ..
  have hhd := body_head hHb hHc hne
  have hhs := bodyHeads_spec _ hhd.1
  have hpk : Y.peek (tb ++ (tc ++ rest)) = Y.peek (tb ++ tc) := by rw [← e0]; exact peek_append hne rest
  rw [e0] at ho ⊢
  show pExecLoop v (layoutOps Y) m _ d .input [] [] [] _ = _
  unfold pExecLoop
  rw [bind_ok (getS_S _)]
  have hbc : blockCond (layoutOps Y) d (S Y p1 (tb ++ (tc ++ rest)) false) = true :=
    blockCond_true d p1 _ false (by rw [hpk]; exact hhs.1) (by rw [hpk]; exact hhd.2)
  simp only [hbc, if_true]
  rw [bind_ok (tryConsume_miss m _ p1 _ false (Or.inr (by rw [hpk]; simpa using hhs.2.2.1)) (by rw [hpk]; exact hhs.2.1))]
  dsimp only
  have := exec_stmts (v := v) hBb hC hHc hsep p1 rest false [] ho (brk_of_last ha.brk) ⟨ha.nc, ha.dedent⟩ m
    (by unfold fE at hn; unfold fB; simp only [List.length_append] at hn ⊢; omega)
  rw [this, lastTok_ne p1 hne, exitFl_ne false hne]

theorem exec_input {d : Nat} {kw : Token} {ids : List Ident} {ti : List Token} {body : List Stmt} {tb : List Token}
    {cs : List (Option Ident × Option (List Stmt))} {tc : List Token}
    (hk : kw.type = cTypeInputW) (hi : LinIds Y ids ti) (hg : Y.Glued (kw :: ti)) (hik : Y.ind kw = d)
    (hBb : CBlockB v Y d body tb) (hHb : Heads Y d stmtHeads tb) (hC : CHandlers v Y d cs tc)
    (hHc : Heads Y d [cTypeCatchErrorW] tc) (hsep0 : Y.Sep (kw :: ti) (tb ++ tc)) (hsep : Y.Sep tb tc) (hne : tb ++ tc ≠ []) :
    CExec v Y d (.mk ids (some body) cs) (kw :: ti ++ (tb ++ tc)) := by
  intro p1 rest ho ha n' hn
  obtain ⟨m, rfl⟩ : ∃ m, n' = m + 4 := ⟨n' - 4, by unfold fE at hn; omega⟩
  have hfi := linIds_facts hi
  have e0 : (kw :: ti ++ (tb ++ tc)) ++ rest = kw :: (ti ++ (tb ++ (tc ++ rest))) := by simp
  have e1 : tb ++ (tc ++ rest) = (tb ++ tc) ++ rest := (List.append_assoc ..).symm
  have hhd := body_head hHb hHc hne
  have hhs := bodyHeads_spec _ hhd.1
  have hpk : Y.peek (tb ++ (tc ++ rest)) = Y.peek (tb ++ tc) := by rw [e1]; exact peek_append hne rest
  have el : (kw :: ti ++ (tb ++ tc)).getLast? = (tb ++ tc).getLast? := getLast?_append_ne (kw :: ti) hne
  rw [el] at ha
  rw [e0] at ho ⊢
  rw [el]
  have hkc : kw.type ≠ cTypeCommaSep := by rw [hk]; decide
  have hjs : Y.jf ti.getLast? (Y.peek (tb ++ (tc ++ rest))) = true := by
    rcases hsep0 with h | h
    · exact absurd h hne
    · rw [hpk]
      have : (kw :: ti).getLast? = ti.getLast? := getLast?_append_ne [kw] hfi.1
      rwa [this] at h
  show pExecLoop v (layoutOps Y) (m + 2) _ d .input [] [] [] _ = _
  unfold pExecLoop
  rw [bind_ok (getS_S _)]
  have hbc : blockCond (layoutOps Y) d (S Y p1 (kw :: (ti ++ (tb ++ (tc ++ rest)))) false) = true :=
    blockCond_true d p1 _ false (by show kw.type ≠ _; rw [hk]; decide) hik
  simp only [hbc, if_true]
  rw [bind_ok (tryConsume_hit (m + 1) _ p1 kw _ (by simp [hk]) hkc ho)]
  dsimp only
  have hb1 : Y.brk kw (Y.peek (ti ++ (tb ++ (tc ++ rest)))) = false := by
    rw [peek_append hfi.1]
    cases ti with
    | nil => exact absurd rfl hfi.1
    | cons u r => exact glued_head hg
  rw [hb1]
  have hids := ids_roundtrip (v := v) hi (some kw) (tb ++ (tc ++ rest)) [] (glued_tail hg) (inOrder_tail ho)
    ⟨by rw [hpk]; exact hhs.2.1, Or.inl hjs⟩ (m + 2)
    (by unfold fE at hn; simp only [List.length_cons, List.length_append] at hn; omega)
  show (parse v (layoutOps Y) (m + 2) (.commaIds []) >>= _) _ = _
  rw [bind_ok hids]
  unfold Send
  rw [hjs]
  show pExecLoop v (layoutOps Y) (m + 1) _ d .input ([] ++ ids) [] [] _ = _
  unfold pExecLoop
  rw [bind_ok (getS_S _)]
  have hbc2 : blockCond (layoutOps Y) d (S Y ti.getLast? (tb ++ (tc ++ rest)) true) = true :=
    blockCond_true d _ _ true (by rw [hpk]; exact hhs.1) (by rw [hpk]; exact hhd.2)
  simp only [hbc2, if_true]
  rw [bind_ok (tryConsume_miss (m + 1) _ _ _ true (Or.inl rfl) (by rw [hpk]; exact hhs.2.1))]
  dsimp only
  have := exec_stmts (v := v) hBb hC hHc hsep ti.getLast? rest true ([] ++ ids) (inOrder_drop ti (inOrder_tail ho))
    (brk_of_last ha.brk) ⟨ha.nc, ha.dedent⟩ (m + 1)
    (by unfold fE at hn; unfold fB; simp only [List.length_cons, List.length_append] at hn ⊢; omega)
  rw [this, lastTok_ne _ hne, exitFl_ne true hne]
  rfl

-- ---- 如何 ------------------------------------------------------------------------------------------------------------------

/-- `parseFunctionBlock`: name, `？`, the body one step deeper -/
theorem functionBlock_rt {d : Nat} {name q : Token} {x : ExecBlock} {tx : List Token}
    (hname : name.type = cTypeIdentifier) (hq : q.type = cTypeFuncDeclare) (hg : Y.Glued [name, q]) (hind : Y.ind q = d)
    (hne : tx ≠ []) (hpx : (Y.peek tx).type ≠ cTypeEOF ∧ Y.ind (Y.peek tx) = d + 1) (hX : CExec v Y (d + 1) x tx)
    (a : Option Token) (rest : List Token) (ho : Y.InOrder (name :: q :: (tx ++ rest)))
    (hab : AfterB Y (d + 1) tx.getLast? rest) (m : Nat) (hm : fE tx ≤ m + 1) :
    parse v (layoutOps Y) (m + 2) .functionBlock (S Y a (name :: q :: (tx ++ rest)) false) =
      .ok (Y.idOf name, x) (S Y tx.getLast? rest true) := by
  show pFunctionBlock v (layoutOps Y) (m + 1) _ _ = _
  unfold pFunctionBlock
  rw [bind_ok (parseID_hit m a name _ hname ho)]
  have hb1 : Y.brk name (Y.peek (q :: (tx ++ rest))) = false := glued_head hg
  rw [hb1]
  have hpk : Y.peek (tx ++ rest) = Y.peek tx := peek_append hne rest
  rw [bind_ok (consume_hit m _ _ q _ (by simp [hq]) (by rw [hq]; decide) (inOrder_tail ho))]
  have hb2 : Y.brk q (Y.peek (tx ++ rest)) = false :=
    brk_after_open (by rw [hq]; decide) (by rw [hpk]; exact hpx.1)
  rw [hb2, bind_ok (expectBlockIndent_S q _ false d hind (by rw [hpk]; exact hpx.2))]
  dsimp only
  show (parse v (layoutOps Y) (m + 1) (.execBlock (d + 1)) >>= _) _ = _
  rw [bind_ok (hX (some q) rest (inOrder_tail (inOrder_tail ho)) hab (m + 1) hm)]
  rfl

theorem stmt_func {d : Nat} {kw name q : Token} {x : ExecBlock} {tx : List Token}
    (hk : kw.type = cTypeFuncW) (hname : name.type = cTypeIdentifier) (hq : q.type = cTypeFuncDeclare)
    (hg : Y.Glued [kw, name, q]) (hind : Y.ind q = d) (hne : tx ≠ [])
    (hpx : (Y.peek tx).type ≠ cTypeEOF ∧ Y.ind (Y.peek tx) = d + 1) (hX : CExec v Y (d + 1) x tx) :
    CStmt v Y d (.funcDecl (Y.sl kw) (some (Y.idOf name)) cDeclareTypeFunc (some x)) (kw :: name :: q :: tx) := by
  intro p1 rest fl ho ha n' hn
  obtain ⟨m, rfl⟩ : ∃ m, n' = m + 4 := ⟨n' - 4, by unfold fS at hn; omega⟩
  have el : (kw :: name :: q :: tx).getLast? = tx.getLast? := getLast?_append_ne [kw, name, q] hne
  rw [el] at ha ⊢
  have e0 : (kw :: name :: q :: tx) ++ rest = kw :: name :: q :: (tx ++ rest) := rfl
  rw [e0] at ho ⊢
  refine statement_kw (Y := Y) (v := v) (m + 2) p1 fl kw _ (.funcDecl 0 (some (Y.idOf name)) cDeclareTypeFunc (some x)) _ rest
    (by rw [hk]; decide) (by rw [hk]; decide) ho ?_
  rw [stmtBody_func _ _ _ _ _ hk]
  have hb1 : Y.brk kw (Y.peek (name :: q :: (tx ++ rest))) = false := glued_head hg
  rw [hb1, bind_ok (tryConsume_miss (m + 3) _ (some kw) (name :: q :: (tx ++ rest)) false
    (Or.inr (by show name.type ∉ _; rw [hname]; decide)) (by show name.type ≠ _; rw [hname]; decide))]
  dsimp only
  show (parse v (layoutOps Y) (m + 3) .functionBlock >>= _) _ = _
  rw [bind_ok (functionBlock_rt (v := v) hname hq (glued_tail hg) hind hne hpx hX (some kw) rest (inOrder_tail ho) ha.inner (m + 1)
    (by unfold fS at hn; unfold fE; simp only [List.length_cons] at hn; omega))]
  rfl

theorem stmt_ctor {d : Nat} {kw nw name q : Token} {x : ExecBlock} {tx : List Token}
    (hk : kw.type = cTypeFuncW) (hnw : nw.type = cTypeObjNewW) (hname : name.type = cTypeIdentifier)
    (hq : q.type = cTypeFuncDeclare) (hg : Y.Glued [kw, nw, name, q]) (hind : Y.ind q = d) (hne : tx ≠ [])
    (hpx : (Y.peek tx).type ≠ cTypeEOF ∧ Y.ind (Y.peek tx) = d + 1) (hX : CExec v Y (d + 1) x tx) :
    CStmt v Y d (.funcDecl (Y.sl kw) (some (Y.idOf name)) cDeclareTypeConstructor (some x)) (kw :: nw :: name :: q :: tx) := by
  intro p1 rest fl ho ha n' hn
  obtain ⟨m, rfl⟩ : ∃ m, n' = m + 4 := ⟨n' - 4, by unfold fS at hn; omega⟩
  have el : (kw :: nw :: name :: q :: tx).getLast? = tx.getLast? := getLast?_append_ne [kw, nw, name, q] hne
  rw [el] at ha ⊢
  have e0 : (kw :: nw :: name :: q :: tx) ++ rest = kw :: nw :: name :: q :: (tx ++ rest) := rfl
  rw [e0] at ho ⊢
  refine statement_kw (Y := Y) (v := v) (m + 2) p1 fl kw _ (.funcDecl 0 (some (Y.idOf name)) cDeclareTypeConstructor (some x)) _ rest
    (by rw [hk]; decide) (by rw [hk]; decide) ho ?_
  rw [stmtBody_func _ _ _ _ _ hk]
  have hb1 : Y.brk kw (Y.peek (nw :: name :: q :: (tx ++ rest))) = false := glued_head hg
  rw [hb1, bind_ok (tryConsume_hit (m + 2) _ (some kw) nw _ (by simp [hnw]) (by rw [hnw]; decide) (inOrder_tail ho))]
  dsimp only
  have hb2 : Y.brk nw (Y.peek (name :: q :: (tx ++ rest))) = false := glued_head (glued_tail hg)
  rw [hb2]
  show (parse v (layoutOps Y) (m + 3) .functionBlock >>= _) _ = _
  rw [bind_ok (functionBlock_rt (v := v) hname hq (glued_tail (glued_tail hg)) hind hne hpx hX (some nw) rest
    (inOrder_tail (inOrder_tail ho)) ha.inner (m + 1)
    (by unfold fS at hn; unfold fE; simp only [List.length_cons] at hn; omega))]
  rfl

-- ---- 定义 ------------------------------------------------------------------------------------------------------------------

theorem classChild_spec : ∀ ty ∈ classChildTypes, ty ≠ cTypeEOF ∧ ty ≠ cTypeCommaSep := by decide

theorem mem_nil (d : Nat) : CMembers v Y d [] [] [] [] := by
  intro p1 rest fl props methods getters ho hb hf n' hn
  obtain ⟨m, rfl⟩ : ∃ m, n' = m + 1 := ⟨n' - 1, by unfold fB at hn; omega⟩
  show pClassLoop v (layoutOps Y) m _ d props methods getters _ = _
  unfold pClassLoop
  rw [bind_ok (getS_S _)]
  simp only [List.nil_append, blockCond_false d p1 rest fl hf.ends, Bool.false_eq_true, if_false, List.append_nil,
    lastTok_nil, exitFl_nil]
  rfl

/-- bookkeeping for a member `t1` followed by the members `tm` -/
theorem mem_shape (p1 : Option Token) (fl : Bool) {t1 : List Token} (tm : List Token) (h1 : t1 ≠ []) :
    lastTok p1 (t1 ++ tm) = lastTok t1.getLast? tm ∧ exitFl fl (t1 ++ tm) = exitFl true tm :=
  ⟨by rw [lastTok_append, lastTok_ne p1 h1], exitFl_append fl tm h1⟩

theorem mem_prop {d : Nat} {kw name asg : Token} {e : Expr} {te : List Token} {ps : List (Option Ident × Expr)}
    {ms gs : List Stmt} {tm : List Token}
    (hk : kw.type = cTypeObjThisW) (hname : name.type = cTypeIdentifier) (hasg : asg.type ∈ [cTypeAssignW, cTypeAssignMark])
    (he : LinE Y 1 e te) (hg : Y.Glued (kw :: name :: asg :: te)) (hik : Y.ind kw = d) (hM : CMembers v Y d ps ms gs tm)
    (hHm : Heads Y d classChildTypes tm) (hsep : Y.Sep (kw :: name :: asg :: te) tm) :
    CMembers v Y d ((some (Y.idOf name), e) :: ps) ms gs (kw :: name :: asg :: te ++ tm) := by
  intro p1 rest fl props methods getters ho hb hf n' hn
  obtain ⟨m, rfl⟩ : ∃ m, n' = m + 3 := ⟨n' - 3, by unfold fB at hn; omega⟩
  have hfe := linE_facts he
  have h1 : kw :: name :: asg :: te ≠ [] := by simp
  obtain ⟨hlt, hfl⟩ := mem_shape p1 fl tm h1
  have el : (kw :: name :: asg :: te).getLast? = te.getLast? := getLast?_append_ne [kw, name, asg] hfe.1
  rw [hlt, hfl, el]
  have e0 : (kw :: name :: asg :: te ++ tm) ++ rest = kw :: name :: asg :: (te ++ (tm ++ rest)) := by simp
  rw [e0] at ho ⊢
  have hkc : kw.type ≠ cTypeCommaSep := by rw [hk]; decide
  have hasgc : asg.type ≠ cTypeCommaSep := by
    intro hh; rw [hh] at hasg; revert hasg; decide
  show pClassLoop v (layoutOps Y) (m + 2) _ d props methods getters _ = _
  unfold pClassLoop
  rw [bind_ok (getS_S _)]
  have hbc : blockCond (layoutOps Y) d (S Y p1 (kw :: name :: asg :: (te ++ (tm ++ rest))) fl) = true :=
    blockCond_true d p1 _ fl (by show kw.type ≠ _; rw [hk]; decide) hik
  simp only [hbc, if_true]
  rw [bind_ok (unsetFlag_S p1 _ fl), bind_ok (tryConsume_hit (m + 1) _ p1 kw _ (by rw [hk]; decide) hkc ho)]
  dsimp only
  have hn1 : ¬ kw.type = cTypeFuncW := by rw [hk]; decide
  have hn2 : ¬ kw.type = cTypeGetterW := by rw [hk]; decide
  simp only [hn1, hn2, hk, if_false, if_true]
  have hb1 : Y.brk kw (Y.peek (name :: asg :: (te ++ (tm ++ rest)))) = false := glued_head hg
  rw [hb1]
  -- the property
  have hafter : After Y d te.getLast? (tm ++ rest) := by
    have := after_mid (d := d) h1 hsep hb hf.toFoll hHm (by decide)
    rwa [el] at this
  have hprop : parse v (layoutOps Y) (m + 2) .propertyDecl (S Y (some kw) (name :: asg :: (te ++ (tm ++ rest))) false) =
      .ok (some (Y.idOf name), e) (S Y te.getLast? (tm ++ rest) true) := by
    show pPropertyDecl v (layoutOps Y) (m + 1) _ _ = _
    unfold pPropertyDecl
    have ho1 := inOrder_tail ho
    rw [bind_ok (parseID_hit m _ name _ hname ho1)]
    have hb2 : Y.brk name (Y.peek (asg :: (te ++ (tm ++ rest)))) = false := glued_head (glued_tail hg)
    rw [hb2, bind_ok (consume_hit m _ _ asg _ hasg hasgc (inOrder_tail ho1))]
    have hg3 : Y.Glued (asg :: te) := glued_tail (glued_tail hg)
    have hb3 : Y.brk asg (Y.peek (te ++ (tm ++ rest))) = false := by
      rw [peek_append hfe.1]
      cases te with
      | nil => exact absurd rfl hfe.1
      | cons u r => exact glued_head hg3
    rw [hb3]
    show (parse v (layoutOps Y) (m + 1) (.expr true) >>= _) _ = _
    rw [bind_ok (expr_roundtrip (v := v) he (glued_tail hg3) (some asg) (tm ++ rest) (inOrder_tail (inOrder_tail ho1))
      (stop_of_after F1 hafter) (m + 1)
      (by unfold fB at hn; simp only [List.length_cons, List.length_append] at hn; omega)), hafter.send]
    rfl
  show (parse v (layoutOps Y) (m + 2) .propertyDecl >>= _) _ = _
  rw [bind_ok hprop]
  have hbr : Brk Y tm rest := hb.right
  have := hM te.getLast? rest true (props ++ [(some (Y.idOf name), e)]) methods getters
    (inOrder_drop te (inOrder_drop [kw, name, asg] ho)) hbr hf (m + 2)
    (by unfold fB at hn ⊢; simp only [List.length_cons, List.length_append] at hn; omega)
  show parse v (layoutOps Y) (m + 2) (.classLoop d _ methods getters) _ = _
  rw [this]
  simp

theorem mem_method {d : Nat} {kw name q : Token} {x : ExecBlock} {tx : List Token} {ps : List (Option Ident × Expr)}
    {ms gs : List Stmt} {tm : List Token}
    (hk : kw.type = cTypeFuncW) (hname : name.type = cTypeIdentifier) (hq : q.type = cTypeFuncDeclare)
    (hg : Y.Glued [kw, name, q]) (hik : Y.ind kw = d) (hind : Y.ind q = d) (hne : tx ≠ [])
    (hpx : (Y.peek tx).type ≠ cTypeEOF ∧ Y.ind (Y.peek tx) = d + 1) (hX : CExec v Y (d + 1) x tx)
    (hM : CMembers v Y d ps ms gs tm) (hHm : Heads Y d classChildTypes tm) (hsep : Y.Sep tx tm) :
    CMembers v Y d ps (.funcDecl 0 (some (Y.idOf name)) cDeclareTypeFunc (some x) :: ms) gs (kw :: name :: q :: (tx ++ tm)) := by
  intro p1 rest fl props methods getters ho hb hf n' hn
  obtain ⟨m, rfl⟩ : ∃ m, n' = m + 3 := ⟨n' - 3, by unfold fB at hn; omega⟩
  have e0 : (kw :: name :: q :: (tx ++ tm)) ++ rest = kw :: name :: q :: (tx ++ (tm ++ rest)) := by simp
  rw [e0] at ho ⊢
  have el : (kw :: name :: q :: (tx ++ tm)).getLast? = (tx ++ tm).getLast? :=
    getLast?_append_ne [kw, name, q] (by simp [hne])
  have hbr : Brk Y (tx ++ tm) rest := fun h => by rw [← el]; exact hb (by simp)
  have hlt : lastTok p1 (kw :: name :: q :: (tx ++ tm)) = lastTok tx.getLast? tm := by
    rw [lastTok_ne p1 (by simp), el, ← lastTok_ne p1 (by simp [hne] : tx ++ tm ≠ []), lastTok_append, lastTok_ne p1 hne]
  have hfl : exitFl fl (kw :: name :: q :: (tx ++ tm)) = exitFl true tm := by
    rw [exitFl_ne fl (by simp)]
    by_cases h : tm = []
    · subst h; rfl
    · rw [exitFl_ne _ h]
  rw [hlt, hfl]
  have hkc : kw.type ≠ cTypeCommaSep := by rw [hk]; decide
  show pClassLoop v (layoutOps Y) (m + 2) _ d props methods getters _ = _
  unfold pClassLoop
  rw [bind_ok (getS_S _)]
  have hbc : blockCond (layoutOps Y) d (S Y p1 (kw :: name :: q :: (tx ++ (tm ++ rest))) fl) = true :=
    blockCond_true d p1 _ fl (by show kw.type ≠ _; rw [hk]; decide) hik
  simp only [hbc, if_true]
  rw [bind_ok (unsetFlag_S p1 _ fl), bind_ok (tryConsume_hit (m + 1) _ p1 kw _ (by rw [hk]; decide) hkc ho)]
  dsimp only
  simp only [hk, if_true]
  have hb1 : Y.brk kw (Y.peek (name :: q :: (tx ++ (tm ++ rest)))) = false := glued_head hg
  rw [hb1]
  have hab : AfterB Y (d + 1) tx.getLast? (tm ++ rest) :=
    afterB_mid hne hsep hbr hf.weaken hHm (fun ty h => (classChild_spec ty h).2)
  show (parse v (layoutOps Y) (m + 2) .functionBlock >>= _) _ = _
  rw [bind_ok (functionBlock_rt (v := v) hname hq (glued_tail hg) hind hne hpx hX (some kw) (tm ++ rest) (inOrder_tail ho) hab m
    (by unfold fB at hn; unfold fE; simp only [List.length_cons, List.length_append] at hn; omega))]
  have := hM tx.getLast? rest true props (methods ++ [.funcDecl 0 (some (Y.idOf name)) cDeclareTypeFunc (some x)]) getters
    (inOrder_drop tx (inOrder_drop [kw, name, q] ho)) hbr.right hf (m + 2)
    (by unfold fB at hn ⊢; simp only [List.length_cons, List.length_append] at hn; omega)
  show parse v (layoutOps Y) (m + 2) (.classLoop d props _ getters) _ = _
  rw [this]
  simp

theorem mem_getter {d : Nat} {kw name q : Token} {x : ExecBlock} {tx : List Token} {ps : List (Option Ident × Expr)}
    {ms gs : List Stmt} {tm : List Token}
    (hk : kw.type = cTypeGetterW) (hname : name.type = cTypeIdentifier) (hq : q.type = cTypeFuncDeclare)
    (hg : Y.Glued [kw, name, q]) (hik : Y.ind kw = d) (hind : Y.ind q = d) (hne : tx ≠ [])
    (hpx : (Y.peek tx).type ≠ cTypeEOF ∧ Y.ind (Y.peek tx) = d + 1) (hX : CExec v Y (d + 1) x tx)
    (hM : CMembers v Y d ps ms gs tm) (hHm : Heads Y d classChildTypes tm) (hsep : Y.Sep tx tm) :
    CMembers v Y d ps ms (.funcDecl 0 (some (Y.idOf name)) cDeclareTypeGetter (some x) :: gs) (kw :: name :: q :: (tx ++ tm)) := by
  intro p1 rest fl props methods getters ho hb hf n' hn
  obtain ⟨m, rfl⟩ : ∃ m, n' = m + 3 := ⟨n' - 3, by unfold fB at hn; omega⟩
  have e0 : (kw :: name :: q :: (tx ++ tm)) ++ rest = kw :: name :: q :: (tx ++ (tm ++ rest)) := by simp
  rw [e0] at ho ⊢
  have el : (kw :: name :: q :: (tx ++ tm)).getLast? = (tx ++ tm).getLast? :=
    getLast?_append_ne [kw, name, q] (by simp [hne])
  have hbr : Brk Y (tx ++ tm) rest := fun h => by rw [← el]; exact hb (by simp)
  have hlt : lastTok p1 (kw :: name :: q :: (tx ++ tm)) = lastTok tx.getLast? tm := by
    rw [lastTok_ne p1 (by simp), el, ← lastTok_ne p1 (by simp [hne] : tx ++ tm ≠ []), lastTok_append, lastTok_ne p1 hne]
  have hfl : exitFl fl (kw :: name :: q :: (tx ++ tm)) = exitFl true tm := by
    rw [exitFl_ne fl (by simp)]
    by_cases h : tm = []
    · subst h; rfl
    · rw [exitFl_ne _ h]
  rw [hlt, hfl]
  have hkc : kw.type ≠ cTypeCommaSep := by rw [hk]; decide
  show pClassLoop v (layoutOps Y) (m + 2) _ d props methods getters _ = _
  unfold pClassLoop
  rw [bind_ok (getS_S _)]
  have hbc : blockCond (layoutOps Y) d (S Y p1 (kw :: name :: q :: (tx ++ (tm ++ rest))) fl) = true :=
    blockCond_true d p1 _ fl (by show kw.type ≠ _; rw [hk]; decide) hik
  simp only [hbc, if_true]
  rw [bind_ok (unsetFlag_S p1 _ fl), bind_ok (tryConsume_hit (m + 1) _ p1 kw _ (by rw [hk]; decide) hkc ho)]
  dsimp only
  have hn1 : ¬ kw.type = cTypeFuncW := by rw [hk]; decide
  simp only [hn1, hk, if_false, if_true]
  have hb1 : Y.brk kw (Y.peek (name :: q :: (tx ++ (tm ++ rest)))) = false := glued_head hg
  rw [hb1]
  have hab : AfterB Y (d + 1) tx.getLast? (tm ++ rest) :=
    afterB_mid hne hsep hbr hf.weaken hHm (fun ty h => (classChild_spec ty h).2)
  show (parse v (layoutOps Y) (m + 2) .functionBlock >>= _) _ = _
  rw [bind_ok (functionBlock_rt (v := v) hname hq (glued_tail hg) hind hne hpx hX (some kw) (tm ++ rest) (inOrder_tail ho) hab m
    (by unfold fB at hn; unfold fE; simp only [List.length_cons, List.length_append] at hn; omega))]
  have := hM tx.getLast? rest true props methods (getters ++ [.funcDecl 0 (some (Y.idOf name)) cDeclareTypeGetter (some x)])
    (inOrder_drop tx (inOrder_drop [kw, name, q] ho)) hbr.right hf (m + 2)
    (by unfold fB at hn ⊢; simp only [List.length_cons, List.length_append] at hn; omega)
  show parse v (layoutOps Y) (m + 2) (.classLoop d props methods _) _ = _
  rw [this]
  simp

theorem stmt_class {d : Nat} {kw name colon : Token} {ps : List (Option Ident × Expr)} {ms gs : List Stmt} {tm : List Token}
    (hk : kw.type = cTypeObjDefineW) (hname : name.type = cTypeIdentifier) (hcol : colon.type = cTypeFuncCall)
    (hg : Y.Glued [kw, name, colon]) (hind : Y.ind colon = d) (hne : tm ≠ []) (hM : CMembers v Y (d + 1) ps ms gs tm)
    (hHm : Heads Y (d + 1) classChildTypes tm) :
    CStmt v Y d (.classDecl (Y.sl kw) (some (Y.idOf name)) ps ms gs) (kw :: name :: colon :: tm) := by
  intro p1 rest fl ho ha n' hn
  obtain ⟨m, rfl⟩ : ∃ m, n' = m + 4 := ⟨n' - 4, by unfold fS at hn; omega⟩
  have el : (kw :: name :: colon :: tm).getLast? = tm.getLast? := getLast?_append_ne [kw, name, colon] hne
  rw [el] at ha ⊢
  have e0 : (kw :: name :: colon :: tm) ++ rest = kw :: name :: colon :: (tm ++ rest) := rfl
  rw [e0] at ho ⊢
  refine statement_kw (Y := Y) (v := v) (m + 2) p1 fl kw _ (.classDecl 0 (some (Y.idOf name)) ps ms gs) _ rest
    (by rw [hk]; decide) (by rw [hk]; decide) ho ?_
  rw [stmtBody_class _ _ _ _ _ hk]
  have hb1 : Y.brk kw (Y.peek (name :: colon :: (tm ++ rest))) = false := glued_head hg
  rw [hb1]
  show pClassDecl v (layoutOps Y) (m + 2) _ _ = _
  unfold pClassDecl
  have ho1 := inOrder_tail ho
  rw [bind_ok (parseID_hit (m + 1) _ name _ hname ho1)]
  have hb2 : Y.brk name (Y.peek (colon :: (tm ++ rest))) = false := glued_head (glued_tail hg)
  rw [hb2, bind_ok (consume_hit (m + 1) _ _ colon _ (by simp [hcol]) (by rw [hcol]; decide) (inOrder_tail ho1))]
  have hp := hHm hne
  have hpk : Y.peek (tm ++ rest) = Y.peek tm := peek_append hne rest
  have hb3 : Y.brk colon (Y.peek (tm ++ rest)) = false :=
    brk_after_open (by rw [hcol]; decide) (by rw [hpk]; exact (classChild_spec _ hp.1).1)
  rw [hb3, bind_ok (expectBlockIndent_S colon _ false d hind (by rw [hpk]; exact hp.2))]
  dsimp only
  have := hM (some colon) rest false [] [] [] (inOrder_tail (inOrder_tail ho1)) (brk_of_last ha.brk) ha.foll.inner (m + 2)
    (by unfold fS at hn; unfold fB; simp only [List.length_cons] at hn; omega)
  show (parse v (layoutOps Y) (m + 2) (.classLoop (d + 1) [] [] []) >>= _) _ = _
  rw [bind_ok this, lastTok_ne _ hne, exitFl_ne _ hne]
  rfl

end ZnVerif.Proofs.StmtRT
