/-
The one induction over the tagged parser (repaired variant).  `Good n rec`: every call `rec nt s` from a state satisfying the window
invariant, with complete accumulators, ends in
  * `ok a s'` with the invariant, no more tokens left than before (strictly fewer for the productions listed in `strict`),
    a current token once there was one, and `a` complete in the sense of Spec/Grammar (`PostC`);
  * or a syntax error with code 20…27 and a cursor inside the source;
  * never a Go run-time panic;
  * `fuel` only if `n < need nt s = 24 · tokensLeft + rank nt`.
`step_good : Good n rec → Good (n+1) (step n rec)` is proved production by production (this file and ParserGood2), and
`parse_good : Good n (parse n)` follows by induction on `n`.
-/
import ZnVerif.Proofs.ParserHoare
import ZnVerif.Spec.Grammar

namespace ZnVerif.Proofs.ParserGood
open ZnVerif.Model ZnVerif.Model.Parser ZnVerif.Generated.Tokens ZnVerif.Generated.ParserTables
open ZnVerif.Spec.Grammar ZnVerif.Proofs.ParserHoare

variable {σ : Type}

/-- position in the chains of calls that consume nothing before the call -/
def rank : NT → Nat
  | .memberTail _ | .basic | .commaIds _ | .funcCall _ | .objNew | .functionBlock | .throwStmt | .catchStmt
  | .importStmt | .classDecl | .classLoop .. | .propertyDecl | .chainLoop _ => 2
  | .member | .mulDivTail _ => 3
  | .mulDiv | .arithTail _ => 4
  | .arith => 5
  | .lv4 _ => 6
  | .lv3 _ | .lv2Tail .. => 7
  | .lv2 _ | .lv1Tail .. => 8
  | .expr _ => 9
  | .array | .arrayLoop _ | .hashLoop _ | .commaExprs _ | .memberFuncCall | .whileLoop | .iteratorRest _ | .varOneLead
  | .throwLoop _ | .branchLoop .. | .vdPair => 10
  | .branch | .varDecl | .varDeclLoop .. => 11
  | .statement => 12
  | .blockLoop .. | .execLoop _ .stmt .. | .execLoop _ .catch_ .. => 13
  | .block _ | .execLoop _ .input .. => 14
  | .execBlock _ => 15
  | .programLoop _ true .. => 16
  | .programLoop _ false .. => 17
  | .program => 18

/-- fuel that suffices for `nt` from state `s` -/
def need (μ : σ → Nat) (nt : NT) (s : PState σ) : Nat := 24 * m μ s + rank nt

/-- productions that consume at least one token whenever they succeed; the others are the ε-productions: the program and block
loops, the operator tails, the chain / throw / class loops (each returns without consuming when its continuation token is absent) -/
def strict : NT → Bool
  | .program | .programLoop .. | .lv1Tail .. | .lv2Tail .. | .arithTail _ | .mulDivTail _ | .memberTail _
  | .chainLoop _ | .varDeclLoop .. | .block _ | .blockLoop .. | .branchLoop .. | .execBlock _ | .execLoop ..
  | .throwLoop _ | .classLoop .. => false
  | _ => true

def PairOK (p : Nat × List Ident × Expr) : Prop := (p.1 = 1 ∨ p.1 = 3) ∧ p.2.1 ≠ [] ∧ CExpr p.2.2
def BlockOK (b : Option (List Stmt)) : Prop := ∃ l, b = some l ∧ ∀ s ∈ l, CStmt s
def CatchOK (c : Option Ident × Option (List Stmt)) : Prop := c.1.isSome ∧ BlockOK c.2
def PropOK (p : Option Ident × Expr) : Prop := p.1.isSome ∧ CExpr p.2
def ImportOK (im : Import) : Prop := im.name.isSome ∧ (im.libType = 1 ∨ im.libType = 2)

def BranchPre (st : BrSt) (b : BranchAcc) : Prop :=
  b.hasElse = false ∧ b.elseB = none ∧ (∀ o ∈ b.others, CExpr o.1 ∧ BlockOK o.2) ∧
  (st ≠ .init → CExpr b.ifE ∧ BlockOK b.ifB)

/-- what is assumed of the accumulators a loop tag carries -/
def PreC : NT → Prop
  | .programLoop _ _ ims ex => (∀ im ∈ ims, ImportOK im) ∧ (∀ x, ex = some x → CExec x)
  | .lv1Tail _ el | .lv2Tail _ el | .arithTail el | .mulDivTail el | .memberTail el => CExpr el
  | .arrayLoop items => ∀ e ∈ items, CExpr e
  | .hashLoop kvs => ∀ kv ∈ kvs, CExpr kv.1 ∧ CExpr kv.2
  | .commaExprs acc => ∀ e ∈ acc, CExpr e
  | .chainLoop c => c ≠ [] ∧ ∀ f ∈ c, CCall f
  | .varDeclLoop _ ps => ∀ p ∈ ps, PairOK p
  | .blockLoop _ acc => ∀ s ∈ acc, CStmt s
  | .branchLoop _ st acc => BranchPre st acc
  | .execLoop _ _ _ stmts cs => (∀ s ∈ stmts, CStmt s) ∧ ∀ c ∈ cs, CatchOK c
  | .iteratorRest ids => ids.length ≤ 2
  | .throwLoop acc => acc ≠ [] ∧ ∀ e ∈ acc, CExpr e
  | .classLoop _ ps ms gs => (∀ p ∈ ps, PropOK p) ∧ (∀ f ∈ ms, CFunc 1 f) ∧ (∀ g ∈ gs, CFunc 2 g)
  | _ => True

/-- what a successful production returns: a complete piece of tree -/
def PostC : (nt : NT) → nt.Out → Prop
  | .program, a | .programLoop .., a => Complete a
  | .statement, a | .varDecl, a | .whileLoop, a | .branch, a | .branchLoop .., a | .varOneLead, a | .iteratorRest _, a
  | .throwStmt, a | .classDecl, a => CStmt a
  | .expr _, a | .lv1Tail .., a | .lv2 _, a | .lv2Tail .., a | .lv3 _, a | .lv4 _, a | .arith, a | .arithTail _, a
  | .mulDiv, a | .mulDivTail _, a | .member, a | .memberTail _, a | .basic, a | .array, a | .arrayLoop _, a | .hashLoop _, a
  | .memberFuncCall, a | .objNew, a => CExpr a
  | .funcCall _, a => CCall a
  | .commaExprs _, a | .throwLoop _, a => a ≠ [] ∧ ∀ e ∈ a, CExpr e
  | .chainLoop _, a => a ≠ [] ∧ ∀ f ∈ a, CCall f
  | .commaIds _, a => a ≠ []
  | .varDeclLoop .., a => ∀ p ∈ a, PairOK p
  | .vdPair, a => PairOK a
  | .block _, a | .blockLoop .., a => ∀ s ∈ a, CStmt s
  | .functionBlock, a => CExec a.2
  | .execBlock _, a | .execLoop .., a => CExec a
  | .catchStmt, a => CatchOK a
  | .importStmt, a => ImportOK a
  | .classLoop .., a => (∀ p ∈ a.1, PropOK p) ∧ (∀ f ∈ a.2.1, CFunc 1 f) ∧ (∀ g ∈ a.2.2, CFunc 2 g)
  | .propertyDecl, a => PropOK a

/-- the block loops of an exec block consume something whenever their loop condition holds on entry; so does the loop of
ParseBranchStmt entered in its initial state (the mandatory if-branch) -/
def CondStrict (ops : LexOps σ) : NT → PState σ → Prop
  | .execBlock i, s | .execLoop i .., s => blockCond ops i s = true
  | .branchLoop _ .init _, _ => True
  | _, _ => False

def Post (ops : LexOps σ) (B : Nat) (μ : σ → Nat) (I : σ → Prop) (nt : NT) (s : PState σ) (a : nt.Out) (s' : PState σ) : Prop :=
  Inv ops B I s' ∧ m μ s' ≤ m μ s ∧ q s ≤ q s' ∧ (strict nt = true → m μ s' < m μ s ∧ q s' = 1) ∧
  (CondStrict ops nt s → m μ s' < m μ s ∧ q s' = 1) ∧ PostC nt a

def Good (ops : LexOps σ) (B : Nat) (μ : σ → Nat) (I : σ → Prop) (n : Nat) (rec : Rec σ) : Prop :=
  ∀ nt s, Inv ops B I s → PreC nt → Sat (rec nt s) (Post ops B μ I nt s) (ErrOK B) (n < need μ nt s)

theorem Good.call {ops : LexOps σ} {B : Nat} {μ : σ → Nat} {I : σ → Prop} {n : Nat} {rec : Rec σ} (hg : Good ops B μ I n rec)
    (nt : NT) {s : PState σ} {Q : nt.Out → PState σ → Prop} {F : Prop}
    (hs : Inv ops B I s) (hpre : PreC nt)
    (hk : ∀ a s', Post ops B μ I nt s a s' → Q a s') (hF : n < need μ nt s → F) :
    Sat (rec nt s) Q (ErrOK B) F :=
  (hg nt s hs hpre).imp hk hF

section calls
variable {ops : LexOps σ} {B : Nat} {μ : σ → Nat} {I : σ → Prop} {n : Nat} {rec : Rec σ}

/-- calling a production that consumes -/
theorem Good.callS (hg : Good ops B μ I n rec) (nt : NT) (hst : strict nt = true)
    {s : PState σ} {Q : nt.Out → PState σ → Prop} {F : Prop}
    (hs : Inv ops B I s) (hpre : PreC nt)
    (hk : ∀ a s', Inv ops B I s' → m μ s' < m μ s → q s' = 1 → PostC nt a → Q a s') (hF : n < need μ nt s → F) :
    Sat (rec nt s) Q (ErrOK B) F :=
  hg.call nt hs hpre (fun a s' h => hk a s' h.1 (h.2.2.2.1 hst).1 (h.2.2.2.1 hst).2 h.2.2.2.2.2) hF

/-- calling an ε-production -/
theorem Good.callN (hg : Good ops B μ I n rec) (nt : NT)
    {s : PState σ} {Q : nt.Out → PState σ → Prop} {F : Prop}
    (hs : Inv ops B I s) (hpre : PreC nt)
    (hk : ∀ a s', Inv ops B I s' → m μ s' ≤ m μ s → q s ≤ q s' → PostC nt a → Q a s') (hF : n < need μ nt s → F) :
    Sat (rec nt s) Q (ErrOK B) F :=
  hg.call nt hs hpre (fun a s' h => hk a s' h.1 h.2.1 h.2.2.1 h.2.2.2.2.2) hF

/-- calling an exec-block loop whose condition holds -/
theorem Good.callX (hg : Good ops B μ I n rec) (nt : NT)
    {s : PState σ} {Q : nt.Out → PState σ → Prop} {F : Prop}
    (hs : Inv ops B I s) (hpre : PreC nt) (hcond : CondStrict ops nt s)
    (hk : ∀ a s', Inv ops B I s' → m μ s' < m μ s → q s' = 1 → PostC nt a → Q a s') (hF : n < need μ nt s → F) :
    Sat (rec nt s) Q (ErrOK B) F :=
  hg.call nt hs hpre (fun a s' h => hk a s' h.1 (h.2.2.2.2.1 hcond).1 (h.2.2.2.2.1 hcond).2 h.2.2.2.2.2) hF

theorem post_lt {nt : NT} {s s' : PState σ} {a : nt.Out}
    (hi : Inv ops B I s') (hm : m μ s' < m μ s) (hq : 1 ≤ q s') (hc : PostC nt a) : Post ops B μ I nt s a s' :=
  ⟨hi, by omega, by have := q_le_one s; omega, fun _ => ⟨hm, by have := q_le_one s'; omega⟩, fun _ => ⟨hm, by have := q_le_one s'; omega⟩, hc⟩

theorem post_le {nt : NT} {s s' : PState σ} {a : nt.Out} (hst : strict nt = false)
    (hi : Inv ops B I s') (hm : m μ s' ≤ m μ s) (hq : q s ≤ q s') (hx : CondStrict ops nt s → m μ s' < m μ s ∧ q s' = 1)
    (hc : PostC nt a) : Post ops B μ I nt s a s' :=
  ⟨hi, hm, hq, fun h => by rw [hst] at h; exact absurd h (by decide), hx, hc⟩

end calls

/-- discharges the fuel side condition of a call or primitive: ranks are numerals, the measures are related by facts in context -/
macro "fuel_tac" : tactic =>
  `(tactic| (intro hfuel; simp only [need, rank] at hfuel ⊢; omega))

-- ---- completeness is preserved by `SetCurrentLine` ---------------------------------------------------------------

theorem cexpr_setLine {e : Expr} (l : Nat) (h : CExpr e) : CExpr (e.setLine l) := by
  cases h <;> simp only [Expr.setLine] <;> constructor <;> assumption

theorem ccall_cexpr {e : Expr} (h : CCall e) : CExpr e := by
  cases h; constructor; assumption

theorem cstmt_setLine {s : Stmt} (l : Nat) (h : CStmt s) : CStmt (s.setLine l) := by
  cases h <;> simp only [Stmt.setLine]
  case expr e he => exact .expr _ (cexpr_setLine l he)
  all_goals (constructor <;> assumption)

end ZnVerif.Proofs.ParserGood
