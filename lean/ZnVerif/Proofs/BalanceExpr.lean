/-
Induction step of `allPres` for expressions, calls, constructors, blocks and handlers (see Proofs/Balance.lean).
-/
import ZnVerif.Proofs.Balance
set_option linter.unusedSectionVars false
set_option linter.unusedSimpArgs false
set_option linter.unusedVariables false

namespace ZnVerif.Proofs.Balance
open ZnVerif.Model ZnVerif.Proofs.Calls

variable {ν : Type} [NumOps ν]

section mutualBlock
variable {R : VM ν → VM ν → Prop} [ScopePrims0 R]

theorem evalExpr_succ (n : Nat) (ih : AllPres R n) (e : Expr) : Pres R (evalExpr (ν := ν) (n+1) e) := by
  cases e <;> rw [Model.evalExpr] <;> pres_ih ih <;> contradiction

theorem memberIV_succ (n : Nat) (ih : AllPres R n) (e : Expr) : Pres R (memberIV (ν := ν) (n+1) e) := by
  cases e <;> rw [Model.memberIV] <;> pres_ih ih <;> contradiction

theorem execFunction_succ (n : Nat) (ih : AllPres R n) (f : FnRef) (t : Option Addr) (ps : List Addr) :
    Pres R (execFunction (ν := ν) (n+1) f t ps) := by
  cases f <;> rw [Model.execFunction] <;> pres_ih ih <;> contradiction

theorem execDirectFunction_succ (n : Nat) (ih : AllPres R n) (f : String) (ps : List Addr) :
    Pres R (execDirectFunction (ν := ν) (n+1) f ps) := by
  rw [Model.execDirectFunction]; pres_ih ih

theorem execMethodFunction_succ (n : Nat) (ih : AllPres R n) (r : Addr) (f : String) (ps : List Addr) :
    Pres R (execMethodFunction (ν := ν) (n+1) r f ps) := by
  rw [Model.execMethodFunction]; pres_ih ih

theorem construct_succ (n : Nat) (ih : AllPres R n) (c : Addr) (ps : List Addr) :
    Pres R (construct (ν := ν) (n+1) c ps) := by
  simp only [Model.construct]; pres_ih ih

theorem evalExecBlock_succ (n : Nat) (ih : AllPres R n) (b : Option ExecBlock) (ps : List Addr) :
    Pres R (evalExecBlock (ν := ν) (n+1) b ps) := by
  cases b with
  | none => rw [Model.evalExecBlock]; exact Pres.goPanic
  | some b => cases b; rw [Model.evalExecBlock]; pres_ih ih

theorem handleException_succ (n : Nat) (ih : AllPres R n) (bm : Int) (bd : Nat)
    (cs : List (Option Ident × Option (List Stmt))) (e : Err) :
    Pres R (handleException (ν := ν) (n+1) bm bd cs e) := by
  simp only [Model.handleException]; pres_ih ih

theorem evalStmtBlock_succ (n : Nat) (ih : AllPres R n) (b : Option (List Stmt)) :
    Pres R (evalStmtBlock (ν := ν) (n+1) b) := by
  cases b <;> rw [Model.evalStmtBlock] <;> pres_ih ih <;> contradiction

theorem evalPureStmtBlock_succ (n : Nat) (ih : AllPres R n) (b : Option (List Stmt)) :
    Pres R (evalPureStmtBlock (ν := ν) (n+1) b) := by
  cases b <;> rw [Model.evalPureStmtBlock] <;> pres_ih ih <;> contradiction

end mutualBlock

end ZnVerif.Proofs.Balance
