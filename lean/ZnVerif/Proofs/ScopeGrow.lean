/-
The relation `ScopeGrow` between VM states: every module's scope keeps its depth and its outer symbols; and
`WellScoped` (all scopes satisfy `SortedDepths`) as a second preserved relation.  Both are instances of
`ScopePrims`, so `allPres` (Proofs/BalanceMutual.lean) applies to them.
-/
import ZnVerif.Proofs.BalanceMutual
set_option linter.unusedSectionVars false
set_option linter.unusedSimpArgs false
set_option linter.unusedVariables false

namespace ZnVerif.Proofs.Balance
open ZnVerif.Model ZnVerif.Proofs.Calls

variable {ν : Type} [NumOps ν]

/-- names / depths / constness of the symbols below the scope's current level -/
def outerKeys (sc : Scope) : List (String × Int × Bool × Option Int) :=
  (sc.syms.filter (fun sy => sy.depth ≤ sc.depth - 1)).map symKey

def allKeys (sc : Scope) : List (String × Int × Bool × Option Int) := sc.syms.map symKey

/-- same depth; and if the scope was well-formed it still is, with the same symbols below the current level -/
def ScopeRel (sc sc' : Scope) : Prop :=
  sc'.depth = sc.depth ∧ (SortedDepths sc → SortedDepths sc' ∧ outerKeys sc' = outerKeys sc)

theorem ScopeRel.refl (sc : Scope) : ScopeRel sc sc := ⟨rfl, fun h => ⟨h, rfl⟩⟩

theorem ScopeRel.trans {a b c : Scope} (h1 : ScopeRel a b) (h2 : ScopeRel b c) : ScopeRel a c := by
  refine ⟨h2.1.trans h1.1, fun hs => ?_⟩
  obtain ⟨hb, hk1⟩ := h1.2 hs
  obtain ⟨hc, hk2⟩ := h2.2 hb
  exact ⟨hc, hk2.trans hk1⟩

theorem outerKeys_eq_filter (sc : Scope) :
    outerKeys sc = (allKeys sc).filter (fun k => decide (k.2.1 ≤ sc.depth - 1)) := by
  unfold outerKeys allKeys
  rw [List.filter_map]; rfl

theorem outerKeys_of_allKeys {sc sc' : Scope} (hd : sc'.depth = sc.depth) (hk : allKeys sc' = allKeys sc) :
    outerKeys sc' = outerKeys sc := by
  rw [outerKeys_eq_filter, outerKeys_eq_filter, hk, hd]

theorem ScopeRel.of_declare {sc sc' : Scope} {name : String} {v : Addr} {c : Bool} {ext : Option Int}
    (h : sc.declare name v c ext = .ok sc') : ScopeRel sc sc' := by
  refine ⟨declare_depth h, fun hs => ⟨hs.declare h, ?_⟩⟩
  rw [declare_ok h]
  unfold outerKeys
  have : decide (sc.depth ≤ sc.depth - 1) = false := by simp; omega
  simp only [List.filter_cons, this, Bool.false_eq_true, if_false]

theorem ScopeRel.of_set {sc sc' : Scope} {name : String} {v : Addr} (h : sc.set name v = .ok sc') :
    ScopeRel sc sc' :=
  ⟨set_depth h, fun hs => ⟨hs.set h, outerKeys_of_allKeys (set_depth h) (set_ok h).2⟩⟩

/-- what the scope bracket does to the bracketed module's scope -/
theorem ScopeRel.bracket {sc sc2 : Scope} (h : ScopeRel sc.beginScope sc2) :
    ScopeRel sc sc2.endScope ∧ (SortedDepths sc → allKeys sc2.endScope = allKeys sc) := by
  have hd : sc2.endScope.depth = sc.depth := by
    rw [endScope_depth, h.1, beginScope_depth]; omega
  have hall : SortedDepths sc → SortedDepths sc2 ∧ allKeys sc2.endScope = allKeys sc := by
    intro hs
    obtain ⟨h2, hk⟩ := h.2 hs.beginScope
    refine ⟨h2, ?_⟩
    have : allKeys sc2.endScope = outerKeys sc2 := by
      unfold allKeys outerKeys; rw [endScope_syms h2]
    rw [this, hk]
    unfold outerKeys allKeys
    have hfil : sc.beginScope.syms.filter (fun sy => decide (sy.depth ≤ sc.beginScope.depth - 1)) = sc.syms := by
      apply List.filter_eq_self.mpr
      intro sy hsy
      have := hs.2 sy hsy
      simp [beginScope_depth]; omega
    rw [hfil]
  exact ⟨⟨hd, fun hs => ⟨(hall hs).1.endScope, outerKeys_of_allKeys hd (hall hs).2⟩⟩, fun hs => (hall hs).2⟩

/-- every scope that exists keeps its depth and outer symbols (scopes of new modules may appear) -/
def ScopeGrow (s s' : VM ν) : Prop :=
  ∀ mid sc, getScope mid s = some sc → ∃ sc', getScope mid s' = some sc' ∧ ScopeRel sc sc'

theorem ScopeGrow.of_scopes_eq {s s' : VM ν} (h : s'.scopes = s.scopes) : ScopeGrow s s' := by
  intro mid sc hsc
  refine ⟨sc, ?_, ScopeRel.refl sc⟩
  unfold getScope at *
  rw [h]; exact hsc

theorem ScopeGrow.put {s : VM ν} {mid : Int} {sc sc' : Scope} (hsc : getScope mid s = some sc)
    (hr : ScopeRel sc sc') : ScopeGrow s (putScope mid sc' s) := by
  intro m x hx
  by_cases hm : m = mid
  · subst hm
    rw [hsc] at hx; cases hx
    exact ⟨sc', getScope_putScope_same _ _ _, hr⟩
  · exact ⟨x, by rw [getScope_putScope_other _ _ _ _ hm]; exact hx, ScopeRel.refl x⟩

theorem ScopeGrow.put_new {s : VM ν} {mid : Int} {sc' : Scope} (hsc : getScope mid s = none) :
    ScopeGrow s (putScope mid sc' s) := by
  intro m x hx
  have hm : m ≠ mid := by
    intro h; subst h; rw [hsc] at hx; cases hx
  exact ⟨x, by rw [getScope_putScope_other _ _ _ _ hm]; exact hx, ScopeRel.refl x⟩

instance : PreRel (ScopeGrow (ν := ν)) where
  refl s := fun mid sc h => ⟨sc, h, ScopeRel.refl sc⟩
  trans := by
    intro a b c h1 h2 mid sc hsc
    obtain ⟨sc1, hg1, hr1⟩ := h1 mid sc hsc
    obtain ⟨sc2, hg2, hr2⟩ := h2 mid sc1 hg1
    exact ⟨sc2, hg2, hr1.trans hr2⟩

instance : Stable (ScopeGrow (ν := ν)) where
  heap s h := ScopeGrow.of_scopes_eq rfl
  stack s st cs := ScopeGrow.of_scopes_eq rfl
  exports s i md e _ := ScopeGrow.of_scopes_eq rfl

theorem scopeGrow_pushFrame (fr : Frame) : Pres ScopeGrow (pushFrame (ν := ν) fr) := by
  unfold Model.pushFrame
  apply Pres.modifyVM
  intro s
  simp only
  split
  · exact ScopeGrow.of_scopes_eq rfl
  · rename_i hnone
    have h1 : ScopeGrow s { s with stack := fr :: s.stack, csModuleID := fr.moduleId } :=
      ScopeGrow.of_scopes_eq rfl
    exact PreRel.trans h1 (ScopeGrow.put_new hnone)

theorem scopeGrow_declareElement (name : String) (v : Addr) (c : Bool) (ext : Option Int) :
    Pres ScopeGrow (declareElement (ν := ν) name v c ext) := by
  constructor
  intro s
  unfold Model.declareElement
  have hcs : currentScope s = (.ok (getScope s.csModuleID s), s) := rfl
  rw [bind_ok hcs]
  cases hsc : getScope s.csModuleID s with
  | none => exact PreRel.refl s
  | some sc =>
    simp only
    have hg : getVM s = (.ok s, s) := rfl
    rw [bind_ok hg]
    cases lookup name s.globals with
    | some _ => exact PreRel.refl s
    | none =>
      simp only
      cases hd : sc.declare name v c ext with
      | error e => exact PreRel.refl s
      | ok sc' => exact ScopeGrow.put hsc (ScopeRel.of_declare hd)

theorem scopeGrow_setElement (name : String) (v : Addr) : Pres ScopeGrow (setElement (ν := ν) name v) := by
  constructor
  intro s
  unfold Model.setElement
  have hcs : currentScope s = (.ok (getScope s.csModuleID s), s) := rfl
  rw [bind_ok hcs]
  cases hsc : getScope s.csModuleID s with
  | none => exact PreRel.refl s
  | some sc =>
    simp only
    cases hd : sc.set name v with
    | error e => exact PreRel.refl s
    | ok sc' => exact ScopeGrow.put hsc (ScopeRel.of_set hd)

/-- the bracket, on every outcome of `body`: all scopes keep depth and outer symbols, and the scope of the module
that was current at entry gets back exactly its symbols -/
theorem scopeGrow_withScope_strong {α : Type} (body : M ν α) (hb : Pres ScopeGrow body) (s : VM ν) :
    ScopeGrow s (withScope body s).2 ∧
    ∀ sc, getScope s.csModuleID s = some sc → ∃ sc', getScope s.csModuleID (withScope body s).2 = some sc' ∧
      sc'.depth = sc.depth ∧ (SortedDepths sc → SortedDepths sc' ∧ allKeys sc' = allKeys sc) := by
  cases hsc : getScope s.csModuleID s with
  | none =>
    rw [withScope_none body s hsc]
    exact ⟨hb.run s, fun sc h => by cases h⟩
  | some sc =>
    rw [withScope_some body s sc hsc]
    simp only
    have h1 := hb.run (putScope s.csModuleID sc.beginScope s)
    obtain ⟨sc2, hg2, hr2⟩ := h1 s.csModuleID sc.beginScope (getScope_putScope_same _ _ _)
    have hbr := ScopeRel.bracket hr2
    have hend : getScope s.csModuleID (endScopeOf s.csModuleID (body (putScope s.csModuleID sc.beginScope s)).2)
        = some sc2.endScope := by
      rw [getScope_endScopeOf_same, hg2]; rfl
    constructor
    · intro mid x hx
      by_cases hm : mid = s.csModuleID
      · rw [hm] at hx ⊢
        rw [hsc] at hx; cases hx
        exact ⟨_, hend, hbr.1⟩
      · have hx1 : getScope mid (putScope s.csModuleID sc.beginScope s) = some x := by
          rw [getScope_putScope_other _ _ _ _ hm]; exact hx
        obtain ⟨x2, hgx, hrx⟩ := h1 mid x hx1
        exact ⟨x2, by rw [getScope_endScopeOf_other _ _ _ hm]; exact hgx, hrx⟩
    · intro sc0 h0
      cases h0
      exact ⟨_, hend, hbr.1.1, fun hs => ⟨(hbr.1.2 hs).1, hbr.2 hs⟩⟩

instance : ScopePrims (ScopeGrow (ν := ν)) where
  emit l := ⟨fun s => ScopeGrow.of_scopes_eq rfl⟩
  pushFrame := scopeGrow_pushFrame
  declareElement := scopeGrow_declareElement
  setElement := scopeGrow_setElement
  withScope body hb := ⟨fun s => (scopeGrow_withScope_strong body hb s).1⟩

/-! ## well-formedness of all scopes is preserved -/

def WellScoped (s : VM ν) : Prop := ∀ mid sc, getScope mid s = some sc → SortedDepths sc

def WellScopedRel (s s' : VM ν) : Prop := WellScoped s → WellScoped s'

instance : PreRel (WellScopedRel (ν := ν)) where
  refl s := id
  trans h1 h2 := h2 ∘ h1

theorem wellScoped_of_scopes_eq {s s' : VM ν} (h : s'.scopes = s.scopes) : WellScopedRel s s' := by
  intro hw mid sc hsc
  apply hw mid sc
  unfold getScope at *
  rw [← h]; exact hsc

instance : Stable (WellScopedRel (ν := ν)) where
  heap s h := wellScoped_of_scopes_eq rfl
  stack s st cs := wellScoped_of_scopes_eq rfl
  exports s i md e _ := wellScoped_of_scopes_eq rfl

theorem wellScoped_put {s : VM ν} {mid : Int} {sc' : Scope} (h : WellScoped s → SortedDepths sc') :
    WellScopedRel s (putScope mid sc' s) := by
  intro hw m x hx
  by_cases hm : m = mid
  · subst hm
    rw [getScope_putScope_same] at hx; cases hx
    exact h hw
  · rw [getScope_putScope_other _ _ _ _ hm] at hx
    exact hw m x hx

theorem wellScoped_pushFrame (fr : Frame) : Pres WellScopedRel (pushFrame (ν := ν) fr) := by
  unfold Model.pushFrame
  apply Pres.modifyVM
  intro s
  simp only
  split
  · exact wellScoped_of_scopes_eq rfl
  · have h1 : WellScopedRel s { s with stack := fr :: s.stack, csModuleID := fr.moduleId } :=
      wellScoped_of_scopes_eq rfl
    exact PreRel.trans h1 (wellScoped_put fun _ => sortedDepths_empty)

theorem wellScoped_declareElement (name : String) (v : Addr) (c : Bool) (ext : Option Int) :
    Pres WellScopedRel (declareElement (ν := ν) name v c ext) := by
  constructor
  intro s
  unfold Model.declareElement
  have hcs : currentScope s = (.ok (getScope s.csModuleID s), s) := rfl
  rw [bind_ok hcs]
  cases hsc : getScope s.csModuleID s with
  | none => exact PreRel.refl s
  | some sc =>
    simp only
    have hg : getVM s = (.ok s, s) := rfl
    rw [bind_ok hg]
    cases lookup name s.globals with
    | some _ => exact PreRel.refl s
    | none =>
      simp only
      cases hd : sc.declare name v c ext with
      | error e => exact PreRel.refl s
      | ok sc' => exact wellScoped_put fun hw => (hw _ _ hsc).declare hd

theorem wellScoped_setElement (name : String) (v : Addr) : Pres WellScopedRel (setElement (ν := ν) name v) := by
  constructor
  intro s
  unfold Model.setElement
  have hcs : currentScope s = (.ok (getScope s.csModuleID s), s) := rfl
  rw [bind_ok hcs]
  cases hsc : getScope s.csModuleID s with
  | none => exact PreRel.refl s
  | some sc =>
    simp only
    cases hd : sc.set name v with
    | error e => exact PreRel.refl s
    | ok sc' => exact wellScoped_put fun hw => (hw _ _ hsc).set hd

theorem wellScoped_withScope {α : Type} (body : M ν α) (hb : Pres WellScopedRel body) :
    Pres WellScopedRel (withScope body) := by
  constructor
  intro s
  cases hsc : getScope s.csModuleID s with
  | none => rw [withScope_none body s hsc]; exact hb.run s
  | some sc =>
    rw [withScope_some body s sc hsc]
    simp only
    have h0 : WellScopedRel s (putScope s.csModuleID sc.beginScope s) :=
      wellScoped_put fun hw => (hw _ _ hsc).beginScope
    have h1 := hb.run (putScope s.csModuleID sc.beginScope s)
    refine PreRel.trans h0 (PreRel.trans h1 ?_)
    intro hw
    unfold endScopeOf
    cases h2 : getScope s.csModuleID (body (putScope s.csModuleID sc.beginScope s)).2 with
    | none => exact hw
    | some sc2 => exact wellScoped_put (fun hw' => (hw' _ _ h2).endScope) hw

instance : ScopePrims (WellScopedRel (ν := ν)) where
  emit l := ⟨fun s => wellScoped_of_scopes_eq rfl⟩
  pushFrame := wellScoped_pushFrame
  declareElement := wellScoped_declareElement
  setElement := wellScoped_setElement
  withScope := wellScoped_withScope

end ZnVerif.Proofs.Balance
