/-
C03 at character level, free layout: a verbatim text literal, which may span lines.

`nextToken_lit`: between two tokens, with the cursor on the opening quote of a `Verbatim` literal, `NextToken` answers ONE token whose
value is the text between the outer quotes; every line break inside the literal appends a line to the table (indentation 0,
`LineText` never set — also not for the line the literal started on), and the last of them is the current line afterwards.
(The string scanner's own theorem: `verbatim_run_lines`, Proofs/Literal.lean.)
-/
import ZnVerif.Proofs.RenderGapLayout

namespace ZnVerif.Proofs.RenderLex
open ZnVerif.Model ZnVerif.Generated ZnVerif.Generated.Tokens
open ZnVerif.Spec ZnVerif.Spec.RenderChars ZnVerif.Spec.Literal ZnVerif.Spec.Lines

theorem litLines_spec (s k : Nat) (ls : List Nat) :
    [openLine s k] ++ ls.map scannedLine = (litLines s k ls).1 ++ [openLine (litLines s k ls).2.1 (litLines s k ls).2.2] := by
  induction ls generalizing s k with
  | nil => rfl
  | cons x xs ih =>
    have := ih x 0
    simp only [litLines, List.map_cons, List.cons_append, List.nil_append] at this ⊢
    rw [← this]
    rfl

/-- the verbatim literal at the cursor: one token, the lines inside it appended -/
theorem dispatch_lit (q : Quote) (t : List Nat) (hv : Verbatim q t) (l : Lexer) (rest : List Nat)
    (h : here l = q.opener :: (t ++ q.closer :: rest)) :
    dispatchToken l = (.ok { type := q.type, literal := t, startIdx := l.cursor, endIdx := l.cursor + (t.length + 2) },
      { l with cursor := l.cursor + (t.length + 2),
               lines := l.lines ++ ((lineStarts (l.cursor + 1) t).map scannedLine).toArray }) := by
  obtain ⟨hbal, hbt, h0⟩ := hv
  have hd := (balanced_iff_depth q 0 t).mp hbal
  obtain ⟨hc, hr⟩ := here_cons h
  obtain ⟨a1, a2, a3, a4⟩ := quote_dispatch_facts q
  have hf := quote_facts q
  obtain ⟨l', hsrc, hcur, hrest, hlines, ⟨hbl, hit⟩, hrun⟩ := verbatim_run_lines q l.cursor q.type (q.closer :: rest)
    (by
      have := hf.2.1
      constructor <;> (intro e; simp at e; rw [e] at this; revert this; decide))
    t.length t rfl l [] 0 0 hbt h0 hd hr
  unfold dispatchToken
  simp only [hc, a1, a2, a3, Bool.false_eq_true, ↓reduceIte]
  unfold parseString
  rw [hc, a4, hrun, parseStringLoop_done (by rw [str_closer hrest]; rfl)]
  obtain ⟨src', ity', lines', cursor', bl'⟩ := l'
  obtain ⟨src, ity, lines, cursor, bl⟩ := l
  simp only at hsrc hcur hlines hbl hit
  subst hsrc hcur hlines hbl hit
  simp [Lexer.adv, Nat.add_assoc]

/-- **a verbatim literal between two tokens** -/
theorem nextToken_lit (q : Quote) (t : List Nat) (hv : Verbatim q t) (src : Array Nat) (ity : Nat) (dn : List LineInfo)
    (s k pos : Nat) (rest : List Nat) (h : here (bst src ity dn s k pos) = q.opener :: (t ++ q.closer :: rest)) :
    nextToken (bst src ity dn s k pos) =
      (.ok { type := q.type, literal := t, startIdx := pos, endIdx := pos + (t.length + 2) },
        bst src ity (dn ++ (litLines s k (lineStarts (pos + 1) t)).1) (litLines s k (lineStarts (pos + 1) t)).2.1
          (litLines s k (lineStarts (pos + 1) t)).2.2 (pos + (t.length + 2))) := by
  have hsolid : Solid q.opener := by cases q <;> decide
  rw [nextToken_later _ rfl (by rw [(here_cons h).1]; exact hsolid), dispatch_lit q t hv _ rest h]
  congr 1
  have := litLines_spec s k (lineStarts (pos + 1) t)
  simp only [bst, lx, List.append_toArray, Lexer.mk.injEq, true_and, and_true]
  rw [List.append_assoc, this, List.append_assoc]

end ZnVerif.Proofs.RenderLex
