/-
Helper lemmas about the spec of block scoping alone (`Spec/Scopes.lean`): how a block body acts on the
frames below it.  Two inductions over histories:

* `untouched_run`  — a body that never declares/assigns `name` leaves the visible binding of `name` alone;
* `shielded_run`   — while a frame of the block binds `name`, nothing below that frame changes for `name`.
Core Lean only.
-/
import ZnVerif.Spec.Scopes

namespace ZnVerif.Proofs.ScopeSpec
open ZnVerif.Spec.Scopes

variable {α : Type}

/-- the name an operation declares or assigns -/
def writes : Op α → Option String
  | .declare n _ => some n
  | .declareConst n _ => some n
  | .declareExternal n _ _ => some n
  | .assign n _ => some n
  | _ => none

/-- the operation declares or assigns `name` -/
def touches (name : String) (op : Op α) : Prop := writes op = some name

/-! ### frames -/

theorem find_none_of_not_binds (f : Frame α) (name : String) (h : f.binds name = false) : f.find name = none := by
  induction f with
  | nil => rfl
  | cons b f ih =>
    simp only [Frame.binds, List.any, Bool.or_eq_false_iff, decide_eq_false_iff_not] at h
    simp only [Frame.find, List.find?, h.1, decide_false]
    exact ih h.2

theorem find_some_of_binds (f : Frame α) (name : String) (h : f.binds name = true) : ∃ b, f.find name = some b := by
  induction f with
  | nil => simp [Frame.binds] at h
  | cons b f ih =>
    by_cases hb : b.name = name
    · exact ⟨b, by simp [Frame.find, List.find?, hb]⟩
    · simp only [Frame.binds, List.any, hb, decide_false, Bool.false_or] at h
      obtain ⟨b', hb'⟩ := ih h
      exact ⟨b', by simpa [Frame.find, List.find?, hb] using hb'⟩

theorem binds_set (f : Frame α) (y : String) (v : α) (n : String) : (f.set y v).binds n = f.binds n := by
  induction f with
  | nil => rfl
  | cons b f ih =>
    by_cases hb : b.name = y
    · simp [Frame.set, hb, Frame.binds, List.any]
    · simp only [Frame.set, hb, if_false, Frame.binds, List.any] at ih ⊢
      rw [ih]

theorem find_set_other (f : Frame α) (y : String) (v : α) (n : String) (h : y ≠ n) :
    (f.set y v).find n = f.find n := by
  induction f with
  | nil => rfl
  | cons b f ih =>
    by_cases hb : b.name = y
    · have : ¬ b.name = n := by rw [hb]; exact h
      simp [Frame.set, hb, Frame.find, List.find?, h]
    · by_cases hn : b.name = n
      · have hb' : ¬ n = y := fun e => h e.symm
        simp [Frame.set, hb', Frame.find, List.find?, hn]
      · simp only [Frame.set, hb, if_false, Frame.find, List.find?, hn, decide_false] at ih ⊢
        exact ih

/-! ### stacks -/

theorem lookupB_append_of_not_binds (pre base : Stack α) (name : String)
    (h : ∀ f ∈ pre, Frame.binds f name = false) : lookupB (pre ++ base) name = lookupB base name := by
  induction pre with
  | nil => rfl
  | cons f pre ih =>
    have hf := find_none_of_not_binds f name (h f (by simp))
    simp only [List.cons_append, lookupB, hf]
    exact ih (fun g hg => h g (by simp [hg]))

theorem lookupB_cons_binds (f : Frame α) (rest : Stack α) (name : String) (h : f.binds name = true) :
    lookupB (f :: rest) name = f.find name := by
  obtain ⟨b, hb⟩ := find_some_of_binds f name h
  simp [lookupB, hb]

theorem length_setB (st : Stack α) (y : String) (v : α) : (setB st y v).length = st.length := by
  induction st with
  | nil => rfl
  | cons f st ih =>
    by_cases hb : f.binds y = true
    · simp [setB, hb]
    · simp [setB, hb, ih]

theorem setB_ne_nil (st : Stack α) (y : String) (v : α) (h : st ≠ []) : setB st y v ≠ [] := by
  intro hh
  have := length_setB st y v
  rw [hh] at this
  cases st with
  | nil => exact h rfl
  | cons _ _ => simp at this

theorem setB_append (a b : Stack α) (y : String) (v : α) :
    setB (a ++ b) y v = if a.any (fun f => f.binds y) then setB a y v ++ b else a ++ setB b y v := by
  induction a with
  | nil => simp
  | cons f a ih =>
    by_cases hb : f.binds y = true
    · simp [setB, hb]
    · simp only [List.cons_append, setB, hb, Bool.false_eq_true, if_false, List.any, Bool.false_or, ih]
      split <;> rfl

theorem setB_binds_frames (st : Stack α) (y : String) (v : α) (n : String)
    (h : ∀ f ∈ st, Frame.binds f n = false) : ∀ f ∈ setB st y v, Frame.binds f n = false := by
  induction st with
  | nil => intro f hf; simp [setB] at hf
  | cons g st ih =>
    intro f hf
    by_cases hb : g.binds y = true
    · simp only [setB, hb, if_true, List.mem_cons] at hf
      rcases hf with rfl | hf
      · rw [binds_set]; exact h g (by simp)
      · exact h f (by simp [hf])
    · simp only [setB, hb, Bool.false_eq_true, if_false, List.mem_cons] at hf
      rcases hf with rfl | hf
      · exact h _ (by simp)
      · exact ih (fun f' hf' => h f' (by simp [hf'])) f hf

theorem lookupB_setB_other (st : Stack α) (y : String) (v : α) (n : String) (h : y ≠ n) :
    lookupB (setB st y v) n = lookupB st n := by
  induction st with
  | nil => rfl
  | cons f st ih =>
    by_cases hb : f.binds y = true
    · simp [setB, hb, lookupB, find_set_other f y v n h]
    · simp only [setB, hb, Bool.false_eq_true, if_false, lookupB, ih]

theorem lookupB_declare_other (b : Binding α) (f : Frame α) (rest : Stack α) (n : String) (h : b.name ≠ n) :
    lookupB ((b :: f) :: rest) n = lookupB (f :: rest) n := by
  simp [lookupB, Frame.find, List.find?, h]

/-! ### one operation on `pre ++ base` (the frames a body has pushed, above the frames it found) -/

/-- a body at relative depth `pre.length` never closes frames of `base` -/
def relOK (k : Nat) : Op α → Prop
  | .endScope => 0 < k
  | _ => True

def relNext (k : Nat) : Op α → Nat
  | .beginScope => k + 1
  | .endScope => k - 1
  | _ => k

theorem rel_cons {k k' : Nat} {op : Op α} {ops : List (Op α)} (h : finalDepth k (op :: ops) = some k') :
    relOK k op ∧ finalDepth (relNext k op) ops = some k' := by
  cases op <;> cases k <;> simp_all [finalDepth, relOK, relNext]

/-- the ways one operation can act on `pre ++ base` -/
def SplitCase (pre base : Stack α) (op : Op α) (pre' base' : Stack α) : Prop :=
  (pre' = pre ∧ base' = base) ∨
  (pre' = [] :: pre ∧ base' = base) ∨
  ((∃ f, pre = f :: pre') ∧ base' = base) ∨
  (∃ bd f p, writes op = some bd.name ∧ pre = f :: p ∧ pre' = (bd :: f) :: p ∧ base' = base) ∨
  (∃ bd f rr, writes op = some bd.name ∧ pre = [] ∧ pre' = [] ∧ base = f :: rr ∧ base' = (bd :: f) :: rr) ∨
  (∃ y v, writes op = some y ∧ pre.any (fun f => f.binds y) = true ∧ pre' = setB pre y v ∧ base' = base) ∨
  (∃ y v, writes op = some y ∧ pre.any (fun f => f.binds y) = false ∧ pre' = pre ∧ base' = setB base y v)

theorem declare_split (pre base : Stack α) (hb : base ≠ []) (op : Op α) (bd : Binding α) (st' : Stack α) (r : Res α)
    (hd : declareB (pre ++ base) bd = some (st', r)) (hop : writes op = some bd.name) :
    ∃ pre' base', st' = pre' ++ base' ∧ pre'.length = pre.length ∧ SplitCase pre base op pre' base' := by
  cases pre with
  | nil =>
    cases base with
    | nil => exact absurd rfl hb
    | cons f rr =>
      simp only [List.nil_append, declareB] at hd
      by_cases hbi : f.binds bd.name = true
      · simp only [hbi, if_true, Option.some.injEq, Prod.mk.injEq] at hd
        exact ⟨[], f :: rr, by simp [hd.1], rfl, Or.inl ⟨rfl, rfl⟩⟩
      · simp only [hbi, Bool.false_eq_true, if_false, Option.some.injEq, Prod.mk.injEq] at hd
        exact ⟨[], (bd :: f) :: rr, by simp [hd.1], rfl,
          Or.inr (Or.inr (Or.inr (Or.inr (Or.inl ⟨bd, f, rr, hop, rfl, rfl, rfl, rfl⟩))))⟩
  | cons f p =>
    simp only [List.cons_append, declareB] at hd
    by_cases hbi : f.binds bd.name = true
    · simp only [hbi, if_true, Option.some.injEq, Prod.mk.injEq] at hd
      exact ⟨f :: p, base, by simp [hd.1], rfl, Or.inl ⟨rfl, rfl⟩⟩
    · simp only [hbi, Bool.false_eq_true, if_false, Option.some.injEq, Prod.mk.injEq] at hd
      exact ⟨(bd :: f) :: p, base, by simp [hd.1], by simp,
        Or.inr (Or.inr (Or.inr (Or.inl ⟨bd, f, p, hop, rfl, rfl, rfl⟩)))⟩

/-- splitting one step: what happens to `pre` (frames the body pushed), what happens to `base` -/
theorem step_split (pre base : Stack α) (hb : base ≠ []) (op : Op α) (hok : relOK pre.length op)
    (st' : Stack α) (r : Res α) (hs : step (pre ++ base) op = some (st', r)) :
    ∃ pre' base', st' = pre' ++ base' ∧ pre'.length = relNext pre.length op ∧ SplitCase pre base op pre' base' := by
  cases op with
  | beginScope =>
    simp only [step, Option.some.injEq, Prod.mk.injEq] at hs
    exact ⟨[] :: pre, base, by simp [← hs.1], by simp [relNext], Or.inr (Or.inl ⟨rfl, rfl⟩)⟩
  | endScope =>
    cases pre with
    | nil => exact absurd hok (Nat.lt_irrefl 0)
    | cons f p =>
      cases hpb : p ++ base with
      | nil =>
        cases p <;> simp_all
      | cons g rest =>
        simp only [List.cons_append, hpb, step, Option.some.injEq, Prod.mk.injEq] at hs
        exact ⟨p, base, by rw [← hs.1, hpb], by simp [relNext], Or.inr (Or.inr (Or.inl ⟨⟨f, rfl⟩, rfl⟩))⟩
  | declare n v => exact declare_split pre base hb _ ⟨n, v, false, none⟩ st' r hs rfl
  | declareConst n v => exact declare_split pre base hb _ ⟨n, v, true, none⟩ st' r hs rfl
  | declareExternal n v m => exact declare_split pre base hb _ ⟨n, v, true, some m⟩ st' r hs rfl
  | assign y v =>
    simp only [step] at hs
    cases hl : lookupB (pre ++ base) y with
    | none =>
      simp only [hl, Option.some.injEq, Prod.mk.injEq] at hs
      exact ⟨pre, base, hs.1.symm, rfl, Or.inl ⟨rfl, rfl⟩⟩
    | some b =>
      simp only [hl] at hs
      by_cases hc : b.isConst = true
      · simp only [hc, if_true, Option.some.injEq, Prod.mk.injEq] at hs
        exact ⟨pre, base, hs.1.symm, rfl, Or.inl ⟨rfl, rfl⟩⟩
      · simp only [hc, Bool.false_eq_true, if_false, Option.some.injEq, Prod.mk.injEq] at hs
        rw [setB_append] at hs
        by_cases ha : pre.any (fun f => f.binds y) = true
        · simp only [ha, if_true] at hs
          exact ⟨setB pre y v, base, hs.1.symm, by simp [length_setB, relNext],
            Or.inr (Or.inr (Or.inr (Or.inr (Or.inr (Or.inl ⟨y, v, rfl, ha, rfl, rfl⟩)))))⟩
        · simp only [ha, Bool.false_eq_true, if_false] at hs
          exact ⟨pre, setB base y v, hs.1.symm, rfl,
            Or.inr (Or.inr (Or.inr (Or.inr (Or.inr (Or.inr ⟨y, v, rfl, by simpa using ha, rfl, rfl⟩)))))⟩
  | lookup n =>
    simp only [step] at hs
    cases hl : lookupB (pre ++ base) n <;> simp only [hl, Option.some.injEq, Prod.mk.injEq] at hs <;>
      exact ⟨pre, base, hs.1.symm, rfl, Or.inl ⟨rfl, rfl⟩⟩
  | lookupM n =>
    simp only [step] at hs
    cases hl : lookupB (pre ++ base) n <;> simp only [hl, Option.some.injEq, Prod.mk.injEq] at hs <;>
      exact ⟨pre, base, hs.1.symm, rfl, Or.inl ⟨rfl, rfl⟩⟩

theorem run_cons {st st' : Stack α} {op : Op α} {ops : List (Op α)} {rs : List (Res α)}
    (h : run st (op :: ops) = some (st', rs)) :
    ∃ st₁ r rs', step st op = some (st₁, r) ∧ run st₁ ops = some (st', rs') ∧ rs = r :: rs' := by
  simp only [run] at h
  cases hs : step st op with
  | none => simp [hs] at h
  | some p =>
    obtain ⟨st₁, r⟩ := p
    simp only [hs] at h
    cases hr : run st₁ ops with
    | none => simp [hr] at h
    | some q =>
      obtain ⟨st₂, rs'⟩ := q
      simp only [hr, Option.some.injEq, Prod.mk.injEq] at h
      exact ⟨st₁, r, rs', rfl, by rw [hr, h.1], h.2.symm⟩

theorem run_append {a b : List (Op α)} : ∀ {st st'' : Stack α} {rs : List (Res α)},
    run st (a ++ b) = some (st'', rs) →
    ∃ st' rs₁ rs₂, run st a = some (st', rs₁) ∧ run st' b = some (st'', rs₂) ∧ rs = rs₁ ++ rs₂ := by
  induction a with
  | nil => intro st st'' rs h; exact ⟨st, [], rs, rfl, h, rfl⟩
  | cons op a ih =>
    intro st st'' rs h
    obtain ⟨st₁, r, rs', hs, hr, hrs⟩ := run_cons (by simpa using h)
    obtain ⟨st', rs₁, rs₂, h1, h2, h3⟩ := ih hr
    exact ⟨st', r :: rs₁, rs₂, by simp [run, hs, h1], h2, by simp [hrs, h3]⟩

/-- one step keeps "the body's own frames do not bind `name`, and `name` reads the same in `base`" -/
theorem untouched_step (name : String) {pre base pre' base' : Stack α} {op : Op α}
    (hc : SplitCase pre base op pre' base') (hnt : ¬ touches name op)
    (hpre : ∀ f ∈ pre, Frame.binds f name = false) (hb : base ≠ []) :
    (∀ f ∈ pre', Frame.binds f name = false) ∧ base' ≠ [] ∧ lookupB base' name = lookupB base name := by
  rcases hc with ⟨rfl, rfl⟩ | ⟨rfl, rfl⟩ | ⟨⟨f, rfl⟩, rfl⟩ | ⟨bd, f, p, hw, rfl, rfl, rfl⟩ |
    ⟨bd, f, rr, hw, rfl, rfl, rfl, rfl⟩ | ⟨y, v, hw, _, rfl, rfl⟩ | ⟨y, v, hw, _, rfl, rfl⟩
  · exact ⟨hpre, hb, rfl⟩
  · refine ⟨?_, hb, rfl⟩
    intro f hf
    simp only [List.mem_cons] at hf
    rcases hf with rfl | hf
    · rfl
    · exact hpre f hf
  · exact ⟨fun g hg => hpre g (by simp [hg]), hb, rfl⟩
  · have hne : bd.name ≠ name := fun e => hnt (by rw [touches, hw, e])
    refine ⟨?_, hb, rfl⟩
    intro g hg
    simp only [List.mem_cons] at hg
    rcases hg with rfl | hg
    · have := hpre f (by simp)
      simp only [Frame.binds, List.any, hne, decide_false, Bool.false_or] at this ⊢
      exact this
    · exact hpre g (by simp [hg])
  · have hne : bd.name ≠ name := fun e => hnt (by rw [touches, hw, e])
    exact ⟨hpre, by simp, lookupB_declare_other bd f rr name hne⟩
  · exact ⟨setB_binds_frames pre y v name hpre, hb, rfl⟩
  · have hne : y ≠ name := fun e => hnt (by rw [touches, hw, e])
    exact ⟨hpre, setB_ne_nil base y v hb, lookupB_setB_other base y v name hne⟩

/-- a body that never declares or assigns `name`, run above `base`, leaves the reading of `name` in `base` alone
and none of the frames it leaves open binds `name` -/
theorem untouched_run (name : String) (ops : List (Op α)) :
    ∀ (pre base : Stack α) (k' : Nat) (st' : Stack α) (rs : List (Res α)),
    (∀ op ∈ ops, ¬ touches name op) → (∀ f ∈ pre, Frame.binds f name = false) → base ≠ [] →
    finalDepth pre.length ops = some k' → run (pre ++ base) ops = some (st', rs) →
    ∃ pre' base', st' = pre' ++ base' ∧ pre'.length = k' ∧ (∀ f ∈ pre', Frame.binds f name = false) ∧
      base' ≠ [] ∧ lookupB base' name = lookupB base name := by
  induction ops with
  | nil =>
    intro pre base k' st' rs _ hpre hb hfd hrun
    simp only [finalDepth, Option.some.injEq] at hfd
    simp only [run, Option.some.injEq, Prod.mk.injEq] at hrun
    exact ⟨pre, base, hrun.1.symm, hfd, hpre, hb, rfl⟩
  | cons op ops ih =>
    intro pre base k' st' rs hnt hpre hb hfd hrun
    obtain ⟨st₁, r, rs', hs, hr, _⟩ := run_cons hrun
    obtain ⟨hok, hfd'⟩ := rel_cons hfd
    obtain ⟨pre₁, base₁, rfl, hlen, hcase⟩ := step_split pre base hb op hok st₁ r hs
    obtain ⟨hpre₁, hb₁, hl₁⟩ := untouched_step name hcase (hnt op (by simp)) hpre hb
    rw [← hlen] at hfd'
    obtain ⟨pre', base', h1, h2, h3, h4, h5⟩ :=
      ih pre₁ base₁ k' st' rs' (fun o ho => hnt o (by simp [ho])) hpre₁ hb₁ hfd' hr
    exact ⟨pre', base', h1, h2, h3, h4, by rw [h5, hl₁]⟩

/-- one step keeps "the block's own frame `fx` binds `name`; below it `name` reads the same" -/
theorem shielded_step (name : String) {pre base₀ pre' B' : Stack α} {fx : Frame α} {op : Op α}
    (hc : SplitCase pre (fx :: base₀) op pre' B') (hfx : fx.binds name = true) :
    ∃ fx' base', B' = fx' :: base' ∧ Frame.binds fx' name = true ∧ (base₀ ≠ [] → base' ≠ []) ∧
      lookupB base' name = lookupB base₀ name := by
  rcases hc with ⟨_, rfl⟩ | ⟨_, rfl⟩ | ⟨_, rfl⟩ | ⟨bd, f, p, _, _, _, rfl⟩ |
    ⟨bd, f, rr, _, _, _, heq, rfl⟩ | ⟨y, v, _, _, _, rfl⟩ | ⟨y, v, _, _, _, rfl⟩
  · exact ⟨fx, base₀, rfl, hfx, id, rfl⟩
  · exact ⟨fx, base₀, rfl, hfx, id, rfl⟩
  · exact ⟨fx, base₀, rfl, hfx, id, rfl⟩
  · exact ⟨fx, base₀, rfl, hfx, id, rfl⟩
  · simp only [List.cons.injEq] at heq
    obtain ⟨rfl, rfl⟩ := heq
    refine ⟨bd :: fx, base₀, rfl, ?_, id, rfl⟩
    simp only [Frame.binds, List.any] at hfx ⊢
    simp [hfx]
  · exact ⟨fx, base₀, rfl, hfx, id, rfl⟩
  · by_cases hy : fx.binds y = true
    · exact ⟨fx.set y v, base₀, by simp [setB, hy], by rw [binds_set]; exact hfx, id, rfl⟩
    · have hne : y ≠ name := by
        intro e; rw [e] at hy; exact hy hfx
      exact ⟨fx, setB base₀ y v, by simp [setB, hy], hfx, setB_ne_nil base₀ y v,
        lookupB_setB_other base₀ y v name hne⟩

/-- while the block's frame binds `name`, whatever the body does, that frame keeps binding `name` and `name` reads
the same below it -/
theorem shielded_run (name : String) (ops : List (Op α)) :
    ∀ (pre : Stack α) (fx : Frame α) (base₀ : Stack α) (k' : Nat) (st' : Stack α) (rs : List (Res α)),
    fx.binds name = true →
    finalDepth pre.length ops = some k' → run (pre ++ fx :: base₀) ops = some (st', rs) →
    ∃ pre' fx' base', st' = pre' ++ fx' :: base' ∧ pre'.length = k' ∧ Frame.binds fx' name = true ∧
      (base₀ ≠ [] → base' ≠ []) ∧ lookupB base' name = lookupB base₀ name := by
  induction ops with
  | nil =>
    intro pre fx base₀ k' st' rs hfx hfd hrun
    simp only [finalDepth, Option.some.injEq] at hfd
    simp only [run, Option.some.injEq, Prod.mk.injEq] at hrun
    exact ⟨pre, fx, base₀, hrun.1.symm, hfd, hfx, id, rfl⟩
  | cons op ops ih =>
    intro pre fx base₀ k' st' rs hfx hfd hrun
    obtain ⟨st₁, r, rs', hs, hr, _⟩ := run_cons hrun
    obtain ⟨hok, hfd'⟩ := rel_cons hfd
    obtain ⟨pre₁, B₁, rfl, hlen, hcase⟩ := step_split pre (fx :: base₀) (by simp) op hok st₁ r hs
    obtain ⟨fx₁, base₁, rfl, hfx₁, hb₁, hl₁⟩ := shielded_step name hcase hfx
    rw [← hlen] at hfd'
    obtain ⟨pre', fx', base', h1, h2, h3, h4, h5⟩ := ih pre₁ fx₁ base₁ k' st' rs' hfx₁ hfd' hr
    exact ⟨pre', fx', base', h1, h2, h3, fun h => h4 (hb₁ h), by rw [h5, hl₁]⟩

/-- the declaring operations of the property -/
def declOf (name : String) (v : α) (c : Bool) : Op α := if c then .declareConst name v else .declare name v

theorem step_declOf_fresh (st : Stack α) (name : String) (v : α) (c : Bool) :
    step ([] :: st) (declOf name v c) = some ([⟨name, v, c, none⟩] :: st, .done) := by
  cases c <;> simp [declOf, step, declareB, Frame.binds]

/-- spec level: a block that declares `name` and then does anything (well bracketed) gives back, at its end,
exactly the reading of `name` it found -/
theorem block_forgets (st₀ : Stack α) (hne : st₀ ≠ []) (name : String) (v : α) (c : Bool) (body : List (Op α))
    (hseg : Segment body) (st' : Stack α) (rs : List (Res α))
    (hrun : run st₀ (.beginScope :: declOf name v c :: (body ++ [.endScope])) = some (st', rs)) :
    lookupB st' name = lookupB st₀ name := by
  obtain ⟨st₁, _, rs₁, hs₁, hr₁, _⟩ := run_cons hrun
  simp only [step, Option.some.injEq, Prod.mk.injEq] at hs₁
  obtain ⟨st₂, _, rs₂, hs₂, hr₂, _⟩ := run_cons hr₁
  rw [← hs₁.1, step_declOf_fresh] at hs₂
  simp only [Option.some.injEq, Prod.mk.injEq] at hs₂
  obtain ⟨st₃, rs₃, rs₄, hr₃, hr₄, _⟩ := run_append hr₂
  rw [← hs₂.1] at hr₃
  obtain ⟨pre', fx', base', h1, h2, _, h4, h5⟩ :=
    shielded_run name body [] [⟨name, v, c, none⟩] st₀ 0 st₃ rs₃ (by simp [Frame.binds]) hseg hr₃
  have hp : pre' = [] := List.eq_nil_of_length_eq_zero h2
  subst hp
  simp only [List.nil_append] at h1
  subst h1
  cases base' with
  | nil => exact absurd rfl (h4 hne)
  | cons g r =>
    simp only [run, step, Option.some.injEq, Prod.mk.injEq] at hr₄
    rw [← hr₄.1, h5]

/-- spec level: inside the block, as long as the body does not itself declare or assign `name`, `name` reads the
block's own declaration, whatever was visible outside -/
theorem block_shadows (st₀ : Stack α) (name : String) (v : α) (c : Bool) (body : List (Op α)) (k : Nat)
    (hfd : finalDepth 0 body = some k) (hnt : ∀ op ∈ body, ¬ touches name op) (st' : Stack α) (rs : List (Res α))
    (hrun : run st₀ (.beginScope :: declOf name v c :: body) = some (st', rs)) :
    lookupB st' name = some ⟨name, v, c, none⟩ := by
  obtain ⟨st₁, _, rs₁, hs₁, hr₁, _⟩ := run_cons hrun
  simp only [step, Option.some.injEq, Prod.mk.injEq] at hs₁
  obtain ⟨st₂, _, rs₂, hs₂, hr₂, _⟩ := run_cons hr₁
  rw [← hs₁.1, step_declOf_fresh] at hs₂
  simp only [Option.some.injEq, Prod.mk.injEq] at hs₂
  rw [← hs₂.1] at hr₂
  obtain ⟨pre', base', h1, _, h3, _, h5⟩ :=
    untouched_run name body [] ([⟨name, v, c, none⟩] :: st₀) k st' rs₂ hnt (by simp) (by simp) hfd hr₂
  rw [h1, lookupB_append_of_not_binds pre' base' name h3, h5]
  simp [lookupB, Frame.find, List.find?]

theorem step_declOf (st : Stack α) (name : String) (v : α) (c : Bool) :
    step st (declOf name v c) = declareB st ⟨name, v, c, none⟩ := by
  cases c <;> rfl

/-- spec level: once `name` has been declared (or found declared) in the current block, then after any well
bracketed continuation the current block still binds `name` — so declaring it again there is error 43 -/
theorem block_keeps_binding (st₀ : Stack α) (name : String) (v : α) (c : Bool) (body : List (Op α))
    (hseg : Segment body) (st' : Stack α) (rs : List (Res α))
    (hrun : run st₀ (declOf name v c :: body) = some (st', rs)) (v' : α) (c' : Bool) :
    step st' (declOf name v' c') = some (st', .err 43) := by
  obtain ⟨st₁, _, rs₁, hs₁, hr₁, _⟩ := run_cons hrun
  rw [step_declOf] at hs₁
  cases st₀ with
  | nil => simp [declareB] at hs₁
  | cons f rest =>
    have : ∃ fx, st₁ = fx :: rest ∧ Frame.binds fx name = true := by
      simp only [declareB] at hs₁
      by_cases hb : f.binds name = true
      · simp only [hb, if_true, Option.some.injEq, Prod.mk.injEq] at hs₁
        exact ⟨f, hs₁.1.symm, hb⟩
      · simp only [hb, Bool.false_eq_true, if_false, Option.some.injEq, Prod.mk.injEq] at hs₁
        exact ⟨_, hs₁.1.symm, by simp [Frame.binds]⟩
    obtain ⟨fx, rfl, hfx⟩ := this
    obtain ⟨pre', fx', base', h1, h2, h3, _, _⟩ := shielded_run name body [] fx rest 0 st' rs₁ hfx hseg hr₁
    have hp : pre' = [] := List.eq_nil_of_length_eq_zero h2
    subst hp
    simp only [List.nil_append] at h1
    subst h1
    rw [step_declOf]
    simp [declareB, h3]

/-- spec level: a constant stays what it is as long as nobody redeclares its name in between -/
theorem const_stays (st₀ : Stack α) (name : String) (w : α) (body : List (Op α)) (k : Nat)
    (hfd : finalDepth 0 body = some k) (hnt : ∀ op ∈ body, ¬ touches name op) (st' : Stack α) (rs : List (Res α))
    (hrun : run st₀ (.declareConst name w :: body) = some (st', .done :: rs)) :
    lookupB st' name = some ⟨name, w, true, none⟩ := by
  obtain ⟨st₁, r, rs₁, hs₁, hr₁, hrs⟩ := run_cons hrun
  simp only [List.cons.injEq] at hrs
  obtain ⟨rfl, rfl⟩ := hrs
  simp only [step] at hs₁
  cases st₀ with
  | nil => simp [declareB] at hs₁
  | cons f rest =>
    simp only [declareB] at hs₁
    by_cases hb : f.binds name = true
    · simp [hb] at hs₁
    · simp only [hb, Bool.false_eq_true, if_false, Option.some.injEq, Prod.mk.injEq, and_true] at hs₁
      subst hs₁
      obtain ⟨pre', base', h1, _, h3, _, h5⟩ :=
        untouched_run name body [] ((⟨name, w, true, none⟩ :: f) :: rest) k st' rs hnt (by simp) (by simp) hfd hr₁
      rw [h1, lookupB_append_of_not_binds pre' base' name h3, h5]
      simp [lookupB, Frame.find, List.find?]

/-! ### where the spec speaks -/

theorem step_length (st : Stack α) (hne : st ≠ []) (op : Op α) (h1 : op ≠ .beginScope) (h2 : op ≠ .endScope) :
    ∃ st' r, step st op = some (st', r) ∧ st'.length = st.length := by
  have hdecl : ∀ bd : Binding α, ∃ st' r, declareB st bd = some (st', r) ∧ st'.length = st.length := by
    intro bd
    cases st with
    | nil => exact absurd rfl hne
    | cons f rest =>
      by_cases hb : f.binds bd.name = true
      · exact ⟨f :: rest, .err 43, by simp [declareB, hb], rfl⟩
      · exact ⟨(bd :: f) :: rest, .done, by simp [declareB, hb], rfl⟩
  cases op with
  | beginScope => exact absurd rfl h1
  | endScope => exact absurd rfl h2
  | declare n v => exact hdecl _
  | declareConst n v => exact hdecl _
  | declareExternal n v m => exact hdecl _
  | assign n v =>
    simp only [step]
    cases lookupB st n with
    | none => exact ⟨_, _, rfl, rfl⟩
    | some b =>
      by_cases hc : b.isConst = true
      · exact ⟨st, .err 44, by simp [hc], rfl⟩
      · exact ⟨setB st n v, .done, by simp [hc], length_setB st n v⟩
  | lookup n => simp only [step]; cases lookupB st n <;> exact ⟨_, _, rfl, rfl⟩
  | lookupM n => simp only [step]; cases lookupB st n <;> exact ⟨_, _, rfl, rfl⟩

/-- the spec gives a history a meaning exactly when the history never closes a block that is not open -/
theorem run_defined_iff (ops : List (Op α)) : ∀ (st : Stack α), st ≠ [] →
    ((run st ops).isSome ↔ (finalDepth (st.length - 1) ops).isSome) := by
  induction ops with
  | nil => intro st _; simp [run, finalDepth]
  | cons op ops ih =>
    intro st hne
    by_cases h1 : op = .beginScope
    · subst h1
      have := ih ([] :: st) (by simp)
      have hl : ([] :: st).length - 1 = st.length - 1 + 1 := by
        cases st with
        | nil => exact absurd rfl hne
        | cons _ _ => simp
      rw [hl] at this
      simp only [run, step, finalDepth]
      rw [← this]
      cases run ([] :: st) ops with
      | none => simp
      | some p => simp
    · by_cases h2 : op = .endScope
      · subst h2
        cases st with
        | nil => exact absurd rfl hne
        | cons f rest =>
          cases rest with
          | nil => simp [run, step, finalDepth]
          | cons g r =>
            have := ih (g :: r) (by simp)
            simp only [List.length_cons, Nat.add_sub_cancel] at this ⊢
            simp only [run, step, finalDepth]
            rw [← this]
            cases run (g :: r) ops with
            | none => simp
            | some p => simp
      · obtain ⟨st', r, hs, hlen⟩ := step_length st hne op h1 h2
        have hne' : st' ≠ [] := by
          intro e; rw [e] at hlen
          cases st with
          | nil => exact hne rfl
          | cons _ _ => simp at hlen
        have := ih st' hne'
        rw [hlen] at this
        have hfd : finalDepth (st.length - 1) (op :: ops) = finalDepth (st.length - 1) ops := by
          cases op <;> first | rfl | exact absurd rfl h1 | exact absurd rfl h2
        rw [hfd, ← this]
        simp only [run, hs]
        cases run st' ops with
        | none => simp
        | some p => simp

end ZnVerif.Proofs.ScopeSpec
