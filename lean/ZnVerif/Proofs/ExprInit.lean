/-
The initial machine (`initVM`: the predefined names of exec/globals.go) and the initial spec state are
related by `EnvRel`, so the refinement theorem applies to real states (non-vacuity of its hypothesis).
-/
import ZnVerif.Proofs.ExprBase
set_option linter.unusedSectionVars false

namespace ZnVerif.Proofs
open ZnVerif.Model ZnVerif.Spec

variable {ν : Type} [NumOps ν]

/-- how the non-plain predefined cells read: the type 异常 and the two built-in methods -/
def initω : Addr → Option (SVal ν)
  | 3 => some (.cls "异常")
  | 4 => some (.builtinFn "显示")
  | 5 => some (.builtinFn "取随机数")
  | _ => none

theorem envRel_init : EnvRel (ν := ν) initω 0 (initVM ()) ({} : SState ν) := by
  intro name
  have hscope : getScope (initVM (ν := ν) ()).csModuleID (initVM (ν := ν) ()) = none := rfl
  by_cases h1 : name = "真"
  · subst h1; simp [visible, specVisible, initVM, lookup, predefVal, contentW]
  by_cases h2 : name = "假"
  · subst h2; simp [visible, specVisible, initVM, lookup, predefVal, contentW]
  by_cases h3 : name = "空"
  · subst h3; simp [visible, specVisible, initVM, lookup, predefVal, contentW]
  by_cases h4 : name = "异常"
  · subst h4; simp [visible, specVisible, initVM, lookup, predefVal, contentW, initω, isOpaque, exceptionClassName]
  by_cases h5 : name = "显示"
  · subst h5; simp [visible, specVisible, initVM, lookup, predefVal, contentW, initω, isOpaque]
  by_cases h6 : name = "取随机数"
  · subst h6; simp [visible, specVisible, initVM, lookup, predefVal, contentW, initω, isOpaque]
  by_cases h7 : name = "数值"
  · subst h7; simp [visible, specVisible, initVM, lookup, predefVal, contentW]
  · have hv : visible (initVM (ν := ν) ()) name = none := by
      simp only [visible, hscope]
      simp [initVM, lookup, h1, h2, h3, h4, h5, h6, h7]
    have hp : predefVal (ν := ν) name = none := by
      unfold predefVal
      split <;> simp_all
    simp [hv, specVisible, hp, findB]

end ZnVerif.Proofs
